/-
  Lemmas about the share record (`VaultShares`) and the several-vault world of x/earn
  (Model/EarnShares.lean).  Property statements are in Props/C11.lean.
-/
import KavaVerif.Model.EarnShares
import KavaVerif.Proofs.Earn
set_option linter.unusedSimpArgs false
set_option linter.unusedVariables false

namespace KV.Earn
namespace Shares

/-- strictly ascending denoms: sorted and duplicate-free -/
def SSorted (l : Shares) : Prop := l.Pairwise (fun x y => x.1 < y.1)

/-- what `VaultShares.Validate` accepts: strictly ascending denoms, positive amounts -/
def Valid (l : Shares) : Prop := SSorted l ∧ ∀ s ∈ l, 0 < s.2

theorem amountOf_of_lb (l : Shares) (k : Nat) (h : ∀ x ∈ l, k < x.1) : amountOf l k = 0 := by
  induction l with
  | nil => rfl
  | cons s r ih =>
    have hs := h s List.mem_cons_self
    have hne : ¬ s.1 = k := by omega
    simp only [amountOf]
    rw [if_neg hne]
    exact ih (fun x hx => h x (List.mem_cons_of_mem _ hx))

theorem amountOf_cons_eq (s : Nat × Int) (r : Shares) : amountOf (s :: r) s.1 = s.2 := by
  simp [amountOf]

theorem amountOf_cons_ne (s : Nat × Int) (r : Shares) (d : Nat) (h : s.1 ≠ d) :
    amountOf (s :: r) d = amountOf r d := by
  simp [amountOf, h]

theorem amountOf_mem (l : Shares) (hl : SSorted l) (s : Nat × Int) (hs : s ∈ l) : amountOf l s.1 = s.2 := by
  induction l with
  | nil => cases hs
  | cons t r ih =>
    unfold SSorted at hl
    rw [List.pairwise_cons] at hl
    simp only [amountOf]
    rcases List.mem_cons.mp hs with rfl | hr
    · rw [if_pos rfl]
    · have := hl.1 s hr
      have hne : ¬ t.1 = s.1 := by omega
      rw [if_neg hne]
      exact ih hl.2 hr

theorem amountOf_notin (l : Shares) (d : Nat) (h : ∀ x ∈ l, x.1 ≠ d) : amountOf l d = 0 := by
  induction l with
  | nil => rfl
  | cons s r ih =>
    simp only [amountOf]
    rw [if_neg (h s List.mem_cons_self)]
    exact ih (fun x hx => h x (List.mem_cons_of_mem _ hx))

theorem amountOf_nonneg (l : Shares) (h : ∀ s ∈ l, 0 ≤ s.2) (d : Nat) : 0 ≤ amountOf l d := by
  induction l with
  | nil => simp [amountOf]
  | cons s r ih =>
    simp only [amountOf]
    split
    · exact h s List.mem_cons_self
    · exact ih (fun x hx => h x (List.mem_cons_of_mem _ hx))

theorem SSorted.tail {a : Nat × Int} {l : Shares} (h : SSorted (a :: l)) : SSorted l := by
  unfold SSorted at h ⊢; exact (List.pairwise_cons.mp h).2

theorem SSorted.head_lt {a : Nat × Int} {l : Shares} (h : SSorted (a :: l)) : ∀ x ∈ l, a.1 < x.1 := by
  unfold SSorted at h; exact (List.pairwise_cons.mp h).1

theorem SSorted.cons {a : Nat × Int} {l : Shares} (h : SSorted l) (hlt : ∀ x ∈ l, a.1 < x.1) :
    SSorted (a :: l) := by
  unfold SSorted at h ⊢; exact List.pairwise_cons.mpr ⟨hlt, h⟩

theorem removeZero_sorted (l : Shares) (h : SSorted l) : SSorted (removeZero l) := by
  unfold SSorted removeZero at *; exact h.filter _

theorem removeZero_mem (l : Shares) (s : Nat × Int) (h : s ∈ removeZero l) : s ∈ l ∧ s.2 ≠ 0 := by
  unfold removeZero at h
  have := List.mem_filter.mp h
  exact ⟨this.1, by simpa using this.2⟩

theorem removeZero_amountOf (l : Shares) (h : SSorted l) (d : Nat) :
    amountOf (removeZero l) d = amountOf l d := by
  induction l with
  | nil => rfl
  | cons s r ih =>
    have ih' := ih h.tail
    by_cases hz : s.2 = 0
    · have e : removeZero (s :: r) = removeZero r := by
        unfold removeZero; rw [List.filter_cons]; simp [hz]
      rw [e, ih']
      simp only [amountOf]
      split
      · rename_i hd
        rw [hz, ← hd]
        exact amountOf_of_lb r s.1 h.head_lt
      · rfl
    · have e : removeZero (s :: r) = s :: removeZero r := by
        unfold removeZero; rw [List.filter_cons]; simp [hz]
      rw [e]
      simp only [amountOf, ih']

/-- partial correctness of the `safeAdd` loop on strictly sorted operands: the result is strictly
    sorted (duplicate-free), has no zero entry, is the pointwise sum, and contains no denom below a
    common lower bound of the operands -/
theorem merge_spec (A B : Shares) : SSorted A → SSorted B → ∀ R, merge A B = some R →
    SSorted R ∧ (∀ s ∈ R, s.2 ≠ 0) ∧ (∀ d, amountOf R d = amountOf A d + amountOf B d) ∧
    (∀ k, (∀ x ∈ A, k < x.1) → (∀ y ∈ B, k < y.1) → ∀ s ∈ R, k < s.1) := by
  fun_induction merge A B with
  | case1 B =>
    intro _ hB R hR
    cases hR
    refine ⟨removeZero_sorted B hB, fun s hs => (removeZero_mem B s hs).2, fun d => ?_, fun k _ hb s hs => ?_⟩
    · rw [removeZero_amountOf B hB]; simp [amountOf]
    · exact hb s (removeZero_mem B s hs).1
  | case2 a A =>
    intro hA _ R hR
    cases hR
    refine ⟨removeZero_sorted _ hA, fun s hs => (removeZero_mem _ s hs).2, fun d => ?_, fun k ha _ s hs => ?_⟩
    · rw [removeZero_amountOf _ hA]; simp [amountOf]
    · exact ha s (removeZero_mem _ s hs).1
  | case3 a A b B hlt ih =>
    intro hA hB R hR
    obtain ⟨r, hr, rfl⟩ := Option.map_eq_some_iff.mp hR
    obtain ⟨i1, i2, i3, i4⟩ := ih hA.tail hB r hr
    have hbB : ∀ y ∈ b :: B, a.1 < y.1 := by
      intro y hy
      rcases List.mem_cons.mp hy with rfl | hy'
      · exact hlt
      · have := hB.head_lt y hy'; omega
    have hlb : ∀ s ∈ r, a.1 < s.1 := i4 a.1 hA.head_lt hbB
    have hB0 : amountOf (b :: B) a.1 = 0 := amountOf_of_lb _ _ hbB
    have hA0 : amountOf A a.1 = 0 := amountOf_of_lb _ _ hA.head_lt
    have hr0 : amountOf r a.1 = 0 := amountOf_of_lb _ _ hlb
    by_cases hz : a.2 = 0
    · simp only [hz, ite_true]
      refine ⟨i1, i2, fun d => ?_, fun k ha hb s hs => i4 k (fun x hx => ha x (List.mem_cons_of_mem _ hx)) hb s hs⟩
      by_cases hd : a.1 = d
      · subst hd; rw [amountOf_cons_eq, hr0, hB0]; omega
      · rw [amountOf_cons_ne a A d hd]; exact i3 d
    · simp only [hz, ite_false]
      refine ⟨SSorted.cons i1 hlb, ?_, fun d => ?_, ?_⟩
      · intro s hs
        rcases List.mem_cons.mp hs with rfl | hs'
        · exact hz
        · exact i2 s hs'
      · by_cases hd : a.1 = d
        · subst hd; rw [amountOf_cons_eq, amountOf_cons_eq, hB0]; omega
        · rw [amountOf_cons_ne a A d hd, amountOf_cons_ne a r d hd]; exact i3 d
      · intro k ha hb s hs
        rcases List.mem_cons.mp hs with rfl | hs'
        · exact ha _ List.mem_cons_self
        · exact i4 k (fun x hx => ha x (List.mem_cons_of_mem _ hx)) hb s hs'
  | case4 a A b B hnlt heq hneg =>
    intro _ _ R hR; cases hR
  | case5 a A b B hnlt heq hnneg ih =>
    intro hA hB R hR
    obtain ⟨r, hr, rfl⟩ := Option.map_eq_some_iff.mp hR
    obtain ⟨i1, i2, i3, i4⟩ := ih hA.tail hB.tail r hr
    have hBa : ∀ y ∈ B, a.1 < y.1 := by intro y hy; have := hB.head_lt y hy; omega
    have hlb : ∀ s ∈ r, a.1 < s.1 := i4 a.1 hA.head_lt hBa
    have hA0 : amountOf A a.1 = 0 := amountOf_of_lb _ _ hA.head_lt
    have hB0 : amountOf B a.1 = 0 := amountOf_of_lb _ _ hBa
    have hr0 : amountOf r a.1 = 0 := amountOf_of_lb _ _ hlb
    have hbe : amountOf (b :: B) a.1 = b.2 := by rw [heq]; exact amountOf_cons_eq b B
    by_cases hz : a.2 + b.2 = 0
    · simp only [hz, ite_true]
      refine ⟨i1, i2, fun d => ?_, fun k ha hb s hs =>
        i4 k (fun x hx => ha x (List.mem_cons_of_mem _ hx)) (fun y hy => hb y (List.mem_cons_of_mem _ hy)) s hs⟩
      by_cases hd : a.1 = d
      · subst hd; rw [amountOf_cons_eq, hbe, hr0]; omega
      · have hd' : b.1 ≠ d := by omega
        rw [amountOf_cons_ne a A d hd, amountOf_cons_ne b B d hd']; exact i3 d
    · simp only [hz, ite_false]
      refine ⟨SSorted.cons i1 hlb, ?_, fun d => ?_, ?_⟩
      · intro s hs
        rcases List.mem_cons.mp hs with rfl | hs'
        · exact hz
        · exact i2 s hs'
      · by_cases hd : a.1 = d
        · subst hd
          rw [amountOf_cons_eq a A, hbe]
          exact amountOf_cons_eq (a.1, a.2 + b.2) r
        · have hd' : b.1 ≠ d := by omega
          rw [amountOf_cons_ne a A d hd, amountOf_cons_ne b B d hd', amountOf_cons_ne (a.1, a.2 + b.2) r d hd]
          exact i3 d
      · intro k ha hb s hs
        rcases List.mem_cons.mp hs with rfl | hs'
        · exact ha a List.mem_cons_self
        · exact i4 k (fun x hx => ha x (List.mem_cons_of_mem _ hx)) (fun y hy => hb y (List.mem_cons_of_mem _ hy)) s hs'
  | case6 a A b B hnlt hneq ih =>
    intro hA hB R hR
    obtain ⟨r, hr, rfl⟩ := Option.map_eq_some_iff.mp hR
    obtain ⟨i1, i2, i3, i4⟩ := ih hA hB.tail r hr
    have hgt : b.1 < a.1 := by omega
    have haA : ∀ x ∈ a :: A, b.1 < x.1 := by
      intro x hx
      rcases List.mem_cons.mp hx with rfl | hx'
      · exact hgt
      · have := hA.head_lt x hx'; omega
    have hlb : ∀ s ∈ r, b.1 < s.1 := i4 b.1 haA hB.head_lt
    have hA0 : amountOf (a :: A) b.1 = 0 := amountOf_of_lb _ _ haA
    have hB0 : amountOf B b.1 = 0 := amountOf_of_lb _ _ hB.head_lt
    have hr0 : amountOf r b.1 = 0 := amountOf_of_lb _ _ hlb
    by_cases hz : b.2 = 0
    · simp only [hz, ite_true]
      refine ⟨i1, i2, fun d => ?_, fun k ha hb s hs => i4 k ha (fun y hy => hb y (List.mem_cons_of_mem _ hy)) s hs⟩
      by_cases hd : b.1 = d
      · subst hd; rw [amountOf_cons_eq, hr0, hA0]; omega
      · rw [amountOf_cons_ne b B d hd]; exact i3 d
    · simp only [hz, ite_false]
      refine ⟨SSorted.cons i1 hlb, ?_, fun d => ?_, ?_⟩
      · intro s hs
        rcases List.mem_cons.mp hs with rfl | hs'
        · exact hz
        · exact i2 s hs'
      · by_cases hd : b.1 = d
        · subst hd; rw [amountOf_cons_eq, amountOf_cons_eq, hA0]; omega
        · rw [amountOf_cons_ne b B d hd, amountOf_cons_ne b r d hd]; exact i3 d
      · intro k ha hb s hs
        rcases List.mem_cons.mp hs with rfl | hs'
        · exact hb _ List.mem_cons_self
        · exact i4 k ha (fun y hy => hb y (List.mem_cons_of_mem _ hy)) s hs'

/-- the loop does not panic when no pair of equal denoms has a negative sum -/
theorem merge_total (A B : Shares) :
    (∀ a ∈ A, ∀ b ∈ B, a.1 = b.1 → 0 ≤ a.2 + b.2) → ∃ R, merge A B = some R := by
  fun_induction merge A B with
  | case1 B => intro _; exact ⟨_, rfl⟩
  | case2 a A => intro _; exact ⟨_, rfl⟩
  | case3 a A b B hlt ih =>
    intro h
    obtain ⟨r, hr⟩ := ih (fun x hx y hy => h x (List.mem_cons_of_mem _ hx) y hy)
    exact ⟨_, by rw [hr]; rfl⟩
  | case4 a A b B hnlt heq hneg =>
    intro h
    have := h a List.mem_cons_self b List.mem_cons_self heq
    omega
  | case5 a A b B hnlt heq hnneg ih =>
    intro h
    obtain ⟨r, hr⟩ := ih (fun x hx y hy => h x (List.mem_cons_of_mem _ hx) y (List.mem_cons_of_mem _ hy))
    exact ⟨_, by rw [hr]; rfl⟩
  | case6 a A b B hnlt hneq ih =>
    intro h
    obtain ⟨r, hr⟩ := ih (fun x hx y hy => h x hx y (List.mem_cons_of_mem _ hy))
    exact ⟨_, by rw [hr]; rfl⟩

theorem isSorted_of_SSorted (l : Shares) (h : SSorted l) : isSorted l = true := by
  induction l with
  | nil => rfl
  | cons a r ih =>
    cases r with
    | nil => rfl
    | cons b r' =>
      have := h.head_lt b List.mem_cons_self
      simp only [isSorted, Bool.and_eq_true, decide_eq_true_eq]
      exact ⟨by omega, ih h.tail⟩

theorem isValid_iff (l : Shares) : isValid l = true ↔ Valid l := by
  induction l with
  | nil => simp [isValid, Valid, SSorted]
  | cons a r ih =>
    cases r with
    | nil => simp [isValid, Valid, SSorted]
    | cons b r' =>
      simp only [isValid, Bool.and_eq_true, decide_eq_true_eq, ih]
      constructor
      · rintro ⟨⟨ha, hab⟩, hs, hp⟩
        refine ⟨SSorted.cons hs ?_, ?_⟩
        · intro x hx
          rcases List.mem_cons.mp hx with rfl | hx'
          · exact hab
          · have := hs.head_lt x hx'; omega
        · intro s hs'
          rcases List.mem_cons.mp hs' with rfl | h'
          · exact ha
          · exact hp s h'
      · rintro ⟨hs, hp⟩
        exact ⟨⟨hp a List.mem_cons_self, hs.head_lt b List.mem_cons_self⟩, hs.tail,
          fun s h' => hp s (List.mem_cons_of_mem _ h')⟩

/-- `VaultShares.Add` on a valid record and a strictly sorted set of non-negative shares: no panic,
    the result is valid (sorted, duplicate-free, positive) and is the pointwise sum -/
theorem add_spec (A B : Shares) (hA : Valid A) (hB : SSorted B) (hB0 : ∀ b ∈ B, 0 ≤ b.2) :
    ∃ R, add A B = .ok R ∧ Valid R ∧ ∀ d, amountOf R d = amountOf A d + amountOf B d := by
  obtain ⟨R, hR⟩ := merge_total A B (fun a ha b hb _ => by have := hA.2 a ha; have := hB0 b hb; omega)
  obtain ⟨s1, s2, s3, -⟩ := merge_spec A B hA.1 hB R hR
  refine ⟨R, ?_, ⟨s1, fun s hs => ?_⟩, s3⟩
  · unfold add
    simp [isSorted_of_SSorted A hA.1, isSorted_of_SSorted B hB, hR]
  · have h1 := amountOf_mem R s1 s hs
    have h2 := s3 s.1
    have h3 := amountOf_nonneg A (fun x hx => by have := hA.2 x hx; omega) s.1
    have h4 := amountOf_nonneg B hB0 s.1
    have := s2 s hs
    omega

theorem negative_sorted (B : Shares) (h : SSorted B) : SSorted (negative B) := by
  unfold SSorted negative at *
  exact List.pairwise_map.mpr h

theorem negative_amountOf (B : Shares) (d : Nat) : amountOf (negative B) d = - amountOf B d := by
  induction B with
  | nil => simp [negative, amountOf]
  | cons s r ih =>
    unfold negative at ih ⊢
    simp only [List.map_cons, amountOf]
    split
    · rfl
    · exact ih

/-- `VaultShares.Sub` on a valid record and a strictly sorted set of non-negative shares none of
    which exceeds the record: no panic, the result is valid and is the pointwise difference -/
theorem sub_spec (A B : Shares) (hA : Valid A) (hB : SSorted B) (hB0 : ∀ b ∈ B, 0 ≤ b.2)
    (hle : ∀ d, amountOf B d ≤ amountOf A d) :
    ∃ R, sub A B = .ok R ∧ Valid R ∧ ∀ d, amountOf R d = amountOf A d - amountOf B d := by
  have hnB := negative_sorted B hB
  obtain ⟨R, hR⟩ := merge_total A (negative B) (fun a ha b hb hab => by
    have h1 := amountOf_mem A hA.1 a ha
    have h2 := amountOf_mem (negative B) hnB b hb
    have h3 := negative_amountOf B b.1
    have h4 := hle b.1
    rw [hab] at h1
    omega)
  obtain ⟨s1, s2, s3, -⟩ := merge_spec A (negative B) hA.1 hnB R hR
  have hpos : ∀ s ∈ R, 0 < s.2 := by
    intro s hs
    have h1 := amountOf_mem R s1 s hs
    have h2 := s3 s.1
    have h3 := negative_amountOf B s.1
    have h4 := hle s.1
    have := s2 s hs
    omega
  refine ⟨R, ?_, ⟨s1, hpos⟩, fun d => by rw [s3 d, negative_amountOf]; omega⟩
  unfold sub add
  simp only [isSorted_of_SSorted A hA.1, isSorted_of_SSorted _ hnB, hR, not_true_eq_false, ite_false]
  have : R.any (fun s => decide (s.2 < 0)) = false := by
    rw [List.any_eq_false]
    intro s hs
    have := hpos s hs
    simp; omega
  simp [this]

theorem single_sorted (d : Nat) (x : Int) : SSorted [(d, x)] := by
  unfold SSorted; exact List.pairwise_singleton _ _

theorem single_amountOf (d : Nat) (x : Int) (w : Nat) :
    amountOf [(d, x)] w = if w = d then x else 0 := by
  simp only [amountOf]
  by_cases h : d = w
  · rw [if_pos h, if_pos h.symm]
  · rw [if_neg h, if_neg (fun e => h e.symm)]

/-- a valid record with no zero entry is `IsZero` exactly when it is empty -/
theorem isZero_valid (l : Shares) (h : Valid l) : isZero l = true ↔ l = [] := by
  constructor
  · intro hz
    cases l with
    | nil => rfl
    | cons s r =>
      unfold isZero at hz
      have := (List.all_eq_true.mp hz) s List.mem_cons_self
      have := h.2 s List.mem_cons_self
      simp at *; omega
  · intro e; subst e; rfl

end Shares

open Shares

/-! ## several vaults -/

/-- invariant of the several-vault world: every vault satisfies the single-vault invariant on its
    view (total shares = Σ over `accts` of the accounts' `AmountOf`, …) and every account's record
    is valid (strictly sorted by denom, duplicate-free, positive amounts) -/
def MInv (accts : List Addr) (m : MSt) : Prop :=
  (∀ v, Inv accts (view m v)) ∧ ∀ a, Valid (m.recs a)

theorem St.ext' (s t : St) (h1 : s.found = t.found) (h2 : s.tot = t.tot) (h3 : ∀ a, s.sh a = t.sh a)
    (h4 : s.val = t.val) (h5 : s.loose = t.loose) (h6 : ∀ a, s.bal a = t.bal a) : s = t := by
  cases s; cases t
  simp only [St.mk.injEq] at *
  exact ⟨h1, h2, funext h3, h4, h5, funext h6⟩

/-- what a successful single-vault step means for the several-vault world: `mstep` succeeds too
    (the record operations do not panic), the stepped vault's view is the single-vault result, every
    other vault's view, every other account's record and every other balance are untouched, and
    every record stays valid -/
theorem mstep_lift (accts : List Addr) (m : MSt) (v : Nat) (o : Op) (s' : St)
    (hact : ∀ a, o.actor = some a → a ∈ accts) (hinv : MInv accts m)
    (hs : step (view m v) o = .ok s') :
    ∃ m', mstep m v o = .ok m' ∧ view m' v = s' ∧ (∀ w, w ≠ v → view m' w = view m w) ∧
      (∀ b, o.actor ≠ some b → m'.recs b = m.recs b ∧ m'.bal b = m.bal b) ∧
      (∀ b w, w ≠ v → amountOf (m'.recs b) w = amountOf (m.recs b) w ∧ m'.bal b w = m.bal b w) ∧
      (∀ w, w ≠ v → m'.vault w = m.vault w) ∧ (∀ b, Valid (m'.recs b)) := by
  have hv := hinv.1 v
  cases o with
  | accrue dv =>
    refine ⟨{ m with vault := updVault m.vault v (coreOf s') }, by simp only [mstep, hs], ?_, ?_, ?_, ?_, ?_, hinv.2⟩
    · simp only [step] at hs
      split at hs
      · cases hs
      · cases hs
        apply St.ext' <;> simp [view, updVault, coreOf]
    · intro w hw; simp [view, updVault, hw]
    · intro b _; exact ⟨rfl, rfl⟩
    · intro b w _; exact ⟨rfl, rfl⟩
    · intro w hw; simp [updVault, hw]
  | deposit a x vo so ao =>
    have hd : deposit (view m v) a x vo so ao = .ok s' := hs
    obtain ⟨shares, hx, hb, hp, -, -, r1, r2, r3, r4, r5, r6⟩ :=
      deposit_arith accts (view m v) s' a x vo so ao hv hd
    have hδ : s'.sh a - amountOf (m.recs a) v = shares := by
      rw [r3]; simp [upd, view]; omega
    obtain ⟨R, hR, hRv, hRa⟩ := add_spec (m.recs a) [(v, shares)] (hinv.2 a) (single_sorted v shares)
      (by intro b hb; simp at hb; subst hb; simp; omega)
    refine ⟨{ recs := updRec m.recs a R, vault := updVault m.vault v (coreOf s'), bal := updBal m.bal a v (s'.bal a) },
      by simp only [mstep, hs, hδ, hR], ?_, ?_, ?_, ?_, ?_, ?_⟩
    · apply St.ext'
      · simp [view, updVault, coreOf]
      · simp [view, updVault, coreOf]
      · intro b
        simp only [view, updRec]
        by_cases hba : b = a
        · subst hba
          simp only [ite_true]
          rw [hRa v, single_amountOf, if_pos rfl, r3]; simp [upd, view]
        · simp only [hba, ite_false]
          rw [r3]; simp [upd, hba, view]
      · simp [view, updVault, coreOf]
      · simp [view, updVault, coreOf]
      · intro b
        simp only [view, updBal]
        by_cases hba : b = a
        · subst hba; simp
        · simp only [hba, false_and, ite_false]
          rw [r6]; simp [upd, hba, view]
    · intro w hw
      apply St.ext' <;> simp only [view, updVault, updRec, updBal, hw, ite_false, and_false]
      · intro b
        by_cases hba : b = a
        · subst hba
          simp only [ite_true]
          rw [hRa w, single_amountOf, if_neg hw]; omega
        · simp only [hba, ite_false]
      · intro b; trivial
    · intro b hb
      have hba : b ≠ a := fun e => hb (by simp [Op.actor, e])
      refine ⟨by simp [updRec, hba], ?_⟩
      funext w; simp [updBal, hba]
    · intro b w hw
      refine ⟨?_, by simp [updBal, hw]⟩
      simp only [updRec]
      by_cases hba : b = a
      · subst hba
        simp only [ite_true]
        rw [hRa w, single_amountOf, if_neg hw]; omega
      · simp only [hba, ite_false]
    · intro w hw; simp [updVault, hw]
    · intro b
      simp only [updRec]
      by_cases hba : b = a
      · subst hba; simp only [ite_true]; exact hRv
      · simp only [hba, ite_false]; exact hinv.2 b
  | withdraw a want vo so =>
    have hw : withdraw (view m v) a want vo so = .ok s' := hs
    obtain ⟨w, w', amt, hwant, hf, hT, hV, hweq, hwpos, hle, hsa, hamt, hamt0, hav, hamtV, hwant', hw', hww', hw'le,
      r1, r2, r3, r4, r5, r6⟩ := withdraw_arith accts (view m v) s' a want vo so (hact a rfl) hv hw
    have hsha : (view m v).sh a = amountOf (m.recs a) v := rfl
    have hδ : amountOf (m.recs a) v - s'.sh a = w' := by
      rw [r3]; simp [upd, view]; omega
    obtain ⟨R, hR, hRv, hRa⟩ := sub_spec (m.recs a) [(v, w')] (hinv.2 a) (single_sorted v w')
      (by intro b hb; simp at hb; subst hb; simp; omega)
      (by
        intro d
        rw [single_amountOf]
        split
        · rename_i hd; subst hd; rw [← hsha]; exact hw'le
        · exact amountOf_nonneg _ (fun x hx => by have := (hinv.2 a).2 x hx; omega) d)
    have hR' : (if isZero R = true then [] else R) = R := by
      split
      · rename_i hz; exact ((isZero_valid R hRv).mp hz).symm
      · rfl
    refine ⟨{ recs := updRec m.recs a R, vault := updVault m.vault v (coreOf s'), bal := updBal m.bal a v (s'.bal a) },
      by simp only [mstep, hs, hδ, hR, hR'], ?_, ?_, ?_, ?_, ?_, ?_⟩
    · apply St.ext'
      · simp [view, updVault, coreOf]
      · simp [view, updVault, coreOf]
      · intro b
        simp only [view, updRec]
        by_cases hba : b = a
        · subst hba
          simp only [ite_true]
          rw [hRa v, single_amountOf, if_pos rfl, r3]; simp [upd, view]
        · simp only [hba, ite_false]
          rw [r3]; simp [upd, hba, view]
      · simp [view, updVault, coreOf]
      · simp [view, updVault, coreOf]
      · intro b
        simp only [view, updBal]
        by_cases hba : b = a
        · subst hba; simp
        · simp only [hba, false_and, ite_false]
          rw [r6]; simp [upd, hba, view]
    · intro u hu
      apply St.ext' <;> simp only [view, updVault, updRec, updBal, hu, ite_false, and_false]
      · intro b
        by_cases hba : b = a
        · subst hba
          simp only [ite_true]
          rw [hRa u, single_amountOf, if_neg hu]; omega
        · simp only [hba, ite_false]
      · intro b; trivial
    · intro b hb
      have hba : b ≠ a := fun e => hb (by simp [Op.actor, e])
      refine ⟨by simp [updRec, hba], ?_⟩
      funext u; simp [updBal, hba]
    · intro b u hu
      refine ⟨?_, by simp [updBal, hu]⟩
      simp only [updRec]
      by_cases hba : b = a
      · subst hba
        simp only [ite_true]
        rw [hRa u, single_amountOf, if_neg hu]; omega
      · simp only [hba, ite_false]
    · intro u hu; simp [updVault, hu]
    · intro b
      simp only [updRec]
      by_cases hba : b = a
      · subst hba; simp only [ite_true]; exact hRv
      · simp only [hba, ite_false]; exact hinv.2 b

/-- `mstep` follows the single-vault step: an error or panic there is an error or panic here -/
theorem mstep_fail (m : MSt) (v : Nat) (o : Op) (h : ∀ s', step (view m v) o ≠ .ok s') :
    ∀ m', mstep m v o ≠ .ok m' := by
  intro m' hm
  unfold mstep at hm
  split at hm
  · cases hm
  · cases hm
  · rename_i s' hs; exact h s' hs

theorem mnext_inv (accts : List Addr) (hn : accts.Nodup) (m : MSt) (vo : Nat × Op)
    (hact : ∀ a, vo.2.actor = some a → a ∈ accts) (hinv : MInv accts m) : MInv accts (mnext m vo) := by
  obtain ⟨v, o⟩ := vo
  cases hs : step (view m v) o with
  | ok s' =>
    obtain ⟨m', hm, h1, h2, -, -, -, h6⟩ := mstep_lift accts m v o s' hact hinv hs
    have e : mnext m (v, o) = m' := by unfold mnext; simp only [hm]
    rw [e]
    refine ⟨fun u => ?_, h6⟩
    by_cases hu : u = v
    · subst hu; rw [h1]; exact step_inv accts hn _ s' o hact (hinv.1 u) hs
    · rw [h2 u hu]; exact hinv.1 u
  | err =>
    have : mnext m (v, o) = m := by unfold mnext mstep; simp only [hs]
    rw [this]; exact hinv
  | panic =>
    have : mnext m (v, o) = m := by unfold mnext mstep; simp only [hs]
    rw [this]; exact hinv

theorem mrun_inv (accts : List Addr) (hn : accts.Nodup) (ops : List (Nat × Op)) :
    ∀ m, (∀ vo ∈ ops, ∀ a, vo.2.actor = some a → a ∈ accts) → MInv accts m → MInv accts (mrun m ops) := by
  induction ops with
  | nil => intro m _ h; exact h
  | cons o os ih =>
    intro m ha hinv
    unfold mrun
    simp only [List.foldl_cons]
    exact ih (mnext m o) (fun o' ho' => ha o' (List.mem_cons_of_mem _ ho'))
      (mnext_inv accts hn m o (ha o List.mem_cons_self) hinv)

/-- the view of the stepped vault is the single-vault `next` of the view -/
theorem mnext_view (accts : List Addr) (m : MSt) (v : Nat) (o : Op)
    (hact : ∀ a, o.actor = some a → a ∈ accts) (hinv : MInv accts m) :
    view (mnext m (v, o)) v = next (view m v) o := by
  cases hs : step (view m v) o with
  | ok s' =>
    obtain ⟨m', hm, h1, -⟩ := mstep_lift accts m v o s' hact hinv hs
    have e : mnext m (v, o) = m' := by unfold mnext; simp only [hm]
    rw [e, h1]; unfold next; rw [hs]
  | err =>
    have : mnext m (v, o) = m := by unfold mnext mstep; simp only [hs]
    rw [this]; unfold next; rw [hs]
  | panic =>
    have : mnext m (v, o) = m := by unfold mnext mstep; simp only [hs]
    rw [this]; unfold next; rw [hs]

/-- frame of any operation on vault `v` by account `o.actor`, successful or not -/
theorem mnext_frame (accts : List Addr) (m : MSt) (v : Nat) (o : Op)
    (hact : ∀ a, o.actor = some a → a ∈ accts) (hinv : MInv accts m) :
    (∀ b, o.actor ≠ some b → (mnext m (v, o)).recs b = m.recs b ∧ (mnext m (v, o)).bal b = m.bal b) ∧
    (∀ b w, w ≠ v → amountOf ((mnext m (v, o)).recs b) w = amountOf (m.recs b) w ∧
                     (mnext m (v, o)).bal b w = m.bal b w) ∧
    (∀ w, w ≠ v → (mnext m (v, o)).vault w = m.vault w) := by
  cases hs : step (view m v) o with
  | ok s' =>
    obtain ⟨m', hm, -, -, h3, h4, h5, -⟩ := mstep_lift accts m v o s' hact hinv hs
    have e : mnext m (v, o) = m' := by unfold mnext; simp only [hm]
    rw [e]; exact ⟨h3, h4, h5⟩
  | err =>
    have : mnext m (v, o) = m := by unfold mnext mstep; simp only [hs]
    rw [this]; exact ⟨fun _ _ => ⟨rfl, rfl⟩, fun _ _ _ => ⟨rfl, rfl⟩, fun _ _ => rfl⟩
  | panic =>
    have : mnext m (v, o) = m := by unfold mnext mstep; simp only [hs]
    rw [this]; exact ⟨fun _ _ => ⟨rfl, rfl⟩, fun _ _ _ => ⟨rfl, rfl⟩, fun _ _ => rfl⟩

theorem mempty_inv (accts : List Addr) (funds : Addr → Nat → Int) :
    MInv accts { mempty with bal := funds } := by
  refine ⟨fun v => ?_, fun a => ⟨List.Pairwise.nil, fun s hs => by cases hs⟩⟩
  have := empty_inv accts
  obtain ⟨i1, i2, i3, i4⟩ := this
  exact ⟨fun a => by simp [view, mempty, amountOf], by simpa [view, mempty, amountOf, empty] using i2,
    by simp [view, mempty], by simp [view, mempty]⟩

/-- the shares an operation adds to / removes from the acting account are exactly what it adds to /
    removes from the vault's total (what the harness's log of deposits and withdrawals records) -/
theorem step_delta (accts : List Addr) (s s' : St) (o : Op) (a : Addr) (ha : a ∈ accts)
    (hact : o.actor = some a) (hinv : Inv accts s) (h : step s o = .ok s') :
    s'.sh a - s.sh a = s'.tot - s.tot := by
  cases o with
  | accrue dv => simp [Op.actor] at hact
  | deposit b x vo so ao =>
    simp only [Op.actor, Option.some.injEq] at hact; subst hact
    obtain ⟨shares, -, -, -, -, -, -, r2, r3, -, -, -⟩ := deposit_arith accts s s' b x vo so ao hinv h
    rw [r2, r3]; simp [upd]; omega
  | withdraw b want vo so =>
    simp only [Op.actor, Option.some.injEq] at hact; subst hact
    obtain ⟨w, w', amt, -, -, -, -, -, -, -, -, -, -, -, -, -, -, -, -, -, r2, r3, -, -, -⟩ :=
      withdraw_arith accts s s' b want vo so ha hinv h
    rw [r2, r3]; simp [upd]; omega

/-- "an account can always withdraw its redeemable value": from a state satisfying the invariant, an
    account whose redeemable value is positive succeeds in withdrawing exactly that value, provided
    the share price does not exceed 10^18 coins per whole share (`val ≤ tot` in mantissa units; the
    converted share count of a coin would otherwise truncate to zero) and the module account's own
    balance is not negative.  (That the strategy can pay is the monitored liquidity assumption.) -/
theorem withdraw_redeemable_ok (accts : List Addr) (s : St) (a : Addr) (ha : a ∈ accts)
    (hinv : Inv accts s) (hpos : 0 < redeemable s a) (hprice : s.val ≤ s.tot) (hl : 0 ≤ s.loose) :
    ∃ s', withdraw s a (redeemable s a) true true = .ok s' := by
  have hf : s.found = true := by
    cases hh : s.found with
    | true => rfl
    | false => rw [redeemable_notfound s a hh] at hpos; omega
  have hT := hinv.tot_pos hf
  have hV0 := hinv.2.2.1
  have hsh := hinv.1 a
  have hsa : s.sh a ≤ s.tot := by rw [hinv.2.1]; exact le_sumOver accts s.sh hinv.1 a ha
  rw [redeemable_found accts s a hinv hf] at hpos ⊢
  have hV : 0 < s.val := by
    by_cases hz : s.val = 0
    · rw [hz] at hpos; simp at hpos
    · omega
  -- the numbers
  have hwantT : s.val * s.sh a / s.tot * s.tot ≤ s.val * s.sh a := Int.ediv_mul_le _ (by omega)
  have hw1 : 1 ≤ s.val * s.sh a / s.tot * s.tot / s.val := by
    have h1 : s.val ≤ s.val * s.sh a / s.tot * s.tot := by
      have : 1 * s.tot ≤ s.val * s.sh a / s.tot * s.tot := Int.mul_le_mul_of_nonneg_right (by omega) (by omega)
      omega
    have h2 := Int.ediv_le_ediv hV h1
    rw [Int.ediv_self (by omega)] at h2
    exact h2
  have hwle : s.val * s.sh a / s.tot * s.tot / s.val ≤ s.sh a := by
    have h2 := Int.ediv_le_ediv hV hwantT
    rw [Int.mul_ediv_cancel_left (s.sh a) (by omega : s.val ≠ 0)] at h2
    exact h2
  generalize hwd : s.val * s.sh a / s.tot * s.tot / s.val = w at hw1 hwle
  have hamtle : s.val * w / s.tot ≤ s.val * s.sh a / s.tot := ediv_mono_right s.val w (s.sh a) s.tot hV0 hT hwle
  have hamtV : s.val * w / s.tot ≤ s.val := ediv_le_self_of_le s.val w s.tot hV0 hT (by omega)
  have hamt0 : 0 ≤ s.val * w / s.tot := Int.ediv_nonneg (Int.mul_nonneg hV0 (by omega)) (by omega)
  unfold withdraw
  have hne : ¬ s.val * s.sh a / s.tot = 0 := by omega
  simp only [not_true_eq_false, ite_false, hf, hne]
  rw [convertToShares_found s _ hf (by omega) (by omega) hV, hwd]
  have hw0 : ¬ w = 0 := by omega
  simp only [hw0, ite_false]
  have hlt : ¬ s.sh a < w := by omega
  simp only [hlt, ite_false]
  rw [convertToAssets_found s w hf hT hV0 (by omega), convertToAssets_found s (s.sh a) hf hT hV0 hsh]
  simp only []
  have hgt : ¬ s.val * w / s.tot > s.val * s.sh a / s.tot := by omega
  have hvz : ¬ s.val = 0 := by omega
  simp only [hgt, ite_false, hvz]
  have hpaid : stratPaid (s.val * w / s.tot) s.val = s.val * w / s.tot := by
    unfold stratPaid; split <;> omega
  rw [hpaid]
  have hsend : ¬ s.loose + s.val * w / s.tot < s.val * w / s.tot := by omega
  simp only [hsend, ite_false]
  have hdust := convertToAssets_found
    ({ found := true, tot := s.tot, sh := s.sh, val := s.val - s.val * w / s.tot, loose := s.loose, bal := s.bal } : St)
    (s.sh a - w) rfl hT (by simp only []; omega) (by omega)
  rw [hdust]
  simp only []
  unfold withdrawRecords sweep
  split
  · have h1 : ¬ s.sh a - s.sh a < 0 := by omega
    have h2 : ¬ s.tot - s.sh a < 0 := by omega
    simp only [h1, h2, ite_false]; exact ⟨_, rfl⟩
  · have h1 : ¬ s.sh a - w < 0 := by omega
    have h2 : ¬ s.tot - w < 0 := by omega
    simp only [h1, h2, ite_false]; exact ⟨_, rfl⟩

end KV.Earn
