/-
  Helper lemmas for C17 (b): the committee proposal lifecycle (Model/Committee.lean).
  Invariant `Inv` over (store, ghost event log) and its preservation by every operation.
-/
import KavaVerif.Model.Committee
set_option linter.unusedSimpArgs false
set_option linter.unusedVariables false
namespace KV.Com
open KV

variable {Ext C Pm : Type}

def closedPids : List Event → List Nat
  | [] => []
  | .closed p _ :: es => p :: closedPids es
  | .enacted _ :: es => closedPids es

def enactedPids : List Event → List Nat
  | [] => []
  | .enacted p :: es => p :: enactedPids es
  | .closed _ _ :: es => enactedPids es

theorem closedPids_append (a b : List Event) : closedPids (a ++ b) = closedPids a ++ closedPids b := by
  induction a with
  | nil => rfl
  | cons e es ih => cases e <;> simp [closedPids, ih]

theorem enactedPids_append (a b : List Event) : enactedPids (a ++ b) = enactedPids a ++ enactedPids b := by
  induction a with
  | nil => rfl
  | cons e es ih => cases e <;> simp [enactedPids, ih]

theorem mem_closedPids (l : List Event) (p : Nat) (h : p ∈ closedPids l) : ∃ e, e ∈ l ∧ e.pid = p := by
  induction l with
  | nil => cases h
  | cons e es ih =>
    cases e with
    | enacted q =>
      simp only [closedPids] at h
      obtain ⟨e, he, hp⟩ := ih h
      exact ⟨e, List.mem_cons_of_mem _ he, hp⟩
    | closed q o =>
      simp only [closedPids, List.mem_cons] at h
      rcases h with h | h
      · exact ⟨.closed q o, List.mem_cons_self, h.symm⟩
      · obtain ⟨e, he, hp⟩ := ih h
        exact ⟨e, List.mem_cons_of_mem _ he, hp⟩

theorem mem_enactedPids (l : List Event) (p : Nat) (h : p ∈ enactedPids l) : ∃ e, e ∈ l ∧ e.pid = p := by
  induction l with
  | nil => cases h
  | cons e es ih =>
    cases e with
    | closed q o =>
      simp only [enactedPids] at h
      obtain ⟨e, he, hp⟩ := ih h
      exact ⟨e, List.mem_cons_of_mem _ he, hp⟩
    | enacted q =>
      simp only [enactedPids, List.mem_cons] at h
      rcases h with h | h
      · exact ⟨.enacted q, List.mem_cons_self, h.symm⟩
      · obtain ⟨e, he, hp⟩ := ih h
        exact ⟨e, List.mem_cons_of_mem _ he, hp⟩

theorem enacted_mem_enactedPids (l : List Event) (p : Nat) (h : Event.enacted p ∈ l) : p ∈ enactedPids l := by
  induction l with
  | nil => cases h
  | cons e es ih =>
    rcases List.mem_cons.mp h with h1 | h1
    · subst h1; simp [enactedPids]
    · cases e <;> simp [enactedPids, ih h1]

/-- The invariant of (committee store, event log). -/
structure Inv (s : St Ext C Pm) : Prop where
  ids_lt : ∀ p, p ∈ s.proposals → p.id < s.nextId
  ids_nodup : (s.proposals.map (·.id)).Nodup
  log_lt : ∀ e, e ∈ s.log → e.pid < s.nextId
  open_not_logged : ∀ p, p ∈ s.proposals → ∀ e, e ∈ s.log → e.pid ≠ p.id
  closed_nodup : (closedPids s.log).Nodup
  enacted_nodup : (enactedPids s.log).Nodup
  enacted_closed : ∀ pid, Event.enacted pid ∈ s.log → Event.closed pid .passed ∈ s.log
  votes_open : ∀ v, v ∈ s.votes → ∃ p, p ∈ s.proposals ∧ p.id = v.pid

theorem nodup_map_filter {α β : Type} (f : α → β) (q : α → Bool) (l : List α) (h : (l.map f).Nodup) :
    ((l.filter q).map f).Nodup :=
  List.Nodup.sublist (List.Sublist.map f List.filter_sublist) h

/-- closing an open proposal (optionally after its enactment was logged) preserves the invariant -/
theorem inv_close_gen (s : St Ext C Pm) (h : Inv s) (p : Proposal C) (hp : p ∈ s.proposals)
    (e : Ext) (o : Outcome) (pre : List Event)
    (hpre : pre = [] ∨ (pre = [.enacted p.id] ∧ o = .passed)) :
    Inv (close { s with ext := e, log := s.log ++ pre } p.id o) := by
  have hfresh : ∀ ev, ev ∈ s.log → ev.pid ≠ p.id := h.open_not_logged p hp
  have hnc : p.id ∉ closedPids s.log := by
    intro hm; obtain ⟨ev, hev, hpid⟩ := mem_closedPids _ _ hm; exact hfresh ev hev hpid
  have hne : p.id ∉ enactedPids s.log := by
    intro hm; obtain ⟨ev, hev, hpid⟩ := mem_enactedPids _ _ hm; exact hfresh ev hev hpid
  have hprepid : ∀ ev, ev ∈ pre → ev.pid = p.id := by
    intro ev hev
    rcases hpre with h0 | ⟨h1, _⟩
    · subst h0; cases hev
    · subst h1; simp only [List.mem_singleton] at hev; subst hev; rfl
  constructor
  · intro q hq
    simp only [close, List.mem_filter] at hq
    exact h.ids_lt q hq.1
  · simp only [close]
    exact nodup_map_filter _ _ _ h.ids_nodup
  · intro ev hev
    simp only [close, List.mem_append, List.mem_singleton] at hev
    rcases hev with (hev | hev) | hev
    · exact h.log_lt ev hev
    · rw [hprepid ev hev]; exact h.ids_lt p hp
    · subst hev; exact h.ids_lt p hp
  · intro q hq ev hev
    simp only [close, List.mem_filter, bne_iff_ne, ne_eq] at hq
    simp only [close, List.mem_append, List.mem_singleton] at hev
    rcases hev with (hev | hev) | hev
    · exact h.open_not_logged q hq.1 ev hev
    · rw [hprepid ev hev]; exact fun e => hq.2 e.symm
    · subst hev; exact fun e => hq.2 e.symm
  · simp only [close, closedPids_append]
    rcases hpre with h0 | ⟨h1, _⟩
    · subst h0
      simp only [closedPids, List.append_nil]
      rw [List.nodup_append]
      refine ⟨h.closed_nodup, by simp, ?_⟩
      intro a ha b hb
      simp only [List.mem_singleton] at hb; subst hb
      exact fun e => hnc (e ▸ ha)
    · subst h1
      simp only [closedPids, List.append_nil]
      rw [List.nodup_append]
      refine ⟨h.closed_nodup, by simp, ?_⟩
      intro a ha b hb
      simp only [List.mem_singleton] at hb; subst hb
      exact fun e => hnc (e ▸ ha)
  · simp only [close, enactedPids_append]
    rcases hpre with h0 | ⟨h1, _⟩
    · subst h0
      simp only [enactedPids, List.append_nil]
      exact h.enacted_nodup
    · subst h1
      simp only [enactedPids, List.append_nil]
      rw [List.nodup_append]
      refine ⟨h.enacted_nodup, by simp, ?_⟩
      intro a ha b hb
      simp only [List.mem_singleton] at hb; subst hb
      exact fun e => hne (e ▸ ha)
  · intro pid hin
    simp only [close, List.mem_append, List.mem_singleton] at hin ⊢
    rcases hin with (hin | hin) | hin
    · exact Or.inl (Or.inl (h.enacted_closed pid hin))
    · rcases hpre with h0 | ⟨h1, h2⟩
      · subst h0; cases hin
      · subst h1; subst h2
        simp only [List.mem_singleton, Event.enacted.injEq] at hin
        subst hin
        exact Or.inr rfl
    · cases hin
  · intro v hv
    simp only [close, List.mem_filter, bne_iff_ne, ne_eq] at hv ⊢
    obtain ⟨q, hq, hqv⟩ := h.votes_open v hv.1
    exact ⟨q, ⟨hq, fun e => hv.2 (hqv ▸ e)⟩, hqv⟩

theorem inv_close (s : St Ext C Pm) (h : Inv s) (p : Proposal C) (hp : p ∈ s.proposals) (o : Outcome) :
    Inv (close s p.id o) := by
  have := inv_close_gen s h p hp s.ext o [] (Or.inl rfl)
  simpa using this

/-! ### enactment -/

theorem enact_ok_shape (env : Env Ext C Pm) (s s1 : St Ext C Pm) (p : Proposal C)
    (h : enact env s p = .ok s1) :
    ∃ com e, getCommittee s p.cid = some com ∧ env.permits com.perms p.content s.ext = true ∧
      validatePub env s.ext p.content = true ∧ env.handler p.content s.ext = some e ∧
      s1 = { s with ext := e, log := s.log ++ [.enacted p.id] } := by
  unfold enact at h
  split at h
  · cases h
  · rename_i com hc
    split at h
    · cases h
    · rename_i hperm
      split at h
      · cases h
      · rename_i hval
        split at h
        · cases h
        · rename_i e he
          cases h
          refine ⟨com, e, hc, ?_, ?_, he, rfl⟩
          · simpa using hperm
          · simpa using hval

/-- the "unexpected handler error" panic is unreachable: the dry run just succeeded on the same state -/
theorem enact_no_panic (env : Env Ext C Pm) (s : St Ext C Pm) (p : Proposal C) : enact env s p ≠ .panic := by
  unfold enact
  split
  · simp
  · split
    · simp
    · split
      · simp
      · rename_i hval
        split
        · rename_i hnone
          exfalso
          simp only [validatePub, hnone, Option.isSome_none, Bool.and_false, Bool.not_false,
            not_true_eq_false] at hval
        · simp

theorem enactAndClose_no_panic (env : Env Ext C Pm) (s : St Ext C Pm) (p : Proposal C) :
    enactAndClose env s p ≠ .panic := by
  unfold enactAndClose
  have := enact_no_panic env s p
  split
  · simp
  · simp
  · rename_i h; exact absurd h this

theorem enactAndClose_cases (env : Env Ext C Pm) (s : St Ext C Pm) (p : Proposal C) :
    (∃ com e, getCommittee s p.cid = some com ∧ env.permits com.perms p.content s.ext = true ∧
        validatePub env s.ext p.content = true ∧ env.handler p.content s.ext = some e ∧
        enactAndClose env s p = .ok (close { s with ext := e, log := s.log ++ [.enacted p.id] } p.id .passed)) ∨
    (enact env s p = .err ∧ enactAndClose env s p = .ok (close s p.id .invalid)) := by
  unfold enactAndClose
  cases he : enact env s p with
  | ok s1 =>
    obtain ⟨com, e, h1, h2, h3, h4, h5⟩ := enact_ok_shape env s s1 p he
    subst h5
    exact Or.inl ⟨com, e, h1, h2, h3, h4, rfl⟩
  | err => exact Or.inr ⟨rfl, rfl⟩
  | panic => exact absurd he (enact_no_panic env s p)

theorem inv_enactAndClose (env : Env Ext C Pm) (s s' : St Ext C Pm) (h : Inv s) (p : Proposal C)
    (hp : p ∈ s.proposals) (hr : enactAndClose env s p = .ok s') : Inv s' := by
  rcases enactAndClose_cases env s p with ⟨com, e, _, _, _, _, heq⟩ | ⟨_, heq⟩
  · rw [heq] at hr; cases hr
    exact inv_close_gen s h p hp e .passed [.enacted p.id] (Or.inr ⟨rfl, rfl⟩)
  · rw [heq] at hr; cases hr
    exact inv_close s h p hp .invalid

/-! ### processOne / processAll -/

/-- shape of the result of processing one proposal: untouched, closed, or enacted-and-closed -/
inductive POShape (env : Env Ext C Pm) (s : St Ext C Pm) (p : Proposal C) : St Ext C Pm → Prop where
  | same : POShape env s p s
  | closed (o : Outcome) (ho : o ≠ .passed) : POShape env s p (close s p.id o)
  | enacted (e : Ext) (com : Committee Pm) (hc : getCommittee s p.cid = some com)
      (hperm : env.permits com.perms p.content s.ext = true)
      (hval : validatePub env s.ext p.content = true)
      (hh : env.handler p.content s.ext = some e) :
      POShape env s p (close { s with ext := e, log := s.log ++ [.enacted p.id] } p.id .passed)

theorem enactAndClose_shape (env : Env Ext C Pm) (s s' : St Ext C Pm) (p : Proposal C)
    (hr : enactAndClose env s p = .ok s') : POShape env s p s' := by
  rcases enactAndClose_cases env s p with ⟨com, e, h1, h2, h3, h4, heq⟩ | ⟨_, heq⟩
  · rw [heq] at hr; cases hr; exact .enacted e com h1 h2 h3 h4
  · rw [heq] at hr; cases hr; exact .closed .invalid (by simp)

theorem processOne_shape (env : Env Ext C Pm) (now : Int) (s s' : St Ext C Pm) (p : Proposal C)
    (hr : processOne env now s p = .ok s') : POShape env s p s' := by
  unfold processOne at hr
  split at hr
  · cases hr; exact .closed .failed (by simp)
  · split at hr
    · split at hr
      · split at hr
        · exact enactAndClose_shape env s s' p hr
        · cases hr; exact .same
      · cases hr; exact .same
    · split at hr
      · exact enactAndClose_shape env s s' p hr
      · cases hr; exact .closed .failed (by simp)

theorem processOne_no_panic (env : Env Ext C Pm) (now : Int) (s : St Ext C Pm) (p : Proposal C) :
    processOne env now s p ≠ .panic := by
  unfold processOne
  split
  · simp
  · split
    · split
      · split
        · exact enactAndClose_no_panic env s p
        · simp
      · simp
    · split
      · exact enactAndClose_no_panic env s p
      · simp

theorem processOne_no_err (env : Env Ext C Pm) (now : Int) (s : St Ext C Pm) (p : Proposal C) :
    processOne env now s p ≠ .err := by
  have hE : enactAndClose env s p ≠ .err := by
    unfold enactAndClose; split <;> simp
  unfold processOne
  split
  · simp
  · split
    · split
      · split
        · exact hE
        · simp
      · simp
    · split
      · exact hE
      · simp

theorem shape_inv (env : Env Ext C Pm) (s s' : St Ext C Pm) (p : Proposal C) (h : Inv s)
    (hp : p ∈ s.proposals) (sh : POShape env s p s') : Inv s' := by
  cases sh with
  | same => exact h
  | closed o _ => exact inv_close s h p hp o
  | enacted e com _ _ _ _ => exact inv_close_gen s h p hp e .passed [.enacted p.id] (Or.inr ⟨rfl, rfl⟩)

/-- frame: processing p leaves committees and nextId alone, never adds a proposal or a vote, and keeps
    every proposal (and vote) with another id -/
theorem shape_frame (env : Env Ext C Pm) (s s' : St Ext C Pm) (p : Proposal C) (sh : POShape env s p s') :
    s'.committees = s.committees ∧ s'.nextId = s.nextId ∧
    (∀ q, q ∈ s'.proposals → q ∈ s.proposals) ∧
    (∀ q, q ∈ s.proposals → q.id ≠ p.id → q ∈ s'.proposals) ∧
    (∀ pid, pid ≠ p.id → votesFor s' pid = votesFor s pid) := by
  have hv : ∀ (vs : List Vote) pid, pid ≠ p.id →
      (vs.filter (fun v => v.pid != p.id)).filter (fun v => v.pid == pid) = vs.filter (fun v => v.pid == pid) := by
    intro vs pid hne
    rw [List.filter_filter]
    apply List.filter_congr
    intro v _
    by_cases hvp : v.pid = pid
    · have : v.pid ≠ p.id := hvp ▸ hne
      simp [hvp, hne]
    · simp [hvp]
  cases sh with
  | same => exact ⟨rfl, rfl, fun _ h => h, fun _ h _ => h, fun _ _ => rfl⟩
  | closed o _ =>
    refine ⟨rfl, rfl, ?_, ?_, ?_⟩
    · intro q hq; simp only [close, List.mem_filter] at hq; exact hq.1
    · intro q hq hne; simp only [close, List.mem_filter, bne_iff_ne, ne_eq]; exact ⟨hq, hne⟩
    · intro pid hne; simp only [votesFor, close]; exact hv _ pid hne
  | enacted e com _ _ _ _ =>
    refine ⟨rfl, rfl, ?_, ?_, ?_⟩
    · intro q hq; simp only [close, List.mem_filter] at hq; exact hq.1
    · intro q hq hne; simp only [close, List.mem_filter, bne_iff_ne, ne_eq]; exact ⟨hq, hne⟩
    · intro pid hne; simp only [votesFor, close]; exact hv _ pid hne

theorem processAll_no_panic (env : Env Ext C Pm) (now : Int) (ps : List (Proposal C)) :
    ∀ s : St Ext C Pm, processAll env now s ps ≠ .panic := by
  induction ps with
  | nil => intro s; simp [processAll]
  | cons p ps ih =>
    intro s
    unfold processAll
    split
    · exact ih _
    · simp
    · rename_i h; exact absurd h (processOne_no_panic env now s p)

theorem processAll_no_err (env : Env Ext C Pm) (now : Int) (ps : List (Proposal C)) :
    ∀ s : St Ext C Pm, processAll env now s ps ≠ .err := by
  induction ps with
  | nil => intro s; simp [processAll]
  | cons p ps ih =>
    intro s
    unfold processAll
    split
    · exact ih _
    · rename_i h; exact absurd h (processOne_no_err env now s p)
    · simp

theorem inv_processAll (env : Env Ext C Pm) (now : Int) (ps : List (Proposal C)) :
    ∀ (s s' : St Ext C Pm), Inv s → (∀ p, p ∈ ps → p ∈ s.proposals) → (ps.map (·.id)).Nodup →
      processAll env now s ps = .ok s' → Inv s' := by
  induction ps with
  | nil => intro s s' h _ _ hr; simp only [processAll] at hr; cases hr; exact h
  | cons p ps ih =>
    intro s s' h hsub hnd hr
    unfold processAll at hr
    split at hr
    · rename_i s1 h1
      have sh := processOne_shape env now s s1 p h1
      have hp : p ∈ s.proposals := hsub p List.mem_cons_self
      have hi1 := shape_inv env s s1 p h hp sh
      obtain ⟨_, _, _, hkeep, _⟩ := shape_frame env s s1 p sh
      simp only [List.map_cons, List.nodup_cons, List.mem_map, not_exists, not_and] at hnd
      apply ih s1 s' hi1 _ hnd.2 hr
      intro q hq
      exact hkeep q (hsub q (List.mem_cons_of_mem _ hq)) (fun e => hnd.1 q hq e)
    · cases hr
    · cases hr

theorem nodup_of_map_nodup {α β : Type} (f : α → β) (l : List α) (h : (l.map f).Nodup) : l.Nodup := by
  induction l with
  | nil => exact List.nodup_nil
  | cons a t ih =>
    simp only [List.map_cons, List.nodup_cons] at h ⊢
    exact ⟨fun hm => h.1 (List.mem_map_of_mem hm), ih h.2⟩

theorem inv_beginBlock (env : Env Ext C Pm) (now : Int) (s s' : St Ext C Pm) (h : Inv s)
    (hr : beginBlock env now s = .ok s') : Inv s' :=
  inv_processAll env now s.proposals s s' h (fun _ hp => hp) h.ids_nodup hr

/-! ### committee change / delete -/

theorem inv_closeAll (ps : List (Proposal C)) :
    ∀ (s : St Ext C Pm), Inv s → (∀ p, p ∈ ps → p ∈ s.proposals) → (ps.map (·.id)).Nodup → Inv (closeAll s ps) := by
  induction ps with
  | nil => intro s h _ _; exact h
  | cons p ps ih =>
    intro s h hsub hnd
    unfold closeAll
    simp only [List.map_cons, List.nodup_cons, List.mem_map, not_exists, not_and] at hnd
    apply ih _ (inv_close s h p (hsub p List.mem_cons_self) .failed) _ hnd.2
    intro q hq
    simp only [close, List.mem_filter, bne_iff_ne, ne_eq]
    exact ⟨hsub q (List.mem_cons_of_mem _ hq), fun e => hnd.1 q hq e⟩

theorem closeAll_frame (ps : List (Proposal C)) :
    ∀ (s : St Ext C Pm), (closeAll s ps).ext = s.ext ∧ (closeAll s ps).committees = s.committees ∧
      (closeAll s ps).nextId = s.nextId ∧ enactedPids (closeAll s ps).log = enactedPids s.log := by
  induction ps with
  | nil => intro s; exact ⟨rfl, rfl, rfl, rfl⟩
  | cons p ps ih =>
    intro s
    unfold closeAll
    obtain ⟨h1, h2, h3, h4⟩ := ih (close s p.id .failed)
    refine ⟨h1, h2, h3, ?_⟩
    rw [h4]; simp [close, enactedPids_append, enactedPids]

theorem inv_of_committees_eq (s s' : St Ext C Pm) (h : Inv s)
    (h1 : s'.proposals = s.proposals) (h2 : s'.votes = s.votes) (h3 : s'.nextId = s.nextId) (h4 : s'.log = s.log) :
    Inv s' := by
  constructor
  · rw [h1, h3]; exact h.ids_lt
  · rw [h1]; exact h.ids_nodup
  · rw [h4, h3]; exact h.log_lt
  · rw [h1, h4]; exact h.open_not_logged
  · rw [h4]; exact h.closed_nodup
  · rw [h4]; exact h.enacted_nodup
  · rw [h4]; exact h.enacted_closed
  · rw [h1, h2]; exact h.votes_open

theorem inv_setCommittee (s : St Ext C Pm) (h : Inv s) (com : Committee Pm) : Inv (setCommittee s com) := by
  have hi := inv_closeAll (s.proposals.filter (fun p => p.cid == com.id)) s h
    (fun p hp => (List.mem_filter.mp hp).1) (nodup_map_filter _ _ _ h.ids_nodup)
  exact inv_of_committees_eq _ _ hi rfl rfl rfl rfl

theorem inv_deleteCommittee (s : St Ext C Pm) (h : Inv s) (cid : Nat) : Inv (deleteCommittee s cid) := by
  have hi := inv_closeAll (s.proposals.filter (fun p => p.cid == cid)) s h
    (fun p hp => (List.mem_filter.mp hp).1) (nodup_map_filter _ _ _ h.ids_nodup)
  exact inv_of_committees_eq _ _ hi rfl rfl rfl rfl

/-! ### submit / vote -/

theorem submit_ok_shape (env : Env Ext C Pm) (s s' : St Ext C Pm) (now : Int) (pr : Addr) (cid : Nat) (c : C)
    (h : submit env s now pr cid c = .ok s') :
    ∃ com, getCommittee s cid = some com ∧ com.members.contains pr = true ∧
      env.permits com.perms c s.ext = true ∧ validatePub env s.ext c = true ∧
      s' = { s with proposals := s.proposals ++ [{ id := s.nextId, cid := cid, deadline := now + com.duration, content := c }]
                    nextId := s.nextId + 1 } := by
  unfold submit at h
  split at h
  · cases h
  · rename_i com hc
    split at h
    · cases h
    · rename_i h1
      split at h
      · cases h
      · rename_i h2
        split at h
        · cases h
        · rename_i h3
          cases h
          exact ⟨com, hc, by simpa using h1, by simpa using h2, by simpa using h3, rfl⟩

theorem inv_submit (env : Env Ext C Pm) (s s' : St Ext C Pm) (now : Int) (pr : Addr) (cid : Nat) (c : C)
    (h : Inv s) (hr : submit env s now pr cid c = .ok s') : Inv s' := by
  obtain ⟨com, _, _, _, _, rfl⟩ := submit_ok_shape env s s' now pr cid c hr
  constructor
  · intro p hp
    simp only [List.mem_append, List.mem_singleton] at hp
    rcases hp with hp | hp
    · have := h.ids_lt p hp; simp only; omega
    · subst hp; simp only; omega
  · simp only [List.map_append, List.map_cons, List.map_nil]
    rw [List.nodup_append]
    refine ⟨h.ids_nodup, by simp, ?_⟩
    intro a ha b hb
    simp only [List.mem_singleton] at hb; subst hb
    simp only [List.mem_map] at ha
    obtain ⟨q, hq, rfl⟩ := ha
    have := h.ids_lt q hq
    omega
  · intro e he
    have := h.log_lt e he
    simp only; omega
  · intro p hp e he
    simp only [List.mem_append, List.mem_singleton] at hp
    rcases hp with hp | hp
    · exact h.open_not_logged p hp e he
    · subst hp
      have := h.log_lt e he
      simp only; omega
  · exact h.closed_nodup
  · exact h.enacted_nodup
  · exact h.enacted_closed
  · intro v hv
    obtain ⟨p, hp, hpv⟩ := h.votes_open v hv
    exact ⟨p, List.mem_append_left _ hp, hpv⟩

theorem vote_ok_shape (s s' : St Ext C Pm) (now : Int) (pid : Nat) (voter : Addr) (vt : VoteType)
    (h : vote s now pid voter vt = .ok s') :
    ∃ pr com, getProposal s pid = some pr ∧ now < pr.deadline ∧ getCommittee s pr.cid = some com ∧
      (com.token = false → com.members.contains voter = true ∧ vt = .yes) ∧
      s' = { s with votes := setVote s.votes ⟨pid, voter, vt⟩ } := by
  unfold vote at h
  split at h
  · cases h
  · rename_i pr hp
    split at h
    · cases h
    · rename_i hd
      split at h
      · cases h
      · rename_i com hc
        split at h
        · cases h
        · rename_i h1
          split at h
          · cases h
          · rename_i h2
            cases h
            refine ⟨pr, com, hp, by omega, hc, ?_, rfl⟩
            intro ht
            simp only [ht, Bool.not_false, Bool.true_and, Bool.not_eq_true, Bool.not_eq_false,
              bne_iff_ne, ne_eq, Decidable.not_not] at h1 h2
            exact ⟨by simpa using h1, by simpa using h2⟩

theorem getProposal_some (s : St Ext C Pm) (pid : Nat) (pr : Proposal C) (h : getProposal s pid = some pr) :
    pr ∈ s.proposals ∧ pr.id = pid := by
  unfold getProposal at h
  refine ⟨List.mem_of_find?_eq_some h, ?_⟩
  have := List.find?_some h
  simpa using this

theorem inv_vote (s s' : St Ext C Pm) (now : Int) (pid : Nat) (voter : Addr) (vt : VoteType)
    (h : Inv s) (hr : vote s now pid voter vt = .ok s') : Inv s' := by
  obtain ⟨pr, com, hp, _, _, _, rfl⟩ := vote_ok_shape s s' now pid voter vt hr
  obtain ⟨hpm, hpid⟩ := getProposal_some s pid pr hp
  constructor
  · exact h.ids_lt
  · exact h.ids_nodup
  · exact h.log_lt
  · exact h.open_not_logged
  · exact h.closed_nodup
  · exact h.enacted_nodup
  · exact h.enacted_closed
  · intro v hv
    simp only [setVote, List.mem_append, List.mem_filter, List.mem_singleton] at hv
    rcases hv with hv | hv
    · exact h.votes_open v hv.1
    · subst hv; exact ⟨pr, hpm, hpid⟩

/-! ### every step -/

theorem inv_step (env : Env Ext C Pm) (s s' : St Ext C Pm) (op : Op Ext C Pm) (h : Inv s)
    (hr : step env s op = .ok s') : Inv s' := by
  cases op with
  | submit now pr cid c => exact inv_submit env s s' now pr cid c h hr
  | vote now pid v vt => exact inv_vote s s' now pid v vt h hr
  | beginBlock now => exact inv_beginBlock env now s s' h hr
  | setCommittee com => simp only [step] at hr; cases hr; exact inv_setCommittee s h com
  | deleteCommittee cid => simp only [step] at hr; cases hr; exact inv_deleteCommittee s h cid
  | ext f => simp only [step] at hr; cases hr; exact inv_of_committees_eq _ _ h rfl rfl rfl rfl

theorem inv_run (env : Env Ext C Pm) (ops : List (Op Ext C Pm)) :
    ∀ (s s' : St Ext C Pm), Inv s → run env s ops = some s' → Inv s' := by
  induction ops with
  | nil => intro s s' h hr; simp only [run] at hr; cases hr; exact h
  | cons op ops ih =>
    intro s s' h hr
    unfold run at hr
    split at hr
    · rename_i s1 h1; exact ih s1 s' (inv_step env s s1 op h h1) hr
    · exact ih s s' h hr
    · cases hr

/-! ### block-level timing facts -/

theorem close_removes (s : St Ext C Pm) (pid : Nat) (o : Outcome) (q : Proposal C)
    (hq : q ∈ (close s pid o).proposals) : q.id ≠ pid := by
  simp only [close, List.mem_filter, bne_iff_ne, ne_eq] at hq
  exact hq.2

theorem getCommittee_congr (s s' : St Ext C Pm) (h : s'.committees = s.committees) (cid : Nat) :
    getCommittee s' cid = getCommittee s cid := by
  unfold getCommittee; rw [h]

/-- at or after the deadline, processing p always closes it -/
theorem processOne_due_closes (env : Env Ext C Pm) (now : Int) (s s' : St Ext C Pm) (p : Proposal C)
    (hdue : p.deadline ≤ now) (hr : processOne env now s p = .ok s') : ∀ q, q ∈ s'.proposals → q.id ≠ p.id := by
  have hE : ∀ s', enactAndClose env s p = .ok s' → ∀ q, q ∈ s'.proposals → q.id ≠ p.id := by
    intro s' h q hq
    rcases enactAndClose_cases env s p with ⟨com, e, _, _, _, _, heq⟩ | ⟨_, heq⟩
    · rw [heq] at h; cases h; exact close_removes _ _ _ q hq
    · rw [heq] at h; cases h; exact close_removes _ _ _ q hq
  unfold processOne at hr
  split at hr
  · cases hr; exact fun q hq => close_removes _ _ _ q hq
  · split at hr
    · omega
    · split at hr
      · exact hE s' hr
      · cases hr; exact fun q hq => close_removes _ _ _ q hq

/-- before the deadline a proposal of a committee that tallies at the deadline is left untouched -/
theorem processOne_early_deadline_untouched (env : Env Ext C Pm) (now : Int) (s : St Ext C Pm) (p : Proposal C)
    (com : Committee Pm) (hc : getCommittee s p.cid = some com) (hf : com.fptp = false) (hearly : now < p.deadline) :
    processOne env now s p = .ok s := by
  unfold processOne
  rw [hc]
  simp only [hearly, ite_true, hf, Bool.false_eq_true, ite_false]

theorem processAll_frame (env : Env Ext C Pm) (now : Int) (ps : List (Proposal C)) :
    ∀ (s s' : St Ext C Pm), processAll env now s ps = .ok s' →
      s'.committees = s.committees ∧ s'.nextId = s.nextId ∧ (∀ q, q ∈ s'.proposals → q ∈ s.proposals) ∧
      (∀ q, q ∈ s.proposals → (∀ p, p ∈ ps → p.id ≠ q.id) → q ∈ s'.proposals) := by
  induction ps with
  | nil => intro s s' hr; simp only [processAll] at hr; cases hr; exact ⟨rfl, rfl, fun _ h => h, fun _ h _ => h⟩
  | cons p ps ih =>
    intro s s' hr
    unfold processAll at hr
    split at hr
    · rename_i s1 h1
      obtain ⟨c1, n1, sub1, keep1, _⟩ := shape_frame env s s1 p (processOne_shape env now s s1 p h1)
      obtain ⟨c2, n2, sub2, keep2⟩ := ih s1 s' hr
      refine ⟨c2.trans c1, n2.trans n1, fun q hq => sub1 q (sub2 q hq), ?_⟩
      intro q hq hall
      apply keep2 q (keep1 q hq (fun e => hall p List.mem_cons_self e.symm))
      intro p' hp'
      exact hall p' (List.mem_cons_of_mem _ hp')
    · cases hr
    · cases hr

/-- a begin block at or after the deadline closes the proposal -/
theorem processAll_due_closed (env : Env Ext C Pm) (now : Int) (ps : List (Proposal C)) :
    ∀ (s s' : St Ext C Pm) (p : Proposal C), p ∈ ps → p.deadline ≤ now →
      processAll env now s ps = .ok s' → ∀ q, q ∈ s'.proposals → q.id ≠ p.id := by
  induction ps with
  | nil => intro s s' p hp; cases hp
  | cons a ps ih =>
    intro s s' p hp hdue hr q hq
    unfold processAll at hr
    split at hr
    · rename_i s1 h1
      rcases List.mem_cons.mp hp with e | hin
      · subst e
        obtain ⟨_, _, sub, _⟩ := processAll_frame env now ps s1 s' hr
        exact processOne_due_closes env now s s1 p hdue h1 q (sub q hq)
      · exact ih s1 s' p hin hdue hr q hq
    · cases hr
    · cases hr

/-- a begin block before the deadline leaves a proposal of a deadline-tally committee in the store -/
theorem processAll_early_kept (env : Env Ext C Pm) (now : Int) (ps : List (Proposal C)) :
    ∀ (s s' : St Ext C Pm) (p : Proposal C) (com : Committee Pm), (ps.map (·.id)).Nodup →
      p ∈ s.proposals → (∀ q, q ∈ ps → q.id = p.id → q = p) →
      getCommittee s p.cid = some com → com.fptp = false → now < p.deadline →
      processAll env now s ps = .ok s' → p ∈ s'.proposals := by
  induction ps with
  | nil => intro s s' p com _ hp _ _ _ _ hr; simp only [processAll] at hr; cases hr; exact hp
  | cons a ps ih =>
    intro s s' p com hnd hp huniq hc hf hearly hr
    unfold processAll at hr
    simp only [List.map_cons, List.nodup_cons, List.mem_map, not_exists, not_and] at hnd
    split at hr
    · rename_i s1 h1
      have hp1 : p ∈ s1.proposals ∧ s1.committees = s.committees := by
        by_cases e : a.id = p.id
        · have := huniq a List.mem_cons_self e
          subst this
          rw [processOne_early_deadline_untouched env now s a com hc hf hearly] at h1
          cases h1; exact ⟨hp, rfl⟩
        · obtain ⟨c1, _, _, keep1, _⟩ := shape_frame env s s1 a (processOne_shape env now s s1 a h1)
          exact ⟨keep1 p hp (fun e' => e e'.symm), c1⟩
      apply ih s1 s' p com hnd.2 hp1.1 (fun q hq e => huniq q (List.mem_cons_of_mem _ hq) e) _ hf hearly hr
      rw [getCommittee_congr s s1 hp1.2]; exact hc
    · cases hr
    · cases hr

theorem eq_of_mem_of_id_eq (l : List (Proposal C)) (h : (l.map (·.id)).Nodup) (p q : Proposal C)
    (hp : p ∈ l) (hq : q ∈ l) (e : q.id = p.id) : q = p := by
  induction l with
  | nil => cases hp
  | cons a t ih =>
    simp only [List.map_cons, List.nodup_cons, List.mem_map, not_exists, not_and] at h
    rcases List.mem_cons.mp hp with hp1 | hp1 <;> rcases List.mem_cons.mp hq with hq1 | hq1
    · rw [hp1, hq1]
    · subst hp1; exact absurd e (h.1 q hq1)
    · subst hq1; exact absurd e.symm (h.1 p hp1)
    · exact ih h.2 hp1 hq1

/-! ### only the begin block appends `enacted` events; submit and vote touch nothing else -/

theorem closeAll_log_enacted (ps : List (Proposal C)) (s : St Ext C Pm) :
    enactedPids (closeAll s ps).log = enactedPids s.log := (closeAll_frame ps s).2.2.2

/-! ### sequential semantics of the begin block -/

/-- the fold over the block's proposals factors at every position: the proposals before `p` are processed first,
    `p` is processed on the state THEY left, the rest on the state `p` left -/
theorem processAll_split (env : Env Ext C Pm) (now : Int) (pre : List (Proposal C)) (p : Proposal C)
    (post : List (Proposal C)) :
    ∀ s s' : St Ext C Pm, processAll env now s (pre ++ p :: post) = .ok s' →
      ∃ si si', processAll env now s pre = .ok si ∧ processOne env now si p = .ok si' ∧
        processAll env now si' post = .ok s' := by
  induction pre with
  | nil =>
    intro s s' h
    simp only [List.nil_append] at h
    unfold processAll at h
    split at h
    · rename_i s1 h1
      exact ⟨s, s1, by simp [processAll], h1, h⟩
    · cases h
    · cases h
  | cons q qs ih =>
    intro s s' h
    simp only [List.cons_append] at h
    unfold processAll at h
    split at h
    · rename_i s1 h1
      obtain ⟨si, si', ha, hb, hc⟩ := ih s1 s' h
      refine ⟨si, si', ?_, hb, hc⟩
      unfold processAll
      rw [h1]
      exact ha
    · cases h
    · cases h

/-- what processing one proposal did, in terms of the state it was processed on -/
theorem processOne_effect (env : Env Ext C Pm) (now : Int) (s s' : St Ext C Pm) (p : Proposal C)
    (h : processOne env now s p = .ok s') :
    s' = s ∨ (∃ o, o ≠ Outcome.passed ∧ s' = close s p.id o) ∨
    ∃ com e, getCommittee s p.cid = some com ∧ env.permits com.perms p.content s.ext = true ∧
      env.handler p.content s.ext = some e ∧
      s' = close { s with ext := e, log := s.log ++ [.enacted p.id] } p.id .passed := by
  cases processOne_shape env now s s' p h with
  | same => exact Or.inl rfl
  | closed o ho => exact Or.inr (Or.inl ⟨o, ho, rfl⟩)
  | enacted e com hc hperm _ hh => exact Or.inr (Or.inr ⟨com, e, hc, hperm, hh, rfl⟩)

end KV.Com
