/-
  Helper lemmas for C13 (x/bep3), part 1: the swap store, the two indexes and sums over swaps.
  Core Lean only.
-/
import KavaVerif.Model.Bep3
set_option linter.unusedSimpArgs false
set_option linter.unusedVariables false

namespace KV.Bep3

/-- the ids (store keys) of the swap records -/
def ids (l : List Swap) : List Id := l.map (·.id)

/-- contribution of one swap to `sumBy p` -/
def val (p : Swap → Bool) (x : Swap) : Int := if p x then x.amt else 0

theorem horizon_pos : 0 < horizon := by decide

/-! ### findSwap -/

theorem findSwap_some {l : List Swap} {id : Id} {sw : Swap} (h : findSwap l id = some sw) :
    sw ∈ l ∧ sw.id = id := by
  induction l with
  | nil => simp [findSwap] at h
  | cons x xs ih =>
    unfold findSwap at h
    split at h
    · cases h; rename_i hx; exact ⟨List.mem_cons_self, hx⟩
    · have := ih h; exact ⟨List.mem_cons_of_mem _ this.1, this.2⟩

theorem findSwap_none {l : List Swap} {id : Id} (h : findSwap l id = none) : ∀ sw ∈ l, sw.id ≠ id := by
  induction l with
  | nil => intro sw hm; cases hm
  | cons x xs ih =>
    unfold findSwap at h
    split at h
    · cases h
    · rename_i hx
      intro sw hm
      cases hm with
      | head => exact hx
      | tail _ hm' => exact ih h sw hm'

theorem findSwap_none_of {l : List Swap} {id : Id} (h : ∀ sw ∈ l, sw.id ≠ id) : findSwap l id = none := by
  induction l with
  | nil => rfl
  | cons x xs ih =>
    unfold findSwap
    have hx : x.id ≠ id := h x List.mem_cons_self
    simp only [hx, ite_false]
    exact ih (fun sw hm => h sw (List.mem_cons_of_mem _ hm))

theorem mem_ids {l : List Swap} {x : Swap} (h : x ∈ l) : x.id ∈ ids l :=
  List.mem_map.mpr ⟨x, h, rfl⟩

theorem nodup_ids_cons {x : Swap} {xs : List Swap} :
    (ids (x :: xs)).Nodup ↔ x.id ∉ ids xs ∧ (ids xs).Nodup := by
  unfold ids; simp only [List.map_cons]; exact List.nodup_cons

theorem nodup_id_eq {l : List Swap} (hn : (ids l).Nodup) {x y : Swap} (hx : x ∈ l) (hy : y ∈ l)
    (h : x.id = y.id) : x = y := by
  induction l with
  | nil => cases hx
  | cons z zs ih =>
    have hnd := nodup_ids_cons.mp hn
    cases hx with
    | head =>
      cases hy with
      | head => rfl
      | tail _ hy' =>
        exfalso; apply hnd.1
        have := mem_ids hy'
        rw [← h] at this; exact this
    | tail _ hx' =>
      cases hy with
      | head =>
        exfalso; apply hnd.1
        have := mem_ids hx'
        rw [h] at this; exact this
      | tail _ hy' => exact ih hnd.2 hx' hy'

theorem findSwap_mem {l : List Swap} (hn : (ids l).Nodup) {sw : Swap} (hm : sw ∈ l) :
    findSwap l sw.id = some sw := by
  cases h : findSwap l sw.id with
  | none => exact absurd rfl (findSwap_none h sw hm)
  | some y =>
    have := findSwap_some h
    rw [nodup_id_eq hn this.1 hm this.2]

/-! ### replaceSwap / setSwap / delSwap -/

theorem ids_replace (l : List Swap) (sw : Swap) : ids (replaceSwap l sw) = ids l := by
  induction l with
  | nil => rfl
  | cons x xs ih =>
    simp only [ids, replaceSwap, List.map_cons] at ih ⊢
    rw [ih]
    by_cases h : x.id = sw.id <;> simp [h]

theorem mem_replace {l : List Swap} {sw x : Swap} :
    x ∈ replaceSwap l sw ↔ (x ∈ l ∧ x.id ≠ sw.id) ∨ (x = sw ∧ ∃ y ∈ l, y.id = sw.id) := by
  unfold replaceSwap
  simp only [List.mem_map]
  constructor
  · rintro ⟨y, hy, rfl⟩
    by_cases h : y.id = sw.id
    · rw [if_pos h]; exact Or.inr ⟨rfl, y, hy, h⟩
    · rw [if_neg h]; exact Or.inl ⟨hy, h⟩
  · rintro (⟨hx, hne⟩ | ⟨rfl, y, hy, hid⟩)
    · exact ⟨x, hx, by simp [hne]⟩
    · exact ⟨y, hy, by simp [hid]⟩

theorem findSwap_replace (l : List Swap) (sw : Swap) (x : Id) :
    findSwap (replaceSwap l sw) x =
      if x = sw.id then (findSwap l x).map (fun _ => sw) else findSwap l x := by
  induction l with
  | nil => simp [replaceSwap, findSwap]
  | cons y ys ih =>
    simp only [replaceSwap, List.map_cons] at ih ⊢
    by_cases hy : y.id = sw.id
    · simp only [hy, ite_true]
      by_cases hx : x = sw.id
      · subst hx; simp [findSwap, hy]
      · have hx' : ¬ sw.id = x := fun e => hx e.symm
        simp only [findSwap, hx', hy, ite_false, hx] at ih ⊢
        exact ih
    · simp only [hy, ite_false]
      by_cases hyx : y.id = x
      · have : ¬ x = sw.id := fun e => hy (hyx.trans e)
        simp [findSwap, hyx, this]
      · simp only [findSwap, hyx, ite_false]
        exact ih

theorem setSwap_found {l : List Swap} {sw old : Swap} (h : findSwap l sw.id = some old) :
    setSwap l sw = replaceSwap l sw := by
  unfold setSwap; rw [h]

theorem setSwap_new {l : List Swap} {sw : Swap} (h : findSwap l sw.id = none) :
    setSwap l sw = sw :: l := by
  unfold setSwap; rw [h]

theorem mem_delSwap {l : List Swap} {id : Id} {x : Swap} : x ∈ delSwap l id ↔ x ∈ l ∧ x.id ≠ id := by
  unfold delSwap; simp [List.mem_filter]

theorem ids_delSwap_nodup {l : List Swap} (id : Id) (hn : (ids l).Nodup) : (ids (delSwap l id)).Nodup := by
  unfold ids delSwap at *
  exact List.Nodup.sublist (List.Sublist.map _ List.filter_sublist) hn

theorem findSwap_del (l : List Swap) (id x : Id) :
    findSwap (delSwap l id) x = if x = id then none else findSwap l x := by
  induction l with
  | nil => simp [delSwap, findSwap]
  | cons y ys ih =>
    unfold delSwap at ih ⊢
    by_cases hy : y.id = id
    · simp only [List.filter_cons, hy, ne_eq, not_true_eq_false, decide_false, Bool.false_eq_true, ite_false]
      rw [ih]
      by_cases hx : x = id
      · simp [hx]
      · have : ¬ id = x := fun e => hx e.symm
        simp [hx, findSwap, hy, this]
    · simp only [List.filter_cons, hy, ne_eq, not_false_eq_true, decide_true, ite_true]
      by_cases hyx : y.id = x
      · have : ¬ x = id := fun e => hy (hyx.trans e)
        simp [findSwap, hyx, this]
      · simp only [findSwap, hyx, ite_false]
        exact ih

/-! ### index keys -/

theorem mem_insKey {l : List Key} {k x : Key} : x ∈ insKey l k ↔ x = k ∨ x ∈ l := by
  unfold insKey
  by_cases h : k ∈ l
  · simp only [h, ite_true]
    constructor
    · intro hx; exact Or.inr hx
    · rintro (rfl | hx)
      · exact h
      · exact hx
  · simp only [h, ite_false, List.mem_cons]

theorem nodup_insKey {l : List Key} (k : Key) (hn : l.Nodup) : (insKey l k).Nodup := by
  unfold insKey
  by_cases h : k ∈ l
  · simp only [h, ite_true]; exact hn
  · simp only [h, ite_false]; exact List.nodup_cons.mpr ⟨h, hn⟩

theorem mem_delKey {l : List Key} {k x : Key} : x ∈ delKey l k ↔ x ∈ l ∧ x ≠ k := by
  unfold delKey; simp [List.mem_filter]

theorem nodup_delKey {l : List Key} (k : Key) (hn : l.Nodup) : (delKey l k).Nodup := by
  unfold delKey; exact List.Nodup.sublist List.filter_sublist hn

theorem delKey_of_not_mem {l : List Key} {k : Key} (h : k ∉ l) : delKey l k = l := by
  unfold delKey
  apply List.filter_eq_self.mpr
  intro x hx
  have : x ≠ k := fun e => h (e ▸ hx)
  simp [this]

/-! ### sums -/

theorem sumBy_cons (p : Swap → Bool) (x : Swap) (xs : List Swap) :
    sumBy p (x :: xs) = val p x + sumBy p xs := rfl

theorem sumBy_replace_notin (p : Swap → Bool) (l : List Swap) (sw : Swap) (h : sw.id ∉ ids l) :
    sumBy p (replaceSwap l sw) = sumBy p l := by
  induction l with
  | nil => rfl
  | cons x xs ih =>
    simp only [ids, List.map_cons, List.mem_cons, not_or] at h
    have hx : ¬ x.id = sw.id := fun e => h.1 e.symm
    have ih' := ih (by simpa [ids] using h.2)
    simp only [replaceSwap, List.map_cons, hx, ite_false] at ih' ⊢
    simp only [sumBy, ih']

theorem sumBy_replace (p : Swap → Bool) {l : List Swap} (hn : (ids l).Nodup) {old sw : Swap}
    (hm : old ∈ l) (hid : old.id = sw.id) :
    sumBy p (replaceSwap l sw) = sumBy p l - val p old + val p sw := by
  induction l with
  | nil => cases hm
  | cons x xs ih =>
    have hnd := nodup_ids_cons.mp hn
    by_cases hx : x.id = sw.id
    · have hxo : x = old := by
        cases hm with
        | head => rfl
        | tail _ hm' =>
          exfalso; apply hnd.1
          have := mem_ids hm'
          rw [hid, ← hx] at this; exact this
      subst hxo
      have hni : sw.id ∉ ids xs := by rw [← hx]; exact hnd.1
      have := sumBy_replace_notin p xs sw hni
      simp only [replaceSwap, List.map_cons, hx, ite_true] at this ⊢
      simp only [sumBy, val, this]
      omega
    · have hm' : old ∈ xs := by
        cases hm with
        | head => exact absurd hid hx
        | tail _ h' => exact h'
      have := ih hnd.2 hm'
      simp only [replaceSwap, List.map_cons, hx, ite_false] at this ⊢
      simp only [sumBy, this]
      omega

theorem sumBy_del_notin (p : Swap → Bool) (l : List Swap) (id : Id) (h : id ∉ ids l) :
    sumBy p (delSwap l id) = sumBy p l := by
  have : delSwap l id = l := by
    unfold delSwap
    apply List.filter_eq_self.mpr
    intro x hx
    have : x.id ≠ id := fun e => h (e ▸ mem_ids hx)
    simp [this]
  rw [this]

theorem sumBy_del (p : Swap → Bool) {l : List Swap} (hn : (ids l).Nodup) {old : Swap} (hm : old ∈ l) :
    sumBy p (delSwap l old.id) = sumBy p l - val p old := by
  induction l with
  | nil => cases hm
  | cons x xs ih =>
    have hnd := nodup_ids_cons.mp hn
    by_cases hx : x.id = old.id
    · have hxo : x = old := by
        cases hm with
        | head => rfl
        | tail _ hm' =>
          exfalso; apply hnd.1
          have := mem_ids hm'
          rw [← hx] at this; exact this
      subst hxo
      have hni : x.id ∉ ids xs := hnd.1
      have := sumBy_del_notin p xs x.id hni
      unfold delSwap at this ⊢
      simp only [List.filter_cons, ne_eq, not_true_eq_false, decide_false, Bool.false_eq_true, ite_false, this]
      simp only [sumBy, val]
      omega
    · have hm' : old ∈ xs := by
        cases hm with
        | head => exact absurd rfl hx
        | tail _ h' => exact h'
      have := ih hnd.2 hm'
      unfold delSwap at this ⊢
      simp only [List.filter_cons, hx, ne_eq, not_false_eq_true, decide_true, ite_true]
      simp only [sumBy, this]
      omega

/-- a map that keeps the `p`-contribution of every element keeps the sum -/
theorem sumBy_map_congr (p : Swap → Bool) (f : Swap → Swap) (l : List Swap)
    (h : ∀ x ∈ l, val p (f x) = val p x) : sumBy p (l.map f) = sumBy p l := by
  induction l with
  | nil => rfl
  | cons x xs ih =>
    have h1 := h x List.mem_cons_self
    have h2 := ih (fun y hy => h y (List.mem_cons_of_mem _ hy))
    simp only [List.map_cons, sumBy] at h2 ⊢
    simp only [val] at h1
    rw [h1, h2]

end KV.Bep3
