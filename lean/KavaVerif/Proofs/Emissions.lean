/-
  Helper lemmas for C19 (staking rewards, switch-over, chain block, mint amounts).  Property statements live in Props/C19.lean.
-/
import KavaVerif.Model.Emissions

set_option linter.unusedSimpArgs false
set_option linter.unusedVariables false
namespace KV.Em
open KV

theorem P_val : P = 1000000000000000000 := by decide
theorem NS_val : NS = 1000000000 := by decide

/-- the accrual is `⌊d·rate / 10^9⌋ + err` in mantissa units -/
theorem accrued_m (now last : Int) (err rate : Dec) (hd : last ≤ now) (hr : 0 ≤ rate.m) :
    (accrued now last err rate).m = ((now - last) * rate.m) / 1000000000 + err.m := by
  unfold accrued Dec.add Dec.quoInt Dec.mul Dec.ofInt
  simp only []
  have h1 : (now - last) * P * rate.m = ((now - last) * rate.m) * P := by
    rw [Int.mul_right_comm]
  rw [h1, chopRound_mul_P]
  have hx : 0 ≤ (now - last) * rate.m := Int.mul_nonneg (by omega) hr
  rw [NS_val, tquo_nonneg_eq _ _ hx (by decide)]

theorem calc_eq (now last : Int) (err rate : Dec) (pool : Int)
    (hd : last ≤ now) (hr : 0 ≤ rate.m) (he : 0 ≤ err.m) (hp : 0 ≤ pool) :
    calculateStakingRewards now last err rate (Dec.ofInt pool) =
      ((if pool * P < ((now - last) * rate.m) / 1000000000 + err.m then pool * P
          else ((now - last) * rate.m) / 1000000000 + err.m) / P,
       ⟨(if pool * P < ((now - last) * rate.m) / 1000000000 + err.m then pool * P
          else ((now - last) * rate.m) / 1000000000 + err.m) % P⟩) := by
  have hx : 0 ≤ (now - last) * rate.m := Int.mul_nonneg (by omega) hr
  have ha : 0 ≤ ((now - last) * rate.m) / 1000000000 := Int.ediv_nonneg hx (by decide)
  have hpp : 0 ≤ pool * P := Int.mul_nonneg hp (by decide)
  unfold calculateStakingRewards
  simp only [accrued_m now last err rate hd hr]
  have hofm : (Dec.ofInt pool).m = pool * P := rfl
  rw [hofm]
  generalize hacc : ((now - last) * rate.m) / 1000000000 + err.m = a1
  have ha1 : 0 ≤ a1 := by omega
  by_cases hc : pool * P < a1
  · simp only [hc, ite_true]
    unfold truncateDec Dec.truncateInt Dec.ofInt Dec.sub
    simp only []
    rw [chopTrunc_nonneg_eq _ hpp]
    have h2 : 0 ≤ pool * P / P * P := Int.mul_nonneg (Int.ediv_nonneg hpp (by decide)) (by decide)
    rw [chopTrunc_nonneg_eq _ h2, Int.mul_ediv_cancel _ (by decide : P ≠ 0)]
    congr 1
    congr 1
    simp only [P_val]; omega
  · simp only [hc, ite_false]
    unfold truncateDec Dec.truncateInt Dec.ofInt Dec.sub
    simp only []
    have hm : (accrued now last err rate).m = a1 := by rw [accrued_m now last err rate hd hr, hacc]
    rw [hm, chopTrunc_nonneg_eq _ ha1]
    have h2 : 0 ≤ a1 / P * P := Int.mul_nonneg (Int.ediv_nonneg ha1 (by decide)) (by decide)
    rw [chopTrunc_nonneg_eq _ h2, Int.mul_ediv_cancel _ (by decide : P ≠ 0)]
    congr 1
    congr 1
    simp only [P_val]; omega
theorem calc_step (now last : Int) (err rate : Dec) (pool : Int)
    (hd : last ≤ now) (hr : 0 ≤ rate.m) (he : 0 ≤ err.m) (he1 : err.m < P) (hp : 0 ≤ pool) :
    ∀ r, r = calculateStakingRewards now last err rate (Dec.ofInt pool) →
    0 ≤ r.2.m ∧ r.2.m < P ∧ 0 ≤ r.1 ∧ r.1 ≤ pool ∧
    1000000000 * (r.1 * P + r.2.m - err.m) ≤ rate.m * (now - last) ∧
    (¬ (Dec.ofInt pool).m < (accrued now last err rate).m →
      rate.m * (now - last) - 1000000000 * (r.1 * P + r.2.m - err.m) < 1000000000) := by
  intro r hr'
  rw [calc_eq now last err rate pool hd hr he hp] at hr'
  have hofm : (Dec.ofInt pool).m = pool * P := rfl
  rw [accrued_m now last err rate hd hr, hofm]
  have hx : 0 ≤ (now - last) * rate.m := Int.mul_nonneg (by omega) hr
  rw [Int.mul_comm rate.m (now - last)]
  generalize (now - last) * rate.m = x at *
  subst hr'
  simp only [P_val] at *
  by_cases hc : pool * 1000000000000000000 < x / 1000000000 + err.m
  · simp only [hc, ite_true, not_true_eq_false, false_implies, and_true]
    omega
  · simp only [hc, ite_false, not_false_eq_true, true_implies]
    omega
theorem runBlocks_spec (rate : Dec) (hr : 0 ≤ rate.m) :
    ∀ (bs : List (Int × Int)) (t0 : Int) (e0 : Dec), 0 ≤ e0.m → e0.m < P → sortedFrom t0 bs →
      (∀ b ∈ bs, 0 ≤ b.2) →
      (runBlocks rate t0 e0 bs).2.1 = lastTime t0 bs ∧
      0 ≤ (runBlocks rate t0 e0 bs).2.2.m ∧ (runBlocks rate t0 e0 bs).2.2.m < P ∧
      paidWithin (runBlocks rate t0 e0 bs).1 bs ∧
      1000000000 * (sumL (runBlocks rate t0 e0 bs).1 * P + (runBlocks rate t0 e0 bs).2.2.m - e0.m)
        ≤ rate.m * (lastTime t0 bs - t0) ∧
      (uncapped rate t0 e0 bs = true →
        rate.m * (lastTime t0 bs - t0)
          - 1000000000 * (sumL (runBlocks rate t0 e0 bs).1 * P + (runBlocks rate t0 e0 bs).2.2.m - e0.m)
          ≤ 1000000000 * (bs.length : Int)) := by
  intro bs
  induction bs with
  | nil =>
    intro t0 e0 h0 h1 _ _
    simp only [runBlocks, lastTime, paidWithin, sumL, Int.sub_self, Int.mul_zero, Int.zero_mul,
      List.length_nil]
    refine ⟨trivial, h0, h1, trivial, ?_, ?_⟩ <;> omega
  | cons b bs ih =>
    obtain ⟨now, pool⟩ := b
    intro t0 e0 h0 h1 hs hp
    obtain ⟨hs1, hs2⟩ := hs
    have hpool : 0 ≤ pool := hp (now, pool) (List.mem_cons_self ..)
    have hp' : ∀ b ∈ bs, 0 ≤ b.2 := fun b hb => hp b (List.mem_cons_of_mem _ hb)
    obtain ⟨c1, c2, c3, c4, c5, c6⟩ :=
      calc_step now t0 e0 rate pool hs1 hr h0 h1 hpool _ rfl
    obtain ⟨i1, i2, i3, i4, i5, i6⟩ :=
      ih now (calculateStakingRewards now t0 e0 rate (Dec.ofInt pool)).2 c1 c2 hs2 hp'
    simp only [runBlocks, lastTime, paidWithin, sumL, uncapped, List.length_cons]
    generalize calculateStakingRewards now t0 e0 rate (Dec.ofInt pool) = r at *
    generalize runBlocks rate now r.2 bs = rest at *
    generalize lastTime now bs = tn at *
    have hsplit : rate.m * (tn - t0) = rate.m * (now - t0) + rate.m * (tn - now) := by
      rw [← Int.mul_add]; congr 1; omega
    generalize rate.m * (now - t0) = A at *
    generalize rate.m * (tn - now) = B at *
    have hadd : (r.1 + sumL rest.1) * P = r.1 * P + sumL rest.1 * P := Int.add_mul ..
    refine ⟨i1, i2, i3, ⟨c3, c4, i4⟩, ?_, ?_⟩
    · rw [hsplit, hadd]; simp only [P_val] at *; omega
    · intro hu
      simp only [Bool.and_eq_true, Bool.not_eq_true', decide_eq_false_iff_not] at hu
      have k1 := c6 hu.1
      have k2 := i6 hu.2
      rw [hsplit, hadd]; simp only [P_val] at *; omega
/-- piecewise-constant rate: paid + carried-out error ≤ carried-in error + Σ rate_b·Δt_b, every payout
    is non-negative and at most `rate_b·Δt_b + carried error`, i.e. nothing is paid for earlier time -/
theorem runBlocksR_spec : ∀ (bs : List (Int × Int × Dec)) (t0 : Int) (e0 : Dec), 0 ≤ e0.m → e0.m < P →
    okBlocksR t0 bs →
    0 ≤ (runBlocksR t0 e0 bs).2.2.m ∧ (runBlocksR t0 e0 bs).2.2.m < P ∧
    1000000000 * (sumL (runBlocksR t0 e0 bs).1 * P + (runBlocksR t0 e0 bs).2.2.m - e0.m) ≤ rateTime t0 bs := by
  intro bs
  induction bs with
  | nil =>
    intro t0 e0 h0 h1 _
    simp only [runBlocksR, rateTime, sumL]
    refine ⟨h0, h1, ?_⟩; omega
  | cons b bs ih =>
    obtain ⟨now, pool, rate⟩ := b
    intro t0 e0 h0 h1 hs
    obtain ⟨hs1, hs2, hs3, hs4⟩ := hs
    obtain ⟨c1, c2, c3, c4, c5, -⟩ := calc_step now t0 e0 rate pool hs1 hs3 h0 h1 hs2 _ rfl
    obtain ⟨i1, i2, i3⟩ := ih now (calculateStakingRewards now t0 e0 rate (Dec.ofInt pool)).2 c1 c2 hs4
    simp only [runBlocksR, rateTime, sumL]
    generalize calculateStakingRewards now t0 e0 rate (Dec.ofInt pool) = r at *
    generalize runBlocksR now r.2 bs = rest at *
    generalize rate.m * (now - t0) = A at *
    generalize rateTime now bs = B at *
    have hadd : (r.1 + sumL rest.1) * P = r.1 * P + sumL rest.1 * P := Int.add_mul ..
    refine ⟨i1, i2, ?_⟩
    rw [hadd]; simp only [P_val] at *; omega

/-- piecewise-constant rate, cap never taken: the shortfall is at most the per-block `QuoInt64` truncations -/
theorem runBlocksR_lower : ∀ (bs : List (Int × Int × Dec)) (t0 : Int) (e0 : Dec), 0 ≤ e0.m → e0.m < P →
    okBlocksR t0 bs → uncappedR t0 e0 bs = true →
    rateTime t0 bs - 1000000000 * (sumL (runBlocksR t0 e0 bs).1 * P + (runBlocksR t0 e0 bs).2.2.m - e0.m)
      ≤ 1000000000 * (bs.length : Int) := by
  intro bs
  induction bs with
  | nil =>
    intro t0 e0 _ _ _ _
    simp only [runBlocksR, rateTime, sumL, List.length_nil]
    omega
  | cons b bs ih =>
    obtain ⟨now, pool, rate⟩ := b
    intro t0 e0 h0 h1 hs hu
    obtain ⟨hs1, hs2, hs3, hs4⟩ := hs
    simp only [uncappedR, Bool.and_eq_true, Bool.not_eq_true', decide_eq_false_iff_not] at hu
    obtain ⟨c1, c2, -, -, -, c6⟩ := calc_step now t0 e0 rate pool hs1 hs3 h0 h1 hs2 _ rfl
    have k1 := c6 hu.1
    have k2 := ih now (calculateStakingRewards now t0 e0 rate (Dec.ofInt pool)).2 c1 c2 hs4 hu.2
    simp only [runBlocksR, rateTime, sumL, List.length_cons]
    generalize calculateStakingRewards now t0 e0 rate (Dec.ofInt pool) = r at *
    generalize runBlocksR now r.2 bs = rest at *
    generalize rate.m * (now - t0) = A at *
    generalize rateTime now bs = B at *
    have hadd : (r.1 + sumL rest.1) * P = r.1 * P + sumL rest.1 * P := Int.add_mul ..
    rw [hadd]; simp only [P_val] at *; omega

/-- a history with params-update messages interleaved IS the block history with, for every block, the
    rate stored when its begin blocker ran: an update touches neither the accumulation time nor the error -/
theorem runHist_blocks : ∀ (hs : List HStep) (rate : Dec) (last : Int) (err : Dec),
    (runHist rate last err hs).1 = (runBlocksR last err (blocksOf rate hs)).1 ∧
    (runHist rate last err hs).2.1 = (runBlocksR last err (blocksOf rate hs)).2.1 ∧
    (runHist rate last err hs).2.2.1 = (runBlocksR last err (blocksOf rate hs)).2.2 := by
  intro hs
  induction hs with
  | nil => intro rate last err; simp only [runHist, blocksOf, runBlocksR, and_self]
  | cons h hs ih =>
    intro rate last err
    cases h with
    | block now pool =>
      obtain ⟨i1, i2, i3⟩ := ih rate now (calculateStakingRewards now last err rate (Dec.ofInt pool)).2
      simp only [runHist, blocksOf, runBlocksR]
      exact ⟨by rw [i1], i2, i3⟩
    | update rate' =>
      simp only [runHist, blocksOf]
      exact ih rate' last err

theorem order3_val : order3 = ["community", "mint", "kavadist"] := by decide

theorem disable_none (now : Int) (p : CommParams) (x : Infl) (h : p.upgradeTime = none) :
    checkAndDisable now p x = (false, p, x) := by
  unfold checkAndDisable; rw [h]

theorem disable_before (now : Int) (p : CommParams) (x : Infl) (u : Int) (h : p.upgradeTime = some u)
    (hlt : now < u) : checkAndDisable now p x = (false, p, x) := by
  unfold checkAndDisable; rw [h]; simp only [gt_iff_lt, hlt, ite_true]

theorem disable_fires (now : Int) (p : CommParams) (x : Infl) (u : Int) (h : p.upgradeTime = some u)
    (hge : u ≤ now) : checkAndDisable now p x =
      (true, { upgradeTime := none, rate := p.upgradeRate, upgradeRate := p.upgradeRate },
        { mintMin := Dec.zero, mintMax := Dec.zero, kavadistActive := false, communityTax := Dec.zero }) := by
  unfold checkAndDisable; rw [h]
  have : ¬ u > now := by omega
  simp only [this, ite_false]

theorem runDisable_quiet (p : CommParams) (x : Infl) :
    ∀ (ts : List Int), (∀ u, p.upgradeTime = some u → ∀ t ∈ ts, t < u) →
      runDisable p x ts = (List.replicate ts.length false, p, x) := by
  intro ts
  induction ts with
  | nil => intro _; rfl
  | cons t ts ih =>
    intro h
    have hd : checkAndDisable t p x = (false, p, x) := by
      cases hu : p.upgradeTime with
      | none => exact disable_none t p x hu
      | some u => exact disable_before t p x u hu (h u hu t (List.mem_cons_self ..))
    unfold runDisable
    rw [hd]
    simp only [ih (fun u hu s hs => h u hu s (List.mem_cons_of_mem _ hs)), List.length_cons,
      List.replicate_succ]

theorem runDisable_once (p : CommParams) (x : Infl) (u : Int) (h : p.upgradeTime = some u) :
    ∀ (pre : List Int) (t : Int) (post : List Int), (∀ s ∈ pre, s < u) → u ≤ t →
      runDisable p x (pre ++ t :: post) =
        (List.replicate pre.length false ++ true :: List.replicate post.length false,
          { upgradeTime := none, rate := p.upgradeRate, upgradeRate := p.upgradeRate },
          { mintMin := Dec.zero, mintMax := Dec.zero, kavadistActive := false, communityTax := Dec.zero }) := by
  intro pre
  induction pre with
  | nil =>
    intro t post _ ht
    simp only [List.nil_append, runDisable, disable_fires t p x u h ht, List.length_nil,
      List.replicate_zero]
    rw [runDisable_quiet _ _ post (by intro u' hu'; cases hu')]
  | cons s pre ih =>
    intro t post hpre ht
    have hs : s < u := hpre s (List.mem_cons_self ..)
    simp only [List.cons_append, runDisable, disable_before s p x u h hs, List.length_cons,
      List.replicate_succ]
    rw [ih t post (fun r hr => hpre r (List.mem_cons_of_mem _ hr)) ht]

theorem community_infl (now inflow : Int) (s s' : CommSt) (f : Bool) (paid : Int)
    (h : communityBeginBlock now inflow s = .ok (s', f, paid)) :
    f = (checkAndDisable now s.params s.infl).1 ∧ s'.params = (checkAndDisable now s.params s.infl).2.1 ∧
    s'.infl = (checkAndDisable now s.params s.infl).2.2 := by
  unfold communityBeginBlock at h
  simp only [] at h
  split at h
  · injection h with h; injection h with h1 h2; injection h2 with h2 h3
    subst h1; subst h2
    exact ⟨rfl, rfl, rfl⟩
  · cases h
  · cases h

theorem chain_eq (v : Variant) (zp : Bool) (pow : Int → Int → Int) (now inflow mintProv : Int) (c : Chain) :
    chainBeginBlock v zp pow now inflow mintProv c =
      match communityBeginBlock now inflow c.comm with
      | .ok (s, f, p) =>
        kavadistBeginBlock v zp pow now
          { comm := s, kd := c.kd, supply := c.supply + mintProv, fired := f, paid := p, kdMints := [], kdMinted := 0 }
      | .err => .err
      | .panic => .panic := by
  unfold chainBeginBlock
  rw [order3_val]
  simp only [List.foldl, moduleStep]
  cases hcb : communityBeginBlock now inflow c.comm with
  | ok r => obtain ⟨s, f, p⟩ := r; simp
  | err => simp
  | panic => simp

theorem kavadist_inactive (v : Variant) (zp : Bool) (pow : Int → Int → Int) (now : Int) (c : Chain)
    (h : c.comm.infl.kavadistActive = false) :
    kavadistBeginBlock v zp pow now c = .ok { c with kdMints := [], kdMinted := 0 } := by
  unfold kavadistBeginBlock
  simp [h, mintPeriodInflation, applyMints]

theorem kavadist_no_zp (v : Variant) (pow : Int → Int → Int) (now : Int) (c : Chain) :
    ∃ c', kavadistBeginBlock v false pow now c = .ok c' := by
  unfold kavadistBeginBlock
  simp

theorem kavadist_no_infra (v : Variant) (zp : Bool) (pow : Int → Int → Int) (now : Int) (c : Chain)
    (h : c.kd.infra = []) : ∃ c', kavadistBeginBlock v zp pow now c = .ok c' := by
  unfold kavadistBeginBlock mintPeriodInflation
  cases ha : c.comm.infl.kavadistActive with
  | false => simp [applyMints]
  | true =>
    cases hp : c.kd.prev with
    | none => simp [applyMints]
    | some prev => simp [h, mintInfrastructurePeriods, applyMints]

/-- `PayoutAccumulatedStakingRewards` on an initialised state pays what `calculateStakingRewards`
    returns and never panics -/
theorem payout_ok (rate : Dec) (now last : Int) (s : StakingSt)
    (hl : s.last = some last) (hd : last ≤ now) (hr : 0 ≤ rate.m) (he : 0 ≤ s.err.m ∧ s.err.m < P)
    (hp : 0 ≤ s.pool) :
    ∃ s' paid, payout rate now s = .ok (s', paid) ∧
      paid = (calculateStakingRewards now last s.err rate (Dec.ofInt s.pool)).1 ∧
      s'.err = (calculateStakingRewards now last s.err rate (Dec.ofInt s.pool)).2 ∧
      0 ≤ paid ∧ paid ≤ s.pool ∧ s'.pool = s.pool - paid ∧ s'.fee = s.fee + paid ∧
      s'.last = some now ∧ 0 ≤ s'.err.m ∧ s'.err.m < P := by
  obtain ⟨c1, c2, c3, c4, -, -⟩ := calc_step now last s.err rate s.pool hd hr he.1 he.2 hp _ rfl
  unfold payout
  rw [hl]
  simp only []
  generalize calculateStakingRewards now last s.err rate (Dec.ofInt s.pool) = r at *
  by_cases h0 : r.1 = 0
  · simp only [h0, ite_true]
    exact ⟨_, _, rfl, rfl, rfl, by omega, by omega, by simp only []; omega, by simp only []; omega, rfl, c1, c2⟩
  · have h1 : ¬ r.1 < 0 := by omega
    have h2 : ¬ s.pool < r.1 := by omega
    simp only [h0, h1, h2, ite_false]
    exact ⟨_, _, rfl, rfl, rfl, c3, c4, rfl, rfl, rfl, c1, c2⟩

theorem payout_init (rate : Dec) (now : Int) (s : StakingSt) (hl : s.last = none) :
    payout rate now s = .ok ({ s with last := some now }, 0) := by
  unfold payout; rw [hl]

theorem disable_rate_nonneg (now : Int) (p : CommParams) (x : Infl) (h1 : 0 ≤ p.rate.m)
    (h2 : 0 ≤ p.upgradeRate.m) : 0 ≤ (checkAndDisable now p x).2.1.rate.m := by
  unfold checkAndDisable
  split
  · exact h1
  · split
    · exact h1
    · exact h2

theorem community_ok (now inflow : Int) (s : CommSt) (hr : 0 ≤ s.params.rate.m)
    (hur : 0 ≤ s.params.upgradeRate.m) (hl : ∀ l, s.stk.last = some l → l ≤ now)
    (he : 0 ≤ s.stk.err.m ∧ s.stk.err.m < P) (hp : 0 ≤ s.stk.pool) (hin : 0 ≤ inflow) :
    ∃ r, communityBeginBlock now inflow s = .ok r := by
  unfold communityBeginBlock
  simp only []
  have hrate := disable_rate_nonneg now s.params s.infl hr hur
  generalize checkAndDisable now s.params s.infl = d at *
  generalize hstk : (if d.1 = true then { s.stk with pool := s.stk.pool + inflow } else s.stk) = stk
  have hlast : stk.last = s.stk.last := by rw [← hstk]; split <;> rfl
  have herr : stk.err = s.stk.err := by rw [← hstk]; split <;> rfl
  have hpool : 0 ≤ stk.pool := by
    rw [← hstk]; split
    · simp only []; omega
    · exact hp
  cases hq : s.stk.last with
  | none =>
    rw [payout_init _ _ _ (by rw [hlast, hq])]
    exact ⟨_, rfl⟩
  | some l =>
    obtain ⟨s', paid, h, -⟩ := payout_ok d.2.1.rate now l stk (by rw [hlast, hq]) (hl l hq) hrate
      (by rw [herr]; exact he) hpool
    rw [h]
    exact ⟨_, rfl⟩

theorem chopTrunc_mono (a b : Int) (h : a ≤ b) : chopTrunc a ≤ chopTrunc b := by
  unfold chopTrunc tquo
  have hP : (0 : Int) ≤ P := by decide
  simp only [hP, ite_true, P_val]
  split <;> split <;> omega

theorem mintAmount_eq (pow : Int → Int → Int) (supply : Int) (rate : Dec) (secs : Int) :
    mintAmount pow supply rate secs =
      chopTrunc (supply * pow (inflationInt rate) secs - supply * P) := by
  unfold mintAmount
  simp only []
  generalize pow (inflationInt rate) secs = pw
  have h1 : Dec.mul ⟨pw * P⟩ Dec.smallest = ⟨pw⟩ := by
    unfold Dec.mul Dec.smallest; simp only [Int.mul_one, chopRound_mul_P]
  rw [h1]
  unfold Dec.mul Dec.ofInt Dec.sub Dec.truncateInt
  simp only []
  rw [Int.mul_right_comm, chopRound_mul_P]

/-- the minted amount is monotone in the number of seconds whenever `pow` is monotone in its exponent -/
theorem mintAmount_mono (pow : Int → Int → Int) (supply : Int) (hs : 0 ≤ supply) (rate : Dec)
    (hpow : ∀ n n', n ≤ n' → pow (inflationInt rate) n ≤ pow (inflationInt rate) n')
    (secs secs' : Int) (h : secs ≤ secs') :
    mintAmount pow supply rate secs ≤ mintAmount pow supply rate secs' := by
  rw [mintAmount_eq, mintAmount_eq]
  apply chopTrunc_mono
  have := Int.mul_le_mul_of_nonneg_left (hpow secs secs' h) hs
  omega

theorem mintAmount_nonneg (pow : Int → Int → Int) (supply : Int) (hs : 0 ≤ supply) (rate : Dec) (secs : Int)
    (h : P ≤ pow (inflationInt rate) secs) :
    0 ≤ mintAmount pow supply rate secs := by
  rw [mintAmount_eq]
  have := Int.mul_le_mul_of_nonneg_left h hs
  have h0 : chopTrunc 0 = 0 := by decide
  have := chopTrunc_mono 0 (supply * pow (inflationInt rate) secs - supply * P) (by omega)
  omega
end KV.Em
