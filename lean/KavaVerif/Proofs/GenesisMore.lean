/-
  Helper lemmas for the further C14 genesis models (Model/GenesisMore.lean). Core Lean only.
-/
import KavaVerif.Proofs.GenesisModels
import KavaVerif.Model.GenesisMore
set_option linter.unusedSimpArgs false
set_option linter.unusedVariables false

namespace KV.Gx
open List

/-- a filter that keeps every element is the identity -/
theorem filter_all {α : Type} (l : List α) (p : α → Bool) (h : ∀ x ∈ l, p x = true) : l.filter p = l :=
  List.filter_eq_self.mpr h

/-- the import creates no supply record when every rate-limited asset already has one -/
theorem issCreateMissing_noop (assets : List IssAsset) (st : List (Nat × IssSupply))
    (h : ∀ a ∈ assets, a.rateLimited = true → (keys st).contains a.denom = true) :
    issCreateMissing assets st = st := by
  induction assets with
  | nil => rfl
  | cons a r ih =>
    unfold issCreateMissing
    have hr : ∀ b ∈ r, b.rateLimited = true → (keys st).contains b.denom = true :=
      fun b hb => h b (by simp [hb])
    by_cases hl : a.rateLimited = true
    · have := h a (by simp) hl
      simp only [hl, this, Bool.not_true, Bool.and_false, Bool.false_eq_true, ite_false]
      exact ih hr
    · have hf : a.rateLimited = false := by cases hx : a.rateLimited <;> simp_all
      simp only [hf, Bool.false_and, Bool.false_eq_true, ite_false]
      exact ih hr

theorem any_false_of_forall {α : Type} (l : List α) (p : α → Bool) (h : ∀ x ∈ l, p x = false) : l.any p = false := by
  induction l with
  | nil => rfl
  | cons a r ih =>
    simp only [List.any_cons, Bool.or_eq_false_iff]
    exact ⟨h a (by simp), ih (fun x hx => h x (by simp [hx]))⟩

end KV.Gx
