/-
  Helper lemmas for C13 (x/bep3), part 4: the BeginBlocker (period reset, index-driven expiry,
  index-driven pruning) and the governance operation.  Core Lean only.
-/
import KavaVerif.Proofs.Bep3Ops
set_option linter.unusedSimpArgs false
set_option linter.unusedVariables false

namespace KV.Bep3

/-! ### UpdateTimeBasedSupplyLimits -/

theorem resetSupply_fields (a : Asset) (sup : Supply) (dt : Int) :
    (resetSupply a sup dt).incoming = sup.incoming ∧ (resetSupply a sup dt).outgoing = sup.outgoing ∧
    (resetSupply a sup dt).current = sup.current ∧
    ((resetSupply a sup dt).tlCurrent = sup.tlCurrent ∨ (resetSupply a sup dt).tlCurrent = 0) := by
  unfold resetSupply; split
  · exact ⟨rfl, rfl, rfl, Or.inl rfl⟩
  · exact ⟨rfl, rfl, rfl, Or.inr rfl⟩

theorem resetAll_fields (dt : Int) (l : List (Denom × Asset)) : ∀ (f : Denom → Supply) (d : Denom),
    (resetAll dt l f d).incoming = (f d).incoming ∧ (resetAll dt l f d).outgoing = (f d).outgoing ∧
    (resetAll dt l f d).current = (f d).current ∧
    ((resetAll dt l f d).tlCurrent = (f d).tlCurrent ∨ (resetAll dt l f d).tlCurrent = 0) := by
  induction l with
  | nil => intro f d; exact ⟨rfl, rfl, rfl, Or.inl rfl⟩
  | cons x xs ih =>
    intro f d
    obtain ⟨d', a⟩ := x
    have := ih (upd f d' (resetSupply a (f d') dt)) d
    unfold resetAll
    by_cases hd : d = d'
    · subst hd
      rw [upd_same] at this
      obtain ⟨r1, r2, r3, r4⟩ := resetSupply_fields a (f d) dt
      refine ⟨by rw [this.1, r1], by rw [this.2.1, r2], by rw [this.2.2.1, r3], ?_⟩
      rcases this.2.2.2 with t | t
      · rcases r4 with u | u
        · exact Or.inl (by rw [t, u])
        · exact Or.inr (by rw [t, u])
      · exact Or.inr t
    · rw [upd_other _ _ hd] at this; exact this

theorem updateTimeLimits_fields (s : St) :
    (updateTimeLimits s).swaps = s.swaps ∧ (updateTimeLimits s).byBlock = s.byBlock ∧
    (updateTimeLimits s).longterm = s.longterm ∧ (updateTimeLimits s).height = s.height ∧
    (updateTimeLimits s).assets = s.assets ∧ (updateTimeLimits s).bal = s.bal ∧
    (updateTimeLimits s).bankSupply = s.bankSupply ∧ (updateTimeLimits s).time = s.time ∧
    ∀ d, ((updateTimeLimits s).supply d).incoming = (s.supply d).incoming ∧
         ((updateTimeLimits s).supply d).outgoing = (s.supply d).outgoing ∧
         ((updateTimeLimits s).supply d).current = (s.supply d).current ∧
         (((updateTimeLimits s).supply d).tlCurrent = (s.supply d).tlCurrent ∨
          ((updateTimeLimits s).supply d).tlCurrent = 0) := by
  unfold updateTimeLimits
  split
  · exact ⟨rfl, rfl, rfl, rfl, rfl, rfl, rfl, rfl, fun d => ⟨rfl, rfl, rfl, Or.inl rfl⟩⟩
  · exact ⟨rfl, rfl, rfl, rfl, rfl, rfl, rfl, rfl, fun d => resetAll_fields _ _ _ d⟩

/-! ### UpdateExpiredAtomicSwaps -/

/-- what the expiry loop does to a record: expired iff its by-block key is among the processed entries -/
def expireMap (due : List Key) (x : Swap) : Swap := if (x.expire, x.id) ∈ due then expd x else x

theorem expireStep_spec {cfg : Cfg} {hs : Hashes} {s : St} (h : Inv cfg hs s) {e : Key} (he : e ∈ s.byBlock) :
    ∃ sw, sw ∈ s.swaps ∧ sw.status = .open ∧ e = (sw.expire, sw.id) ∧
      (expireStep hs s e).swaps = replaceSwap s.swaps (expd sw) ∧
      (expireStep hs s e).byBlock = delKey s.byBlock e ∧
      (expireStep hs s e).longterm = s.longterm ∧ (expireStep hs s e).height = s.height ∧
      (expireStep hs s e).supply = s.supply ∧ (expireStep hs s e).bal = s.bal ∧
      (expireStep hs s e).assets = s.assets ∧ (expireStep hs s e).bankSupply = s.bankSupply ∧
      (expireStep hs s e).time = s.time ∧ (expireStep hs s e).prevTime = s.prevTime := by
  obtain ⟨sw, hm, ho, rfl⟩ := (h.bb e).mp he
  have hf : findSwap s.swaps sw.id = some sw := findSwap_mem h.nodup hm
  have hid := h.idok sw hm
  have hg : getSwapID hs { sw with status := .expired } = sw.id := hid.symm
  have hk : keyed hs { sw with status := .expired } = expd sw := by
    unfold keyed; rw [hg]; rfl
  refine ⟨sw, hm, ho, rfl, ?_, ?_, ?_, ?_, ?_, ?_, ?_, ?_, ?_, ?_⟩ <;>
    (unfold expireStep; simp only [hf])
  · rw [hk]; exact setSwap_found (old := sw) hf
  · rw [hg]

theorem expireStep_inv {cfg : Cfg} {hs : Hashes} {s : St} (h : Inv cfg hs s) {e : Key} (he : e ∈ s.byBlock)
    (hdue : e.1 ≤ s.height) : Inv cfg hs (expireStep hs s e) := by
  obtain ⟨sw, hm, ho, rfl, f1, f2, f3, f4, f5, f6, f7, -, -, -⟩ := expireStep_spec h he
  exact inv_expire h hm ho hdue _ f1 f2 f3 f4 f5 f6 f7

theorem expd_expd (x : Swap) : expd (expd x) = expd x := rfl

theorem expireFold {cfg : Cfg} {hs : Hashes} : ∀ (due : List Key) (s : St), Inv cfg hs s → due.Nodup →
    (∀ e ∈ due, e ∈ s.byBlock ∧ e.1 ≤ s.height) →
    Inv cfg hs (due.foldl (expireStep hs) s) ∧
    (due.foldl (expireStep hs) s).swaps = s.swaps.map (expireMap due) ∧
    (due.foldl (expireStep hs) s).byBlock = s.byBlock.filter (fun e => e ∉ due) ∧
    (due.foldl (expireStep hs) s).longterm = s.longterm ∧ (due.foldl (expireStep hs) s).height = s.height ∧
    (due.foldl (expireStep hs) s).supply = s.supply ∧ (due.foldl (expireStep hs) s).bal = s.bal ∧
    (due.foldl (expireStep hs) s).assets = s.assets ∧ (due.foldl (expireStep hs) s).bankSupply = s.bankSupply ∧
    (due.foldl (expireStep hs) s).time = s.time ∧ (due.foldl (expireStep hs) s).prevTime = s.prevTime := by
  intro due
  induction due with
  | nil =>
    intro s h _ _
    refine ⟨h, ?_, ?_, rfl, rfl, rfl, rfl, rfl, rfl, rfl, rfl⟩
    · simp only [List.foldl_nil]
      have : (expireMap []) = id := by funext x; simp [expireMap]
      rw [this, List.map_id]
    · simp only [List.foldl_nil]
      exact (List.filter_eq_self.mpr (by intro x _; simp)).symm
  | cons e rest ih =>
    intro s h hnd hdue
    have hnd' := List.nodup_cons.mp hnd
    have he := hdue e List.mem_cons_self
    obtain ⟨sw, hm, ho, hek, f1, f2, f3, f4, f5, f6, f7, f8, f9, f10⟩ := expireStep_spec h he.1
    have h1 := expireStep_inv h he.1 he.2
    have hrest : ∀ e' ∈ rest, e' ∈ (expireStep hs s e).byBlock ∧ e'.1 ≤ (expireStep hs s e).height := by
      intro e' he'
      have := hdue e' (List.mem_cons_of_mem _ he')
      rw [f2, f4, mem_delKey]
      refine ⟨⟨this.1, ?_⟩, this.2⟩
      intro heq; subst heq; exact hnd'.1 he'
    obtain ⟨i1, i2, i3, i4, i5, i6, i7, i8, i9, i10, i11⟩ := ih (expireStep hs s e) h1 hnd'.2 hrest
    simp only [List.foldl_cons]
    refine ⟨i1, ?_, ?_, by rw [i4, f3], by rw [i5, f4], by rw [i6, f5], by rw [i7, f6], by rw [i8, f7],
      by rw [i9, f8], by rw [i10, f9], by rw [i11, f10]⟩
    · rw [i2, f1]
      unfold replaceSwap
      rw [List.map_map]
      apply List.map_congr_left
      intro x hx
      simp only [Function.comp]
      by_cases hxid : x.id = sw.id
      · have hxe : x = sw := nodup_id_eq h.nodup hx hm hxid
        subst hxe
        have hid' : (expd x).id = x.id := rfl
        simp only [hid', ite_true]
        have hin : (x.expire, x.id) ∈ e :: rest := by rw [hek]; exact List.mem_cons_self
        unfold expireMap
        simp only [hin, ite_true]
        have hexp : (expd x).expire = x.expire := rfl
        rw [hexp, hid']
        split
        · rfl
        · rfl
      · have hxid' : ¬ x.id = (expd sw).id := hxid
        simp only [hxid', ite_false]
        unfold expireMap
        have hne : (x.expire, x.id) ≠ e := by
          rw [hek]; intro hk; exact hxid (Prod.mk.inj hk).2
        simp only [List.mem_cons, hne, false_or]
    · rw [i3, f2]
      unfold delKey
      rw [List.filter_filter]
      apply List.filter_congr
      intro x hx
      by_cases hxe : x = e
      · subst hxe; simp
      · simp [hxe]

theorem updateExpired_spec {cfg : Cfg} {hs : Hashes} {s : St} (h : Inv cfg hs s) :
    Inv cfg hs (updateExpired hs s) ∧
    (updateExpired hs s).swaps = s.swaps.map (expireMap (s.byBlock.filter (fun e => e.1 ≤ s.height))) ∧
    (updateExpired hs s).byBlock = s.byBlock.filter (fun e => ¬ e.1 ≤ s.height) ∧
    (updateExpired hs s).longterm = s.longterm ∧ (updateExpired hs s).height = s.height ∧
    (updateExpired hs s).supply = s.supply ∧ (updateExpired hs s).bal = s.bal ∧
    (updateExpired hs s).assets = s.assets ∧ (updateExpired hs s).bankSupply = s.bankSupply ∧
    (updateExpired hs s).time = s.time ∧ (updateExpired hs s).prevTime = s.prevTime := by
  have hnd : (s.byBlock.filter (fun e => e.1 ≤ s.height)).Nodup := List.Nodup.sublist List.filter_sublist h.bbnd
  have hdue : ∀ e ∈ s.byBlock.filter (fun e => e.1 ≤ s.height), e ∈ s.byBlock ∧ e.1 ≤ s.height := by
    intro e he
    have := List.mem_filter.mp he
    exact ⟨this.1, by simpa using this.2⟩
  obtain ⟨i1, i2, i3, i4, i5, i6, i7, i8, i9, i10, i11⟩ := expireFold _ s h hnd hdue
  refine ⟨i1, i2, ?_, i4, i5, i6, i7, i8, i9, i10, i11⟩
  unfold updateExpired
  rw [i3]
  apply List.filter_congr
  intro x hx
  simp [List.mem_filter, hx]

/-! ### DeleteClosedAtomicSwapsFromLongtermStorage -/

/-- what the pruning loop keeps: the records whose long-term key is not among the processed entries -/
def keepBy (due : List Key) (x : Swap) : Bool := decide ((x.closed + horizon, x.id) ∉ due)

theorem pruneStep_spec {cfg : Cfg} {hs : Hashes} {s : St} (h : Inv cfg hs s) {e : Key} (he : e ∈ s.longterm) :
    ∃ sw, sw ∈ s.swaps ∧ sw.status = .completed ∧ e = (sw.closed + horizon, sw.id) ∧
      (pruneStep hs s e).swaps = delSwap s.swaps sw.id ∧
      (pruneStep hs s e).byBlock = s.byBlock ∧
      (pruneStep hs s e).longterm = delKey s.longterm e ∧ (pruneStep hs s e).height = s.height ∧
      (pruneStep hs s e).supply = s.supply ∧ (pruneStep hs s e).bal = s.bal ∧
      (pruneStep hs s e).assets = s.assets ∧ (pruneStep hs s e).bankSupply = s.bankSupply ∧
      (pruneStep hs s e).time = s.time ∧ (pruneStep hs s e).prevTime = s.prevTime := by
  obtain ⟨sw, hm, ho, rfl⟩ := (h.lt e).mp he
  have hf : findSwap s.swaps sw.id = some sw := findSwap_mem h.nodup hm
  have hg : getSwapID hs sw = sw.id := (h.idok sw hm).symm
  refine ⟨sw, hm, ho, rfl, ?_, ?_, ?_, ?_, ?_, ?_, ?_, ?_, ?_, ?_⟩ <;>
    (unfold pruneStep; simp only [hf, hg])

theorem pruneStep_inv {cfg : Cfg} {hs : Hashes} {s : St} (h : Inv cfg hs s) {e : Key} (he : e ∈ s.longterm) :
    Inv cfg hs (pruneStep hs s e) := by
  obtain ⟨sw, hm, ho, rfl, f1, f2, f3, f4, f5, f6, f7, -, -, -⟩ := pruneStep_spec h he
  exact inv_prune h hm ho _ f1 f2 f3 f4 f5 f6 f7

theorem pruneFold {cfg : Cfg} {hs : Hashes} : ∀ (due : List Key) (s : St), Inv cfg hs s → due.Nodup →
    (∀ e ∈ due, e ∈ s.longterm) →
    Inv cfg hs (due.foldl (pruneStep hs) s) ∧
    (due.foldl (pruneStep hs) s).swaps = s.swaps.filter (keepBy due) ∧
    (due.foldl (pruneStep hs) s).longterm = s.longterm.filter (fun e => e ∉ due) ∧
    (due.foldl (pruneStep hs) s).byBlock = s.byBlock ∧ (due.foldl (pruneStep hs) s).height = s.height ∧
    (due.foldl (pruneStep hs) s).supply = s.supply ∧ (due.foldl (pruneStep hs) s).bal = s.bal ∧
    (due.foldl (pruneStep hs) s).assets = s.assets ∧ (due.foldl (pruneStep hs) s).bankSupply = s.bankSupply ∧
    (due.foldl (pruneStep hs) s).time = s.time ∧ (due.foldl (pruneStep hs) s).prevTime = s.prevTime := by
  intro due
  induction due with
  | nil =>
    intro s h _ _
    refine ⟨h, ?_, ?_, rfl, rfl, rfl, rfl, rfl, rfl, rfl, rfl⟩
    · simp only [List.foldl_nil]
      exact (List.filter_eq_self.mpr (by intro x _; simp [keepBy])).symm
    · simp only [List.foldl_nil]
      exact (List.filter_eq_self.mpr (by intro x _; simp)).symm
  | cons e rest ih =>
    intro s h hnd hdue
    have hnd' := List.nodup_cons.mp hnd
    have he := hdue e List.mem_cons_self
    obtain ⟨sw, hm, ho, hek, f1, f2, f3, f4, f5, f6, f7, f8, f9, f10⟩ := pruneStep_spec h he
    have h1 := pruneStep_inv h he
    have hrest : ∀ e' ∈ rest, e' ∈ (pruneStep hs s e).longterm := by
      intro e' he'
      have := hdue e' (List.mem_cons_of_mem _ he')
      rw [f3, mem_delKey]
      refine ⟨this, ?_⟩
      intro heq; subst heq; exact hnd'.1 he'
    obtain ⟨i1, i2, i3, i4, i5, i6, i7, i8, i9, i10, i11⟩ := ih (pruneStep hs s e) h1 hnd'.2 hrest
    simp only [List.foldl_cons]
    refine ⟨i1, ?_, ?_, by rw [i4, f2], by rw [i5, f4], by rw [i6, f5], by rw [i7, f6], by rw [i8, f7],
      by rw [i9, f8], by rw [i10, f9], by rw [i11, f10]⟩
    · rw [i2, f1]
      unfold delSwap
      rw [List.filter_filter]
      apply List.filter_congr
      intro x hx
      unfold keepBy
      by_cases hxid : x.id = sw.id
      · have hxe : x = sw := nodup_id_eq h.nodup hx hm hxid
        subst hxe
        have hin : (x.closed + horizon, x.id) ∈ e :: rest := by rw [hek]; exact List.mem_cons_self
        simp [hin]
      · have hne : (x.closed + horizon, x.id) ≠ e := by
          rw [hek]; intro hk; exact hxid (Prod.mk.inj hk).2
        simp [hxid, hne]
    · rw [i3, f3]
      unfold delKey
      rw [List.filter_filter]
      apply List.filter_congr
      intro x hx
      by_cases hxe : x = e
      · subst hxe; simp
      · simp [hxe]

theorem deleteClosed_spec {cfg : Cfg} {hs : Hashes} {s : St} (h : Inv cfg hs s) :
    Inv cfg hs (deleteClosed hs s) ∧
    (deleteClosed hs s).swaps = s.swaps.filter (keepBy (s.longterm.filter (fun e => e.1 ≤ s.height))) ∧
    (deleteClosed hs s).longterm = s.longterm.filter (fun e => ¬ e.1 ≤ s.height) ∧
    (deleteClosed hs s).byBlock = s.byBlock ∧ (deleteClosed hs s).height = s.height ∧
    (deleteClosed hs s).supply = s.supply ∧ (deleteClosed hs s).bal = s.bal ∧
    (deleteClosed hs s).assets = s.assets ∧ (deleteClosed hs s).bankSupply = s.bankSupply ∧
    (deleteClosed hs s).time = s.time ∧ (deleteClosed hs s).prevTime = s.prevTime := by
  have hnd : (s.longterm.filter (fun e => e.1 ≤ s.height)).Nodup := List.Nodup.sublist List.filter_sublist h.ltnd
  have hdue : ∀ e ∈ s.longterm.filter (fun e => e.1 ≤ s.height), e ∈ s.longterm := by
    intro e he; exact (List.mem_filter.mp he).1
  obtain ⟨i1, i2, i3, i4, i5, i6, i7, i8, i9, i10, i11⟩ := pruneFold _ s h hnd hdue
  refine ⟨i1, i2, ?_, i4, i5, i6, i7, i8, i9, i10, i11⟩
  unfold deleteClosed
  rw [i3]
  apply List.filter_congr
  intro x hx
  simp [List.mem_filter, hx]

/-! ### the whole BeginBlocker -/

/-- the fate of one record in a begin block at height `h`: pruned, expired or untouched -/
def blockFate (h : Nat) (x : Swap) : Option Swap :=
  if x.status = .completed ∧ x.closed + horizon ≤ h then none
  else if x.status = .open ∧ x.expire ≤ h then some (expd x)
  else some x

theorem filterMap_congr' {α β : Type} {f g : α → Option β} {l : List α} (h : ∀ x ∈ l, f x = g x) :
    l.filterMap f = l.filterMap g := by
  induction l with
  | nil => rfl
  | cons x xs ih =>
    simp only [List.filterMap_cons, h x List.mem_cons_self]
    rw [ih (fun y hy => h y (List.mem_cons_of_mem _ hy))]

theorem filter_map_filterMap {α β : Type} (f : α → β) (p : β → Bool) (l : List α) :
    (l.map f).filter p = l.filterMap (fun x => if p (f x) then some (f x) else none) := by
  induction l with
  | nil => rfl
  | cons x xs ih =>
    simp only [List.map_cons, List.filter_cons, List.filterMap_cons]
    by_cases hp : p (f x) = true
    · simp only [hp, ite_true, ih]
    · simp only [hp, ite_false, ih]; rfl

/-- expiry followed by pruning, both driven by the indexes, is `blockFate` on every record -/
theorem fate_eq {cfg : Cfg} {hs : Hashes} {s : St} (h : Inv cfg hs s) (H : Nat) :
    (s.swaps.map (expireMap (s.byBlock.filter (fun e => e.1 ≤ H)))).filter
        (keepBy (s.longterm.filter (fun e => e.1 ≤ H))) = s.swaps.filterMap (blockFate H) := by
  rw [filter_map_filterMap]
  apply filterMap_congr'
  intro x hx
  unfold blockFate expireMap keepBy
  have hbk : (x.expire, x.id) ∈ s.byBlock.filter (fun e => e.1 ≤ H) ↔ x.status = .open ∧ x.expire ≤ H := by
    rw [List.mem_filter, bbkey_mem h hx]; simp
  have hlk : (x.closed + horizon, x.id) ∈ s.longterm.filter (fun e => e.1 ≤ H) ↔
      x.status = .completed ∧ x.closed + horizon ≤ H := by
    rw [List.mem_filter, ltkey_mem h hx]; simp
  by_cases hop : x.status = .open ∧ x.expire ≤ H
  · have hnc : ¬ (x.status = .completed ∧ x.closed + horizon ≤ H) := by
      rw [hop.1]; intro hc; cases hc.1
    have hkeep : ((expd x).closed + horizon, (expd x).id) ∉ s.longterm.filter (fun e => e.1 ≤ H) := by
      intro hc
      have hx' : ((expd x).closed + horizon, (expd x).id) = (x.closed + horizon, x.id) := rfl
      rw [hx'] at hc
      exact hnc (hlk.mp hc)
    simp only [hbk.mpr hop, ite_true, hnc, ite_false, hop, and_self, hkeep, not_false_eq_true, decide_true]
    rw [if_neg (fun hc => by cases hc.1)]
  · have hnb : (x.expire, x.id) ∉ s.byBlock.filter (fun e => e.1 ≤ H) := fun hc => hop (hbk.mp hc)
    simp only [hnb, ite_false, hop]
    by_cases hc : x.status = .completed ∧ x.closed + horizon ≤ H
    · simp only [hlk.mpr hc, not_true_eq_false, decide_false, hc, and_self, ite_true, Bool.false_eq_true, ite_false]
    · have : (x.closed + horizon, x.id) ∉ s.longterm.filter (fun e => e.1 ≤ H) := fun hq => hc (hlk.mp hq)
      simp only [this, not_false_eq_true, decide_true, ite_true, hc, ite_false]

/-- the block context of the next block -/
def newCtx (s : St) (dh : Nat) (dt : Int) : St := { s with height := s.height + dh, time := s.time + dt }

theorem beginBlock_eq (hs : Hashes) (s : St) (dh : Nat) (dt : Int) :
    beginBlock hs s dh dt = deleteClosed hs (updateExpired hs (updateTimeLimits (newCtx s dh dt))) := rfl

theorem beginBlock_spec {cfg : Cfg} {hs : Hashes} {s : St} (h : Inv cfg hs s) (dh : Nat) (dt : Int) :
    Inv cfg hs (beginBlock hs s dh dt) ∧
    (beginBlock hs s dh dt).height = s.height + dh ∧ (beginBlock hs s dh dt).time = s.time + dt ∧
    (beginBlock hs s dh dt).swaps = s.swaps.filterMap (blockFate (s.height + dh)) ∧
    (beginBlock hs s dh dt).byBlock = s.byBlock.filter (fun e => ¬ e.1 ≤ s.height + dh) ∧
    (beginBlock hs s dh dt).longterm = s.longterm.filter (fun e => ¬ e.1 ≤ s.height + dh) ∧
    (beginBlock hs s dh dt).bal = s.bal ∧ (beginBlock hs s dh dt).bankSupply = s.bankSupply ∧
    (beginBlock hs s dh dt).assets = s.assets ∧
    ∀ d, ((beginBlock hs s dh dt).supply d).incoming = (s.supply d).incoming ∧
         ((beginBlock hs s dh dt).supply d).outgoing = (s.supply d).outgoing ∧
         ((beginBlock hs s dh dt).supply d).current = (s.supply d).current ∧
         (((beginBlock hs s dh dt).supply d).tlCurrent = (s.supply d).tlCurrent ∨
          ((beginBlock hs s dh dt).supply d).tlCurrent = 0) := by
  rw [beginBlock_eq]
  -- the new block context
  have c1 : (newCtx s dh dt).swaps = s.swaps := rfl
  have c2 : (newCtx s dh dt).byBlock = s.byBlock := rfl
  have c3 : (newCtx s dh dt).longterm = s.longterm := rfl
  have c4 : (newCtx s dh dt).height = s.height + dh := rfl
  have c5 : (newCtx s dh dt).assets = s.assets := rfl
  have c6 : (newCtx s dh dt).bal = s.bal := rfl
  have c7 : (newCtx s dh dt).bankSupply = s.bankSupply := rfl
  have c8 : (newCtx s dh dt).time = s.time + dt := rfl
  have c9 : (newCtx s dh dt).supply = s.supply := rfl
  have h0 : Inv cfg hs (newCtx s dh dt) :=
    inv_frame h _ rfl rfl rfl (Nat.le_add_right _ _) h.pmin (fun _ => rfl) (fun _ => rfl) (fun _ => rfl) (fun _ => rfl)
  generalize newCtx s dh dt = c at *
  obtain ⟨u1, u2, u3, u4, u5, u6, u7, u8, u9⟩ := updateTimeLimits_fields c
  have h1 : Inv cfg hs (updateTimeLimits c) :=
    inv_frame h0 _ u1 u2 u3 (by rw [u4]; exact Nat.le_refl _) (by rw [u5]; exact h0.pmin)
      (fun d => (u9 d).1) (fun d => (u9 d).2.1) (fun d => (u9 d).2.2.1) (fun d => by rw [u6])
  have hfate := fate_eq h1 (s.height + dh)
  generalize updateTimeLimits c = t at *
  obtain ⟨x1, x2, x3, x4, x5, x6, x7, x8, x9, x10, -⟩ := updateExpired_spec h1
  generalize updateExpired hs t = x at *
  obtain ⟨p1, p2, p3, p4, p5, p6, p7, p8, p9, p10, -⟩ := deleteClosed_spec x1
  refine ⟨p1, by rw [p5, x5, u4, c4], by rw [p10, x10, u8, c8], ?_, by rw [p4, x3, u4, c4, u2, c2],
    by rw [p3, x5, u4, c4, x4, u3, c3], by rw [p7, x7, u6, c6], by rw [p9, x9, u7, c7],
    by rw [p8, x8, u5, c5], ?_⟩
  · rw [p2, x5, u4, c4, x2, x4, u4, c4, hfate, u1, c1]
  · intro d
    rw [p6, x6]
    have := u9 d
    rw [c9] at this
    exact this

/-! ### governance -/

/-- the asset record after `setLimit` -/
def relimit (a : Asset) (limit : Int) (tlim : Bool) (period tbl : Int) (act : Bool) : Asset :=
  { a with limit := limit, timeLimited := tlim, period := period, tbl := tbl, active := act }

theorem getAsset_setLimit (l : List (Denom × Asset)) (d : Denom) (limit : Int) (tlim : Bool) (period tbl : Int)
    (act : Bool) (d' : Denom) :
    getAsset (l.map (fun da => if da.1 = d then (da.1, relimit da.2 limit tlim period tbl act) else da)) d' =
      (getAsset l d').map (fun a => if d' = d then relimit a limit tlim period tbl act else a) := by
  induction l with
  | nil => rfl
  | cons x xs ih =>
    obtain ⟨dx, ax⟩ := x
    simp only [List.map_cons]
    by_cases h1 : dx = d
    · simp only [h1, ite_true]
      by_cases h2 : d = d'
      · subst h2; simp [getAsset]
      · have h2' : ¬ d' = d := fun e => h2 e.symm
        simp only [getAsset, h2, ite_false]
        rw [ih]
    · simp only [h1, ite_false]
      by_cases h2 : dx = d'
      · subst h2; simp [getAsset, h1]
      · simp only [getAsset, h2, ite_false]
        rw [ih]

theorem setLimit_inv {cfg : Cfg} {hs : Hashes} {s : St} (h : Inv cfg hs s) (d : Denom) (limit : Int) (tl : Bool)
    (period tbl : Int) (act : Bool) : Inv cfg hs (setLimit s d limit tl period tbl act) := by
  refine inv_frame h (setLimit s d limit tl period tbl act) rfl rfl rfl (Nat.le_refl _) ?_
    (fun _ => rfl) (fun _ => rfl) (fun _ => rfl) (fun _ => rfl)
  intro d' a ha
  have hs' : (setLimit s d limit tl period tbl act).assets =
      s.assets.map (fun da => if da.1 = d then (da.1, relimit da.2 limit tl period tbl act) else da) := rfl
  rw [hs', getAsset_setLimit] at ha
  cases hg : getAsset s.assets d' with
  | none => rw [hg] at ha; cases ha
  | some a0 =>
    rw [hg] at ha
    simp only [Option.map_some] at ha
    have := h.pmin d' a0 hg
    cases ha
    split
    · exact this
    · exact this

/-- the asset record after `setDeputy` -/
def redeputy (a : Asset) (dep : Addr) : Asset := { a with deputy := dep }

theorem getAsset_setDeputy (l : List (Denom × Asset)) (d : Denom) (dep : Addr) (d' : Denom) :
    getAsset (l.map (fun da => if da.1 = d then (da.1, redeputy da.2 dep) else da)) d' =
      (getAsset l d').map (fun a => if d' = d then redeputy a dep else a) := by
  induction l with
  | nil => rfl
  | cons x xs ih =>
    obtain ⟨dx, ax⟩ := x
    simp only [List.map_cons]
    by_cases h1 : dx = d
    · simp only [h1, ite_true]
      by_cases h2 : d = d'
      · subst h2; simp [getAsset]
      · have h2' : ¬ d' = d := fun e => h2 e.symm
        simp only [getAsset, h2, ite_false]
        rw [ih]
    · simp only [h1, ite_false]
      by_cases h2 : dx = d'
      · subst h2; simp [getAsset, h1]
      · simp only [getAsset, h2, ite_false]
        rw [ih]

theorem setDeputy_assets (s : St) (d : Denom) (dep : Addr) :
    (setDeputy s d dep).assets =
      s.assets.map (fun da => if da.1 = d then (da.1, redeputy da.2 dep) else da) := rfl

/-- the asset of denomination `d'` after a deputy rotation: the same record, possibly with another deputy -/
theorem getAsset_after_setDeputy (s : St) (d : Denom) (dep : Addr) (d' : Denom) :
    getAsset (setDeputy s d dep).assets d' =
      (getAsset s.assets d').map (fun a => if d' = d then redeputy a dep else a) := by
  rw [setDeputy_assets, getAsset_setDeputy]

/-- a deputy rotation is a frame step: it touches nothing but the asset parameter -/
theorem setDeputy_inv {cfg : Cfg} {hs : Hashes} {s : St} (h : Inv cfg hs s) (d : Denom) (dep : Addr) :
    Inv cfg hs (setDeputy s d dep) := by
  refine inv_frame h (setDeputy s d dep) rfl rfl rfl (Nat.le_refl _) ?_
    (fun _ => rfl) (fun _ => rfl) (fun _ => rfl) (fun _ => rfl)
  intro d' a ha
  rw [getAsset_after_setDeputy] at ha
  cases hg : getAsset s.assets d' with
  | none => rw [hg] at ha; cases ha
  | some a0 =>
    rw [hg] at ha
    simp only [Option.map_some] at ha
    have := h.pmin d' a0 hg
    cases ha
    split
    · exact this
    · exact this

end KV.Bep3
