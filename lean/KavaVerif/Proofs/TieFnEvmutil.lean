/-
  Source tie ("tie 1b") for x/evmutil/keeper/conversion_evm_native_bep3.go: the Lean definitions REGENERATED from the Go source on every run
  (Generated/FnEvmutil.lean, tools/extract/fn*.go) equal the hand-written model functions the C10 theorems are
  about.  An edit of a Go function changes the generated definition and its equality proof stops checking.
  Encoding: `*big.Int` = `Int`.  Model/Evmutil.lean inlines the three helpers in `coinToErc` / `ercToCoin`
  (`amt * F`, `amt / F`, `amt / F * F`, error when `amt / F = 0`, `F` = the regenerated 10^10): the theorems are
  stated with exactly those expressions.
-/
import KavaVerif.Generated.FnEvmutil
import KavaVerif.Model.Evmutil
import KavaVerif.Proofs.TieFnBase
set_option linter.unusedSimpArgs false

namespace KV.TieFn
open KV KV.Go

theorem evmutil_convertBep3CoinAmountToERC20Amount (amt : Int) :
    GoFn.Evmutil.convertBep3CoinAmountToERC20Amount_translated = true ∧
    GoFn.Evmutil.convertBep3CoinAmountToERC20Amount amt = R.ok (amt * KV.EU.F) := by
  refine ⟨rfl, ?_⟩
  simp only [GoFn.Evmutil.convertBep3CoinAmountToERC20Amount, KV.EU.F, KV.Gen.bep3ConversionFactor]
  rfl

theorem evmutil_convertBep3ERC20AmountToCoinAmount (amt : Int) :
    GoFn.Evmutil.convertBep3ERC20AmountToCoinAmount_translated = true ∧
    GoFn.Evmutil.convertBep3ERC20AmountToCoinAmount amt = R.ok (amt / KV.EU.F) := by
  refine ⟨rfl, ?_⟩
  simp only [GoFn.Evmutil.convertBep3ERC20AmountToCoinAmount, Go.bigDiv, KV.EU.F, KV.Gen.bep3ConversionFactor]
  rfl

theorem evmutil_bep3ERC20AmountToCoinMintAndERC20LockAmount (amt : Int) :
    GoFn.Evmutil.bep3ERC20AmountToCoinMintAndERC20LockAmount_translated = true ∧
    GoFn.Evmutil.bep3ERC20AmountToCoinMintAndERC20LockAmount amt
      = (if amt / KV.EU.F = 0 then R.err else R.ok (amt / KV.EU.F, amt / KV.EU.F * KV.EU.F)) := by
  refine ⟨rfl, ?_⟩
  simp only [GoFn.Evmutil.bep3ERC20AmountToCoinMintAndERC20LockAmount,
    (evmutil_convertBep3ERC20AmountToCoinAmount _).2, (evmutil_convertBep3CoinAmountToERC20Amount _).2]
  tie_norm
end KV.TieFn
