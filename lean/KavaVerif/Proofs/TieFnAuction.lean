/-
  Source tie ("tie 1b") for x/auction/keeper/auctions.go: the Lean definitions REGENERATED from the Go source on every run
  (Generated/FnAuction.lean, tools/extract/fn*.go) equal the hand-written model functions the C06 theorems are
  about.  An edit of a Go function changes the generated definition and its equality proof stops checking.
-/
import KavaVerif.Generated.FnAuction
import KavaVerif.Model.Auction
import KavaVerif.Proofs.TieFnBase
set_option linter.unusedSimpArgs false

namespace KV.TieFn
open KV KV.Go

/-- `earliestTime(now.Add(d), maxEnd)` = `endTime now d maxEnd` (times as unix nanoseconds) -/
theorem auction_earliestTime (now d maxEnd : Int) :
    GoFn.Auction.earliestTime_translated = true ∧
    GoFn.Auction.earliestTime (now + d) maxEnd = R.ok (KV.Auc.endTime now d maxEnd) := by
  refine ⟨rfl, ?_⟩
  simp only [GoFn.Auction.earliestTime, KV.Auc.endTime]
  tie_norm
  split <;> rfl

end KV.TieFn
