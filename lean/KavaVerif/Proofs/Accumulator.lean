/-
  Helper lemmas for C09 (model: KavaVerif/Model/Accumulator.lean).
  Part 1: arithmetic of one index increment and one synchronisation, the accrual window, and the
  effect of each single operation.  Histories are in Proofs/AccumulatorHist.lean.
-/
import KavaVerif.Model.Accumulator
import Mathlib.Tactic.Linarith
import Mathlib.Tactic.Ring
import Mathlib.Tactic.NormNum
import Mathlib.Tactic.Positivity
set_option linter.unusedSimpArgs false
set_option linter.unusedVariables false
namespace KV.Acc
open KV

theorem P_pos : (0:Int) < P := by decide
theorem P_val : P = 1000000000000000000 := by decide
theorem H_val : H = 500000000000000000 := by decide

/-- half-even chop is within half a unit, for every sign -/
theorem chopRound_bound (d : Int) : 2 * (chopRound d * P - d) ≤ P ∧ 2 * (d - chopRound d * P) ≤ P := by
  unfold chopRound
  by_cases h : d < 0
  · simp only [h, ite_true]
    have := chopRoundNonneg_bound (-d) (by omega)
    constructor
    · have h2 := this.2; rw [Int.neg_mul]; omega
    · have h1 := this.1; rw [Int.neg_mul]; omega
  · simp only [h, ite_false]
    exact chopRoundNonneg_bound d (by omega)

theorem chopRound_zero : chopRound 0 = 0 := by decide

/-- `rate.Mul(NewDec(secs))` is exact -/
theorem mul_ofInt (rate secs : Int) : (Dec.mul ⟨rate⟩ (Dec.ofInt secs)).m = rate * secs := by
  unfold Dec.mul Dec.ofInt
  simp only []
  rw [← Int.mul_assoc]
  exact chopRound_mul_P _

/-- the index increment of one block, against the exact emission per share (upper side) -/
theorem indexIncrement_le (rate T secs : Int) (hr : 0 ≤ rate) (hT : 0 < T) (hs : 0 < secs) :
    2 * indexIncrement rate T secs * T ≤ 2 * rate * secs * P + T := by
  unfold indexIncrement
  have h1 : ¬ T ≤ 0 := by omega
  have h2 : ¬ secs ≤ 0 := by omega
  simp only [h1, h2, ite_false]
  unfold Dec.quo
  simp only [mul_ofInt]
  have hN : 0 ≤ rate * secs * P * P := by
    have := P_pos; positivity
  rw [tquo_nonneg_eq _ _ hN (by omega)]
  generalize hq : rate * secs * P * P / T = q
  have hqT : q * T ≤ rate * secs * P * P := by
    rw [← hq]; exact Int.ediv_mul_le _ (by omega)
  have hb := (chopRound_bound q).1
  have hP := P_pos
  -- 2·inc·P·T ≤ (2q + P)·T ≤ 2N + P·T
  have h3 : 2 * chopRound q * P * T ≤ (2 * q + P) * T := by
    have : 2 * chopRound q * P ≤ 2 * q + P := by linarith
    exact Int.mul_le_mul_of_nonneg_right this (by omega)
  have h4 : (2 * chopRound q * T) * P ≤ (2 * rate * secs * P + T) * P := by nlinarith
  exact Int.le_of_mul_le_mul_right h4 hP

/-- shape of a non-trivial increment: `chopRound ⌊rate·secs·P² / T⌋` -/
theorem indexIncrement_eq (rate T secs : Int) (hr : 0 ≤ rate) (hT : 0 < T) (hs : 0 < secs) :
    indexIncrement rate T secs = chopRound (rate * secs * P * P / T) := by
  unfold indexIncrement
  have h1 : ¬ T ≤ 0 := by omega
  have h2 : ¬ secs ≤ 0 := by omega
  simp only [h1, h2, ite_false]
  unfold Dec.quo
  simp only [mul_ofInt]
  have hN : 0 ≤ rate * secs * P * P := by
    have := P_pos; positivity
  rw [tquo_nonneg_eq _ _ hN (by omega)]

theorem indexIncrement_nonneg (rate T secs : Int) (hr : 0 ≤ rate) : 0 ≤ indexIncrement rate T secs := by
  by_cases hT : T ≤ 0
  · unfold indexIncrement; simp only [hT, ite_true]; omega
  by_cases hs : secs ≤ 0
  · unfold indexIncrement; simp only [hT, hs, ite_true, ite_false]; omega
  rw [indexIncrement_eq rate T secs hr (by omega) (by omega)]
  apply chopRound_nonneg
  apply Int.ediv_nonneg _ (by omega)
  have := P_pos; have : 0 < secs := by omega
  positivity

/-- one user's part of a block's increment against the floored exact share
    `F = ⌊rate·secs·P·s / T⌋` (units 10^-36): −(P+2)·s ≤ 2P·(inc·s − F) and 2·(inc·s − F) ≤ s + 1 -/
theorem increment_share_bound (rate T secs s : Int) (hr : 0 ≤ rate) (hT : 0 < T) (hs : 0 < secs) (hs0 : 0 ≤ s) :
    -((P + 2) * s) ≤ 2 * P * (indexIncrement rate T secs * s - rate * secs * P * s / T) ∧
    2 * (indexIncrement rate T secs * s - rate * secs * P * s / T) ≤ s + 1 := by
  rw [indexIncrement_eq rate T secs hr hT hs]
  generalize hq : rate * secs * P * P / T = q
  generalize hF : rate * secs * P * s / T = F
  generalize hM : rate * secs * P = M at *
  have hP := P_pos
  have hq1 : q * T ≤ M * P := by rw [← hq]; exact Int.ediv_mul_le _ (by omega)
  have hq2 : M * P < q * T + T := by
    rw [← hq]; have := Int.lt_ediv_add_one_mul_self (M * P) hT; linarith
  have hF1 : F * T ≤ M * s := by rw [← hF]; exact Int.ediv_mul_le _ (by omega)
  have hF2 : M * s < F * T + T := by
    rw [← hF]; have := Int.lt_ediv_add_one_mul_self (M * s) hT; linarith
  obtain ⟨b1, b2⟩ := chopRound_bound q
  generalize chopRound q = c at *
  constructor
  · -- lower: 2P·c·s·T ≥ 2P·F·T − (P+2)·T·s
    have h1 : (2 * c * P) * T ≥ (2 * q - P) * T := by
      have : 2 * c * P ≥ 2 * q - P := by linarith
      exact Int.mul_le_mul_of_nonneg_right this (by omega)
    have h2 : 2 * c * P * T ≥ 2 * M * P - 2 * T - P * T := by nlinarith
    have h3 : (2 * c * P * T) * s ≥ (2 * M * P - 2 * T - P * T) * s :=
      Int.mul_le_mul_of_nonneg_right h2 hs0
    have h4 : (2 * P * (c * s - F)) * T ≥ (-((P + 2) * s)) * T := by nlinarith
    exact Int.le_of_mul_le_mul_right h4 hT
  · have h1 : (2 * c * P) * T ≤ (2 * q + P) * T := by
      have : 2 * c * P ≤ 2 * q + P := by linarith
      exact Int.mul_le_mul_of_nonneg_right this (by omega)
    have h2 : (2 * c * T) * P ≤ (2 * M + T) * P := by nlinarith
    have h3 : 2 * c * T ≤ 2 * M + T := Int.le_of_mul_le_mul_right h2 hP
    have h4 : (2 * c * T) * s ≤ (2 * M + T) * s := Int.mul_le_mul_of_nonneg_right h3 hs0
    have h5 : (2 * (c * s - F)) * T < (s + 2) * T := by nlinarith
    have h6 : 2 * (c * s - F) < s + 2 := Int.lt_of_mul_lt_mul_right h5 (by omega)
    omega

/-- `CalculateSingleReward`: two half-even roundings, together at most (P²+P)/2 in units 10^-36 -/
theorem singleReward_bound (old new s x : Int) (h : singleReward old new s = some x) :
    0 ≤ new - old ∧ 2 * (x * P * P - (new - old) * s) ≤ P * P + P ∧
    2 * ((new - old) * s - x * P * P) ≤ P * P + P := by
  unfold singleReward at h
  split at h
  · cases h
  · rename_i hd
    cases h
    unfold Dec.roundInt Dec.mul
    simp only []
    obtain ⟨a1, a2⟩ := chopRound_bound ((new - old) * s)
    generalize chopRound ((new - old) * s) = y at *
    obtain ⟨b1, b2⟩ := chopRound_bound y
    generalize chopRound y = x at *
    have hP := P_pos
    refine ⟨by omega, ?_, ?_⟩ <;> nlinarith

theorem singleReward_zero_shares (old new : Int) (h : old ≤ new) : singleReward old new 0 = some 0 := by
  unfold singleReward
  have : ¬ new - old < 0 := by omega
  simp only [this, ite_false, Dec.roundInt, Dec.mul, Int.mul_zero]
  rfl

theorem singleReward_same (I s : Int) : singleReward I I s = some 0 := by
  unfold singleReward
  simp only [Int.sub_self, Int.lt_irrefl, ite_false, Dec.roundInt, Dec.mul, Int.zero_mul]
  rfl

/-! ### the accrual window -/

/-- a time clipped into the reward period -/
def clip (p : Period) (t : Int) : Int := min (max t p.start) p.stop

theorem clip_mono (p : Period) (a b : Int) (h : a ≤ b) : clip p a ≤ clip p b := by
  unfold clip; omega

theorem clip_range (p : Period) (t : Int) (h : p.start ≤ p.stop) : p.start ≤ clip p t ∧ clip p t ≤ p.stop := by
  unfold clip; omega

theorem clip_min_stop (p : Period) (t : Int) (h : p.start ≤ p.stop) : clip p (min p.stop t) = clip p t := by
  unfold clip; omega

/-- `getTimeElapsedWithinLimits` is the length of `[clip prev, clip now]` (unless `time.Sub` saturates) -/
theorem elapsed_eq (p : Period) (prev now : Int) (h1 : prev ≤ now) (h2 : p.start ≤ p.stop)
    (h3 : p.stop - p.start ≤ maxDur) :
    elapsed prev now p.start p.stop = some (clip p now - clip p prev) := by
  unfold elapsed clip
  have a1 : ¬ prev > now := by omega
  have a2 : ¬ p.start > p.stop := by omega
  simp only [a1, a2, ite_false]
  by_cases hc : prev > p.stop ∨ now < p.start
  · simp only [hc, ite_true]; congr 1; omega
  · simp only [hc, ite_false]
    have : ¬ (min now p.stop - max prev p.start > maxDur) := by omega
    simp only [this, ite_false]; congr 1; omega

theorem elapsed_outside (p : Period) (prev now : Int) (h1 : prev ≤ now) (h2 : p.start ≤ p.stop)
    (h : now ≤ p.start ∨ p.stop ≤ prev) : elapsed prev now p.start p.stop = some 0 := by
  unfold elapsed
  have a1 : ¬ prev > now := by omega
  have a2 : ¬ p.start > p.stop := by omega
  simp only [a1, a2, ite_false]
  by_cases hc : prev > p.stop ∨ now < p.start
  · simp only [hc, ite_true]
  · simp only [hc, ite_false]
    have : min now p.stop - max prev p.start = 0 := by omega
    rw [this]; rfl

theorem goSeconds_zero : goSeconds 0 = 0 := by decide

theorem goSeconds_nonneg (d : Int) (h : 0 ≤ d) : 0 ≤ goSeconds d := by
  unfold goSeconds
  have : ¬ d < 0 := by omega
  simp only [this, ite_false]
  exact Int.natCast_nonneg _

/-- a duration of whole seconds is counted exactly -/
theorem goSeconds_whole (k : Int) (h : 0 ≤ k) : goSeconds (k * NS) = k := by
  unfold goSeconds
  have hn : (0:Int) < NS := by decide
  have : ¬ k * NS < 0 := by
    have := Int.mul_nonneg h (Int.le_of_lt hn); omega
  simp only [this, ite_false]
  rw [Int.mul_ediv_cancel _ (by decide : NS ≠ 0), Int.mul_emod_left]
  unfold roundSecs
  simp only [Int.toNat_zero, ite_true]
  exact Int.toNat_of_nonneg h

theorem indexIncrement_zero_secs (rate T : Int) : indexIncrement rate T 0 = 0 := by
  unfold indexIncrement; split <;> simp

/-! ### effect of each single operation -/

/-- whole seconds counted by an accumulation at `now` (0 when the call panics) -/
def accSecs (p : Period) (σ : St) (now : Int) : Int :=
  match elapsed σ.prev now p.start p.stop with
  | some d => goSeconds d
  | none => 0

theorem accumulate_ok (p : Period) (σ σ' : St) (now : Int) (h : accumulate p σ now = .ok σ') :
    σ'.I = σ.I + indexIncrement p.rate σ.T (accSecs p σ now) ∧ σ'.T = σ.T ∧ σ'.u = σ.u ∧
    σ'.prev = min p.stop now := by
  unfold accumulate at h
  unfold accSecs
  split at h
  · cases h
  · rename_i d hd
    cases h
    simp only [hd, and_self]

theorem accumulate_isOk (p : Period) (σ : St) (now : Int) (h1 : σ.prev ≤ now) (h2 : p.start ≤ p.stop) :
    (accumulate p σ now).isOk = true := by
  unfold accumulate elapsed
  have a1 : ¬ σ.prev > now := by omega
  have a2 : ¬ p.start > p.stop := by omega
  simp only [a1, a2, ite_false]
  by_cases hc : σ.prev > p.stop ∨ now < p.start
  · simp only [hc, ite_true]; rfl
  · simp only [hc, ite_false]; rfl

theorem syncWith_ok (σ σ' : St) (a : Addr) (sh : Int) (h : syncWith σ a sh = .ok σ') :
    ∃ x, singleReward (σ.u a).i σ.I sh = some x ∧
      σ' = { σ with u := upd σ.u a { (σ.u a) with r := (σ.u a).r + x, i := σ.I } } := by
  unfold syncWith at h
  split at h
  · cases h
  · rename_i x hx
    cases h
    exact ⟨x, hx, rfl⟩

theorem sync_ok (σ σ' : St) (a : Addr) (h : sync σ a = .ok σ') :
    ∃ x, singleReward (σ.u a).i σ.I (σ.u a).s = some x ∧
      σ' = { σ with u := upd σ.u a { (σ.u a) with r := (σ.u a).r + x, i := σ.I } } :=
  syncWith_ok σ σ' a _ h

theorem sync_pending (σ σ' : St) (a : Addr) (h : sync σ a = .ok σ') :
    (σ'.u a).r = (σ.u a).r + pending σ a := by
  obtain ⟨x, hx, rfl⟩ := sync_ok σ σ' a h
  unfold pending
  simp only [hx, Option.getD_some, upd, ite_true]

theorem change_ok (σ σ' : St) (a : Addr) (s' : Int) (h : change σ a s' = .ok σ') :
    ∃ σ1, sync σ a = .ok σ1 ∧ σ' = write σ1 a s' := by
  unfold change at h
  split at h
  · rename_i σ1 h1; cases h; exact ⟨σ1, h1, rfl⟩
  · cases h
  · cases h

theorem claim_ok (σ σ' : St) (a : Addr) (f now ce macc pay : Int) (h : claim σ a f now ce macc = .ok (σ', pay)) :
    now ≤ ce ∧ ∃ σ1, sync σ a = .ok σ1 ∧
      pay = Dec.roundInt (Dec.mul (Dec.ofInt (σ1.u a).r) ⟨f⟩) ∧ pay ≠ 0 ∧ pay ≤ macc ∧
      σ' = { σ1 with u := upd σ1.u a { (σ1.u a) with r := 0 } } := by
  unfold claim at h
  split at h
  · cases h
  · rename_i hn
    split at h
    · cases h
    · cases h
    · rename_i σ1 h1
      simp only [] at h
      split at h
      · cases h
      · rename_i hp
        split at h
        · cases h
        · rename_i hm
          cases h
          exact ⟨by omega, σ1, h1, rfl, hp, by omega, rfl⟩

/-! ### one claim object fed by several instances (`syncAllFrom`, `mclaim`) -/

theorem syncAllFrom_ok : ∀ (xs : List Inst) (r r' : Int) (ys : List Inst),
    syncAllFrom r xs = .ok (r', ys) → r' = r + pendingSum xs ∧ ys = xs.map Inst.synced := by
  intro xs
  induction xs with
  | nil =>
    intro r r' ys h
    simp only [syncAllFrom, Res.ok.injEq, Prod.mk.injEq] at h
    obtain ⟨rfl, rfl⟩ := h
    simp [pendingSum]
  | cons x xs ih =>
    intro r r' ys h
    unfold syncAllFrom at h
    cases hs : singleReward x.i x.I x.s with
    | none => rw [hs] at h; cases h
    | some d =>
      rw [hs] at h
      simp only at h
      cases hr : syncAllFrom (r + d) xs with
      | err => rw [hr] at h; cases h
      | panic => rw [hr] at h; cases h
      | ok p =>
        obtain ⟨r1, ys1⟩ := p
        rw [hr] at h
        simp only [Res.ok.injEq, Prod.mk.injEq] at h
        obtain ⟨rfl, rfl⟩ := h
        obtain ⟨e1, e2⟩ := ih (r + d) r1 ys1 hr
        refine ⟨?_, by rw [e2]; rfl⟩
        have : x.pending = d := by unfold Inst.pending; rw [hs]; rfl
        rw [e1]; simp only [pendingSum, this]; omega

theorem syncAllFrom_synced : ∀ (xs : List Inst) (r : Int),
    syncAllFrom r (xs.map Inst.synced) = .ok (r, xs.map Inst.synced) := by
  intro xs
  induction xs with
  | nil => intro r; rfl
  | cons x xs ih =>
    intro r
    simp only [List.map_cons]
    unfold syncAllFrom
    have : singleReward x.synced.i x.synced.I x.synced.s = some 0 := by
      simp only [Inst.synced]; exact singleReward_same _ _
    rw [this]
    simp only [Int.add_zero, ih r]
    rfl

theorem pendingSum_synced : ∀ (xs : List Inst), pendingSum (xs.map Inst.synced) = 0 ∧ ∀ y ∈ xs.map Inst.synced, y.pending = 0 := by
  intro xs
  induction xs with
  | nil => exact ⟨rfl, by intro y hy; cases hy⟩
  | cons x xs ih =>
    have h0 : x.synced.pending = 0 := by
      unfold Inst.pending; simp only [Inst.synced]; rw [singleReward_same]; rfl
    refine ⟨?_, ?_⟩
    · simp only [List.map_cons, pendingSum, h0, ih.1]; rfl
    · intro y hy
      simp only [List.map_cons, List.mem_cons] at hy
      rcases hy with rfl | hy
      · exact h0
      · exact ih.2 y hy

end KV.Acc
