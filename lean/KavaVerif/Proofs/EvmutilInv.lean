/-
  Helper lemmas for C10, part 2: the backing invariant and its preservation by every operation.
  Core Lean only.
-/
import KavaVerif.Proofs.Evmutil
set_option linter.unusedSimpArgs false
set_option linter.unusedVariables false

namespace KV.EU

/-- The pair universe is a partial bijection: a denom is paired with at most one contract and a
    contract with at most one denom. (Assumption on governance: a denom is never re-paired; enabled
    pairs are always drawn from `U`.) -/
def UWf (U : List Pair) : Prop :=
  ∀ p ∈ U, ∀ q ∈ U, (p.1 = q.1 → p = q) ∧ (p.2 = q.2 → p = q)

/-- The state invariant of C10. `U` = every pair governance ever enables (enabled or disabled now). -/
structure Inv (U : List Pair) (s : St) : Prop where
  bankNN : ∀ d a, 0 ≤ s.bank.bal d a
  ercNN : ∀ c a, 0 ≤ s.erc.bal c a
  regLt : ∀ d k, s.reg d = some k → k < s.nextC
  regInj : ∀ d1 d2 k, s.reg d1 = some k → s.reg d2 = some k → d1 = d2
  fresh : ∀ k, s.nextC ≤ k → s.erc.total (.dep k) = 0
  /-- every registered cosmos denom: ERC20 totalSupply = module bank balance -/
  cosmos : ∀ d k, s.reg d = some k → s.erc.total (.dep k) = s.bank.bal d M
  unreg : ∀ d, s.reg d = none → s.bank.bal d M = 0
  /-- every pair: sdk supply · scale ≤ ERC20 locked in the module's EVM account -/
  native : ∀ p ∈ U, s.bank.supply p.2 * scale p.2 ≤ s.erc.bal p.1 M
  sub : ∀ p ∈ s.pairs, p ∈ U

/-- What the environment cannot do: nobody holds a key for the module account / module EVM address,
    and governance only enables pairs of the universe. -/
def Admissible (U : List Pair) : Op → Prop
  | .coinToErc i _ _ _ => i ≠ M
  | .ercToCoin i _ _ _ => i ≠ M
  | .cosmosToErc i _ _ _ => i ≠ M
  | .cosmosFromErc i _ _ _ => i ≠ M
  | .transfer _ f _ _ => f ≠ M
  | .send _ f _ _ => f ≠ M
  | .extMint _ _ _ => True
  | .setPairs l => ∀ p ∈ l, p ∈ U
  | .setAllowed _ => True

theorem inv_init (U : List Pair) : Inv U init where
  bankNN := fun _ _ => Int.le_refl 0
  ercNN := fun _ _ => Int.le_refl 0
  regLt := fun _ _ h => by cases h
  regInj := fun _ _ _ h => by cases h
  fresh := fun _ _ => rfl
  cosmos := fun _ _ h => by cases h
  unreg := fun _ _ => rfl
  native := fun _ _ => by show (0:Int) * _ ≤ 0; omega
  sub := fun _ h => by cases h

theorem scale_pos (d : Denom) : 0 < scale d := by
  rcases scale_cases d with ⟨_, h⟩ | ⟨_, h⟩ <;> rw [h] <;> decide

/-- `(x ± m)·scale` is linear once `scale` is a literal -/
theorem add_mul_scale (x m : Int) (d : Denom) : (x + m) * scale d = x * scale d + m * scale d :=
  Int.add_mul x m (scale d)
theorem sub_mul_scale (x m : Int) (d : Denom) : (x - m) * scale d = x * scale d - m * scale d :=
  Int.sub_mul x m (scale d)

theorem inv_coinToErc {U : List Pair} (hU : UWf U) {s s' : St} {ini rcv : Addr} {d : Denom} {amt : Int}
    (hini : ini ≠ M) (hI : Inv U s) (h : coinToErc s ini rcv d amt = .ok s') : Inv U s' := by
  obtain ⟨c, hp, hpos, hf, hz, hrm, hl, hb, hs, he, ht, hr, hn, hpa, hal⟩ := coinToErc_spec h
  have hcd : (c, d) ∈ U := hI.sub _ (findByDenom_some hp).2
  have hv : 0 < amt * scale d := mul_scale_pos d hpos
  have hMi : ¬ (M = ini) := fun e => hini e.symm
  refine ⟨?_, ?_, ?_, ?_, ?_, ?_, ?_, ?_, ?_⟩
  · intro d' a
    rw [hb]
    have := hI.bankNN d' a
    by_cases hc : d' = d ∧ a = ini
    · obtain ⟨rfl, rfl⟩ := hc; simp only [and_self, ite_true]; omega
    · simp only [hc, ite_false]; omega
  · intro c' a
    rw [he]
    have := hI.ercNN c' a
    by_cases hc : c' = c
    · subst hc
      by_cases ha : a = M
      · subst ha; simp only [true_and, ite_true]; split <;> omega
      · simp only [true_and, ha, ite_false]; split <;> omega
    · simp only [hc, false_and, ite_false]; omega
  · intro d' k hk; rw [hr] at hk; rw [hn]; exact hI.regLt d' k hk
  · intro d1 d2 k h1 h2; rw [hr] at h1 h2; exact hI.regInj d1 d2 k h1 h2
  · intro k hk; rw [hn] at hk; rw [ht]; exact hI.fresh k hk
  · intro d' k hk; rw [hr] at hk; rw [ht, hb, hI.cosmos d' k hk]
    simp only [hMi, and_false, ite_false]; omega
  · intro d' hk; rw [hr] at hk; rw [hb, hI.unreg d' hk]
    simp only [hMi, and_false, ite_false]; omega
  · intro p hpU
    have hold := hI.native p hpU
    rw [hs, he]
    by_cases hpd : p.2 = d
    · have hpe : p = (c, d) := ((hU p hpU (c, d) hcd).2 hpd)
      subst hpe
      simp only [true_and, ite_true, sub_mul_scale] at hold ⊢
      omega
    · have hpc : p.1 ≠ c := fun e => hpd (congrArg Prod.snd ((hU p hpU (c, d) hcd).1 e))
      simp only [hpd, hpc, false_and, ite_false, Int.sub_zero, Int.add_zero]
      omega
  · intro p hp'; rw [hpa] at hp'; exact hI.sub p hp'

theorem inv_ercToCoin {U : List Pair} (hU : UWf U) {blocked : Addr → Bool} (hB : blocked M = true)
    {s s' : St} {ini rcv : Addr} {c : Contract} {amt : Int}
    (hI : Inv U s) (h : ercToCoin blocked s ini rcv c amt = .ok s') : Inv U s' := by
  obtain ⟨d, m, hp, hpos, hm, hmpos, hf, hz, him, hbl, hb, hs, he, ht, hr, hn, hpa, hal⟩ := ercToCoin_spec h
  have hcd : (c, d) ∈ U := hI.sub _ (findByContract_some hp).2
  have hv : 0 < m * scale d := mul_scale_pos d hmpos
  have hrm : rcv ≠ M := by intro e; rw [e, hB] at hbl; cases hbl
  refine ⟨?_, ?_, ?_, ?_, ?_, ?_, ?_, ?_, ?_⟩
  · intro d' a
    rw [hb]
    have := hI.bankNN d' a
    split <;> omega
  · intro c' a
    rw [he]
    have := hI.ercNN c' a
    by_cases hc : c' = c
    · subst hc
      by_cases ha : a = ini
      · subst ha; simp only [true_and, ite_true]; split <;> omega
      · simp only [true_and, ha, ite_false]; split <;> omega
    · simp only [hc, false_and, ite_false]; omega
  · intro d' k hk; rw [hr] at hk; rw [hn]; exact hI.regLt d' k hk
  · intro d1 d2 k h1 h2; rw [hr] at h1 h2; exact hI.regInj d1 d2 k h1 h2
  · intro k hk; rw [hn] at hk; rw [ht]; exact hI.fresh k hk
  · intro d' k hk; rw [hr] at hk; rw [ht, hb, hI.cosmos d' k hk]
    have : ¬ (d' = d ∧ M = rcv) := fun e => hrm e.2.symm
    simp only [this, ite_false]; omega
  · intro d' hk; rw [hr] at hk; rw [hb, hI.unreg d' hk]
    have : ¬ (d' = d ∧ M = rcv) := fun e => hrm e.2.symm
    simp only [this, ite_false]; omega
  · intro p hpU
    have hold := hI.native p hpU
    rw [hs, he]
    by_cases hpd : p.2 = d
    · have hpe : p = (c, d) := ((hU p hpU (c, d) hcd).2 hpd)
      subst hpe
      have : ¬ (M = ini) := fun e => him e.symm
      simp only [true_and, ite_true, add_mul_scale, this, ite_false] at hold ⊢
      omega
    · have hpc : p.1 ≠ c := fun e => hpd (congrArg Prod.snd ((hU p hpU (c, d) hcd).1 e))
      simp only [hpd, hpc, false_and, ite_false, Int.sub_zero, Int.add_zero]
      omega
  · intro p hp'; rw [hpa] at hp'; exact hI.sub p hp'

theorem inv_cosmosToErc {U : List Pair} {s s' : St} {ini rcv : Addr} {d : Denom} {amt : Int}
    (hini : ini ≠ M) (hI : Inv U s) (h : cosmosToErc s ini rcv d amt = .ok s') : Inv U s' := by
  obtain ⟨k, hpos, hal, hf, hz, hreg, hb, hs, he, ht, hpa, hal'⟩ := cosmosToErc_spec h
  have hMi : ¬ (M = ini) := fun e => hini e.symm
  -- facts common to both registry cases
  have hbNN : ∀ d' a, 0 ≤ s'.bank.bal d' a := by
    intro d' a
    rw [hb]
    have := hI.bankNN d' a
    by_cases hc : d' = d ∧ a = ini
    · obtain ⟨rfl, rfl⟩ := hc; simp only [and_self, ite_true, hini, and_false, ite_false]; omega
    · simp only [hc, ite_false]; split <;> omega
  have heNN : ∀ c a, 0 ≤ s'.erc.bal c a := by
    intro c' a
    rw [he]
    have := hI.ercNN c' a
    split <;> omega
  have hnat : ∀ p ∈ U, s'.bank.supply p.2 * scale p.2 ≤ s'.erc.bal p.1 M := by
    intro p hpU
    have hold := hI.native p hpU
    rw [hs, he]
    split <;> omega
  have hsub : ∀ p ∈ s'.pairs, p ∈ U := by intro p hp'; rw [hpa] at hp'; exact hI.sub p hp'
  rcases hreg with ⟨hk, hr, hn⟩ | ⟨hk, hkn, hr, hn⟩
  · -- contract already registered
    refine ⟨hbNN, heNN, ?_, ?_, ?_, ?_, ?_, hnat, hsub⟩
    · intro d' k' hk'; rw [hr] at hk'; rw [hn]; exact hI.regLt d' k' hk'
    · intro d1 d2 k' h1 h2; rw [hr] at h1 h2; exact hI.regInj d1 d2 k' h1 h2
    · intro k' hk'; rw [hn] at hk'; rw [ht, hI.fresh k' hk']
      have hlt := hI.regLt d k hk
      have : ¬ (Contract.dep k' = Contract.dep k) := by intro e; cases e; omega
      simp only [this, ite_false]; omega
    · intro d' k' hk'; rw [hr] at hk'
      rw [ht, hb, hI.cosmos d' k' hk']
      by_cases hd : d' = d
      · subst hd
        have : k' = k := by rw [hk] at hk'; cases hk'; rfl
        subst this
        simp only [true_and, ite_true, hMi, ite_false]; omega
      · have : ¬ (Contract.dep k' = Contract.dep k) := by
          intro e; have hkk : k' = k := Contract.dep.inj e
          rw [hkk] at hk'; exact hd (hI.regInj d' d k hk' hk)
        simp only [hd, this, false_and, ite_false]; omega
    · intro d' hk'; rw [hr] at hk'
      have hd : d' ≠ d := by intro e; subst e; rw [hk] at hk'; cases hk'
      rw [hb, hI.unreg d' hk']
      simp only [hd, false_and, ite_false]; omega
  · -- first conversion of this denom: a fresh contract is deployed and registered
    subst hkn
    refine ⟨hbNN, heNN, ?_, ?_, ?_, ?_, ?_, hnat, hsub⟩
    · intro d' k' hk'; rw [hr] at hk'; rw [hn]
      by_cases hd : d' = d
      · subst hd; simp only [upd_at, ite_true] at hk'; cases hk'; omega
      · simp only [upd_at, hd, ite_false] at hk'; have := hI.regLt d' k' hk'; omega
    · intro d1 d2 k' h1 h2; rw [hr] at h1 h2
      by_cases hd1 : d1 = d <;> by_cases hd2 : d2 = d
      · rw [hd1, hd2]
      · subst hd1
        simp only [upd_at, ite_true, hd2, ite_false] at h1 h2
        cases h1
        have := hI.regLt d2 _ h2; omega
      · subst hd2
        simp only [upd_at, ite_true, hd1, ite_false] at h1 h2
        cases h2
        have := hI.regLt d1 _ h1; omega
      · simp only [upd_at, hd1, hd2, ite_false] at h1 h2
        exact hI.regInj d1 d2 k' h1 h2
    · intro k' hk'; rw [hn] at hk'; rw [ht, hI.fresh k' (by omega)]
      have : ¬ (Contract.dep k' = Contract.dep s.nextC) := by intro e; cases e; omega
      simp only [this, ite_false]; omega
    · intro d' k' hk'; rw [hr] at hk'
      rw [ht, hb]
      by_cases hd : d' = d
      · subst hd
        simp only [upd_at, ite_true] at hk'
        cases hk'
        rw [hI.fresh s.nextC (Nat.le_refl _), hI.unreg d' hk]
        simp only [true_and, ite_true, hMi, ite_false]; omega
      · simp only [upd_at, hd, ite_false] at hk'
        have hlt := hI.regLt d' k' hk'
        have : ¬ (Contract.dep k' = Contract.dep s.nextC) := by intro e; cases e; omega
        rw [hI.cosmos d' k' hk']
        simp only [hd, this, false_and, ite_false]; omega
    · intro d' hk'; rw [hr] at hk'
      have hd : d' ≠ d := by intro e; subst e; simp only [upd_at, ite_true] at hk'; cases hk'
      simp only [upd_at, hd, ite_false] at hk'
      rw [hb, hI.unreg d' hk']
      simp only [hd, false_and, ite_false]; omega

theorem inv_cosmosFromErc {U : List Pair} {blocked : Addr → Bool} (hB : blocked M = true)
    {s s' : St} {ini rcv : Addr} {d : Denom} {amt : Int}
    (hini : ini ≠ M) (hI : Inv U s) (h : cosmosFromErc blocked s ini rcv d amt = .ok s') : Inv U s' := by
  obtain ⟨k, hpos, hk, hf, hz, hbl, hfm, hb, hs, he, ht, hr, hn, hpa, hal⟩ := cosmosFromErc_spec h
  have hrm : rcv ≠ M := by intro e; rw [e, hB] at hbl; cases hbl
  have hMr : ¬ (M = rcv) := fun e => hrm e.symm
  have hMi : ¬ (M = ini) := fun e => hini e.symm
  refine ⟨?_, ?_, ?_, ?_, ?_, ?_, ?_, ?_, ?_⟩
  · intro d' a
    rw [hb]
    have := hI.bankNN d' a
    by_cases hc : d' = d ∧ a = M
    · obtain ⟨rfl, rfl⟩ := hc; simp only [and_self, ite_true]; split <;> omega
    · simp only [hc, ite_false]; split <;> omega
  · intro c' a
    rw [he]
    have := hI.ercNN c' a
    by_cases hc : c' = .dep k ∧ a = ini
    · obtain ⟨rfl, rfl⟩ := hc; simp only [and_self, ite_true]; omega
    · simp only [hc, ite_false]; omega
  · intro d' k' hk'; rw [hr] at hk'; rw [hn]; exact hI.regLt d' k' hk'
  · intro d1 d2 k' h1 h2; rw [hr] at h1 h2; exact hI.regInj d1 d2 k' h1 h2
  · intro k' hk'; rw [hn] at hk'; rw [ht, hI.fresh k' hk']
    have hlt := hI.regLt d k hk
    have : ¬ (Contract.dep k' = Contract.dep k) := by intro e; cases e; omega
    simp only [this, ite_false]; omega
  · intro d' k' hk'; rw [hr] at hk'
    rw [ht, hb, hI.cosmos d' k' hk']
    by_cases hd : d' = d
    · subst hd
      have : k' = k := by rw [hk] at hk'; cases hk'; rfl
      subst this
      simp only [true_and, ite_true, hMr, ite_false]; omega
    · have : ¬ (Contract.dep k' = Contract.dep k) := by
        intro e; have hkk : k' = k := Contract.dep.inj e
        rw [hkk] at hk'; exact hd (hI.regInj d' d k hk' hk)
      simp only [hd, this, false_and, ite_false]; omega
  · intro d' hk'; rw [hr] at hk'
    have hd : d' ≠ d := by intro e; subst e; rw [hk] at hk'; cases hk'
    rw [hb, hI.unreg d' hk']
    simp only [hd, false_and, ite_false]; omega
  · intro p hpU
    have hold := hI.native p hpU
    rw [hs, he]
    simp only [hMi, and_false, ite_false]; omega
  · intro p hp'; rw [hpa] at hp'; exact hI.sub p hp'

theorem inv_envTransfer {U : List Pair} {s s' : St} {c : Contract} {f t : Addr} {amt : Int}
    (hf : f ≠ M) (hI : Inv U s) (h : envTransfer s c f t amt = .ok s') : Inv U s' := by
  obtain ⟨hpos, hz1, hz2, hfu, he, ht, hb, hr, hn, hpa, hal⟩ := envTransfer_spec h
  have hMf : ¬ (M = f) := fun e => hf e.symm
  refine ⟨?_, ?_, ?_, ?_, ?_, ?_, ?_, ?_, ?_⟩
  · intro d' a; rw [hb]; exact hI.bankNN d' a
  · intro c' a
    rw [he]
    have := hI.ercNN c' a
    by_cases hc : c' = c ∧ a = f
    · obtain ⟨rfl, rfl⟩ := hc; simp only [and_self, ite_true]; split <;> omega
    · simp only [hc, ite_false]; split <;> omega
  · intro d' k hk; rw [hr] at hk; rw [hn]; exact hI.regLt d' k hk
  · intro d1 d2 k h1 h2; rw [hr] at h1 h2; exact hI.regInj d1 d2 k h1 h2
  · intro k hk; rw [hn] at hk; rw [ht]; exact hI.fresh k hk
  · intro d' k hk; rw [hr] at hk; rw [ht, hb]; exact hI.cosmos d' k hk
  · intro d' hk; rw [hr] at hk; rw [hb]; exact hI.unreg d' hk
  · intro p hpU
    have hold := hI.native p hpU
    rw [hb, he]
    simp only [hMf, and_false, ite_false]; split <;> omega
  · intro p hp'; rw [hpa] at hp'; exact hI.sub p hp'

theorem inv_envSend {U : List Pair} {blocked : Addr → Bool} (hB : blocked M = true)
    {s s' : St} {d : Denom} {f t : Addr} {amt : Int}
    (hf : f ≠ M) (hI : Inv U s) (h : envSend blocked s d f t amt = .ok s') : Inv U s' := by
  obtain ⟨hpos, hbl, hfu, hb, hs, he, hr, hn, hpa, hal⟩ := envSend_spec h
  have htm : t ≠ M := by intro e; rw [e, hB] at hbl; cases hbl
  have hMf : ¬ (M = f) := fun e => hf e.symm
  have hMt : ¬ (M = t) := fun e => htm e.symm
  refine ⟨?_, ?_, ?_, ?_, ?_, ?_, ?_, ?_, ?_⟩
  · intro d' a
    rw [hb]
    have := hI.bankNN d' a
    by_cases hc : d' = d ∧ a = f
    · obtain ⟨rfl, rfl⟩ := hc; simp only [and_self, ite_true]; split <;> omega
    · simp only [hc, ite_false]; split <;> omega
  · intro c' a; rw [he]; exact hI.ercNN c' a
  · intro d' k hk; rw [hr] at hk; rw [hn]; exact hI.regLt d' k hk
  · intro d1 d2 k h1 h2; rw [hr] at h1 h2; exact hI.regInj d1 d2 k h1 h2
  · intro k hk; rw [hn] at hk; rw [he]; exact hI.fresh k hk
  · intro d' k hk; rw [hr] at hk; rw [he, hb, hI.cosmos d' k hk]
    simp only [hMf, hMt, and_false, ite_false]; omega
  · intro d' hk; rw [hr] at hk; rw [hb, hI.unreg d' hk]
    simp only [hMf, hMt, and_false, ite_false]; omega
  · intro p hpU; rw [hs, he]; exact hI.native p hpU
  · intro p hp'; rw [hpa] at hp'; exact hI.sub p hp'

theorem inv_extMint {U : List Pair} {s s' : St} {c : Contract} {t : Addr} {amt : Int}
    (hI : Inv U s) (h : extMint s c t amt = .ok s') : Inv U s' := by
  obtain ⟨⟨n, hc⟩, hpos, hz, he, ht, hb, hr, hn, hpa, hal⟩ := extMint_spec h
  subst hc
  have hne : ∀ k, ¬ (Contract.dep k = Contract.ext n) := fun k e => by cases e
  refine ⟨?_, ?_, ?_, ?_, ?_, ?_, ?_, ?_, ?_⟩
  · intro d' a; rw [hb]; exact hI.bankNN d' a
  · intro c' a
    rw [he]
    have := hI.ercNN c' a
    split <;> omega
  · intro d' k hk; rw [hr] at hk; rw [hn]; exact hI.regLt d' k hk
  · intro d1 d2 k h1 h2; rw [hr] at h1 h2; exact hI.regInj d1 d2 k h1 h2
  · intro k hk; rw [hn] at hk; rw [ht, hI.fresh k hk]; simp only [hne k, ite_false]; omega
  · intro d' k hk; rw [hr] at hk; rw [ht, hb, hI.cosmos d' k hk]; simp only [hne k, ite_false]; omega
  · intro d' hk; rw [hr] at hk; rw [hb]; exact hI.unreg d' hk
  · intro p hpU
    have hold := hI.native p hpU
    rw [hb, he]
    split <;> omega
  · intro p hp'; rw [hpa] at hp'; exact hI.sub p hp'

/-- every admissible successful operation preserves the invariant -/
theorem inv_step {U : List Pair} (hU : UWf U) {blocked : Addr → Bool} (hB : blocked M = true)
    {s s' : St} {op : Op} (hadm : Admissible U op) (hI : Inv U s) (h : step blocked s op = .ok s') :
    Inv U s' := by
  cases op with
  | coinToErc i r d a => exact inv_coinToErc hU hadm hI h
  | ercToCoin i r c a => exact inv_ercToCoin hU hB hI h
  | cosmosToErc i r d a => exact inv_cosmosToErc hadm hI h
  | cosmosFromErc i r d a => exact inv_cosmosFromErc hB hadm hI h
  | transfer c f t a => exact inv_envTransfer hadm hI h
  | send d f t a => exact inv_envSend hB hadm hI h
  | extMint c t a => exact inv_extMint hI h
  | setPairs l =>
    cases h
    exact ⟨hI.bankNN, hI.ercNN, hI.regLt, hI.regInj, hI.fresh, hI.cosmos, hI.unreg, hI.native, hadm⟩
  | setAllowed l =>
    cases h
    exact ⟨hI.bankNN, hI.ercNN, hI.regLt, hI.regInj, hI.fresh, hI.cosmos, hI.unreg, hI.native, hI.sub⟩

theorem inv_apply {U : List Pair} (hU : UWf U) {blocked : Addr → Bool} (hB : blocked M = true)
    {s : St} {op : Op} (hadm : Admissible U op) (hI : Inv U s) : Inv U (apply blocked s op) := by
  unfold apply
  split
  · rename_i s' h; exact inv_step hU hB hadm hI h
  · exact hI

theorem inv_run {U : List Pair} (hU : UWf U) {blocked : Addr → Bool} (hB : blocked M = true)
    (ops : List Op) : ∀ (s : St), (∀ op ∈ ops, Admissible U op) → Inv U s → Inv U (run blocked s ops) := by
  induction ops with
  | nil => intro s _ hI; exact hI
  | cons op ops ih =>
    intro s hadm hI
    show Inv U (run blocked (apply blocked s op) ops)
    exact ih _ (fun o ho => hadm o (List.mem_cons_of_mem _ ho))
      (inv_apply hU hB (hadm op List.mem_cons_self) hI)

end KV.EU
