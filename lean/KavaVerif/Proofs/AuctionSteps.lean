/-
  Helper lemmas for C06, part 5: step-level specifications used by the property statements
  (what an accepted bid / a close did), "exactly once" counting, "closed stays closed".
  Core Lean only.
-/
import KavaVerif.Proofs.AuctionInv
set_option linter.unusedSimpArgs false
set_option linter.unusedVariables false

namespace KV.Auc

/-- an accepted `PlaceBid`: the auction existed, its end time had not passed, the dispatch succeeded
    and the updated record was stored under the same id -/
theorem placeBid_spec (env : Env) (p : Params) (now : Int) (s s' : St) (id : Nat) (bidder : Addr)
    (denom : Denom) (amt : Int) (h : placeBid env p now s id bidder denom amt = .ok s') :
    ∃ a a' b', s.auc id = some a ∧ now ≤ a.endT ∧
      bidDispatch env p now s.bal a bidder denom amt = .ok b' a' ∧
      s' = setAuction { s with bal := b' } a' := by
  unfold placeBid at h
  cases hex : s.auc id with
  | none => simp only [hex] at h; cases h
  | some a =>
    simp only [hex] at h
    by_cases hexp : now > a.endT
    · simp only [hexp, ite_true] at h; cases h
    simp only [hexp, ite_false] at h
    cases hb : bidDispatch env p now s.bal a bidder denom amt with
    | err => simp only [hb] at h; cases h
    | panic => simp only [hb] at h; cases h
    | ok b a' =>
      simp only [hb] at h; cases h
      exact ⟨a, a', b, rfl, by omega, hb, rfl⟩

theorem placeBid_after_end (env : Env) (p : Params) (now : Int) (s : St) (id : Nat) (bidder : Addr)
    (denom : Denom) (amt : Int) (a : Auction) (ha : s.auc id = some a) (hlate : a.endT < now) :
    placeBid env p now s id bidder denom amt = .err := by
  unfold placeBid; simp only [ha]
  have : now > a.endT := hlate
  simp only [this, ite_true]

/-- every successful dispatch keeps id, kind, initiator, denominations, max bid and return weights,
    records the bidder, sets `hasBids`, fixes `maxEnd` on the first bid and never moves it afterwards,
    and sets `endT = min(now + bid duration, maxEnd)` -/
theorem bidDispatch_record (env : Env) (hE : EnvOk env) (p : Params) (now : Int) (b b' : Bal) (a a' : Auction)
    (bidder : Addr) (denom : Denom) (amt : Int) (h : bidDispatch env p now b a bidder denom amt = .ok b' a') :
    a'.id = a.id ∧ a'.kind = a.kind ∧ a'.initiator = a.initiator ∧ a'.lotD = a.lotD ∧ a'.bidD = a.bidD ∧
    a'.debtD = a.debtD ∧ a'.maxBid = a.maxBid ∧ a'.retAddrs = a.retAddrs ∧ a'.retW = a.retW ∧
    a'.bidder = bidder ∧ a'.hasBids = true ∧
    a'.maxEnd = (if a.hasBids then a.maxEnd else now + p.maxDur) ∧
    (∃ dur, (dur = p.fwdDur ∨ dur = p.revDur) ∧ a'.endT = endTime now dur a'.maxEnd) := by
  unfold bidDispatch at h
  cases hk : a.kind with
  | surplus =>
    simp only [hk] at h
    obtain ⟨_, _, rfl, _, _⟩ := bidSurplus_spec env p now b b' a a' bidder denom amt h
    exact ⟨rfl, hk, rfl, rfl, rfl, rfl, rfl, rfl, rfl, rfl, rfl, rfl, p.fwdDur, Or.inl rfl, rfl⟩
  | debt =>
    simp only [hk] at h
    obtain ⟨_, _, _, rfl, _, _⟩ := bidDebt_spec env p now b b' a a' bidder denom amt h
    exact ⟨rfl, hk, rfl, rfl, rfl, rfl, rfl, rfl, rfl, rfl, rfl, rfl, p.fwdDur, Or.inl rfl, rfl⟩
  | collateral =>
    simp only [hk] at h
    by_cases hph : a.bid = a.maxBid
    · rw [if_neg (fun hn : a.bid ≠ a.maxBid => hn hph)] at h
      obtain ⟨_, _, _, _, rfl, _, _⟩ := bidCollateralRev_spec env hE p now b b' a a' bidder denom amt h
      exact ⟨rfl, hk, rfl, rfl, rfl, rfl, rfl, rfl, rfl, rfl, rfl, rfl, p.revDur, Or.inr rfl, rfl⟩
    · rw [if_pos (show a.bid ≠ a.maxBid from hph)] at h
      obtain ⟨_, _, _, _, rfl, _, _⟩ := bidCollateralFwd_spec env p now b b' a a' bidder denom amt h
      refine ⟨rfl, hk, rfl, rfl, rfl, rfl, rfl, rfl, rfl, rfl, rfl, rfl, ?_⟩
      by_cases hm : amt = a.maxBid
      · exact ⟨p.revDur, Or.inr rfl, by simp only [hm, ite_true]; rfl⟩
      · exact ⟨p.fwdDur, Or.inl rfl, by simp only [hm, ite_false]; rfl⟩

/-- a successful `CloseAuction` -/
theorem closeAuction_spec (env : Env) (now : Int) (s s' : St) (id : Nat)
    (h : closeAuction env now s id = .ok s') :
    ∃ a b', s.auc id = some a ∧ a.endT ≤ now ∧ payout env s.bal a = some (some b') ∧
      s' = deleteAuction { s with bal := b' } id := by
  unfold closeAuction at h
  cases hex : s.auc id with
  | none => simp only [hex] at h; cases h
  | some a =>
    simp only [hex] at h
    by_cases hexp : now < a.endT
    · simp only [hexp, ite_true] at h; cases h
    simp only [hexp, ite_false] at h
    cases hp : payout env s.bal a with
    | none => simp only [hp] at h; cases h
    | some r =>
      cases r with
      | none => simp only [hp] at h; cases h
      | some b =>
        simp only [hp] at h; cases h
        exact ⟨a, b, rfl, by omega, hp, rfl⟩

theorem closeAuction_before_end (env : Env) (now : Int) (s : St) (id : Nat) (a : Auction)
    (ha : s.auc id = some a) (hearly : now < a.endT) : closeAuction env now s id = .err := by
  unfold closeAuction; simp only [ha, hearly, ite_true]

theorem closeAuction_missing (env : Env) (now : Int) (s : St) (id : Nat) (ha : s.auc id = none) :
    closeAuction env now s id = .notFound := by
  unfold closeAuction; simp only [ha]

/-! ### "exactly once" -/

theorem filter_length_one {α : Type} (p : α → Bool) (l : List α) (x : α) (hn : l.Nodup) (hx : x ∈ l)
    (hp : p x = true) (hu : ∀ y, y ∈ l → p y = true → y = x) : (l.filter p).length = 1 := by
  induction l with
  | nil => cases hx
  | cons y ys ih =>
    have hnd := List.nodup_cons.mp hn
    by_cases hyx : y = x
    · subst hyx
      have hnone : ys.filter p = [] := by
        apply List.filter_eq_nil_iff.mpr
        intro z hz hpz
        have := hu z (List.mem_cons_of_mem _ hz) hpz
        subst this
        exact hnd.1 hz
      simp [List.filter, hp, hnone]
    · have hxys : x ∈ ys := by
        rcases List.mem_cons.mp hx with h | h
        · exact absurd h.symm hyx
        · exact h
      have hpy : p y = false := by
        cases hpy : p y with
        | false => rfl
        | true => exact absurd (hu y (by simp) hpy) hyx
      simp only [List.filter, hpy]
      exact ih hnd.2 hxys (fun z hz hpz => hu z (List.mem_cons_of_mem _ hz) hpz)

/-- in an exact index every stored auction id occurs in exactly one entry -/
theorem index_once (s : St) (h : IndexExact s) (i : Nat) (a : Auction) (ha : s.auc i = some a) :
    (s.index.filter (fun k => decide (k.2 = i))).length = 1 := by
  obtain ⟨hs, hm⟩ := h
  apply filter_length_one _ _ (a.endT, i) (sorted_nodup _ hs) ((hm a.endT i).mpr ⟨a, ha, rfl⟩) (by simp)
  intro y hy hpy
  obtain ⟨e, j⟩ := y
  have hj : j = i := by simpa using hpy
  subst hj
  obtain ⟨x, hx, hxe⟩ := (hm e j).mp hy
  rw [ha] at hx; cases hx
  rw [hxe]

/-- an entry of an exact index belongs to a stored auction (no stale entries) -/
theorem index_no_stale (s : St) (h : IndexExact s) (k : Int × Nat) (hk : k ∈ s.index) :
    ∃ a, s.auc k.2 = some a ∧ a.endT = k.1 := (h.2 k.1 k.2).mp hk

/-! ### ids are never reused: a closed auction stays closed -/

theorem storeNew_auc_other (s : St) (a : Auction) (i : Nat) (hi : i ≠ s.nextId) :
    (storeNew s a).auc i = s.auc i := by
  unfold storeNew; simp only [setAuction_auc, updA, hi, ite_false]

theorem closeAll_keeps_none (env : Env) (now : Int) (ids : List Nat) (s s' : St) (i : Nat)
    (hn : s.auc i = none) (h : closeAll env now s ids = .ok s') : s'.auc i = none := by
  induction ids generalizing s with
  | nil => unfold closeAll at h; cases h; exact hn
  | cons id ids ih =>
    unfold closeAll at h
    cases hc : closeAuction env now s id with
    | ok s1 =>
      simp only [hc] at h
      obtain ⟨a, b', _, _, _, rfl⟩ := closeAuction_spec env now s s1 id hc
      apply ih _ _ h
      rw [deleteAuction_auc]; unfold updA; split
      · rfl
      · exact hn
    | notFound => simp only [hc] at h; exact ih s hn h
    | err => simp only [hc] at h; cases h
    | panic => simp only [hc] at h; cases h

theorem closeAll_nextId (env : Env) (now : Int) (ids : List Nat) (s s' : St)
    (h : closeAll env now s ids = .ok s') : s'.nextId = s.nextId := by
  induction ids generalizing s with
  | nil => unfold closeAll at h; cases h; rfl
  | cons id ids ih =>
    unfold closeAll at h
    cases hc : closeAuction env now s id with
    | ok s1 =>
      simp only [hc] at h
      obtain ⟨a, b', _, _, _, rfl⟩ := closeAuction_spec env now s s1 id hc
      exact ih (deleteAuction { s with bal := b' } id) h
    | notFound => simp only [hc] at h; exact ih s h
    | err => simp only [hc] at h; cases h
    | panic => simp only [hc] at h; cases h

/-- no operation ever stores an auction under an id below `nextId` that is currently free -/
theorem step_keeps_none (env : Env) (hE : EnvOk env) (p : Params) (now : Int) (s s' : St) (op : Op) (i : Nat)
    (hwf : WF env s) (hn : s.auc i = none) (hlt : i < s.nextId) (h : step env p now s op = .ok s') :
    s'.auc i = none ∧ i < s'.nextId := by
  have hne : i ≠ s.nextId := by omega
  cases op with
  | startSurplus seller lotD lot bidD =>
    simp only [step] at h; unfold startSurplus at h
    by_cases hl : lot < 0
    · simp only [hl, ite_true] at h; cases h
    simp only [hl, ite_false] at h
    cases h1 : send s.bal seller env.M lotD lot with
    | none => simp only [h1] at h; cases h
    | some b =>
      simp only [h1] at h; cases h
      exact ⟨(storeNew_auc_other { s with bal := b } _ i hne).trans hn, by show i < s.nextId + 1; omega⟩
  | startDebt buyer bidD bid lotD lot debtD debt =>
    simp only [step] at h; unfold startDebt at h
    by_cases hm : env.minter buyer = true
    case neg => simp only [hm, not_false_eq_true, ite_true] at h; cases h
    simp only [hm, not_true_eq_false, ite_false] at h
    by_cases hl : debt < 0
    · simp only [hl, ite_true] at h; cases h
    simp only [hl, ite_false] at h
    cases h1 : send s.bal buyer env.M debtD debt with
    | none => simp only [h1] at h; cases h
    | some b =>
      simp only [h1] at h; cases h
      exact ⟨(storeNew_auc_other { s with bal := b } _ i hne).trans hn, by show i < s.nextId + 1; omega⟩
  | startCollateral seller lotD lot bidD maxBid addrs ws debtD debt =>
    simp only [step] at h; unfold startCollateral at h
    by_cases hw : weightsValid addrs ws = true
    case neg => simp only [hw, not_false_eq_true, ite_true] at h; cases h
    simp only [hw, not_true_eq_false, ite_false] at h
    by_cases hl : lot < 0
    · simp only [hl, ite_true] at h; cases h
    simp only [hl, ite_false] at h
    cases h1 : send s.bal seller env.M lotD lot with
    | none => simp only [h1] at h; cases h
    | some b1 =>
      simp only [h1] at h
      by_cases hd : debt < 0
      · simp only [hd, ite_true] at h; cases h
      simp only [hd, ite_false] at h
      cases h2 : send b1 seller env.M debtD debt with
      | none => simp only [h2] at h; cases h
      | some b2 =>
        simp only [h2] at h; cases h
        exact ⟨(storeNew_auc_other { s with bal := b2 } _ i hne).trans hn, by show i < s.nextId + 1; omega⟩
  | placeBid id bidder denom amt =>
    simp only [step] at h
    obtain ⟨a, a', b', ha, _, hd, rfl⟩ := placeBid_spec env p now s s' id bidder denom amt h
    refine ⟨?_, hlt⟩
    rw [setAuction_auc]; unfold updA
    have hid : a'.id = id :=
      (bidDispatch_record env hE p now s.bal b' a a' bidder denom amt hd).1.trans (hwf id a ha).1
    have hi : ¬ (i = a'.id) := by
      intro hi; rw [hid] at hi; rw [hi, ha] at hn; cases hn
    simp only [hi, ite_false]; exact hn
  | close id =>
    simp only [step] at h
    obtain ⟨a, b', _, _, _, rfl⟩ := closeAuction_spec env now s s' id h
    refine ⟨?_, hlt⟩
    rw [deleteAuction_auc]; unfold updA; split
    · rfl
    · exact hn
  | beginBlock =>
    simp only [step] at h; unfold beginBlock at h
    cases hc : closeAll env now s ((s.index.filter (fun k => decide (k.1 ≤ now))).map (·.2)) with
    | ok s1 =>
      simp only [hc] at h; cases h
      refine ⟨closeAll_keeps_none env now _ s _ i hn hc, ?_⟩
      rw [closeAll_nextId env now _ s _ hc]; exact hlt
    | notFound => simp only [hc] at h; cases h
    | err => simp only [hc] at h; cases h
    | panic => simp only [hc] at h; cases h
  | xfer frm to d n =>
    simp only [step] at h
    by_cases hm : frm = env.M ∨ to = env.M
    · simp only [hm, ite_true] at h; cases h
    simp only [hm, ite_false] at h
    cases h1 : send s.bal frm to d n with
    | none => simp only [h1] at h; cases h
    | some b => simp only [h1] at h; cases h; exact ⟨hn, hlt⟩

/-! ### the maximum end time of an auction that has a bid is never written again -/

/-- `hasBids` and `maxEnd` of the auction stored under `i`, or "gone" -/
def CapKept (a : Auction) (o : Option Auction) : Prop :=
  o = none ∨ ∃ a', o = some a' ∧ a'.hasBids = true ∧ a'.maxEnd = a.maxEnd

theorem closeAll_capKept (env : Env) (now : Int) (ids : List Nat) (s s' : St) (i : Nat) (a : Auction)
    (hc : CapKept a (s.auc i)) (h : closeAll env now s ids = .ok s') : CapKept a (s'.auc i) := by
  induction ids generalizing s with
  | nil => unfold closeAll at h; cases h; exact hc
  | cons id ids ih =>
    unfold closeAll at h
    cases hcl : closeAuction env now s id with
    | ok s1 =>
      simp only [hcl] at h
      obtain ⟨a0, b', _, _, _, rfl⟩ := closeAuction_spec env now s s1 id hcl
      apply ih _ _ h
      rw [deleteAuction_auc]; unfold updA; split
      · exact Or.inl rfl
      · exact hc
    | notFound => simp only [hcl] at h; exact ih s hc h
    | err => simp only [hcl] at h; cases h
    | panic => simp only [hcl] at h; cases h

/-- Whatever the operation and whatever the parameters in force when it runs: an auction that has received
    a bid either is gone afterwards (closed) or still has `hasBids` and the SAME maximum end time. -/
theorem step_capKept (env : Env) (hE : EnvOk env) (p : Params) (now : Int) (s s' : St) (op : Op) (i : Nat)
    (a : Auction) (hwf : WF env s) (ha : s.auc i = some a) (hb : a.hasBids = true)
    (h : step env p now s op = .ok s') : CapKept a (s'.auc i) ∧ s.nextId ≤ s'.nextId := by
  have hne : i ≠ s.nextId := by have := (hwf i a ha).2.1; omega
  have keep : CapKept a (s.auc i) := Or.inr ⟨a, ha, hb, rfl⟩
  cases op with
  | startSurplus seller lotD lot bidD =>
    simp only [step] at h; unfold startSurplus at h
    by_cases hl : lot < 0
    · simp only [hl, ite_true] at h; cases h
    simp only [hl, ite_false] at h
    cases h1 : send s.bal seller env.M lotD lot with
    | none => simp only [h1] at h; cases h
    | some b =>
      simp only [h1] at h; cases h
      exact ⟨by rw [storeNew_auc_other { s with bal := b } _ i hne]; exact keep, by show s.nextId ≤ s.nextId + 1; omega⟩
  | startDebt buyer bidD bid lotD lot debtD debt =>
    simp only [step] at h; unfold startDebt at h
    by_cases hm : env.minter buyer = true
    case neg => simp only [hm, not_false_eq_true, ite_true] at h; cases h
    simp only [hm, not_true_eq_false, ite_false] at h
    by_cases hl : debt < 0
    · simp only [hl, ite_true] at h; cases h
    simp only [hl, ite_false] at h
    cases h1 : send s.bal buyer env.M debtD debt with
    | none => simp only [h1] at h; cases h
    | some b =>
      simp only [h1] at h; cases h
      exact ⟨by rw [storeNew_auc_other { s with bal := b } _ i hne]; exact keep, by show s.nextId ≤ s.nextId + 1; omega⟩
  | startCollateral seller lotD lot bidD maxBid addrs ws debtD debt =>
    simp only [step] at h; unfold startCollateral at h
    by_cases hw : weightsValid addrs ws = true
    case neg => simp only [hw, not_false_eq_true, ite_true] at h; cases h
    simp only [hw, not_true_eq_false, ite_false] at h
    by_cases hl : lot < 0
    · simp only [hl, ite_true] at h; cases h
    simp only [hl, ite_false] at h
    cases h1 : send s.bal seller env.M lotD lot with
    | none => simp only [h1] at h; cases h
    | some b1 =>
      simp only [h1] at h
      by_cases hd : debt < 0
      · simp only [hd, ite_true] at h; cases h
      simp only [hd, ite_false] at h
      cases h2 : send b1 seller env.M debtD debt with
      | none => simp only [h2] at h; cases h
      | some b2 =>
        simp only [h2] at h; cases h
        exact ⟨by rw [storeNew_auc_other { s with bal := b2 } _ i hne]; exact keep, by show s.nextId ≤ s.nextId + 1; omega⟩
  | placeBid id bidder denom amt =>
    simp only [step] at h
    obtain ⟨a0, a', b', ha0, _, hd, rfl⟩ := placeBid_spec env p now s s' id bidder denom amt h
    obtain ⟨hid, _, _, _, _, _, _, _, _, _, hhas, hmax, _⟩ := bidDispatch_record env hE p now s.bal b' a0 a' bidder denom amt hd
    have hid' : a'.id = id := hid.trans (hwf id a0 ha0).1
    refine ⟨?_, Nat.le_refl _⟩
    rw [setAuction_auc]; unfold updA
    by_cases hi : i = a'.id
    · simp only [hi, ite_true]
      have : a0 = a := by
        have := ha0; rw [← hid', ← hi, ha] at this; cases this; rfl
      subst this
      exact Or.inr ⟨a', rfl, hhas, by rw [hmax]; simp only [hb, ite_true]⟩
    · simp only [hi, ite_false]; exact keep
  | close id =>
    simp only [step] at h
    obtain ⟨a0, b', _, _, _, rfl⟩ := closeAuction_spec env now s s' id h
    refine ⟨?_, Nat.le_refl _⟩
    rw [deleteAuction_auc]; unfold updA; split
    · exact Or.inl rfl
    · exact keep
  | beginBlock =>
    simp only [step] at h; unfold beginBlock at h
    cases hc : closeAll env now s ((s.index.filter (fun k => decide (k.1 ≤ now))).map (·.2)) with
    | ok s1 =>
      simp only [hc] at h; cases h
      exact ⟨closeAll_capKept env now _ s _ i a keep hc, by rw [closeAll_nextId env now _ s _ hc]; exact Nat.le_refl _⟩
    | notFound => simp only [hc] at h; cases h
    | err => simp only [hc] at h; cases h
    | panic => simp only [hc] at h; cases h
  | xfer frm to d n =>
    simp only [step] at h
    by_cases hm : frm = env.M ∨ to = env.M
    · simp only [hm, ite_true] at h; cases h
    simp only [hm, ite_false] at h
    cases h1 : send s.bal frm to d n with
    | none => simp only [h1] at h; cases h
    | some b => simp only [h1] at h; cases h; exact ⟨keep, Nat.le_refl _⟩

/-- … and so over every history, with the parameters changing arbitrarily between the operations -/
theorem runP_capKept (env : Env) (hE : EnvOk env) (ops : List (Params × Int × Op)) (s : St) (hI : Inv env s)
    (hops : ∀ x, x ∈ ops → OpOk env x.2.2) (i : Nat) (a : Auction) (hlt : i < s.nextId)
    (hc : CapKept a (s.auc i)) : CapKept a ((runP env s ops).auc i) := by
  induction ops generalizing s with
  | nil => exact hc
  | cons x rest ih =>
    obtain ⟨p, now, op⟩ := x
    unfold runP
    cases hs : step env p now s op with
    | ok s1 =>
      simp only
      have hI1 := step_inv env hE p now s s1 op hI (hops (p, now, op) (by simp)) hs
      have hrest : ∀ y, y ∈ rest → OpOk env y.2.2 := fun y hy => hops y (by simp [hy])
      rcases hc with hn | ⟨a1, ha1, hb1, hm1⟩
      · obtain ⟨hn1, hlt1⟩ := step_keeps_none env hE p now s s1 op i hI.1 hn hlt hs
        exact ih s1 hI1 hrest hlt1 (Or.inl hn1)
      · obtain ⟨hk, hmono⟩ := step_capKept env hE p now s s1 op i a1 hI.1 ha1 hb1 hs
        have hlt1 : i < s1.nextId := by omega
        rcases hk with hn | ⟨a2, ha2, hb2, hm2⟩
        · exact ih s1 hI1 hrest hlt1 (Or.inl hn)
        · exact ih s1 hI1 hrest hlt1 (Or.inr ⟨a2, ha2, hb2, hm2.trans hm1⟩)
    | err => simp only; exact ih s hI (fun y hy => hops y (by simp [hy])) hlt hc
    | notFound => simp only; exact ih s hI (fun y hy => hops y (by simp [hy])) hlt hc
    | panic => simp only; exact ih s hI (fun y hy => hops y (by simp [hy])) hlt hc

theorem ind_t (n : Int) : ind True n = n := by simp [ind]
theorem ind_f (n : Int) : ind False n = 0 := by simp [ind]
theorem ind_tt (n : Int) : ind (True ∧ True) n = n := by simp [ind]

/-! ### the rules an accepted bid met -/

/-- "A bid is accepted only if it improves on the standing one by the configured increment and
    respects the maximum bid" — as a predicate over the record before and after the bid -/
def BidRules (p : Params) (a a' : Auction) (bidder : Addr) (denom : Denom) (amt : Int) : Prop :=
  a'.bidder = bidder ∧
  match a.kind with
  | .surplus => denom = a.bidD ∧ a.bid + incOf a.bid p.incS ≤ amt ∧ a'.bid = amt ∧ a'.lot = a.lot
  | .debt => denom = a.lotD ∧ amt ≤ a.lot - incOf a.lot p.incD ∧ 0 ≤ amt ∧ a'.lot = amt ∧ a'.bid = a.bid
  | .collateral =>
    if a.bid ≠ a.maxBid then
      denom = a.bidD ∧ (a.bid + incOf a.bid p.incC ≤ amt ∨ amt = a.maxBid) ∧ a.bid < amt ∧ amt ≤ a.maxBid ∧
        a'.bid = amt ∧ a'.lot = a.lot
    else denom = a.lotD ∧ amt ≤ a.lot - incOf a.lot p.incC ∧ 0 ≤ amt ∧ a'.lot = amt ∧ a'.bid = a.bid

theorem bidDispatch_rules (env : Env) (hE : EnvOk env) (p : Params) (now : Int) (b b' : Bal) (a a' : Auction)
    (bidder : Addr) (denom : Denom) (amt : Int) (hA : AWF env a)
    (h : bidDispatch env p now b a bidder denom amt = .ok b' a') : BidRules p a a' bidder denom amt := by
  obtain ⟨_, _, _, _, _, hcol⟩ := hA
  unfold bidDispatch at h
  unfold BidRules
  cases hk : a.kind with
  | surplus =>
    simp only [hk] at h ⊢
    obtain ⟨hd, hmin, rfl, _, _⟩ := bidSurplus_spec env p now b b' a a' bidder denom amt h
    exact ⟨rfl, hd, hmin, rfl, rfl⟩
  | debt =>
    simp only [hk] at h ⊢
    obtain ⟨hd, hmax, hnn, rfl, _, _⟩ := bidDebt_spec env p now b b' a a' bidder denom amt h
    exact ⟨rfl, hd, hmax, hnn, rfl, rfl⟩
  | collateral =>
    simp only [hk] at h ⊢
    obtain ⟨hle, _⟩ := hcol hk
    by_cases hph : a.bid = a.maxBid
    · rw [if_neg (fun hn : a.bid ≠ a.maxBid => hn hph)] at h ⊢
      obtain ⟨hd, _, hmax, hnn, rfl, _, _⟩ := bidCollateralRev_spec env hE p now b b' a a' bidder denom amt h
      exact ⟨rfl, hd, hmax, hnn, rfl, rfl⟩
    · rw [if_pos (show a.bid ≠ a.maxBid from hph)] at h ⊢
      obtain ⟨hd, _, hmin, hmaxb, rfl, _, _⟩ := bidCollateralFwd_spec env p now b b' a a' bidder denom amt h
      have hinc := incOf_pos a.bid p.incC
      refine ⟨rfl, hd, ?_, ?_, hmaxb, rfl, rfl⟩
      · unfold minBidCollateral at hmin; simp only at hmin
        split at hmin
        · left; exact hmin
        · right; omega
      · unfold minBidCollateral at hmin; simp only at hmin
        split at hmin <;> omega

/-! ### who pays and who is repaid in an accepted bid -/

/-- forward bids (surplus, collateral forward phase): the outbid bidder gets the whole standing bid,
    the new bidder pays the whole new bid, a re-bid by the standing bidder costs only the increment -/
theorem bidDispatch_flows_forward (env : Env) (hE : EnvOk env) (p : Params) (now : Int) (b b' : Bal)
    (a a' : Auction) (bidder : Addr) (denom : Denom) (amt : Int) (hA : AWF env a) (hbM : bidder ≠ env.M)
    (hfwd : a.kind = .surplus ∨ (a.kind = .collateral ∧ a.bid ≠ a.maxBid))
    (h : bidDispatch env p now b a bidder denom amt = .ok b' a') :
    (bidder ≠ a.bidder → a.bid ≠ 0 → a.bidder ≠ a.initiator →
        b' a.bidder a.bidD = b a.bidder a.bidD + a.bid) ∧
    (bidder ≠ a.bidder → bidder ≠ a.initiator → b' bidder a.bidD = b bidder a.bidD - amt) ∧
    (bidder = a.bidder → bidder ≠ a.initiator → b' bidder a.bidD = b bidder a.bidD - (amt - a.bid)) := by
  obtain ⟨_, _, _, _, hini, _⟩ := hA
  have unblockedNeM : env.blocked a.bidder = false → ¬ (a.bidder = env.M) := by
    intro hob hx; rw [hx, hE] at hob; cases hob
  unfold bidDispatch at h
  rcases hfwd with hk | ⟨hk, hph⟩
  · simp only [hk] at h
    obtain ⟨_, _, _, hblk, hf⟩ := bidSurplus_spec env p now b b' a a' bidder denom amt h
    refine ⟨?_, ?_, ?_⟩
    · intro h1 h2 h3
      have hR : bidder ≠ a.bidder ∧ a.bid ≠ 0 := ⟨h1, h2⟩
      have := hf a.bidder a.bidD
      have hne : ¬ (a.bidder = bidder) := fun hx => h1 hx.symm
      simp only [hne, hR, and_self, ite_true, ind_t, ne_eq, not_false_eq_true, not_true_eq_false, and_self, and_true, true_and, and_false, false_and, ite_true, ite_false, ind_zero, ind_t, ind_tt, ind_f] at this
      omega
    · intro h1 h3
      have := hf bidder a.bidD
      simp only [h1, ind_t, ne_eq, not_false_eq_true, not_true_eq_false, and_self, and_true, true_and, and_false, false_and, ite_true, ite_false, ind_zero, ind_t, ind_tt, ind_f] at this
      by_cases h2 : a.bid ≠ 0
      · simp only [h1, h2, ne_eq, not_false_eq_true, and_self, ite_true, ne_eq, not_false_eq_true, not_true_eq_false, and_self, and_true, true_and, and_false, false_and, ite_true, ite_false, ind_zero, ind_t, ind_tt, ind_f] at this; omega
      · have h2' : a.bid = 0 := by omega
        simp only [h2', ne_eq, not_true_eq_false, and_false, ite_false, ne_eq, not_false_eq_true, not_true_eq_false, and_self, and_true, true_and, and_false, false_and, ite_true, ite_false, ind_zero, ind_t, ind_tt, ind_f] at this; omega
    · intro h1 h3
      have := hf bidder a.bidD
      simp only [h1, ne_eq, not_true_eq_false, false_and, ite_false, ind_zero,
        ind_t, ne_eq, not_false_eq_true, not_true_eq_false, and_self, and_true, true_and, and_false, false_and, ite_true, ite_false, ind_zero, ind_t, ind_tt, ind_f] at this
      rw [h1]; omega
  · simp only [hk] at h
    rw [if_pos hph] at h
    obtain ⟨_, _, _, _, _, hblk, hf⟩ := bidCollateralFwd_spec env p now b b' a a' bidder denom amt h
    refine ⟨?_, ?_, ?_⟩
    · intro h1 h2 h3
      have hR : bidder ≠ a.bidder ∧ a.bid ≠ 0 := ⟨h1, h2⟩
      have hoM := unblockedNeM (hblk hR)
      have := hf a.bidder a.bidD
      have hne : ¬ (a.bidder = bidder) := fun hx => h1 hx.symm
      simp only [hne, h3, hoM, hR, and_self, ite_true,
        ind_t, ne_eq, not_false_eq_true, not_true_eq_false, and_self, and_true, true_and, and_false, false_and, ite_true, ite_false, ind_zero, ind_t, ind_tt, ind_f] at this
      omega
    · intro h1 h3
      have := hf bidder a.bidD
      simp only [h1, h3, hbM, ind_t, ne_eq, not_false_eq_true, not_true_eq_false, and_self, and_true, true_and, and_false, false_and, ite_true, ite_false, ind_zero, ind_t, ind_tt, ind_f] at this
      by_cases h2 : a.bid ≠ 0
      · simp only [h1, h2, ne_eq, not_false_eq_true, and_self, ite_true, ne_eq, not_false_eq_true, not_true_eq_false, and_self, and_true, true_and, and_false, false_and, ite_true, ite_false, ind_zero, ind_t, ind_tt, ind_f] at this; omega
      · have h2' : a.bid = 0 := by omega
        simp only [h2', ne_eq, not_true_eq_false, and_false, ite_false, ne_eq, not_false_eq_true, not_true_eq_false, and_self, and_true, true_and, and_false, false_and, ite_true, ite_false, ind_zero, ind_t, ind_tt, ind_f] at this; omega
    · intro h1 h3
      have := hf bidder a.bidD
      simp only [h1, ne_eq, not_true_eq_false, false_and, ite_false, ind_zero,
        ind_t, ne_eq, not_false_eq_true, not_true_eq_false, and_self, and_true, true_and, and_false, false_and, ite_true, ite_false, ind_zero, ind_t, ind_tt, ind_f] at this
      have h3' : ¬ (a.bidder = a.initiator) := by rw [← h1]; exact h3
      have hbM' : ¬ (a.bidder = env.M) := by rw [← h1]; exact hbM
      simp only [h3', hbM', ne_eq, not_false_eq_true, not_true_eq_false, and_self, and_true, true_and, and_false, false_and, ite_true, ite_false, ind_zero, ind_t, ind_tt, ind_f] at this
      rw [h1]; omega

/-- reverse bids (debt auction after its first bid, collateral reverse phase): the outbid bidder
    gets the whole (constant) bid back from the new bidder, a re-bid by the standing bidder moves no
    bid coins. (`a.lotD ≠ a.bidD`: returned lot coins are then a different denomination.) -/
theorem bidDispatch_flows_reverse (env : Env) (hE : EnvOk env) (p : Params) (now : Int) (b b' : Bal)
    (a a' : Auction) (bidder : Addr) (denom : Denom) (amt : Int) (hA : AWF env a) (hbM : bidder ≠ env.M)
    (hrev : a.kind = .debt ∨ (a.kind = .collateral ∧ a.bid = a.maxBid ∧ a.lotD ≠ a.bidD))
    (hnotfirst : a.bidder ≠ a.initiator)
    (h : bidDispatch env p now b a bidder denom amt = .ok b' a') :
    (bidder ≠ a.bidder → b' a.bidder a.bidD = b a.bidder a.bidD + a.bid) ∧
    (bidder ≠ a.bidder → bidder ≠ a.initiator → b' bidder a.bidD = b bidder a.bidD - a.bid) ∧
    (bidder = a.bidder → b' bidder a.bidD = b bidder a.bidD) := by
  obtain ⟨_, _, _, _, hini, _⟩ := hA
  have unblockedNeM : env.blocked a.bidder = false → ¬ (a.bidder = env.M) := by
    intro hob hx; rw [hx, hE] at hob; cases hob
  unfold bidDispatch at h
  rcases hrev with hk | ⟨hk, hph, hden⟩
  · simp only [hk] at h
    obtain ⟨_, _, _, _, hblk, hf⟩ := bidDebt_spec env p now b b' a a' bidder denom amt h
    have hdr : debtReturn a = 0 := by unfold debtReturn; simp only [hnotfirst, ite_false]
    refine ⟨?_, ?_, ?_⟩
    · intro h1
      have hoM := unblockedNeM (hblk h1 hnotfirst)
      have := hf a.bidder a.bidD
      have hne : ¬ (a.bidder = bidder) := fun hx => h1 hx.symm
      simp only [hne, h1, ne_eq, not_false_eq_true, ite_true, hdr, ind_zero,
        ind_t, ne_eq, not_false_eq_true, not_true_eq_false, and_self, and_true, true_and, and_false, false_and, ite_true, ite_false, ind_zero, ind_t, ind_tt, ind_f] at this
      omega
    · intro h1 h3
      have := hf bidder a.bidD
      simp only [h1, h1, ne_eq, not_false_eq_true, ite_true, hdr, ind_zero,
        ind_t, ne_eq, not_false_eq_true, not_true_eq_false, and_self, and_true, true_and, and_false, false_and, ite_true, ite_false, ind_zero, ind_t, ind_tt, ind_f] at this
      omega
    · intro h1
      have := hf bidder a.bidD
      simp only [h1, ne_eq, not_true_eq_false, ite_false, hdr, ind_zero, ne_eq, not_false_eq_true, not_true_eq_false, and_self, and_true, true_and, and_false, false_and, ite_true, ite_false, ind_zero, ind_t, ind_tt, ind_f] at this
      rw [h1]; omega
  · simp only [hk] at h
    rw [if_neg (fun hn : a.bid ≠ a.maxBid => hn hph)] at h
    obtain ⟨_, _, _, _, _, hblk, parts, _, _, hf⟩ := bidCollateralRev_spec env hE p now b b' a a' bidder denom amt h
    have hden' : ¬ (a.bidD = a.lotD) := fun hx => hden hx.symm
    refine ⟨?_, ?_, ?_⟩
    · intro h1
      have := hf a.bidder a.bidD
      have hne : ¬ (a.bidder = bidder) := fun hx => h1 hx.symm
      simp only [hne, h1, ne_eq, not_false_eq_true, ite_true, ind_neg _ hden',
        ind_t, ne_eq, not_false_eq_true, not_true_eq_false, and_self, and_true, true_and, and_false, false_and, ite_true, ite_false, ind_zero, ind_t, ind_tt, ind_f] at this
      have hz : ind (a.bidder = env.M ∧ a.bidD = a.lotD) (paid a.retAddrs parts) = 0 :=
        ind_neg _ (fun hh => hden' hh.2)
      omega
    · intro h1 h3
      have := hf bidder a.bidD
      simp only [h1, h1, ne_eq, not_false_eq_true, ite_true, ind_neg _ hden',
        ind_t, ne_eq, not_false_eq_true, not_true_eq_false, and_self, and_true, true_and, and_false, false_and, ite_true, ite_false, ind_zero, ind_t, ind_tt, ind_f] at this
      have hz : ind (bidder = env.M ∧ a.bidD = a.lotD) (paid a.retAddrs parts) = 0 :=
        ind_neg _ (fun hh => hden' hh.2)
      omega
    · intro h1
      have := hf bidder a.bidD
      simp only [h1, ne_eq, not_true_eq_false, ite_false, ind_zero, ind_neg _ hden', ne_eq, not_false_eq_true, not_true_eq_false, and_self, and_true, true_and, and_false, false_and, ite_true, ite_false, ind_zero, ind_t, ind_tt, ind_f] at this
      have hz : ind (a.bidder = env.M ∧ a.bidD = a.lotD) (paid a.retAddrs parts) = 0 :=
        ind_neg _ (fun hh => hden' hh.2)
      rw [h1]; omega

/-- the first bid of a debt auction: the standing "bidder" is the initiator module; it receives the
    bid and the matching part `min(bid, debt)` of the escrowed debt -/
theorem bidDebt_first_bid (env : Env) (hE : EnvOk env) (p : Params) (now : Int) (b b' : Bal)
    (a a' : Auction) (bidder : Addr) (denom : Denom) (amt : Int) (hA : AWF env a) (hbM : bidder ≠ env.M)
    (hk : a.kind = .debt) (hfirst : a.bidder = a.initiator) (hbi : bidder ≠ a.initiator)
    (h : bidDispatch env p now b a bidder denom amt = .ok b' a') :
    a'.debt = a.debt - (if a.bid < a.debt then a.bid else a.debt) ∧
    (a.bidD ≠ a.debtD → b' a.initiator a.bidD = b a.initiator a.bidD + a.bid) ∧
    (a.bidD ≠ a.debtD → b' a.initiator a.debtD = b a.initiator a.debtD + (if a.bid < a.debt then a.bid else a.debt)) ∧
    b' bidder a.bidD = b bidder a.bidD - a.bid := by
  obtain ⟨_, _, _, _, hini, _⟩ := hA
  unfold bidDispatch at h
  simp only [hk] at h
  obtain ⟨_, _, _, rfl, hblk, hf⟩ := bidDebt_spec env p now b b' a a' bidder denom amt h
  have hdr : debtReturn a = (if a.bid < a.debt then a.bid else a.debt) := by
    unfold debtReturn; simp only [hfirst, ite_true]
  have hc : bidder ≠ a.bidder := by rw [hfirst]; exact hbi
  have hib : ¬ (a.initiator = bidder) := fun hx => hbi hx.symm
  have hbi' : ¬ (bidder = a.initiator) := hbi
  refine ⟨by show a.debt - debtReturn a = _; rw [hdr], ?_, ?_, ?_⟩
  · intro hden
    have hden' : ¬ (a.bidD = a.debtD) := hden
    have := hf a.initiator a.bidD
    simp only [hib, hini, hfirst, hbi', hden', ne_eq, not_false_eq_true, not_true_eq_false, and_self, and_true, true_and, and_false, false_and, ite_true, ite_false, ind_zero, ind_t, ind_tt, ind_f] at this
    omega
  · intro hden
    have hden' : ¬ (a.debtD = a.bidD) := fun hx => hden hx.symm
    have := hf a.initiator a.debtD
    simp only [hib, hini, hfirst, hbi', hden', ne_eq, not_false_eq_true, not_true_eq_false, and_self, and_true, true_and, and_false, false_and, ite_true, ite_false, ind_zero, ind_t, ind_tt, ind_f] at this
    rw [← hdr]; omega
  · have := hf bidder a.bidD
    have hbM' : ¬ (bidder = env.M) := hbM
    simp only [hbM', hfirst, hbi', ne_eq, not_false_eq_true, not_true_eq_false, and_self, and_true, true_and, and_false, false_and, ite_true, ite_false, ind_zero, ind_t, ind_tt, ind_f] at this
    omega

/-- reverse phase of a collateral auction: what the lot shrinks by leaves the module and is credited
    to the return addresses according to a largest-remainder split of `lot − lot′` by their weights -/
theorem bidRev_returns (env : Env) (hE : EnvOk env) (p : Params) (now : Int) (b b' : Bal)
    (a a' : Auction) (bidder : Addr) (denom : Denom) (amt : Int) (hA : AWF env a) (hbM : bidder ≠ env.M)
    (hk : a.kind = .collateral) (hph : a.bid = a.maxBid)
    (h : bidDispatch env p now b a bidder denom amt = .ok b' a') :
    ∃ parts, IsLRSplit (a.lot - amt) a.retW parts ∧ SplitInput (a.lot - amt) a.retW ∧
      sumL parts = a.lot - amt ∧
      b' env.M a.lotD = b env.M a.lotD - (a.lot - amt) ∧
      (∀ z, z ≠ env.M → (a.lotD ≠ a.bidD ∨ bidder = a.bidder ∨ (z ≠ bidder ∧ z ≠ a.bidder)) →
          b' z a.lotD = b z a.lotD + credit z a.retAddrs parts) := by
  obtain ⟨_, _, _, _, hini, hcol⟩ := hA
  obtain ⟨_, hwv⟩ := hcol hk
  unfold bidDispatch at h
  simp only [hk] at h
  rw [if_neg (fun hn : a.bid ≠ a.maxBid => hn hph)] at h
  obtain ⟨_, _, _, _, _, hblk, parts, hsp, ⟨b1, hpay⟩, hf⟩ :=
    bidCollateralRev_spec env hE p now b b' a a' bidder denom amt h
  obtain ⟨hin, hlr⟩ := lrSplit_some _ _ _ hsp
  have hpd := paid_split env a amt parts hwv hsp
  have hsum : sumL parts = a.lot - amt := by
    have := (isLRSplit_iff _ _ _).mp hlr
    rw [sumL_eq_sumTo, this.1]; exact this.2.2.1
  refine ⟨parts, hlr, hin, hsum, ?_, ?_⟩
  · have := hf env.M a.lotD
    have hcr := payAll_credit_blocked env a.lotD b1 b' _ _ hpay env.M hE
    have hMb : ¬ (env.M = bidder) := fun hx => hbM hx.symm
    by_cases hc : bidder = a.bidder
    · simp only [hMb, hc, hcr, hpd, ne_eq, not_false_eq_true, not_true_eq_false, and_self, and_true, true_and, and_false, false_and, ite_true, ite_false, ind_zero, ind_t, ind_tt, ind_f] at this
      omega
    · have hob := hblk hc
      have hMo : ¬ (env.M = a.bidder) := by intro hx; rw [← hx, hE] at hob; cases hob
      simp only [hMb, hMo, hcr, hpd, ne_eq, not_false_eq_true, not_true_eq_false, and_self, and_true, true_and, and_false, false_and, ite_true, ite_false, ind_zero, ind_t, ind_tt, ind_f] at this
      omega
  · intro z hz hcase
    have := hf z a.lotD
    have hz' : ¬ (z = env.M) := hz
    rcases hcase with hd | hc | ⟨h1, h2⟩
    · have hd' : ¬ (a.lotD = a.bidD) := hd
      simp only [hz', hd', ne_eq, not_false_eq_true, not_true_eq_false, and_self, and_true, true_and, and_false, false_and, ite_true, ite_false, ind_zero, ind_t, ind_tt, ind_f] at this
      omega
    · simp only [hz', hc, ne_eq, not_false_eq_true, not_true_eq_false, and_self, and_true, true_and, and_false, false_and, ite_true, ite_false, ind_zero, ind_t, ind_tt, ind_f] at this
      omega
    · have h1' : ¬ (z = bidder) := h1
      have h2' : ¬ (z = a.bidder) := h2
      simp only [hz', h1', h2', ne_eq, not_false_eq_true, not_true_eq_false, and_self, and_true, true_and, and_false, false_and, ite_true, ite_false, ind_zero, ind_t, ind_tt, ind_f] at this
      omega

/-! ### who is paid at close -/

theorem payout_flows (env : Env) (hE : EnvOk env) (b b' : Bal) (a : Auction) (hA : AWF env a)
    (hwin : a.bidder ≠ a.initiator) (h : payout env b a = some (some b')) :
    b' a.bidder a.lotD = b a.bidder a.lotD + a.lot ∧
    (a.kind ≠ .surplus → b' a.initiator a.debtD = b a.initiator a.debtD + a.debt) ∧
    (∀ z e, z ≠ env.M → z ≠ a.bidder → z ≠ a.initiator → b' z e = b z e) := by
  obtain ⟨_, _, hdebt, _, hini, _⟩ := hA
  obtain ⟨hb, _, hf⟩ := payout_spec env b b' a hdebt h
  have hoM : ¬ (a.bidder = env.M) := by intro hx; rw [hx, hE] at hb; cases hb
  have hio : ¬ (a.initiator = a.bidder) := fun hx => hwin hx.symm
  refine ⟨?_, ?_, ?_⟩
  · have := hf a.bidder a.lotD
    simp only [hwin, hoM, ind_t, ne_eq, not_false_eq_true, not_true_eq_false, and_self, and_true, true_and, and_false, false_and, ite_true, ite_false, ind_zero, ind_t, ind_tt, ind_f] at this
    omega
  · intro hk
    have := hf a.initiator a.debtD
    simp only [hini, hio, hk, ite_false, ind_t, ne_eq, not_false_eq_true, not_true_eq_false, and_self, and_true, true_and, and_false, false_and, ite_true, ite_false, ind_zero, ind_t, ind_tt, ind_f] at this
    omega
  · intro z e h1 h2 h3
    have := hf z e
    simp only [h1, h2, h3, ne_eq, not_false_eq_true, not_true_eq_false, and_self, and_true, true_and, and_false, false_and, ite_true, ite_false, ind_zero, ind_t, ind_tt, ind_f] at this
    omega

end KV.Auc
