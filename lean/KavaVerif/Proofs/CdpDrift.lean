/-
  C04 helper lemmas, part 6: how each operation moves the per-type total principal and the sum of the CDP
  debts of that type (the two sides of "total principal = Σ CDP debt up to interest rounding").
  Core Lean only.
-/
import KavaVerif.Proofs.CdpMore
set_option linter.unusedVariables false
set_option linter.unusedSimpArgs false

namespace KV.Cdp
open KV

/-- debt (principal + accumulated fees) of a table entry if it is a CDP of type `ty` -/
def debtIn (ty : Nat) : Option Cdp → Int
  | some c => if c.ty = ty then c.prin + c.fees else 0
  | none => 0

/-- Σ over all CDPs of type `ty` of their recorded debt -/
def sumDebt (s : St) (ty : Nat) : Int := sumAcc (List.range s.nextId) (fun id => debtIn ty (s.cdp id))

theorem sumDebt_upd {s s' : St} {id : Nat} {v : Option Cdp} (ty : Nat) (hlt : id < s.nextId)
    (hn : s'.nextId = s.nextId) (hc : s'.cdp = upd s.cdp id v) :
    sumDebt s' ty = sumDebt s ty - debtIn ty (s.cdp id) + debtIn ty v := by
  unfold sumDebt
  rw [hn, hc]
  have : (fun j => debtIn ty (upd s.cdp id v j)) = upd (fun j => debtIn ty (s.cdp j)) id (debtIn ty v) := by
    funext j
    by_cases hj : j = id
    · subst hj; simp [upd]
    · simp [upd, hj]
  rw [this, sumAcc_upd _ _ _ _ List.nodup_range (List.mem_range.2 hlt)]

theorem sumDebt_new {s s' : St} {c : Cdp} (ty : Nat) (hnone : ∀ j, s.nextId ≤ j → s.cdp j = none)
    (hn : s'.nextId = s.nextId + 1) (hc : s'.cdp = upd s.cdp s.nextId (some c)) :
    sumDebt s' ty = sumDebt s ty + debtIn ty (some c) := by
  unfold sumDebt
  rw [hn, hc, sumAcc_range_succ]
  have e1 : sumAcc (List.range s.nextId) (fun id => debtIn ty (upd s.cdp s.nextId (some c) id))
      = sumAcc (List.range s.nextId) (fun id => debtIn ty (s.cdp id)) := by
    apply sumAcc_congr
    intro x hx
    have : x ≠ s.nextId := by have := List.mem_range.1 hx; omega
    simp only [upd_other _ _ _ _ this]
  rw [e1, upd_same]

theorem sumDebt_same {s s' : St} (ty : Nat) (hn : s'.nextId = s.nextId) (hc : s'.cdp = s.cdp) :
    sumDebt s' ty = sumDebt s ty := by
  unfold sumDebt; rw [hn, hc]

/-- the debt side of an update of CDP `id` of type `t`: other types are untouched, type `t` moves by the
    difference of the two debts -/
theorem sumDebt_replace {s s' : St} {id : Nat} {c0 c2 : Cdp} (hlt : id < s.nextId) (ho : s.cdp id = some c0)
    (hn : s'.nextId = s.nextId) (hc : s'.cdp = upd s.cdp id (some c2)) (hty : c2.ty = c0.ty) (ty : Nat) :
    sumDebt s' ty = sumDebt s ty + (if c0.ty = ty then (c2.prin + c2.fees) - (c0.prin + c0.fees) else 0) := by
  rw [sumDebt_upd ty hlt hn hc, ho]
  simp only [debtIn, hty]
  split <;> omega

theorem sumDebt_remove {s s' : St} {id : Nat} {c0 : Cdp} (hlt : id < s.nextId) (ho : s.cdp id = some c0)
    (hn : s'.nextId = s.nextId) (hc : s'.cdp = upd s.cdp id none) (ty : Nat) :
    sumDebt s' ty = sumDebt s ty - (if c0.ty = ty then c0.prin + c0.fees else 0) := by
  rw [sumDebt_upd ty hlt hn hc, ho]
  simp only [debtIn]
  omega

theorem sendDeps_frame (id : Nat) (cd : Denom) (tgt : Acct → Acct) : ∀ (l : List (Acct × Int)) (a b : St),
    sendDeps a id cd tgt l = some b → b.cdp = a.cdp ∧ b.nextId = a.nextId ∧ b.tprin = a.tprin := by
  intro l
  induction l with
  | nil => intro a b hh; simp only [sendDeps] at hh; cases hh; exact ⟨rfl, rfl, rfl⟩
  | cons hd tl ih =>
    obtain ⟨x, amt⟩ := hd
    intro a b hh
    simp only [sendDeps] at hh
    split at hh
    · cases hh
    rename_i a1 ha1
    obtain ⟨Fa, -⟩ := sendB_frame ha1
    obtain ⟨i1, i2, i3⟩ := ih _ b hh
    exact ⟨i1.trans Fa.cdp, i2.trans Fa.nextId, i3.trans Fa.tprin⟩

/-! ### per operation -/

/-- deposit: the total principal is untouched; the debt side grows by the interest `SynchronizeInterest`
    booked on the CDP (`c1.fees − c0.fees`) -/
theorem deposit_drift {E : Env} {g : Int} {now : Int} {s s' : St} {owner depositor : Acct} {ty : Nat} {c : Int} {cd : Denom}
    (hI : Inv E g s) (h : deposit E now s owner depositor ty c cd = .ok s') :
    ∃ id c0 s1 c1, findCdp s owner ty = some (id, c0) ∧ syncInterest E now s id c0 = .ok (s1, c1) ∧
      s'.tprin = s.tprin ∧ ∀ t, sumDebt s' t = sumDebt s t + (if t = ty then c1.fees - c0.fees else 0) := by
  unfold deposit at h
  split at h
  · cases h
  split at h
  · cases h
  split at h
  · cases h
  rename_i id c0 hf
  split at h
  · cases h
  split at h
  · cases h
  · cases h
  rename_i s1 c1 hsync
  split at h
  · cases h
  rename_i s2 hsend
  dsimp only at h
  split at h
  · cases h
  rename_i s4 hupd
  cases h
  obtain ⟨ho, hty0, -⟩ := findCdp_spec hf
  have S := syncInterest_spec ho hsync
  obtain ⟨F2, -⟩ := sendB_frame hsend
  obtain ⟨old, hold, e4⟩ := updateCdpIdx_spec hupd
  subst e4
  refine ⟨id, c0, s1, c1, hf, hsync, by dsimp only; rw [F2.tprin, S.tprin], ?_⟩
  intro t
  have hlt := lt_nextId hI.coll ho
  rw [sumDebt_replace (c2 := { c1 with coll := c1.coll + c }) hlt ho (by dsimp only; rw [F2.nextId, S.nextId])
    (by dsimp only; rw [F2.cdp, S.cdp, upd_upd]) (by dsimp only; exact S.ty) t]
  dsimp only
  rw [hty0, S.prin]
  by_cases ht : t = ty
  · subst ht; simp; omega
  · have : ¬ ty = t := fun e => ht e.symm
    simp [ht, this]

/-- withdraw: as deposit -/
theorem withdraw_drift {E : Env} {g : Int} {now : Int} {s s' : St} {owner depositor : Acct} {ty : Nat} {c : Int} {cd : Denom}
    (hI : Inv E g s) (h : withdraw E now s owner depositor ty c cd = .ok s') :
    ∃ id c0 s1 c1, findCdp s owner ty = some (id, c0) ∧ syncInterest E now s id c0 = .ok (s1, c1) ∧
      s'.tprin = s.tprin ∧ ∀ t, sumDebt s' t = sumDebt s t + (if t = ty then c1.fees - c0.fees else 0) := by
  unfold withdraw at h
  split at h
  · cases h
  split at h
  · cases h
  split at h
  · cases h
  rename_i id c0 hf
  split at h
  · cases h
  split at h
  · cases h
  split at h
  · cases h
  · cases h
  rename_i s1 c1 hsync
  split at h
  · cases h
  · cases h
  split at h
  · cases h
  split at h
  · cases h
  rename_i s2 hsend
  dsimp only at h
  split at h
  · cases h
  rename_i s3 hupd
  cases h
  obtain ⟨ho, hty0, -⟩ := findCdp_spec hf
  have S := syncInterest_spec ho hsync
  obtain ⟨F2, -⟩ := sendB_frame hsend
  obtain ⟨old, hold, e3⟩ := updateCdpIdx_spec hupd
  subst e3
  refine ⟨id, c0, s1, c1, hf, hsync, by dsimp only; rw [F2.tprin, S.tprin], ?_⟩
  intro t
  have hlt := lt_nextId hI.coll ho
  rw [sumDebt_replace (c2 := { c1 with coll := c1.coll - c }) hlt ho (by dsimp only; rw [F2.nextId, S.nextId])
    (by dsimp only; rw [F2.cdp, S.cdp, upd_upd]) (by dsimp only; exact S.ty) t]
  dsimp only
  rw [hty0, S.prin]
  by_cases ht : t = ty
  · subst ht; simp; omega
  · have : ¬ ty = t := fun e => ht e.symm
    simp [ht, this]

/-- draw: total principal and debt side both grow by the drawn amount; the debt side also by the synced interest -/
theorem draw_drift {E : Env} {g : Int} {now : Int} {s s' : St} {owner : Acct} {ty : Nat} {p : Int} {pd : Denom}
    (hI : Inv E g s) (h : draw E now s owner ty p pd = .ok s') :
    ∃ id c0 s1 c1, findCdp s owner ty = some (id, c0) ∧ syncInterest E now s id c0 = .ok (s1, c1) ∧
      (∀ t, s'.tprin t = s.tprin t + (if t = ty then p else 0)) ∧
      ∀ t, sumDebt s' t = sumDebt s t + (if t = ty then c1.fees - c0.fees + p else 0) := by
  unfold draw at h
  split at h
  · cases h
  split at h
  · cases h
  rename_i id c0 hf
  split at h
  · cases h
  split at h
  · cases h
  split at h
  · cases h
  split at h
  · cases h
  split at h
  · cases h
  · cases h
  rename_i s1 c1 hsync
  split at h
  · cases h
  · cases h
  split at h
  · cases h
  dsimp only at h
  split at h
  · cases h
  rename_i s3 hsend
  split at h
  · cases h
  rename_i s6 hupd
  cases h
  obtain ⟨ho, hty0, -⟩ := findCdp_spec hf
  have S := syncInterest_spec ho hsync
  obtain ⟨F, -, -, -⟩ := mint_principal_spec hsend
  obtain ⟨old, hold, e6⟩ := updateCdpIdx_spec hupd
  subst e6
  refine ⟨id, c0, s1, c1, hf, hsync, ?_, ?_⟩
  · intro t
    dsimp only
    rw [F.tprin, S.tprin]
    by_cases ht : t = ty
    · subst ht; simp [upd]
    · simp [upd, ht]
  · intro t
    have hlt := lt_nextId hI.coll ho
    rw [sumDebt_replace (c2 := { c1 with prin := c1.prin + p }) hlt ho (by dsimp only; rw [F.nextId, S.nextId])
      (by dsimp only; rw [F.cdp, S.cdp, upd_upd]) (by dsimp only; exact S.ty) t]
    dsimp only
    rw [hty0, S.prin]
    by_cases ht : t = ty
    · subst ht; simp; omega
    · have : ¬ ty = t := fun e => ht e.symm
      simp [ht, this]

/-- create: both sides grow by the principal -/
theorem create_drift {E : Env} {g : Int} {now : Int} {s s' : St} {owner : Acct} {ty : Nat} {c : Int} {cd : Denom}
    {p : Int} {pd : Denom} (hI : Inv E g s) (h : create E now s owner ty c cd p pd = .ok s') :
    (∀ t, s'.tprin t = s.tprin t + (if t = ty then p else 0)) ∧
    ∀ t, sumDebt s' t = sumDebt s t + (if t = ty then p else 0) := by
  unfold create at h
  split at h
  · cases h
  split at h
  · cases h
  split at h
  · cases h
  split at h
  · cases h
  split at h
  · cases h
  split at h
  · cases h
  split at h
  · cases h
  split at h
  · cases h
  split at h
  · cases h
  · cases h
  split at h
  · cases h
  dsimp only at h
  have F0 : (ensureIfac s ty).cdp = s.cdp ∧ (ensureIfac s ty).nextId = s.nextId ∧ (ensureIfac s ty).tprin = s.tprin := by
    unfold ensureIfac; split <;> exact ⟨rfl, rfl, rfl⟩
  obtain ⟨f0c, f0n, f0t⟩ := F0
  split at h
  · cases h
  rename_i s1 hsend1
  split at h
  · cases h
  rename_i s3 hsend3
  cases h
  obtain ⟨F1, -⟩ := sendB_frame hsend1
  obtain ⟨F, -, -, -⟩ := mint_principal_spec hsend3
  refine ⟨?_, ?_⟩
  · intro t
    dsimp only
    rw [F.tprin, F1.tprin, f0t]
    by_cases ht : t = ty
    · subst ht; simp [upd]
    · simp [upd, ht]
  · intro t
    rw [sumDebt_new (c := (⟨owner, ty, c, p, 0, now, ifacOrOne s ty⟩ : Cdp)) t hI.coll.2.2.2.2 (by dsimp only)
      (by dsimp only; rw [F.cdp, F1.cdp, f0c])]
    simp only [debtIn]
    by_cases ht : t = ty
    · subst ht; simp
    · have : ¬ ty = t := fun e => ht e.symm
      simp [ht, this]

/-- repay: with `amt` = fee payment + principal payment, the total principal falls by `amt` (clamped at 0)
    and the debt side moves by the synced interest minus `amt` (whether the CDP is updated or closed) -/
theorem repay_drift {E : Env} {g : Int} {now : Int} {s s' : St} {owner : Acct} {ty : Nat} {pay : Int} {pd : Denom}
    (hI : Inv E g s) (h : repay E now s owner ty pay pd = .ok s') :
    ∃ id c0 s1 c1, findCdp s owner ty = some (id, c0) ∧ syncInterest E now s id c0 = .ok (s1, c1) ∧
      (∀ t, s'.tprin t = if t = ty then
          (if s.tprin ty - ((calcPayment (c1.prin + c1.fees) c1.fees pay).1 + (calcPayment (c1.prin + c1.fees) c1.fees pay).2) < 0 then 0
           else s.tprin ty - ((calcPayment (c1.prin + c1.fees) c1.fees pay).1 + (calcPayment (c1.prin + c1.fees) c1.fees pay).2))
        else s.tprin t) ∧
      ∀ t, sumDebt s' t = sumDebt s t + (if t = ty then c1.fees - c0.fees -
          ((calcPayment (c1.prin + c1.fees) c1.fees pay).1 + (calcPayment (c1.prin + c1.fees) c1.fees pay).2) else 0) := by
  unfold repay at h
  split at h
  · cases h
  split at h
  · cases h
  split at h
  · cases h
  rename_i id c0 hf
  split at h
  · cases h
  split at h
  · cases h
  split at h
  · cases h
  · cases h
  rename_i s1 c1 hsync
  dsimp only at h
  split at h
  · cases h
  split at h
  · cases h
  rename_i s2 hsend2
  split at h
  · cases h
  rename_i s3 hburn3
  split at h
  · cases h
  rename_i s4 hburn4
  obtain ⟨ho, hty0, -⟩ := findCdp_spec hf
  have S := syncInterest_spec ho hsync
  obtain ⟨F, -, -, -⟩ := repay_bank_spec hsend2 hburn3 hburn4
  have hlt := lt_nextId hI.coll ho
  have hty1 : c1.ty = ty := by rw [S.ty, hty0]
  have htp : ∀ (v : Int) (t : Nat), upd s4.tprin c1.ty v t = if t = ty then v else s.tprin t := by
    intro v t
    rw [hty1, F.tprin, S.tprin]
    by_cases ht : t = ty
    · subst ht; simp [upd]
    · simp [upd, ht]
  split at h
  · rename_i hzero
    split at h
    · cases h
    rename_i s6 hret
    split at h
    · cases h
    rename_i old hold
    cases h
    unfold returnCollateral at hret
    obtain ⟨k1, k2, k3⟩ := sendDeps_frame _ _ _ _ _ _ hret
    dsimp only at k1 k2 k3
    rw [F.cdp] at k1
    rw [F.nextId] at k2
    refine ⟨id, c0, s1, c1, hf, hsync, ?_, ?_⟩
    · intro t
      dsimp only
      rw [k3, htp]
      by_cases ht : t = ty
      · simp only [ht, ite_true]; rw [hty1, F.tprin, S.tprin]
      · simp only [ht, ite_false]
    · intro t
      rw [sumDebt_remove hlt ho (by dsimp only; rw [k2, S.nextId]) (by dsimp only; rw [k1, S.cdp, upd_upd]) t]
      rw [hty0]
      have hp := S.prin
      by_cases ht : t = ty
      · subst ht; simp; omega
      · have : ¬ ty = t := fun e => ht e.symm
        simp [ht, this]
  · split at h
    · cases h
    rename_i s6 hupd
    cases h
    obtain ⟨old, hold, e6⟩ := updateCdpIdx_spec hupd
    subst e6
    refine ⟨id, c0, s1, c1, hf, hsync, ?_, ?_⟩
    · intro t
      dsimp only
      rw [htp]
      by_cases ht : t = ty
      · simp only [ht, ite_true]; rw [hty1, F.tprin, S.tprin]
      · simp only [ht, ite_false]
    · intro t
      rw [sumDebt_replace (c2 := (⟨c1.owner, c1.ty, c1.coll, c1.prin - (calcPayment (c1.prin + c1.fees) c1.fees pay).2,
          c1.fees - (calcPayment (c1.prin + c1.fees) c1.fees pay).1, c1.updated, c1.ifac⟩ : Cdp)) hlt ho
        (by dsimp only; rw [F.nextId, S.nextId]) (by dsimp only; rw [F.cdp, S.cdp, upd_upd]) (by dsimp only; exact S.ty) t]
      dsimp only
      rw [hty0, S.prin]
      by_cases ht : t = ty
      · subst ht; simp; omega
      · have : ¬ ty = t := fun e => ht e.symm
        simp [ht, this]

/-- seizure: the total principal of the CDP's type falls by the CDP's debt (clamped at 0), the debt side by
    exactly that debt -/
theorem seize_drift {E : Env} {s s' : St} {id : Nat} {c : Cdp} {deps : List (Acct × Int)}
    (hlt : id < s.nextId) (ho : s.cdp id = some c) (h : seize E s id c deps = .ok s') :
    (∀ t, s'.tprin t = if t = c.ty then (if s.tprin c.ty - (c.prin + c.fees) < 0 then 0 else s.tprin c.ty - (c.prin + c.fees))
        else s.tprin t) ∧
    ∀ t, sumDebt s' t = sumDebt s t - (if c.ty = t then c.prin + c.fees else 0) := by
  unfold seize at h
  dsimp only at h
  split at h
  · cases h
  rename_i s1 h1
  split at h
  · cases h
  rename_i s2 h2
  split at h
  · cases h
  · cases h
  rename_i s3 h3
  cases h
  obtain ⟨F1, -⟩ := sendB_frame h1
  unfold seizeDeps at h2
  obtain ⟨k1, k2, k3⟩ := sendDeps_frame _ _ _ _ _ _ h2
  have hcd : ∀ (l : List (Acct × Int)) (a b : St) (cd : Denom) (tot d rem : Int), auctionDeps a cd tot d rem l = .ok b →
      b.cdp = a.cdp ∧ b.nextId = a.nextId ∧ b.tprin = a.tprin := by
    intro l
    induction l with
    | nil => intro a b cd tot d rem hh; simp only [auctionDeps] at hh; cases hh; exact ⟨rfl, rfl, rfl⟩
    | cons hd tl ih =>
      obtain ⟨x, amt⟩ := hd
      intro a b cd tot d rem hh
      simp only [auctionDeps] at hh
      split at hh
      · cases hh
      split at hh
      · cases hh
      split at hh
      · cases hh
      rename_i a1 ha1
      split at hh
      · cases hh
      rename_i a2 ha2
      obtain ⟨Fa, -⟩ := sendB_frame ha1
      obtain ⟨Fb, -⟩ := sendB_frame ha2
      obtain ⟨i1, i2, i3⟩ := ih _ b _ _ _ _ hh
      exact ⟨(i1.trans Fb.cdp).trans Fa.cdp, (i2.trans Fb.nextId).trans Fa.nextId, (i3.trans Fb.tprin).trans Fa.tprin⟩
  obtain ⟨a1, a2, a3⟩ := hcd _ _ _ _ _ _ _ h3
  have ec : s3.cdp = s.cdp := (a1.trans k1).trans F1.cdp
  have en : s3.nextId = s.nextId := (a2.trans k2).trans F1.nextId
  have et : s3.tprin = s.tprin := (a3.trans k3).trans F1.tprin
  refine ⟨?_, ?_⟩
  · intro t
    dsimp only
    rw [et]
    by_cases ht : t = c.ty
    · subst ht; simp [upd]
    · simp [upd, ht]
  · intro t
    exact sumDebt_remove hlt ho (by dsimp only; exact en) (by dsimp only; rw [ec]) t

/-- one step of the bulk interest synchronisation: total principal untouched, the debt side grows by the
    interest booked on that CDP -/
theorem syncOne_drift {E : Env} {g : Int} {s s' : St} {ty : Nat} {cp : CollParam} {gf : Dec} {prev : Int} {id : Nat}
    (hI : Inv E g s) (h : syncOne E s ty cp gf prev id = .ok s') :
    ∃ c, s.cdp id = some c ∧ c.ty = ty ∧ s'.tprin = s.tprin ∧
      ((s' = s) ∨ ∀ t, sumDebt s' t = sumDebt s t + (if t = ty then bulkInterest gf c else 0)) := by
  unfold syncOne at h
  split at h
  · cases h
  rename_i c ho
  split at h
  · cases h
  rename_i hty
  have hty' : c.ty = ty := Decidable.of_not_not hty
  split at h
  · cases h
  dsimp only at h
  split at h
  · cases h; exact ⟨c, ho, hty', rfl, Or.inl rfl⟩
  cases h
  refine ⟨c, ho, hty', rfl, Or.inr ?_⟩
  intro t
  have hlt := lt_nextId hI.coll ho
  have key : ∀ s'' : St, s''.nextId = s.nextId →
      s''.cdp = upd s.cdp id (some (⟨c.owner, c.ty, c.coll, c.prin, c.fees + bulkInterest gf c, prev, gf⟩ : Cdp)) →
      sumDebt s'' t = sumDebt s t + (if c.ty = t then
        ((⟨c.owner, c.ty, c.coll, c.prin, c.fees + bulkInterest gf c, prev, gf⟩ : Cdp).prin +
         (⟨c.owner, c.ty, c.coll, c.prin, c.fees + bulkInterest gf c, prev, gf⟩ : Cdp).fees) - (c.prin + c.fees) else 0) :=
    fun s'' hn hc => sumDebt_replace hlt ho hn hc rfl t
  refine (key _ ?_ ?_).trans ?_
  · rfl
  · rfl
  dsimp only
  rw [hty']
  by_cases ht : t = ty
  · subst ht; simp; omega
  · have : ¬ ty = t := fun e => ht e.symm
    simp [ht, this]

theorem sumDebt_pointwise {s s' : St} {id : Nat} (ty : Nat) (hlt : id < s.nextId) (hn : s'.nextId = s.nextId)
    (hoth : ∀ j, j ≠ id → s'.cdp j = s.cdp j) :
    sumDebt s' ty = sumDebt s ty - debtIn ty (s.cdp id) + debtIn ty (s'.cdp id) := by
  refine sumDebt_upd ty hlt hn ?_
  funext j
  by_cases hj : j = id
  · subst hj; rw [upd_same]
  · rw [upd_other _ _ _ _ hj]; exact hoth j hj

/-- keeper liquidation: the total principal falls by the synchronised debt (clamped at 0); the CDP's recorded
    debt leaves the debt side -/
theorem liquidate_drift {E : Env} {g : Int} {now : Int} {s s' : St} {keeper owner : Acct} {ty : Nat}
    (hW : WF E) (hI : Inv E g s) (hk : (3 : Nat) ≤ keeper)
    (h : liquidate E now s keeper owner ty = .ok s') :
    ∃ id c0 s1 c1, findCdp s owner ty = some (id, c0) ∧ syncInterest E now s id c0 = .ok (s1, c1) ∧
      (∀ t, s'.tprin t = if t = ty then (if s.tprin ty - (c1.prin + c1.fees) < 0 then 0 else s.tprin ty - (c1.prin + c1.fees))
          else s.tprin t) ∧
      ∀ t, sumDebt s' t = sumDebt s t - (if t = ty then c0.prin + c0.fees else 0) := by
  have hInv' := liquidate_inv hW hI hk h
  obtain ⟨cp, id, c0, s1, c1, r, hcp, hf, hsync, -, -, hgone, -⟩ := liquidate_sound hW hI hk h
  obtain ⟨ho, hty0, -⟩ := findCdp_spec hf
  have S := syncInterest_spec ho hsync
  have hlt := lt_nextId hI.coll ho
  have ho1 := sync_cdp_id S
  have hty1 : c1.ty = ty := by rw [S.ty, hty0]
  unfold liquidate at h
  split at h
  · cases h
  rw [hf] at h
  dsimp only at h
  rw [hsync] at h
  dsimp only at h
  rw [hcp] at h
  dsimp only at h
  split at h
  · cases h
  · cases h
  split at h
  · cases h
  have hlt1 : id < s1.nextId := by rw [S.nextId]; exact hlt
  -- both exits end in a seizure of CDP `id` whose record carries c1's debt and type, from a state whose
  -- table differs from `s` only at `id` and whose total principal is that of `s`
  have fin : ∀ (s4 : St) (c2 : Cdp) (deps : List (Acct × Int)), s4.cdp id = some c2 → s4.nextId = s.nextId →
      (∀ j, j ≠ id → s4.cdp j = s.cdp j) → s4.tprin = s.tprin → c2.ty = ty → c2.prin + c2.fees = c1.prin + c1.fees →
      seize E s4 id c2 deps = .ok s' →
      (∀ t, s'.tprin t = if t = ty then (if s.tprin ty - (c1.prin + c1.fees) < 0 then 0 else s.tprin ty - (c1.prin + c1.fees))
          else s.tprin t) ∧
      ∀ t, sumDebt s' t = sumDebt s t - (if t = ty then c0.prin + c0.fees else 0) := by
    intro s4 c2 deps h4 hn4 hoth4 ht4 hty2 hd2 hsz
    obtain ⟨d1, d2⟩ := seize_drift (by rw [hn4]; exact hlt) h4 hsz
    refine ⟨?_, ?_⟩
    · intro t
      rw [d1 t, hty2, ht4, hd2]
    · intro t
      have hn' : s'.nextId = s.nextId := by
        have := hInv'.coll
        -- nextId is not changed by a seizure
        unfold seize at hsz
        dsimp only at hsz
        split at hsz
        · cases hsz
        rename_i x1 y1
        split at hsz
        · cases hsz
        rename_i x2 y2
        split at hsz
        · cases hsz
        · cases hsz
        rename_i x3 y3
        cases hsz
        obtain ⟨F1, -⟩ := sendB_frame y1
        unfold seizeDeps at y2
        obtain ⟨-, k2, -⟩ := sendDeps_frame _ _ _ _ _ _ y2
        have hcd : ∀ (l : List (Acct × Int)) (a b : St) (cd : Denom) (tot d rem : Int), auctionDeps a cd tot d rem l = .ok b →
            b.nextId = a.nextId := by
          intro l
          induction l with
          | nil => intro a b cd tot d rem hh; simp only [auctionDeps] at hh; cases hh; rfl
          | cons hd tl ih =>
            obtain ⟨x, amt⟩ := hd
            intro a b cd tot d rem hh
            simp only [auctionDeps] at hh
            split at hh
            · cases hh
            split at hh
            · cases hh
            split at hh
            · cases hh
            rename_i a1 ha1
            split at hh
            · cases hh
            rename_i a2 ha2
            obtain ⟨Fa, -⟩ := sendB_frame ha1
            obtain ⟨Fb, -⟩ := sendB_frame ha2
            exact ((ih _ b _ _ _ _ hh).trans Fb.nextId).trans Fa.nextId
        dsimp only
        rw [hcd _ _ _ _ _ _ _ y3, k2, F1.nextId, hn4]
      have hoth' : ∀ j, j ≠ id → s'.cdp j = s.cdp j := by
        intro j hj
        -- from the debt-side equation of the seizure we only need the table: re-derive it from `seize_drift`'s source
        have := d2
        -- the seizure only deletes entry `id`
        unfold seize at hsz
        dsimp only at hsz
        split at hsz
        · cases hsz
        rename_i x1 y1
        split at hsz
        · cases hsz
        rename_i x2 y2
        split at hsz
        · cases hsz
        · cases hsz
        rename_i x3 y3
        cases hsz
        obtain ⟨F1, -⟩ := sendB_frame y1
        unfold seizeDeps at y2
        obtain ⟨k1, -, -⟩ := sendDeps_frame _ _ _ _ _ _ y2
        have hcd : ∀ (l : List (Acct × Int)) (a b : St) (cd : Denom) (tot d rem : Int), auctionDeps a cd tot d rem l = .ok b →
            b.cdp = a.cdp := by
          intro l
          induction l with
          | nil => intro a b cd tot d rem hh; simp only [auctionDeps] at hh; cases hh; rfl
          | cons hd tl ih =>
            obtain ⟨x, amt⟩ := hd
            intro a b cd tot d rem hh
            simp only [auctionDeps] at hh
            split at hh
            · cases hh
            split at hh
            · cases hh
            split at hh
            · cases hh
            rename_i a1 ha1
            split at hh
            · cases hh
            rename_i a2 ha2
            obtain ⟨Fa, -⟩ := sendB_frame ha1
            obtain ⟨Fb, -⟩ := sendB_frame ha2
            exact ((ih _ b _ _ _ _ hh).trans Fb.cdp).trans Fa.cdp
        dsimp only
        rw [upd_other _ _ _ _ hj, hcd _ _ _ _ _ _ _ y3, k1, F1.cdp]
        exact hoth4 j hj
      rw [sumDebt_pointwise t hlt hn' hoth', ho, hgone]
      simp only [debtIn]
      rw [hty0]
      by_cases ht : t = ty
      · subst ht; simp
      · have : ¬ ty = t := fun e => ht e.symm
        simp [ht, this]
  have hoth1 : ∀ j, j ≠ id → s1.cdp j = s.cdp j := by
    intro j hj; rw [S.cdp, upd_other _ _ _ _ hj]
  split at h
  · exact ⟨id, c0, s1, c1, hf, hsync, fin s1 c1 _ ho1 S.nextId hoth1 S.tprin hty1 rfl h⟩
  · rename_i a deps' hpay
    split at h
    · cases h
    rename_i s3 hsend
    split at h
    · cases h
    rename_i s4 hupd
    obtain ⟨F3, -⟩ := sendB_frame hsend
    obtain ⟨old, hold, e4⟩ := updateCdpIdx_spec hupd
    refine ⟨id, c0, s1, c1, hf, hsync, fin s4
      (⟨c1.owner, c1.ty, c1.coll - rewardOf c1.coll cp.keeperReward, c1.prin, c1.fees, c1.updated, c1.ifac⟩ : Cdp) deps'
      (by rw [e4]; dsimp only; rw [upd_same]) (by rw [e4]; dsimp only; rw [F3.nextId, S.nextId])
      ?_ (by rw [e4]; dsimp only; rw [F3.tprin, S.tprin]) hty1 rfl h⟩
    intro j hj
    rw [e4]; dsimp only
    rw [upd_other _ _ _ _ hj, F3.cdp]; exact hoth1 j hj

end KV.Cdp
