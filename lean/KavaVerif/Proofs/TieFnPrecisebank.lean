/-
  Source tie ("tie 1b") for x/precisebank/keeper/send.go: the Lean definitions REGENERATED from the Go source on every run
  (Generated/FnPrecisebank.lean, tools/extract/fn*.go) equal the hand-written model functions the C03 theorems are
  about.  An edit of a Go function changes the generated definition and its equality proof stops checking.
-/
import KavaVerif.Generated.FnPrecisebank
import KavaVerif.Model.Precisebank
import KavaVerif.Proofs.TieFnBase
set_option linter.unusedSimpArgs false

namespace KV.TieFn
open KV KV.Go

/-- `subFromFractionalBalance` = (`subFrac`, borrow flag) on the domain the Go function accepts (both operands below the
    conversion factor; otherwise it panics, and the model only applies `subFrac` to stored fractional balances and
    `amt % C`) -/
theorem precisebank_subFromFractionalBalance (cur amt : Int) (h1 : cur < KV.PB.C) (h2 : amt < KV.PB.C) :
    GoFn.Precisebank.subFromFractionalBalance_translated = true ∧
    GoFn.Precisebank.subFromFractionalBalance cur amt = R.ok (KV.PB.subFrac cur amt, decide (cur - amt < 0)) := by
  refine ⟨rfl, ?_⟩
  have h1' : ¬ (1000000000000 ≤ cur) := by unfold KV.PB.C KV.Gen.pbConversionFactor at h1; omega
  have h2' : ¬ (1000000000000 ≤ amt) := by unfold KV.PB.C KV.Gen.pbConversionFactor at h2; omega
  simp only [GoFn.Precisebank.subFromFractionalBalance, GoFn.Precisebank.ConversionFactor, KV.PB.subFrac]
  unfold KV.PB.C KV.Gen.pbConversionFactor
  tie_norm
  tie_split

/-- `addToFractionalBalance` = (`addFrac`, carry flag), same domain -/
theorem precisebank_addToFractionalBalance (cur amt : Int) (h1 : cur < KV.PB.C) (h2 : amt < KV.PB.C) :
    GoFn.Precisebank.addToFractionalBalance_translated = true ∧
    GoFn.Precisebank.addToFractionalBalance cur amt = R.ok (KV.PB.addFrac cur amt, decide (cur + amt ≥ KV.PB.C)) := by
  refine ⟨rfl, ?_⟩
  have h1' : ¬ (1000000000000 ≤ cur) := by unfold KV.PB.C KV.Gen.pbConversionFactor at h1; omega
  have h2' : ¬ (1000000000000 ≤ amt) := by unfold KV.PB.C KV.Gen.pbConversionFactor at h2; omega
  simp only [GoFn.Precisebank.addToFractionalBalance, GoFn.Precisebank.ConversionFactor, KV.PB.addFrac]
  unfold KV.PB.C KV.Gen.pbConversionFactor
  tie_norm
  tie_split

end KV.TieFn
