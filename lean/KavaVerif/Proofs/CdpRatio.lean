/-
  C05 helper lemmas: 18-decimal rounding facts about the two formulations of the liquidation boundary
  (value ratio vs. inverted price-normalised index ratio).  Core Lean only.
-/
import KavaVerif.Model.Cdp
set_option linter.unusedVariables false
set_option linter.unusedSimpArgs false

namespace KV.Cdp
open KV

theorem P_pos : 0 < P := by decide
theorem P_val : P = 1000000000000000000 := by decide
theorem H_val : H = 500000000000000000 := by decide

/-! ### floor / rounding facts -/

theorem floor_spec (a b : Int) (ha : 0 ≤ a) (hb : 0 < b) :
    tquo a b = a / b ∧ 0 ≤ a / b ∧ a / b * b ≤ a ∧ a < (a / b + 1) * b := by
  refine ⟨tquo_nonneg_eq a b ha (by omega), Int.ediv_nonneg ha (by omega), Int.ediv_mul_le a (by omega), ?_⟩
  exact Int.lt_ediv_add_one_mul_self a hb

theorem chopRound_nonneg_bound (d : Int) (hd : 0 ≤ d) :
    2 * (chopRound d * P - d) ≤ P ∧ 2 * (d - chopRound d * P) ≤ P := by
  have : chopRound d = chopRoundNonneg d := by
    unfold chopRound; simp only [show ¬ d < 0 by omega, ite_false]
  rw [this]; exact chopRoundNonneg_bound d hd

/-- `Dec.quo` on a non-negative numerator and positive denominator: floor to 36 places, then round -/
theorem quo_spec (a b : Dec) (ha : 0 ≤ a.m) (hb : 0 < b.m) :
    ∃ T, 0 ≤ T ∧ T * b.m ≤ a.m * P * P ∧ a.m * P * P < (T + 1) * b.m ∧
      2 * ((Dec.quo a b).m * P - T) ≤ P ∧ 2 * (T - (Dec.quo a b).m * P) ≤ P ∧
      0 ≤ (Dec.quo a b).m := by
  have hnum : 0 ≤ a.m * P * P := Int.mul_nonneg (Int.mul_nonneg ha (by decide)) (by decide)
  obtain ⟨e, h0, h1, h2⟩ := floor_spec (a.m * P * P) b.m hnum hb
  refine ⟨a.m * P * P / b.m, h0, h1, h2, ?_⟩
  have hb := chopRound_nonneg_bound (a.m * P * P / b.m) h0
  have hnn := chopRound_nonneg (a.m * P * P / b.m) h0
  simp only [Dec.quo, e]
  exact ⟨hb.1, hb.2, hnn⟩

theorem mul_spec (a b : Dec) (hab : 0 ≤ a.m * b.m) :
    2 * ((Dec.mul a b).m * P - a.m * b.m) ≤ P ∧ 2 * (a.m * b.m - (Dec.mul a b).m * P) ≤ P ∧
    0 ≤ (Dec.mul a b).m := by
  have hb := chopRound_nonneg_bound (a.m * b.m) hab
  exact ⟨hb.1, hb.2, chopRound_nonneg _ hab⟩

/-- `baseUnits` is exact: amount · 10^(18 − cf) -/
theorem baseUnits_m (amt : Int) (cf : Nat) : (baseUnits amt cf).m = amt * 10 ^ (18 - cf) := by
  simp only [baseUnits, Dec.mul, Dec.ofInt]
  rw [Int.mul_right_comm]
  exact chopRound_mul_P _

theorem baseUnits_add (a b : Int) (cf : Nat) :
    (baseUnits a cf).m + (baseUnits b cf).m = (baseUnits (a + b) cf).m := by
  simp only [baseUnits_m, Int.add_mul]

theorem pow10_pos (n : Nat) : (0 : Int) < 10 ^ n := Int.pow_pos (by decide)

theorem baseUnits_nonneg (amt : Int) (cf : Nat) (h : 0 ≤ amt) : 0 ≤ (baseUnits amt cf).m := by
  rw [baseUnits_m]; exact Int.mul_nonneg h (Int.le_of_lt (pow10_pos _))

theorem baseUnits_pos (amt : Int) (cf : Nat) (h : 0 < amt) : 0 < (baseUnits amt cf).m := by
  rw [baseUnits_m]; exact Int.mul_pos h (pow10_pos _)

/-- the two separately written index-ratio routines agree (helper path vs bulk path) -/
theorem c2dBulk_eq (c : Int) (cf : Nat) (debt : Int) (dcf : Nat) : c2dBulk c cf debt dcf = c2d c cf debt dcf := by
  rfl

theorem maxSortable_m : maxSortable.m = 1000000000000000000000000000000000000 := by decide

theorem sortKey_lt_imp (a b : Dec) (h : sortKey a < sortKey b) : a.m < b.m := by
  unfold sortKey at h
  split at h <;> split at h <;> omega

/-! ### the integer core of the block-liquidation bound -/

/-- every hypothesis is a floor or a rounding fact about one `Dec` operation of the two formulations -/
theorem block_core (Pp C D p L T R T1 q T2 N V T3 CR : Int)
    (hP : 0 < Pp) (hD : Pp ≤ D) (hp : 0 < p) (hpU : p ≤ Pp * Pp) (hL : 0 < L) (hq : 0 < q)
    (f1 : C * Pp * Pp < (T + 1) * D)
    (r1 : 2 * T ≤ 2 * (R * Pp) + Pp)
    (hRN : R + 1 ≤ N)
    (r3 : 2 * (N * Pp) - Pp ≤ 2 * T2)
    (f3 : T2 * q ≤ Pp * Pp * Pp)
    (r2 : 2 * T1 - Pp ≤ 2 * (q * Pp))
    (f2 : p * Pp * Pp < (T1 + 1) * L)
    (r5 : 2 * (CR * Pp) ≤ 2 * T3 + Pp)
    (f4 : T3 * D ≤ V * Pp * Pp)
    (r4 : 2 * (V * Pp) ≤ 2 * (C * p) + Pp)
    (hM : 0 < 2 * p * Pp * Pp - L * Pp - 2 * L) :
    (CR - 2 - L) * (2 * p * Pp * Pp - L * Pp - 2 * L) < L * L * (Pp + 2) := by
  have hDpos : 0 < D := by omega
  have a1 : 2 * (T + 1) ≤ 2 * (N * Pp) - Pp + 2 := by
    have : (R + 1) * Pp ≤ N * Pp := Int.mul_le_mul_of_nonneg_right hRN (by omega)
    grind
  have a2 : 2 * (T + 1) * D ≤ (2 * (N * Pp) - Pp + 2) * D := Int.mul_le_mul_of_nonneg_right a1 (by omega)
  have a3 : 2 * (C * Pp * Pp) < (2 * (N * Pp) - Pp + 2) * D := by grind
  have b1 : (2 * (N * Pp) - Pp) * q ≤ 2 * T2 * q := Int.mul_le_mul_of_nonneg_right r3 (by omega)
  have b2 : (2 * (N * Pp) - Pp) * q ≤ 2 * (Pp * Pp * Pp) := by grind
  have a4 : 2 * (C * Pp * Pp) * q < (2 * (N * Pp) - Pp + 2) * D * q := Int.mul_lt_mul_of_pos_right a3 hq
  have b3 : (2 * (N * Pp) - Pp) * q * D ≤ 2 * (Pp * Pp * Pp) * D := Int.mul_le_mul_of_nonneg_right b2 (by omega)
  have a5 : C * Pp * Pp * q < (Pp * Pp * Pp + q) * D := by grind
  have c1 : (2 * T1 - Pp) * L ≤ 2 * (q * Pp) * L := Int.mul_le_mul_of_nonneg_right r2 (by omega)
  have c2 : 2 * p * Pp * Pp - L * Pp - 2 * L < 2 * (q * Pp) * L := by grind
  have d1 : 2 * (CR * Pp) * D ≤ (2 * T3 + Pp) * D := Int.mul_le_mul_of_nonneg_right r5 (by omega)
  have d2 : 2 * (V * Pp) * Pp ≤ (2 * (C * p) + Pp) * Pp := Int.mul_le_mul_of_nonneg_right r4 (by omega)
  have d3 : (2 * (CR * D)) * Pp ≤ (2 * (C * p) + Pp + D) * Pp := by grind
  have d4 : 2 * (CR * D) ≤ 2 * (C * p) + Pp + D := Int.le_of_mul_le_mul_right d3 hP
  have d5 : (CR - 1) * D ≤ C * p := by grind
  have hPPq : 0 ≤ Pp * Pp * q := Int.mul_nonneg (Int.mul_nonneg (by omega) (by omega)) (by omega)
  have e1 : (CR - 1) * D * (Pp * Pp * q) ≤ C * p * (Pp * Pp * q) := Int.mul_le_mul_of_nonneg_right d5 hPPq
  have e2 : C * Pp * Pp * q * p < (Pp * Pp * Pp + q) * D * p := Int.mul_lt_mul_of_pos_right a5 hp
  have e3 : p * q ≤ Pp * Pp * q := Int.mul_le_mul_of_nonneg_right hpU (by omega)
  have e4 : ((CR - 2) * (Pp * Pp) * q) * D < (p * (Pp * Pp * Pp)) * D := by
    have : (Pp * Pp * q) * D ≥ p * q * D := Int.mul_le_mul_of_nonneg_right e3 (by omega)
    grind
  have e5 : (CR - 2) * (Pp * Pp) * q < p * (Pp * Pp * Pp) := Int.lt_of_mul_lt_mul_right e4 (by omega)
  have hPP : 0 < Pp * Pp := Int.mul_pos hP hP
  have e6 : ((CR - 2) * q) * (Pp * Pp) < (p * Pp) * (Pp * Pp) := by grind
  have e7 : (CR - 2) * q < p * Pp := Int.lt_of_mul_lt_mul_right e6 (by omega)
  by_cases hX : CR - 2 ≤ 0
  · have : (CR - 2 - L) * (2 * p * Pp * Pp - L * Pp - 2 * L) ≤ 0 :=
      Int.mul_nonpos_of_nonpos_of_nonneg (by omega) (by omega)
    have : 0 < L * L * (Pp + 2) := Int.mul_pos (Int.mul_pos hL hL) (by omega)
    omega
  · have hXpos : 0 < CR - 2 := by omega
    have g1 : (2 * p * Pp * Pp - L * Pp - 2 * L) * (CR - 2) < 2 * (q * Pp) * L * (CR - 2) :=
      Int.mul_lt_mul_of_pos_right c2 hXpos
    have hPL : 0 < 2 * Pp * L := Int.mul_pos (by omega) hL
    have g2 : (CR - 2) * q * (2 * Pp * L) < p * Pp * (2 * Pp * L) := Int.mul_lt_mul_of_pos_right e7 hPL
    grind

/-- The bound on mantissas: if the index ratio `quo(C, D)` is below `normRatio(price, L)` then the
    value ratio `quo(mul(C, price), D)` exceeds `L` by at most `2 + L²(P+2)/(2·price·P² − L·P − 2L)` ulp. -/
theorem block_bound_m (C D p L : Dec) (hC : 0 ≤ C.m) (hD : P ≤ D.m) (hp : 0 < p.m) (hpU : p.m ≤ P * P)
    (hL : 0 < L.m) (hM : 0 < 2 * p.m * P * P - L.m * P - 2 * L.m)
    (hsel : (Dec.quo C D).m < (normRatio p L).m) :
    ((Dec.quo (Dec.mul C p) D).m - 2 - L.m) * (2 * p.m * P * P - L.m * P - 2 * L.m) < L.m * L.m * (P + 2) := by
  have hDpos : 0 < D.m := by have := P_pos; omega
  obtain ⟨T, hT0, f1a, f1, r1a, r1, hR0⟩ := quo_spec C D hC hDpos
  obtain ⟨T1, hT10, f2a, f2, r2a, r2, hq0⟩ := quo_spec p L (by omega) hL
  -- q = max(price / L, 1 ulp)
  let qd : Dec := if (Dec.quo p L).m = 0 then Dec.smallest else Dec.quo p L
  have hqd : normRatio p L = Dec.quo Dec.one qd := rfl
  have hq : 0 < qd.m := by
    show 0 < (if (Dec.quo p L).m = 0 then Dec.smallest else Dec.quo p L).m
    split
    · decide
    · omega
  have hqge : (Dec.quo p L).m ≤ qd.m := by
    show _ ≤ (if (Dec.quo p L).m = 0 then Dec.smallest else Dec.quo p L).m
    split
    · rename_i h0; rw [h0]; decide
    · omega
  rw [hqd] at hsel
  obtain ⟨T2, hT20, f3, f3b, r3, r3b, hN0⟩ := quo_spec Dec.one qd (by decide) hq
  have h1m : Dec.one.m = P := rfl
  rw [h1m] at f3 f3b
  have hCp : 0 ≤ C.m * p.m := Int.mul_nonneg hC (by omega)
  obtain ⟨r4, r4b, hV0⟩ := mul_spec C p hCp
  obtain ⟨T3, hT30, f4, f4b, r5, r5b, hCR0⟩ := quo_spec (Dec.mul C p) D hV0 hDpos
  have hqP : (Dec.quo p L).m * P ≤ qd.m * P := Int.mul_le_mul_of_nonneg_right hqge (by decide)
  exact block_core P C.m D.m p.m L.m T (Dec.quo C D).m T1 qd.m T2 (Dec.quo Dec.one qd).m (Dec.mul C p).m T3
    (Dec.quo (Dec.mul C p) D).m P_pos hD hp hpU hL hq f1 (by omega) (by omega) (by omega) f3
    (by omega) f2 (by omega) f4 (by omega) hM

/-! ### the reverse direction: what the range scan cannot miss -/

/-- integer core: if the index ratio is NOT below the normalised ratio then the value ratio is at least
    `L − 2 − L²/(price·P + L) − price·(P+1)/P²` (mantissa units) -/
theorem block_core_rev (Pp C D p L T R T1 q T2 N V T3 CR : Int)
    (hP : 0 < Pp) (hD : Pp ≤ D) (hp : 0 < p) (hL : 0 < L) (hq : 0 < q) (hC : 0 ≤ C)
    (f1 : T * D ≤ C * Pp * Pp)
    (r1 : 2 * (R * Pp) ≤ 2 * T + Pp)
    (hNR : N ≤ R)
    (r3 : 2 * T2 ≤ 2 * (N * Pp) + Pp)
    (f3 : Pp * Pp * Pp < (T2 + 1) * q)
    (r2 : 2 * (q * Pp) ≤ 2 * T1 + 2 * Pp)
    (f2 : T1 * L ≤ p * Pp * Pp)
    (r5 : 2 * T3 ≤ 2 * (CR * Pp) + Pp)
    (f4 : V * Pp * Pp < (T3 + 1) * D)
    (r4 : 2 * (C * p) ≤ 2 * (V * Pp) + Pp) :
    p * (Pp * Pp * Pp * L - (Pp + 1) * (p * Pp + L)) < (CR + 2) * (Pp * Pp) * (p * Pp + L) := by
  have hDpos : 0 < D := by omega
  -- (1),(2): P³ < (T + P + 1)·q
  have a0 : N * Pp ≤ R * Pp := Int.mul_le_mul_of_nonneg_right hNR (by omega)
  have a1 : 2 * (T2 + 1) ≤ 2 * T + 2 * Pp + 2 := by omega
  have a2 : 2 * (T2 + 1) * q ≤ (2 * T + 2 * Pp + 2) * q := Int.mul_le_mul_of_nonneg_right a1 (by omega)
  have a3 : Pp * Pp * Pp < (T + Pp + 1) * q := by grind
  -- (3): × D
  have a4 : Pp * Pp * Pp * D < (T + Pp + 1) * q * D := Int.mul_lt_mul_of_pos_right a3 hDpos
  have a5 : T * D * q ≤ C * Pp * Pp * q := Int.mul_le_mul_of_nonneg_right f1 (by omega)
  have a6 : Pp * Pp * Pp * D < (C * Pp * Pp + (Pp + 1) * D) * q := by grind
  -- (4): q·L ≤ p·P + L
  have b1 : (2 * (q * Pp)) * L ≤ (2 * T1 + 2 * Pp) * L := Int.mul_le_mul_of_nonneg_right r2 (by omega)
  have b2 : (q * L) * Pp ≤ (p * Pp + L) * Pp := by grind
  have b3 : q * L ≤ p * Pp + L := Int.le_of_mul_le_mul_right b2 hP
  -- (5): × L
  have hK : 0 ≤ C * Pp * Pp + (Pp + 1) * D :=
    Int.add_nonneg (Int.mul_nonneg (Int.mul_nonneg hC (by omega)) (by omega)) (Int.mul_nonneg (by omega) (by omega))
  have c1 : Pp * Pp * Pp * D * L < (C * Pp * Pp + (Pp + 1) * D) * q * L := Int.mul_lt_mul_of_pos_right a6 hL
  have c2 : (C * Pp * Pp + (Pp + 1) * D) * (q * L) ≤ (C * Pp * Pp + (Pp + 1) * D) * (p * Pp + L) :=
    Int.mul_le_mul_of_nonneg_left b3 hK
  have c3 : Pp * Pp * Pp * D * L < (C * Pp * Pp + (Pp + 1) * D) * (p * Pp + L) := by grind
  -- (6): C·p ≤ (CR + 2)·D
  have d1 : 2 * (T3 + 1) * D ≤ (2 * (CR * Pp) + Pp + 2) * D := Int.mul_le_mul_of_nonneg_right (by omega) (by omega)
  have d2 : 2 * (C * p) * Pp ≤ (2 * (V * Pp) + Pp) * Pp := Int.mul_le_mul_of_nonneg_right r4 (by omega)
  have d3 : Pp * Pp ≤ Pp * D := Int.mul_le_mul_of_nonneg_left hD (by omega)
  have d4 : D ≤ Pp * D := by
    have : 1 * D ≤ Pp * D := Int.mul_le_mul_of_nonneg_right (by omega) (by omega)
    omega
  have d5 : (C * p) * Pp ≤ ((CR + 2) * D) * Pp := by grind
  have d6 : C * p ≤ (CR + 2) * D := Int.le_of_mul_le_mul_right d5 hP
  -- (7)
  have hW : 0 ≤ Pp * Pp * (p * Pp + L) :=
    Int.mul_nonneg (Int.mul_nonneg (by omega) (by omega)) (Int.add_nonneg (Int.mul_nonneg (by omega) (by omega)) (by omega))
  have e1 : C * p * (Pp * Pp * (p * Pp + L)) ≤ (CR + 2) * D * (Pp * Pp * (p * Pp + L)) :=
    Int.mul_le_mul_of_nonneg_right d6 hW
  have e2 : Pp * Pp * Pp * D * L * p < (C * Pp * Pp + (Pp + 1) * D) * (p * Pp + L) * p := Int.mul_lt_mul_of_pos_right c3 hp
  have e3 : (p * (Pp * Pp * Pp * L - (Pp + 1) * (p * Pp + L))) * D < ((CR + 2) * (Pp * Pp) * (p * Pp + L)) * D := by grind
  exact Int.lt_of_mul_lt_mul_right e3 (by omega)

/-- on mantissas: a CDP that the block liquidator's scan does not reach has
    `(CR + 2)·P²·(price·P + L) > price·(P³·L − (P+1)(price·P + L))`, i.e.
    `CR > L − ε'` with `ε' = 2 + L²/(price·P + L) + price·(P+1)/P²` ulp -/
theorem block_bound_rev_m (C D p L : Dec) (hC : 0 ≤ C.m) (hD : P ≤ D.m) (hp : 0 < p.m) (hL : 0 < L.m)
    (hnsel : ¬ (Dec.quo C D).m < (normRatio p L).m) :
    p.m * (P * P * P * L.m - (P + 1) * (p.m * P + L.m)) <
      ((Dec.quo (Dec.mul C p) D).m + 2) * (P * P) * (p.m * P + L.m) := by
  have hDpos : 0 < D.m := by have := P_pos; omega
  obtain ⟨T, hT0, f1a, f1, r1a, r1, hR0⟩ := quo_spec C D hC hDpos
  obtain ⟨T1, hT10, f2a, f2, r2a, r2, hq0⟩ := quo_spec p L (by omega) hL
  let qd : Dec := if (Dec.quo p L).m = 0 then Dec.smallest else Dec.quo p L
  have hqd : normRatio p L = Dec.quo Dec.one qd := rfl
  have hq : 0 < qd.m := by
    show 0 < (if (Dec.quo p L).m = 0 then Dec.smallest else Dec.quo p L).m
    split
    · decide
    · omega
  have hqle : 2 * (qd.m * P) ≤ 2 * T1 + 2 * P := by
    show 2 * ((if (Dec.quo p L).m = 0 then Dec.smallest else Dec.quo p L).m * P) ≤ 2 * T1 + 2 * P
    split
    · have : Dec.smallest.m = 1 := rfl
      rw [this]; omega
    · omega
  rw [hqd] at hnsel
  obtain ⟨T2, hT20, f3, f3b, r3, r3b, hN0⟩ := quo_spec Dec.one qd (by decide) hq
  have h1m : Dec.one.m = P := rfl
  rw [h1m] at f3 f3b
  have hCp : 0 ≤ C.m * p.m := Int.mul_nonneg hC (by omega)
  obtain ⟨r4, r4b, hV0⟩ := mul_spec C p hCp
  obtain ⟨T3, hT30, f4, f4b, r5, r5b, hCR0⟩ := quo_spec (Dec.mul C p) D hV0 hDpos
  exact block_core_rev P C.m D.m p.m L.m T (Dec.quo C D).m T1 qd.m T2 (Dec.quo Dec.one qd).m (Dec.mul C p).m T3
    (Dec.quo (Dec.mul C p) D).m P_pos hD hp hL hq hC f1a (by omega) (by omega) (by omega) f3b
    hqle f2a (by omega) f4b (by omega)

end KV.Cdp
