/-
  C04 / C05 helper lemmas, governance: the parameters of x/cdp change on a live chain (governance end blocker,
  committee begin blocker) while CDPs exist.  Every step of the model takes the parameters in force as an
  argument (`Env`), so a change between two steps is a change of that argument.  What a change cannot alter
  without making the stored ratio-index keys and the custody sums meaningless is the *shape* of the environment:
  the account universe, the debt conversion factor, and per collateral type (position) its denom and its
  conversion factor.  Everything else — liquidation ratio, stability fee, debt limits, debt floor, keeper reward,
  index count, market ids, auction thresholds and lots, the order of the list, whether a type is listed at all
  (`active`) — may change freely: the invariant does not see it.  Core Lean only.
-/
import KavaVerif.Proofs.CdpExample
set_option linter.unusedVariables false
set_option linter.unusedSimpArgs false

namespace KV.Cdp
open KV

/-- two environments that differ by a parameter change which leaves the attributes of the stored data alone -/
structure SameShape (E E' : Env) : Prop where
  accts : E'.accts = E.accts
  debtCf : E'.P.debtCf = E.P.debtCf
  cf : ∀ ty, cfOf E' ty = cfOf E ty
  denom : ∀ ty, denomOf E' ty = denomOf E ty

theorem SameShape.refl (E : Env) : SameShape E E := ⟨rfl, rfl, fun _ => rfl, fun _ => rfl⟩

theorem SameShape.symm {E E' : Env} (h : SameShape E E') : SameShape E' E :=
  ⟨h.accts.symm, h.debtCf.symm, fun ty => (h.cf ty).symm, fun ty => (h.denom ty).symm⟩

theorem SameShape.trans {E E' E'' : Env} (h : SameShape E E') (h' : SameShape E' E'') : SameShape E E'' :=
  ⟨h'.accts.trans h.accts, h'.debtCf.trans h.debtCf, fun ty => (h'.cf ty).trans (h.cf ty),
   fun ty => (h'.denom ty).trans (h.denom ty)⟩

/-- the checkable form: same accounts, same debt conversion factor, and the two type lists agree position by
    position on (denom, conversion factor) — the liquidation ratio, the fee, the limits, the market ids, the
    `active` flag and the loop order are free -/
theorem sameShape_of_lists {E E' : Env} (ha : E'.accts = E.accts) (hd : E'.P.debtCf = E.P.debtCf)
    (hm : E'.P.colls.map (fun (cp : CollParam) => (cp.denom, cp.cf)) = E.P.colls.map (fun (cp : CollParam) => (cp.denom, cp.cf))) :
    SameShape E E' := by
  have hpt : ∀ ty : Nat, (E'.P.colls[ty]?).map (fun (cp : CollParam) => (cp.denom, cp.cf)) = (E.P.colls[ty]?).map (fun (cp : CollParam) => (cp.denom, cp.cf)) := by
    intro ty
    have := congrArg (fun (l : List (Denom × Nat)) => l[ty]?) hm
    simpa only [List.getElem?_map] using this
  refine ⟨ha, hd, ?_, ?_⟩
  · intro ty
    have := hpt ty
    unfold cfOf
    cases h1 : E'.P.colls[ty]? <;> cases h2 : E.P.colls[ty]? <;> simp_all
  · intro ty
    have := hpt ty
    unfold denomOf
    cases h1 : E'.P.colls[ty]? <;> cases h2 : E.P.colls[ty]? <;> simp_all

theorem keyOf_shape {E E' : Env} (h : SameShape E E') : keyOf E' = keyOf E := by
  funext c
  unfold keyOf
  rw [h.cf, h.debtCf]

theorem collOf_shape {E E' : Env} (h : SameShape E E') : collOf E' = collOf E := by
  funext cdp d id
  unfold collOf
  split
  · rw [h.denom]
  · rfl

/-- a parameter change that keeps the shape keeps the invariant: nothing has to be migrated -/
theorem inv_shape {E E' : Env} {g : Int} {s : St} (h : SameShape E E') (hI : Inv E g s) : Inv E' g s := by
  obtain ⟨hidx, hown, hcoll, hdebt⟩ := hI
  refine ⟨?_, hown, ?_, hdebt⟩
  · unfold IdxOk at *
    rw [keyOf_shape h]
    exact hidx
  · unfold CollOk at *
    rw [collOf_shape h, h.accts]
    exact hcoll

/-! ### histories with parameter changes -/

/-- a history in which the parameters may change before any step: every step carries the environment in force -/
def runG (s : St) : List (Env × Op) → St
  | [] => s
  | (E, op) :: rest => runG (apply E s op) rest

theorem runG_inv {E0 : Env} {g : Int} : ∀ (steps : List (Env × Op)) (s : St), Inv E0 g s →
    (∀ E op, (E, op) ∈ steps → WF E ∧ SameShape E0 E ∧ OpOk E op) → Inv E0 g (runG s steps) := by
  intro steps
  induction steps with
  | nil => intro s hI _; exact hI
  | cons st rest ih =>
    intro s hI hall
    obtain ⟨E, op⟩ := st
    simp only [runG]
    obtain ⟨hW, hS, hop⟩ := hall E op (by simp)
    have h1 : Inv E g (apply E s op) := apply_inv hW (inv_shape hS hI) hop
    exact ih _ (inv_shape hS.symm h1) (fun E' op' hm => hall E' op' (List.mem_cons_of_mem _ hm))

/-! ### a collateral type that is not listed -/

theorem validateCollateral_inactive {E : Env} {s : St} {ty : Nat} {cd : Denom} (h : isActive E ty = false) :
    validateCollateral E s ty cd = none := by
  unfold isActive activeColl at h
  unfold validateCollateral
  split
  · rfl
  · rename_i cp hcp
    rw [hcp] at h
    dsimp only at h
    cases ha : cp.active
    · rfl
    · simp [ha] at h

/-- while a collateral type is not listed in the parameters (removed by governance, or not yet added), every
    user operation on it fails — create, deposit, withdraw, draw, repay, keeper liquidation — so by
    `C04_failed_noop` the CDPs of that type, their deposits and both indexes are frozen -/
theorem inactive_refuses {E : Env} {s : St} {ty : Nat} (h : isActive E ty = false) (now : Int) :
    (∀ o c cd p pd, (create E now s o ty c cd p pd).isOk = false) ∧
    (∀ o d c cd, (deposit E now s o d ty c cd).isOk = false) ∧
    (∀ o d c cd, (withdraw E now s o d ty c cd).isOk = false) ∧
    (∀ o p pd, (draw E now s o ty p pd).isOk = false) ∧
    (∀ o p pd, (repay E now s o ty p pd).isOk = false) ∧
    (∀ k o, (liquidate E now s k o ty).isOk = false) := by
  refine ⟨?_, ?_, ?_, ?_, ?_, ?_⟩
  · intro o c cd p pd
    unfold create
    split
    · rfl
    · rw [validateCollateral_inactive h]; rfl
  · intro o d c cd
    unfold deposit
    split
    · rfl
    · rw [validateCollateral_inactive h]; rfl
  · intro o d c cd
    unfold withdraw
    split
    · rfl
    · rw [validateCollateral_inactive h]; rfl
  · intro o p pd
    unfold draw
    split
    · rfl
    · split
      · rfl
      · rename_i id c0 hf
        obtain ⟨-, hty, -⟩ := findCdp_spec hf
        rw [hty, validateCollateral_inactive h]; rfl
  · intro o p pd
    unfold repay
    split
    · rfl
    · first | rfl | (rw [if_pos h]; rfl)
  · intro k o
    unfold liquidate
    rw [if_pos h]; rfl

/-- the begin blocker visits exactly the listed types, in the order of the parameter list -/
theorem blockTypes_active {E : Env} {facs : List Dec} {ty : Nat} {cp : CollParam} {f : Dec}
    (hm : (ty, cp, f) ∈ blockTypes E facs) : isActive E ty = true := by
  obtain ⟨hcp, ha, -⟩ := blockTypes_mem hm
  unfold isActive activeColl
  rw [hcp]
  simp [ha]

/-! ### the begin blocker leaves the CDPs of other types alone -/

/-- every CDP whose type is not `ty` is still there, unchanged -/
def Kept (ty : Nat) (s s' : St) : Prop := ∀ j c, s.cdp j = some c → c.ty ≠ ty → s'.cdp j = some c

theorem Kept.of_eq {ty : Nat} {s s' : St} (h : s'.cdp = s.cdp) : Kept ty s s' := by
  intro j c hc _; rw [h]; exact hc

theorem Kept.trans {ty : Nat} {a b c : St} (h1 : Kept ty a b) (h2 : Kept ty b c) : Kept ty a c :=
  fun j x hx hty => h2 j x (h1 j x hx hty) hty

theorem syncOne_kept {E : Env} {s s' : St} {ty : Nat} {cp : CollParam} {gf : Dec} {prev : Int} {id : Nat}
    (h : syncOne E s ty cp gf prev id = .ok s') : Kept ty s s' := by
  unfold syncOne at h
  split at h
  · cases h
  rename_i c ho
  split at h
  · cases h
  rename_i hty
  have hty' : c.ty = ty := Decidable.of_not_not hty
  split at h
  · cases h
  dsimp only at h
  split at h
  · cases h; exact Kept.of_eq rfl
  cases h
  intro j c' hc' hne
  have hj : j ≠ id := by
    intro e; subst e; rw [ho] at hc'; cases hc'; exact hne hty'
  dsimp only
  rw [upd_other _ _ _ _ hj]; exact hc'

theorem syncLoop_kept {E : Env} {ty : Nat} {cp : CollParam} {gf : Dec} {prev : Int} :
    ∀ (ids : List Nat) (s s' : St), syncLoop E s ty cp gf prev ids = .ok s' → Kept ty s s' := by
  intro ids
  induction ids with
  | nil => intro s s' h; simp only [syncLoop] at h; cases h; exact Kept.of_eq rfl
  | cons id rest ih =>
    intro s s' h
    simp only [syncLoop] at h
    split at h
    · rename_i s1 h1
      exact (syncOne_kept h1).trans (ih s1 s' h)
    · cases h
    · cases h

theorem syncRisky_kept {E : Env} {s s' : St} {ty : Nat} {cp : CollParam}
    (h : syncRisky E s ty cp = .ok s') : Kept ty s s' := by
  unfold syncRisky at h
  split at h
  · cases h
  split at h
  · cases h
  · exact syncLoop_kept _ _ _ h

theorem liquidateBlock_kept {E : Env} {g : Int} {s s' : St} {ty : Nat} {cp : CollParam} {price : Dec}
    (hW : WF E) (hI : Inv E g s) (h : liquidateBlock E s ty cp price = .ok s') : Kept ty s s' := by
  unfold liquidateBlock at h
  split at h
  · cases h
  rename_i cdps hf
  obtain ⟨hmap, hst⟩ := fetchCdps_spec s _ _ hf
  have hnd : (cdps.map Prod.fst).Nodup := by
    rw [hmap]
    exact idx_ids_nodup hI.idx ((takeCount_sublist _ _).trans (below_sublist _ _ _))
  obtain ⟨-, -, -, hoth⟩ := seizeLoop_inv hW _ _ cdps s s' hI hst hnd h
  intro j c hc hne
  have hj : j ∉ cdps.map Prod.fst := by
    intro hm
    rw [hmap] at hm
    obtain ⟨e, he, ej⟩ := List.mem_map.1 hm
    have hb : e ∈ below s.idx ty (sortKey (normRatio price cp.liqRatio)) := (takeCount_sublist _ _).subset he
    unfold below at hb
    obtain ⟨hidx, hcond⟩ := List.mem_filter.1 hb
    have hty : e.1 = ty := by
      simp only [Bool.and_eq_true, decide_eq_true_eq] at hcond; exact hcond.1
    obtain ⟨c', hc', h1, -⟩ := (hI.idx.1 e).1 hidx
    rw [ej, hc] at hc'; cases hc'
    exact hne (h1.symm.trans hty)
  rw [hoth j hj]; exact hc

theorem bbType_kept {E : Env} {g : Int} {now : Int} {skip : Bool} {s s' : St} {ty : Nat} {cp : CollParam} {f : Dec}
    (hW : WF E) (hcp : E.P.colls[ty]? = some cp) (hI : Inv E g s)
    (h : bbType E now skip s ty cp f = .ok s') : Kept ty s s' := by
  have triv : ∀ (s'' : St), s''.cdp = s.cdp → s''.idx = s.idx → s''.own = s.own → s''.dep = s.dep →
      s''.nextId = s.nextId → s''.bal = s.bal → s''.supply = s.supply → Inv E g s'' := by
    intro s'' h1 h2 h3 h4 h5 h6 h7
    refine inv_transport hI h1 h2 h3 h4 h5 (fun d _ => by rw [h6]) ?_
    have := hI.debt; unfold DebtOk debtHeld at *; rw [h6, h7]; exact this
  unfold bbType at h
  split at h
  · cases h; exact Kept.of_eq rfl
  dsimp only at h
  split at h
  · cases h; exact Kept.of_eq rfl
  rename_i pl hpl
  split at h
  · cases h
  · cases h
  rename_i s3 hacc
  obtain ⟨hI3, c3, -⟩ := accumulate_inv (by exact triv _ rfl rfl rfl rfl rfl rfl rfl) hacc
  have k3 : Kept ty s s3 := Kept.of_eq (by rw [c3])
  split at h
  · cases h; exact k3
  split at h
  · cases h
  · cases h
  rename_i s4 hsync
  obtain ⟨hI4, -⟩ := syncRisky_inv hcp hI3 hsync
  have k4 := syncRisky_kept hsync
  split at h
  · cases h
  · cases h
  rename_i s5 hliq
  cases h
  exact (k3.trans k4).trans (liquidateBlock_kept hW hI4 hliq)

theorem bbTypes_kept {E : Env} {g : Int} {now : Int} {skip : Bool} (hW : WF E) :
    ∀ (l : List (Nat × CollParam × Dec)) (s s' : St),
      (∀ ty cp f, (ty, cp, f) ∈ l → E.P.colls[ty]? = some cp) → Inv E g s →
      bbTypes E now skip s l = .ok s' →
      ∀ j c, s.cdp j = some c → (∀ ty cp f, (ty, cp, f) ∈ l → c.ty ≠ ty) → s'.cdp j = some c := by
  intro l
  induction l with
  | nil => intro s s' _ _ h j c hc _; simp only [bbTypes] at h; cases h; exact hc
  | cons hd rest ih =>
    obtain ⟨ty, cp, f⟩ := hd
    intro s s' hall hI h j c hc hno
    simp only [bbTypes] at h
    split at h
    · rename_i s1 h1
      obtain ⟨hI1, -⟩ := bbType_inv hW (hall ty cp f (by simp)) hI h1
      have k1 := bbType_kept hW (hall ty cp f (by simp)) hI h1
      exact ih s1 s' (fun t c' f' hm => hall t c' f' (List.mem_cons_of_mem _ hm)) hI1 h j c
        (k1 j c hc (hno ty cp f (by simp))) (fun t c' f' hm => hno t c' f' (List.mem_cons_of_mem _ hm))
    · cases h
    · cases h

theorem runAuctions_cdp {E : Env} {s s' : St} (h : runAuctions E s = .ok s') : s'.cdp = s.cdp := by
  unfold runAuctions at h
  split at h
  · cases h
  rename_i s2 h2
  have c2 : s2.cdp = s.cdp := by
    unfold netSurplusAndDebt at h2
    dsimp only at h2
    split at h2
    · cases h2; rfl
    split at h2
    · cases h2
    rename_i s1 hb1
    exact ((burnB_frame hb1).trans (burnB_frame h2)).cdp
  split at h
  · cases h
  rename_i s3 h3
  have c3 : s3.cdp = s2.cdp := by
    unfold startDebtAuction at h3
    split at h3
    · exact (sendB_frame h3).1.cdp
    · cases h3; rfl
  split at h
  · cases h
  rename_i s4 h4
  have c4 : s4.cdp = s3.cdp := by
    unfold startSurplusAuction at h4
    split at h4
    · cases h4; rfl
    · exact (sendB_frame h4).1.cdp
  cases h
  exact (c4.trans c3).trans c2

/-- a begin block leaves every CDP of a collateral type that is not listed exactly as it was (not synchronised,
    not seized), whatever the prices are -/
theorem beginBlock_keeps_unlisted {E : Env} {g : Int} {now : Int} {skip : Bool} {facs : List Dec} {s s' : St}
    (hW : WF E) (hI : Inv E g s) (h : beginBlock E now skip facs s = .ok s')
    (j : Nat) (c : Cdp) (hc : s.cdp j = some c) (hu : isActive E c.ty = false) : s'.cdp j = some c := by
  unfold beginBlock at h
  split at h
  · cases h
  · cases h
  rename_i s1 h1
  have hall : ∀ ty cp f, (ty, cp, f) ∈ blockTypes E facs → E.P.colls[ty]? = some cp :=
    fun ty cp f hm => (blockTypes_mem hm).1
  have hno : ∀ ty cp f, (ty, cp, f) ∈ blockTypes E facs → c.ty ≠ ty := by
    intro ty cp f hm e
    have := blockTypes_active hm
    rw [← e, hu] at this; cases this
  have k1 := bbTypes_kept hW _ s s1 hall hI h1 j c hc hno
  split at h
  · cases h
  · cases h
  rename_i s2 h2
  cases h
  rw [runAuctions_cdp h2]; exact k1

/-! ### example worlds -/

/-- the example world with its only collateral type removed -/
def exEnvRemoved : Env := { exEnv with P := { exEnv.P with colls := [{ exColl with active := false }] } }

/-- … and with the type back under a higher liquidation ratio (2.0), a different fee class and swapped markets -/
def exEnvRaised : Env :=
  { exEnv with P := { exEnv.P with colls := [{ exColl with liqRatio := ⟨2000000000000000000⟩, feeIsOne := true, spot := 1, liq := 0 }] } }

end KV.Cdp
