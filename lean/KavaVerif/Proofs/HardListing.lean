/-
  Helper lemmas for C08 (x/hard): the begin blocker under governance — money markets listed, replaced and delisted
  through the params (`applyRateUpdates`, the model of interest.go `ApplyInterestRateUpdates`).
  Listing / delisting itself touches no component of the state; every live denom accrues once; a denom without a
  money market is skipped.  Hence: both global factors of every denom are non-decreasing, the factors of a denom
  that has no money market are exactly preserved, and nobody's records change.
-/
import KavaVerif.Proofs.HardHistory
set_option linter.unusedSimpArgs false
set_option linter.unusedVariables false
namespace KV.Hard
open KV

/-- what one begin blocker guarantees about the two global factors and the users' records -/
structure RateUpdatesSpec (live : Denom → Bool) (s s' : St) : Prop where
  brwP : ∀ e, (s.brwIdx e).getD P ≤ (s'.brwIdx e).getD P
  brw0 : ∀ e, (s.brwIdx e).getD 0 ≤ (s'.brwIdx e).getD 0
  supP : ∀ e, (s.supIdx e).getD P ≤ (s'.supIdx e).getD P
  sup0 : ∀ e, (s.supIdx e).getD 0 ≤ (s'.supIdx e).getD 0
  brwNN : ∀ e v, s'.brwIdx e = some v → 0 ≤ v
  supNN : ∀ e v, s'.supIdx e = some v → 0 ≤ v
  dead : ∀ e, live e = false → s'.brwIdx e = s.brwIdx e ∧ s'.supIdx e = s.supIdx e
  dep : s'.dep = s.dep
  depIdx : s'.depIdx = s.depIdx
  bor : s'.bor = s.bor
  borIdx : s'.borIdx = s.borIdx
  bal : s'.bal = s.bal

theorem applyRateUpdates_spec (cfg : Cfg) (now : Int) (live : Denom → Bool) (phi : Denom → Dec) (apy : Denom → Bool)
    (hphi : ∀ d, live d = true → P ≤ (phi d).m) :
    ∀ (ds : List Denom) (s s' : St), (∀ e v, s.brwIdx e = some v → 0 ≤ v) → (∀ e v, s.supIdx e = some v → 0 ≤ v) →
      applyRateUpdates cfg now live phi apy ds s = .ok s' → RateUpdatesSpec live s s' := by
  intro ds
  induction ds with
  | nil =>
    intro s s' hb hs h
    simp only [applyRateUpdates] at h
    cases h
    exact ⟨fun _ => Int.le_refl _, fun _ => Int.le_refl _, fun _ => Int.le_refl _, fun _ => Int.le_refl _, hb, hs,
      fun _ _ => ⟨rfl, rfl⟩, rfl, rfl, rfl, rfl, rfl⟩
  | cons d t ih =>
    intro s s' hb hs h
    simp only [applyRateUpdates] at h
    by_cases hl : live d = true
    · simp only [hl, if_true] at h
      cases ha : accrue cfg s d now (phi d) (apy d) with
      | err e => rw [ha] at h; cases h
      | panic => rw [ha] at h; cases h
      | ok s1 =>
        rw [ha] at h
        simp only at h
        obtain ⟨bo, bP, b0⟩ := accrue_brwIdx cfg s s1 d now (phi d) (apy d) (hphi d hl) (hb d) ha
        obtain ⟨so, sP, s0⟩ := accrue_supIdx cfg s s1 d now (phi d) (apy d) (hs d) ha
        obtain ⟨fd, fdi, fb, fbi, -, fbal, -⟩ := accrue_frame cfg s s1 d now (phi d) (apy d) ha
        have hstepB := step_brw cfg s s1 (.accrue d now (phi d) (apy d)) (hphi d hl) hb ha
        have hstepS := step_sup cfg s s1 (.accrue d now (phi d) (apy d)) hs ha
        have r := ih s1 s' hstepB.2 hstepS.2 h
        refine ⟨?_, ?_, ?_, ?_, r.brwNN, r.supNN, ?_, by rw [r.dep, fd], by rw [r.depIdx, fdi], by rw [r.bor, fb],
          by rw [r.borIdx, fbi], by rw [r.bal, fbal]⟩
        · intro e; have := hstepB.1 e; have := r.brwP e; omega
        · intro e
          have h2 := r.brw0 e
          by_cases he : e = d
          · subst he; omega
          · rw [bo e he] at h2; exact h2
        · intro e; have := hstepS.1 e; have := r.supP e; omega
        · intro e
          have h2 := r.sup0 e
          by_cases he : e = d
          · subst he; omega
          · rw [so e he] at h2; exact h2
        · intro e hle
          have hne : e ≠ d := by intro heq; subst heq; rw [hl] at hle; cases hle
          obtain ⟨r1, r2⟩ := r.dead e hle
          exact ⟨by rw [r1, bo e hne], by rw [r2, so e hne]⟩
    · have hl' : live d = false := by cases hv : live d with | true => exact absurd hv hl | false => rfl
      simp only [hl', Bool.false_eq_true, if_false] at h
      exact ih s s' hb hs h

/-- the begin blocker never panics when every live denom's factor is ≥ 1, its reserve factor is in [0,1] and the
    borrowed totals are not negative (they stay so: an accrual only adds non-negative interest) -/
theorem applyRateUpdates_no_panic (cfg : Cfg) (now : Int) (live : Denom → Bool) (phi : Denom → Dec) (apy : Denom → Bool)
    (hphi : ∀ d, live d = true → P ≤ (phi d).m)
    (hrf : ∀ d, 0 ≤ (cfg.mkt d).reserveFactor.m ∧ (cfg.mkt d).reserveFactor.m ≤ P) :
    ∀ (ds : List Denom) (s : St), ds.Nodup → (∀ d ∈ ds, 0 ≤ s.borrowed d) →
      applyRateUpdates cfg now live phi apy ds s ≠ .panic := by
  intro ds
  induction ds with
  | nil => intro s _ _ h; simp only [applyRateUpdates] at h; cases h
  | cons d t ih =>
    intro s hnd hb h
    simp only [applyRateUpdates] at h
    have hnd' := (List.nodup_cons.mp hnd)
    by_cases hl : live d = true
    · simp only [hl, if_true] at h
      cases ha : accrue cfg s d now (phi d) (apy d) with
      | panic => exact accrue_no_panic cfg s d now (phi d) (apy d) (hphi d hl) (hb d List.mem_cons_self) (hrf d).1 (hrf d).2 ha
      | err e =>
        -- `accrue` has no error exit
        unfold accrue at ha
        split at ha
        · cases ha
        split at ha
        · cases ha
        split at ha
        · cases ha
        simp only at ha
        split at ha
        · cases ha
        split at ha <;> cases ha
      | ok s1 =>
        rw [ha] at h
        simp only at h
        refine ih s1 hnd'.2 ?_ h
        intro e he
        have hne : e ≠ d := by intro heq; subst heq; exact hnd'.1 he
        have : s1.borrowed e = s.borrowed e := by
          unfold accrue at ha
          split at ha
          · cases ha; rfl
          split at ha
          · cases ha; rfl
          split at ha
          · cases ha; rfl
          simp only at ha
          split at ha
          · cases ha; rfl
          split at ha
          · cases ha
          · cases ha; simp [upd, hne]
        rw [this]; exact hb e (List.mem_cons_of_mem _ he)
    · have hl' : live d = false := by cases hv : live d with | true => exact absurd hv hl | false => rfl
      simp only [hl', Bool.false_eq_true, if_false] at h
      exact ih s hnd'.2 (fun e he => hb e (List.mem_cons_of_mem _ he)) h

end KV.Hard
