/-
  Helper lemmas for C12, part 3: single-step facts that need the share/token arithmetic —
  no empty delegation, and the value of a holder's stake before and after a conversion.
-/
import KavaVerif.Proofs.LiquidHist
set_option linter.unusedSimpArgs false
set_option linter.unusedVariables false
namespace KV.Liquid
open KV

/-- (B): the part of the loss that comes from the token left behind by the truncation in `RemoveDelShares` -/
theorem value_B (T S sh r T' S' : Int) (hT : 0 ≤ T) (hS : 0 < S) (hsh : 0 < sh) (hS' : 1 ≤ S') (hS'def : S' = S - sh)
    (hT'1 : 1 ≤ T') (hT'T : T' ≤ T) (hr0 : 0 ≤ r)
    (F1 : (sh - r) * T' ≤ S + T' - 2) (F2 : S' * T - T' + 1 ≤ (S' + r) * T') (hd : 0 < sh - r) :
    T * (sh - r) * S' ≤ S * (S' + r) + S * T := by
  have hTS' : 0 ≤ T * S' := Int.mul_nonneg hT (by omega)
  have k1 : (T * S') * ((sh - r) * T') ≤ (T * S') * (S + T' - 2) := Int.mul_le_mul_of_nonneg_left F1 hTS'
  have k2 : S * (S' * T - T' + 1) ≤ S * ((S' + r) * T') := Int.mul_le_mul_of_nonneg_left F2 (by omega)
  have hTsh : 0 ≤ T * sh := Int.mul_nonneg hT (by omega)
  have key : T * S' * (S + T' - 2) ≤ S * (S' * T - T' + 1) + S * T * T' := by
    rcases Int.lt_or_le T' 2 with h1 | h2
    · have : T' = 1 := by omega
      subst this
      have : T * sh ≤ T * S := Int.mul_le_mul_of_nonneg_left (by omega) hT
      subst hS'def
      grind
    · have p1 : (T * sh) * 2 ≤ (T * sh) * T' := Int.mul_le_mul_of_nonneg_left h2 hTsh
      have p2 : S * T' ≤ S * T := Int.mul_le_mul_of_nonneg_left hT'T (by omega)
      have p3 : 0 ≤ T * S := Int.mul_nonneg hT (by omega)
      subst hS'def
      grind
  have fin : T' * (T * (sh - r) * S') ≤ T' * (S * (S' + r) + S * T) := by grind
  exact Int.le_of_mul_le_mul_left fin (by omega)


/-- the part of a possible gain that comes from the half-even rounding in `TokensFromShares` -/
theorem value_G (T S sh r T' S' : Int) (hT : 1 ≤ T) (hS : 0 < S) (hS' : 1 ≤ S')
    (hT'1 : 1 ≤ T') (hr0 : 0 ≤ r)
    (F3 : (r - sh) * T' ≤ S) (F2 : S' * T - T' + 1 ≤ (S' + r) * T') (hsane : 2 * (T' - 1) < S') :
    T * (r - sh) * S' ≤ 2 * S * (S' + r) := by
  have hTS' : 0 ≤ T * S' := Int.mul_nonneg (by omega) (by omega)
  have k1 : (T * S') * ((r - sh) * T') ≤ (T * S') * S := Int.mul_le_mul_of_nonneg_left F3 hTS'
  have k2 : (2 * S) * (S' * T - T' + 1) ≤ (2 * S) * ((S' + r) * T') := Int.mul_le_mul_of_nonneg_left F2 (by omega)
  have k3 : S' * 1 ≤ S' * T := Int.mul_le_mul_of_nonneg_left hT (by omega)
  have k4 : S * (2 * T') ≤ S * (S' * T + 2) := Int.mul_le_mul_of_nonneg_left (by omega) (by omega)
  have fin : T' * (T * (r - sh) * S') ≤ T' * (2 * S * (S' + r)) := by grind
  exact Int.le_of_mul_le_mul_left fin (by omega)

/-- Core of `C12_value_within_two_units`: `sh` shares (mantissa) leave the holder, `amt` tokens are moved,
    `r` shares arrive, the holder's claim goes from `H` to `H − (sh − r) − f` share-ulps (`f` = the fraction of a
    derivative unit lost to the floor on minting, 0 on burning).  Valued at tokens/shares before and after, the
    change is at most two base units, both ways. -/
theorem value_core (T S sh amt r H f : Int) (hS : 0 < S) (hsh : 0 < sh) (hS' : 1 ≤ S - sh)
    (hamt0 : 0 ≤ amt) (hT' : 1 ≤ T - amt) (hr0 : 0 ≤ r)
    (h_lo : sh * T < (amt + 1) * S) (h_up : 2 * P * (amt * S - sh * T) ≤ S)
    (hr1 : r * (T - amt) ≤ (S - sh) * amt) (hr2 : (S - sh) * amt < (r + 1) * (T - amt))
    (hsane : 2 * (T - amt - 1) < S - sh)
    (hH1 : sh ≤ H) (hH2 : H ≤ S) (hf0 : 0 ≤ f) (hA : T * f ≤ S - sh + r - T) :
    H * T * (S - sh + r) - (H - (sh - r) - f) * T * S ≤ 2 * S * (S - sh + r) ∧
    (H - (sh - r) - f) * T * S - H * T * (S - sh + r) ≤ 2 * S * (S - sh + r) := by
  obtain ⟨T', hT'def⟩ : ∃ T', T' = T - amt := ⟨_, rfl⟩
  obtain ⟨S', hS'def⟩ : ∃ S', S' = S - sh := ⟨_, rfl⟩
  rw [← hT'def] at hT' hr1 hr2 hsane
  rw [← hS'def] at hS' hr1 hr2 hsane
  have hT1 : 1 ≤ T := by omega
  have F1 : (sh - r) * T' ≤ S + T' - 2 := by subst hT'def; subst hS'def; grind
  have F2 : S' * T - T' + 1 ≤ (S' + r) * T' := by subst hT'def; subst hS'def; grind
  have F3 : (r - sh) * T' ≤ S := by
    have hx : amt * S - sh * T ≤ S := by
      rcases Int.lt_or_le 0 (amt * S - sh * T) with hp | hn
      · have : 1 * (amt * S - sh * T) ≤ 2 * P * (amt * S - sh * T) :=
          Int.mul_le_mul_of_nonneg_right (by simp only [P_val]; omega) (by omega)
        omega
      · omega
    subst hT'def; subst hS'def; grind
  -- the algebraic identity: H·S'' − H'·S = δ·(S − H) + f·S
  have hTf : T * f * S ≤ S * (S' + r) - S * T := by
    have : S * (T * f) ≤ S * (S' + r - T) := Int.mul_le_mul_of_nonneg_left (by subst hS'def; omega) (by omega)
    grind
  have hSS : 0 ≤ S * (S' + r) := Int.mul_nonneg (by omega) (by omega)
  have hST : 0 ≤ S * T := Int.mul_nonneg (by omega) (by omega)
  have hTfS : 0 ≤ T * f * S := Int.mul_nonneg (Int.mul_nonneg (by omega) hf0) (by omega)
  have e1 : S - sh + r = S' + r := by omega
  rw [e1]
  have idL : H * T * (S' + r) - (H - (sh - r) - f) * T * S = T * (sh - r) * (S - H) + T * f * S := by
    subst hS'def; grind
  rcases Int.lt_or_le 0 (sh - r) with hd | hd
  · -- δ > 0
    have hB := value_B T S sh r T' S' (by omega) hS hsh hS' hS'def hT' (by omega) hr0 F1 F2 hd
    have hTd : 0 ≤ T * (sh - r) := Int.mul_nonneg (by omega) (by omega)
    have hm : T * (sh - r) * (S - H) ≤ T * (sh - r) * S' := Int.mul_le_mul_of_nonneg_left (by omega) hTd
    have hm0 : 0 ≤ T * (sh - r) * (S - H) := Int.mul_nonneg hTd (by omega)
    constructor
    · rw [idL]; grind
    · have : (H - (sh - r) - f) * T * S - H * T * (S' + r) = -(T * (sh - r) * (S - H) + T * f * S) := by
        rw [← idL]; omega
      rw [this]; grind
  · -- δ ≤ 0
    have hG := value_G T S sh r T' S' hT1 hS hS' hT' hr0 F3 F2 hsane
    have hTd : 0 ≤ T * (r - sh) := Int.mul_nonneg (by omega) (by omega)
    have hm : T * (r - sh) * (S - H) ≤ T * (r - sh) * S' := Int.mul_le_mul_of_nonneg_left (by omega) hTd
    have hm0 : 0 ≤ T * (r - sh) * (S - H) := Int.mul_nonneg hTd (by omega)
    have eneg : T * (sh - r) * (S - H) = -(T * (r - sh) * (S - H)) := by grind
    constructor
    · rw [idL, eneg]; grind
    · have : (H - (sh - r) - f) * T * S - H * T * (S' + r) = -(T * (sh - r) * (S - H) + T * f * S) := by
        rw [← idL]; omega
      rw [this, eneg]; grind

/-- the validator's exchange rate is sane: one share-ulp (10^-18 share) is worth at most half a token -/
def SaneRate (c : VSt) : Prop := ∀ v, c.val = some v → 2 * v.tokens ≤ v.shares.m

/-- the shares are worth at least one token at the validator's rate -/
def WorthOneToken (c : VSt) (sh : Dec) : Prop := ∀ v, c.val = some v → v.shares.m ≤ sh.m * v.tokens

theorem transfer_no_empty (accts : List Addr) (hn : accts.Nodup) (g : Cfg) (c c2 : VSt) (frm to : Addr) (sh r : Dec)
    (hf : frm ∈ accts) (ht : to ∈ accts) (hne : frm ≠ to) (hwf : WF accts c) (hrate : SaneRate c)
    (hworth : g.skipZeroDelegate = true ∨ WorthOneToken c sh)
    (h : transfer g c frm to sh = .ok (c2, r)) :
    (∀ a, NoEmptyAt c a → NoEmptyAt c2 a) ∧ NoEmptyAt c2 frm ∧
    ((c2.del to = c.del to ∧ r.m = 0) ∨ (0 < r.m ∧ NoEmptyAt c2 to)) ∧ (WorthOneToken c sh → 0 < r.m) := by
  obtain ⟨x, v, v2, amt, hx, hv, hpos, hle, hred, hg, hrm, hdf, hoth, -, -, -, -, -, hcase⟩ :=
    transfer_effect g c c2 frm to sh r hne h
  obtain ⟨w1, w2, w3⟩ := hwf
  obtain ⟨hT, hS⟩ := w3 v hv
  have hxS : x.m ≤ v.shares.m := by
    rw [hS]; have := le_dsum accts c.del w2 frm hf; rw [hx] at this; exact this
  have hSpos : 0 < v.shares.m := by omega
  have hrt := hrate v hv
  obtain ⟨a1, -, -, -, -, a6⟩ := removeDelShares_spec v v2 sh amt hrm
  have hamt0 : 0 ≤ amt := by
    rcases a6 with ⟨-, e1, -⟩ | ⟨-, -, e1, -, -⟩
    · omega
    · rw [tfs_trunc v sh hT hSpos (by omega)] at e1
      have := tokOut_nonneg v.tokens v.shares.m sh.m hT hSpos (by omega); omega
  -- shares worth one token move at least one token
  have hworth1 : WorthOneToken c sh → 1 ≤ amt := by
    intro hw
    have hw := hw v hv
    rcases a6 with ⟨e0, e1, -⟩ | ⟨-, -, e1, -, -⟩
    · have : sh.m = v.shares.m := by omega
      rw [this] at hw
      have : 1 ≤ v.tokens := by
        rcases Int.lt_or_le 0 v.tokens with h' | h'
        · omega
        · have : v.tokens = 0 := by omega
          rw [this] at hw; simp at hw; omega
      omega
    · rw [tfs_trunc v sh hT hSpos (by omega)] at e1
      have hl := tokOut_lower v.tokens v.shares.m sh.m hT hSpos (by omega)
      rw [← e1] at hl
      rcases Int.lt_or_le amt 1 with h' | h'
      · have h0 : amt + 1 ≤ 1 := by omega
        have : (amt + 1) * v.shares.m ≤ 1 * v.shares.m := Int.mul_le_mul_of_nonneg_right h0 (by omega)
        omega
      · exact h'
  have hfrmNE : NoEmptyAt c2 frm := by
    unfold NoEmptyAt; rw [hdf]
    split
    · simp
    · rename_i h0; intro e; simp only [Option.some.injEq] at e; have := congrArg Dec.m e; simp at this; omega
  have hdto : 0 ≤ dm c to := by
    unfold dm; cases hc : c.del to with
    | none => simp
    | some z => exact w2 to z hc
  rcases hcase with ⟨hs, ha0, hr0, hto, -⟩ | ⟨hns, v3, hinv, hadd, hval2, hdt⟩
  · -- nothing unbonded, nothing delegated: the recipient's record is untouched
    refine ⟨?_, hfrmNE, Or.inl ⟨hto, by rw [hr0]; rfl⟩, ?_⟩
    · intro a ha
      by_cases h1 : a = frm
      · subst h1; exact hfrmNE
      · by_cases h2 : a = to
        · subst h2; unfold NoEmptyAt at *; rw [hto]; exact ha
        · unfold NoEmptyAt at *; rw [hoth a h1 h2]; exact ha
    · intro hw; have := hworth1 hw; omega
  · obtain ⟨b1, b2, -, -, -, -, b7⟩ := addTokensFromDel_spec v2 v3 amt r hadd
    have hamt : 1 ≤ amt := by
      rcases hworth with hz | hw
      · have : ¬ amt = 0 := fun e => hns ⟨hz, e⟩
        omega
      · exact hworth1 hw
    have hr : 0 < r.m := by
      rcases b7 with ⟨-, e⟩ | ⟨hs2, ht2, e⟩
      · rw [e]; exact Int.mul_pos (by omega) P_pos
      · rcases a6 with ⟨e0, -, -⟩ | ⟨hne2, -, e1, e2, e3⟩
        · exact absurd e0 hs2
        · -- S' = S − sh ≥ 1, T' = T − amt ≥ 1 and S'·T > S·(T'−1) ≥ 2T·(T'−1)
          rw [tfs_trunc v sh hT hSpos (by omega)] at e1
          have hl := tokOut_lower v.tokens v.shares.m sh.m hT hSpos (by omega)
          rw [← e1] at hl
          have hS2 : 1 ≤ v2.shares.m := by omega
          have hT2 : 1 ≤ v2.tokens := by omega
          have hTpos : 0 < v.tokens := by omega
          have k1 : v.shares.m * (v2.tokens - 1) < v2.shares.m * v.tokens := by
            rw [a1, e2]; grind
          have k2 : 2 * v.tokens * (v2.tokens - 1) ≤ v.shares.m * (v2.tokens - 1) :=
            Int.mul_le_mul_of_nonneg_right hrt (by omega)
          have k3 : v.tokens * (2 * (v2.tokens - 1)) < v.tokens * v2.shares.m := by grind
          have k4 : 2 * (v2.tokens - 1) < v2.shares.m := Int.lt_of_mul_lt_mul_left k3 (by omega)
          have k5 : v2.tokens ≤ v2.shares.m * amt := by
            have : v2.shares.m * 1 ≤ v2.shares.m * amt := Int.mul_le_mul_of_nonneg_left hamt (by omega)
            omega
          rw [e, tquo_nonneg_eq _ _ (Int.mul_nonneg (by omega) (by omega)) (by omega)]
          have := Int.ediv_le_ediv (by omega : (0:Int) < v2.tokens) k5
          rw [Int.ediv_self (by omega)] at this
          omega
    have htoNE : NoEmptyAt c2 to := by
      unfold NoEmptyAt; rw [hdt]
      intro e; simp only [Option.some.injEq] at e; have := congrArg Dec.m e; simp at this; omega
    refine ⟨?_, hfrmNE, Or.inr ⟨hr, htoNE⟩, fun _ => hr⟩
    intro a ha
    by_cases h1 : a = frm
    · subst h1; exact hfrmNE
    · by_cases h2 : a = to
      · subst h2; exact htoNE
      · unfold NoEmptyAt at *; rw [hoth a h1 h2]; exact ha

/-- the arithmetic facts of a successful transfer, in the notation of `value_core`
    (T, S = validator before; sh = shares sent; r = shares received).  `hTpos`: the validator has tokens. -/
theorem transfer_arith (accts : List Addr) (hn : accts.Nodup) (g : Cfg) (c c2 : VSt) (frm to : Addr) (sh r : Dec)
    (hf : frm ∈ accts) (hne : frm ≠ to) (hwf : WF accts c) (hrate : SaneRate c)
    (hTpos : ∀ v, c.val = some v → 0 < v.tokens)
    (h : transfer g c frm to sh = .ok (c2, r)) :
    ∃ v v3, c.val = some v ∧ c2.val = some v3 ∧ v3.tokens = v.tokens ∧ v3.shares.m = v.shares.m - sh.m + r.m ∧
      0 < v.shares.m ∧ 0 < sh.m ∧ sh.m ≤ dm c frm ∧ dm c frm ≤ v.shares.m ∧ 0 ≤ r.m ∧ 0 ≤ v.tokens ∧
      ((sh.m = v.shares.m ∧ r.m = v.tokens * P) ∨
       (∃ amt, 1 ≤ v.shares.m - sh.m ∧ 0 ≤ amt ∧ 1 ≤ v.tokens - amt ∧
          sh.m * v.tokens < (amt + 1) * v.shares.m ∧ 2 * P * (amt * v.shares.m - sh.m * v.tokens) ≤ v.shares.m ∧
          r.m * (v.tokens - amt) ≤ (v.shares.m - sh.m) * amt ∧
          (v.shares.m - sh.m) * amt < (r.m + 1) * (v.tokens - amt) ∧
          2 * (v.tokens - amt - 1) < v.shares.m - sh.m)) := by
  obtain ⟨x, v, v2, amt, hx, hv, hpos, hle, hred, hg, hrm, hdf, hoth, -, -, -, -, -, hcase⟩ :=
    transfer_effect g c c2 frm to sh r hne h
  obtain ⟨w1, w2, w3⟩ := hwf
  obtain ⟨hT, hS⟩ := w3 v hv
  have hT1 := hTpos v hv
  have hxS : x.m ≤ v.shares.m := by
    rw [hS]; have := le_dsum accts c.del w2 frm hf; rw [hx] at this; exact this
  have hSpos : 0 < v.shares.m := by omega
  have hrt := hrate v hv
  obtain ⟨a1, a2, a3, a4, a5, a6⟩ := removeDelShares_spec v v2 sh amt hrm
  have hdmf : dm c frm = x.m := by unfold dm; rw [hx]
  -- facts about the intermediate validator when some shares remain
  have hmid : v2.shares.m ≠ 0 → amt = tokOut v.tokens v.shares.m sh.m ∧ v2.tokens = v.tokens - amt ∧ 0 ≤ v2.tokens ∧
      2 * (v2.tokens - 1) < v2.shares.m := by
    intro hne2
    rcases a6 with ⟨e0, -, -⟩ | ⟨-, -, e1, e2, e3⟩
    · exact absurd e0 hne2
    · rw [tfs_trunc v sh hT hSpos (by omega)] at e1
      have hl := tokOut_lower v.tokens v.shares.m sh.m hT hSpos (by omega)
      rw [← e1] at hl
      refine ⟨e1, e2, e3, ?_⟩
      rcases Int.lt_or_le v2.tokens 1 with hlt | hge
      · omega
      · have k1 : v.shares.m * (v2.tokens - 1) < v2.shares.m * v.tokens := by
          rw [a1, e2]; grind
        have k2 : 2 * v.tokens * (v2.tokens - 1) ≤ v.shares.m * (v2.tokens - 1) :=
          Int.mul_le_mul_of_nonneg_right hrt (by omega)
        have k3 : v.tokens * (2 * (v2.tokens - 1)) < v.tokens * v2.shares.m := by grind
        exact Int.lt_of_mul_lt_mul_left k3 (by omega)
  rcases hcase with ⟨hs, ha0, hr0, hto, hval2⟩ | ⟨hns, v3, hinv, hadd, hval2, hdt⟩
  · -- repaired code, nothing unbonded: amt = 0, r = 0, the validator keeps its tokens
    have hne2 : v2.shares.m ≠ 0 := by
      intro e0
      rcases a6 with ⟨-, e1, -⟩ | ⟨hne2, -, -, -, -⟩
      · omega
      · exact hne2 e0
    obtain ⟨m1, m2, m3, m4⟩ := hmid hne2
    have hvv : c2.val = some v2 := by
      rw [hval2, if_neg (fun hh => hne2 hh.1)]
    have hrm0 : r.m = 0 := by rw [hr0]; rfl
    have hlo := tokOut_lower v.tokens v.shares.m sh.m hT hSpos (by omega)
    have hup := tokOut_upper v.tokens v.shares.m sh.m hT hSpos (by omega)
    rw [← m1, ha0] at hlo hup
    refine ⟨v, v2, hv, hvv, by omega, by omega, hSpos, hpos, by rw [hdmf]; exact hle, by rw [hdmf]; exact hxS,
      by omega, hT, Or.inr ⟨0, by omega, by omega, by omega, hlo, hup, ?_, ?_, ?_⟩⟩
    · rw [hrm0]; simp
    · rw [hrm0]; simp; omega
    · rw [a1, m2, ha0] at m4; simpa using m4
  · obtain ⟨t1, t2, -⟩ := xfer_val v v2 v3 sh r amt hrm hadd
    obtain ⟨b1, b2, -, -, -, -, b7⟩ := addTokensFromDel_spec v2 v3 amt r hadd
    refine ⟨v, v3, hv, hval2, t1, t2, hSpos, hpos, by rw [hdmf]; exact hle, by rw [hdmf]; exact hxS, ?_, hT, ?_⟩
    · rcases b7 with ⟨hs0, e⟩ | ⟨hs2, ht2, e⟩
      · rcases a6 with ⟨-, e1, -⟩ | ⟨hne2, -, -, -, -⟩
        · rw [e, e1]; exact Int.mul_nonneg hT (by decide)
        · exact absurd hs0 hne2
      · rw [e]
        obtain ⟨m1, m2, m3, -⟩ := hmid hs2
        have := tokOut_nonneg v.tokens v.shares.m sh.m hT hSpos (by omega)
        exact tquo_nonneg _ _ (Int.mul_nonneg (by omega) (by omega)) m3
    · rcases b7 with ⟨hs0, e⟩ | ⟨hs2, ht2, e⟩
      · left
        rcases a6 with ⟨e0, e1, e2⟩ | ⟨hne2, -, -, -, -⟩
        · exact ⟨by omega, by rw [e, e1]⟩
        · exact absurd hs0 hne2
      · right
        obtain ⟨m1, m2, m3, m4⟩ := hmid hs2
        have hlo := tokOut_lower v.tokens v.shares.m sh.m hT hSpos (by omega)
        have hup := tokOut_upper v.tokens v.shares.m sh.m hT hSpos (by omega)
        have ha0 := tokOut_nonneg v.tokens v.shares.m sh.m hT hSpos (by omega)
        rw [← m1] at hlo hup ha0
        have hS2 : 1 ≤ v2.shares.m := by omega
        have hT2 : 1 ≤ v2.tokens := by omega
        have hq : r.m = v2.shares.m * amt / v2.tokens := by
          rw [e, tquo_nonneg_eq _ _ (Int.mul_nonneg (by omega) (by omega)) (by omega)]
        have q1 : r.m * v2.tokens ≤ v2.shares.m * amt := by rw [hq]; exact Int.ediv_mul_le _ (by omega)
        have q2 : v2.shares.m * amt < (r.m + 1) * v2.tokens := by
          rw [hq]; exact Int.lt_ediv_add_one_mul_self _ (by omega)
        refine ⟨amt, by omega, ha0, by omega, hlo, hup, ?_, ?_, ?_⟩
        · rw [a1, m2] at q1; exact q1
        · rw [a1, m2] at q2; exact q2
        · rw [a1, m2] at m4; exact m4

theorem trunc_frac (r : Dec) (h : 0 ≤ r.m) : 0 ≤ r.m - r.truncateInt * P ∧ r.m - r.truncateInt * P ≤ P - 1 := by
  unfold Dec.truncateInt; rw [chopTrunc_nonneg_eq _ h]
  have h1 := Int.ediv_mul_le r.m (by decide : P ≠ 0)
  have h2 := Int.lt_ediv_add_one_mul_self r.m P_pos
  have : (r.m / P + 1) * P = r.m / P * P + P := by grind
  omega

/-- value of the holder's stake across a mint that mints ⌊received shares⌋ (the repaired code) -/
theorem mint_value_fixed (accts : List Addr) (hn : accts.Nodup) (g : Cfg) (hg : g.mintReceived = true) (M : Addr)
    (c c' : VSt) (d : Addr) (amount der : Int) (hM : M ∈ accts) (hd : d ∈ accts) (hne : d ≠ M)
    (hwf : WF accts c) (hrate : SaneRate c) (hTpos : ∀ v, c.val = some v → 0 < v.tokens)
    (hbal : 0 ≤ c.bal d) (hH : dm c d + c.bal d * P ≤ sharesOf c)
    (hpost : ∀ v', c'.val = some v' → v'.tokens * P ≤ v'.shares.m)
    (h : mint g M c d true amount = .ok (c', der)) : ValueWithinTwo c c' d := by
  obtain ⟨-, shares, c1, r, -, ht, hder, e1, e2, e3, e4, e5, e6⟩ := mint_effect g M c c' d amount der h
  rw [hg] at hder; simp only [ite_true] at hder
  obtain ⟨v, v3, hv, hv3, t1, t2, hS, hsh, hshd, hdS, hr0, hT, hcase⟩ :=
    transfer_arith accts hn g c c1 d M shares r hd hne hwf hrate hTpos ht
  obtain ⟨-, -, -, -, hdm, -, b1, -, -⟩ := transfer_inv accts hn g c c1 d M shares r hd hM hne hwf ht
  have hd1 : dm c' d = dm c d - shares.m := by
    have : dm c' d = dm c1 d := by unfold dm; rw [e2]
    rw [this, hdm d]; simp only [ite_true]
  have hb1 : c'.bal d = c.bal d + der := by rw [e5, b1]; simp only [updI, ite_true]
  have hv' : c'.val = some v3 := by rw [e1]; exact hv3
  have hp := hpost v3 hv'
  obtain ⟨f0, f1⟩ := trunc_frac r hr0
  rw [← hder] at f0 f1
  have hSc : sharesOf c = v.shares.m := by unfold sharesOf; rw [hv]
  have hSc' : sharesOf c' = v.shares.m - shares.m + r.m := by unfold sharesOf; rw [hv']; exact t2
  have hN : stakeNum c d = (dm c d + c.bal d * P) * v.tokens := by unfold stakeNum; rw [hv]
  have hN' : stakeNum c' d = (dm c d + c.bal d * P - (shares.m - r.m) - (r.m - der * P)) * v.tokens := by
    unfold stakeNum; rw [hv']; show (dm c' d + c'.bal d * P) * v3.tokens = _; rw [hd1, hb1, t1]; congr 1; grind
  rw [hSc] at hH
  have hbP : 0 ≤ c.bal d * P := Int.mul_nonneg hbal (by decide)
  unfold ValueWithinTwo
  rw [hSc, hSc', hN, hN']
  have hH1 : shares.m ≤ dm c d + c.bal d * P := by omega
  generalize dm c d + c.bal d * P = H at hH hH1 ⊢
  rcases hcase with ⟨es, er⟩ | ⟨amt, c1', c2', c3', c4', c5', c6', c7', c8'⟩
  · -- all shares of the validator leave and come back at rate one
    have hHS : H = v.shares.m := by omega
    have hf : r.m - der * P = 0 := by
      have : der = v.tokens := by
        rw [hder]; exact truncateInt_mul_P v.tokens r er hT
      rw [er, this]; omega
    rw [hf, es, er, hHS]
    have e : (v.shares.m - (v.shares.m - v.tokens * P) - 0) * v.tokens * v.shares.m
           = v.shares.m * v.tokens * (v.shares.m - v.shares.m + v.tokens * P) := by grind
    have hnn : 0 ≤ 2 * v.shares.m * (v.shares.m - v.shares.m + v.tokens * P) := by
      have : v.shares.m - v.shares.m + v.tokens * P = v.tokens * P := by omega
      rw [this]
      exact Int.mul_nonneg (by omega) (Int.mul_nonneg hT (by decide))
    rw [e]; omega
  · have hA : v.tokens * (r.m - der * P) ≤ v.shares.m - shares.m + r.m - v.tokens := by
      have : v.tokens * (r.m - der * P) ≤ v.tokens * (P - 1) := Int.mul_le_mul_of_nonneg_left f1 hT
      rw [t1, t2] at hp
      grind
    have := value_core v.tokens v.shares.m shares.m amt r.m H (r.m - der * P) hS hsh c1' c2' c3' hr0 c4' c5' c6' c7' c8'
      hH1 hH f0 hA
    exact ⟨this.2, this.1⟩


/-- value of the holder's stake across a burn (the code as it is and the repaired code alike) -/
theorem burn_value (accts : List Addr) (hn : accts.Nodup) (g : Cfg) (M : Addr)
    (c c' : VSt) (d : Addr) (amount : Int) (r : Dec) (hM : M ∈ accts) (hd : d ∈ accts) (hne : d ≠ M)
    (hwf : WF accts c) (hrate : SaneRate c) (hTpos : ∀ v, c.val = some v → 0 < v.tokens)
    (hH : dm c d + c.bal d * P ≤ sharesOf c)
    (hpost : ∀ v', c'.val = some v' → v'.tokens ≤ v'.shares.m)
    (h : burn g M c d amount = .ok (c', r)) : ValueWithinTwo c c' d := by
  obtain ⟨h0, hbal, ht⟩ := burn_effect g M c c' d amount r h
  have hne' : M ≠ d := fun e => hne e.symm
  have hwf0 : WF accts { c with bal := updI c.bal d (c.bal d - amount), supply := c.supply - amount } := hwf
  have hrate0 : SaneRate { c with bal := updI c.bal d (c.bal d - amount), supply := c.supply - amount } := hrate
  obtain ⟨v, v3, hv, hv3, t1, t2, hS, hsh, hshd, hdS, hr0, hT, hcase⟩ :=
    transfer_arith accts hn g _ c' M d _ r hM hne' hwf0 hrate0 hTpos ht
  obtain ⟨-, -, -, -, hdm, -, b1, -, -⟩ := transfer_inv accts hn g _ c' M d _ r hM hd hne' hwf0 ht
  have hv0 : c.val = some v := hv
  have e0 : ∀ a, dm { c with bal := updI c.bal d (c.bal d - amount), supply := c.supply - amount } a = dm c a := fun _ => rfl
  have hsm : (Dec.ofInt amount).m = amount * P := rfl
  rw [hsm] at t2 hsh hshd hcase
  have hd1 : dm c' d = dm c d + r.m := by
    rw [hdm d]; simp only [hne, ite_false, ite_true, e0]
  have hb1 : c'.bal d = c.bal d - amount := by rw [b1]; simp only [updI, ite_true]
  have hp := hpost v3 hv3
  have hd0 : 0 ≤ dm c d := by
    unfold dm; cases hc : c.del d with
    | none => simp
    | some z => exact hwf.2.1 d z hc
  have hSc : sharesOf c = v.shares.m := by unfold sharesOf; rw [hv0]
  have hSc' : sharesOf c' = v.shares.m - amount * P + r.m := by unfold sharesOf; rw [hv3]; exact t2
  have hN : stakeNum c d = (dm c d + c.bal d * P) * v.tokens := by unfold stakeNum; rw [hv0]
  have hN' : stakeNum c' d = (dm c d + c.bal d * P - (amount * P - r.m) - 0) * v.tokens := by
    unfold stakeNum; rw [hv3]; show (dm c' d + c'.bal d * P) * v3.tokens = _; rw [hd1, hb1, t1]; congr 1; grind
  rw [hSc] at hH
  have hH1 : amount * P ≤ dm c d + c.bal d * P := by
    have : amount * P ≤ c.bal d * P := Int.mul_le_mul_of_nonneg_right hbal (by decide)
    omega
  unfold ValueWithinTwo
  rw [hSc, hSc', hN, hN']
  generalize dm c d + c.bal d * P = H at hH hH1 ⊢
  rcases hcase with ⟨es, er⟩ | ⟨amt, c1', c2', c3', c4', c5', c6', c7', c8'⟩
  · have hHS : H = v.shares.m := by omega
    rw [es, er, hHS]
    have e : (v.shares.m - (v.shares.m - v.tokens * P) - 0) * v.tokens * v.shares.m
           = v.shares.m * v.tokens * (v.shares.m - v.shares.m + v.tokens * P) := by grind
    have hnn : 0 ≤ 2 * v.shares.m * (v.shares.m - v.shares.m + v.tokens * P) := by
      have : v.shares.m - v.shares.m + v.tokens * P = v.tokens * P := by omega
      rw [this]
      exact Int.mul_nonneg (by omega) (Int.mul_nonneg hT (by decide))
    rw [e]; omega
  · have hA : v.tokens * 0 ≤ v.shares.m - amount * P + r.m - v.tokens := by
      rw [t1, t2] at hp; omega
    have := value_core v.tokens v.shares.m (amount * P) amt r.m H 0 hS hsh c1' c2' c3' hr0 c4' c5' c6' c7' c8'
      hH1 hH (by omega) hA
    exact ⟨this.2, this.1⟩
end KV.Liquid
