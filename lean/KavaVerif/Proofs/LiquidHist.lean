/-
  Helper lemmas for C12, part 2: invariants over histories.
  (a) `Inv`: x/staking well-formedness + backing, preserved by every operation of the repaired code
      (`mintReceived = true`), slashes included;
  (b) `Good`: exchange rate one, whole shares, backing — preserved by every operation of the code as it is,
      except a slash of that validator.
-/
import KavaVerif.Proofs.Liquid
set_option linter.unusedSimpArgs false
set_option linter.unusedVariables false
namespace KV.Liquid
open KV

def optm (o : Option Dec) : Int := match o with | some d => d.m | none => 0

theorem dm_eq (c : VSt) (a : Addr) : dm c a = optm (c.del a) := rfl

def dsum (del : Addr → Option Dec) : List Addr → Int
  | [] => 0
  | a :: t => optm (del a) + dsum del t

theorem dsum_updD_notin (l : List Addr) (f : Addr → Option Dec) (a : Addr) (x : Option Dec) (h : a ∉ l) :
    dsum (updD f a x) l = dsum f l := by
  induction l with
  | nil => rfl
  | cons b t ih =>
    simp only [List.mem_cons, not_or] at h
    have hb : ¬ b = a := fun e => h.1 e.symm
    simp only [dsum, updD, hb, ite_false, ih h.2]

theorem dsum_updD (l : List Addr) (f : Addr → Option Dec) (a : Addr) (x : Option Dec) (hn : l.Nodup) (h : a ∈ l) :
    dsum (updD f a x) l = dsum f l - optm (f a) + optm x := by
  induction l with
  | nil => cases h
  | cons b t ih =>
    have hnd := List.nodup_cons.mp hn
    by_cases hb : b = a
    · subst hb
      simp only [dsum, updD, ite_true, dsum_updD_notin t f b x hnd.1]
      omega
    · have hm : a ∈ t := by
        cases h with
        | head => exact absurd rfl hb
        | tail _ h' => exact h'
      simp only [dsum, updD, hb, ite_false, ih hnd.2 hm]
      omega

theorem dsum_nonneg (l : List Addr) (f : Addr → Option Dec) (h : ∀ a d, f a = some d → 0 ≤ d.m) : 0 ≤ dsum f l := by
  induction l with
  | nil => simp [dsum]
  | cons b t ih =>
    simp only [dsum]
    have : 0 ≤ optm (f b) := by
      unfold optm; cases hb : f b with
      | none => simp
      | some d => exact h b d hb
    omega

theorem le_dsum (l : List Addr) (f : Addr → Option Dec) (h : ∀ a d, f a = some d → 0 ≤ d.m) (a : Addr) (ha : a ∈ l) :
    optm (f a) ≤ dsum f l := by
  induction l with
  | nil => cases ha
  | cons b t ih =>
    simp only [dsum]
    have hb : 0 ≤ optm (f b) := by
      unfold optm; cases hb : f b with
      | none => simp
      | some d => exact h b d hb
    have ht := dsum_nonneg t f h
    cases ha with
    | head => omega
    | tail _ h' => have := ih h'; omega

/-- well-formedness of the staking records of one validator (x/staking's own invariants):
    only listed accounts hold delegations, shares are non-negative and add up to the validator's
    DelegatorShares, tokens are non-negative. -/
def WF (accts : List Addr) (c : VSt) : Prop :=
  (∀ a, a ∉ accts → c.del a = none) ∧ (∀ a d, c.del a = some d → 0 ≤ d.m) ∧
  (∀ v, c.val = some v → 0 ≤ v.tokens ∧ v.shares.m = dsum c.del accts)

theorem unbond_inv (accts : List Addr) (hn : accts.Nodup) (c c1 : VSt) (d : Addr) (sh : Dec) (amt : Int)
    (hd : d ∈ accts) (hs : 0 ≤ sh.m) (hwf : WF accts c) (h : unbond c d sh = .ok (c1, amt)) :
    WF accts c1 ∧ 0 ≤ amt ∧ (∀ a, dm c1 a = if a = d then dm c d - sh.m else dm c a) ∧
    c1.supply = c.supply ∧ c1.bal = c.bal ∧ c1.ubd = c.ubd ∧ c1.redel = c.redel := by
  obtain ⟨w1, w2, w3⟩ := hwf
  obtain ⟨x, v, v2, hx, hle, hv, hr, hval1, hdel1, f1, f2, f3, f4⟩ := unbond_spec c c1 d sh amt h
  obtain ⟨hT, hS⟩ := w3 v hv
  have hx0 := w2 d x hx
  have hdm : ∀ a, dm c1 a = if a = d then dm c d - sh.m else dm c a := by
    intro a
    simp only [dm_eq, hdel1]
    have e : (x.sub sh).m = x.m - sh.m := rfl
    by_cases had : a = d
    · subst had
      simp only [ite_true, hx, optm]
      by_cases h0 : (x.sub sh).m = 0
      · rw [if_pos h0]; simp only [updD, ite_true]; omega
      · rw [if_neg h0]; simp only [updD, ite_true]; omega
    · simp only [had, ite_false]
      by_cases h0 : (x.sub sh).m = 0
      · rw [if_pos h0]; simp only [updD, had, ite_false]
      · rw [if_neg h0]; simp only [updD, had, ite_false]
  have hjt : (jailAdj v d (x.sub sh)).tokens = v.tokens ∧ (jailAdj v d (x.sub sh)).shares = v.shares := by
    unfold jailAdj; split <;> exact ⟨rfl, rfl⟩
  obtain ⟨a1, -, -, -, -, a6⟩ := removeDelShares_spec _ v2 sh amt hr
  rw [hjt.2] at a1
  have hxS : x.m ≤ v.shares.m := by
    rw [hS]; have := le_dsum accts c.del w2 d hd; rw [hx] at this; exact this
  have hamt : 0 ≤ amt ∧ 0 ≤ v2.tokens := by
    rcases a6 with ⟨-, e1, e2⟩ | ⟨hne, hne2, e1, e2, e3⟩
    · rw [hjt.1] at e1; omega
    · have hSpos : 0 < (jailAdj v d (x.sub sh)).shares.m := by rw [hjt.2]; omega
      rw [tfs_trunc _ sh (by rw [hjt.1]; exact hT) hSpos hs] at e1
      have := tokOut_nonneg (jailAdj v d (x.sub sh)).tokens (jailAdj v d (x.sub sh)).shares.m sh.m (by rw [hjt.1]; exact hT) hSpos hs
      omega
  have hsum : dsum c1.del accts = dsum c.del accts - sh.m := by
    rw [hdel1]
    have e : (x.sub sh).m = x.m - sh.m := rfl
    by_cases h0 : (x.sub sh).m = 0
    · rw [if_pos h0, dsum_updD accts c.del d none hn hd, hx]; simp only [optm]; omega
    · rw [if_neg h0, dsum_updD accts c.del d _ hn hd, hx]; simp only [optm]; omega
  refine ⟨⟨?_, ?_, ?_⟩, hamt.1, hdm, f4, f3, f2, f1⟩
  · intro a ha
    have had : a ≠ d := fun e => ha (e ▸ hd)
    rw [hdel1]; split <;> simp only [updD, had, ite_false] <;> exact w1 a ha
  · intro a y hy
    rw [hdel1] at hy
    by_cases had : a = d
    · subst had
      by_cases h0 : (x.sub sh).m = 0
      · rw [if_pos h0] at hy; simp only [updD, ite_true] at hy; cases hy
      · rw [if_neg h0] at hy; simp only [updD, ite_true, Option.some.injEq] at hy
        subst hy; show 0 ≤ x.m - sh.m; omega
    · by_cases h0 : (x.sub sh).m = 0
      · rw [if_pos h0] at hy; simp only [updD, had, ite_false] at hy; exact w2 a y hy
      · rw [if_neg h0] at hy; simp only [updD, had, ite_false] at hy; exact w2 a y hy
  · intro v' hv'
    rw [hval1] at hv'
    split at hv'
    · cases hv'
    · cases hv'
      exact ⟨hamt.2, by rw [a1, hsum, hS]⟩


theorem tquo_nonneg (a b : Int) (ha : 0 ≤ a) (hb : 0 ≤ b) : 0 ≤ tquo a b := by
  rw [tquo_nonneg_eq a b ha hb]; exact Int.ediv_nonneg ha hb

theorem delegate_inv (accts : List Addr) (hn : accts.Nodup) (c c2 : VSt) (d : Addr) (amt : Int) (r : Dec)
    (hd : d ∈ accts) (ha : 0 ≤ amt) (hwf : WF accts c) (h : delegate c d amt = .ok (c2, r)) :
    WF accts c2 ∧ 0 ≤ r.m ∧ (∀ a, dm c2 a = if a = d then dm c d + r.m else dm c a) ∧
    c2.supply = c.supply ∧ c2.bal = c.bal ∧ c2.ubd = c.ubd ∧ c2.redel = c.redel := by
  obtain ⟨w1, w2, w3⟩ := hwf
  obtain ⟨v, v1, hv, hinv, hadd, hval2, hdel2, g1, g2, g3, g4⟩ := delegate_spec c c2 d amt r h
  obtain ⟨hT, hS⟩ := w3 v hv
  obtain ⟨b1, b2, -, -, -, -, b7⟩ := addTokensFromDel_spec v v1 amt r hadd
  have hS0 : 0 ≤ v.shares.m := by rw [hS]; exact dsum_nonneg accts c.del w2
  have hr : 0 ≤ r.m := by
    rcases b7 with ⟨-, e⟩ | ⟨-, -, e⟩
    · rw [e]; exact Int.mul_nonneg ha (by decide)
    · rw [e]; exact tquo_nonneg _ _ (Int.mul_nonneg hS0 ha) hT
  have hdm : ∀ a, dm c2 a = if a = d then dm c d + r.m else dm c a := by
    intro a
    by_cases had : a = d
    · subst had
      simp only [ite_true]
      rw [dm_eq, hdel2]; simp only [updD, ite_true, optm]
    · simp only [had, ite_false]
      rw [dm_eq, dm_eq, hdel2]; simp only [updD, had, ite_false]
  have hsum : dsum c2.del accts = dsum c.del accts + r.m := by
    rw [hdel2, dsum_updD accts c.del d _ hn hd]
    simp only [optm, dm_eq]; omega
  refine ⟨⟨?_, ?_, ?_⟩, hr, hdm, g4, g3, g2, g1⟩
  · intro a ha'
    have had : a ≠ d := fun e => ha' (e ▸ hd)
    rw [hdel2]; simp only [updD, had, ite_false]; exact w1 a ha'
  · intro a y hy
    rw [hdel2] at hy
    by_cases had : a = d
    · subst had
      simp only [updD, ite_true, Option.some.injEq] at hy
      subst hy
      show 0 ≤ dm c a + r.m
      have : 0 ≤ dm c a := by
        unfold dm; cases hc : c.del a with
        | none => simp
        | some z => exact w2 a z hc
      omega
    · simp only [updD, had, ite_false] at hy; exact w2 a y hy
  · intro v' hv'
    rw [hval2] at hv'; cases hv'
    exact ⟨by omega, by rw [b2, hsum, hS]⟩


theorem transfer_inv (accts : List Addr) (hn : accts.Nodup) (g : Cfg) (c c2 : VSt) (frm to : Addr) (sh r : Dec)
    (hf : frm ∈ accts) (ht : to ∈ accts) (hne : frm ≠ to) (hwf : WF accts c)
    (h : transfer g c frm to sh = .ok (c2, r)) :
    WF accts c2 ∧ 0 ≤ r.m ∧ 0 < sh.m ∧ sh.m ≤ dm c frm ∧
    (∀ a, dm c2 a = if a = frm then dm c frm - sh.m else if a = to then dm c to + r.m else dm c a) ∧
    c2.supply = c.supply ∧ c2.bal = c.bal ∧ c2.ubd = c.ubd ∧ c2.redel = c.redel := by
  obtain ⟨-, hpos, x, v, c1, amt, hx, hv, hg, hu, hcase⟩ := transfer_spec g c c2 frm to sh r h
  obtain ⟨wf1, hamt, hdm1, s1, b1, u1, r1⟩ := unbond_inv accts hn c c1 frm sh amt hf (by omega) hwf hu
  obtain ⟨x', -, -, hx', hle, -⟩ := unbond_spec c c1 frm sh amt hu
  have hlef : sh.m ≤ dm c frm := by
    have e : dm c frm = (match c.del frm with | some d => d.m | none => 0) := rfl
    rw [e, hx']; exact hle
  rcases hcase with ⟨-, -, hc, hr0⟩ | ⟨-, hd⟩
  · subst hc; subst hr0
    refine ⟨wf1, by simp [Dec.zero], hpos, hlef, ?_, s1, b1, u1, r1⟩
    intro a
    rw [hdm1 a]
    by_cases h1 : a = frm
    · simp only [h1, ite_true]
    · simp only [h1, ite_false]
      by_cases h2 : a = to
      · simp only [h2, ite_true, Dec.zero]; omega
      · simp only [h2, ite_false]
  · obtain ⟨wf2, hr, hdm2, s2, b2, u2, r2⟩ := delegate_inv accts hn c1 c2 to amt r ht hamt wf1 hd
    refine ⟨wf2, hr, hpos, hlef, ?_, by rw [s2, s1], by rw [b2, b1], by rw [u2, u1], by rw [r2, r1]⟩
    intro a
    rw [hdm2 a]
    by_cases h1 : a = to
    · subst h1
      have : ¬ a = frm := fun e => hne e.symm
      simp only [this, ite_false, ite_true, hdm1 a]
    · simp only [h1, ite_false, hdm1 a]

/-- staking records well-formed and (when `bk`) the derivative backed.  `Inv true` is the invariant of the
    repaired code; `Inv false` is plain well-formedness, preserved by the code as it is. -/
def Inv (bk : Bool) (accts : List Addr) (M : Addr) (c : VSt) : Prop := WF accts c ∧ (bk = true → Backed M c)

theorem truncateInt_le (r : Dec) (h : 0 ≤ r.m) : r.truncateInt * P ≤ r.m := by
  unfold Dec.truncateInt; rw [chopTrunc_nonneg_eq _ h]; exact Int.ediv_mul_le _ (by decide)

theorem mint_inv_fixed (bk : Bool) (accts : List Addr) (hn : accts.Nodup) (g : Cfg) (hg : bk = true → g.mintReceived = true) (M : Addr)
    (c c' : VSt) (d : Addr) (amount der : Int) (hM : M ∈ accts) (hd : d ∈ accts) (hne : d ≠ M)
    (hinv : Inv bk accts M c) (h : mint g M c d true amount = .ok (c', der)) : Inv bk accts M c' := by
  obtain ⟨hwf, hb⟩ := hinv
  obtain ⟨-, shares, c1, r, -, ht, hder, e1, e2, e3, e4, e5, e6⟩ := mint_effect g M c c' d amount der h
  obtain ⟨wf1, hr, -, -, hdm, s1, -, -, -⟩ := transfer_inv accts hn g c c1 d M shares r hd hM hne hwf ht
  refine ⟨⟨?_, ?_, ?_⟩, ?_⟩
  · intro a ha; rw [e2]; exact wf1.1 a ha
  · intro a y hy; rw [e2] at hy; exact wf1.2.1 a y hy
  · intro v hv; rw [e1] at hv; rw [e2]; exact wf1.2.2 v hv
  · intro hbt
    have hb := hb hbt
    rw [hg hbt] at hder; simp only [ite_true] at hder
    unfold Backed at *
    have hM2 : dm c' M = dm c M + r.m := by
      have : dm c' M = dm c1 M := by unfold dm; rw [e2]
      rw [this, hdm M]
      have : ¬ M = d := fun e => hne e.symm
      simp only [this, ite_false, ite_true]
    rw [hM2, e6, s1, hder]
    have := truncateInt_le r hr
    have e : (c.supply + r.truncateInt) * P = c.supply * P + r.truncateInt * P := Int.add_mul _ _ _
    omega

theorem burn_inv (bk : Bool) (accts : List Addr) (hn : accts.Nodup) (g : Cfg) (M : Addr)
    (c c' : VSt) (d : Addr) (amount : Int) (r : Dec) (hM : M ∈ accts) (hd : d ∈ accts) (hne : d ≠ M)
    (hinv : Inv bk accts M c) (h : burn g M c d amount = .ok (c', r)) : Inv bk accts M c' := by
  obtain ⟨hwf, hb⟩ := hinv
  obtain ⟨h0, hbal, ht⟩ := burn_effect g M c c' d amount r h
  have hwf0 : WF accts { c with bal := updI c.bal d (c.bal d - amount), supply := c.supply - amount } := hwf
  obtain ⟨wf1, hr, -, -, hdm, s1, -, -, -⟩ := transfer_inv accts hn g _ c' M d _ r hM hd (fun e => hne e.symm) hwf0 ht
  refine ⟨wf1, ?_⟩
  intro hbt
  have hb := hb hbt
  unfold Backed at *
  have := hdm M
  simp only [ite_true] at this
  have e0 : dm { c with bal := updI c.bal d (c.bal d - amount), supply := c.supply - amount } M = dm c M := rfl
  rw [e0] at this
  rw [this, s1]
  show (c.supply - amount) * P ≤ dm c M - (Dec.ofInt amount).m
  have e : (c.supply - amount) * P = c.supply * P - amount * P := Int.sub_mul _ _ _
  have e2 : (Dec.ofInt amount).m = amount * P := rfl
  omega

theorem validate_nonneg (accts : List Addr) (c : VSt) (d : Addr) (amt : Int) (sh : Dec) (hwf : WF accts c) (ha : 0 ≤ amt)
    (h : validateUnbondAmount c d amt = some sh) : 0 ≤ sh.m := by
  obtain ⟨w1, w2, w3⟩ := hwf
  unfold validateUnbondAmount at h
  split at h
  · cases h
  · rename_i v hv
    split at h
    · cases h
    · rename_i x hx
      split at h
      · cases h
      · rename_i shares hs
        split at h
        · cases h
        · rename_i st hst
          have hx0 := w2 d x hx
          obtain ⟨hT, hS⟩ := w3 v hv
          have hS0 : 0 ≤ v.shares.m := by rw [hS]; exact dsum_nonneg accts c.del w2
          have hsh : 0 ≤ shares.m := by
            unfold Val.sharesFromTokens at hs
            split at hs
            · cases hs
            · cases hs
              exact tquo_nonneg _ _ (Int.mul_nonneg hS0 ha) hT
          split at h
          · cases h
          · split at h
            · cases h; exact hx0
            · cases h; exact hsh

theorem frame_inv (bk : Bool) (accts : List Addr) (M : Addr) (c c' : VSt) (h1 : c'.val = c.val) (h2 : c'.del = c.del)
    (h3 : c'.supply = c.supply) (hinv : Inv bk accts M c) : Inv bk accts M c' := by
  obtain ⟨⟨w1, w2, w3⟩, hb⟩ := hinv
  refine ⟨⟨by rw [h2]; exact w1, by rw [h2]; exact w2, by rw [h1, h2]; exact w3⟩, ?_⟩
  intro hbt
  have hb := hb hbt
  unfold Backed dm at *; rw [h2, h3]; exact hb

theorem bankSend_inv (bk : Bool) (accts : List Addr) (M : Addr) (c c' : VSt) (a b : Addr) (n : Int) (hinv : Inv bk accts M c)
    (h : bankSend c a b n = .ok c') : Inv bk accts M c' := by
  unfold bankSend at h
  split at h
  · cases h
  · split at h
    · cases h
    · cases h; exact frame_inv bk accts M c _ rfl rfl rfl hinv

/-- an operation of another account that leaves supply alone and does not touch the module's delegation -/
theorem other_inv (bk : Bool) (accts : List Addr) (M : Addr) (c c' : VSt) (hwf' : WF accts c') (hs : c'.supply = c.supply)
    (hdm : dm c' M = dm c M) (hinv : Inv bk accts M c) : Inv bk accts M c' := by
  refine ⟨hwf', ?_⟩
  intro hbt
  have := hinv.2 hbt
  unfold Backed at *; rw [hs, hdm]; exact this

theorem stkDelegate_inv (bk : Bool) (accts : List Addr) (hn : accts.Nodup) (M : Addr) (c c' : VSt) (d : Addr) (amt : Int)
    (hd : d ∈ accts) (hne : d ≠ M) (hinv : Inv bk accts M c) (h : stkDelegate c d amt = .ok c') : Inv bk accts M c' := by
  unfold stkDelegate at h
  split at h
  · cases h
  · rename_i hpos
    split at h
    · rename_i c1 r hd'
      cases h
      obtain ⟨wf, -, hdm, s, -⟩ := delegate_inv accts hn c c' d amt r hd (by omega) hinv.1 hd'
      have : ¬ M = d := fun e => hne e.symm
      exact other_inv bk accts M c c' wf s (by rw [hdm M]; simp only [this, ite_false]) hinv
    · cases h
    · cases h

theorem stkUndelegateShares_inv (bk : Bool) (accts : List Addr) (hn : accts.Nodup) (M : Addr) (c c' : VSt) (d : Addr) (sh : Dec) (amt : Int)
    (hd : d ∈ accts) (hne : d ≠ M) (hs : 0 ≤ sh.m) (hinv : Inv bk accts M c) (h : stkUndelegateShares c d sh = .ok (c', amt)) :
    Inv bk accts M c' := by
  unfold stkUndelegateShares at h
  split at h
  · cases h
  · split at h
    · cases h
    · cases h
    · rename_i c1 amt' hu
      cases h
      obtain ⟨wf, -, hdm, s, -⟩ := unbond_inv accts hn c c1 d sh amt hd hs hinv.1 hu
      have : ¬ M = d := fun e => hne e.symm
      have hi1 : Inv bk accts M c1 := other_inv bk accts M c c1 wf s (by rw [hdm M]; simp only [this, ite_false]) hinv
      exact frame_inv bk accts M c1 _ rfl rfl rfl hi1

theorem stkUndelegate_inv (bk : Bool) (accts : List Addr) (hn : accts.Nodup) (M : Addr) (c c' : VSt) (d : Addr) (amt : Int)
    (hd : d ∈ accts) (hne : d ≠ M) (hinv : Inv bk accts M c) (h : stkUndelegate c d amt = .ok c') : Inv bk accts M c' := by
  unfold stkUndelegate at h
  split at h
  · cases h
  · rename_i hpos
    split at h
    · cases h
    · rename_i sh hv
      have hs := validate_nonneg accts c d amt sh hinv.1 (by omega) hv
      split at h
      · rename_i c1 a hu
        cases h
        exact stkUndelegateShares_inv bk accts hn M c c' d sh a hd hne hs hinv hu
      · cases h
      · cases h

theorem stkRedelegateOut_inv (bk : Bool) (accts : List Addr) (hn : accts.Nodup) (M : Addr) (c c' : VSt) (d : Addr) (amt tokens : Int)
    (hd : d ∈ accts) (hne : d ≠ M) (hinv : Inv bk accts M c) (h : stkRedelegateOut c d amt = .ok (c', tokens)) :
    Inv bk accts M c' ∧ 0 ≤ tokens := by
  unfold stkRedelegateOut at h
  split at h
  · cases h
  · rename_i hpos
    split at h
    · cases h
    · split at h
      · cases h
      · rename_i sh hv
        have hs := validate_nonneg accts c d amt sh hinv.1 (by omega) hv
        split at h
        · cases h
        · cases h
        · rename_i c1 tk hu
          split at h
          · cases h
          · cases h
            obtain ⟨wf, ht, hdm, s, -⟩ := unbond_inv accts hn c c' d sh tokens hd hs hinv.1 hu
            have : ¬ M = d := fun e => hne e.symm
            exact ⟨other_inv bk accts M c c' wf s (by rw [hdm M]; simp only [this, ite_false]) hinv, ht⟩

theorem stkRedelegateIn_inv (bk : Bool) (accts : List Addr) (hn : accts.Nodup) (M : Addr) (c c' : VSt) (d : Addr) (tokens : Int) (fb : Bool)
    (hd : d ∈ accts) (hne : d ≠ M) (ht : 0 ≤ tokens) (hinv : Inv bk accts M c) (h : stkRedelegateIn c d tokens fb = .ok c') :
    Inv bk accts M c' := by
  unfold stkRedelegateIn at h
  split at h
  · rename_i c1 r hd'
    obtain ⟨wf, -, hdm, s, -⟩ := delegate_inv accts hn c c1 d tokens r hd ht hinv.1 hd'
    have : ¬ M = d := fun e => hne e.symm
    have hi1 : Inv bk accts M c1 := other_inv bk accts M c c1 wf s (by rw [hdm M]; simp only [this, ite_false]) hinv
    cases h
    split
    · exact frame_inv bk accts M c1 _ rfl rfl rfl hi1
    · exact hi1
  · cases h
  · cases h

theorem stkSlash_inv (bk : Bool) (accts : List Addr) (M : Addr) (c c' : VSt) (b : Int) (hinv : Inv bk accts M c)
    (h : stkSlash c b = .ok c') : Inv bk accts M c' := by
  unfold stkSlash at h
  split at h
  · cases h
  · rename_i v hv
    split at h
    · cases h
    · rename_i hb
      cases h
      obtain ⟨⟨w1, w2, w3⟩, hbk⟩ := hinv
      refine ⟨⟨w1, w2, ?_⟩, hbk⟩
      intro v' hv'
      simp only [Option.some.injEq] at hv'
      subst hv'
      have := w3 v hv
      exact ⟨by simp only []; omega, this.2⟩

theorem stkSetStatus_inv (bk : Bool) (accts : List Addr) (M : Addr) (c c' : VSt) (st : Status) (j : Bool) (hinv : Inv bk accts M c)
    (h : stkSetStatus c st j = .ok c') : Inv bk accts M c' := by
  unfold stkSetStatus at h
  split at h
  · cases h
  · rename_i v hv
    obtain ⟨⟨w1, w2, w3⟩, hbk⟩ := hinv
    split at h
    · cases h
      exact ⟨⟨w1, w2, by intro v' hv'; cases hv'⟩, hbk⟩
    · cases h
      refine ⟨⟨w1, w2, ?_⟩, hbk⟩
      intro v' hv'
      simp only [Option.some.injEq] at hv'
      subst hv'
      exact w3 v hv


/-- the accounts whose delegation records an operation may create -/
def Op.actors : Op → List Addr
  | .mint d _ _ => [d]
  | .burn d _ _ => [d]
  | .delegate d _ _ => [d]
  | .undelegate d _ _ => [d]
  | .redelegate d _ _ _ => [d]
  | _ => []

theorem updC_all {Q : VSt → Prop} (s : Chain) (w : Nat) (c : VSt) (h : ∀ v, Q (s v)) (hc : Q c) : ∀ v, Q (updC s w c v) := by
  intro v; unfold updC; split
  · exact hc
  · exact h v

theorem liftV_ok {α : Type} (s s' : Chain) (v : Nat) (r : Res (VSt × α)) (h : liftV s v r = .ok s') :
    ∃ c x, r = .ok (c, x) ∧ s' = updC s v c := by
  unfold liftV at h
  split at h
  · cases h; exact ⟨_, _, rfl, rfl⟩
  · cases h
  · cases h

theorem lift0_ok (s s' : Chain) (v : Nat) (r : Res VSt) (h : lift0 s v r = .ok s') :
    ∃ c, r = .ok c ∧ s' = updC s v c := by
  unfold lift0 at h
  split at h
  · cases h; exact ⟨_, rfl, rfl⟩
  · cases h
  · cases h

theorem step_inv_fixed (bk : Bool) (accts : List Addr) (hn : accts.Nodup) (g : Cfg) (hg : bk = true → g.mintReceived = true) (M : Addr) (hM : M ∈ accts)
    (s s' : Chain) (op : Op) (hact : ∀ a ∈ op.actors, a ∈ accts) (hinv : ∀ v, Inv bk accts M (s v))
    (h : step g M s op = .ok s') : ∀ v, Inv bk accts M (s' v) := by
  cases op with
  | mint d v a =>
    simp only [step] at h
    split at h
    · cases h
    · rename_i hne
      obtain ⟨c, x, hr, rfl⟩ := liftV_ok s s' v _ h
      exact updC_all s v c hinv (mint_inv_fixed bk accts hn g hg M (s v) c d a x hM (hact d (by simp [Op.actors])) hne (hinv v) hr)
  | burn d v a =>
    simp only [step] at h
    split at h
    · cases h
    · rename_i hne
      obtain ⟨c, x, hr, rfl⟩ := liftV_ok s s' v _ h
      exact updC_all s v c hinv (burn_inv bk accts hn g M (s v) c d a x hM (hact d (by simp [Op.actors])) hne (hinv v) hr)
  | send a b v n =>
    simp only [step] at h
    split at h
    · cases h
    · obtain ⟨c, hr, rfl⟩ := lift0_ok s s' v _ h
      exact updC_all s v c hinv (bankSend_inv bk accts M (s v) c a b n (hinv v) hr)
  | delegate d v a =>
    simp only [step] at h
    split at h
    · cases h
    · rename_i hne
      obtain ⟨c, hr, rfl⟩ := lift0_ok s s' v _ h
      exact updC_all s v c hinv (stkDelegate_inv bk accts hn M (s v) c d a (hact d (by simp [Op.actors])) hne (hinv v) hr)
  | undelegate d v a =>
    simp only [step] at h
    split at h
    · cases h
    · rename_i hne
      obtain ⟨c, hr, rfl⟩ := lift0_ok s s' v _ h
      exact updC_all s v c hinv (stkUndelegate_inv bk accts hn M (s v) c d a (hact d (by simp [Op.actors])) hne (hinv v) hr)
  | redelegate d src dst a =>
    simp only [step] at h
    split at h
    · cases h
    · rename_i hne
      have hdM : d ≠ M := fun e => hne (Or.inl e)
      have hsd : src ≠ dst := fun e => hne (Or.inr e)
      split at h
      · cases h
      · cases h
      · rename_i c1 tokens hout
        obtain ⟨i1, ht⟩ := stkRedelegateOut_inv bk accts hn M (s src) c1 d a tokens (hact d (by simp [Op.actors])) hdM (hinv src) hout
        obtain ⟨c, hr, rfl⟩ := lift0_ok _ s' dst _ h
        have hall := updC_all s src c1 hinv i1
        exact updC_all _ dst c hall (stkRedelegateIn_inv bk accts hn M (s dst) c d tokens _ (hact d (by simp [Op.actors])) hdM ht (hinv dst) hr)
  | slash v b =>
    simp only [step] at h
    obtain ⟨c, hr, rfl⟩ := lift0_ok s s' v _ h
    exact updC_all s v c hinv (stkSlash_inv bk accts M (s v) c b (hinv v) hr)
  | setStatus v st j =>
    simp only [step] at h
    obtain ⟨c, hr, rfl⟩ := lift0_ok s s' v _ h
    exact updC_all s v c hinv (stkSetStatus_inv bk accts M (s v) c st j (hinv v) hr)
  | redelDone d v =>
    simp only [step] at h
    cases h
    exact updC_all s v _ hinv (frame_inv bk accts M (s v) _ rfl rfl rfl (hinv v))

theorem run_inv_fixed (bk : Bool) (accts : List Addr) (hn : accts.Nodup) (g : Cfg) (hg : bk = true → g.mintReceived = true) (M : Addr) (hM : M ∈ accts)
    (ops : List Op) : ∀ (s s' : Chain), (∀ op ∈ ops, ∀ a ∈ op.actors, a ∈ accts) → (∀ v, Inv bk accts M (s v)) →
      run g M s ops = some s' → ∀ v, Inv bk accts M (s' v) := by
  induction ops with
  | nil => intro s s' _ hinv h; simp only [run] at h; cases h; exact hinv
  | cons op ops ih =>
    intro s s' hact hinv h
    simp only [run] at h
    have hact' : ∀ op' ∈ ops, ∀ a ∈ op'.actors, a ∈ accts := fun o ho => hact o (List.mem_cons_of_mem _ ho)
    split at h
    · rename_i s1 hs
      exact ih s1 s' hact' (step_inv_fixed bk accts hn g hg M hM s s1 op (hact op (List.mem_cons_self)) hinv hs) h
    · exact ih s s' hact' hinv h
    · cases h

/-! ### (b) the code as it is, on validators whose exchange rate is one -/

/-- exchange rate one and whole shares: the validator was never slashed and never left trimmings -/
def Rate1 (c : VSt) : Prop :=
  (∀ a d, c.del a = some d → 0 ≤ d.m ∧ d.m % P = 0) ∧
  (∀ v, c.val = some v → 0 ≤ v.tokens ∧ v.shares.m = v.tokens * P)

def Good (M : Addr) (c : VSt) : Prop := Rate1 c ∧ Backed M c

theorem jailAdj_ts (v : Val) (d : Addr) (nd : Dec) :
    (jailAdj v d nd).tokens = v.tokens ∧ (jailAdj v d nd).shares = v.shares := by
  unfold jailAdj; split <;> exact ⟨rfl, rfl⟩

theorem unbond_rate1 (c c1 : VSt) (d : Addr) (sh : Dec) (amt k : Int) (hk : sh.m = k * P) (hk0 : 0 ≤ k)
    (hr1 : Rate1 c) (h : unbond c d sh = .ok (c1, amt)) :
    Rate1 c1 ∧ amt = k ∧ (∀ a, dm c1 a = if a = d then dm c d - sh.m else dm c a) ∧
    c1.supply = c.supply ∧ c1.bal = c.bal ∧ c1.ubd = c.ubd ∧ c1.redel = c.redel := by
  obtain ⟨r1, r2⟩ := hr1
  obtain ⟨x, v, v2, hx, hle, hv, hr, hval1, hdel1, f1, f2, f3, f4⟩ := unbond_spec c c1 d sh amt h
  obtain ⟨hT, hS⟩ := r2 v hv
  obtain ⟨hx0, hxP⟩ := r1 d x hx
  obtain ⟨jt, js⟩ := jailAdj_ts v d (x.sub sh)
  obtain ⟨a1, -, -, -, -, a6⟩ := removeDelShares_spec _ v2 sh amt hr
  rw [js] at a1
  have hs0 : 0 ≤ sh.m := by rw [hk]; exact Int.mul_nonneg hk0 (by decide)
  have hamt : amt = k ∧ 0 ≤ v2.tokens ∧ v2.shares.m = v2.tokens * P := by
    rcases a6 with ⟨e0, e1, e2⟩ | ⟨hne, hne2, e1, e2, e3⟩
    · rw [jt] at e1
      have : v.tokens * P = k * P := by omega
      have : v.tokens = k := Int.eq_of_mul_eq_mul_right (by decide) this
      exact ⟨by omega, by omega, by rw [e0, e2]; simp⟩
    · rw [js] at hne2
      have hTpos : 0 < v.tokens := by
        rcases Int.lt_or_eq_of_le hT with h' | h'
        · exact h'
        · rw [← h'] at hS; simp at hS; omega
      have hTP : 0 < v.tokens * P := Int.mul_pos hTpos P_pos
      have hSpos : 0 < (jailAdj v d (x.sub sh)).shares.m := by rw [js]; omega
      rw [tfs_trunc _ sh (by rw [jt]; exact hT) hSpos hs0, jt, js, hS, hk, tokOut_rate_one _ _ hTpos hk0] at e1
      rw [jt] at e2
      refine ⟨e1, e3, ?_⟩
      rw [a1, e2, e1, hS, hk]; grind
  have hdm : ∀ a, dm c1 a = if a = d then dm c d - sh.m else dm c a := by
    intro a
    simp only [dm_eq, hdel1]
    have e : (x.sub sh).m = x.m - sh.m := rfl
    by_cases had : a = d
    · subst had
      simp only [ite_true, hx, optm]
      by_cases h0 : (x.sub sh).m = 0
      · rw [if_pos h0]; simp only [updD, ite_true]; omega
      · rw [if_neg h0]; simp only [updD, ite_true]; omega
    · simp only [had, ite_false]
      by_cases h0 : (x.sub sh).m = 0
      · rw [if_pos h0]; simp only [updD, had, ite_false]
      · rw [if_neg h0]; simp only [updD, had, ite_false]
  refine ⟨⟨?_, ?_⟩, hamt.1, hdm, f4, f3, f2, f1⟩
  · intro a y hy
    rw [hdel1] at hy
    by_cases had : a = d
    · subst had
      by_cases h0 : (x.sub sh).m = 0
      · rw [if_pos h0] at hy; simp only [updD, ite_true] at hy; cases hy
      · rw [if_neg h0] at hy; simp only [updD, ite_true, Option.some.injEq] at hy
        subst hy
        show 0 ≤ x.m - sh.m ∧ (x.m - sh.m) % P = 0
        refine ⟨by omega, ?_⟩
        rw [hk]; simp only [P_val] at *; omega
    · by_cases h0 : (x.sub sh).m = 0
      · rw [if_pos h0] at hy; simp only [updD, had, ite_false] at hy; exact r1 a y hy
      · rw [if_neg h0] at hy; simp only [updD, had, ite_false] at hy; exact r1 a y hy
  · intro v' hv'
    rw [hval1] at hv'
    split at hv'
    · cases hv'
    · cases hv'; exact ⟨hamt.2.1, hamt.2.2⟩

theorem delegate_rate1 (c c2 : VSt) (d : Addr) (amt : Int) (r : Dec) (ha : 0 ≤ amt) (hr1 : Rate1 c)
    (h : delegate c d amt = .ok (c2, r)) :
    Rate1 c2 ∧ r.m = amt * P ∧ (∀ a, dm c2 a = if a = d then dm c d + r.m else dm c a) ∧
    c2.supply = c.supply ∧ c2.bal = c.bal ∧ c2.ubd = c.ubd ∧ c2.redel = c.redel := by
  obtain ⟨r1, r2⟩ := hr1
  obtain ⟨v, v1, hv, hinv, hadd, hval2, hdel2, g1, g2, g3, g4⟩ := delegate_spec c c2 d amt r h
  obtain ⟨hT, hS⟩ := r2 v hv
  obtain ⟨b1, b2, -, -, -, -, b7⟩ := addTokensFromDel_spec v v1 amt r hadd
  have hr : r.m = amt * P := by
    rcases b7 with ⟨-, e⟩ | ⟨hs, ht, e⟩
    · exact e
    · rw [e, hS]
      have hTpos : 0 < v.tokens := by omega
      have e1 : v.tokens * P * amt = v.tokens * (amt * P) := by grind
      rw [e1, tquo_nonneg_eq _ _ (Int.mul_nonneg hT (Int.mul_nonneg ha (by decide))) hT,
        Int.mul_ediv_cancel_left _ ht]
  have hdm : ∀ a, dm c2 a = if a = d then dm c d + r.m else dm c a := by
    intro a
    by_cases had : a = d
    · subst had
      simp only [ite_true]
      rw [dm_eq, hdel2]; simp only [updD, ite_true, optm]
    · simp only [had, ite_false]
      rw [dm_eq, dm_eq, hdel2]; simp only [updD, had, ite_false]
  refine ⟨⟨?_, ?_⟩, hr, hdm, g4, g3, g2, g1⟩
  · intro a y hy
    rw [hdel2] at hy
    by_cases had : a = d
    · subst had
      simp only [updD, ite_true, Option.some.injEq] at hy
      subst hy
      show 0 ≤ dm c a + r.m ∧ (dm c a + r.m) % P = 0
      have : 0 ≤ dm c a ∧ dm c a % P = 0 := by
        unfold dm; cases hc : c.del a with
        | none => simp
        | some z => exact r1 a z hc
      rw [hr]
      have : 0 ≤ amt * P := Int.mul_nonneg ha (by decide)
      refine ⟨by omega, ?_⟩
      simp only [P_val] at *; omega
    · simp only [updD, had, ite_false] at hy; exact r1 a y hy
  · intro v' hv'
    rw [hval2] at hv'; cases hv'
    refine ⟨by omega, ?_⟩
    rw [b2, b1, hS, hr]; grind


theorem validate_rate1 (c : VSt) (d : Addr) (amt : Int) (sh : Dec) (hr1 : Rate1 c) (ha : 0 < amt)
    (h : validateUnbondAmount c d amt = some sh) : ∃ k, sh.m = k * P ∧ 0 ≤ k ∧ k ≤ amt := by
  obtain ⟨r1, r2⟩ := hr1
  unfold validateUnbondAmount at h
  split at h
  · cases h
  · rename_i v hv
    split at h
    · cases h
    · rename_i x hx
      split at h
      · cases h
      · rename_i shares hs
        split at h
        · cases h
        · rename_i st hst
          obtain ⟨hx0, hxP⟩ := r1 d x hx
          obtain ⟨hT, hS⟩ := r2 v hv
          have hsh : shares.m = amt * P := by
            unfold Val.sharesFromTokens at hs
            split at hs
            · cases hs
            · rename_i ht
              cases hs
              show tquo (v.shares.m * amt) v.tokens = amt * P
              rw [hS]
              have e1 : v.tokens * P * amt = v.tokens * (amt * P) := by grind
              rw [e1, tquo_nonneg_eq _ _ (Int.mul_nonneg hT (Int.mul_nonneg (by omega) (by decide))) hT,
                Int.mul_ediv_cancel_left _ ht]
          split at h
          · cases h
          · split at h
            · rename_i hcap
              have e := Option.some.inj h
              subst e
              refine ⟨x.m / P, ?_, Int.ediv_nonneg hx0 (by decide), ?_⟩
              · have := Int.ediv_mul_add_emod x.m P; rw [hxP] at this
                omega
              · rw [hsh] at hcap
                have : x.m / P * P ≤ x.m := Int.ediv_mul_le _ (by decide)
                have h2 : x.m / P * P < amt * P := by omega
                have := Int.lt_of_mul_lt_mul_right h2 (by decide : (0:Int) ≤ P)
                omega
            · cases h; exact ⟨amt, hsh, by omega, by omega⟩

theorem transfer_rate1 (g : Cfg) (c c2 : VSt) (frm to : Addr) (sh r : Dec) (k : Int) (hk : sh.m = k * P)
    (hne : frm ≠ to) (hr1 : Rate1 c) (h : transfer g c frm to sh = .ok (c2, r)) :
    Rate1 c2 ∧ r.m = sh.m ∧
    (∀ a, dm c2 a = if a = frm then dm c frm - sh.m else if a = to then dm c to + r.m else dm c a) ∧
    c2.supply = c.supply ∧ c2.bal = c.bal ∧ c2.ubd = c.ubd ∧ c2.redel = c.redel := by
  obtain ⟨-, hpos, x, v, c1, amt, hx, hv, hg, hu, hcase⟩ := transfer_spec g c c2 frm to sh r h
  have hk0 : 0 ≤ k := by
    rw [hk] at hpos
    rcases Int.lt_or_le k 0 with h' | h'
    · have : k * P < 0 := Int.mul_neg_of_neg_of_pos h' P_pos
      omega
    · exact h'
  obtain ⟨rr1, hamt, hdm1, s1, b1, u1, q1⟩ := unbond_rate1 c c1 frm sh amt k hk hk0 hr1 hu
  rcases hcase with ⟨-, ha0, -, -⟩ | ⟨-, hd⟩
  · -- whole shares at rate one are worth k ≥ 1 tokens: the zero-amount branch is unreachable
    exfalso
    have hk00 : k = 0 := by omega
    rw [hk, hk00] at hpos; simp at hpos
  · obtain ⟨rr2, hr, hdm2, s2, b2, u2, q2⟩ := delegate_rate1 c1 c2 to amt r (by omega) rr1 hd
    refine ⟨rr2, by rw [hr, hamt, hk], ?_, by rw [s2, s1], by rw [b2, b1], by rw [u2, u1], by rw [q2, q1]⟩
    intro a
    rw [hdm2 a]
    by_cases h1 : a = to
    · subst h1
      have : ¬ a = frm := fun e => hne e.symm
      simp only [this, ite_false, ite_true, hdm1 a]
    · simp only [h1, ite_false, hdm1 a]

theorem truncateInt_mul_P (k : Int) (d : Dec) (h : d.m = k * P) (hk : 0 ≤ k) : d.truncateInt = k := by
  unfold Dec.truncateInt
  rw [chopTrunc_nonneg_eq _ (by rw [h]; exact Int.mul_nonneg hk (by decide)), h]
  exact Int.mul_ediv_cancel k (by decide)

theorem mint_good (g : Cfg) (M : Addr) (c c' : VSt) (d : Addr) (amount der : Int) (hne : d ≠ M)
    (hgood : Good M c) (h : mint g M c d true amount = .ok (c', der)) :
    Good M c' ∧ 0 ≤ der ∧ dm c' M = dm c M + der * P ∧ dm c' d = dm c d - der * P ∧ c'.supply = c.supply + der ∧
    c'.bal d = c.bal d + der := by
  obtain ⟨hr1, hb⟩ := hgood
  obtain ⟨hpos, shares, c1, r, hv, ht, hder, e1, e2, e3, e4, e5, e6⟩ := mint_effect g M c c' d amount der h
  obtain ⟨k, hk, hk0, -⟩ := validate_rate1 c d amount shares hr1 hpos hv
  obtain ⟨rr1, hr, hdm, s1, b1, -, -⟩ := transfer_rate1 g c c1 d M shares r k hk hne hr1 ht
  have hderk : der = k := by
    rw [hder]; split
    · exact truncateInt_mul_P k r (by rw [hr, hk]) hk0
    · exact truncateInt_mul_P k shares hk hk0
  have hM2 : dm c' M = dm c M + r.m := by
    have : dm c' M = dm c1 M := by unfold dm; rw [e2]
    rw [this, hdm M]
    have : ¬ M = d := fun e => hne e.symm
    simp only [this, ite_false, ite_true]
  have hd2 : dm c' d = dm c d - shares.m := by
    have : dm c' d = dm c1 d := by unfold dm; rw [e2]
    rw [this, hdm d]; simp only [ite_true]
  refine ⟨⟨⟨?_, ?_⟩, ?_⟩, by omega, by rw [hM2, hr, hk, hderk], by rw [hd2, hk, hderk], by rw [e6, s1],
    by rw [e5, b1]; simp only [updI, ite_true]⟩
  · intro a y hy; rw [e2] at hy; exact rr1.1 a y hy
  · intro v hv'; rw [e1] at hv'; exact rr1.2 v hv'
  · unfold Backed at *
    rw [hM2, e6, s1, hr, hk, hderk]
    have e : (c.supply + k) * P = c.supply * P + k * P := Int.add_mul _ _ _
    omega

theorem burn_good (g : Cfg) (M : Addr) (c c' : VSt) (d : Addr) (amount : Int) (r : Dec) (hne : d ≠ M)
    (hgood : Good M c) (h : burn g M c d amount = .ok (c', r)) :
    Good M c' ∧ r.m = amount * P ∧ dm c' M = dm c M - amount * P ∧ dm c' d = dm c d + amount * P ∧
    c'.supply = c.supply - amount ∧ c'.bal d = c.bal d - amount := by
  obtain ⟨hr1, hb⟩ := hgood
  obtain ⟨h0, hbal, ht⟩ := burn_effect g M c c' d amount r h
  have hr0 : Rate1 { c with bal := updI c.bal d (c.bal d - amount), supply := c.supply - amount } := hr1
  have hk : (Dec.ofInt amount).m = amount * P := rfl
  obtain ⟨rr1, hr, hdm, s1, b1, -, -⟩ := transfer_rate1 g _ c' M d _ r amount hk (fun e => hne e.symm) hr0 ht
  have e0 : ∀ a, dm { c with bal := updI c.bal d (c.bal d - amount), supply := c.supply - amount } a = dm c a := fun _ => rfl
  have hM2 := hdm M
  simp only [ite_true, e0] at hM2
  have hd2 := hdm d
  simp only [hne, ite_false, ite_true, e0] at hd2
  refine ⟨⟨rr1, ?_⟩, by rw [hr, hk], by rw [hM2, hk], by rw [hd2, hr, hk], s1, by rw [b1]; simp only [updI, ite_true]⟩
  unfold Backed at *
  rw [hM2, s1, hk]
  show (c.supply - amount) * P ≤ dm c M - amount * P
  have e : (c.supply - amount) * P = c.supply * P - amount * P := Int.sub_mul _ _ _
  omega


theorem good_frame (M : Addr) (c c' : VSt) (h1 : c'.val = c.val) (h2 : c'.del = c.del) (h3 : c'.supply = c.supply)
    (hg : Good M c) : Good M c' := by
  obtain ⟨⟨r1, r2⟩, hb⟩ := hg
  refine ⟨⟨by rw [h2]; exact r1, by rw [h1]; exact r2⟩, ?_⟩
  unfold Backed dm at *; rw [h2, h3]; exact hb

theorem good_other (M : Addr) (c c' : VSt) (hr : Rate1 c') (hs : c'.supply = c.supply) (hdm : dm c' M = dm c M)
    (hg : Good M c) : Good M c' := by
  refine ⟨hr, ?_⟩
  have := hg.2
  unfold Backed at *; rw [hs, hdm]; exact this

theorem bankSend_good (M : Addr) (c c' : VSt) (a b : Addr) (n : Int) (hg : Good M c)
    (h : bankSend c a b n = .ok c') : Good M c' := by
  unfold bankSend at h
  split at h
  · cases h
  · split at h
    · cases h
    · cases h; exact good_frame M c _ rfl rfl rfl hg

theorem stkDelegate_good (M : Addr) (c c' : VSt) (d : Addr) (amt : Int) (hne : d ≠ M) (hg : Good M c)
    (h : stkDelegate c d amt = .ok c') : Good M c' := by
  unfold stkDelegate at h
  split at h
  · cases h
  · rename_i hpos
    split at h
    · rename_i c1 r hd'
      cases h
      obtain ⟨rr, -, hdm, s, -⟩ := delegate_rate1 c c' d amt r (by omega) hg.1 hd'
      have : ¬ M = d := fun e => hne e.symm
      exact good_other M c c' rr s (by rw [hdm M]; simp only [this, ite_false]) hg
    · cases h
    · cases h

theorem stkUndelegateShares_good (M : Addr) (c c' : VSt) (d : Addr) (sh : Dec) (amt k : Int) (hk : sh.m = k * P)
    (hk0 : 0 ≤ k) (hne : d ≠ M) (hg : Good M c) (h : stkUndelegateShares c d sh = .ok (c', amt)) : Good M c' := by
  unfold stkUndelegateShares at h
  split at h
  · cases h
  · split at h
    · cases h
    · cases h
    · rename_i c2 a2 hub
      obtain ⟨rr, -, hdm, s, -⟩ := unbond_rate1 c c2 d sh a2 k hk hk0 hg.1 hub
      have : ¬ M = d := fun e => hne e.symm
      have g1 : Good M c2 := good_other M c c2 rr s (by rw [hdm M]; simp only [this, ite_false]) hg
      cases h
      exact good_frame M c2 _ rfl rfl rfl g1

theorem stkUndelegate_good (M : Addr) (c c' : VSt) (d : Addr) (amt : Int) (hne : d ≠ M) (hg : Good M c)
    (h : stkUndelegate c d amt = .ok c') : Good M c' := by
  unfold stkUndelegate at h
  split at h
  · cases h
  · rename_i hpos
    split at h
    · cases h
    · rename_i sh hv
      obtain ⟨k, hk, hk0, -⟩ := validate_rate1 c d amt sh hg.1 (by omega) hv
      split at h
      · rename_i c1 a hu
        cases h
        exact stkUndelegateShares_good M c c' d sh a k hk hk0 hne hg hu
      · cases h
      · cases h

theorem stkRedelegateOut_good (M : Addr) (c c' : VSt) (d : Addr) (amt tokens : Int) (hne : d ≠ M) (hg : Good M c)
    (h : stkRedelegateOut c d amt = .ok (c', tokens)) : Good M c' ∧ 0 ≤ tokens := by
  unfold stkRedelegateOut at h
  split at h
  · cases h
  · rename_i hpos
    split at h
    · cases h
    · split at h
      · cases h
      · rename_i sh hv
        obtain ⟨k, hk, hk0, -⟩ := validate_rate1 c d amt sh hg.1 (by omega) hv
        split at h
        · cases h
        · cases h
        · rename_i c1 tk hu
          split at h
          · cases h
          · cases h
            obtain ⟨rr, ht, hdm, s, -⟩ := unbond_rate1 c c' d sh tokens k hk hk0 hg.1 hu
            have : ¬ M = d := fun e => hne e.symm
            exact ⟨good_other M c c' rr s (by rw [hdm M]; simp only [this, ite_false]) hg, by omega⟩

theorem stkRedelegateIn_good (M : Addr) (c c' : VSt) (d : Addr) (tokens : Int) (fb : Bool) (hne : d ≠ M)
    (ht : 0 ≤ tokens) (hg : Good M c) (h : stkRedelegateIn c d tokens fb = .ok c') : Good M c' := by
  unfold stkRedelegateIn at h
  split at h
  · rename_i c1 r hd'
    obtain ⟨rr, -, hdm, s, -⟩ := delegate_rate1 c c1 d tokens r ht hg.1 hd'
    have : ¬ M = d := fun e => hne e.symm
    have g1 : Good M c1 := good_other M c c1 rr s (by rw [hdm M]; simp only [this, ite_false]) hg
    cases h
    split
    · exact good_frame M c1 _ rfl rfl rfl g1
    · exact g1
  · cases h
  · cases h

theorem stkSetStatus_good (M : Addr) (c c' : VSt) (st : Status) (j : Bool) (hg : Good M c)
    (h : stkSetStatus c st j = .ok c') : Good M c' := by
  unfold stkSetStatus at h
  split at h
  · cases h
  · rename_i v hv
    obtain ⟨⟨r1, r2⟩, hbk⟩ := hg
    split at h
    · cases h
      exact ⟨⟨r1, by intro v' hv'; cases hv'⟩, hbk⟩
    · cases h
      refine ⟨⟨r1, ?_⟩, hbk⟩
      intro v' hv'
      simp only [Option.some.injEq] at hv'
      subst hv'
      exact r2 v hv

/-- `op` slashes validator `v` -/
def Op.slashes (op : Op) (v : Nat) : Prop := ∃ b, op = .slash v b

theorem updC_same (s : Chain) (w : Nat) (c : VSt) : updC s w c w = c := by unfold updC; simp
theorem updC_other (s : Chain) (w v : Nat) (c : VSt) (h : v ≠ w) : updC s w c v = s v := by unfold updC; simp [h]

/-- one operation of the code as it is keeps `Good` for every validator it does not slash -/
theorem step_good (accts : List Addr) (hn : accts.Nodup) (g : Cfg) (M : Addr) (s s' : Chain) (op : Op) (v : Nat)
    (hact : ∀ a ∈ op.actors, a ∈ accts) (hwf : ∀ w, Inv false accts M (s w)) (hns : ¬ op.slashes v)
    (hg : Good M (s v)) (h : step g M s op = .ok s') : Good M (s' v) := by
  cases op with
  | mint d w a =>
    simp only [step] at h
    split at h
    · cases h
    · rename_i hne
      obtain ⟨c, x, hr, rfl⟩ := liftV_ok s s' w _ h
      by_cases hv : v = w
      · subst hv; rw [updC_same]; exact (mint_good g M (s v) c d a x hne hg hr).1
      · rw [updC_other _ _ _ _ hv]; exact hg
  | burn d w a =>
    simp only [step] at h
    split at h
    · cases h
    · rename_i hne
      obtain ⟨c, x, hr, rfl⟩ := liftV_ok s s' w _ h
      by_cases hv : v = w
      · subst hv; rw [updC_same]; exact (burn_good g M (s v) c d a x hne hg hr).1
      · rw [updC_other _ _ _ _ hv]; exact hg
  | send a b w n =>
    simp only [step] at h
    split at h
    · cases h
    · obtain ⟨c, hr, rfl⟩ := lift0_ok s s' w _ h
      by_cases hv : v = w
      · subst hv; rw [updC_same]; exact bankSend_good M (s v) c a b n hg hr
      · rw [updC_other _ _ _ _ hv]; exact hg
  | delegate d w a =>
    simp only [step] at h
    split at h
    · cases h
    · rename_i hne
      obtain ⟨c, hr, rfl⟩ := lift0_ok s s' w _ h
      by_cases hv : v = w
      · subst hv; rw [updC_same]; exact stkDelegate_good M (s v) c d a hne hg hr
      · rw [updC_other _ _ _ _ hv]; exact hg
  | undelegate d w a =>
    simp only [step] at h
    split at h
    · cases h
    · rename_i hne
      obtain ⟨c, hr, rfl⟩ := lift0_ok s s' w _ h
      by_cases hv : v = w
      · subst hv; rw [updC_same]; exact stkUndelegate_good M (s v) c d a hne hg hr
      · rw [updC_other _ _ _ _ hv]; exact hg
  | redelegate d src dst a =>
    simp only [step] at h
    split at h
    · cases h
    · rename_i hne
      have hdM : d ≠ M := fun e => hne (Or.inl e)
      have hsd : src ≠ dst := fun e => hne (Or.inr e)
      split at h
      · cases h
      · cases h
      · rename_i c1 tokens hout
        obtain ⟨c, hr, rfl⟩ := lift0_ok _ s' dst _ h
        by_cases hv : v = dst
        · subst hv; rw [updC_same]
          -- the tokens come out of `src`, whatever its exchange rate: non-negative because src is well-formed
          have ht := (stkRedelegateOut_inv false accts hn M (s src) c1 d a tokens (hact d (by simp [Op.actors])) hdM (hwf src) hout).2
          exact stkRedelegateIn_good M (s v) c d tokens _ hdM ht hg hr
        · rw [updC_other _ _ _ _ hv]
          by_cases hv2 : v = src
          · subst hv2; rw [updC_same]; exact (stkRedelegateOut_good M (s v) c1 d a tokens hdM hg hout).1
          · rw [updC_other _ _ _ _ hv2]; exact hg
  | slash w b =>
    simp only [step] at h
    obtain ⟨c, hr, rfl⟩ := lift0_ok s s' w _ h
    by_cases hv : v = w
    · subst hv; exact absurd ⟨b, rfl⟩ hns
    · rw [updC_other _ _ _ _ hv]; exact hg
  | setStatus w st j =>
    simp only [step] at h
    obtain ⟨c, hr, rfl⟩ := lift0_ok s s' w _ h
    by_cases hv : v = w
    · subst hv; rw [updC_same]; exact stkSetStatus_good M (s v) c st j hg hr
    · rw [updC_other _ _ _ _ hv]; exact hg
  | redelDone d w =>
    simp only [step] at h
    cases h
    by_cases hv : v = w
    · subst hv; rw [updC_same]; exact good_frame M (s v) _ rfl rfl rfl hg
    · rw [updC_other _ _ _ _ hv]; exact hg

theorem run_good (accts : List Addr) (hn : accts.Nodup) (g : Cfg) (M : Addr) (hM : M ∈ accts) (v : Nat) (ops : List Op) :
    ∀ (s s' : Chain), (∀ op ∈ ops, ∀ a ∈ op.actors, a ∈ accts) → (∀ op ∈ ops, ¬ op.slashes v) →
      (∀ w, Inv false accts M (s w)) → Good M (s v) → run g M s ops = some s' → Good M (s' v) := by
  induction ops with
  | nil => intro s s' _ _ _ hg h; simp only [run] at h; cases h; exact hg
  | cons op ops ih =>
    intro s s' hact hns hwf hg h
    simp only [run] at h
    have hact' : ∀ op' ∈ ops, ∀ a ∈ op'.actors, a ∈ accts := fun o ho => hact o (List.mem_cons_of_mem _ ho)
    have hns' : ∀ op' ∈ ops, ¬ op'.slashes v := fun o ho => hns o (List.mem_cons_of_mem _ ho)
    split at h
    · rename_i s1 hs
      have w1 := step_inv_fixed false accts hn g (by intro e; cases e) M hM s s1 op (hact op (List.mem_cons_self)) hwf hs
      have g1 := step_good accts hn g M s s1 op v (hact op (List.mem_cons_self)) hwf (hns op (List.mem_cons_self)) hg hs
      exact ih s1 s' hact' hns' w1 g1 h
    · exact ih s s' hact' hns' hwf hg h
    · cases h
end KV.Liquid
