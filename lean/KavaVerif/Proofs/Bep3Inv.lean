/-
  Helper lemmas for C13 (x/bep3), part 2: the state invariant and its preservation by the three
  elementary store transitions (add a swap, close a swap, expire / prune by index entry).
  Core Lean only.
-/
import KavaVerif.Proofs.Bep3
set_option linter.unusedSimpArgs false
set_option linter.unusedVariables false

namespace KV.Bep3

/-- The state invariant of x/bep3 (for fixed hash functions and wiring). -/
structure Inv (cfg : Cfg) (hs : Hashes) (s : St) : Prop where
  /-- store keys are unique -/
  nodup : (ids s.swaps).Nodup
  /-- every record is stored under its own `GetSwapID()` -/
  idok : ∀ sw ∈ s.swaps, sw.id = getSwapID hs sw
  /-- by-block index = the open swaps, keyed by expire height -/
  bb : ∀ e, e ∈ s.byBlock ↔ ∃ sw ∈ s.swaps, sw.status = .open ∧ e = (sw.expire, sw.id)
  bbnd : s.byBlock.Nodup
  /-- long-term index = the completed swaps, keyed by closed block + horizon -/
  lt : ∀ e, e ∈ s.longterm ↔ ∃ sw ∈ s.swaps, sw.status = .completed ∧ e = (sw.closed + horizon, sw.id)
  ltnd : s.longterm.Nodup
  /-- incoming / outgoing supply = Σ over the swaps not yet completed -/
  inc : ∀ d, (s.supply d).incoming = sumBy (live .incoming d) s.swaps
  out : ∀ d, (s.supply d).outgoing = sumBy (live .outgoing d) s.swaps
  /-- custody: the module account holds exactly the outgoing swaps not yet completed -/
  cust : ∀ d, s.bal cfg.module d = sumBy (live .outgoing d) s.swaps
  /-- outgoing never exceeds the current supply -/
  outle : ∀ d, (s.supply d).outgoing ≤ (s.supply d).current
  /-- an expired swap is past its expire height -/
  exp : ∀ sw ∈ s.swaps, sw.status = .expired → sw.expire ≤ s.height
  /-- swap amounts are positive -/
  pos : ∀ sw ∈ s.swaps, 0 < sw.amt
  /-- validated params: the minimum swap amount of every asset is positive -/
  pmin : ∀ d a, getAsset s.assets d = some a → 0 < a.minAmt
  /-- no swap pays out to a module account (checked at creation) -/
  rcp : ∀ sw ∈ s.swaps, cfg.macc sw.recipient = false
  /-- no swap was created by the module account itself (module accounts cannot sign) -/
  snd : ∀ sw ∈ s.swaps, sw.sender ≠ cfg.module

/-- the closed version of a swap -/
def done (h : Nat) (sw : Swap) : Swap := { sw with status := .completed, closed := h }
/-- the expired version of a swap -/
def expd (sw : Swap) : Swap := { sw with status := .expired }

theorem live_done (dir : Dir) (d : Denom) (h : Nat) (sw : Swap) : val (live dir d) (done h sw) = 0 := by
  simp [val, live, done]

theorem live_expd (dir : Dir) (d : Denom) (sw : Swap) (h : sw.status = .open) :
    val (live dir d) (expd sw) = val (live dir d) sw := by
  simp [val, live, expd, h]

/-- the key of a swap in the by-block index is there iff the swap is open -/
theorem bbkey_mem {cfg hs s} (h : Inv cfg hs s) {sw : Swap} (hm : sw ∈ s.swaps) :
    (sw.expire, sw.id) ∈ s.byBlock ↔ sw.status = .open := by
  rw [h.bb]
  constructor
  · rintro ⟨x, hx, ho, he⟩
    have hid : sw.id = x.id := (Prod.mk.inj he).2
    rw [nodup_id_eq h.nodup hm hx hid]; exact ho
  · intro ho; exact ⟨sw, hm, ho, rfl⟩

theorem ltkey_mem {cfg hs s} (h : Inv cfg hs s) {sw : Swap} (hm : sw ∈ s.swaps) :
    (sw.closed + horizon, sw.id) ∈ s.longterm ↔ sw.status = .completed := by
  rw [h.lt]
  constructor
  · rintro ⟨x, hx, ho, he⟩
    have hid : sw.id = x.id := (Prod.mk.inj he).2
    rw [nodup_id_eq h.nodup hm hx hid]; exact ho
  · intro ho; exact ⟨sw, hm, ho, rfl⟩

/-! ### add a swap (CreateAtomicSwap) -/

theorem inv_add {cfg hs s} (h : Inv cfg hs s) (n : Swap) (s' : St)
    (hnew : findSwap s.swaps n.id = none) (hid : n.id = getSwapID hs n) (hopen : n.status = .open)
    (e1 : s'.swaps = n :: s.swaps) (e2 : s'.byBlock = insKey s.byBlock (n.expire, n.id))
    (e3 : s'.longterm = s.longterm) (e4 : s'.height = s.height) (e7 : s'.assets = s.assets)
    (hpos : 0 < n.amt) (hrcp : cfg.macc n.recipient = false) (hsnd : n.sender ≠ cfg.module)
    (hinc : ∀ d, (s'.supply d).incoming = (s.supply d).incoming + val (live .incoming d) n)
    (hout : ∀ d, (s'.supply d).outgoing = (s.supply d).outgoing + val (live .outgoing d) n)
    (hbal : ∀ d, s'.bal cfg.module d = s.bal cfg.module d + val (live .outgoing d) n)
    (hle : ∀ d, (s'.supply d).outgoing ≤ (s'.supply d).current) : Inv cfg hs s' := by
  have hfresh : ∀ x ∈ s.swaps, x.id ≠ n.id := findSwap_none hnew
  refine ⟨?_, ?_, ?_, ?_, ?_, ?_, ?_, ?_, ?_, hle, ?_, ?_, by rw [e7]; exact h.pmin, ?_, ?_⟩
  · rw [e1]; apply nodup_ids_cons.mpr
    refine ⟨?_, h.nodup⟩
    intro hc
    obtain ⟨x, hx, hxe⟩ := List.mem_map.mp hc
    exact hfresh x hx hxe
  · rw [e1]; intro sw hm
    cases hm with
    | head => exact hid
    | tail _ hm' => exact h.idok sw hm'
  · intro e; rw [e2, e1, mem_insKey, h.bb]
    constructor
    · rintro (rfl | ⟨x, hx, ho, he⟩)
      · exact ⟨n, List.mem_cons_self, hopen, rfl⟩
      · exact ⟨x, List.mem_cons_of_mem _ hx, ho, he⟩
    · rintro ⟨x, hx, ho, he⟩
      cases hx with
      | head => exact Or.inl he
      | tail _ hx' => exact Or.inr ⟨x, hx', ho, he⟩
  · rw [e2]; exact nodup_insKey _ h.bbnd
  · intro e; rw [e3, e1, h.lt]
    constructor
    · rintro ⟨x, hx, ho, he⟩; exact ⟨x, List.mem_cons_of_mem _ hx, ho, he⟩
    · rintro ⟨x, hx, ho, he⟩
      cases hx with
      | head => rw [hopen] at ho; cases ho
      | tail _ hx' => exact ⟨x, hx', ho, he⟩
  · rw [e3]; exact h.ltnd
  · intro d; rw [hinc, e1, sumBy_cons, h.inc]; omega
  · intro d; rw [hout, e1, sumBy_cons, h.out]; omega
  · intro d; rw [hbal, e1, sumBy_cons, h.cust]; omega
  · rw [e1, e4]; intro sw hm hs'
    cases hm with
    | head => rw [hopen] at hs'; cases hs'
    | tail _ hm' => exact h.exp sw hm' hs'
  · rw [e1]; intro sw hm
    cases hm with
    | head => exact hpos
    | tail _ hm' => exact h.pos sw hm'
  · rw [e1]; intro sw hm
    cases hm with
    | head => exact hrcp
    | tail _ hm' => exact h.rcp sw hm'
  · rw [e1]; intro sw hm
    cases hm with
    | head => exact hsnd
    | tail _ hm' => exact h.snd sw hm'

/-! ### close a swap (claim / refund) -/

theorem inv_close {cfg hs s} (h : Inv cfg hs s) {sw : Swap} (hm : sw ∈ s.swaps)
    (hst : sw.status ≠ .completed) (s' : St)
    (e1 : s'.swaps = replaceSwap s.swaps (done s.height sw))
    (e2 : s'.byBlock = delKey s.byBlock (sw.expire, sw.id))
    (e3 : s'.longterm = insKey s.longterm (s.height + horizon, sw.id)) (e4 : s'.height = s.height)
    (e7 : s'.assets = s.assets)
    (hinc : ∀ d, (s'.supply d).incoming = (s.supply d).incoming - val (live .incoming d) sw)
    (hout : ∀ d, (s'.supply d).outgoing = (s.supply d).outgoing - val (live .outgoing d) sw)
    (hbal : ∀ d, s'.bal cfg.module d = s.bal cfg.module d - val (live .outgoing d) sw)
    (hle : ∀ d, (s'.supply d).outgoing ≤ (s'.supply d).current) : Inv cfg hs s' := by
  have hdid : (done s.height sw).id = sw.id := rfl
  have hmem : ∀ x, x ∈ s'.swaps ↔ (x ∈ s.swaps ∧ x.id ≠ sw.id) ∨ x = done s.height sw := by
    intro x; rw [e1, mem_replace]
    constructor
    · rintro (hl | ⟨hr, -⟩)
      · exact Or.inl hl
      · exact Or.inr hr
    · rintro (hl | hr)
      · exact Or.inl hl
      · exact Or.inr ⟨hr, sw, hm, rfl⟩
  refine ⟨?_, ?_, ?_, ?_, ?_, ?_, ?_, ?_, ?_, hle, ?_, ?_, by rw [e7]; exact h.pmin, ?_, ?_⟩
  · rw [e1, ids_replace]; exact h.nodup
  · intro x hx
    rcases (hmem x).mp hx with ⟨hx', -⟩ | rfl
    · exact h.idok x hx'
    · exact h.idok sw hm
  · intro e; rw [e2, mem_delKey, h.bb]
    constructor
    · rintro ⟨⟨x, hx, ho, he⟩, hne⟩
      refine ⟨x, (hmem x).mpr (Or.inl ⟨hx, ?_⟩), ho, he⟩
      intro hid
      have := nodup_id_eq h.nodup hx hm hid
      subst this; exact hne he
    · rintro ⟨x, hx, ho, he⟩
      rcases (hmem x).mp hx with ⟨hx', hne⟩ | rfl
      · refine ⟨⟨x, hx', ho, he⟩, ?_⟩
        intro hk; rw [he] at hk; exact hne (Prod.mk.inj hk).2
      · simp [done] at ho
  · rw [e2]; exact nodup_delKey _ h.bbnd
  · intro e; rw [e3, mem_insKey, h.lt]
    constructor
    · rintro (rfl | ⟨x, hx, ho, he⟩)
      · exact ⟨done s.height sw, (hmem _).mpr (Or.inr rfl), rfl, rfl⟩
      · refine ⟨x, (hmem x).mpr (Or.inl ⟨hx, ?_⟩), ho, he⟩
        intro hid
        have := nodup_id_eq h.nodup hx hm hid
        subst this; exact hst ho
    · rintro ⟨x, hx, ho, he⟩
      rcases (hmem x).mp hx with ⟨hx', hne⟩ | rfl
      · exact Or.inr ⟨x, hx', ho, he⟩
      · exact Or.inl he
  · rw [e3]; exact nodup_insKey _ h.ltnd
  · intro d; rw [hinc, e1, sumBy_replace _ h.nodup hm hdid.symm, live_done, h.inc]; omega
  · intro d; rw [hout, e1, sumBy_replace _ h.nodup hm hdid.symm, live_done, h.out]; omega
  · intro d; rw [hbal, e1, sumBy_replace _ h.nodup hm hdid.symm, live_done, h.cust]; omega
  · rw [e4]; intro x hx hxs
    rcases (hmem x).mp hx with ⟨hx', -⟩ | rfl
    · exact h.exp x hx' hxs
    · simp [done] at hxs
  · intro x hx
    rcases (hmem x).mp hx with ⟨hx', -⟩ | rfl
    · exact h.pos x hx'
    · exact h.pos sw hm
  · intro x hx
    rcases (hmem x).mp hx with ⟨hx', -⟩ | rfl
    · exact h.rcp x hx'
    · exact h.rcp sw hm
  · intro x hx
    rcases (hmem x).mp hx with ⟨hx', -⟩ | rfl
    · exact h.snd x hx'
    · exact h.snd sw hm

/-! ### expire one swap (one callback of UpdateExpiredAtomicSwaps) -/

theorem inv_expire {cfg hs s} (h : Inv cfg hs s) {sw : Swap} (hm : sw ∈ s.swaps)
    (hopen : sw.status = .open) (hdue : sw.expire ≤ s.height) (s' : St)
    (e1 : s'.swaps = replaceSwap s.swaps (expd sw))
    (e2 : s'.byBlock = delKey s.byBlock (sw.expire, sw.id))
    (e3 : s'.longterm = s.longterm) (e4 : s'.height = s.height)
    (e5 : s'.supply = s.supply) (e6 : s'.bal = s.bal) (e7 : s'.assets = s.assets) : Inv cfg hs s' := by
  have hdid : (expd sw).id = sw.id := rfl
  have hmem : ∀ x, x ∈ s'.swaps ↔ (x ∈ s.swaps ∧ x.id ≠ sw.id) ∨ x = expd sw := by
    intro x; rw [e1, mem_replace]
    constructor
    · rintro (hl | ⟨hr, -⟩)
      · exact Or.inl hl
      · exact Or.inr hr
    · rintro (hl | hr)
      · exact Or.inl hl
      · exact Or.inr ⟨hr, sw, hm, rfl⟩
  refine ⟨?_, ?_, ?_, ?_, ?_, ?_, ?_, ?_, ?_, ?_, ?_, ?_, by rw [e7]; exact h.pmin, ?_, ?_⟩
  · rw [e1, ids_replace]; exact h.nodup
  · intro x hx
    rcases (hmem x).mp hx with ⟨hx', -⟩ | rfl
    · exact h.idok x hx'
    · exact h.idok sw hm
  · intro e; rw [e2, mem_delKey, h.bb]
    constructor
    · rintro ⟨⟨x, hx, ho, he⟩, hne⟩
      refine ⟨x, (hmem x).mpr (Or.inl ⟨hx, ?_⟩), ho, he⟩
      intro hid
      have := nodup_id_eq h.nodup hx hm hid
      subst this; exact hne he
    · rintro ⟨x, hx, ho, he⟩
      rcases (hmem x).mp hx with ⟨hx', hne⟩ | rfl
      · refine ⟨⟨x, hx', ho, he⟩, ?_⟩
        intro hk; rw [he] at hk; exact hne (Prod.mk.inj hk).2
      · simp [expd] at ho
  · rw [e2]; exact nodup_delKey _ h.bbnd
  · intro e; rw [e3, h.lt]
    constructor
    · rintro ⟨x, hx, ho, he⟩
      refine ⟨x, (hmem x).mpr (Or.inl ⟨hx, ?_⟩), ho, he⟩
      intro hid
      have := nodup_id_eq h.nodup hx hm hid
      subst this; rw [hopen] at ho; cases ho
    · rintro ⟨x, hx, ho, he⟩
      rcases (hmem x).mp hx with ⟨hx', hne⟩ | rfl
      · exact ⟨x, hx', ho, he⟩
      · simp [expd] at ho
  · rw [e3]; exact h.ltnd
  · intro d; rw [e5, e1, sumBy_replace _ h.nodup hm hdid.symm, live_expd _ _ _ hopen, h.inc]; omega
  · intro d; rw [e5, e1, sumBy_replace _ h.nodup hm hdid.symm, live_expd _ _ _ hopen, h.out]; omega
  · intro d; rw [e6, e1, sumBy_replace _ h.nodup hm hdid.symm, live_expd _ _ _ hopen, h.cust]; omega
  · intro d; rw [e5]; exact h.outle d
  · rw [e4]; intro x hx hxs
    rcases (hmem x).mp hx with ⟨hx', -⟩ | rfl
    · exact h.exp x hx' hxs
    · exact hdue
  · intro x hx
    rcases (hmem x).mp hx with ⟨hx', -⟩ | rfl
    · exact h.pos x hx'
    · exact h.pos sw hm
  · intro x hx
    rcases (hmem x).mp hx with ⟨hx', -⟩ | rfl
    · exact h.rcp x hx'
    · exact h.rcp sw hm
  · intro x hx
    rcases (hmem x).mp hx with ⟨hx', -⟩ | rfl
    · exact h.snd x hx'
    · exact h.snd sw hm

/-! ### prune one swap (one callback of DeleteClosedAtomicSwapsFromLongtermStorage) -/

theorem inv_prune {cfg hs s} (h : Inv cfg hs s) {sw : Swap} (hm : sw ∈ s.swaps)
    (hc : sw.status = .completed) (s' : St)
    (e1 : s'.swaps = delSwap s.swaps sw.id)
    (e2 : s'.byBlock = s.byBlock)
    (e3 : s'.longterm = delKey s.longterm (sw.closed + horizon, sw.id)) (e4 : s'.height = s.height)
    (e5 : s'.supply = s.supply) (e6 : s'.bal = s.bal) (e7 : s'.assets = s.assets) : Inv cfg hs s' := by
  have hv : ∀ dir d, val (live dir d) sw = 0 := by intro dir d; simp [val, live, hc]
  refine ⟨?_, ?_, ?_, ?_, ?_, ?_, ?_, ?_, ?_, ?_, ?_, ?_, by rw [e7]; exact h.pmin, ?_, ?_⟩
  · rw [e1]; exact ids_delSwap_nodup _ h.nodup
  · intro x hx; rw [e1, mem_delSwap] at hx; exact h.idok x hx.1
  · intro e; rw [e2, h.bb]
    constructor
    · rintro ⟨x, hx, ho, he⟩
      refine ⟨x, ?_, ho, he⟩
      rw [e1, mem_delSwap]; refine ⟨hx, ?_⟩
      intro hid
      have := nodup_id_eq h.nodup hx hm hid
      subst this; rw [hc] at ho; cases ho
    · rintro ⟨x, hx, ho, he⟩
      rw [e1, mem_delSwap] at hx; exact ⟨x, hx.1, ho, he⟩
  · rw [e2]; exact h.bbnd
  · intro e; rw [e3, mem_delKey, h.lt]
    constructor
    · rintro ⟨⟨x, hx, ho, he⟩, hne⟩
      refine ⟨x, ?_, ho, he⟩
      rw [e1, mem_delSwap]; refine ⟨hx, ?_⟩
      intro hid
      have := nodup_id_eq h.nodup hx hm hid
      subst this; exact hne he
    · rintro ⟨x, hx, ho, he⟩
      rw [e1, mem_delSwap] at hx
      refine ⟨⟨x, hx.1, ho, he⟩, ?_⟩
      intro hk; rw [he] at hk; exact hx.2 (Prod.mk.inj hk).2
  · rw [e3]; exact nodup_delKey _ h.ltnd
  · intro d; rw [e5, e1, sumBy_del _ h.nodup hm, hv, h.inc]; omega
  · intro d; rw [e5, e1, sumBy_del _ h.nodup hm, hv, h.out]; omega
  · intro d; rw [e6, e1, sumBy_del _ h.nodup hm, hv, h.cust]; omega
  · intro d; rw [e5]; exact h.outle d
  · rw [e4]; intro x hx hxs
    rw [e1, mem_delSwap] at hx; exact h.exp x hx.1 hxs
  · intro x hx; rw [e1, mem_delSwap] at hx; exact h.pos x hx.1
  · intro x hx; rw [e1, mem_delSwap] at hx; exact h.rcp x hx.1
  · intro x hx; rw [e1, mem_delSwap] at hx; exact h.snd x hx.1

/-! ### transitions that leave swaps and indexes alone -/

theorem inv_frame {cfg hs s} (h : Inv cfg hs s) (s' : St)
    (e1 : s'.swaps = s.swaps) (e2 : s'.byBlock = s.byBlock) (e3 : s'.longterm = s.longterm)
    (e4 : s.height ≤ s'.height)
    (hpm : ∀ d a, getAsset s'.assets d = some a → 0 < a.minAmt)
    (hinc : ∀ d, (s'.supply d).incoming = (s.supply d).incoming)
    (hout : ∀ d, (s'.supply d).outgoing = (s.supply d).outgoing)
    (hcur : ∀ d, (s'.supply d).current = (s.supply d).current)
    (hbal : ∀ d, s'.bal cfg.module d = s.bal cfg.module d) : Inv cfg hs s' := by
  refine ⟨by rw [e1]; exact h.nodup, by rw [e1]; exact h.idok, by rw [e1, e2]; exact h.bb,
    by rw [e2]; exact h.bbnd, by rw [e1, e3]; exact h.lt, by rw [e3]; exact h.ltnd, ?_, ?_, ?_, ?_, ?_,
    by rw [e1]; exact h.pos, hpm, by rw [e1]; exact h.rcp,
    by rw [e1]; exact h.snd⟩
  · intro d; rw [hinc, e1]; exact h.inc d
  · intro d; rw [hout, e1]; exact h.out d
  · intro d; rw [hbal, e1]; exact h.cust d
  · intro d; rw [hout, hcur]; exact h.outle d
  · rw [e1]; intro x hx hxs; exact Nat.le_trans (h.exp x hx hxs) e4

end KV.Bep3
