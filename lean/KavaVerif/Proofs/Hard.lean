/-
  Helper lemmas for C08 (x/hard): sums over denominations, exactness and rounding bounds of the
  valuation `amount / conversionFactor * price`, the two LTV routines.
  Only lemmas here; the property statements are in KavaVerif/Props/C08.lean.
-/
import KavaVerif.Model.Hard
import Mathlib.Tactic.Ring
import Mathlib.Tactic.Linarith
set_option linter.unusedSimpArgs false
set_option linter.unusedVariables false
namespace KV.Hard
open KV

theorem P_val : P = 1000000000000000000 := by decide
theorem P_pos : 0 < P := by decide
/-! ### sums -/
theorem sumD_filter (p : Denom → Bool) (g : Denom → Int) (l : List Denom) :
    sumD (l.filter p) g = sumD l (fun d => if p d then g d else 0) := by
  induction l with
  | nil => rfl
  | cons d t ih =>
    by_cases h : p d
    · simp only [List.filter_cons_of_pos h, sumD, h, ite_true, ih]
    · simp only [List.filter_cons_of_neg h, sumD, h, ite_false, ih, Bool.false_eq_true]; omega

theorem sumD_add (f g : Denom → Int) (l : List Denom) :
    sumD l (fun d => f d + g d) = sumD l f + sumD l g := by
  induction l with
  | nil => rfl
  | cons d t ih => simp only [sumD, ih]; omega

theorem sumD_le (f g : Denom → Int) (l : List Denom) (h : ∀ d ∈ l, f d ≤ g d) : sumD l f ≤ sumD l g := by
  induction l with
  | nil => exact Int.le_refl _
  | cons d t ih =>
    simp only [sumD]
    have h1 := h d (List.mem_cons_self)
    have h2 := ih (fun e he => h e (List.mem_cons_of_mem _ he))
    omega

theorem sumD_congr (f g : Denom → Int) (l : List Denom) (h : ∀ d ∈ l, f d = g d) : sumD l f = sumD l g := by
  induction l with
  | nil => rfl
  | cons d t ih =>
    simp only [sumD]
    rw [h d (List.mem_cons_self), ih (fun e he => h e (List.mem_cons_of_mem _ he))]

theorem sumD_nonneg (f : Denom → Int) (l : List Denom) (h : ∀ d ∈ l, 0 ≤ f d) : 0 ≤ sumD l f := by
  induction l with
  | nil => exact Int.le_refl _
  | cons d t ih =>
    simp only [sumD]
    have h1 := h d (List.mem_cons_self)
    have h2 := ih (fun e he => h e (List.mem_cons_of_mem _ he))
    omega

/-- number of entries of `l` satisfying `p`, as an integer sum -/
theorem sumD_indicator_le_length (p : Denom → Bool) (l : List Denom) :
    sumD l (fun d => if p d then 1 else 0) = ((l.filter p).length : Int) := by
  induction l with
  | nil => rfl
  | cons d t ih =>
    by_cases h : p d
    · simp only [sumD, h, ite_true, List.filter_cons_of_pos h, List.length_cons, ih]; omega
    · simp only [sumD, h, ite_false, List.filter_cons_of_neg h, ih, Bool.false_eq_true]; omega

/-! ### valuation -/

/-- value of the coin of denom `d` in `c` (0 when absent) -/
def valD (cfg : Cfg) (c : Coins) (d : Denom) : Int := if 0 < c d then (usdValue (cfg.mkt d) (c d)).m else 0

theorem valueOf_eq (cfg : Cfg) (c : Coins) : valueOf cfg c = sumD cfg.ds (valD cfg c) := by
  unfold valueOf supp
  rw [sumD_filter]
  apply sumD_congr
  intro d _
  unfold valD
  by_cases h : 0 < c d <;> simp [h]

/-- `chopRound` of a non-negative number -/
theorem chopRound_nonneg_eq (x : Int) (h : 0 ≤ x) : chopRound x = chopRoundNonneg x := by
  unfold chopRound; simp [Int.not_lt.mpr h]

/-- banker's rounding is sub-additive up to one ulp -/
theorem chopRound_add_le (x y : Int) (hx : 0 ≤ x) (hy : 0 ≤ y) :
    chopRound (x + y) ≤ chopRound x + chopRound y + 1 := by
  rw [chopRound_nonneg_eq x hx, chopRound_nonneg_eq y hy, chopRound_nonneg_eq (x + y) (by omega)]
  have b1 := chopRoundNonneg_bound x hx
  have b2 := chopRoundNonneg_bound y hy
  have b3 := chopRoundNonneg_bound (x + y) (by omega)
  simp only [P_val] at *
  omega

/-- … and super-additive up to one ulp -/
theorem chopRound_add_ge (x y : Int) (hx : 0 ≤ x) (hy : 0 ≤ y) :
    chopRound x + chopRound y ≤ chopRound (x + y) + 1 := by
  rw [chopRound_nonneg_eq x hx, chopRound_nonneg_eq y hy, chopRound_nonneg_eq (x + y) (by omega)]
  have b1 := chopRoundNonneg_bound x hx
  have b2 := chopRoundNonneg_bound y hy
  have b3 := chopRoundNonneg_bound (x + y) (by omega)
  simp only [P_val] at *
  omega

/-- `NewDecFromInt(a).Quo(NewDecFromInt(cf))` is exact when the conversion factor divides 10^18 -/
theorem quo_ofInt_exact (a cf : Int) (ha : 0 ≤ a) (hcf : 0 < cf) (hdiv : P % cf = 0) :
    ((Dec.ofInt a).quo (Dec.ofInt cf)).m = a * (P / cf) := by
  have hk : P = cf * (P / cf) := by
    have := Int.emod_add_mul_ediv P cf; omega
  generalize hkk : P / cf = k at hk
  have hk0 : 0 ≤ k := by
    by_cases h : k < 0
    · have : cf * k < 0 := Int.mul_neg_of_pos_of_neg hcf h
      have := P_pos; omega
    · omega
  unfold Dec.quo Dec.ofInt
  simp only
  have e : a * P * P * P = (a * k * P) * (cf * P) := by
    have : a * P * P * P = a * (cf * k) * P * P := by rw [← hk]
    rw [this]; ring
  have hpos : 0 < cf * P := Int.mul_pos hcf P_pos
  have hnn : 0 ≤ a * P * P * P := by
    have := P_pos
    exact Int.mul_nonneg (Int.mul_nonneg (Int.mul_nonneg ha (by omega)) (by omega)) (by omega)
  rw [tquo_nonneg_eq _ _ hnn (by omega), e, Int.mul_ediv_cancel _ (by omega), chopRound_mul_P]

theorem usdValue_exact (m : Market) (a : Int) (ha : 0 ≤ a) (hcf : 0 < m.cf) (hdiv : P % m.cf = 0) :
    (usdValue m a).m = chopRound (a * (P / m.cf) * m.price.m) := by
  unfold usdValue Dec.mul
  simp only
  rw [quo_ofInt_exact a m.cf ha hcf hdiv]

theorem usdValue_add_le (m : Market) (a b : Int) (ha : 0 ≤ a) (hb : 0 ≤ b) (hcf : 0 < m.cf) (hdiv : P % m.cf = 0)
    (hp : 0 ≤ m.price.m) :
    (usdValue m (a + b)).m ≤ (usdValue m a).m + (usdValue m b).m + 1 := by
  rw [usdValue_exact m a ha hcf hdiv, usdValue_exact m b hb hcf hdiv, usdValue_exact m (a + b) (by omega) hcf hdiv]
  have hk : 0 ≤ P / m.cf := Int.ediv_nonneg (by decide) (by omega)
  have e : (a + b) * (P / m.cf) * m.price.m = a * (P / m.cf) * m.price.m + b * (P / m.cf) * m.price.m := by ring
  rw [e]
  exact chopRound_add_le _ _ (Int.mul_nonneg (Int.mul_nonneg ha hk) hp) (Int.mul_nonneg (Int.mul_nonneg hb hk) hp)

theorem usdValue_zero (m : Market) : (usdValue m 0).m = 0 := by
  have h0 : chopRound 0 = 0 := by decide
  unfold usdValue Dec.mul Dec.quo Dec.ofInt tquo
  simp [h0]

/-! ### the LTV routines -/

theorem mem_supp (ds : List Denom) (c : Coins) (d : Denom) : d ∈ supp ds c ↔ d ∈ ds ∧ 0 < c d := by
  unfold supp; simp [List.mem_filter]

theorem pricesOk_iff (cfg : Cfg) (c : Coins) :
    pricesOk cfg c = true ↔ ∀ d ∈ cfg.ds, 0 < c d → (cfg.mkt d).price.m ≠ 0 := by
  unfold pricesOk
  rw [List.all_eq_true]
  constructor
  · intro h d hd hc
    have := h d ((mem_supp _ _ _).mpr ⟨hd, hc⟩)
    simpa using this
  · intro h d hd
    have := (mem_supp _ _ _).mp hd
    simpa using h d this.1 this.2

theorem pricesOk_add (cfg : Cfg) (a b : Coins) (ha : ∀ d, 0 ≤ a d) (hb : ∀ d, 0 ≤ b d)
    (h1 : pricesOk cfg a = true) (h2 : pricesOk cfg b = true) : pricesOk cfg (addC a b) = true := by
  rw [pricesOk_iff] at *
  intro d hd hc
  unfold addC at hc
  by_cases h : 0 < a d
  · exact h1 d hd h
  · have := ha d; have := hb d
    exact h2 d hd (by omega)

theorem proposedLoop_ok (cfg : Cfg) (totB new : Coins) (l : List Denom) (acc v : Int)
    (h : proposedLoop cfg totB new l acc = .ok v) :
    v = acc + sumD l (fun d => (usdValue (cfg.mkt d) (new d)).m) ∧ ∀ d ∈ l, (cfg.mkt d).price.m ≠ 0 := by
  induction l generalizing acc with
  | nil =>
    unfold proposedLoop at h
    cases h
    exact ⟨by simp [sumD], by simp⟩
  | cons d t ih =>
    unfold proposedLoop at h
    split at h
    · cases h
    · rename_i hp
      split at h
      · cases h
      · obtain ⟨e, hall⟩ := ih _ h
        refine ⟨by rw [e]; simp only [sumD]; omega, ?_⟩
        intro x hx
        rcases List.mem_cons.mp hx with rfl | hx
        · exact hp
        · exact hall x hx

/-- what an accepted `ValidateBorrow` establishes -/
theorem validateBorrow_ok (cfg : Cfg) (cash reserves totB dep bor new : Coins)
    (h : validateBorrow cfg cash reserves totB dep bor new = .ok ()) :
    pricesOk cfg dep = true ∧ pricesOk cfg bor = true ∧ pricesOk cfg new = true ∧
    valueOf cfg new + valueOf cfg bor ≤ borrowable cfg dep ∧
    cfg.minBorrow.m ≤ valueOf cfg new + valueOf cfg bor ∧ (supp cfg.ds new).isEmpty = false ∧
    isWithinLtv cfg dep (addC bor new) = .ok true := by
  unfold validateBorrow at h
  simp only at h
  split at h
  · cases h
  rename_i hne
  split at h
  · cases h
  split at h
  · cases h
  split at h
  · cases h
  · cases h
  · rename_i proposed hp
    obtain ⟨e, hall⟩ := proposedLoop_ok _ _ _ _ _ _ hp
    split at h
    · cases h
    split at h
    · cases h
    rename_i hpd
    split at h
    · cases h
    rename_i hpb
    split at h
    · cases h
    rename_i hmin
    split at h
    · cases h
    rename_i hltv
    have hv : proposed = valueOf cfg new := by rw [e]; unfold valueOf; omega
    have hwithin : isWithinLtv cfg dep (addC bor new) = .ok true := by
      split at h
      · cases h
      · cases h
      · cases h
      · rename_i hw; exact hw
    refine ⟨by simpa using hpd, by simpa using hpb, ?_, by omega, by omega, by simpa using hne, hwithin⟩
    rw [pricesOk_iff]
    intro d hd hc
    exact hall d ((mem_supp _ _ _).mpr ⟨hd, hc⟩)

theorem valD_add_disjoint (cfg : Cfg) (a b : Coins) (ha : ∀ d, 0 ≤ a d) (hb : ∀ d, 0 ≤ b d)
    (hdis : ∀ d, a d = 0 ∨ b d = 0) (d : Denom) : valD cfg (addC a b) d = valD cfg a d + valD cfg b d := by
  unfold valD addC
  rcases hdis d with h | h
  · simp [h]
  · simp [h]

theorem valueOf_add_disjoint (cfg : Cfg) (a b : Coins) (ha : ∀ d, 0 ≤ a d) (hb : ∀ d, 0 ≤ b d)
    (hdis : ∀ d, a d = 0 ∨ b d = 0) : valueOf cfg (addC a b) = valueOf cfg a + valueOf cfg b := by
  rw [valueOf_eq, valueOf_eq, valueOf_eq, ← sumD_add]
  apply sumD_congr
  intro d _
  exact valD_add_disjoint cfg a b ha hb hdis d

/-- markets whose conversion factor divides 10^18 (all powers of ten up to 10^18) and whose price is not negative -/
def ExactCf (cfg : Cfg) : Prop := ∀ d ∈ cfg.ds, 0 < (cfg.mkt d).cf ∧ P % (cfg.mkt d).cf = 0 ∧ 0 ≤ (cfg.mkt d).price.m

theorem valD_add_le (cfg : Cfg) (hx : ExactCf cfg) (a b : Coins) (ha : ∀ d, 0 ≤ a d) (hb : ∀ d, 0 ≤ b d)
    (d : Denom) (hd : d ∈ cfg.ds) :
    valD cfg (addC a b) d ≤ valD cfg a d + valD cfg b d + (if (decide (0 < a d) && decide (0 < b d)) then 1 else 0) := by
  obtain ⟨hcf, hdiv, hp⟩ := hx d hd
  unfold valD addC
  have := ha d; have := hb d
  by_cases h1 : 0 < a d <;> by_cases h2 : 0 < b d
  · have := usdValue_add_le (cfg.mkt d) (a d) (b d) (ha d) (hb d) hcf hdiv hp
    have h3 : 0 < a d + b d := by omega
    simp [h1, h2, h3]; omega
  · have e : b d = 0 := by omega
    simp [h1, h2, e]
  · have e : a d = 0 := by omega
    simp [h1, h2, e]
  · have e : b d = 0 := by omega
    have e' : a d = 0 := by omega
    simp [e, e']

theorem valueOf_add_le (cfg : Cfg) (hx : ExactCf cfg) (a b : Coins) (ha : ∀ d, 0 ≤ a d) (hb : ∀ d, 0 ≤ b d) :
    valueOf cfg (addC a b) ≤ valueOf cfg a + valueOf cfg b +
      ((cfg.ds.filter (fun d => decide (0 < a d) && decide (0 < b d))).length : Int) := by
  rw [valueOf_eq, valueOf_eq, valueOf_eq, ← sumD_add, ← sumD_indicator_le_length, ← sumD_add]
  apply sumD_le
  intro d hd
  exact valD_add_le cfg hx a b ha hb d hd

/-! ### withdraw / liquidation gates -/

theorem isWithinLtv_ok_true (cfg : Cfg) (dep bor : Coins) (hp1 : pricesOk cfg bor = true) (hp2 : pricesOk cfg dep = true)
    (h : valueOf cfg bor ≤ borrowable cfg dep) : isWithinLtv cfg dep bor = .ok true := by
  unfold isWithinLtv; simp [hp1, hp2, h]

theorem withdraw_ok_within (cfg : Cfg) (s s' : St) (u : User) (coins : Coins)
    (h : withdraw cfg s u coins = .ok s') : isWithinLtv cfg (s'.dep u) (s'.bor u) = .ok true := by
  unfold withdraw at h
  split at h
  · cases h
  split at h
  · cases h
  · cases h
  rename_i s1 h1
  split at h
  · cases h
  · cases h
  rename_i s2 h2
  simp only at h
  split at h
  · cases h
  split at h
  · cases h
  · cases h
  · cases h
  · rename_i hw
    split at h
    · cases h
    split at h
    · cases h
    split at h
    · cases h
    cases h
    simp only [upd, ite_true]
    exact hw

theorem liquidate_ok_outside (cfg : Cfg) (s s' : St) (keeper borrower : User)
    (h : liquidate cfg s keeper borrower = .ok s') :
    ∃ s1 s2, syncBorrow cfg s borrower = .ok s1 ∧ syncSupply cfg s1 borrower = .ok s2 ∧
      isWithinLtv cfg (s2.dep borrower) (s2.bor borrower) = .ok false := by
  unfold liquidate at h
  split at h
  · cases h
  split at h
  · cases h
  split at h
  · cases h
  · cases h
  rename_i s1 h1
  split at h
  · cases h
  · cases h
  rename_i s2 h2
  split at h
  · cases h
  · cases h
  · cases h
  · rename_i hw
    exact ⟨s1, s2, h1, h2, hw⟩


/-! ### witnesses (literal states used by counterexamples and non-vacuity examples) -/
namespace W

/-- denom 0: collateral, price 1.0; denom 1: price 1.000000000000000001; both conversion factor 10^6, LTV 0.5 -/
def mA : Market := ⟨1000000, ⟨P⟩, ⟨P / 2⟩, ⟨0⟩, ⟨P / 20⟩, false, ⟨0⟩⟩
def mB : Market := ⟨1000000, ⟨P + 1⟩, ⟨P / 2⟩, ⟨0⟩, ⟨P / 20⟩, false, ⟨0⟩⟩
def cfg : Cfg := ⟨[0, 1], fun d => if d = 0 then mA else mB, ⟨0⟩⟩
/-- deposit worth 2.0 → borrowing power exactly 1.0 -/
def dep : Coins := fun d => if d = 0 then 2000000 else 0
/-- 500000 of denom 1: value 0.5·1.000000000000000001 = 0.5000000000000000005 → half-even → 0.5 -/
def half : Coins := fun d => if d = 1 then 500000 else 0
def big : Coins := fun _ => 1000000000000
def one0 : Coins := fun d => if d = 0 then 1 else 0
/-- a smaller second borrow that stays inside the range -/
def small : Coins := fun d => if d = 1 then 400000 else 0
/-- the collateral (denom 0) has fallen to 0.4: borrowing power 0.4 < 0.5 borrowed -/
def cfgLow : Cfg := ⟨[0, 1], fun d => if d = 0 then { mA with price := ⟨4 * (P / 10)⟩ } else mB, ⟨0⟩⟩

/-- user 0 after depositing `dep` and borrowing `half` once; user 1 is a lender of denom 1 -/
def st : St :=
  { dep := fun u => if u = 0 then dep else if u = 1 then (fun d => if d = 1 then 1000000000 else 0) else zeroC
    depIdx := fun u d => if (u = 0 ∧ d = 0) ∨ (u = 1 ∧ d = 1) then some P else none
    bor := fun u => if u = 0 then half else zeroC
    borIdx := fun u d => if u = 0 ∧ d = 1 then some P else none
    supIdx := fun _ => some P
    brwIdx := fun d => if d = 1 then some P else none
    supplied := fun d => if d = 0 then 2000000 else if d = 1 then 1000000000 else 0
    borrowed := fun d => if d = 1 then 500000 else 0
    reserves := zeroC
    cash := fun d => if d = 0 then 2000000 else if d = 1 then 999500000 else 0
    bal := fun _ => big
    accr := fun _ => some 0
    aucs := [] }

end W

/-- hypotheses of `C08_within_ltv_not_liquidatable` as a decidable check (for the non-vacuity example) -/
def syncedWithin (cfg : Cfg) (s : St) (u : User) : Bool :=
  match syncBorrow cfg s u with
  | .ok s1 => (match syncSupply cfg s1 u with
    | .ok s2 => (match isWithinLtv cfg (s2.dep u) (s2.bor u) with | .ok true => true | _ => false)
    | _ => false)
  | _ => false

/-- the state-level reading of "a successful borrow leaves the position within range as liquidation computes it" -/
def borrowKeepsWithin (cfg : Cfg) (s : St) (u : User) (coins : Coins) : Bool :=
  match borrow cfg s u coins with
  | .ok s' => (match isWithinLtv cfg (s'.dep u) (s'.bor u) with | .ok true => true | _ => false)
  | _ => true

end KV.Hard
