/-
  Helper lemmas for C13 (x/bep3), part 5: operation sequences.  What one step does to the record of a
  given swap id, to balances and to the supply counters; the invariant along runs; the close count.
  Core Lean only.
-/
import KavaVerif.Proofs.Bep3Block
set_option linter.unusedSimpArgs false
set_option linter.unusedVariables false

namespace KV.Bep3

/-! ### findSwap through filterMap -/

theorem findSwap_cons (x : Swap) (xs : List Swap) (id : Id) :
    findSwap (x :: xs) id = if x.id = id then some x else findSwap xs id := rfl

theorem findSwap_filterMap {l : List Swap} (hn : (ids l).Nodup) (f : Swap → Option Swap)
    (hf : ∀ x y, f x = some y → y.id = x.id) (id : Id) :
    findSwap (l.filterMap f) id = (findSwap l id).bind f := by
  induction l with
  | nil => rfl
  | cons x xs ih =>
    have hnd := nodup_ids_cons.mp hn
    have ih' := ih hnd.2
    simp only [List.filterMap_cons]
    cases hfx : f x with
    | none =>
      simp only []
      rw [ih', findSwap_cons]
      by_cases hx : x.id = id
      · simp only [hx, ite_true, Option.bind_some, hfx]
        have : findSwap xs id = none := by
          apply findSwap_none_of
          intro sw hm he
          apply hnd.1
          rw [hx, ← he]; exact mem_ids hm
        rw [this]; rfl
      · simp only [hx, ite_false]
    | some y =>
      simp only []
      have hy := hf x y hfx
      rw [findSwap_cons, findSwap_cons, hy]
      by_cases hx : x.id = id
      · simp only [hx, ite_true, Option.bind_some, hfx]
      · simp only [hx, ite_false]
        exact ih'

theorem blockFate_id (H : Nat) (x y : Swap) (h : blockFate H x = some y) : y.id = x.id := by
  unfold blockFate at h
  split at h
  · cases h
  · split at h
    · cases h; rfl
    · cases h; rfl

/-! ### one step, case by case -/

theorem step_of_ok {cfg : Cfg} {hs : Hashes} {s s' : St} {op : Op} (h : apply cfg hs s op = .ok s') :
    step cfg hs s op = s' := by unfold step; rw [h]
theorem step_of_err {cfg : Cfg} {hs : Hashes} {s : St} {op : Op} (h : apply cfg hs s op = .err) :
    step cfg hs s op = s := by unfold step; rw [h]
theorem step_of_panic {cfg : Cfg} {hs : Hashes} {s : St} {op : Op} (h : apply cfg hs s op = .panic) :
    step cfg hs s op = s := by unfold step; rw [h]

/-- the successful outcomes of one step -/
theorem step_cases (cfg : Cfg) (hs : Hashes) (s : St) (op : Op) :
    step cfg hs s op = s ∨
    (∃ hash ts span sender recipient other coins, op = .create hash ts span sender recipient other coins ∧
        create cfg hs s hash ts span sender recipient other coins = .ok (step cfg hs s op)) ∨
    (∃ frm id rn, op = .claim frm id rn ∧ claim cfg hs s id rn = .ok (step cfg hs s op)) ∨
    (∃ frm id, op = .refund frm id ∧ refund cfg hs s id = .ok (step cfg hs s op)) ∨
    (∃ dh dt, op = .beginBlock dh dt ∧ step cfg hs s op = beginBlock hs s dh dt) ∨
    (∃ d l tl p tbl act, op = .setLimit d l tl p tbl act ∧ step cfg hs s op = setLimit s d l tl p tbl act) ∨
    (∃ d dep, op = .setDeputy d dep ∧ step cfg hs s op = setDeputy s d dep) := by
  cases op with
  | create hash ts span sender recipient other coins =>
    cases hc : create cfg hs s hash ts span sender recipient other coins with
    | ok s' =>
      have e : step cfg hs s (.create hash ts span sender recipient other coins) = s' := step_of_ok hc
      exact Or.inr (Or.inl ⟨hash, ts, span, sender, recipient, other, coins, rfl, by rw [e]; exact hc⟩)
    | err => exact Or.inl (step_of_err (by show create _ _ _ _ _ _ _ _ _ _ = _; exact hc))
    | panic => exact Or.inl (step_of_panic (by show create _ _ _ _ _ _ _ _ _ _ = _; exact hc))
  | claim frm id rn =>
    cases hc : claim cfg hs s id rn with
    | ok s' =>
      have e : step cfg hs s (.claim frm id rn) = s' := step_of_ok hc
      exact Or.inr (Or.inr (Or.inl ⟨frm, id, rn, rfl, by rw [e]; exact hc⟩))
    | err => exact Or.inl (step_of_err (by show claim _ _ _ _ _ = _; exact hc))
    | panic => exact Or.inl (step_of_panic (by show claim _ _ _ _ _ = _; exact hc))
  | refund frm id =>
    cases hc : refund cfg hs s id with
    | ok s' =>
      have e : step cfg hs s (.refund frm id) = s' := step_of_ok hc
      exact Or.inr (Or.inr (Or.inr (Or.inl ⟨frm, id, rfl, by rw [e]; exact hc⟩)))
    | err => exact Or.inl (step_of_err (by show refund _ _ _ _ = _; exact hc))
    | panic => exact Or.inl (step_of_panic (by show refund _ _ _ _ = _; exact hc))
  | beginBlock dh dt => exact Or.inr (Or.inr (Or.inr (Or.inr (Or.inl ⟨dh, dt, rfl, rfl⟩))))
  | setLimit d l tl p tbl act => exact Or.inr (Or.inr (Or.inr (Or.inr (Or.inr (Or.inl ⟨d, l, tl, p, tbl, act, rfl, rfl⟩)))))
  | setDeputy d dep => exact Or.inr (Or.inr (Or.inr (Or.inr (Or.inr (Or.inr ⟨d, dep, rfl, rfl⟩)))))

/-- operations a transaction can carry: the creator of a swap is never the module account -/
def OpOk (cfg : Cfg) : Op → Prop
  | .create _ _ _ sender _ _ _ => sender ≠ cfg.module
  | _ => True

theorem inv_step {cfg : Cfg} {hs : Hashes} {s : St} (hcfg : cfg.macc cfg.module = true) (h : Inv cfg hs s)
    (op : Op) (hop : OpOk cfg op) : Inv cfg hs (step cfg hs s op) := by
  rcases step_cases cfg hs s op with e | ⟨hash, ts, span, sender, rcp, other, coins, rfl, hok⟩ |
    ⟨frm, id, rn, rfl, hok⟩ | ⟨frm, id, rfl, hok⟩ | ⟨dh, dt, rfl, e⟩ | ⟨d, l, tl, p, tbl, act, rfl, e⟩ |
    ⟨dq, depq, rfl, e⟩
  · rw [e]; exact h
  · exact create_inv h hop hok
  · exact claim_inv h hcfg hok
  · exact refund_inv h hok
  · rw [e]; exact (beginBlock_spec h dh dt).1
  · rw [e]; exact setLimit_inv h d l tl p tbl act
  · rw [e]; exact setDeputy_inv h dq depq

theorem inv_run {cfg : Cfg} {hs : Hashes} (hcfg : cfg.macc cfg.module = true) :
    ∀ (ops : List Op) (s : St), Inv cfg hs s → (∀ op ∈ ops, OpOk cfg op) → Inv cfg hs (run cfg hs s ops) := by
  intro ops
  induction ops with
  | nil => intro s h _; exact h
  | cons op rest ih =>
    intro s h hops
    unfold run
    simp only [List.foldl_cons]
    exact ih _ (inv_step hcfg h op (hops op List.mem_cons_self)) (fun o ho => hops o (List.mem_cons_of_mem _ ho))

/-! ### the record of one swap id across a step -/

theorem find_create {cfg : Cfg} {hs : Hashes} {s s' : St} {hash : Hash} {ts : Int} {span : Nat}
    {sender recipient : Addr} {other : Nat} {coins : List (Denom × Int)}
    (hok : create cfg hs s hash ts span sender recipient other coins = .ok s') (x : Id) :
    findSwap s.swaps (hs.sid hash sender other) = none ∧
    ∃ n : Swap, n.id = hs.sid hash sender other ∧ n.status = .open ∧ n.hash = hash ∧ n.ts = ts ∧ n.sender = sender ∧
      n.recipient = recipient ∧ n.other = other ∧ n.closed = 0 ∧ coins = [(n.denom, n.amt)] ∧
      n.expire = (s.height + span) % 18446744073709551616 ∧
      (∀ a, getAsset s.assets n.denom = some a → (n.dir = .incoming ↔ sender = a.deputy)) ∧
      s'.swaps = n :: s.swaps ∧
      findSwap s'.swaps x = if x = hs.sid hash sender other then some n else findSwap s.swaps x := by
  obtain ⟨d, amt, a, dir, sup, bal', rfl, hnew, -, ha, -, -, -, -, -, hcase, rfl⟩ := create_spec hok
  obtain ⟨f1, -⟩ := storeNew_fields (hs := hs) (s := s) (hash := hash) (ts := ts) (span := span) (sender := sender)
      (recipient := recipient) (other := other) (d := d) (amt := amt) (dir := dir) (sup := sup) (bal := bal') hnew
  refine ⟨hnew, newSwap hs s hash ts span sender recipient other d amt dir, rfl, rfl, rfl, rfl, rfl, rfl, rfl, rfl,
    rfl, rfl, ?_, f1, ?_⟩
  · intro a' ha'
    have : a' = a := by
      have e : getAsset s.assets d = some a' := ha'
      rw [ha] at e; cases e; rfl
    subst this
    rcases hcase with ⟨rfl, hd, -⟩ | ⟨rfl, hd, -⟩
    · exact ⟨fun _ => hd, fun _ => rfl⟩
    · constructor
      · intro e; cases e
      · intro e; exact absurd e hd
  · rw [f1, findSwap_cons]
    have : (newSwap hs s hash ts span sender recipient other d amt dir).id = hs.sid hash sender other := rfl
    rw [this]
    by_cases hx : x = hs.sid hash sender other
    · subst hx; simp
    · have hx' : ¬ hs.sid hash sender other = x := fun e => hx e.symm
      simp [hx, hx']

theorem find_claim {cfg : Cfg} {hs : Hashes} {s s' : St} (h : Inv cfg hs s) {id : Id} {rn : Nat}
    (hok : claim cfg hs s id rn = .ok s') (x : Id) :
    ∃ sw, findSwap s.swaps id = some sw ∧ sw.status = .open ∧
      hs.sid (hs.H rn sw.ts) sw.sender sw.other = hs.sid sw.hash sw.sender sw.other ∧
      s'.swaps = replaceSwap s.swaps (done s.height sw) ∧ s'.height = s.height ∧
      findSwap s'.swaps x = if x = id then some (done s.height sw) else findSwap s.swaps x := by
  obtain ⟨sw, hf, hst, hpre, hcase⟩ := claim_spec hok
  obtain ⟨hm, hid'⟩ := findSwap_some hf
  subst hid'
  have hidok := h.idok sw hm
  have key : s'.swaps = replaceSwap s.swaps (done s.height sw) ∧ s'.height = s.height := by
    rcases hcase with ⟨-, a, sup1, sup2, bal2, -, -, -, -, -, rfl⟩ | ⟨-, sup1, sup2, -, -, -, rfl⟩
    · obtain ⟨g1, -, -, g4, -⟩ := closeSwap_fields (hs := hs) (s0 := claimInPre cfg s sw sup2 bal2) (sw := sw) (rm := true) hidok hf
      exact ⟨g1, g4⟩
    · obtain ⟨g1, -, -, g4, -⟩ := closeSwap_fields (hs := hs) (s0 := claimOutPre cfg s sw sup2) (sw := sw) (rm := true) hidok hf
      exact ⟨g1, g4⟩
  refine ⟨sw, hf, hst, hpre, key.1, key.2, ?_⟩
  rw [key.1, findSwap_replace]
  have : (done s.height sw).id = sw.id := rfl
  rw [this]
  by_cases hx : x = sw.id
  · subst hx; simp [hf]
  · simp [hx]

theorem find_refund {cfg : Cfg} {hs : Hashes} {s s' : St} (h : Inv cfg hs s) {id : Id}
    (hok : refund cfg hs s id = .ok s') (x : Id) :
    ∃ sw, findSwap s.swaps id = some sw ∧ sw.status = .expired ∧ sw.expire ≤ s.height ∧
      s'.swaps = replaceSwap s.swaps (done s.height sw) ∧ s'.height = s.height ∧
      findSwap s'.swaps x = if x = id then some (done s.height sw) else findSwap s.swaps x := by
  obtain ⟨sw, hf, hst, hcase⟩ := refund_spec hok
  obtain ⟨hm, hid'⟩ := findSwap_some hf
  subst hid'
  have hidok := h.idok sw hm
  have key : s'.swaps = replaceSwap s.swaps (done s.height sw) ∧ s'.height = s.height := by
    rcases hcase with ⟨-, sup1, -, rfl⟩ | ⟨-, sup1, bal', -, -, -, rfl⟩
    · obtain ⟨g1, -, -, g4, -⟩ := closeSwap_fields (hs := hs) (s0 := { s with supply := upd s.supply sw.denom sup1 }) (sw := sw) (rm := false) hidok hf
      exact ⟨g1, g4⟩
    · obtain ⟨g1, -, -, g4, -⟩ := closeSwap_fields (hs := hs) (s0 := { s with supply := upd s.supply sw.denom sup1, bal := bal' }) (sw := sw) (rm := false) hidok hf
      exact ⟨g1, g4⟩
  refine ⟨sw, hf, hst, h.exp sw hm hst, key.1, key.2, ?_⟩
  rw [key.1, findSwap_replace]
  have : (done s.height sw).id = sw.id := rfl
  rw [this]
  by_cases hx : x = sw.id
  · subst hx; simp [hf]
  · simp [hx]

theorem find_begin {cfg : Cfg} {hs : Hashes} {s : St} (h : Inv cfg hs s) (dh : Nat) (dt : Int) (x : Id) :
    findSwap (beginBlock hs s dh dt).swaps x = (findSwap s.swaps x).bind (blockFate (s.height + dh)) := by
  obtain ⟨-, -, -, e, -⟩ := beginBlock_spec h dh dt
  rw [e]
  exact findSwap_filterMap h.nodup _ (blockFate_id _) x

/-! ### what a successful operation does to balances, bank supply and the supply record -/

theorem create_effect {cfg : Cfg} {hs : Hashes} {s s' : St} {hash : Hash} {ts : Int} {span : Nat}
    {sender recipient : Addr} {other : Nat} {coins : List (Denom × Int)}
    (hok : create cfg hs s hash ts span sender recipient other coins = .ok s') :
    ∃ d amt a sup, coins = [(d, amt)] ∧ getAsset s.assets d = some a ∧ a.active = true ∧
      a.minAmt ≤ amt ∧ amt ≤ a.maxAmt ∧ cfg.macc recipient = false ∧
      s'.supply = upd s.supply d sup ∧ s'.assets = s.assets ∧ s'.bankSupply = s.bankSupply ∧ s'.height = s.height ∧
      sup.current = (s.supply d).current ∧ sup.tlCurrent = (s.supply d).tlCurrent ∧
      ((sender = a.deputy ∧ recipient ≠ a.deputy ∧ s'.bal = s.bal ∧
          sup.incoming = (s.supply d).incoming + amt ∧ sup.outgoing = (s.supply d).outgoing ∧
          sup.current + sup.incoming ≤ a.limit ∧ (a.timeLimited = true → sup.tlCurrent + sup.incoming ≤ a.tbl)) ∨
       (sender ≠ a.deputy ∧ recipient = a.deputy ∧ a.minLock ≤ span ∧ span ≤ a.maxLock ∧ a.fee + a.minAmt < amt ∧
          amt ≤ s.bal sender d ∧
          (∀ x y, s'.bal x y = s.bal x y - (if x = sender ∧ y = d then amt else 0) +
              (if x = cfg.module ∧ y = d then amt else 0)) ∧
          sup.incoming = (s.supply d).incoming ∧ sup.outgoing = (s.supply d).outgoing + amt ∧
          sup.outgoing ≤ sup.current)) := by
  obtain ⟨d, amt, a, dir, sup, bal', rfl, hnew, hmacc, ha, hact, hmin, hmax, -, -, hcase, rfl⟩ := create_spec hok
  obtain ⟨-, -, -, f4, f5, f6, f7, f8, -, -⟩ :=
    storeNew_fields (hs := hs) (s := s) (hash := hash) (ts := ts) (span := span) (sender := sender)
      (recipient := recipient) (other := other) (d := d) (amt := amt) (dir := dir) (sup := sup) (bal := bal') hnew
  refine ⟨d, amt, a, sup, rfl, ha, hact, hmin, hmax, hmacc, f6, f5, f8, f4, ?_⟩
  rcases hcase with ⟨rfl, hd, hr, hs1, rfl⟩ | ⟨rfl, hd, hr, hl1, hl2, hfee, hs1, hb⟩
  · obtain ⟨l1, l2, rfl⟩ := incIncoming_some hs1
    refine ⟨rfl, rfl, Or.inl ⟨hd, hr, f7, rfl, rfl, ?_, ?_⟩⟩
    · show (s.supply d).current + ((s.supply d).incoming + amt) ≤ a.limit
      omega
    · intro htl
      have := l2 htl
      show (s.supply d).tlCurrent + ((s.supply d).incoming + amt) ≤ a.tbl
      omega
  · obtain ⟨l1, rfl⟩ := incOutgoing_some hs1
    obtain ⟨b1, b2⟩ := bankSend_some hb
    refine ⟨rfl, rfl, Or.inr ⟨hd, hr, hl1, hl2, hfee, b1, ?_, rfl, rfl, l1⟩⟩
    intro x y; rw [f7]; exact b2 x y

theorem claim_effect {cfg : Cfg} {hs : Hashes} {s s' : St} (h : Inv cfg hs s) (hcfg : cfg.macc cfg.module = true)
    {id : Id} {rn : Nat} (hok : claim cfg hs s id rn = .ok s') :
    ∃ sw sup2, findSwap s.swaps id = some sw ∧ sw.status = .open ∧
      s'.supply = upd s.supply sw.denom sup2 ∧ s'.assets = s.assets ∧
      ((sw.dir = .incoming ∧
          (∀ x y, s'.bal x y = s.bal x y + (if x = sw.recipient ∧ y = sw.denom then sw.amt else 0)) ∧
          (∀ y, s'.bankSupply y = s.bankSupply y + (if y = sw.denom then sw.amt else 0)) ∧
          sup2.incoming = (s.supply sw.denom).incoming - sw.amt ∧ sup2.outgoing = (s.supply sw.denom).outgoing ∧
          sup2.current = (s.supply sw.denom).current + sw.amt ∧
          ∃ a, getAsset s.assets sw.denom = some a ∧ sup2.current ≤ a.limit ∧
            (a.timeLimited = true → sup2.tlCurrent = (s.supply sw.denom).tlCurrent + sw.amt ∧ sup2.tlCurrent ≤ a.tbl) ∧
            (a.timeLimited = false → sup2.tlCurrent = (s.supply sw.denom).tlCurrent)) ∨
       (sw.dir = .outgoing ∧
          (∀ x y, s'.bal x y = s.bal x y - (if x = cfg.module ∧ y = sw.denom then sw.amt else 0)) ∧
          (∀ y, s'.bankSupply y = s.bankSupply y - (if y = sw.denom then sw.amt else 0)) ∧
          sup2.incoming = (s.supply sw.denom).incoming ∧ sup2.outgoing = (s.supply sw.denom).outgoing - sw.amt ∧
          sup2.current = (s.supply sw.denom).current - sw.amt ∧
          sup2.tlCurrent = (s.supply sw.denom).tlCurrent)) := by
  obtain ⟨sw, hf, hst, -, hcase⟩ := claim_spec hok
  obtain ⟨hm, hid'⟩ := findSwap_some hf
  subst hid'
  have hidok := h.idok sw hm
  rcases hcase with ⟨hdir, a, sup1, sup2, bal2, h1, ha, h2, -, hb, rfl⟩ | ⟨hdir, sup1, sup2, h1, h2, hb, rfl⟩
  · obtain ⟨-, -, -, -, g5, g6, g7, g8, -, -⟩ :=
      closeSwap_fields (hs := hs) (s0 := claimInPre cfg s sw sup2 bal2) (sw := sw) (rm := true) hidok hf
    obtain ⟨-, rfl⟩ := decIncoming_some h1
    obtain ⟨c0, c1, c2, c3, -, c5, c6⟩ := incCurrent_some h2
    obtain ⟨-, hb'⟩ := bankSend_some hb
    have hmr : ¬ cfg.module = sw.recipient := by
      intro e
      have := h.rcp sw hm
      rw [← e, hcfg] at this; cases this
    refine ⟨sw, sup2, hf, hst, g6, g5, Or.inl ⟨hdir, ?_, ?_, c2, c3, c1, a, ha, ?_, ?_, ?_⟩⟩
    · intro x y
      rw [g7]
      show bal2 x y = _
      rw [hb' x y]
      simp only [upd2]
      by_cases hy : y = sw.denom
      · subst hy
        by_cases hx : x = cfg.module
        · subst hx; simp [hmr]
        · simp [hx]
      · simp [hy]
    · intro y
      rw [g8]
      show upd s.bankSupply sw.denom (s.bankSupply sw.denom + sw.amt) y = _
      by_cases hy : y = sw.denom
      · subst hy; simp [upd]
      · simp [upd, hy]
    · rw [c1]; exact c0
    · intro htl
      obtain ⟨t1, t2⟩ := c5 htl
      exact ⟨t2, by rw [t2]; exact t1⟩
    · intro htl; exact c6 htl
  · obtain ⟨-, -, -, -, g5, g6, g7, g8, -, -⟩ :=
      closeSwap_fields (hs := hs) (s0 := claimOutPre cfg s sw sup2) (sw := sw) (rm := true) hidok hf
    obtain ⟨-, rfl⟩ := decOutgoing_some h1
    obtain ⟨-, rfl⟩ := decCurrent_some h2
    refine ⟨sw, _, hf, hst, g6, g5, Or.inr ⟨hdir, ?_, ?_, rfl, rfl, rfl, rfl⟩⟩
    · intro x y
      rw [g7]
      show upd2 s.bal cfg.module sw.denom (s.bal cfg.module sw.denom - sw.amt) x y = _
      simp only [upd2]
      by_cases hc : x = cfg.module ∧ y = sw.denom
      · obtain ⟨rfl, rfl⟩ := hc; simp
      · simp [hc]
    · intro y
      rw [g8]
      show upd s.bankSupply sw.denom (s.bankSupply sw.denom - sw.amt) y = _
      by_cases hy : y = sw.denom
      · subst hy; simp [upd]
      · simp [upd, hy]

theorem refund_effect {cfg : Cfg} {hs : Hashes} {s s' : St} (h : Inv cfg hs s)
    {id : Id} (hok : refund cfg hs s id = .ok s') :
    ∃ sw sup1, findSwap s.swaps id = some sw ∧ sw.status = .expired ∧
      s'.supply = upd s.supply sw.denom sup1 ∧ s'.assets = s.assets ∧ s'.bankSupply = s.bankSupply ∧
      sup1.current = (s.supply sw.denom).current ∧ sup1.tlCurrent = (s.supply sw.denom).tlCurrent ∧
      ((sw.dir = .incoming ∧ s'.bal = s.bal ∧
          sup1.incoming = (s.supply sw.denom).incoming - sw.amt ∧ sup1.outgoing = (s.supply sw.denom).outgoing) ∨
       (sw.dir = .outgoing ∧
          (∀ x y, s'.bal x y = s.bal x y - (if x = cfg.module ∧ y = sw.denom then sw.amt else 0) +
              (if x = sw.sender ∧ y = sw.denom then sw.amt else 0)) ∧
          sup1.incoming = (s.supply sw.denom).incoming ∧ sup1.outgoing = (s.supply sw.denom).outgoing - sw.amt)) := by
  obtain ⟨sw, hf, hst, hcase⟩ := refund_spec hok
  obtain ⟨hm, hid'⟩ := findSwap_some hf
  subst hid'
  have hidok := h.idok sw hm
  rcases hcase with ⟨hdir, sup1, h1, rfl⟩ | ⟨hdir, sup1, bal', h1, -, hb, rfl⟩
  · obtain ⟨-, -, -, -, g5, g6, g7, g8, -, -⟩ :=
      closeSwap_fields (hs := hs) (s0 := { s with supply := upd s.supply sw.denom sup1 }) (sw := sw) (rm := false) hidok hf
    obtain ⟨-, rfl⟩ := decIncoming_some h1
    exact ⟨sw, _, hf, hst, g6, g5, g8, rfl, rfl, Or.inl ⟨hdir, g7, rfl, rfl⟩⟩
  · obtain ⟨-, -, -, -, g5, g6, g7, g8, -, -⟩ :=
      closeSwap_fields (hs := hs) (s0 := { s with supply := upd s.supply sw.denom sup1, bal := bal' }) (sw := sw) (rm := false) hidok hf
    obtain ⟨-, rfl⟩ := decOutgoing_some h1
    obtain ⟨-, hb'⟩ := bankSend_some hb
    refine ⟨sw, _, hf, hst, g6, g5, g8, rfl, rfl, Or.inr ⟨hdir, ?_, rfl, rfl⟩⟩
    intro x y; rw [g7]; exact hb' x y

/-! ### funds move at most once: the close count of a swap id along a run -/

/-- the operation is a claim or a refund of swap `x` -/
def closesId : Op → Id → Bool
  | .claim _ id _, x => id == x
  | .refund _ id, x => id == x
  | _, _ => false

/-- the operation is a create whose swap id is `x` -/
def createsId (hs : Hashes) : Op → Id → Prop
  | .create hash _ _ sender _ other _, x => hs.sid hash sender other = x
  | _, _ => False

/-- number of successful claims and refunds of swap `x` along the run of `ops` from `s` -/
def closeCount (cfg : Cfg) (hs : Hashes) : St → List Op → Id → Nat
  | _, [], _ => 0
  | s, op :: rest, x =>
    (if closesId op x && (apply cfg hs s op).isOk then 1 else 0) + closeCount cfg hs (step cfg hs s op) rest x

/-- swap `x` exists and is not completed -/
def liveAt (s : St) (x : Id) : Prop := ∃ sw, findSwap s.swaps x = some sw ∧ sw.status ≠ .completed

theorem close_kills {cfg : Cfg} {hs : Hashes} {s : St} (h : Inv cfg hs s) {op : Op} {x : Id}
    (hc : closesId op x = true) (hok : (apply cfg hs s op).isOk = true) :
    liveAt s x ∧ ¬ liveAt (step cfg hs s op) x := by
  cases op with
  | claim frm id rn =>
    have hid : id = x := by simpa [closesId] using hc
    subst hid
    cases hcl : claim cfg hs s id rn with
    | ok s' =>
      have e : step cfg hs s (.claim frm id rn) = s' := step_of_ok hcl
      obtain ⟨sw, hf, hst, -, -, -, hfind⟩ := find_claim h hcl id
      refine ⟨⟨sw, hf, by rw [hst]; intro e; cases e⟩, ?_⟩
      rintro ⟨y, hy, hny⟩
      rw [e, hfind] at hy
      simp only [ite_true] at hy
      cases hy
      exact hny rfl
    | err => have : apply cfg hs s (.claim frm id rn) = .err := hcl
             rw [this] at hok; cases hok
    | panic => have : apply cfg hs s (.claim frm id rn) = .panic := hcl
               rw [this] at hok; cases hok
  | refund frm id =>
    have hid : id = x := by simpa [closesId] using hc
    subst hid
    cases hcl : refund cfg hs s id with
    | ok s' =>
      have e : step cfg hs s (.refund frm id) = s' := step_of_ok hcl
      obtain ⟨sw, hf, hst, -, -, -, hfind⟩ := find_refund h hcl id
      refine ⟨⟨sw, hf, by rw [hst]; intro e; cases e⟩, ?_⟩
      rintro ⟨y, hy, hny⟩
      rw [e, hfind] at hy
      simp only [ite_true] at hy
      cases hy
      exact hny rfl
    | err => have : apply cfg hs s (.refund frm id) = .err := hcl
             rw [this] at hok; cases hok
    | panic => have : apply cfg hs s (.refund frm id) = .panic := hcl
               rw [this] at hok; cases hok
  | create _ _ _ _ _ _ _ => simp [closesId] at hc
  | beginBlock _ _ => simp [closesId] at hc
  | setLimit _ _ _ _ _ _ => simp [closesId] at hc
  | setDeputy _ _ => simp [closesId] at hc

theorem live_back {cfg : Cfg} {hs : Hashes} {s : St} (h : Inv cfg hs s) {op : Op} {x : Id}
    (hnc : ¬ createsId hs op x) (hl : liveAt (step cfg hs s op) x) : liveAt s x := by
  rcases step_cases cfg hs s op with e | ⟨hash, ts, span, sender, rcp, other, coins, rfl, hok⟩ |
    ⟨frm, id, rn, rfl, hok⟩ | ⟨frm, id, rfl, hok⟩ | ⟨dh, dt, rfl, e⟩ | ⟨d, l, tl, p, tbl, act, rfl, e⟩ |
    ⟨dq, depq, rfl, e⟩
  · rw [e] at hl; exact hl
  · obtain ⟨-, n, -, -, -, -, -, -, -, -, -, -, -, -, hfind⟩ := find_create hok x
    obtain ⟨y, hy, hny⟩ := hl
    rw [hfind] at hy
    have hx : ¬ x = hs.sid hash sender other := fun e => hnc e.symm
    simp only [hx, ite_false] at hy
    exact ⟨y, hy, hny⟩
  · obtain ⟨sw, hf, hst, -, -, -, hfind⟩ := find_claim h hok x
    obtain ⟨y, hy, hny⟩ := hl
    rw [hfind] at hy
    by_cases hx : x = id
    · simp only [hx, ite_true] at hy; cases hy; exact absurd rfl hny
    · simp only [hx, ite_false] at hy; exact ⟨y, hy, hny⟩
  · obtain ⟨sw, hf, hst, -, -, -, hfind⟩ := find_refund h hok x
    obtain ⟨y, hy, hny⟩ := hl
    rw [hfind] at hy
    by_cases hx : x = id
    · simp only [hx, ite_true] at hy; cases hy; exact absurd rfl hny
    · simp only [hx, ite_false] at hy; exact ⟨y, hy, hny⟩
  · obtain ⟨y, hy, hny⟩ := hl
    rw [e, find_begin h dh dt x] at hy
    cases hfx : findSwap s.swaps x with
    | none => rw [hfx] at hy; cases hy
    | some sw =>
      rw [hfx] at hy
      simp only [Option.bind_some] at hy
      refine ⟨sw, hfx, ?_⟩
      intro hc
      unfold blockFate at hy
      split at hy
      · cases hy
      · split at hy
        · rename_i ho; rw [hc] at ho; cases ho.1
        · cases hy; exact hny hc
  · rw [e] at hl; exact hl
  · rw [e] at hl; exact hl

theorem closeCount_le {cfg : Cfg} {hs : Hashes} (hcfg : cfg.macc cfg.module = true) (x : Id) :
    ∀ (ops : List Op) (s : St), Inv cfg hs s → (∀ op ∈ ops, OpOk cfg op ∧ ¬ createsId hs op x) →
      closeCount cfg hs s ops x ≤ 1 ∧ (¬ liveAt s x → closeCount cfg hs s ops x = 0) := by
  intro ops
  induction ops with
  | nil => intro s _ _; exact ⟨Nat.zero_le _, fun _ => rfl⟩
  | cons op rest ih =>
    intro s h hops
    have hop := hops op List.mem_cons_self
    have h1 := inv_step hcfg h op hop.1
    obtain ⟨i1, i2⟩ := ih (step cfg hs s op) h1 (fun o ho => hops o (List.mem_cons_of_mem _ ho))
    unfold closeCount
    by_cases hc : (closesId op x && (apply cfg hs s op).isOk) = true
    · rw [if_pos hc]
      have hc' := Bool.and_eq_true_iff.mp hc
      obtain ⟨hl, hnl⟩ := close_kills h hc'.1 hc'.2
      have := i2 hnl
      exact ⟨by omega, fun hn => absurd hl hn⟩
    · rw [if_neg hc]
      refine ⟨by omega, ?_⟩
      intro hn
      have : ¬ liveAt (step cfg hs s op) x := fun hl => hn (live_back h hop.2 hl)
      have := i2 this
      omega

/-! ### the current supply moves only by claims -/

/-- what a step adds to the current supply (and to the bank supply) of denomination `d` -/
def claimDelta (cfg : Cfg) (hs : Hashes) (s : St) (op : Op) (d : Denom) : Int :=
  match op with
  | .claim _ id rn =>
    match findSwap s.swaps id with
    | some sw =>
      if (claim cfg hs s id rn).isOk = true ∧ sw.denom = d then
        (match sw.dir with | .incoming => sw.amt | .outgoing => - sw.amt)
      else 0
    | none => 0
  | _ => 0

/-- net claimed amount of denomination `d` along a run: Σ claimed incoming − Σ claimed outgoing -/
def netClaimed (cfg : Cfg) (hs : Hashes) : St → List Op → Denom → Int
  | _, [], _ => 0
  | s, op :: rest, d => claimDelta cfg hs s op d + netClaimed cfg hs (step cfg hs s op) rest d

theorem current_step {cfg : Cfg} {hs : Hashes} {s : St} (hcfg : cfg.macc cfg.module = true) (h : Inv cfg hs s)
    (op : Op) (d : Denom) :
    ((step cfg hs s op).supply d).current = (s.supply d).current + claimDelta cfg hs s op d ∧
    (step cfg hs s op).bankSupply d = s.bankSupply d + claimDelta cfg hs s op d := by
  rcases step_cases cfg hs s op with e | ⟨hash, ts, span, sender, rcp, other, coins, rfl, hok⟩ |
    ⟨frm, id, rn, rfl, hok⟩ | ⟨frm, id, rfl, hok⟩ | ⟨dh, dt, rfl, e⟩ | ⟨d', l, tl, p, tbl, act, rfl, e⟩ |
    ⟨dq, depq, rfl, e⟩
  · -- nothing happened: a failed op, or an op that returns the same state
    rw [e]
    have : claimDelta cfg hs s op d = 0 := by
      cases op with
      | claim frm id rn =>
        cases hcl : claim cfg hs s id rn with
        | ok s' =>
          -- a successful claim changes the record, so the state cannot be the same
          exfalso
          have e' : step cfg hs s (.claim frm id rn) = s' := step_of_ok hcl
          obtain ⟨sw', hf', hst, -, -, -, hfind⟩ := find_claim h hcl id
          rw [← e', e] at hfind
          simp only [ite_true] at hfind
          have e3 : sw' = done s.height sw' := Option.some.inj (hf'.symm.trans hfind)
          have : sw'.status = .completed := by rw [e3]; rfl
          rw [hst] at this; cases this
        | err =>
          unfold claimDelta
          simp only [hcl, Res.isOk]
          split <;> simp
        | panic =>
          unfold claimDelta
          simp only [hcl, Res.isOk]
          split <;> simp
      | create _ _ _ _ _ _ _ => rfl
      | refund _ _ => rfl
      | beginBlock _ _ => rfl
      | setLimit _ _ _ _ _ _ => rfl
      | setDeputy _ _ => rfl
    rw [this]; omega
  · obtain ⟨d0, amt, a, sup, -, -, -, -, -, -, e1, -, e3, -, c1, -, -⟩ := create_effect hok
    have : claimDelta cfg hs s (.create hash ts span sender rcp other coins) d = 0 := rfl
    rw [this, e1, e3]
    refine ⟨?_, by omega⟩
    by_cases hd : d = d0
    · subst hd; rw [upd_same, c1]; omega
    · rw [upd_other _ _ hd]; omega
  · obtain ⟨sw, sup2, hf, hst, e1, -, hcase⟩ := claim_effect h hcfg hok
    have hdl : claimDelta cfg hs s (.claim frm id rn) d =
        if sw.denom = d then (match sw.dir with | .incoming => sw.amt | .outgoing => - sw.amt) else 0 := by
      unfold claimDelta
      simp only [hf, hok, Res.isOk, true_and]
    rw [hdl, e1]
    rcases hcase with ⟨hdir, -, hb, -, -, c, -⟩ | ⟨hdir, -, hb, -, -, c, -⟩
    · rw [hb d]
      by_cases hd : d = sw.denom
      · subst hd; rw [upd_same, c]; simp [hdir]
      · have hd' : ¬ sw.denom = d := fun e => hd e.symm
        rw [upd_other _ _ hd]; simp [hd, hd']
    · rw [hb d]
      by_cases hd : d = sw.denom
      · subst hd; rw [upd_same, c]; simp [hdir]; omega
      · have hd' : ¬ sw.denom = d := fun e => hd e.symm
        rw [upd_other _ _ hd]; simp [hd, hd']
  · obtain ⟨sw, sup1, -, -, e1, -, e3, c1, -, -⟩ := refund_effect h hok
    have : claimDelta cfg hs s (.refund frm id) d = 0 := rfl
    rw [this, e1, e3]
    refine ⟨?_, by omega⟩
    by_cases hd : d = sw.denom
    · subst hd; rw [upd_same, c1]; omega
    · rw [upd_other _ _ hd]; omega
  · obtain ⟨-, -, -, -, -, -, -, e8, -, e10⟩ := beginBlock_spec h dh dt
    have : claimDelta cfg hs s (.beginBlock dh dt) d = 0 := rfl
    rw [this, e, e8, (e10 d).2.2.1]; omega
  · have : claimDelta cfg hs s (.setLimit d' l tl p tbl act) d = 0 := rfl
    rw [this, e]
    exact ⟨by show (s.supply d).current = _; omega, by show s.bankSupply d = _; omega⟩
  · have : claimDelta cfg hs s (.setDeputy dq depq) d = 0 := rfl
    rw [this, e]
    exact ⟨by show (s.supply d).current = _; omega, by show s.bankSupply d = _; omega⟩

theorem current_run {cfg : Cfg} {hs : Hashes} (hcfg : cfg.macc cfg.module = true) (d : Denom) :
    ∀ (ops : List Op) (s : St), Inv cfg hs s → (∀ op ∈ ops, OpOk cfg op) →
      ((run cfg hs s ops).supply d).current = (s.supply d).current + netClaimed cfg hs s ops d ∧
      (run cfg hs s ops).bankSupply d = s.bankSupply d + netClaimed cfg hs s ops d := by
  intro ops
  induction ops with
  | nil =>
    intro s _ _
    have r : run cfg hs s [] = s := rfl
    have n : netClaimed cfg hs s [] d = 0 := rfl
    rw [r, n]; exact ⟨by omega, by omega⟩
  | cons op rest ih =>
    intro s h hops
    have h1 := inv_step hcfg h op (hops op List.mem_cons_self)
    obtain ⟨i1, i2⟩ := ih (step cfg hs s op) h1 (fun o ho => hops o (List.mem_cons_of_mem _ ho))
    obtain ⟨c1, c2⟩ := current_step hcfg h op d
    have r : run cfg hs s (op :: rest) = run cfg hs (step cfg hs s op) rest := rfl
    have n : netClaimed cfg hs s (op :: rest) d =
      claimDelta cfg hs s op d + netClaimed cfg hs (step cfg hs s op) rest d := rfl
    rw [r, n, i1, i2, c1, c2]
    exact ⟨by omega, by omega⟩

/-! ### direction by deputy, as a state invariant -/

/-- the operation is not a deputy rotation -/
def notSetDeputy : Op → Prop
  | .setDeputy _ _ => False
  | _ => True

/-- every stored swap is incoming exactly when its sender is the deputy of its asset (an invariant only while
    governance leaves the deputies alone: a rotation changes the deputy, never a stored swap) -/
def DeputyInv (s : St) : Prop :=
  ∀ sw ∈ s.swaps, ∀ a, getAsset s.assets sw.denom = some a → (sw.dir = .incoming ↔ sw.sender = a.deputy)

theorem mem_filterMap_fate {H : Nat} {l : List Swap} {y : Swap} (h : y ∈ l.filterMap (blockFate H)) :
    ∃ x ∈ l, y = x ∨ y = expd x := by
  obtain ⟨x, hx, hf⟩ := List.mem_filterMap.mp h
  refine ⟨x, hx, ?_⟩
  unfold blockFate at hf
  split at hf
  · cases hf
  · split at hf
    · cases hf; exact Or.inr rfl
    · cases hf; exact Or.inl rfl

theorem deputy_step {cfg : Cfg} {hs : Hashes} {s : St} (hcfg : cfg.macc cfg.module = true) (h : Inv cfg hs s)
    (hd : DeputyInv s) (op : Op) (hnd : notSetDeputy op) : DeputyInv (step cfg hs s op) := by
  rcases step_cases cfg hs s op with e | ⟨hash, ts, span, sender, rcp, other, coins, rfl, hok⟩ |
    ⟨frm, id, rn, rfl, hok⟩ | ⟨frm, id, rfl, hok⟩ | ⟨dh, dt, rfl, e⟩ | ⟨d, l, tl, p, tbl, act, rfl, e⟩ |
    ⟨dq, depq, rfl, e⟩
  · rw [e]; exact hd
  · obtain ⟨-, n, -, -, -, -, hsn, -, -, -, -, -, hdep, hsw, -⟩ := find_create hok 0
    obtain ⟨-, -, -, -, -, -, -, -, -, -, -, eas, -⟩ := create_effect hok
    intro y hy a ha
    rw [hsw] at hy
    rw [eas] at ha
    cases hy with
    | head => rw [hsn]; exact hdep a ha
    | tail _ hy' => exact hd y hy' a ha
  · obtain ⟨sw, hf, -, -, hsw, -, -⟩ := find_claim h hok 0
    obtain ⟨-, -, -, -, -, eas, -⟩ := claim_effect h hcfg hok
    obtain ⟨hm, -⟩ := findSwap_some hf
    intro y hy a ha
    rw [hsw, mem_replace] at hy
    rw [eas] at ha
    rcases hy with ⟨hy', -⟩ | ⟨rfl, -⟩
    · exact hd y hy' a ha
    · exact hd sw hm a ha
  · obtain ⟨sw, hf, -, -, hsw, -, -⟩ := find_refund h hok 0
    obtain ⟨-, -, -, -, -, eas, -⟩ := refund_effect h hok
    obtain ⟨hm, -⟩ := findSwap_some hf
    intro y hy a ha
    rw [hsw, mem_replace] at hy
    rw [eas] at ha
    rcases hy with ⟨hy', -⟩ | ⟨rfl, -⟩
    · exact hd y hy' a ha
    · exact hd sw hm a ha
  · obtain ⟨-, -, -, esw, -, -, -, -, eas, -⟩ := beginBlock_spec h dh dt
    intro y hy a ha
    rw [e, esw] at hy
    rw [e, eas] at ha
    obtain ⟨x, hx, rfl | rfl⟩ := mem_filterMap_fate hy
    · exact hd y hx a ha
    · exact hd x hx a ha
  · intro y hy a ha
    rw [e] at hy ha
    have hy' : y ∈ s.swaps := hy
    have hs' : (setLimit s d l tl p tbl act).assets =
        s.assets.map (fun da => if da.1 = d then (da.1, relimit da.2 l tl p tbl act) else da) := rfl
    rw [hs', getAsset_setLimit] at ha
    cases hg : getAsset s.assets y.denom with
    | none => rw [hg] at ha; cases ha
    | some a0 =>
      rw [hg] at ha
      simp only [Option.map_some] at ha
      have := hd y hy' a0 hg
      cases ha
      split
      · exact this
      · exact this
  · exact absurd hnd (by simp [notSetDeputy])

/-! ### the supply limits, as a state invariant while governance leaves the limits alone -/

/-- current + incoming within the limit, and (time-limited assets) time-limited current + incoming within
    the time-based limit -/
def LimInv (s : St) : Prop :=
  ∀ d a, getAsset s.assets d = some a →
    (s.supply d).current + (s.supply d).incoming ≤ a.limit ∧
    (a.timeLimited = true → (s.supply d).tlCurrent + (s.supply d).incoming ≤ a.tbl) ∧
    0 ≤ (s.supply d).tlCurrent

def notSetLimit : Op → Prop
  | .setLimit _ _ _ _ _ _ => False
  | _ => True

theorem lim_step {cfg : Cfg} {hs : Hashes} {s : St} (hcfg : cfg.macc cfg.module = true) (h : Inv cfg hs s)
    (hl : LimInv s) (op : Op) (hns : notSetLimit op) : LimInv (step cfg hs s op) := by
  rcases step_cases cfg hs s op with e | ⟨hash, ts, span, sender, rcp, other, coins, rfl, hok⟩ |
    ⟨frm, id, rn, rfl, hok⟩ | ⟨frm, id, rfl, hok⟩ | ⟨dh, dt, rfl, e⟩ | ⟨d, l, tl, p, tbl, act, rfl, e⟩ |
    ⟨dq, depq, rfl, e⟩
  · rw [e]; exact hl
  · obtain ⟨d0, amt, a0, sup, -, ha0, -, -, -, -, esup, eas, -, -, c1, c2, hcase⟩ := create_effect hok
    intro d a ha
    rw [eas] at ha
    rw [esup]
    by_cases hd : d = d0
    · subst hd
      have : a = a0 := by rw [ha0] at ha; cases ha; rfl
      subst this
      rw [upd_same]
      obtain ⟨l1, l2, l3⟩ := hl d a ha
      rcases hcase with ⟨-, -, -, i1, i2, i3, i4⟩ | ⟨-, -, -, -, -, -, -, i1, i2, -⟩
      · exact ⟨i3, i4, by rw [c2]; exact l3⟩
      · exact ⟨by rw [c1, i1]; exact l1, fun ht => by rw [c2, i1]; exact l2 ht, by rw [c2]; exact l3⟩
    · rw [upd_other _ _ hd]; exact hl d a ha
  · obtain ⟨sw, sup2, hf, -, esup, eas, hcase⟩ := claim_effect h hcfg hok
    obtain ⟨hm, -⟩ := findSwap_some hf
    have hpos := h.pos sw hm
    intro d a ha
    rw [eas] at ha
    rw [esup]
    by_cases hd : d = sw.denom
    · subst hd
      rw [upd_same]
      obtain ⟨l1, l2, l3⟩ := hl sw.denom a ha
      rcases hcase with ⟨-, -, -, i1, i2, i3, a', ha', -, t1, t2⟩ | ⟨-, -, -, i1, i2, i3, i4⟩
      · have : a' = a := by rw [ha'] at ha; cases ha; rfl
        subst this
        refine ⟨by omega, ?_, ?_⟩
        · intro ht
          have := l2 ht
          have := (t1 ht).1
          omega
        · cases hb : a'.timeLimited with
          | true => have := (t1 hb).1; omega
          | false => have := t2 hb; omega
      · exact ⟨by omega, fun ht => by have := l2 ht; omega, by omega⟩
    · rw [upd_other _ _ hd]; exact hl d a ha
  · obtain ⟨sw, sup1, hf, -, esup, eas, -, c1, c2, hcase⟩ := refund_effect h hok
    obtain ⟨hm, -⟩ := findSwap_some hf
    have hpos := h.pos sw hm
    intro d a ha
    rw [eas] at ha
    rw [esup]
    by_cases hd : d = sw.denom
    · subst hd
      rw [upd_same]
      obtain ⟨l1, l2, l3⟩ := hl sw.denom a ha
      rcases hcase with ⟨-, -, i1, -⟩ | ⟨-, -, i1, -⟩
      · exact ⟨by omega, fun ht => by have := l2 ht; omega, by omega⟩
      · exact ⟨by omega, fun ht => by have := l2 ht; omega, by omega⟩
    · rw [upd_other _ _ hd]; exact hl d a ha
  · obtain ⟨-, -, -, -, -, -, -, -, eas, esup⟩ := beginBlock_spec h dh dt
    intro d a ha
    rw [e] at ha ⊢
    rw [eas] at ha
    obtain ⟨l1, l2, l3⟩ := hl d a ha
    obtain ⟨i1, -, i3, i4⟩ := esup d
    refine ⟨by omega, ?_, ?_⟩
    · intro ht
      have := l2 ht
      rcases i4 with t | t <;> omega
    · rcases i4 with t | t <;> omega
  · exact absurd hns (by simp [notSetLimit])
  · intro d a ha
    rw [e] at ha ⊢
    rw [getAsset_after_setDeputy] at ha
    cases hg : getAsset s.assets d with
    | none => rw [hg] at ha; cases ha
    | some a0 =>
      rw [hg] at ha
      simp only [Option.map_some] at ha
      have := hl d a0 hg
      cases ha
      split
      · exact this
      · exact this

/-! ### the life cycle of one swap id -/

/-- The changes one operation may make to the record stored under swap id `x`
    (`none` = no record).  Anything else is impossible (theorem `trans_step`). -/
inductive Trans (hs : Hashes) (s : St) (op : Op) (x : Id) : Option Swap → Option Swap → Prop
  /-- untouched -/
  | same (r : Option Swap) : Trans hs s op x r r
  /-- created open by a create whose swap id is `x`, only when no record existed -/
  | created (n : Swap) : createsId hs op x → n.status = .open → n.closed = 0 → Trans hs s op x none (some n)
  /-- open → completed, by a claim of `x` carrying a preimage of the hash -/
  | claimed (sw : Swap) (frm : Addr) (rn : Nat) : op = .claim frm x rn → sw.status = .open →
      hs.sid (hs.H rn sw.ts) sw.sender sw.other = hs.sid sw.hash sw.sender sw.other →
      Trans hs s op x (some sw) (some (done s.height sw))
  /-- expired → completed, by a refund of `x`, at or after the expire height -/
  | refunded (sw : Swap) (frm : Addr) : op = .refund frm x → sw.status = .expired → sw.expire ≤ s.height →
      Trans hs s op x (some sw) (some (done s.height sw))
  /-- open → expired, by the begin blocker of a block at or after the expire height -/
  | expired (sw : Swap) (dh : Nat) (dt : Int) : op = .beginBlock dh dt → sw.status = .open →
      sw.expire ≤ s.height + dh → Trans hs s op x (some sw) (some (expd sw))
  /-- completed → deleted, by the begin blocker of a block at or after closed block + horizon -/
  | pruned (sw : Swap) (dh : Nat) (dt : Int) : op = .beginBlock dh dt → sw.status = .completed →
      sw.closed + horizon ≤ s.height + dh → Trans hs s op x (some sw) none

theorem trans_step {cfg : Cfg} {hs : Hashes} {s : St} (h : Inv cfg hs s) (op : Op) (x : Id) :
    Trans hs s op x (findSwap s.swaps x) (findSwap (step cfg hs s op).swaps x) := by
  rcases step_cases cfg hs s op with e | ⟨hash, ts, span, sender, rcp, other, coins, rfl, hok⟩ |
    ⟨frm, id, rn, rfl, hok⟩ | ⟨frm, id, rfl, hok⟩ | ⟨dh, dt, rfl, e⟩ | ⟨d, l, tl, p, tbl, act, rfl, e⟩ |
    ⟨dq, depq, rfl, e⟩
  · rw [e]; exact .same _
  · obtain ⟨hnew, n, -, hopen, -, -, -, -, -, hcl, -, -, -, -, hfind⟩ := find_create hok x
    rw [hfind]
    by_cases hx : x = hs.sid hash sender other
    · simp only [hx, ite_true]
      rw [hnew]
      subst hx
      exact .created n rfl hopen hcl
    · simp only [hx, ite_false]; exact .same _
  · obtain ⟨sw, hf, hst, hpre, -, -, hfind⟩ := find_claim h hok x
    rw [hfind]
    by_cases hx : x = id
    · subst hx
      simp only [ite_true]
      rw [hf]
      exact .claimed sw frm rn rfl hst hpre
    · simp only [hx, ite_false]; exact .same _
  · obtain ⟨sw, hf, hst, hexp, -, -, hfind⟩ := find_refund h hok x
    rw [hfind]
    by_cases hx : x = id
    · subst hx
      simp only [ite_true]
      rw [hf]
      exact .refunded sw frm rfl hst hexp
    · simp only [hx, ite_false]; exact .same _
  · rw [e, find_begin h dh dt x]
    cases hf : findSwap s.swaps x with
    | none => exact .same _
    | some sw =>
      simp only [Option.bind_some]
      unfold blockFate
      split
      · rename_i hc; exact .pruned sw dh dt rfl hc.1 hc.2
      · split
        · rename_i ho; exact .expired sw dh dt rfl ho.1 ho.2
        · exact .same _
  · rw [e]; exact .same _
  · rw [e]; exact .same _

end KV.Bep3
