/-
  Exactness of the sdk.Dec expressions used by x/earn's ConvertToShares / ConvertToAssets:
  on non-negative operands they are plain integer floors of mantissas.
-/
import KavaVerif.Model.Earn
set_option linter.unusedSimpArgs false
set_option linter.unusedVariables false
namespace KV.Earn
open KV

theorem P_pos : (0:Int) < P := by decide
theorem P_ne : P ≠ 0 := by decide

/-- `NewDecFromInt(x).Mul(d)` is exact: mantissa `x * d.m` -/
theorem mul_ofInt (x t : Int) : Dec.mul (Dec.ofInt x) ⟨t⟩ = ⟨x * t⟩ := by
  unfold Dec.mul Dec.ofInt
  simp only
  have : x * P * t = (x * t) * P := by grind
  rw [this, chopRound_mul_P]

/-- `⟨n⟩.QuoTruncate(NewDecFromInt(V))` for `0 ≤ n`, `0 < V`: mantissa `n / V` -/
theorem quoTruncate_ofInt (n V : Int) (hn : 0 ≤ n) (hV : 0 < V) :
    (Dec.quoTruncate ⟨n⟩ (Dec.ofInt V)).m = n / V := by
  unfold Dec.quoTruncate Dec.ofInt
  simp only
  have h1 : 0 ≤ n * P * P := Int.mul_nonneg (Int.mul_nonneg hn (by decide)) (by decide)
  have h2 : 0 ≤ V * P := Int.mul_nonneg (by omega) (by decide)
  rw [tquo_nonneg_eq _ _ h1 h2]
  rw [Int.mul_ediv_mul_of_pos_left (n * P) V P_pos]
  have h3 : 0 ≤ n * P / V := Int.ediv_nonneg (Int.mul_nonneg hn (by decide)) (by omega)
  rw [chopTrunc_nonneg_eq _ h3]
  rw [Int.ediv_ediv_of_nonneg (by omega : 0 ≤ V)]
  exact Int.mul_ediv_mul_of_pos_left n V P_pos

/-- `⟨n⟩.QuoTruncate(⟨t⟩).TruncateInt()` for `0 ≤ n`, `0 < t`: `n / t` -/
theorem quoTruncate_truncateInt (n t : Int) (hn : 0 ≤ n) (ht : 0 < t) :
    (Dec.quoTruncate ⟨n⟩ ⟨t⟩).truncateInt = n / t := by
  unfold Dec.quoTruncate Dec.truncateInt
  simp only
  have h1 : 0 ≤ n * P * P := Int.mul_nonneg (Int.mul_nonneg hn (by decide)) (by decide)
  rw [tquo_nonneg_eq _ _ h1 (by omega)]
  have h3 : 0 ≤ n * P * P / t := Int.ediv_nonneg h1 (by omega)
  rw [chopTrunc_nonneg_eq _ h3]
  rw [Int.ediv_ediv_of_nonneg (by omega : 0 ≤ t)]
  rw [Int.mul_ediv_mul_of_pos_left (n * P) t P_pos]
  have h4 : 0 ≤ n * P / t := Int.ediv_nonneg (Int.mul_nonneg hn (by decide)) (by omega)
  rw [chopTrunc_nonneg_eq _ h4]
  rw [Int.ediv_ediv_of_nonneg (by omega : 0 ≤ t)]
  exact Int.mul_ediv_mul_of_pos_left n t P_pos

/-- `ConvertToShares` when the vault record exists -/
theorem convertToShares_found (s : St) (x : Int) (hf : s.found = true) (hx : 0 ≤ x) (ht : 0 ≤ s.tot)
    (hv : 0 < s.val) :
    convertToShares s x = if x * s.tot / s.val = 0 then .err else .ok (x * s.tot / s.val) := by
  unfold convertToShares
  simp only [hf, not_true_eq_false, ite_false]
  have hv0 : ¬ s.val = 0 := by omega
  simp only [hv0, ite_false]
  rw [mul_ofInt, quoTruncate_ofInt _ _ (Int.mul_nonneg hx ht) hv]
  have hq : 0 ≤ x * s.tot / s.val := Int.ediv_nonneg (Int.mul_nonneg hx ht) (by omega)
  by_cases h0 : x * s.tot / s.val = 0
  · simp only [h0, ite_true]
  · simp only [h0, ite_false]
    have : ¬ x * s.tot / s.val < 0 := by omega
    simp only [this, ite_false]

/-- `ConvertToShares` when no vault record exists: 1:1 -/
theorem convertToShares_fresh (s : St) (x : Int) (hf : s.found = false) (hx : 0 ≤ x) :
    convertToShares s x = .ok (x * P) := by
  unfold convertToShares Dec.ofInt
  simp only [hf, Bool.false_eq_true, not_false_eq_true, ite_true]
  have : ¬ x * P < 0 := by
    have := Int.mul_nonneg hx (by decide : (0:Int) ≤ P); omega
  simp only [this, ite_false]

/-- `ConvertToAssets` when the vault record exists with positive total shares -/
theorem convertToAssets_found (s : St) (n : Int) (hf : s.found = true) (ht : 0 < s.tot)
    (hv : 0 ≤ s.val) (hn : 0 ≤ n) : convertToAssets s n = .ok (s.val * n / s.tot) := by
  unfold convertToAssets
  simp only [hf, not_true_eq_false, ite_false]
  have ht0 : ¬ s.tot = 0 := by omega
  simp only [ht0, ite_false]
  rw [mul_ofInt, quoTruncate_truncateInt _ _ (Int.mul_nonneg hv hn) ht]
  have : ¬ s.val * n / s.tot < 0 := by
    have := Int.ediv_nonneg (Int.mul_nonneg hv hn) (by omega : 0 ≤ s.tot); omega
  simp only [this, ite_false]

theorem convertToAssets_notfound (s : St) (n : Int) (hf : s.found = false) :
    convertToAssets s n = .err := by
  unfold convertToAssets
  simp only [hf, Bool.false_eq_true, not_false_eq_true, ite_true]

theorem tquo_nonpos (a b : Int) (ha : a ≤ 0) (hb : 0 ≤ b) : tquo a b ≤ 0 := by
  unfold tquo
  by_cases h0 : 0 ≤ a
  · have : a = 0 := by omega
    subst this; simp [hb]
  · simp only [h0, ite_false, hb, ite_true]
    have := Int.ediv_nonneg (by omega : 0 ≤ -a) hb
    omega

/-- a non-positive numerator never yields a positive share count -/
theorem quoTruncate_ofInt_nonpos (n V : Int) (hn : n ≤ 0) (hV : 0 < V) :
    (Dec.quoTruncate ⟨n⟩ (Dec.ofInt V)).m ≤ 0 := by
  unfold Dec.quoTruncate Dec.ofInt chopTrunc
  simp only
  have h1 : n * P * P ≤ 0 := by
    have : 0 ≤ (-n) * P * P := Int.mul_nonneg (Int.mul_nonneg (by omega) (by decide)) (by decide)
    have e : (-n) * P * P = -(n * P * P) := by grind
    omega
  have h2 : 0 ≤ V * P := Int.mul_nonneg (by omega) (by decide)
  exact tquo_nonpos _ _ (tquo_nonpos _ _ h1 h2) (by decide)

/-- `ConvertToShares` succeeds on an existing vault only for a positive amount, with the floor value -/
theorem convertToShares_ok (s : St) (x w : Int) (hf : s.found = true) (ht : 0 ≤ s.tot) (hv : 0 < s.val)
    (h : convertToShares s x = .ok w) : 0 < x ∧ w = x * s.tot / s.val ∧ 0 < w := by
  by_cases hx : 0 ≤ x
  · rw [convertToShares_found s x hf hx ht hv] at h
    have hq : 0 ≤ x * s.tot / s.val := Int.ediv_nonneg (Int.mul_nonneg hx ht) (by omega)
    split at h
    · cases h
    · rename_i hne
      cases h
      refine ⟨?_, rfl, by omega⟩
      by_cases h0 : x = 0
      · subst h0; simp at hne
      · omega
  · exfalso
    unfold convertToShares at h
    simp only [hf, not_true_eq_false, ite_false] at h
    have hv0 : ¬ s.val = 0 := by omega
    simp only [hv0, ite_false] at h
    rw [mul_ofInt] at h
    have hle : x * s.tot ≤ 0 := by
      have : 0 ≤ (-x) * s.tot := Int.mul_nonneg (by omega) ht
      have e : (-x) * s.tot = -(x * s.tot) := by grind
      omega
    have := quoTruncate_ofInt_nonpos (x * s.tot) s.val hle hv
    split at h
    · cases h
    · split at h
      · cases h
      · omega

end KV.Earn
