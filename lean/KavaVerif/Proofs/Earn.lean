/-
  Helper lemmas for C11 (earn): sums over account lists, the state invariant, effect ("spec") lemmas
  of Deposit / Withdraw, preservation of the invariant along operation lists, the redeemable-value
  bounds and the frame lemmas.  Property statements live in KavaVerif/Props/C11.lean.
-/
import KavaVerif.Proofs.EarnNum
set_option linter.unusedSimpArgs false
set_option linter.unusedVariables false
namespace KV.Earn
open KV

def sumOver : List Addr → (Addr → Int) → Int
  | [], _ => 0
  | x :: xs, f => f x + sumOver xs f

theorem sumOver_upd_notin (l : List Addr) (f : Addr → Int) (a : Addr) (v : Int) (h : a ∉ l) :
    sumOver l (upd f a v) = sumOver l f := by
  induction l with
  | nil => rfl
  | cons x xs ih =>
    simp only [List.mem_cons, not_or] at h
    have hx : x ≠ a := fun e => h.1 e.symm
    simp only [sumOver, ih h.2, upd, hx, ite_false]

theorem sumOver_upd (l : List Addr) (f : Addr → Int) (a : Addr) (v : Int)
    (hn : l.Nodup) (h : a ∈ l) : sumOver l (upd f a v) = sumOver l f - f a + v := by
  induction l with
  | nil => cases h
  | cons x xs ih =>
    have hnd := List.nodup_cons.mp hn
    by_cases hx : x = a
    · subst hx
      simp only [sumOver, sumOver_upd_notin xs f x v hnd.1, upd, ite_true]
      omega
    · have hm : a ∈ xs := by
        cases h with
        | head => exact absurd rfl hx
        | tail _ h' => exact h'
      simp only [sumOver, ih hnd.2 hm, upd, hx, ite_false]
      omega

theorem sumOver_nonneg (l : List Addr) (f : Addr → Int) (h : ∀ a, 0 ≤ f a) : 0 ≤ sumOver l f := by
  induction l with
  | nil => simp [sumOver]
  | cons x xs ih => have := h x; simp only [sumOver]; omega

theorem le_sumOver (l : List Addr) (f : Addr → Int) (h : ∀ a, 0 ≤ f a) (a : Addr) (ha : a ∈ l) :
    f a ≤ sumOver l f := by
  induction l with
  | nil => cases ha
  | cons x xs ih =>
    have hx := h x
    have hs := sumOver_nonneg xs f h
    simp only [sumOver]
    cases ha with
    | head => omega
    | tail _ h' => have := ih h'; omega

theorem sumOver_congr (l : List Addr) (f g : Addr → Int) (h : ∀ a, f a = g a) :
    sumOver l f = sumOver l g := by
  have : f = g := funext h
  rw [this]

theorem sumOver_zero_of_nonneg (l : List Addr) (f : Addr → Int) (h : ∀ a, 0 ≤ f a)
    (hz : sumOver l f = 0) (a : Addr) (ha : a ∈ l) : f a = 0 := by
  have := le_sumOver l f h a ha
  have := h a
  omega

/-- each truncated share of `V` sums to at most `V` -/
theorem sum_floor_mul_le (l : List Addr) (f : Addr → Int) (V T : Int) (hT : 0 < T) :
    sumOver l (fun a => V * f a / T) * T ≤ V * sumOver l f := by
  induction l with
  | nil => simp [sumOver]
  | cons x xs ih =>
    simp only [sumOver]
    have h1 : V * f x / T * T ≤ V * f x := Int.ediv_mul_le _ (by omega)
    have e1 : (V * f x / T + sumOver xs (fun a => V * f a / T)) * T
        = V * f x / T * T + sumOver xs (fun a => V * f a / T) * T := by grind
    have e2 : V * (f x + sumOver xs f) = V * f x + V * sumOver xs f := by grind
    rw [e1, e2]; omega

theorem sum_floor_le (l : List Addr) (f : Addr → Int) (V T : Int) (hT : 0 < T)
    (hs : sumOver l f = T) : sumOver l (fun a => V * f a / T) ≤ V := by
  have h := sum_floor_mul_le l f V T hT
  rw [hs] at h
  exact Int.le_of_mul_le_mul_right h hT


/-- The state invariant: non-negative shares, total shares = Σ account shares over `accts`
    (a duplicate-free list of every address that may hold shares), non-negative strategy value,
    and the vault record exists exactly when the total is non-zero. -/
def Inv (accts : List Addr) (s : St) : Prop :=
  (∀ a, 0 ≤ s.sh a) ∧ s.tot = sumOver accts s.sh ∧ 0 ≤ s.val ∧ (s.found = true ↔ s.tot ≠ 0)

theorem Inv.tot_nonneg {accts : List Addr} {s : St} (h : Inv accts s) : 0 ≤ s.tot := by
  rw [h.2.1]; exact sumOver_nonneg _ _ h.1

theorem Inv.tot_pos {accts : List Addr} {s : St} (h : Inv accts s) (hf : s.found = true) : 0 < s.tot := by
  have := h.tot_nonneg
  have := h.2.2.2.mp hf
  omega

/-- what a successful `Deposit` did -/
theorem deposit_spec (s s' : St) (a : Addr) (x : Int) (vo so ao : Bool)
    (h : deposit s a x vo so ao = .ok s') :
    ∃ shares, convertToShares s x = .ok shares ∧ 0 < x ∧ x ≤ s.bal a ∧
      s'.found = true ∧ s'.tot = s.tot + shares ∧ s'.sh = upd s.sh a (s.sh a + shares) ∧
      s'.val = s.val + x ∧ s'.loose = s.loose ∧ s'.bal = upd s.bal a (s.bal a - x) := by
  unfold deposit at h
  split at h; · cases h
  split at h; · cases h
  split at h; · cases h
  split at h; · cases h
  split at h; · cases h
  split at h; · cases h
  split at h
  · cases h
  · cases h
  · rename_i shares hs
    cases h
    refine ⟨shares, hs, by omega, by omega, rfl, rfl, rfl, rfl, by simp only []; omega, rfl⟩


theorem withdrawRecords_spec (s s' : St) (a : Addr) (w' amt paid : Int)
    (h : withdrawRecords s a w' amt paid = .ok s') :
    0 ≤ s.sh a - w' ∧ 0 ≤ s.tot - w' ∧
    s'.found = decide (s.tot - w' ≠ 0) ∧ s'.tot = s.tot - w' ∧ s'.sh = upd s.sh a (s.sh a - w') ∧
    s'.val = s.val - paid ∧ s'.loose = s.loose + paid - amt ∧ s'.bal = upd s.bal a (s.bal a + amt) := by
  unfold withdrawRecords at h
  split at h; · cases h
  split at h; · cases h
  cases h
  exact ⟨by omega, by omega, rfl, rfl, rfl, rfl, rfl, rfl⟩

/-- what a successful `Withdraw` did, in the code's own terms -/
theorem withdraw_spec (s s' : St) (a : Addr) (want : Int) (vo so : Bool)
    (h : withdraw s a want vo so = .ok s') :
    ∃ w amt accVal dustVal, s.found = true ∧ want ≠ 0 ∧
      convertToShares s want = .ok w ∧ w ≤ s.sh a ∧
      convertToAssets s w = .ok amt ∧ convertToAssets s (s.sh a) = .ok accVal ∧ amt ≤ accVal ∧
      s.val ≠ 0 ∧ amt ≤ s.loose + stratPaid amt s.val ∧
      convertToAssets { s with val := s.val - stratPaid amt s.val } (s.sh a - w) = .ok dustVal ∧
      withdrawRecords s a (sweep s a w dustVal) amt (stratPaid amt s.val) = .ok s' := by
  unfold withdraw at h
  split at h; · cases h
  split at h; · cases h
  split at h; · cases h
  split at h; · cases h
  rename_i hvo hw0 hso hfound
  split at h
  · cases h
  · cases h
  rename_i w hw
  split at h; · cases h
  rename_i hle
  split at h
  · cases h
  · cases h
  rename_i amt hamt
  split at h
  · cases h
  · cases h
  rename_i accVal hacc
  split at h; · cases h
  rename_i hgt
  split at h; · cases h
  rename_i hv0
  split at h; · cases h
  rename_i hl
  split at h
  · cases h
  · cases h
  rename_i dustVal hdust
  exact ⟨w, amt, accVal, dustVal, by simpa using hfound, hw0, hw, by omega, hamt, hacc, by omega, hv0, by omega, hdust, h⟩


theorem ediv_le_self_of_le (V w T : Int) (hV : 0 ≤ V) (hT : 0 < T) (hw : w ≤ T) : V * w / T ≤ V := by
  have h1 : V * w ≤ V * T := Int.mul_le_mul_of_nonneg_left hw hV
  have h2 := Int.ediv_le_ediv hT h1
  rw [Int.mul_ediv_cancel V (by omega : T ≠ 0)] at h2
  exact h2

theorem ediv_mono_right (V a b T : Int) (hV : 0 ≤ V) (hT : 0 < T) (hab : a ≤ b) :
    V * a / T ≤ V * b / T :=
  Int.ediv_le_ediv hT (Int.mul_le_mul_of_nonneg_left hab hV)

/-- round trip assets → shares → assets never rounds up -/
theorem roundtrip_le (want T V : Int) (hT : 0 < T) (hV : 0 < V) :
    V * (want * T / V) / T ≤ want := by
  have h1 : want * T / V * V ≤ want * T := Int.ediv_mul_le _ (by omega)
  have e : V * (want * T / V) = want * T / V * V := by grind
  rw [e]
  have h2 := Int.ediv_le_ediv hT h1
  rw [Int.mul_ediv_cancel want (by omega : T ≠ 0)] at h2
  exact h2

/-- a successful `Withdraw` in arithmetic terms, from a state satisfying the invariant -/
theorem withdraw_arith (accts : List Addr) (s s' : St) (a : Addr) (want : Int) (vo so : Bool)
    (ha : a ∈ accts) (hinv : Inv accts s) (h : withdraw s a want vo so = .ok s') :
    ∃ w w' amt, 0 < want ∧ s.found = true ∧ 0 < s.tot ∧ 0 < s.val ∧ w = want * s.tot / s.val ∧ 0 < w ∧
      w ≤ s.sh a ∧ s.sh a ≤ s.tot ∧ amt = s.val * w / s.tot ∧ 0 ≤ amt ∧
      amt ≤ s.val * s.sh a / s.tot ∧ amt ≤ s.val ∧ amt ≤ want ∧
      w' = (if (s.val - amt) * (s.sh a - w) / s.tot = 0 then s.sh a else w) ∧ w ≤ w' ∧ w' ≤ s.sh a ∧
      s'.found = decide (s.tot - w' ≠ 0) ∧ s'.tot = s.tot - w' ∧ s'.sh = upd s.sh a (s.sh a - w') ∧
      s'.val = s.val - amt ∧ s'.loose = s.loose ∧ s'.bal = upd s.bal a (s.bal a + amt) := by
  obtain ⟨w, amt, accVal, dustVal, hf, hw0, hw, hle, hamt, hacc, hav, hv0, hl, hdust, hrec⟩ :=
    withdraw_spec s s' a want vo so h
  have hT := hinv.tot_pos hf
  have hV : 0 < s.val := by have := hinv.2.2.1; omega
  obtain ⟨hwant, hweq, hwpos⟩ := convertToShares_ok s want w hf (by omega) hV hw
  have hsa : s.sh a ≤ s.tot := by rw [hinv.2.1]; exact le_sumOver accts s.sh hinv.1 a ha
  rw [convertToAssets_found s w hf hT (by omega) (by omega)] at hamt
  rw [convertToAssets_found s (s.sh a) hf hT (by omega) (hinv.1 a)] at hacc
  cases hamt; cases hacc
  have hamt0 : 0 ≤ s.val * w / s.tot := Int.ediv_nonneg (Int.mul_nonneg (by omega) (by omega)) (by omega)
  have hamtV : s.val * w / s.tot ≤ s.val := ediv_le_self_of_le s.val w s.tot (by omega) hT (by omega)
  have hpaid : stratPaid (s.val * w / s.tot) s.val = s.val * w / s.tot := by
    unfold stratPaid; split <;> omega
  rw [hpaid] at hdust hrec
  have hf' : ({ s with val := s.val - s.val * w / s.tot } : St).found = true := hf
  rw [convertToAssets_found _ (s.sh a - w) hf' hT (by simp only []; omega) (by omega)] at hdust
  cases hdust
  obtain ⟨r1, r2, r3, r4, r5, r6, r7, r8⟩ := withdrawRecords_spec s s' a _ _ _ hrec
  refine ⟨w, sweep s a w ((s.val - s.val * w / s.tot) * (s.sh a - w) / s.tot), s.val * w / s.tot,
    hwant, hf, hT, hV, hweq, hwpos, hle, hsa, rfl, hamt0, hav, hamtV, ?_, ?_, ?_, ?_, r3, r4, r5, r6, by omega, r8⟩
  · rw [hweq]; exact roundtrip_le want s.tot s.val hT hV
  · rfl
  · unfold sweep; split <;> omega
  · unfold sweep; split <;> omega


/-- a successful `Deposit` in arithmetic terms, from a state satisfying the invariant -/
theorem deposit_arith (accts : List Addr) (s s' : St) (a : Addr) (x : Int) (vo so ao : Bool)
    (hinv : Inv accts s) (h : deposit s a x vo so ao = .ok s') :
    ∃ shares, 0 < x ∧ x ≤ s.bal a ∧ 0 < shares ∧
      (s.found = true → 0 < s.tot ∧ 0 < s.val ∧ shares = x * s.tot / s.val) ∧
      (s.found = false → shares = x * P) ∧
      s'.found = true ∧ s'.tot = s.tot + shares ∧ s'.sh = upd s.sh a (s.sh a + shares) ∧
      s'.val = s.val + x ∧ s'.loose = s.loose ∧ s'.bal = upd s.bal a (s.bal a - x) := by
  obtain ⟨shares, hs, hx, hb, r1, r2, r3, r4, r5, r6⟩ := deposit_spec s s' a x vo so ao h
  by_cases hf : s.found = true
  · have hT := hinv.tot_pos hf
    have hV : 0 < s.val := by
      have h0 := hinv.2.2.1
      by_cases hz : s.val = 0
      · exfalso
        unfold convertToShares at hs
        simp only [hf, not_true_eq_false, ite_false, hz, ite_true] at hs
        cases hs
      · omega
    obtain ⟨-, e, hp⟩ := convertToShares_ok s x shares hf (by omega) hV hs
    refine ⟨shares, hx, hb, hp, fun _ => ⟨hT, hV, e⟩, fun hc => ?_, r1, r2, r3, r4, r5, r6⟩
    rw [hf] at hc; cases hc
  · have hf' : s.found = false := by cases hh : s.found <;> simp_all
    rw [convertToShares_fresh s x hf' (by omega)] at hs
    cases hs
    have hp : 0 < x * P := Int.mul_pos hx P_pos
    refine ⟨x * P, hx, hb, hp, fun hc => ?_, fun _ => rfl, r1, r2, r3, r4, r5, r6⟩
    rw [hf'] at hc; cases hc

theorem deposit_inv (accts : List Addr) (hn : accts.Nodup) (s s' : St) (a : Addr) (x : Int)
    (vo so ao : Bool) (ha : a ∈ accts) (hinv : Inv accts s)
    (h : deposit s a x vo so ao = .ok s') : Inv accts s' := by
  obtain ⟨shares, hx, hb, hp, -, -, r1, r2, r3, r4, r5, r6⟩ := deposit_arith accts s s' a x vo so ao hinv h
  obtain ⟨i1, i2, i3, i4⟩ := hinv
  have hT : 0 ≤ s.tot := by rw [i2]; exact sumOver_nonneg _ _ i1
  refine ⟨?_, ?_, by omega, ?_⟩
  · intro b; rw [r3]; unfold upd; split
    · have := i1 a; omega
    · exact i1 b
  · rw [r2, r3, sumOver_upd accts s.sh a _ hn ha, i2]; omega
  · rw [r1, r2]; constructor
    · intro _; omega
    · intro _; rfl

theorem withdraw_inv (accts : List Addr) (hn : accts.Nodup) (s s' : St) (a : Addr) (want : Int)
    (vo so : Bool) (ha : a ∈ accts) (hinv : Inv accts s)
    (h : withdraw s a want vo so = .ok s') : Inv accts s' := by
  obtain ⟨w, w', amt, hwant, hf, hT, hV, hweq, hwpos, hle, hsa, hamt, hamt0, hav, hamtV, hwant', hw', hww', hw'le,
    r1, r2, r3, r4, r5, r6⟩ := withdraw_arith accts s s' a want vo so ha hinv h
  obtain ⟨i1, i2, i3, i4⟩ := hinv
  refine ⟨?_, ?_, by omega, ?_⟩
  · intro b; rw [r3]; unfold upd; split
    · omega
    · exact i1 b
  · rw [r2, r3, sumOver_upd accts s.sh a _ hn ha, i2]; omega
  · rw [r1, r2]; simp

theorem step_inv (accts : List Addr) (hn : accts.Nodup) (s s' : St) (o : Op)
    (ha : ∀ a, o.actor = some a → a ∈ accts) (hinv : Inv accts s) (h : step s o = .ok s') :
    Inv accts s' := by
  cases o with
  | deposit a x v st ac => exact deposit_inv accts hn s s' a x v st ac (ha a rfl) hinv h
  | withdraw a w v st => exact withdraw_inv accts hn s s' a w v st (ha a rfl) hinv h
  | accrue dv =>
    simp only [step] at h
    split at h
    · cases h
    · rename_i hc
      cases h
      obtain ⟨i1, i2, i3, i4⟩ := hinv
      exact ⟨i1, i2, by simp only []; omega, i4⟩

theorem next_inv (accts : List Addr) (hn : accts.Nodup) (s : St) (o : Op)
    (ha : ∀ a, o.actor = some a → a ∈ accts) (hinv : Inv accts s) : Inv accts (next s o) := by
  unfold next
  split
  · rename_i s' h; exact step_inv accts hn s s' o ha hinv h
  · exact hinv

theorem run_inv (accts : List Addr) (hn : accts.Nodup) (ops : List Op) :
    ∀ s, (∀ o ∈ ops, ∀ a, o.actor = some a → a ∈ accts) → Inv accts s → Inv accts (run s ops) := by
  induction ops with
  | nil => intro s _ h; exact h
  | cons o os ih =>
    intro s ha hinv
    unfold run
    simp only [List.foldl_cons]
    exact ih (next s o) (fun o' ho' => ha o' (List.mem_cons_of_mem _ ho'))
      (next_inv accts hn s o (ha o List.mem_cons_self) hinv)

theorem empty_inv (accts : List Addr) : Inv accts empty := by
  refine ⟨fun _ => by simp [empty], ?_, by simp [empty], by simp [empty]⟩
  have : ∀ l : List Addr, sumOver l (fun _ => 0) = 0 := by
    intro l; induction l with
    | nil => rfl
    | cons x xs ih => simp only [sumOver, ih]; omega
  simp only [empty]; exact (this accts).symm


theorem redeemable_found (accts : List Addr) (s : St) (a : Addr) (hinv : Inv accts s) (hf : s.found = true) :
    redeemable s a = s.val * s.sh a / s.tot := by
  unfold redeemable
  rw [convertToAssets_found s (s.sh a) hf (hinv.tot_pos hf) hinv.2.2.1 (hinv.1 a)]

theorem redeemable_notfound (s : St) (a : Addr) (hf : s.found = false) : redeemable s a = 0 := by
  unfold redeemable
  rw [convertToAssets_notfound s _ hf]

theorem sumOver_const_zero (l : List Addr) : sumOver l (fun _ => 0) = 0 := by
  induction l with
  | nil => rfl
  | cons x xs ih => simp only [sumOver, ih]; omega

/-- Σ_accounts ConvertToAssets(shares_a) ≤ V in every state satisfying the invariant -/
theorem redeemable_sum_le (accts : List Addr) (s : St) (hinv : Inv accts s) :
    sumOver accts (redeemable s) ≤ s.val := by
  by_cases hf : s.found = true
  · have hT := hinv.tot_pos hf
    rw [sumOver_congr accts (redeemable s) (fun a => s.val * s.sh a / s.tot)
      (fun a => redeemable_found accts s a hinv hf)]
    exact sum_floor_le accts s.sh s.val s.tot hT hinv.2.1.symm
  · have hf' : s.found = false := by cases hh : s.found <;> simp_all
    rw [sumOver_congr accts (redeemable s) (fun _ => 0) (fun a => redeemable_notfound s a hf'),
      sumOver_const_zero]
    exact hinv.2.2.1

/-- the share-price never falls on a deposit, so the depositor's redeemable value rises by at most
    the deposited amount: `(V+x)(s+i)/(T+i) ≤ V·s/T + x` for `i = ⌊x·T/V⌋`, all divisions floors. -/
theorem deposit_value_le (V T sh x : Int) (hV : 0 < V) (hT : 0 < T) (hs0 : 0 ≤ sh) (hsT : sh ≤ T)
    (hx : 0 ≤ x) : (V + x) * (sh + x * T / V) / (T + x * T / V) ≤ V * sh / T + x := by
  have hi : 0 ≤ x * T / V := Int.ediv_nonneg (Int.mul_nonneg hx (by omega)) (by omega)
  have hA : V * sh < (V * sh / T + 1) * T := Int.lt_ediv_add_one_mul_self _ hT
  have hB : x * T / V * V ≤ x * T := Int.ediv_mul_le _ (by omega)
  generalize hq : V * sh / T = q at *
  generalize hii : x * T / V = i at *
  -- A = (q+1)T − V·sh ≥ 1, B = xT − V·i ≥ 0
  have hAi : 0 ≤ ((q + 1) * T - V * sh) * i := Int.mul_nonneg (by omega) hi
  have hTB : 0 ≤ (T - sh) * (x * T - i * V) := Int.mul_nonneg (by omega) (by omega)
  have e1 : T * ((q + 1) * i + (x * T - i * V) - x * sh)
      = ((q + 1) * T - V * sh) * i + (T - sh) * (x * T - i * V) := by grind
  have hE : 0 ≤ (q + 1) * i + (x * T - i * V) - x * sh :=
    Int.nonneg_of_mul_nonneg_right (by rw [e1]; omega) hT
  have e2 : (q + x + 1) * (T + i) - (V + x) * (sh + i)
      = ((q + 1) * T - V * sh) + ((q + 1) * i + (x * T - i * V) - x * sh) := by grind
  have hlt : (V + x) * (sh + i) < (q + x + 1) * (T + i) := by omega
  have := Int.ediv_lt_of_lt_mul (by omega : 0 < T + i) hlt
  omega


/-- no value is stranded in the strategy without a vault record -/
def NoStranded (s : St) : Prop := s.found = false → s.val = 0

/-- A deposit of `x` raises the depositor's redeemable value by at most `x`, provided no value is
    stranded in the strategy while the vault record is absent. -/
theorem deposit_redeemable_le (accts : List Addr) (s s' : St) (a : Addr) (x : Int) (vo so ao : Bool)
    (ha : a ∈ accts) (hinv : Inv accts s) (hns : NoStranded s)
    (h : deposit s a x vo so ao = .ok s') : redeemable s' a ≤ redeemable s a + x := by
  obtain ⟨shares, hx, hb, hp, hfd, hfr, r1, r2, r3, r4, r5, r6⟩ := deposit_arith accts s s' a x vo so ao hinv h
  have hsa0 := hinv.1 a
  have hsa : s.sh a ≤ s.tot := by rw [hinv.2.1]; exact le_sumOver accts s.sh hinv.1 a ha
  have hT0 := hinv.tot_nonneg
  have hfound' : s'.found = true := r1
  have hT' : 0 < s'.tot := by rw [r2]; omega
  have hV' : 0 ≤ s'.val := by have := hinv.2.2.1; rw [r4]; omega
  have hsh' : s'.sh a = s.sh a + shares := by rw [r3]; simp [upd]
  have e' : redeemable s' a = s'.val * s'.sh a / s'.tot := by
    unfold redeemable
    rw [convertToAssets_found s' (s'.sh a) hfound' hT' hV' (by rw [hsh']; omega)]
  rw [e', r2, r4, hsh']
  by_cases hf : s.found = true
  · obtain ⟨hT, hV, hs⟩ := hfd hf
    rw [redeemable_found accts s a hinv hf, hs]
    exact deposit_value_le s.val s.tot (s.sh a) x hV hT hsa0 hsa (by omega)
  · have hf' : s.found = false := by cases hh : s.found <;> simp_all
    have hs := hfr hf'
    have hv0 : s.val = 0 := hns hf'
    have ht0 : s.tot = 0 := by
      have := hinv.2.2.2
      by_cases hz : s.tot = 0
      · exact hz
      · have := this.mpr hz; rw [hf'] at this; cases this
    have hsa' : s.sh a = 0 := by omega
    rw [redeemable_notfound s a hf', hs, hv0, ht0, hsa']
    have hP : x * P ≠ 0 := by have := Int.mul_pos hx P_pos; omega
    have e : (0 + x) * (0 + x * P) / (0 + x * P) = x := by
      simp only [Int.zero_add]
      exact Int.mul_ediv_cancel x hP
    rw [e]; omega

/-- a withdrawal pays exactly `amt` to the account, with `0 ≤ amt ≤ min(redeemable, want)`, and
    takes exactly `amt` out of the strategy -/
theorem withdraw_pays (accts : List Addr) (s s' : St) (a : Addr) (want : Int) (vo so : Bool)
    (ha : a ∈ accts) (hinv : Inv accts s) (h : withdraw s a want vo so = .ok s') :
    0 ≤ s'.bal a - s.bal a ∧ s'.bal a - s.bal a ≤ redeemable s a ∧ s'.bal a - s.bal a ≤ want ∧
    s'.val = s.val - (s'.bal a - s.bal a) ∧ s'.loose = s.loose := by
  obtain ⟨w, w', amt, hwant, hf, hT, hV, hweq, hwpos, hle, hsa, hamt, hamt0, hav, hamtV, hwant', hw', hww', hw'le,
    r1, r2, r3, r4, r5, r6⟩ := withdraw_arith accts s s' a want vo so ha hinv h
  have hb : s'.bal a = s.bal a + amt := by rw [r6]; simp [upd]
  rw [redeemable_found accts s a hinv hf]
  refine ⟨by omega, by omega, by omega, by rw [r4]; omega, r5⟩

/-- frame of a successful deposit -/
theorem deposit_frame (s s' : St) (a : Addr) (x : Int) (vo so ao : Bool)
    (h : deposit s a x vo so ao = .ok s') (b : Addr) (hb : b ≠ a) :
    s'.sh b = s.sh b ∧ s'.bal b = s.bal b := by
  obtain ⟨shares, -, -, -, -, -, r3, -, -, r6⟩ := deposit_spec s s' a x vo so ao h
  rw [r3, r6]; simp [upd, hb]

/-- frame of a successful withdrawal, dust sweep included -/
theorem withdraw_frame (s s' : St) (a : Addr) (want : Int) (vo so : Bool)
    (h : withdraw s a want vo so = .ok s') (b : Addr) (hb : b ≠ a) :
    s'.sh b = s.sh b ∧ s'.bal b = s.bal b := by
  obtain ⟨w, amt, accVal, dustVal, -, -, -, -, -, -, -, -, -, -, hrec⟩ := withdraw_spec s s' a want vo so h
  obtain ⟨-, -, -, -, r5, -, -, r8⟩ := withdrawRecords_spec s s' a _ _ _ hrec
  rw [r5, r8]; simp [upd, hb]

theorem next_frame (s : St) (o : Op) (b : Addr) (hb : o.actor ≠ some b) :
    (next s o).sh b = s.sh b ∧ (next s o).bal b = s.bal b := by
  unfold next
  split
  · rename_i s' h
    cases o with
    | deposit a x v st ac =>
      have : b ≠ a := fun e => hb (by simp [Op.actor, e])
      exact deposit_frame s s' a x v st ac h b this
    | withdraw a w v st =>
      have : b ≠ a := fun e => hb (by simp [Op.actor, e])
      exact withdraw_frame s s' a w v st h b this
    | accrue dv =>
      simp only [step] at h
      split at h
      · cases h
      · cases h; exact ⟨rfl, rfl⟩
  · exact ⟨rfl, rfl⟩


/-- Value can only become stranded (strategy value left behind while the vault record is deleted)
    through the dust sweep: the withdrawing account held *all* shares, asked for fewer than all of
    them, and the rest was classified as dust against the stored total and the post-withdraw value. -/
theorem withdraw_strands_only_by_sweep (accts : List Addr) (s s' : St) (a : Addr) (want : Int)
    (vo so : Bool) (ha : a ∈ accts) (hinv : Inv accts s)
    (h : withdraw s a want vo so = .ok s') (hst : ¬ NoStranded s') :
    ∃ w amt, w = want * s.tot / s.val ∧ amt = s.val * w / s.tot ∧ s.sh a = s.tot ∧ w < s.sh a ∧
      (s.val - amt) * (s.sh a - w) / s.tot = 0 ∧ s'.val = s.val - amt ∧ 0 < s'.val ∧ s'.sh a = 0 := by
  obtain ⟨w, w', amt, hwant, hf, hT, hV, hweq, hwpos, hle, hsa, hamt, hamt0, hav, hamtV, hwant', hw', hww', hw'le,
    r1, r2, r3, r4, r5, r6⟩ := withdraw_arith accts s s' a want vo so ha hinv h
  unfold NoStranded at hst
  have hf' : s'.found = false := by
    cases hh : s'.found
    · rfl
    · exfalso; apply hst; intro hc; rw [hh] at hc; cases hc
  have hv' : s'.val ≠ 0 := fun e => hst (fun _ => e)
  have ht' : s.tot - w' = 0 := by
    rw [r1] at hf'
    simpa using hf'
  have hwT : w ≠ s.tot := by
    intro e
    apply hv'
    rw [r4, hamt, e, Int.mul_ediv_cancel s.val (by omega : s.tot ≠ 0)]; omega
  have hsw : w' = s.sh a := by omega
  refine ⟨w, amt, hweq, hamt, by omega, by omega, ?_, r4, by omega, ?_⟩
  · by_cases hd : (s.val - amt) * (s.sh a - w) / s.tot = 0
    · exact hd
    · exfalso; simp only [hd, ite_false] at hw'; omega
  · rw [r3]; simp only [upd, ite_true]; omega

end KV.Earn
