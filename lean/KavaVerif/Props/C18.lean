/-
  C18 — Price feed: price is the median of live oracle posts; no price, no action.

  "After each block the current price of an active market is the median of that market's unexpired
   oracle prices, one per oracle using its latest post, or unavailable if none is unexpired; expired
   prices never influence it and posting an already expired price is refused. While a needed price is
   unavailable, CDP creation, draw, deposit, withdrawal and liquidation, and hard borrow, withdraw and
   liquidation for that asset are refused rather than proceeding with a stale or zero price."

  Model: KavaVerif/Model/Pricefeed.lean (x/pricefeed keeper + msg server + end blocker transcribed; the
  price gates of x/cdp and x/hard as decision functions).  Only property statements live here; helper
  lemmas are in KavaVerif/Proofs/Pricefeed*.lean.  Prices are `sdk.Dec` mantissas, times nanoseconds.
-/
import KavaVerif.Proofs.Pricefeed
import KavaVerif.Generated.C18Pricefeed
import KavaVerif.Proofs.TieFnPricefeed
set_option linter.unusedSimpArgs false
set_option linter.unusedVariables false

namespace KV.PF
open List

/-! ## the median -/

/-- "the median of that market's unexpired oracle prices": `CalculateMedianPrice` gives the same
    result for ANY permutation of its input, so neither the store's iteration order, nor the order in
    which the two aggregation routines collect prices, nor the tie-breaking of Go's unstable
    `sort.Slice` can influence the price. -/
theorem C18_median_perm (l1 l2 : List Int) (h : l1.Perm l2) : median l1 = median l2 :=
  median_perm l1 l2 h

example : median [3, 1, 2, 2] = median [2, 3, 2, 1] := C18_median_perm _ _ (by decide)

/-- "median": whatever sorting algorithm is used — `s` is any non-decreasing permutation of the
    input — the result is the middle element of `s` (odd count) or the `sdk.Dec` mean
    `(a + b).Quo(2)` of the two middle elements (even count). -/
theorem C18_median_is_middle (l s : List Int) (hs : s.Pairwise (· ≤ ·)) (hp : s.Perm l) :
    median l =
      if l.length % 2 = 0 then mean (s.getD (l.length / 2 - 1) 0) (s.getD (l.length / 2) 0)
      else s.getD (l.length / 2) 0 := by
  rw [median_any_sort l s hs hp]
  unfold medianS
  rw [hp.length_eq]

example : median [5, 1, 3] = 3 ∧ median [7, 1, 3, 5] = 4 := by decide

/-- The same without mentioning a sort at all: the median is the element of middle rank (or the mean
    of the two elements of middle ranks), ranks being defined by counting. This is the specification
    the correspondence driver evaluates on the real keeper's outputs. -/
theorem C18_median_rank (l : List Int) (hl : l ≠ []) : median l = specMedian l :=
  median_eq_spec l hl

/-- Odd count, spelled out: the median is one of the posted prices, at most half of the posts are
    below it and at most half above. -/
theorem C18_median_rank_odd (l : List Int) (hodd : l.length % 2 = 1) :
    median l ∈ l ∧ l.countP (fun y => decide (y < median l)) ≤ l.length / 2 ∧
      l.countP (fun y => decide (median l < y)) ≤ l.length / 2 := by
  have hk : l.length / 2 < (isort l).length := by rw [isort_length]; omega
  have hm : median l = (isort l).getD (l.length / 2) 0 := by
    rw [median_eq_medianS]; unfold medianS; rw [isort_length]
    simp only [hodd, Nat.one_ne_zero, ite_false]
  have hk' := isKth_sorted (isort l) (isort_sorted l) (l.length / 2) hk
  rw [isKth_perm _ _ (isort_perm l), ← hm] at hk'
  unfold isKth at hk'
  simp only [Bool.and_eq_true, decide_eq_true_eq] at hk'
  refine ⟨?_, hk'.1, by omega⟩
  rw [hm]; exact (isort_perm l).subset (getD_mem _ _ hk)

example : ([5, 1, 3] : List Int).length % 2 = 1 := by decide

/-- Even count: the mean of two non-negative prices lies between them (Dec rounding cannot push the
    median outside the two middle posts). -/
theorem C18_mean_between (a b : Int) (ha : 0 ≤ a) (hab : a ≤ b) : a ≤ mean a b ∧ mean a b ≤ b := by
  unfold mean Dec.quo Dec.add Dec.ofInt
  simp only
  have h0 : (0 : Int) ≤ (a + b) * P * P := by unfold P; omega
  have h2 : (0 : Int) ≤ 2 * P := by unfold P; omega
  rw [tquo_nonneg_eq _ _ h0 h2]
  have e1 : a * P ≤ (a + b) * P * P / (2 * P) := by unfold P; omega
  have e2 : (a + b) * P * P / (2 * P) ≤ b * P := by unfold P; omega
  have m1 := chopRound_mono _ _ e1
  have m2 := chopRound_mono _ _ e2
  rw [chopRound_mul_P] at m1 m2
  exact ⟨m1, m2⟩

example : mean 1 2 = 2 ∧ mean 2 3 = 2 ∧ mean 3 3 = 3 := by decide  -- half-even at 10^-18

/-! ## keying: one price per oracle, the latest post -/

/-- "one per oracle using its latest post" (single write): a successful `SetPrice` leaves exactly
    one entry in the (market, oracle) slot — the new post, replacing any earlier one — leaves every
    other slot untouched, and keeps the store keyed. -/
theorem C18_one_price_per_oracle (now : Int) (s s' : St) (p : Post) (hk : KeySorted s.raw)
    (hok : setPrice now s p = .ok s') :
    s'.raw.filter (hasKey p.market p.oracle) = [p] ∧
    (∀ m o, ¬ (p.market = m ∧ p.oracle = o) →
      s'.raw.filter (hasKey m o) = s.raw.filter (hasKey m o)) ∧
    KeySorted s'.raw := by
  unfold setPrice at hok
  split at hok
  · cases hok
  · cases hok
    exact ⟨rawSet_filter_same p s.raw hk, fun m o h => rawSet_filter_other p s.raw m o h,
      rawSet_sorted p s.raw hk⟩

example : (setPrice 10 ⟨[⟨1, 4, 700, 50⟩], fun _ => none⟩ ⟨1, 4, 900, 11⟩).isOk = true := by decide

/-- "its latest post" (whole history): after any sequence `h` of accepted posts, starting from the
    empty store, the slot of (market, oracle) holds precisely the last post of `h` with that key, and
    nothing if that oracle never posted for the market. -/
theorem C18_latest_post_wins (h : List Post) (m o : Nat) :
    (applyPosts [] h).filter (hasKey m o) =
      match h.reverse.find? (hasKey m o) with
      | some p => [p]
      | none => [] := by
  rw [applyPosts_latest [] h Pairwise.nil m o]
  cases List.find? (hasKey m o) h.reverse with
  | some p => rfl
  | none => rfl

example : (applyPosts [] [⟨1, 4, 700, 50⟩, ⟨1, 5, 710, 50⟩, ⟨1, 4, 900, 60⟩]).filter (hasKey 1 4)
    = [⟨1, 4, 900, 60⟩] := by decide

/-- "posting an already expired price is refused": `SetPrice` (and so `MsgPostPrice`) returns an error
    and writes nothing exactly when expiry ≤ block time — the boundary `expiry = now` is refused. -/
theorem C18_post_expired_refused (now : Int) (ms : List MarketP) (s : St) (p : Post)
    (hexp : p.expiry ≤ now) : setPrice now s p = .err ∧ postPrice now ms s p = .err := by
  have hl : live now p = false := by unfold live; simp only [decide_eq_false_iff_not]; omega
  have h1 : setPrice now s p = .err := by
    unfold setPrice; simp only [hl, Bool.not_false, ite_true]
  refine ⟨h1, ?_⟩
  unfold postPrice
  split
  · rfl
  · split
    · rfl
    · split
      · rfl
      · split
        · rfl
        · exact h1

example : (setPrice 10 ⟨[], fun _ => none⟩ ⟨1, 4, 900, 10⟩).isErr = true ∧
    (setPrice 10 ⟨[], fun _ => none⟩ ⟨1, 4, 900, 11⟩).isOk = true := by decide

/-- … and only then: any post with expiry after the block time is accepted by `SetPrice`. -/
theorem C18_post_live_accepted (now : Int) (s : St) (p : Post) (h : now < p.expiry) :
    setPrice now s p = .ok { s with raw := rawSet p s.raw } := by
  have hl : live now p = true := by unfold live; simp only [decide_eq_true_eq]; exact h
  unfold setPrice; simp only [hl, Bool.not_true, Bool.false_eq_true, ite_false]

/-- Posting never moves the current price: it only changes in the end blocker (so the status flags
    the cdp begin blocker derives from it stay right for the whole block). -/
theorem C18_post_does_not_move_price (now : Int) (s s' : St) (p : Post)
    (hok : setPrice now s p = .ok s') : ∀ m, getCurrentPrice s' m = getCurrentPrice s m := by
  unfold setPrice at hok
  split at hok
  · cases hok
  · cases hok; intro m; rfl

/-! ## the end blocker -/

/-- "After each block the current price of an active market is the median of that market's unexpired
    oracle prices …, or unavailable if none is unexpired": what `GetCurrentPrice` returns after
    `SetCurrentPricesForAllMarkets`, for every active market (a zero median reads as unavailable). -/
theorem C18_endblock_price (now : Int) (ms : List MarketP) (s : St) (m : Nat)
    (hact : m ∈ activeIds ms) :
    getCurrentPrice (setAll now ms s) m =
      if livePrices now s.raw m = [] then none
      else if median (livePrices now s.raw m) = 0 then none
      else some (median (livePrices now s.raw m)) := by
  unfold getCurrentPrice
  rw [setAll_cur]
  simp only [hact, ite_true]
  exact aggregate_get _

example : getCurrentPrice (setAll 10 [⟨1, [4, 5, 6], true⟩]
    ⟨[⟨1, 4, 700, 50⟩, ⟨1, 5, 900, 10⟩, ⟨1, 6, 800, 11⟩, ⟨2, 4, 1, 99⟩], fun _ => none⟩) 1 = some 750 := by
  decide

/-- The whole first sentence for a history: after any accepted posts `h` and an end block at `now`,
    the price of an active market is the median of the unexpired entries of a store that holds, per
    (market, oracle), exactly that oracle's latest post. -/
theorem C18_current_price_of_history (now : Int) (ms : List MarketP) (h : List Post)
    (cur0 : Nat → Option Int) (m : Nat) (hact : m ∈ activeIds ms) :
    getCurrentPrice (setAll now ms ⟨applyPosts [] h, cur0⟩) m =
      (if livePrices now (applyPosts [] h) m = [] then none
       else if median (livePrices now (applyPosts [] h) m) = 0 then none
       else some (median (livePrices now (applyPosts [] h) m))) ∧
    ∀ o, (applyPosts [] h).filter (hasKey m o) =
      match h.reverse.find? (hasKey m o) with
      | some p => [p]
      | none => [] :=
  ⟨C18_endblock_price now ms ⟨applyPosts [] h, cur0⟩ m hact, fun o => C18_latest_post_wins h m o⟩

/-- "expired prices never influence it": two stores with the same unexpired posts give the same
    current prices, whatever expired posts either of them still holds. -/
theorem C18_expired_ignored (now : Int) (ms : List MarketP) (raw1 raw2 : List Post)
    (cur : Nat → Option Int) (h : raw1.filter (live now) = raw2.filter (live now)) :
    (setAll now ms ⟨raw1, cur⟩).cur = (setAll now ms ⟨raw2, cur⟩).cur := by
  funext m
  rw [setAll_cur, setAll_cur]
  simp only
  rw [← livePrices_filter_live now raw1, ← livePrices_filter_live now raw2, h]

example : ([⟨1, 4, 700, 50⟩, ⟨1, 5, 1, 10⟩] : List Post).filter (live 10)
    = ([⟨1, 4, 700, 50⟩, ⟨1, 6, 99999, 3⟩] : List Post).filter (live 10) := by decide

/-- "the two implementations (per-market and all-markets)": for every active market,
    `SetCurrentPrices(market)` and `SetCurrentPricesForAllMarkets` store the same value; the
    per-market routine reports an error exactly when no post is unexpired. -/
theorem C18_two_impls_agree (now : Int) (ms : List MarketP) (s : St) (m : Nat)
    (hact : m ∈ activeIds ms) :
    (setCurrentPrices now ms s m).1.cur m = (setAll now ms s).cur m ∧
    ((setCurrentPrices now ms s m).2 = true ↔ livePrices now s.raw m = []) := by
  obtain ⟨mk, hmk⟩ := findMarket_of_active ms m hact
  rw [setAll_cur]
  simp only [hact, ite_true]
  unfold setCurrentPrices aggregate
  simp only [hmk]
  cases hl : livePrices now s.raw m with
  | nil => simp only [List.length_nil, ite_true, updO, and_self]
  | cons a t => simp [updO]

/-- "or unavailable if none is unexpired": after the end block the price of an active market is
    unavailable iff it has no unexpired post or the median of its unexpired posts is zero. -/
theorem C18_unavailable_iff (now : Int) (ms : List MarketP) (s : St) (m : Nat)
    (hact : m ∈ activeIds ms) :
    getCurrentPrice (setAll now ms s) m = none ↔
      (livePrices now s.raw m = [] ∨ median (livePrices now s.raw m) = 0) := by
  rw [C18_endblock_price now ms s m hact]
  by_cases h1 : livePrices now s.raw m = []
  · simp only [h1, ite_true, true_or]
  · by_cases h2 : median (livePrices now s.raw m) = 0
    · simp only [h1, h2, ite_true, ite_false, or_true]
    · simp only [h1, h2, ite_false, or_self, reduceCtorEq]

example : getCurrentPrice (setAll 10 [⟨1, [4], true⟩] ⟨[⟨1, 4, 700, 10⟩], fun _ => some 700⟩) 1 = none := by
  decide

/-- Recorded, not claimed by the prose: the end blocker never touches a market that is not active, so a
    market switched to inactive keeps its last price (and consumers keep reading it). -/
theorem C18_inactive_keeps_price (now : Int) (ms : List MarketP) (s : St) (m : Nat)
    (h : m ∉ activeIds ms) : getCurrentPrice (setAll now ms s) m = getCurrentPrice s m := by
  unfold getCurrentPrice
  rw [setAll_cur]; simp only [h, ite_false]

example : getCurrentPrice (setAll 99 [⟨1, [4], false⟩] ⟨[⟨1, 4, 700, 10⟩], fun _ => some 700⟩) 1 = some 700 := by
  decide

/-! ## consumers: no price, no action

  `price` is `GetCurrentPrice` during the block.  The cdp flags are the ones its begin blocker wrote
  from the same `price` (C18_post_does_not_move_price: nothing moves it inside a block). Every check of
  an action that does not read a price is an arbitrary input `i`, so the theorems hold whatever those
  checks say.  "Needed" is read as: the price the action's own valuation consumes — both markets of the
  collateral type for create / deposit / withdraw / draw (the code demands both), the liquidation
  market for liquidation; for hard, the spot market of every asset that is valued. -/

/-- CDP creation is refused when the spot or the liquidation market of the collateral has no price. -/
theorem C18_consumers_refuse_cdp_create (price : Nat → Option Int) (cps : List CP) (f0 : Nat → Bool)
    (cp : CP) (hcp : cp ∈ cps) (i : CdpIn) (hdown : price cp.spot = none ∨ price cp.liq = none) :
    cdpCreate price (beginFlags price cps f0) cp i = .err := by
  unfold cdpCreate
  rw [validateCollateral_refuses price cps f0 cp hcp i.found i.denomOk hdown]

/-- CDP deposit likewise. -/
theorem C18_consumers_refuse_cdp_deposit (price : Nat → Option Int) (cps : List CP) (f0 : Nat → Bool)
    (cp : CP) (hcp : cp ∈ cps) (i : CdpIn) (hdown : price cp.spot = none ∨ price cp.liq = none) :
    cdpDeposit (beginFlags price cps f0) cp i = .err := by
  unfold cdpDeposit
  rw [validateCollateral_refuses price cps f0 cp hcp i.found i.denomOk hdown]

/-- CDP withdrawal likewise. -/
theorem C18_consumers_refuse_cdp_withdraw (price : Nat → Option Int) (cps : List CP) (f0 : Nat → Bool)
    (cp : CP) (hcp : cp ∈ cps) (i : CdpIn) (hdown : price cp.spot = none ∨ price cp.liq = none) :
    cdpWithdraw price (beginFlags price cps f0) cp i = .err := by
  unfold cdpWithdraw
  rw [validateCollateral_refuses price cps f0 cp hcp i.found i.denomOk hdown]

example : (cdpCreate (fun m => if m = 1 then some 5 else none) (beginFlags (fun m => if m = 1 then some 5 else none) [⟨1, 1⟩] (fun _ => false)) ⟨1, 1⟩ {}).isOk = true := by
  decide

/-- CDP draw is refused when the spot or the liquidation market of the collateral has no price
    (`AddPrincipal` calls `ValidateCollateral` before anything else it does with the CDP), whatever the
    other inputs — no draw on a live spot price while the liquidation feed is down. -/
theorem C18_consumers_refuse_cdp_draw (price : Nat → Option Int) (cps : List CP) (f0 : Nat → Bool)
    (cp : CP) (hcp : cp ∈ cps) (i : CdpIn) (hdown : price cp.spot = none ∨ price cp.liq = none) :
    cdpDraw price (beginFlags price cps f0) cp i = .err := by
  unfold cdpDraw
  split
  · rfl
  · rw [validateCollateral_refuses price cps f0 cp hcp i.found i.denomOk hdown]

example : (cdpDraw (fun _ => some 5) (beginFlags (fun _ => some 5) [⟨1, 2⟩] (fun _ => false)) ⟨1, 2⟩ {}).isOk = true := by
  decide

/-- CDP liquidation by a keeper is refused when the liquidation-market price is missing (for a CDP that
    holds collateral, which every stored CDP does). -/
theorem C18_consumers_refuse_cdp_liquidate (price : Nat → Option Int) (cp : CP) (i : CdpIn)
    (hcoll : i.collZero = false) (hdown : price cp.liq = none) : cdpLiquidate price cp i = .err := by
  unfold cdpLiquidate
  split
  · rfl
  · rw [hcoll]; exact ratioGate_refuses price cp.liq i.cmp0 i.cmp hdown

example : (cdpLiquidate (fun _ => some 5) ⟨1, 2⟩ {}).isOk = true := by decide

/-- Begin-block liquidation of a collateral type does not happen while either of its prices is
    missing, and `LiquidateCdps` itself errors before any seizure without the liquidation price. -/
theorem C18_consumers_refuse_cdp_block_liquidation (price : Nat → Option Int) (cp : CP) (skip : Bool)
    (hdown : price cp.spot = none ∨ price cp.liq = none) :
    beginSeizes price cp skip = false ∧ (price cp.liq = none → liquidateCdps price cp = .err) := by
  refine ⟨?_, fun h => by unfold liquidateCdps; simp only [h]⟩
  unfold beginSeizes
  cases hs : price cp.spot with
  | none => rfl
  | some v =>
    cases hl : price cp.liq with
    | none => rfl
    | some w => rw [hs, hl] at hdown; rcases hdown with h | h <;> cases h

example : beginSeizes (fun _ => some 5) ⟨1, 2⟩ false = true := by decide

/-- hard borrow is refused when any asset it values — a requested coin, a deposited coin or an already
    borrowed coin — has no money market price. -/
theorem C18_consumers_refuse_hard_borrow (price : Nat → Option Int) (mm : Nat → Option Nat)
    (req dep bor : List Nat) (i : HardIn) (d : Nat) (hd : d ∈ req ∨ d ∈ dep ∨ d ∈ bor)
    (hdown : ∀ m, mm d = some m → price m = none) : hardBorrow price mm req dep bor i = .err := by
  unfold hardBorrow
  split
  · rfl
  · cases h1 : loadPrices price mm req with
    | none => rfl
    | some a =>
      cases h2 : loadPrices price mm dep with
      | none => rfl
      | some b =>
        cases h3 : loadPrices price mm bor with
        | none => rfl
        | some c =>
          rcases hd with h | h | h
          · rw [loadPrices_none price mm req d h hdown] at h1; cases h1
          · rw [loadPrices_none price mm dep d h hdown] at h2; cases h2
          · rw [loadPrices_none price mm bor d h hdown] at h3; cases h3

example : (hardBorrow (fun _ => some 5) (fun d => some d) [1] [2] [] {}).isOk = true := by decide

/-- hard withdraw is refused when any asset of the remaining deposit or of the borrow has no price. -/
theorem C18_consumers_refuse_hard_withdraw (price : Nat → Option Int) (mm : Nat → Option Nat)
    (depAfter bor : List Nat) (i : HardIn) (d : Nat) (hd : d ∈ depAfter ∨ d ∈ bor)
    (hdown : ∀ m, mm d = some m → price m = none) : hardWithdraw price mm depAfter bor i = .err := by
  unfold hardWithdraw ltvGate
  split
  · rfl
  · have hm : d ∈ bor ++ depAfter := by
      rcases hd with h | h
      · exact mem_append_right _ h
      · exact mem_append_left _ h
    rw [loadPrices_none price mm _ d hm hdown]

example : (hardWithdraw (fun _ => some 5) (fun d => some d) [1] [2] {}).isOk = true := by decide

/-- hard liquidation is refused when any deposited or borrowed asset has no price. -/
theorem C18_consumers_refuse_hard_liquidate (price : Nat → Option Int) (mm : Nat → Option Nat)
    (dep bor : List Nat) (i : HardIn) (d : Nat) (hd : d ∈ dep ∨ d ∈ bor)
    (hdown : ∀ m, mm d = some m → price m = none) : hardLiquidate price mm dep bor i = .err :=
  C18_consumers_refuse_hard_withdraw price mm dep bor i d hd hdown

/-- Recorded reading of "needed": a keeper liquidation reads only the liquidation market, so it
    proceeds on that live price while the spot market of the collateral type is down; and a hard
    withdrawal that takes out the whole of an asset no longer values that asset, so it does not need
    its price. Neither uses a stale or zero price. (Draw is no longer in this list: since the
    draw-feed-gate fix it is refused while either market is down — `C18_consumers_refuse_cdp_draw`.) -/
theorem C18_needed_price_reading :
    (∃ price : Nat → Option Int, price 1 = none ∧ (cdpLiquidate price ⟨1, 2⟩ {}).isOk = true) ∧
    (∃ price : Nat → Option Int, price 7 = none ∧
      (hardWithdraw price (fun d => some d) [] [] {}).isOk = true) :=
  ⟨⟨fun m => if m = 2 then some 5 else none, by decide, by decide⟩,
   ⟨fun _ => none, by decide, by decide⟩⟩

/-! ## tie to the source text -/

/-- The guards, filters, comparator, mean, end-blocker call, price readers and gate calls regenerated
    from /repo on this run are the ones the model transcribes (`Shape`). A source edit to any of them
    changes `KV.Gen.c18…` and re-opens this obligation. -/
theorem C18_source_shape :
    KV.Gen.c18SetPriceGuard = Shape.setPriceGuard ∧ KV.Gen.c18PerMarketFilter = Shape.perMarketFilter ∧
    KV.Gen.c18AllMarketsFilter = Shape.allMarketsFilter ∧ KV.Gen.c18NoPriceTest = Shape.noPriceTest ∧
    KV.Gen.c18ZeroTest = Shape.zeroTest ∧ KV.Gen.c18MedianLess = Shape.medianLess ∧
    KV.Gen.c18MeanBody = Shape.meanBody ∧ KV.Gen.c18EndBlockerCalls = Shape.endBlockerCalls ∧
    KV.Gen.c18PriceReaders = Shape.priceReaders ∧ KV.Gen.c18GateCalls = Shape.gateCalls := by
  decide

/-! ## source tie (regenerated)

    `GoFn.Pricefeed.*` (Generated/FnPricefeed.lean) is regenerated on every run from the Go source of
    x/pricefeed/keeper/keeper.go by the function translator (tools/extract/fn*.go); the theorem says that the
    regenerated definition IS the hand-written model function.  Proof: Proofs/TieFnPricefeed.lean. -/

/-- `calculateMeanPrice` (the even-length branch of the median) on the two `Price` mantissas = `mean`, and it never
    panics -/
theorem C18_source_tie_calculateMeanPrice (a b : Int) :
    GoFn.Pricefeed.calculateMeanPrice_translated = true ∧
    GoFn.Pricefeed.calculateMeanPrice ⟨⟨a⟩⟩ ⟨⟨b⟩⟩ = Go.R.ok ⟨mean a b⟩ :=
  TieFn.pricefeed_calculateMeanPrice a b

end KV.PF
