/-
  C16 — Privileged actions succeed only for their designated principal.

  "State-changing privileged actions succeed only for the right signer: price posts only from an oracle
   of that market, issuance issue/redeem/block/unblock/pause only from the asset owner, incoming bep3 swaps
   only from the deputy, committee proposals and member-committee votes only from members, community
   parameter updates only from the governance authority, CDP draw and repay only on the signer's own CDP,
   and withdrawals only of the signer's own recorded deposit or shares. For every other signer the message
   fails and changes no state."

  The model is KavaVerif/Model/Authz.lean; every theorem is stated for an arbitrary address type `α`
  with decidable equality, so "every other signer" covers ordinary accounts, other modules' principals
  and module accounts alike.  The gating comparisons come from the table regenerated from the source
  (KavaVerif/Generated/C16Guards.lean); `C16_guard_table` pins that table.  Only property statements
  live here; helper lemmas are in KavaVerif/Proofs/Authz.lean.
-/
import KavaVerif.Proofs.Authz
import KavaVerif.Proofs.AuthzExpected
set_option linter.unusedSimpArgs false
set_option linter.unusedVariables false
set_option linter.unusedSectionVars false

namespace KV.Authz
open KV.Gen.C16

/-! ## The regenerated tables -/

set_option maxRecDepth 100000 in
/-- The gating statement of every privileged handler, as extracted from /repo on this run, is the one the
    model and the theorems below were written against (operator, operands, what the true branch does,
    enclosing loop / type switch, the function's final return). -/
theorem C16_guard_table : KV.Gen.C16.guards = expectedGuards := by decide

set_option maxRecDepth 100000 in
/-- `GetSigners` of every privileged message returns the field that the msg server parses and hands to
    the keeper as the gated argument. -/
theorem C16_wiring_table : KV.Gen.C16.wiring = expectedWiring := by decide

/-- What the regenerated guard shapes denote — this is the tie between a table entry and the model guard:
    the owner / authority / membership / record-exists guards let control through exactly when the tested
    relation holds; the "more than recorded" guards exactly when it does not. -/
theorem C16_guards_denote :
    (∀ b, passes gPostPrice b = b) ∧ (∀ b, passes gIssue b = b) ∧ (∀ b, passes gRedeem b = b) ∧
    (∀ b, passes gBlock b = b) ∧ (∀ b, passes gUnblock b = b) ∧ (∀ b, passes gPause b = b) ∧
    (∀ b, condTrue gBep3 b = b) ∧ (∀ b, passes gSubmit b = b) ∧ (∀ b, passes gVote b = b) ∧
    (∀ b, passes gCommunity b = b) ∧ (∀ b, passes gCdpDraw b = b) ∧ (∀ b, passes gCdpRepay b = b) ∧
    (∀ b, passes gCdpWdCdp b = b) ∧ (∀ b, passes gCdpWdDep b = b) ∧ (∀ b, passes gCdpWdCap b = !b) ∧
    (∀ b, passes gHard b = b) ∧ (∀ b, condTrue gHardCap b = b) ∧
    (∀ b, passes gSwap b = b) ∧ (∀ b, passes gSwapCap b = !b) ∧
    (∀ b, passes gEarn b = b) ∧ (∀ b, passes gEarnCap b = !b) ∧
    (∀ b, passes gSavings b = b) ∧ (∀ b, condTrue gSavingsCap b = b) :=
  ⟨passes_gPostPrice, passes_gIssue, passes_gRedeem, passes_gBlock, passes_gUnblock, passes_gPause,
   cond_gBep3, passes_gSubmit, passes_gVote, passes_gCommunity, passes_gCdpDraw, passes_gCdpRepay,
   passes_gCdpWdCdp, passes_gCdpWdDep, passes_gCdpWdCap, passes_gHard, cond_gHardCap, passes_gSwap,
   passes_gSwapCap, passes_gEarn, passes_gEarnCap, passes_gSavings, cond_gSavingsCap⟩

/-- `GetOracle` / `HasMember` are list membership. -/
theorem C16_search_guards_denote {α : Type} [DecidableEq α] (l : List α) (v : α) :
    searchHit gGetOracle l v = decide (v ∈ l) ∧ searchHit gHasMember l v = decide (v ∈ l) :=
  ⟨searchHit_gGetOracle l v, searchHit_gHasMember l v⟩

/-- "For every other signer the message fails and changes no state": a message that does not succeed
    leaves the state as it was (baseapp discards the message's cache — trusted base). -/
theorem C16_failed_changes_nothing {σ : Type} (s : σ) (r : Res σ) (h : r.isOk = false) : after s r = s :=
  after_not_ok s r h

variable {α : Type} [DecidableEq α]

/-! ## pricefeed — "price posts only from an oracle of that market" -/

theorem C16_pricefeed_post (s s' : PF α) (signer : α) (m : Nat) (price expiry : Int)
    (hok : postPrice s signer m price expiry = .ok s') :
    (∃ os, getOracles s m = some os ∧ signer ∈ os) ∧ s'.markets = s.markets ∧
    (∀ m' a', (m' ≠ m ∨ a' ≠ signer) → s'.raw m' a' = s.raw m' a') := by
  unfold postPrice at hok
  rw [passes_gPostPrice] at hok
  split at hok
  · cases hok
  · rename_i hg
    split at hok
    · cases hok
    · cases hok
      refine ⟨?_, rfl, ?_⟩
      · apply (getOracle_iff s m signer).mp
        simpa using hg
      · intro m' a' hne
        have : ¬ (m' = m ∧ a' = signer) := by
          intro ⟨h1, h2⟩; cases hne with
          | inl h => exact h h1
          | inr h => exact h h2
        simp [this]

theorem C16_pricefeed_non_oracle_rejected (s : PF α) (signer : α) (m : Nat) (price expiry : Int)
    (hno : ∀ os, getOracles s m = some os → signer ∉ os) :
    (postPrice s signer m price expiry).isOk = false ∧ after s (postPrice s signer m price expiry) = s := by
  have h : (postPrice s signer m price expiry).isOk = false := by
    apply isOk_false_of_ne_ok
    intro s' hok
    obtain ⟨⟨os, h1, h2⟩, -⟩ := C16_pricefeed_post s s' signer m price expiry hok
    exact hno os h1 h2
  exact ⟨h, after_not_ok _ _ h⟩

/-- non-vacuity: oracle 7 of market 1 posts; the market-2 oracle 8 is refused on market 1 -/
example :
    let s : PF Nat := { markets := [⟨1, [5, 7]⟩, ⟨2, [8]⟩], raw := fun _ _ => none, now := 100 }
    (postPrice s 7 1 3 101).isOk = true ∧ (postPrice s 8 1 3 101).isOk = false := by decide

/-! ## issuance — "issue/redeem/block/unblock/pause only from the asset owner" -/

theorem C16_issuance_issue (s s' : Iss α) (signer receiver : α) (d : Nat) (amt : Int)
    (hok : issueTokens s signer receiver d amt = .ok s') :
    ∃ a, getAsset s d = some a ∧ signer = a.owner ∧ a.paused = false ∧
      (a.blockable = true → receiver ∉ a.blocked) ∧ s'.assets = s.assets := by
  unfold issueTokens at hok
  split at hok
  · cases hok
  split at hok
  · cases hok
  rename_i a ha
  rw [passes_gIssue] at hok
  refine ⟨a, ha, ?_⟩
  by_cases hown : signer = a.owner
  · by_cases hp : a.paused = true
    · simp [hown, hp] at hok
    · by_cases hb : (a.blockable && decide (receiver ∈ a.blocked)) = true
      · simp [hown, hp, hb] at hok
      · refine ⟨hown, by simpa using hp, ?_, ?_⟩
        · intro hbl hin; apply hb; simp [hbl, hin]
        · simp only [hown, decide_true, Bool.not_true, Bool.false_eq_true, ite_false, hp, hb] at hok
          split at hok
          · cases hok
          split at hok
          · cases hok
          rename_i s1 hs1
          split at hok
          · cases hok
          cases hok
          simp only
          split at hs1
          · exact (incSupply_frame s s1 a amt hs1).1
          · cases hs1; rfl
  · simp [hown] at hok

theorem C16_issuance_redeem (s s' : Iss α) (signer : α) (d : Nat) (amt : Int)
    (hok : redeemTokens s signer d amt = .ok s') :
    ∃ a, getAsset s d = some a ∧ signer = a.owner ∧ a.paused = false ∧ s'.assets = s.assets ∧
      (∀ d' x, x ≠ signer → s'.bal d' x = s.bal d' x) := by
  unfold redeemTokens at hok
  split at hok
  · cases hok
  split at hok
  · cases hok
  rename_i a ha
  rw [passes_gRedeem] at hok
  refine ⟨a, ha, ?_⟩
  by_cases hown : signer = a.owner
  · by_cases hp : a.paused = true
    · simp [hown, hp] at hok
    · simp only [hown, decide_true, Bool.not_true, Bool.false_eq_true, ite_false, hp] at hok
      split at hok
      · cases hok
      cases hok
      refine ⟨hown, by simpa using hp, rfl, ?_⟩
      intro d' x hx
      have : ¬ (d' = d ∧ x = a.owner) := fun h => hx (hown ▸ h.2)
      simp [this]
  · simp [hown] at hok

theorem C16_issuance_block (s s' : Iss α) (signer x : α) (d : Nat)
    (hok : blockAddress s signer d x = .ok s') :
    ∃ a, getAsset s d = some a ∧ signer = a.owner ∧ a.blockable = true := by
  unfold blockAddress at hok
  split at hok
  · cases hok
  rename_i a ha
  rw [passes_gBlock] at hok
  refine ⟨a, ha, ?_⟩
  by_cases hbl : a.blockable = true
  · by_cases hown : signer = a.owner
    · exact ⟨hown, hbl⟩
    · simp [hbl, hown] at hok
  · simp [hbl] at hok

theorem C16_issuance_unblock (s s' : Iss α) (signer x : α) (d : Nat)
    (hok : unblockAddress s signer d x = .ok s') :
    ∃ a, getAsset s d = some a ∧ signer = a.owner ∧ a.blockable = true := by
  unfold unblockAddress at hok
  split at hok
  · cases hok
  rename_i a ha
  rw [passes_gUnblock] at hok
  refine ⟨a, ha, ?_⟩
  by_cases hbl : a.blockable = true
  · by_cases hown : signer = a.owner
    · exact ⟨hown, hbl⟩
    · simp [hbl, hown] at hok
  · simp [hbl] at hok

theorem C16_issuance_pause (s s' : Iss α) (signer : α) (d : Nat) (status : Bool)
    (hok : setPauseStatus s signer d status = .ok s') :
    ∃ a, getAsset s d = some a ∧ signer = a.owner := by
  unfold setPauseStatus at hok
  split at hok
  · cases hok
  rename_i a ha
  rw [passes_gPause] at hok
  refine ⟨a, ha, ?_⟩
  by_cases hown : signer = a.owner
  · exact hown
  · simp [hown] at hok

/-- All five issuance messages are refused for every signer that is not the asset's owner, and leave
    the state as it was. -/
theorem C16_issuance_non_owner_rejected (s : Iss α) (signer x : α) (d : Nat) (amt : Int) (status : Bool)
    (hno : ∀ a, getAsset s d = some a → signer ≠ a.owner) :
    after s (issueTokens s signer x d amt) = s ∧ after s (redeemTokens s signer d amt) = s ∧
    after s (blockAddress s signer d x) = s ∧ after s (unblockAddress s signer d x) = s ∧
    after s (setPauseStatus s signer d status) = s ∧
    (issueTokens s signer x d amt).isOk = false ∧ (redeemTokens s signer d amt).isOk = false ∧
    (blockAddress s signer d x).isOk = false ∧ (unblockAddress s signer d x).isOk = false ∧
    (setPauseStatus s signer d status).isOk = false := by
  have h1 : (issueTokens s signer x d amt).isOk = false := by
    apply isOk_false_of_ne_ok; intro s' hok
    obtain ⟨a, ha, ho, -⟩ := C16_issuance_issue s s' signer x d amt hok
    exact hno a ha ho
  have h2 : (redeemTokens s signer d amt).isOk = false := by
    apply isOk_false_of_ne_ok; intro s' hok
    obtain ⟨a, ha, ho, -⟩ := C16_issuance_redeem s s' signer d amt hok
    exact hno a ha ho
  have h3 : (blockAddress s signer d x).isOk = false := by
    apply isOk_false_of_ne_ok; intro s' hok
    obtain ⟨a, ha, ho, -⟩ := C16_issuance_block s s' signer x d hok
    exact hno a ha ho
  have h4 : (unblockAddress s signer d x).isOk = false := by
    apply isOk_false_of_ne_ok; intro s' hok
    obtain ⟨a, ha, ho, -⟩ := C16_issuance_unblock s s' signer x d hok
    exact hno a ha ho
  have h5 : (setPauseStatus s signer d status).isOk = false := by
    apply isOk_false_of_ne_ok; intro s' hok
    obtain ⟨a, ha, ho⟩ := C16_issuance_pause s s' signer d status hok
    exact hno a ha ho
  exact ⟨after_not_ok _ _ h1, after_not_ok _ _ h2, after_not_ok _ _ h3, after_not_ok _ _ h4,
         after_not_ok _ _ h5, h1, h2, h3, h4, h5⟩

/-- non-vacuity: owner 1 of asset 9 issues, redeems, blocks, unblocks and pauses; account 2 cannot -/
example :
    let a : Asset Nat := { denom := 9, owner := 1, blocked := [4], paused := false, blockable := true,
                           rlActive := true, rlLimit := 100 }
    let s : Iss Nat := { assets := [a], curSupply := fun _ => some 10, bal := fun _ x => if x = 1 then 50 else 0,
                         total := fun _ => 50, isModAcc := fun x => x = 0, hasAcc := fun _ => true,
                         bankBlocked := fun x => x = 0 }
    (issueTokens s 1 3 9 20).isOk = true ∧ (redeemTokens s 1 9 20).isOk = true ∧
    (blockAddress s 1 9 3).isOk = true ∧ (unblockAddress s 1 9 4).isOk = true ∧
    (setPauseStatus s 1 9 true).isOk = true ∧
    (issueTokens s 2 3 9 20).isOk = false ∧ (setPauseStatus s 2 9 true).isOk = false ∧
    (issueTokens s 1 4 9 20).isOk = false := by decide

/-! ## bep3 — "incoming bep3 swaps only from the deputy" -/

/-- A created swap is recorded as incoming exactly when its sender is the deputy. -/
theorem C16_bep3_direction (s s' : B3 α) (rnh : Nat) (ts : Int) (span : Nat) (sender recipient : α)
    (so : Nat) (amt : Int) (dok : Bool)
    (hok : createSwap s rnh ts span sender recipient so amt dok = .ok s') :
    ∃ w, s'.swaps = w :: s.swaps ∧ w.sender = sender ∧ w.recipient = recipient ∧
      (w.incoming = true ↔ sender = s.deputy) := by
  unfold createSwap at hok
  split at hok; · cases hok
  rw [cond_gBep3] at hok
  by_cases hd : sender = s.deputy
  · simp only [hd, decide_true, ite_true] at hok
    unfold createIncoming at hok
    split at hok; · cases hok
    split at hok; · cases hok
    split at hok; · cases hok
    cases hok
    exact ⟨_, rfl, hd.symm ▸ rfl, rfl, by simp [hd]⟩
  · simp only [hd, decide_false, Bool.false_eq_true, ite_false] at hok
    unfold createOutgoing at hok
    split at hok; · cases hok
    split at hok; · cases hok
    split at hok; · cases hok
    split at hok; · cases hok
    split at hok; · cases hok
    cases hok
    exact ⟨_, rfl, rfl, rfl, by simp [hd]⟩

/-- Recipient rules, and what a non-deputy can touch: a sender other than the deputy can only create an
    outgoing swap to the deputy, paid from its own balance; the incoming supply and the account table are
    untouched. -/
theorem C16_bep3_recipient_rules (s s' : B3 α) (rnh : Nat) (ts : Int) (span : Nat) (sender recipient : α)
    (so : Nat) (amt : Int) (dok : Bool)
    (hok : createSwap s rnh ts span sender recipient so amt dok = .ok s') :
    s.isMacc recipient = false ∧
    (sender = s.deputy → recipient ≠ s.deputy ∧ s'.bal = s.bal ∧ s'.outgoing = s.outgoing) ∧
    (sender ≠ s.deputy → recipient = s.deputy ∧ s'.incoming = s.incoming ∧ s'.hasAcc = s.hasAcc ∧
        ∀ a, a ≠ sender → s'.bal a = s.bal a) := by
  unfold createSwap at hok
  split at hok; · cases hok
  rename_i hpre
  have hm : s.isMacc recipient = false := by
    have hp : preChecks s rnh ts sender recipient so amt dok = true := by simpa using hpre
    unfold preChecks at hp
    simp only [Bool.and_eq_true, Bool.not_eq_true'] at hp
    exact hp.1.1.1.1.2
  rw [cond_gBep3] at hok
  refine ⟨hm, ?_⟩
  by_cases hd : sender = s.deputy
  · simp only [hd, decide_true, ite_true] at hok
    unfold createIncoming at hok
    split at hok; · cases hok
    rename_i hr
    split at hok; · cases hok
    split at hok; · cases hok
    cases hok
    exact ⟨fun _ => ⟨hr, rfl, rfl⟩, fun h => absurd hd h⟩
  · simp only [hd, decide_false, Bool.false_eq_true, ite_false] at hok
    unfold createOutgoing at hok
    split at hok; · cases hok
    rename_i hr
    split at hok; · cases hok
    split at hok; · cases hok
    split at hok; · cases hok
    split at hok; · cases hok
    cases hok
    refine ⟨fun h => absurd h hd, fun _ => ⟨by simpa using hr, rfl, rfl, ?_⟩⟩
    intro a ha
    simp [upd, ha]

theorem C16_bep3_non_deputy_rejected (s : B3 α) (rnh : Nat) (ts : Int) (span : Nat) (sender recipient : α)
    (so : Nat) (amt : Int) (dok : Bool) (hs : sender ≠ s.deputy) (hr : recipient ≠ s.deputy) :
    (createSwap s rnh ts span sender recipient so amt dok).isOk = false ∧
    after s (createSwap s rnh ts span sender recipient so amt dok) = s := by
  have h : (createSwap s rnh ts span sender recipient so amt dok).isOk = false := by
    apply isOk_false_of_ne_ok; intro s' hok
    exact hr ((C16_bep3_recipient_rules s s' rnh ts span sender recipient so amt dok hok).2.2 hs).1
  exact ⟨h, after_not_ok _ _ h⟩

/-- non-vacuity: deputy 1 creates an incoming swap for user 2; user 3 sending the same message is refused;
    user 3 can only open an outgoing swap towards the deputy -/
example :
    let s : B3 Nat := {
      deputy := 1, active := true, minAmt := 2, maxAmt := 1000, fee := 1, minLock := 5,
      maxLock := 10, limit := 5000, timeLimited := false, timeLimit := 0, cur := 100, incoming := 0,
      outgoing := 0, tlCur := 0, isMacc := fun x => x = 0, hasAcc := fun _ => true, bal := fun _ => 500,
      swaps := [], now := 10000, height := 7 }
    (createSwap s 42 10000 7 1 2 0 50 true).isOk = true ∧ (createSwap s 42 10000 7 3 2 0 50 true).isOk = false ∧
    (createSwap s 42 10000 7 3 1 0 50 true).isOk = true ∧ (createSwap s 42 10000 7 1 0 0 50 true).isOk = false := by
  decide

/-! ## committee — "proposals and member-committee votes only from members" -/

theorem C16_committee_submit (s s' : Com α) (signer : α) (cid : Nat) (permOk valid : Bool)
    (hok : submitProposal s signer cid permOk valid = .ok s') :
    (∃ c, getCommittee s cid = some c ∧ signer ∈ c.members) ∧
    s'.committees = s.committees ∧ s'.votes = s.votes := by
  unfold submitProposal at hok
  split at hok
  · cases hok
  rename_i c hc
  rw [passes_gSubmit] at hok
  by_cases hm : hasMember c signer = true
  · simp only [hm, Bool.not_true, Bool.false_eq_true, ite_false] at hok
    split at hok; · cases hok
    split at hok; · cases hok
    cases hok
    exact ⟨⟨c, hc, (hasMember_iff c signer).mp hm⟩, rfl, rfl⟩
  · simp [hm] at hok

/-- A vote on a member committee's proposal is accepted only from a member (and only as a yes vote);
    whatever the committee kind, it touches no vote of another voter or proposal. -/
theorem C16_committee_vote (s s' : Com α) (signer : α) (pid opt : Nat)
    (hok : addVote s signer pid opt = .ok s') :
    (∃ p c, getProposal s pid = some p ∧ getCommittee s p.committee = some c ∧
        (c.isMember = true → signer ∈ c.members ∧ opt = 1)) ∧
    s'.committees = s.committees ∧ s'.proposals = s.proposals ∧
    (∀ w ∈ s.votes, (w.proposal ≠ pid ∨ w.voter ≠ signer) → w ∈ s'.votes) ∧
    (∀ w ∈ s'.votes, w ∈ s.votes ∨ (w.proposal = pid ∧ w.voter = signer)) := by
  unfold addVote at hok
  split at hok; · cases hok
  split at hok; · cases hok
  rename_i p hp
  split at hok; · cases hok
  split at hok; · cases hok
  rename_i c hc
  rw [passes_gVote] at hok
  split at hok; · cases hok
  rename_i h1
  split at hok; · cases hok
  rename_i h2
  cases hok
  refine ⟨⟨p, c, hp, hc, ?_⟩, rfl, rfl, ?_, ?_⟩
  · intro hmem
    simp only [hmem, Bool.true_and, Bool.not_eq_true', Bool.not_eq_false, bne_iff_ne, ne_eq,
      Decidable.not_not, Bool.not_eq_eq_eq_not, Bool.not_true] at h1 h2
    exact ⟨(hasMember_iff c signer).mp (by simpa using h1), h2⟩
  · intro w hw hne
    simp only [setVote, List.mem_cons, List.mem_filter]
    right
    refine ⟨hw, ?_⟩
    cases hne with
    | inl h => simp [h]
    | inr h => simp [h]
  · intro w hw
    simp only [setVote, List.mem_cons, List.mem_filter] at hw
    cases hw with
    | inl h => right; subst h; exact ⟨rfl, rfl⟩
    | inr h => left; exact h.1

theorem C16_committee_non_member_rejected (s : Com α) (signer : α) (cid pid opt : Nat) (permOk valid : Bool)
    (hno : ∀ c, c ∈ s.committees → c.isMember = true → signer ∉ c.members)
    (hno' : ∀ c, getCommittee s cid = some c → signer ∉ c.members)
    (hmc : ∀ p c, getProposal s pid = some p → getCommittee s p.committee = some c → c.isMember = true) :
    (submitProposal s signer cid permOk valid).isOk = false ∧ (addVote s signer pid opt).isOk = false := by
  constructor
  · apply isOk_false_of_ne_ok; intro s' hok
    obtain ⟨⟨c, hc, hm⟩, -⟩ := C16_committee_submit s s' signer cid permOk valid hok
    exact hno' c hc hm
  · apply isOk_false_of_ne_ok; intro s' hok
    obtain ⟨⟨p, c, hp, hc, hm⟩, -⟩ := C16_committee_vote s s' signer pid opt hok
    have hcm := hmc p c hp hc
    have hin : c ∈ s.committees := by
      unfold getCommittee at hc
      exact List.mem_of_find?_eq_some hc
    exact hno c hin hcm (hm hcm).1

/-- Token committees are different (and outside the property's "member-committee votes"): the code does
    not test membership there, any account may vote.  Recorded so that the contrast is explicit. -/
theorem C16_committee_token_vote_not_gated :
    let s : Com Nat := { committees := [⟨1, [5], false, 10⟩], proposals := [⟨3, 1, 50⟩], votes := [],
                         nextId := 4, now := 20 }
    (addVote s 9 3 2).isOk = true := by decide

/-- non-vacuity: member 5 proposes and votes yes; non-member 9 can do neither; member 5 cannot vote no -/
example :
    let s : Com Nat := { committees := [⟨1, [5, 6], true, 10⟩], proposals := [⟨3, 1, 50⟩], votes := [],
                         nextId := 4, now := 20 }
    (submitProposal s 5 1 true true).isOk = true ∧ (addVote s 5 3 1).isOk = true ∧
    (submitProposal s 9 1 true true).isOk = false ∧ (addVote s 9 3 1).isOk = false ∧
    (addVote s 5 3 2).isOk = false := by decide

/-! ## community — "parameter updates only from the governance authority" -/

theorem C16_community_update (s s' : Comm α) (signer : α) (p : Nat) (valid : Bool)
    (hok : updateParams s signer p valid = .ok s') : signer = s.authority ∧ s'.authority = s.authority := by
  unfold updateParams at hok
  rw [passes_gCommunity] at hok
  by_cases h : s.authority = signer
  · simp only [h, decide_true, Bool.not_true, Bool.false_eq_true, ite_false] at hok
    split at hok
    · cases hok
    · cases hok; exact ⟨h.symm, h.symm⟩
  · simp [h] at hok

theorem C16_community_non_authority_rejected (s : Comm α) (signer : α) (p : Nat) (valid : Bool)
    (hne : signer ≠ s.authority) :
    (updateParams s signer p valid).isOk = false ∧ after s (updateParams s signer p valid) = s := by
  have h : (updateParams s signer p valid).isOk = false := by
    apply isOk_false_of_ne_ok; intro s' hok
    exact hne (C16_community_update s s' signer p valid hok).1
  exact ⟨h, after_not_ok _ _ h⟩

example : (updateParams (⟨3, 0⟩ : Comm Nat) 3 1 true).isOk = true ∧
          (updateParams (⟨3, 0⟩ : Comm Nat) 4 1 true).isOk = false := by decide

/-! ## cdp — "draw and repay only on the signer's own CDP", collateral withdrawal of the signer's deposit -/

/-- Drawing debt requires a CDP keyed by the signer; no CDP under another (owner, type) key changes, nobody
    else's balance changes. -/
theorem C16_cdp_draw (e : CdpEnv α) (s s' : CdpSt α) (signer : α) (t : Nat) (p : Int)
    (hok : drawDebt e s signer t p = .ok s') :
    (s.cdp signer t).isSome = true ∧
    (∀ o t', (o ≠ signer ∨ t' ≠ t) → s'.cdp o t' = s.cdp o t') ∧
    (∀ a, a ≠ signer → s'.usdx a = s.usdx a) ∧ s'.coll = s.coll := by
  unfold drawDebt at hok
  simp only [passes_gCdpDraw] at hok
  split at hok; · cases hok
  rename_i hg
  split at hok; · cases hok
  rename_i c0 hc0
  split at hok; · cases hok
  split at hok; · cases hok
  cases hok
  refine ⟨by simp [hc0], ?_, ?_, rfl⟩
  · intro o t' hne
    have : ¬ (o = signer ∧ t' = t) := by
      intro ⟨h1, h2⟩; cases hne with
      | inl h => exact h h1
      | inr h => exact h h2
    simp [setCdp, this]
  · intro a ha; simp [upd, ha]

/-- Repaying requires a CDP keyed by the signer; other CDPs are untouched; the only collateral balances
    that move are those of the depositors of the signer's own CDP (returned when the debt is cleared). -/
theorem C16_cdp_repay (e : CdpEnv α) (s s' : CdpSt α) (signer : α) (t : Nat) (pay : Int)
    (hok : repayDebt e s signer t pay = .ok s') :
    (∃ c, s.cdp signer t = some c ∧
      (∀ t' a, (t' ≠ t ∨ ∀ d ∈ c.deps, d.1 ≠ a) → s'.coll t' a = s.coll t' a)) ∧
    (∀ o t', (o ≠ signer ∨ t' ≠ t) → s'.cdp o t' = s.cdp o t') ∧
    (∀ a, a ≠ signer → s'.usdx a = s.usdx a) := by
  unfold repayDebt at hok
  simp only [passes_gCdpRepay] at hok
  split at hok; · cases hok
  split at hok; · cases hok
  rename_i c0 hc0
  split at hok; · cases hok
  split at hok; · cases hok
  split at hok; · cases hok
  have hcdp : ∀ (s1 : CdpSt α) (v : Option (Cdp α)) o t', (o ≠ signer ∨ t' ≠ t) →
      (setCdp s1 signer t v).cdp o t' = s1.cdp o t' := by
    intro s1 v o t' hne
    have : ¬ (o = signer ∧ t' = t) := by
      intro ⟨h1, h2⟩; cases hne with
      | inl h => exact h h1
      | inr h => exact h h2
    simp [setCdp, this]
  split at hok
  · cases hok
    refine ⟨⟨c0, hc0, ?_⟩, ?_, ?_⟩
    · intro t' a hne
      by_cases ht : t' = t
      · subst ht
        cases hne with
        | inl h => exact absurd rfl h
        | inr h =>
          simp only [upd, ite_true, setCdp]
          exact refund_other _ _ a (by simpa [sync] using h)
      · simp [upd, ht, setCdp]
    · intro o t' hne; simpa [setCdp] using hcdp _ none o t' hne
    · intro a ha; simp [upd, ha, setCdp]
  · cases hok
    refine ⟨⟨c0, hc0, ?_⟩, ?_, ?_⟩
    · intro t' a _; simp [setCdp]
    · intro o t' hne; exact hcdp _ _ o t' hne
    · intro a ha; simp [upd, ha, setCdp]

/-- Withdrawing collateral requires a deposit recorded for the signer on that CDP, at most that deposit is
    paid out, to the signer; every other depositor's deposit on the CDP, every other CDP and every other
    account's balance are unchanged. -/
theorem C16_cdp_withdraw (e : CdpEnv α) (s s' : CdpSt α) (owner signer : α) (t : Nat) (x : Int)
    (hok : withdrawCollateral e s owner signer t x = .ok s') :
    (∃ c d, s.cdp owner t = some c ∧ depositOf c signer = some d ∧ x ≤ d ∧
      ∃ c', s'.cdp owner t = some c' ∧ ∀ a, a ≠ signer → depositOf c' a = depositOf c a) ∧
    (∀ o t', (o ≠ owner ∨ t' ≠ t) → s'.cdp o t' = s.cdp o t') ∧
    (∀ t' a, a ≠ signer → s'.coll t' a = s.coll t' a) ∧ s'.usdx = s.usdx := by
  unfold withdrawCollateral at hok
  simp only [passes_gCdpWdCdp, passes_gCdpWdDep, passes_gCdpWdCap] at hok
  split at hok; · cases hok
  split at hok; · cases hok
  split at hok; · cases hok
  rename_i c0 hc0
  split at hok; · cases hok
  rename_i hdep
  split at hok; · cases hok
  rename_i hcap
  split at hok; · cases hok
  cases hok
  cases hd : depositOf c0 signer with
  | none => simp [hd] at hdep
  | some d =>
    refine ⟨⟨c0, d, hc0, hd, ?_, ?_⟩, ?_, ?_, rfl⟩
    · simp only [hd, Option.getD_some, Bool.not_not, decide_eq_true_eq, Bool.not_eq_true',
        decide_eq_false_iff_not] at hcap
      omega
    · refine ⟨_, (by simp only [setCdp, and_self, ite_true]; rfl), ?_⟩
      intro a ha
      rw [depositOf_setDeposit_other _ signer a _ ha]
      simp [depositOf, sync]
    · intro o t' hne
      have : ¬ (o = owner ∧ t' = t) := by
        intro ⟨h1, h2⟩; cases hne with
        | inl h => exact h h1
        | inr h => exact h h2
      simp [setCdp, this]
    · intro t' a ha
      by_cases ht : t' = t
      · subst ht; simp [upd, ha, setCdp]
      · simp [upd, ht, setCdp]

/-- A signer with no CDP (draw, repay) or no deposit on the named CDP (withdraw) is refused. -/
theorem C16_cdp_no_record_rejected (e : CdpEnv α) (s : CdpSt α) (owner signer : α) (t : Nat) (x : Int) :
    (s.cdp signer t = none → (drawDebt e s signer t x).isOk = false ∧ (repayDebt e s signer t x).isOk = false) ∧
    ((∀ c, s.cdp owner t = some c → depositOf c signer = none) →
      (withdrawCollateral e s owner signer t x).isOk = false) := by
  refine ⟨fun hn => ⟨?_, ?_⟩, fun hn => ?_⟩
  · apply isOk_false_of_ne_ok; intro s' hok
    have := (C16_cdp_draw e s s' signer t x hok).1
    simp [hn] at this
  · apply isOk_false_of_ne_ok; intro s' hok
    obtain ⟨⟨c, hc, -⟩, -⟩ := C16_cdp_repay e s s' signer t x hok
    simp [hn] at hc
  · apply isOk_false_of_ne_ok; intro s' hok
    obtain ⟨⟨c, d, hc, hd, -⟩, -⟩ := C16_cdp_withdraw e s s' owner signer t x hok
    simp [hn c hc] at hd

/-- non-vacuity: owner 1 draws, repays in full (collateral returns to depositors 1 and 2), depositor 2
    withdraws part of its deposit; account 3 (no CDP, no deposit) can do none of these -/
example :
    let e : CdpEnv Nat := { accrued := fun _ => 1, drawValid := fun _ _ => true, ratioOk := fun _ _ _ => true,
                            collValid := fun _ _ => true, payValid := fun _ => true }
    let s : CdpSt Nat := { cdp := fun o t => if o = 1 ∧ t = 0 then some ⟨30, 100, 2, [(1, 20), (2, 10)]⟩ else none,
                           usdx := fun _ => 1000, coll := fun _ _ => 0, totalPrincipal := fun _ => 100, debtFloor := 10 }
    (drawDebt e s 1 0 50).isOk = true ∧ (repayDebt e s 1 0 500).isOk = true ∧
    (withdrawCollateral e s 1 2 0 4).isOk = true ∧ (withdrawCollateral e s 1 2 0 11).isOk = false ∧
    (drawDebt e s 3 0 50).isOk = false ∧ (repayDebt e s 3 0 500).isOk = false ∧
    (withdrawCollateral e s 1 3 0 4).isOk = false := by decide

/-! ## hard, savings, swap, earn — "withdrawals only of the signer's own recorded deposit or shares" -/

theorem C16_hard_withdraw (e : HardEnv α) (s s' : Hard α) (signer : α) (req : Coins)
    (hok : hardWithdraw e s signer req = .ok s') :
    (∃ rec_ amt, s.dep signer = some rec_ ∧ calcWithdraw gHardCap (e.syncDep signer rec_) req = some amt ∧
      (∀ c ∈ amt, c.2 ≤ amountOf (e.syncDep signer rec_) c.1) ∧ s'.bal = credit s.bal signer amt) ∧
    (∀ a, a ≠ signer → s'.dep a = s.dep a ∧ s'.bor a = s.bor a ∧ ∀ d, s'.bal d a = s.bal d a) := by
  unfold hardWithdraw at hok
  simp only [passes_gHard] at hok
  split at hok; · cases hok
  rename_i hg
  split at hok; · cases hok
  rename_i amt hamt
  split at hok; · cases hok
  split at hok; · cases hok
  cases hok
  cases hr : s.dep signer with
  | none => simp [hr] at hg
  | some rec_ =>
    simp only [hr, Option.getD_some] at hamt
    refine ⟨⟨rec_, amt, rfl, hamt, calcWithdraw_capped _ cond_gHardCap _ _ _ hamt, rfl⟩, ?_⟩
    intro a ha
    exact ⟨by simp [upd, ha], by simp [upd, ha], fun d => credit_other _ _ _ _ _ ha⟩

theorem C16_savings_withdraw (s s' : Sav α) (signer : α) (req : Coins)
    (hok : savWithdraw s signer req = .ok s') :
    (∃ rec_ amt, s.dep signer = some rec_ ∧ calcWithdraw gSavingsCap rec_ req = some amt ∧
      (∀ c ∈ amt, c.2 ≤ amountOf rec_ c.1) ∧ s'.bal = credit s.bal signer amt) ∧
    (∀ a, a ≠ signer → s'.dep a = s.dep a ∧ ∀ d, s'.bal d a = s.bal d a) := by
  unfold savWithdraw at hok
  simp only [passes_gSavings] at hok
  split at hok; · cases hok
  rename_i hg
  split at hok; · cases hok
  rename_i amt hamt
  split at hok; · cases hok
  cases hok
  cases hr : s.dep signer with
  | none => simp [hr] at hg
  | some rec_ =>
    simp only [hr, Option.getD_some] at hamt
    refine ⟨⟨rec_, amt, rfl, hamt, calcWithdraw_capped _ cond_gSavingsCap _ _ _ hamt, rfl⟩, ?_⟩
    intro a ha
    exact ⟨by simp [upd, ha], fun d => credit_other _ _ _ _ _ ha⟩

theorem C16_swap_withdraw (s s' : SwapSt α) (signer : α) (p : Nat) (sh minA minB : Int)
    (hok : swapWithdraw s signer p sh minA minB = .ok s') :
    (∃ owned, s.shares signer p = some owned ∧ sh ≤ owned) ∧
    (∀ o p', (o ≠ signer ∨ p' ≠ p) → s'.shares o p' = s.shares o p') ∧
    (∀ p' a, a ≠ signer → s'.balA p' a = s.balA p' a ∧ s'.balB p' a = s.balB p' a) := by
  unfold swapWithdraw at hok
  simp only [passes_gSwap, passes_gSwapCap] at hok
  split at hok; · cases hok
  rename_i hg
  split at hok; · cases hok
  rename_i hcap
  split at hok; · cases hok
  split at hok; · cases hok
  split at hok; · cases hok
  split at hok; · cases hok
  cases hok
  cases hr : s.shares signer p with
  | none => simp [hr] at hg
  | some owned =>
    refine ⟨⟨owned, rfl, ?_⟩, ?_, ?_⟩
    · simp only [hr, Option.getD_some, Bool.not_not, decide_eq_true_eq, Bool.not_eq_true',
        decide_eq_false_iff_not] at hcap
      omega
    · intro o p' hne
      have : ¬ (o = signer ∧ p' = p) := by
        intro ⟨h1, h2⟩; cases hne with
        | inl h => exact h h1
        | inr h => exact h h2
      simp [this]
    · intro p' a ha
      by_cases hp : p' = p
      · subst hp; simp [upd, ha]
      · simp [upd, hp]

theorem C16_earn_withdraw (e : EarnEnv α) (s s' : Earn α) (signer : α) (d : Nat) (want : Int) (strat : Nat)
    (hok : earnWithdraw e s signer d want strat = .ok s') :
    (∃ rec_, s.shares signer = some rec_ ∧ e.toShares d want ≤ amountOf rec_ d) ∧
    (∀ a, a ≠ signer → s'.shares a = s.shares a ∧ ∀ d', s'.bal d' a = s.bal d' a) := by
  unfold earnWithdraw at hok
  simp only [passes_gEarn, passes_gEarnCap] at hok
  split at hok; · cases hok
  split at hok; · cases hok
  split at hok; · cases hok
  rename_i hg
  split at hok; · cases hok
  rename_i hcap
  split at hok; · cases hok
  split at hok; · cases hok
  split at hok; · cases hok
  cases hok
  cases hr : s.shares signer with
  | none => simp [hr] at hg
  | some rec_ =>
    refine ⟨⟨rec_, rfl, ?_⟩, ?_⟩
    · simp only [hr, Option.getD_some, Bool.not_not, decide_eq_true_eq, Bool.not_eq_true',
        decide_eq_false_iff_not] at hcap
      omega
    · intro a ha
      exact ⟨by simp [upd, ha], fun d' => credit_other _ _ _ _ _ ha⟩

/-- A signer without a record is refused by all four withdrawals. -/
theorem C16_withdraw_no_record_rejected (eh : HardEnv α) (ee : EarnEnv α) (h : Hard α) (v : Sav α)
    (w : SwapSt α) (n : Earn α) (signer : α) (req : Coins) (p d strat : Nat) (sh minA minB want : Int) :
    (h.dep signer = none → (hardWithdraw eh h signer req).isOk = false) ∧
    (v.dep signer = none → (savWithdraw v signer req).isOk = false) ∧
    (w.shares signer p = none → (swapWithdraw w signer p sh minA minB).isOk = false) ∧
    (n.shares signer = none → (earnWithdraw ee n signer d want strat).isOk = false) := by
  refine ⟨fun hn => ?_, fun hn => ?_, fun hn => ?_, fun hn => ?_⟩
  · apply isOk_false_of_ne_ok; intro s' hok
    obtain ⟨⟨r, _, hr, -⟩, -⟩ := C16_hard_withdraw eh h s' signer req hok
    simp [hn] at hr
  · apply isOk_false_of_ne_ok; intro s' hok
    obtain ⟨⟨r, _, hr, -⟩, -⟩ := C16_savings_withdraw v s' signer req hok
    simp [hn] at hr
  · apply isOk_false_of_ne_ok; intro s' hok
    obtain ⟨⟨r, hr, -⟩, -⟩ := C16_swap_withdraw w s' signer p sh minA minB hok
    simp [hn] at hr
  · apply isOk_false_of_ne_ok; intro s' hok
    obtain ⟨⟨r, hr, -⟩, -⟩ := C16_earn_withdraw ee n s' signer d want strat hok
    simp [hn] at hr

/-- non-vacuity: depositor 1 withdraws from each module (asking hard/savings for more than recorded pays
    out the recorded amount only); account 2, without records, is refused everywhere -/
example :
    let eh : HardEnv Nat := { syncDep := fun _ c => c, syncBor := fun _ c => c, ltvOk := fun _ _ => true }
    let ee : EarnEnv Nat := { vaultOk := fun _ _ => true, toShares := fun _ x => x, toAssets := fun _ x => x,
                              valueOf := fun _ _ => 100, stratOk := fun _ _ => true, isDust := fun _ x => x < 1 }
    let h : Hard Nat := { dep := fun a => if a = 1 then some [(0, 40)] else none, bor := fun _ => none,
                          supplied := fun _ => 40, modBal := fun _ => 40, bal := fun _ _ => 0, bankBlocked := fun _ => false }
    let v : Sav Nat := { dep := fun a => if a = 1 then some [(0, 40)] else none, modBal := fun _ => 40,
                         bal := fun _ _ => 0, bankBlocked := fun _ => false }
    let w : SwapSt Nat := { shares := fun a _ => if a = 1 then some 10 else none, pool := fun _ => some ⟨100, 200, 20⟩,
                            balA := fun _ _ => 0, balB := fun _ _ => 0 }
    let n : Earn Nat := { shares := fun a => if a = 1 then some [(0, 40)] else none, totalShares := fun _ => 40,
                          bal := fun _ _ => 0, bankBlocked := fun _ => false }
    (hardWithdraw eh h 1 [(0, 99)]).isOk = true ∧ (savWithdraw v 1 [(0, 99)]).isOk = true ∧
    (swapWithdraw w 1 0 10 1 1).isOk = true ∧ (swapWithdraw w 1 0 11 1 1).isOk = false ∧
    (earnWithdraw ee n 1 0 40 0).isOk = true ∧ (earnWithdraw ee n 1 0 41 0).isOk = false ∧
    (hardWithdraw eh h 2 [(0, 9)]).isOk = false ∧ (savWithdraw v 2 [(0, 9)]).isOk = false ∧
    (swapWithdraw w 2 0 1 1 1).isOk = false ∧ (earnWithdraw ee n 2 0 4 0).isOk = false := by decide

end KV.Authz
