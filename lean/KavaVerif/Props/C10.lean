/-
  C10 — evmutil: converted assets are always fully backed on the other side.

  "For every Cosmos-native coin with a module-deployed ERC20 the ERC20 total supply always equals the
   module account's balance of that coin, and for every enabled EVM-native pair the sdk coin supply never
   exceeds the ERC20 tokens locked in the module's EVM account (scaled by 10^10 for the 8-decimal bep3
   assets). A conversion debits the initiator and credits the receiver the same value, a round trip
   restores the original balances, ERC20 dust smaller than one sdk unit is never taken from the user, and
   a failed or disabled conversion changes nothing on either side."

  Quantifier: all amounts, all enabled/disabled pairs and allowed/removed denoms, all initiator/receiver
  combinations, all sequences of the four conversion messages interleaved with ordinary ERC20 transfers
  and bank sends (here also: mints of the external token by its own minter, and parameter changes).

  The model is KavaVerif/Model/Evmutil.lean (conversion_evm_native.go, conversion_evm_native_bep3.go,
  conversion_cosmos_native.go, erc20.go, params.go, msg ValidateBasic transcribed). This is a proof about
  the LEDGER MODEL: the EVM and the contract bytecode are outside it — `ercTransfer/ercMint/ercBurn` are
  the assumed standard ERC20 semantics (no fee, no rebase, owner-only mint/burn). `F`, `isBep3` come from
  the constants regenerated from the source (KV.Gen.bep3ConversionFactor, KV.Gen.bep3Denoms).

  Environment assumptions, explicit as hypotheses:
   * `blocked M = true` — the evmutil module account is on the bank's blocked list (generated fact
     `C10_module_account_blocked`), so no bank send reaches it;
   * `Admissible U op` — nobody signs for the module account / module EVM address, and governance only
     enables pairs of a fixed universe `U` that is a partial bijection (`UWf U`: a denom is never re-paired
     with another contract, nor a contract with another denom);
   * pair denoms are minted and burnt by evmutil only (the model has no other minter: x/bep3 minting the
     same bep3 denoms is outside the property's quantifier and outside this model).

  Only property statements live here; helper lemmas are in KavaVerif/Proofs/Evmutil*.lean.
-/
import KavaVerif.Proofs.EvmutilTrip
import KavaVerif.Generated.C10Evmutil
import KavaVerif.Proofs.TieFnEvmutil
set_option linter.unusedSimpArgs false
set_option linter.unusedVariables false

namespace KV.EU

/-- the generated bep3 factor is the 10^10 the property names, and `scale` is 10^10 exactly on the
    generated bep3 denom set and 1 elsewhere -/
theorem C10_scale : F = 10 ^ 10 ∧
    ∀ d : Denom, scale d = if KV.Gen.bep3Denoms.contains d then 10 ^ 10 else 1 := by
  refine ⟨by decide, fun d => ?_⟩
  unfold scale isBep3
  split <;> rfl

/-- generated wiring facts (app/app.go): the evmutil module account is not exempt from the bank's
    blocked list — this is the hypothesis `blocked M = true` of the theorems below — and it may mint
    and burn (pair coins). The only registered invariant route is `cosmos-coins-fully-backed`; the
    EVM-native backing invariant exists in invariants.go but is not registered. -/
theorem C10_module_account_blocked :
    KV.Gen.C10.evmutilModuleAccount ∉ KV.Gen.C10.unblockedModuleAccounts ∧
    "authtypes.Minter" ∈ KV.Gen.C10.evmutilPerms ∧ "authtypes.Burner" ∈ KV.Gen.C10.evmutilPerms ∧
    "cosmos-coins-fully-backed" ∈ KV.Gen.C10.registeredInvariants := by decide

/-- the chain starts in a state satisfying the invariant -/
theorem C10_genesis (U : List Pair) : Inv U init := inv_init U

/-- "For every Cosmos-native coin with a module-deployed ERC20 the ERC20 total supply always equals the
    module account's balance of that coin": after ANY sequence of admissible operations (failed ones
    change nothing) from a state satisfying the invariant — in particular from genesis. Moreover the
    module account holds no coin of an unregistered denom. -/
theorem C10_cosmos_backed (U : List Pair) (hU : UWf U) (blocked : Addr → Bool) (hB : blocked M = true)
    (s0 : St) (h0 : Inv U s0) (ops : List Op) (hadm : ∀ op ∈ ops, Admissible U op) :
    (∀ d k, (run blocked s0 ops).reg d = some k →
      (run blocked s0 ops).erc.total (.dep k) = (run blocked s0 ops).bank.bal d M) ∧
    (∀ d, (run blocked s0 ops).reg d = none → (run blocked s0 ops).bank.bal d M = 0) := by
  have h := inv_run hU hB ops s0 hadm h0
  exact ⟨h.cosmos, h.unreg⟩

/-- "for every enabled EVM-native pair the sdk coin supply never exceeds the ERC20 tokens locked in the
    module's EVM account (scaled by 10^10 for the 8-decimal bep3 assets)": for every enabled pair — and
    every currently disabled pair of the universe. -/
theorem C10_evm_native_backed (U : List Pair) (hU : UWf U) (blocked : Addr → Bool) (hB : blocked M = true)
    (s0 : St) (h0 : Inv U s0) (ops : List Op) (hadm : ∀ op ∈ ops, Admissible U op) :
    (∀ p ∈ (run blocked s0 ops).pairs,
      (run blocked s0 ops).bank.supply p.2 * scale p.2 ≤ (run blocked s0 ops).erc.bal p.1 M) ∧
    (∀ p ∈ U, (run blocked s0 ops).bank.supply p.2 * scale p.2 ≤ (run blocked s0 ops).erc.bal p.1 M) := by
  have h := inv_run hU hB ops s0 hadm h0
  exact ⟨fun p hp => h.native p (h.sub p hp), h.native⟩

/-- the ledger's own invariant under the assumed ERC20 semantics: totalSupply = Σ balances over the
    holders; hence for a registered cosmos denom the holders' wrapped tokens sum to the module
    account's coins. -/
theorem C10_ledger_total (U : List Pair) (hU : UWf U) (blocked : Addr → Bool) (hB : blocked M = true)
    (accts : List Addr) (hn : accts.Nodup) (hM : M ∈ accts)
    (s0 : St) (h0 : Inv U s0) (hL : LedgerSum accts s0) (ops : List Op)
    (hadm : ∀ op ∈ ops, Admissible U op) (hacc : ∀ op ∈ ops, ∀ a ∈ opAddrs op, a ∈ accts) :
    (∀ c, (run blocked s0 ops).erc.total c = sumOver accts ((run blocked s0 ops).erc.bal c)) ∧
    (∀ d k, (run blocked s0 ops).reg d = some k →
      sumOver accts ((run blocked s0 ops).erc.bal (.dep k)) = (run blocked s0 ops).bank.bal d M) := by
  have hl := ledger_run hn hM (blocked := blocked) ops s0 hacc hL
  have hi := inv_run hU hB ops s0 hadm h0
  exact ⟨hl, fun d k hk => by rw [← hl, hi.cosmos d k hk]⟩

/-- "A conversion debits the initiator and credits the receiver the same value" — ConvertCoinToERC20:
    the initiator loses `amt` coins, the receiver gains `amt·scale` ERC20 (the same value), which leave
    the module's EVM account; the coins are burnt; nobody else changes. -/
theorem C10_value_conserved_coin_to_erc20 {s s' : St} {ini rcv : Addr} {d : Denom} {amt : Int}
    (h : coinToErc s ini rcv d amt = .ok s') :
    ∃ c, (c, d) ∈ s.pairs ∧ 0 < amt ∧
      s'.bank.bal d ini = s.bank.bal d ini - amt ∧
      s'.erc.bal c rcv = s.erc.bal c rcv + amt * scale d ∧
      s'.erc.bal c M = s.erc.bal c M - amt * scale d ∧
      s'.bank.supply d = s.bank.supply d - amt ∧
      (∀ d' a, ¬ (d' = d ∧ a = ini) → s'.bank.bal d' a = s.bank.bal d' a) ∧
      (∀ d', d' ≠ d → s'.bank.supply d' = s.bank.supply d') ∧
      (∀ c' a, ¬ (c' = c ∧ (a = rcv ∨ a = M)) → s'.erc.bal c' a = s.erc.bal c' a) ∧
      s'.erc.total = s.erc.total := by
  obtain ⟨c, hp, hpos, hf, hz, hrm, hl, hb, hs, he, ht, _⟩ := coinToErc_spec h
  have hMr : ¬ (M = rcv) := fun e => hrm e.symm
  refine ⟨c, (findByDenom_some hp).2, hpos, ?_, ?_, ?_, ?_, ?_, ?_, ?_, ht⟩
  · rw [hb]; simp only [and_self, ite_true]
  · rw [he]; simp only [and_self, ite_true, hrm, and_false, ite_false]; omega
  · rw [he]; simp only [and_self, ite_true, hMr, and_false, ite_false]; omega
  · rw [hs]; simp only [ite_true]
  · intro d' a hc; rw [hb]; simp only [hc, ite_false]; omega
  · intro d' hc; rw [hs]; simp only [hc, ite_false]; omega
  · intro c' a hc; rw [he]
    have h1 : ¬ (c' = c ∧ a = rcv) := fun e => hc ⟨e.1, Or.inl e.2⟩
    have h2 : ¬ (c' = c ∧ a = M) := fun e => hc ⟨e.1, Or.inr e.2⟩
    simp only [h1, h2, ite_false]; omega

/-- ConvertERC20ToCoin: the receiver gains `m = ⌊amt/scale⌋` coins (freshly minted), the initiator loses
    exactly `m·scale` ERC20 (the same value), which are locked in the module's EVM account. -/
theorem C10_value_conserved_erc20_to_coin {blocked : Addr → Bool} {s s' : St} {ini rcv : Addr}
    {c : Contract} {amt : Int} (h : ercToCoin blocked s ini rcv c amt = .ok s') :
    ∃ d m, (c, d) ∈ s.pairs ∧ m = amt / scale d ∧ 0 < m ∧
      s'.erc.bal c ini = s.erc.bal c ini - m * scale d ∧
      s'.bank.bal d rcv = s.bank.bal d rcv + m ∧
      s'.erc.bal c M = s.erc.bal c M + m * scale d ∧
      s'.bank.supply d = s.bank.supply d + m ∧
      (∀ d' a, ¬ (d' = d ∧ a = rcv) → s'.bank.bal d' a = s.bank.bal d' a) ∧
      (∀ d', d' ≠ d → s'.bank.supply d' = s.bank.supply d') ∧
      (∀ c' a, ¬ (c' = c ∧ (a = ini ∨ a = M)) → s'.erc.bal c' a = s.erc.bal c' a) ∧
      s'.erc.total = s.erc.total := by
  obtain ⟨d, m, hp, hpos, hm, hmpos, hf, hz, him, hbl, hb, hs, he, ht, _⟩ := ercToCoin_spec h
  have hMi : ¬ (M = ini) := fun e => him e.symm
  refine ⟨d, m, (findByContract_some hp).2, hm, hmpos, ?_, ?_, ?_, ?_, ?_, ?_, ?_, ht⟩
  · rw [he]; simp only [and_self, ite_true, him, and_false, ite_false]; omega
  · rw [hb]; simp only [and_self, ite_true]
  · rw [he]; simp only [and_self, ite_true, hMi, and_false, ite_false]; omega
  · rw [hs]; simp only [ite_true]
  · intro d' a hc; rw [hb]; simp only [hc, ite_false]; omega
  · intro d' hc; rw [hs]; simp only [hc, ite_false]; omega
  · intro c' a hc; rw [he]
    have h1 : ¬ (c' = c ∧ a = ini) := fun e => hc ⟨e.1, Or.inl e.2⟩
    have h2 : ¬ (c' = c ∧ a = M) := fun e => hc ⟨e.1, Or.inr e.2⟩
    simp only [h1, h2, ite_false]; omega

/-- ConvertCosmosCoinToERC20: the initiator loses `amt` coins, which are locked in the module account;
    the receiver gains `amt` wrapped tokens, freshly minted (total supply + `amt`). -/
theorem C10_value_conserved_cosmos_to_erc20 {s s' : St} {ini rcv : Addr} {d : Denom} {amt : Int}
    (hini : ini ≠ M) (h : cosmosToErc s ini rcv d amt = .ok s') :
    ∃ k, s'.reg d = some k ∧ d ∈ s.allowed ∧ 0 < amt ∧
      s'.bank.bal d ini = s.bank.bal d ini - amt ∧
      s'.erc.bal (.dep k) rcv = s.erc.bal (.dep k) rcv + amt ∧
      s'.bank.bal d M = s.bank.bal d M + amt ∧
      s'.erc.total (.dep k) = s.erc.total (.dep k) + amt ∧
      s'.bank.supply = s.bank.supply ∧
      (∀ d' a, ¬ (d' = d ∧ (a = ini ∨ a = M)) → s'.bank.bal d' a = s.bank.bal d' a) ∧
      (∀ c' a, ¬ (c' = .dep k ∧ a = rcv) → s'.erc.bal c' a = s.erc.bal c' a) ∧
      (∀ c', c' ≠ .dep k → s'.erc.total c' = s.erc.total c') := by
  obtain ⟨k, hpos, hal, hf, hz, hreg, hb, hs, he, ht, _⟩ := cosmosToErc_spec h
  have hMi : ¬ (M = ini) := fun e => hini e.symm
  have hk' : s'.reg d = some k := by
    rcases hreg with ⟨hk, hr, _⟩ | ⟨_, _, hr, _⟩
    · rw [hr]; exact hk
    · rw [hr]; simp only [upd_at, ite_true]
  refine ⟨k, hk', hal, hpos, ?_, ?_, ?_, ?_, hs, ?_, ?_, ?_⟩
  · rw [hb]; simp only [and_self, ite_true, hini, and_false, ite_false]; omega
  · rw [he]; simp only [and_self, ite_true]
  · rw [hb]; simp only [and_self, ite_true, hMi, and_false, ite_false]; omega
  · rw [ht]; simp only [ite_true]
  · intro d' a hc; rw [hb]
    have h1 : ¬ (d' = d ∧ a = ini) := fun e => hc ⟨e.1, Or.inl e.2⟩
    have h2 : ¬ (d' = d ∧ a = M) := fun e => hc ⟨e.1, Or.inr e.2⟩
    simp only [h1, h2, ite_false]; omega
  · intro c' a hc; rw [he]; simp only [hc, ite_false]; omega
  · intro c' hc; rw [ht]; simp only [hc, ite_false]; omega

/-- ConvertCosmosCoinFromERC20: the initiator loses `amt` wrapped tokens, which are burnt (total supply
    − `amt`); the receiver gains `amt` coins, which leave the module account. -/
theorem C10_value_conserved_cosmos_from_erc20 {blocked : Addr → Bool} (hB : blocked M = true)
    {s s' : St} {ini rcv : Addr} {d : Denom} {amt : Int}
    (h : cosmosFromErc blocked s ini rcv d amt = .ok s') :
    ∃ k, s.reg d = some k ∧ 0 < amt ∧
      s'.erc.bal (.dep k) ini = s.erc.bal (.dep k) ini - amt ∧
      s'.bank.bal d rcv = s.bank.bal d rcv + amt ∧
      s'.bank.bal d M = s.bank.bal d M - amt ∧
      s'.erc.total (.dep k) = s.erc.total (.dep k) - amt ∧
      s'.bank.supply = s.bank.supply ∧
      (∀ d' a, ¬ (d' = d ∧ (a = rcv ∨ a = M)) → s'.bank.bal d' a = s.bank.bal d' a) ∧
      (∀ c' a, ¬ (c' = .dep k ∧ a = ini) → s'.erc.bal c' a = s.erc.bal c' a) ∧
      (∀ c', c' ≠ .dep k → s'.erc.total c' = s.erc.total c') := by
  obtain ⟨k, hpos, hk, hf, hz, hbl, hfm, hb, hs, he, ht, _⟩ := cosmosFromErc_spec h
  have hrm : rcv ≠ M := by intro e; rw [e, hB] at hbl; cases hbl
  have hMr : ¬ (M = rcv) := fun e => hrm e.symm
  refine ⟨k, hk, hpos, ?_, ?_, ?_, ?_, hs, ?_, ?_, ?_⟩
  · rw [he]; simp only [and_self, ite_true]
  · rw [hb]; simp only [and_self, ite_true, hrm, and_false, ite_false]; omega
  · rw [hb]; simp only [and_self, ite_true, hMr, and_false, ite_false]; omega
  · rw [ht]; simp only [ite_true]
  · intro d' a hc; rw [hb]
    have h1 : ¬ (d' = d ∧ a = rcv) := fun e => hc ⟨e.1, Or.inl e.2⟩
    have h2 : ¬ (d' = d ∧ a = M) := fun e => hc ⟨e.1, Or.inr e.2⟩
    simp only [h1, h2, ite_false]; omega
  · intro c' a hc; rw [he]; simp only [hc, ite_false]; omega
  · intro c' hc; rw [ht]; simp only [hc, ite_false]; omega

/-- "a round trip restores the original balances" — EVM-native: `a` converts `amt` ERC20 to `b`
    (ConvertERC20ToCoin), `b` converts the `⌊amt/scale⌋` coins received back to `a` (ConvertCoinToERC20):
    from any state satisfying the invariant the second message SUCCEEDS and every bank balance, supply,
    ERC20 balance and total supply, the registry and the params are exactly as before. -/
theorem C10_round_trip_native (U : List Pair) (hU : UWf U) (blocked : Addr → Bool) (s s1 : St)
    (a b : Addr) (c : Contract) (amt : Int) (hI : Inv U s) (hb : b ≠ M)
    (h1 : ercToCoin blocked s a b c amt = .ok s1) :
    ∃ d s2, (c, d) ∈ s.pairs ∧ coinToErc s1 b a d (amt / scale d) = .ok s2 ∧
      (∀ d' x, s2.bank.bal d' x = s.bank.bal d' x) ∧ (∀ d', s2.bank.supply d' = s.bank.supply d') ∧
      (∀ c' x, s2.erc.bal c' x = s.erc.bal c' x) ∧ s2.erc.total = s.erc.total ∧
      s2.reg = s.reg ∧ s2.nextC = s.nextC ∧ s2.pairs = s.pairs ∧ s2.allowed = s.allowed := by
  obtain ⟨d, s2, hp, h2, r⟩ := round_trip_native hU hI hb h1
  exact ⟨d, s2, (findByContract_some hp).2, h2, r⟩

/-- round trip — Cosmos-native: `a` converts `amt` coins to `b` (ConvertCosmosCoinToERC20), `b` converts
    `amt` wrapped tokens back to `a` (ConvertCosmosCoinFromERC20): the second message succeeds and every
    balance, supply and total is as before (the registry may have gained the contract, empty again). -/
theorem C10_round_trip_cosmos (U : List Pair) (blocked : Addr → Bool) (s s1 : St)
    (a b : Addr) (d : Denom) (amt : Int) (hI : Inv U s) (ha : a ≠ M) (hba : blocked a = false)
    (h1 : cosmosToErc s a b d amt = .ok s1) :
    ∃ s2, cosmosFromErc blocked s1 b a d amt = .ok s2 ∧
      (∀ d' x, s2.bank.bal d' x = s.bank.bal d' x) ∧ s2.bank.supply = s.bank.supply ∧
      (∀ c' x, s2.erc.bal c' x = s.erc.bal c' x) ∧ (∀ c', s2.erc.total c' = s.erc.total c') ∧
      s2.pairs = s.pairs ∧ s2.allowed = s.allowed :=
  round_trip_cosmos hI ha hba h1

/-- "ERC20 dust smaller than one sdk unit is never taken from the user": a successful
    ConvertERC20ToCoin of `amt` debits the initiator by exactly `amt − amt mod scale` — a whole number of
    sdk units — so the dust `amt mod scale ∈ [0, scale)` stays with the initiator; and the amount debited
    equals `scale` times the coins credited. -/
theorem C10_dust_stays {blocked : Addr → Bool} {s s' : St} {ini rcv : Addr} {c : Contract} {amt : Int}
    (h : ercToCoin blocked s ini rcv c amt = .ok s') :
    ∃ d, (c, d) ∈ s.pairs ∧
      s.erc.bal c ini - s'.erc.bal c ini = amt - amt % scale d ∧
      0 ≤ amt % scale d ∧ amt % scale d < scale d ∧
      (s.erc.bal c ini - s'.erc.bal c ini) % scale d = 0 ∧
      s.erc.bal c ini - s'.erc.bal c ini = (s'.bank.bal d rcv - s.bank.bal d rcv) * scale d := by
  obtain ⟨d, m, hpd, hm, hmpos, hi, hr, _⟩ := C10_value_conserved_erc20_to_coin h
  subst hm
  have hb := div_scale_bounds d amt
  have hsp := scale_pos d
  have hdeb : s.erc.bal c ini - s'.erc.bal c ini = amt / scale d * scale d := by omega
  have hcred : s'.bank.bal d rcv - s.bank.bal d rcv = amt / scale d := by omega
  refine ⟨d, hpd, by omega, Int.emod_nonneg _ (by omega), Int.emod_lt_of_pos _ hsp, ?_, by rw [hdeb, hcred]⟩
  rw [hdeb]; exact Int.mul_emod_left _ _

/-- less than one sdk unit (`mint = 0`) is refused outright -/
theorem C10_dust_refused {blocked : Addr → Bool} {s : St} {ini rcv : Addr} {c : Contract} {d : Denom}
    {amt : Int} (hp : findByContract s.pairs c = some (c, d)) (hd : amt < scale d) :
    ercToCoin blocked s ini rcv c amt = .err :=
  ercToCoin_dust_refused hp hd

/-- "a failed … conversion changes nothing on either side": a failed operation carries no state
    (`Res.err`), and the chain continues from the state it had (baseapp discards the message's writes —
    the harness executes every operation in a cache context written back only on success). -/
theorem C10_failed_changes_nothing (blocked : Addr → Bool) (s : St) (op : Op)
    (h : step blocked s op = .err) : apply blocked s op = s := by
  unfold apply; rw [h]

/-- "a … disabled conversion changes nothing": a pair that is not enabled is refused in both
    directions, a denom that is not on the allow list cannot be converted to an ERC20, and a denom
    without a registered contract cannot be converted from one. (Removing a denom from the allow list
    does not close the way back for already wrapped coins: ConvertCosmosCoinFromERC20 consults the
    registry only — intended, see TestConvertCosmosCoinForRemovedDenom.) -/
theorem C10_disabled_refused (blocked : Addr → Bool) (s : St) (ini rcv : Addr) (amt : Int) :
    (∀ d, (∀ p ∈ s.pairs, p.2 ≠ d) → step blocked s (.coinToErc ini rcv d amt) = .err) ∧
    (∀ c, (∀ p ∈ s.pairs, p.1 ≠ c) → step blocked s (.ercToCoin ini rcv c amt) = .err) ∧
    (∀ d, ¬ d ∈ s.allowed → step blocked s (.cosmosToErc ini rcv d amt) = .err) ∧
    (∀ d, s.reg d = none → step blocked s (.cosmosFromErc ini rcv d amt) = .err) :=
  ⟨fun _ h => coinToErc_disabled h, fun _ h => ercToCoin_disabled h,
   fun _ h => cosmosToErc_disabled h, fun _ h => cosmosFromErc_unregistered h⟩

/-! Non-vacuity: a concrete reachable-looking state (one bep3 pair with dust-bearing balances, one
    registered cosmos denom) that satisfies the hypotheses, on which all four messages succeed, and a
    history from genesis on which conversions really happen. -/
def exU : List Pair := [(.ext 0, "erc20/usdc"), (.ext 1, "bnb")]

example : UWf exU := by
  intro p hp q hq
  simp only [exU, List.mem_cons, List.mem_nil_iff, or_false] at hp hq
  rcases hp with rfl | rfl <;> rcases hq with rfl | rfl <;> decide

def exBlocked : Addr → Bool := fun a => a == 0 || a == 5

example : exBlocked M = true := by decide

def exSt : St :=
  { bank := { bal := fun d a => if d = "bnb" ∧ a = 2 then 7 else if d = "cosmo" ∧ a = 3 then 50
                      else if d = "cosmo" ∧ a = 0 then 20 else 0,
              supply := fun d => if d = "bnb" then 7 else if d = "cosmo" then 70 else 0 },
    erc := { bal := fun c a => if c = .ext 1 ∧ a = 0 then 70000000005 else if c = .ext 1 ∧ a = 3 then 25000000001
                      else if c = .dep 0 ∧ a = 4 then 20 else 0,
             total := fun c => if c = .dep 0 then 20 else if c = .ext 1 then 95000000006 else 0 },
    reg := fun d => if d = "cosmo" then some 0 else none, nextC := 1,
    pairs := [(.ext 1, "bnb")], allowed := ["cosmo"] }

example : (coinToErc exSt 2 3 "bnb" 5).isOk = true := by decide
example : (ercToCoin exBlocked exSt 3 2 (.ext 1) 25000000001).isOk = true := by decide
example : (cosmosToErc exSt 3 4 "cosmo" 50).isOk = true := by decide
example : (cosmosFromErc exBlocked exSt 4 3 "cosmo" 20).isOk = true := by decide
example : (ercToCoin exBlocked exSt 3 2 (.ext 1) 9999999999).isOk = false := by decide
example : (ercToCoin exBlocked exSt 3 5 (.ext 1) 25000000001).isOk = false := by decide

/-- a history from genesis: the token's minter issues 320000000007 units of the 18-decimal bep3 token
    to party 3, the pair is enabled, party 3 converts 250000000001 to party 2 (25 sdk units minted,
    250000000000 locked, 1 unit of dust stays with party 3), party 2 converts 5 sdk units to party 4;
    cosmo is allowed and party 3 tries to convert 1 cosmo it does not hold (refused, changes nothing). -/
def exOps : List Op :=
  [.extMint (.ext 1) 3 320000000007, .setPairs [(.ext 1, "bnb")], .ercToCoin 3 2 (.ext 1) 250000000001,
   .coinToErc 2 4 "bnb" 5, .setAllowed ["cosmo"], .cosmosToErc 3 4 "cosmo" 1]

example : ∀ op ∈ exOps, Admissible exU op := by
  intro op hop
  simp only [exOps, List.mem_cons, List.mem_nil_iff, or_false] at hop
  rcases hop with rfl | rfl | rfl | rfl | rfl | rfl <;> simp [Admissible, exU, M]

example : (run exBlocked init exOps).bank.supply "bnb" = 20 ∧
    (run exBlocked init exOps).erc.bal (.ext 1) M = 200000000000 ∧
    (run exBlocked init exOps).erc.bal (.ext 1) 3 = 70000000007 ∧
    (run exBlocked init exOps).erc.bal (.ext 1) 4 = 50000000000 := by decide

/-! ## source tie (regenerated)

    `GoFn.Evmutil.*` (Generated/FnEvmutil.lean) is regenerated on every run from the Go source of
    x/evmutil/keeper/conversion_evm_native_bep3.go by the function translator (tools/extract/fn*.go).  The model
    inlines the three helpers in `coinToErc` / `ercToCoin` (`amt * F`, `amt / F`, `amt / F * F`, error when
    `amt / F = 0`); the theorems say that the regenerated definitions compute exactly those expressions
    (`big.Int.Div` = Euclidean division, `F` = the regenerated 10^10).  A source edit re-opens the obligation of
    the edited function.  Proofs: Proofs/TieFnEvmutil.lean. -/

theorem C10_source_tie_convertBep3CoinAmountToERC20Amount (amt : Int) :
    GoFn.Evmutil.convertBep3CoinAmountToERC20Amount_translated = true ∧
    GoFn.Evmutil.convertBep3CoinAmountToERC20Amount amt = Go.R.ok (amt * F) :=
  TieFn.evmutil_convertBep3CoinAmountToERC20Amount amt

theorem C10_source_tie_convertBep3ERC20AmountToCoinAmount (amt : Int) :
    GoFn.Evmutil.convertBep3ERC20AmountToCoinAmount_translated = true ∧
    GoFn.Evmutil.convertBep3ERC20AmountToCoinAmount amt = Go.R.ok (amt / F) :=
  TieFn.evmutil_convertBep3ERC20AmountToCoinAmount amt

theorem C10_source_tie_bep3ERC20AmountToCoinMintAndERC20LockAmount (amt : Int) :
    GoFn.Evmutil.bep3ERC20AmountToCoinMintAndERC20LockAmount_translated = true ∧
    GoFn.Evmutil.bep3ERC20AmountToCoinMintAndERC20LockAmount amt
      = (if amt / F = 0 then Go.R.err else Go.R.ok (amt / F, amt / F * F)) :=
  TieFn.evmutil_bep3ERC20AmountToCoinMintAndERC20LockAmount amt

end KV.EU
