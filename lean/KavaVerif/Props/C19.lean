/-
  C19 — Emissions follow their schedule however time is cut into blocks.

  "Staking rewards paid from the community pool over any interval equal the per-second rate times the
   elapsed time, truncated to whole units with the truncation error carried forward, so that however the
   interval is divided into blocks the total never exceeds that amount, falls short of it by less than one
   unit, and never exceeds the pool balance. Once the inflation-disable time has passed, mint and kavadist
   inflation are switched off exactly once and stay off. Kavadist mints for a period only for time inside
   that period: never for time before its start or after its end, and never twice for the same time."

  Model: KavaVerif/Model/Emissions.lean (x/community staking.go, disable_inflation.go, abci.go;
  x/kavadist mint.go, infrastructure.go; begin-blocker order regenerated from app/app.go).
  Units: `Dec` mantissas are 10^-18 units (`P = 10^18`), times are nanoseconds (`NS = 10^9` per second),
  so "paid ≤ rate · elapsed" reads `NS * (P * paid) ≤ rate.m * (tn - t0)`.
  Only property statements live here; lemmas are in KavaVerif/Proofs/Emissions*.lean.

  The kavadist window statement is FALSE on the current code (finding F9, findings/C19-kavadist-window.md):
  it is kept visible below, with its negation, the strongest true partial statement, and — in namespace
  `Fixed` — the full statement proved for the repaired code (`Variant.fixed`).
-/
import KavaVerif.Proofs.Emissions
import KavaVerif.Proofs.EmissionsKavadist
import KavaVerif.Proofs.TieFnCommunity
set_option linter.unusedSimpArgs false
set_option linter.unusedVariables false

namespace KV.Em
open KV

/-! ## (a) staking rewards -/

/-- the regenerated `nanosecondsInOneSecond` is the 10^9 the model's time unit assumes -/
theorem C19_nanos_per_second : NS = 10 ^ 9 := by decide

/-- "however the interval is divided into blocks the total never exceeds that amount, falls short of it
    by less than one unit, and never exceeds the pool balance", for ANY list of blocks `(time, pool
    balance seen)` with non-decreasing times, any rate ≥ 0, any carried-in error `e0 ∈ [0,1)`:

    * the accumulation time ends at the last block time;
    * the carried error stays in `[0,1)`;
    * every block pays a non-negative amount not above the pool balance it saw (`paidWithin`);
    * total paid ≤ rate·(tn − t0) + e0, exactly: paid + carried-out error ≤ e0 + rate·(tn − t0);
    * if the pool cap never binds (`uncapped`), rate·(tn − t0) + e0 − paid < 1 + n·10^-18 where `n` is the
      number of blocks: each block's `QuoInt64` truncates the accrual by < 10^-18, and that part is NOT
      carried forward.  The property's "less than one unit" therefore holds with this explicit slack
      (a full unit of slack needs 10^18 blocks). -/
theorem C19_staking_partition (rate : Dec) (t0 : Int) (e0 : Dec) (bs : List (Int × Int))
    (hr : 0 ≤ rate.m) (he : 0 ≤ e0.m ∧ e0.m < P) (hs : sortedFrom t0 bs) (hp : ∀ b ∈ bs, 0 ≤ b.2) :
    (runBlocks rate t0 e0 bs).2.1 = lastTime t0 bs ∧
    (0 ≤ (runBlocks rate t0 e0 bs).2.2.m ∧ (runBlocks rate t0 e0 bs).2.2.m < P) ∧
    paidWithin (runBlocks rate t0 e0 bs).1 bs ∧
    NS * (sumL (runBlocks rate t0 e0 bs).1 * P + (runBlocks rate t0 e0 bs).2.2.m)
      ≤ rate.m * (lastTime t0 bs - t0) + NS * e0.m ∧
    NS * (sumL (runBlocks rate t0 e0 bs).1 * P) ≤ rate.m * (lastTime t0 bs - t0) + NS * e0.m ∧
    (uncapped rate t0 e0 bs = true →
      rate.m * (lastTime t0 bs - t0) + NS * e0.m - NS * (sumL (runBlocks rate t0 e0 bs).1 * P)
        < NS * (P + (bs.length : Int))) := by
  obtain ⟨a1, a2, a3, a4, a5, a6⟩ := runBlocks_spec rate hr bs t0 e0 he.1 he.2 hs hp
  refine ⟨a1, ⟨a2, a3⟩, a4, ?_, ?_, ?_⟩
  · simp only [NS_val, P_val] at *; omega
  · simp only [NS_val, P_val] at *; omega
  · intro hu
    have := a6 hu
    simp only [NS_val, P_val] at *; omega

/-- non-vacuity: a 3-block history with sub-second and multi-day gaps, an 18-decimal rate, uncapped -/
example : sortedFrom 0 [(1, 5), (500000000, 5), (864000000000000, 2000000)] ∧
    uncapped ⟨1234567890123456789⟩ 0 Dec.zero [(1, 5), (500000000, 5), (864000000000000, 2000000)] = true ∧
    (runBlocks ⟨1234567890123456789⟩ 0 Dec.zero [(1, 5), (500000000, 5), (864000000000000, 2000000)]).1
      = [0, 0, 1066666] :=
  ⟨⟨by decide, by decide, by decide, trivial⟩, by decide, by decide⟩

/-- Partition independence: two ways of cutting the same interval `[t0, tn]` into (fewer than 10^18)
    blocks, neither ever capped by the pool, pay totals that differ by at most one unit. -/
theorem C19_staking_partition_independent (rate : Dec) (t0 : Int) (e0 : Dec) (bs1 bs2 : List (Int × Int))
    (hr : 0 ≤ rate.m) (he : 0 ≤ e0.m ∧ e0.m < P)
    (hs1 : sortedFrom t0 bs1) (hp1 : ∀ b ∈ bs1, 0 ≤ b.2) (hs2 : sortedFrom t0 bs2) (hp2 : ∀ b ∈ bs2, 0 ≤ b.2)
    (hT : lastTime t0 bs1 = lastTime t0 bs2)
    (hu1 : uncapped rate t0 e0 bs1 = true) (hu2 : uncapped rate t0 e0 bs2 = true)
    (hn1 : (bs1.length : Int) ≤ P) (hn2 : (bs2.length : Int) ≤ P) :
    sumL (runBlocks rate t0 e0 bs1).1 - sumL (runBlocks rate t0 e0 bs2).1 ≤ 1 ∧
    sumL (runBlocks rate t0 e0 bs2).1 - sumL (runBlocks rate t0 e0 bs1).1 ≤ 1 := by
  obtain ⟨-, -, -, -, b1, c1⟩ := C19_staking_partition rate t0 e0 bs1 hr he hs1 hp1
  obtain ⟨-, -, -, -, b2, c2⟩ := C19_staking_partition rate t0 e0 bs2 hr he hs2 hp2
  have d1 := c1 hu1
  have d2 := c2 hu2
  rw [hT] at b1 d1
  generalize rate.m * (lastTime t0 bs2 - t0) = X at *
  simp only [NS_val, P_val] at *
  omega

/-- Rate changes (a params update, or the switch-over copying the upgrade rate): with a rate that is
    constant within each block interval but may change from block to block, for ANY block list
    `(time, pool seen, rate in force)`: the carried error stays in [0,1) and
    total paid + carried-out error ≤ carried-in error + Σ_b rate_b·(t_b − t_{b−1}).
    In particular time that passed under a zero rate is never paid for later at a non-zero rate, and a
    single block (`bs = [b]`) pays at most `rate_b·(t_b − t_{b−1})` plus the carried error (< 1 unit):
    nothing is paid for time before the previous block. -/
theorem C19_staking_rate_changes (t0 : Int) (e0 : Dec) (bs : List (Int × Int × Dec))
    (he : 0 ≤ e0.m ∧ e0.m < P) (hs : okBlocksR t0 bs) :
    (0 ≤ (runBlocksR t0 e0 bs).2.2.m ∧ (runBlocksR t0 e0 bs).2.2.m < P) ∧
    NS * (sumL (runBlocksR t0 e0 bs).1 * P + (runBlocksR t0 e0 bs).2.2.m) ≤ rateTime t0 bs + NS * e0.m ∧
    NS * (sumL (runBlocksR t0 e0 bs).1 * P) < rateTime t0 bs + NS * P := by
  obtain ⟨a1, a2, a3⟩ := runBlocksR_spec bs t0 e0 he.1 he.2 hs
  refine ⟨⟨a1, a2⟩, ?_, ?_⟩ <;> (simp only [NS_val, P_val] at *; omega)

/-- non-vacuity: two zero-rate blocks, then a rate of 1 unit/s for one second: exactly 1 unit is paid,
    not the 3 units the whole stretch would give -/
example : (runBlocksR 0 Dec.zero [(1000000000, 100, Dec.zero), (2000000000, 100, Dec.zero),
      (3000000000, 100, ⟨P⟩)]).1 = [0, 0, 1] ∧
    rateTime 0 [(1000000000, 100, Dec.zero), (2000000000, 100, Dec.zero), (3000000000, 100, ⟨P⟩)]
      = 1000000000 * P := by decide

/-- Rate changes, the other direction: while the pool cap never binds (`uncappedR`), the total paid over a
    history with a piecewise-constant rate falls short of carried-in error + Σ_b rate_b·(t_b − t_{b−1}) by
    less than 1 + n·10^-18 units (n blocks; the per-block `QuoInt64` truncation is stated, not hidden). -/
theorem C19_staking_rate_changes_shortfall (t0 : Int) (e0 : Dec) (bs : List (Int × Int × Dec))
    (he : 0 ≤ e0.m ∧ e0.m < P) (hs : okBlocksR t0 bs) (hu : uncappedR t0 e0 bs = true) :
    rateTime t0 bs + NS * e0.m - NS * (sumL (runBlocksR t0 e0 bs).1 * P) < NS * (P + (bs.length : Int)) := by
  obtain ⟨-, a2, -⟩ := runBlocksR_spec bs t0 e0 he.1 he.2 hs
  have a4 := runBlocksR_lower bs t0 e0 he.1 he.2 hs hu
  simp only [NS_val, P_val] at *; omega

/-- The governance params-update message (`MsgUpdateParams`, x/community msg server): it fails on a wrong
    authority and on invalid params; when it succeeds it stores the new params and is the identity on
    everything the schedule depends on — accumulation time, carried truncation error, pool, fee collector —
    and on the inflation parameters of the other modules. -/
theorem C19_params_update_keeps_accrual (authOk : Bool) (new : CommParams) (s : CommSt) :
    (authOk = false → updateParamsMsg authOk new s = .err) ∧
    (new.valid = false → updateParamsMsg authOk new s = .err) ∧
    (authOk = true → new.valid = true →
      updateParamsMsg authOk new s = .ok { params := new, infl := s.infl, stk := s.stk }) := by
  refine ⟨?_, ?_, ?_⟩
  · intro h; simp [updateParamsMsg, h]
  · intro h; cases authOk <;> simp [updateParamsMsg, h]
  · intro h1 h2; simp [updateParamsMsg, h1, h2]

/-- Rate changes by params-update messages interleaved with blocks (a message executes after the begin
    blocker of its block): for ANY history of blocks `(time, pool seen)` and updates, from any stored rate,
    the payouts are those of the block list in which every block carries the rate stored when its begin
    blocker ran (`blocksOf`) — an update never touches the accumulation time or the carried error — so
    `C19_staking_rate_changes` holds across updates: the error stays in [0,1),
    paid + carried-out error ≤ carried-in error + Σ_b rate_b·(t_b − t_{b−1}), and while the cap never binds
    the shortfall is < 1 + n·10^-18 units.  Nothing accrued before an update is dropped and nothing is
    paid at the new rate for time before the block in which the update was stored. -/
theorem C19_staking_rate_changes_messages (rate : Dec) (t0 : Int) (e0 : Dec) (hs : List HStep)
    (he : 0 ≤ e0.m ∧ e0.m < P) (hok : okBlocksR t0 (blocksOf rate hs)) :
    (0 ≤ (runHist rate t0 e0 hs).2.2.1.m ∧ (runHist rate t0 e0 hs).2.2.1.m < P) ∧
    NS * (sumL (runHist rate t0 e0 hs).1 * P + (runHist rate t0 e0 hs).2.2.1.m)
      ≤ rateTime t0 (blocksOf rate hs) + NS * e0.m ∧
    (uncappedR t0 e0 (blocksOf rate hs) = true →
      rateTime t0 (blocksOf rate hs) + NS * e0.m - NS * (sumL (runHist rate t0 e0 hs).1 * P)
        < NS * (P + ((blocksOf rate hs).length : Int))) := by
  obtain ⟨h1, -, h3⟩ := runHist_blocks hs rate t0 e0
  rw [h1, h3]
  obtain ⟨a1, a2, -⟩ := C19_staking_rate_changes t0 e0 (blocksOf rate hs) he hok
  exact ⟨a1, a2, C19_staking_rate_changes_shortfall t0 e0 (blocksOf rate hs) he hok⟩

/-- non-vacuity: 1 unit/s for 1.5 s (pays 1, carries 0.5), then a message sets 3 units/s, next block 1.5 s
    later: pays 0.5 + 4.5 = 5 — the carried half unit and the whole second interval are paid, at the new
    rate only from the update's block on; uncapped; the update leaves a concrete state's accrual alone -/
example : (runHist ⟨P⟩ 0 Dec.zero [.block 1500000000 100, .update ⟨3 * P⟩, .block 3000000000 100]).1 = [1, 5] ∧
    blocksOf ⟨P⟩ [.block 1500000000 100, .update ⟨3 * P⟩, .block 3000000000 100]
      = [(1500000000, 100, ⟨P⟩), (3000000000, 100, ⟨3 * P⟩)] ∧
    uncappedR 0 Dec.zero [(1500000000, 100, ⟨P⟩), (3000000000, 100, ⟨3 * P⟩)] = true ∧
    okBlocksR 0 [(1500000000, 100, ⟨P⟩), (3000000000, 100, ⟨3 * P⟩)] :=
  ⟨by decide, by decide, by decide, ⟨by decide, by decide, by decide, by decide, by decide, by decide, trivial⟩⟩

/-- The keeper step `PayoutAccumulatedStakingRewards` on an initialised state never panics: it pays
    exactly what `calculateStakingRewards` returns, that amount is within `[0, pool]`, it moves from the
    community pool to the fee collector and nothing is created. -/
theorem C19_staking_payout (rate : Dec) (now last : Int) (s : StakingSt)
    (hl : s.last = some last) (hd : last ≤ now) (hr : 0 ≤ rate.m) (he : 0 ≤ s.err.m ∧ s.err.m < P)
    (hp : 0 ≤ s.pool) :
    ∃ s' paid, payout rate now s = .ok (s', paid) ∧
      paid = (calculateStakingRewards now last s.err rate (Dec.ofInt s.pool)).1 ∧
      s'.err = (calculateStakingRewards now last s.err rate (Dec.ofInt s.pool)).2 ∧
      0 ≤ paid ∧ paid ≤ s.pool ∧ s'.pool = s.pool - paid ∧ s'.fee = s.fee + paid ∧
      s'.last = some now ∧ 0 ≤ s'.err.m ∧ s'.err.m < P :=
  payout_ok rate now last s hl hd hr he hp

/-- the first call on an un-initialised state only records the time -/
theorem C19_staking_payout_init (rate : Dec) (now : Int) (s : StakingSt) (hl : s.last = none) :
    payout rate now s = .ok ({ s with last := some now }, 0) :=
  payout_init rate now s hl

example : (payout ⟨1500000000000000000⟩ 3000000000
    { last := some 1000000000, err := ⟨900000000000000000⟩, pool := 10, fee := 0 }) =
    .ok ({ last := some 3000000000, err := ⟨900000000000000000⟩, pool := 7, fee := 3 }, 3) := by decide

/-! ## (b) the switch-over -/

/-- Generated facts: x/community's begin blocker precedes x/mint's and x/kavadist's in app/app.go;
    inside it the switch-over runs before the payout; kavadist's begin blocker calls
    `MintPeriodInflation`. -/
theorem C19_begin_blocker_order :
    order3 = ["community", "mint", "kavadist"] ∧
    KV.Gen.c19CommunityBeginBlockerCalls =
      ["CheckAndDisableMintAndKavaDistInflation", "PayoutAccumulatedStakingRewards"] ∧
    KV.Gen.c19KavadistBeginBlockerCalls = ["MintPeriodInflation"] := by decide

/-- "Once the inflation-disable time has passed, mint and kavadist inflation are switched off exactly once
    and stay off."  Over any sequence of block times:
    * while every block time is before the upgrade time nothing fires and nothing changes;
    * the switch-over fires in the FIRST block whose time is ≥ the upgrade time, and in no other block —
      before or after — of the sequence; afterwards the trigger is zero, mint `InflationMin/Max` are 0,
      kavadist is inactive, the community tax is 0 and the staking rate is the upgrade rate;
    * with a zero trigger it never fires, whatever the block times, and leaves every parameter alone
      (so the values above stay until somebody else changes them). -/
theorem C19_disable_once (p : CommParams) (x : Infl) :
    (∀ u, p.upgradeTime = some u → ∀ ts : List Int, (∀ t ∈ ts, t < u) →
        runDisable p x ts = (List.replicate ts.length false, p, x)) ∧
    (∀ u, p.upgradeTime = some u → ∀ (pre : List Int) (t : Int) (post : List Int),
        (∀ s ∈ pre, s < u) → u ≤ t →
        runDisable p x (pre ++ t :: post) =
          (List.replicate pre.length false ++ true :: List.replicate post.length false,
            { upgradeTime := none, rate := p.upgradeRate, upgradeRate := p.upgradeRate },
            { mintMin := Dec.zero, mintMax := Dec.zero, kavadistActive := false,
              communityTax := Dec.zero })) ∧
    (p.upgradeTime = none → ∀ ts : List Int, runDisable p x ts = (List.replicate ts.length false, p, x)) := by
  refine ⟨?_, ?_, ?_⟩
  · intro u hu ts h
    exact runDisable_quiet p x ts (fun u' hu' t ht => by rw [hu] at hu'; cases hu'; exact h t ht)
  · intro u hu pre t post h1 h2
    exact runDisable_once p x u hu pre t post h1 h2
  · intro hn ts
    exact runDisable_quiet p x ts (fun u' hu' => by rw [hn] at hu'; cases hu')

example : runDisable { upgradeTime := some 100, rate := Dec.zero, upgradeRate := ⟨7⟩ }
    { mintMin := ⟨1⟩, mintMax := ⟨2⟩, kavadistActive := true, communityTax := ⟨3⟩ } [5, 99, 100, 100, 7, 3000] =
    ([false, false, true, false, false, false],
      { upgradeTime := none, rate := ⟨7⟩, upgradeRate := ⟨7⟩ },
      { mintMin := Dec.zero, mintMax := Dec.zero, kavadistActive := false, communityTax := Dec.zero }) := by
  decide

/-- Because x/community runs before x/kavadist (generated order), kavadist already mints nothing in the
    very block in which the switch-over fires, and keeps minting nothing in every later block while the
    trigger is zero and kavadist inactive; its `previousBlockTime` is not advanced either, and the
    supply only changes by what x/mint itself provisions (`mintProv`). -/
theorem C19_disable_same_block (v : Variant) (zp : Bool) (pow : Int → Int → Int) (now inflow mintProv : Int)
    (c c' : Chain) (h : chainBeginBlock v zp pow now inflow mintProv c = .ok c') :
    (∀ u, c.comm.params.upgradeTime = some u → u ≤ now →
      c'.fired = true ∧ c'.kdMints = [] ∧ c'.kdMinted = 0 ∧ c'.kd = c.kd ∧ c'.supply = c.supply + mintProv ∧
      c'.comm.params.upgradeTime = none ∧
      c'.comm.infl.mintMin = Dec.zero ∧ c'.comm.infl.mintMax = Dec.zero ∧
      c'.comm.infl.kavadistActive = false) ∧
    (c.comm.params.upgradeTime = none → c.comm.infl.kavadistActive = false →
      c'.fired = false ∧ c'.kdMints = [] ∧ c'.kdMinted = 0 ∧ c'.kd = c.kd ∧ c'.supply = c.supply + mintProv ∧
      c'.comm.params = c.comm.params ∧ c'.comm.infl = c.comm.infl) := by
  rw [chain_eq] at h
  split at h
  · rename_i s f p hcb
    obtain ⟨e1, e2, e3⟩ := community_infl now inflow c.comm s f p hcb
    constructor
    · intro u hu hge
      rw [disable_fires now c.comm.params c.comm.infl u hu hge] at e1 e2 e3
      simp only [] at e1 e2 e3
      rw [kavadist_inactive _ _ _ _ _ (by simp only [e3])] at h
      injection h with h
      subst h
      simp only [e1, e2, e3, and_self]
    · intro hn ha
      rw [disable_none now c.comm.params c.comm.infl hn] at e1 e2 e3
      simp only [] at e1 e2 e3
      rw [kavadist_inactive _ _ _ _ _ (by simp only [e3, ha])] at h
      injection h with h
      subst h
      simp only [e1, e2, e3, and_self]
  · cases h
  · cases h

/-- non-vacuity: a block on the disable time with an active kavadist period -/
example : (chainBeginBlock .current true relPow18 2000000000 0 0
    { comm := { params := { upgradeTime := some 2000000000, rate := Dec.zero, upgradeRate := ⟨P⟩ },
                infl := { mintMin := ⟨1⟩, mintMax := ⟨2⟩, kavadistActive := true, communityTax := ⟨3⟩ },
                stk := { last := some 1000000000, err := Dec.zero, pool := 10, fee := 0 } },
      kd := { prev := some 1000000000, periods := [⟨0, 9000000000, ⟨P + 1⟩⟩], infra := [] },
      supply := 1000 }).isOk = true := by
  decide

/-  FULL STATEMENT — FALSE ON THE CURRENT CODE (findings/C19-infra-zero-mint-panic.md):

    theorem C19_begin_block_no_panic : ∃ c', chainBeginBlock v true pow now inflow mintProv c = .ok c'
      (for non-negative rates, pool and inflow, a carried error in [0,1), block time not before the last
       accumulation time)

    The schedule can only be followed if the begin blockers that implement it run.  An infrastructure
    period whose mint call yields zero coins (two blocks inside the same Unix second, an inflation of
    exactly 1.0, a tiny supply) makes `mintInfrastructurePeriods` dereference the nil amount of the empty
    `sdk.Coin{}` returned by `mintInflationaryCoins`: x/kavadist's BeginBlocker panics. -/

/-- the negation: a valid configuration (one ongoing infrastructure period with inflation 1.0, a 6 s
    block) on which the begin blocker of the current code (`zp = true`) panics -/
theorem C19_begin_block_no_panic_counterexample :
    ¬ (∀ (now : Int) (c : Chain), 0 ≤ c.comm.params.rate.m → 0 ≤ c.comm.params.upgradeRate.m →
        (∀ l, c.comm.stk.last = some l → l ≤ now) → (0 ≤ c.comm.stk.err.m ∧ c.comm.stk.err.m < P) →
        0 ≤ c.comm.stk.pool → validPeriods 0 c.kd.infra →
        ∃ c', chainBeginBlock .current true relPow18 now 0 0 c = .ok c') := by
  intro h
  obtain ⟨c', hc⟩ := h 1700000006000000000
    { comm := { params := { upgradeTime := none, rate := Dec.zero, upgradeRate := Dec.zero },
                infl := { mintMin := Dec.zero, mintMax := Dec.zero, kavadistActive := true, communityTax := Dec.zero },
                stk := { last := some 1700000000000000000, err := Dec.zero, pool := 0, fee := 0 } },
      kd := { prev := some 1700000000000000000, periods := [],
              infra := [⟨1600000000000000000, 1800000000000000000, ⟨P⟩⟩] },
      supply := 100000000000000 }
    (by decide) (by decide) (by decide) (by decide) (by decide) ⟨by decide, by decide, trivial⟩
  have hp : chainBeginBlock .current true relPow18 1700000006000000000 0 0
    { comm := { params := { upgradeTime := none, rate := Dec.zero, upgradeRate := Dec.zero },
                infl := { mintMin := Dec.zero, mintMax := Dec.zero, kavadistActive := true, communityTax := Dec.zero },
                stk := { last := some 1700000000000000000, err := Dec.zero, pool := 0, fee := 0 } },
      kd := { prev := some 1700000000000000000, periods := [],
              infra := [⟨1600000000000000000, 1800000000000000000, ⟨P⟩⟩] },
      supply := 100000000000000 } = .panic := by decide
  rw [hp] at hc
  cases hc

/-- the strongest simple true statement on the current code: with non-negative rates, pool and inflow, a
    carried error in [0,1), a block time not before the last accumulation time and NO infrastructure
    periods configured, the begin blockers of community, mint and kavadist never panic (in particular
    `PayoutAccumulatedStakingRewards` never hits its `panic(err)`: the payout is within the pool). -/
theorem C19_begin_block_no_panic_partial (v : Variant) (zp : Bool) (pow : Int → Int → Int)
    (now inflow mintProv : Int)
    (c : Chain) (hr : 0 ≤ c.comm.params.rate.m) (hur : 0 ≤ c.comm.params.upgradeRate.m)
    (hl : ∀ l, c.comm.stk.last = some l → l ≤ now) (he : 0 ≤ c.comm.stk.err.m ∧ c.comm.stk.err.m < P)
    (hp : 0 ≤ c.comm.stk.pool) (hin : 0 ≤ inflow) (hinfra : c.kd.infra = []) :
    ∃ c', chainBeginBlock v zp pow now inflow mintProv c = .ok c' := by
  rw [chain_eq]
  obtain ⟨r, hr'⟩ := community_ok now inflow c.comm hr hur hl he hp hin
  rw [hr']
  obtain ⟨s, f, p⟩ := r
  exact kavadist_no_infra v zp pow now _ hinfra

example : (chainBeginBlock .current true relPow18 1700000006000000000 5 7
    { comm := { params := { upgradeTime := none, rate := ⟨P⟩, upgradeRate := Dec.zero },
                infl := { mintMin := Dec.zero, mintMax := Dec.zero, kavadistActive := true, communityTax := Dec.zero },
                stk := { last := some 1700000000000000000, err := Dec.zero, pool := 100, fee := 0 } },
      kd := { prev := some 1700000000000000000, periods := [⟨1600000000000000000, 1800000000000000000, ⟨P⟩⟩],
              infra := [] },
      supply := 100000000000000 }).isOk = true := by decide

/-! ## (c) kavadist period windows -/

/-- both period functions make the same `mintInflationaryCoins` calls, so the window theorems below
    cover `mintIncentivePeriods` and `mintInfrastructurePeriods` alike -/
theorem C19_kavadist_infra_same (v : Variant) (now : Int) (ps : List Period) (prev : Int) (i : Nat) (te : Int) :
    (mintInfrastructurePeriods v now ps prev i te).1 = mintIncentivePeriods v now ps prev i :=
  infra_mints_eq v now ps prev i te

/-  FULL STATEMENT — FALSE ON THE CURRENT CODE (F9):

    theorem C19_kavadist_window (now : Int) (ps : List Period) (prev : Int)
        (hpn : prev ≤ now) (hv : validPeriods 0 ps) :
        ∀ m ∈ mintIncentivePeriods .current now ps prev 0, m.windowOK prev now

    "Kavadist mints for a period only for time inside that period: never for time before its start or
     after its end": every `mintInflationaryCoins` call is for an interval inside
     `[start, end] ∩ [prev, now]` and `timeElapsed` is that interval's length in Unix seconds.
    Case 2 of the switch ("period has ended since the previous block time") measures from
    `previousBlockTime` even when the period started later. -/

/-- The negation, with the witness of the property text: a one-hour period lying between two blocks ten
    days apart is minted for five days and one hour (435 600 s instead of 3 600 s). -/
theorem C19_kavadist_window_counterexample :
    ¬ (∀ (now : Int) (ps : List Period) (prev : Int), prev ≤ now → validPeriods 0 ps →
        ∀ m ∈ mintIncentivePeriods .current now ps prev 0, m.windowOK prev now) := by
  intro h
  have := h 1700864000000000000 [⟨1700432000000000000, 1700435600000000000, ⟨1000000003022265980⟩⟩]
    1700000000000000000 (by decide) ⟨by decide, by decide, trivial⟩
    ⟨0, ⟨1700432000000000000, 1700435600000000000, ⟨1000000003022265980⟩⟩,
      1700000000000000000, 1700435600000000000, 435600⟩ (by decide)
  revert this
  decide

/-- The strongest true statement on the current code.  For every mint call of a block:
    the interval lies in `[prev, now]`, ends no later than the period's end, is well-formed, and
    `timeElapsed` is its length (all unconditionally); and it is inside the period — the full window
    predicate — whenever the period had started by the previous block time (`start ≤ prev`).
    NOT covered (and false, see the counterexample): periods with `prev < start` that end by `now`. -/
theorem C19_kavadist_window_partial (now : Int) (ps : List Period) (prev : Int) (hpn : prev ≤ now) :
    ∀ m ∈ mintIncentivePeriods .current now ps prev 0,
      (prev ≤ m.lo ∧ m.hi ≤ now ∧ m.hi ≤ m.period.end_ ∧ m.lo ≤ m.hi ∧ m.secs = unix m.hi - unix m.lo ∧
        0 ≤ m.secs) ∧
      (m.period.start ≤ prev → m.windowOK prev now) := by
  intro m hm
  obtain ⟨a1, a2, a3, -, a5, -, a7, -⟩ := mints_bounds .current now ps prev 0 hpn m hm
  have hlh := a7 (Or.inl rfl)
  have hu := unix_mono _ _ hlh
  refine ⟨⟨a1, a2, a3, hlh, a5, by omega⟩, ?_⟩
  intro hst
  exact ⟨by omega, a3, a1, a2, hlh, a5⟩

/-- non-vacuity of the partial statement: an ongoing period and a period ending inside the block -/
example : mintIncentivePeriods .current 10000000000 [⟨0, 4500000000, ⟨P⟩⟩, ⟨4500000000, 99000000000, ⟨P⟩⟩]
    1000000000 0 =
    [⟨0, ⟨0, 4500000000, ⟨P⟩⟩, 1000000000, 4500000000, 3⟩,
     ⟨1, ⟨4500000000, 99000000000, ⟨P⟩⟩, 4500000000, 10000000000, 6⟩] := by decide

/-- "never twice for the same time" (both the current and the repaired code).  Over any history of blocks
    `(time, kavadist active?)` with non-decreasing times, starting from a stored previous block time:
    * two different mint calls for the same period are for disjoint intervals — the earlier one ends
      before the later one starts;
    * hence the seconds minted for any one period, summed over the whole history, never exceed the
      seconds that elapsed between the stored previous block time and the last block.
    (For the repaired code the second part needs `start ≤ end` for every period, which
    `validatePeriodsParams` enforces.) -/
theorem C19_kavadist_never_twice (v : Variant) (ps : List Period) (prev : Int) (bs : List (Int × Bool))
    (hs : sortedTimes prev bs) :
    (kdHistory v ps prev bs).Pairwise (fun a b => a.idx = b.idx → a.hi ≤ b.lo) ∧
    ((v = .current ∨ ∀ p ∈ ps, p.start ≤ p.end_) → ∀ k,
      0 ≤ secsFor k (kdHistory v ps prev bs) ∧
      secsFor k (kdHistory v ps prev bs) ≤ unix (lastTimeT prev bs) - unix prev) :=
  ⟨kdHistory_pairwise v ps bs prev hs, fun hv k => kdHistory_secs v ps hv k bs prev hs⟩

example : sortedTimes 0 [(3000000000, true), (3000000000, false), (7500000000, true)] ∧
    (kdHistory .current [⟨0, 99000000000, ⟨P⟩⟩] 0 [(3000000000, true), (3000000000, false), (7500000000, true)]).length = 2 ∧
    secsFor 0 (kdHistory .current [⟨0, 99000000000, ⟨P⟩⟩] 0
      [(3000000000, true), (3000000000, false), (7500000000, true)]) = 7 :=
  ⟨⟨by decide, by decide, by decide, trivial⟩, by decide, by decide⟩

/-- an inactive kavadist (what the switch-over leaves behind) mints nothing and changes nothing -/
theorem C19_kavadist_inactive (v : Variant) (now : Int) (s : KdSt) :
    mintPeriodInflation v false now s = (s, [], [], 0) := by
  simp [mintPeriodInflation]

/-- Bounding the seconds bounds the coins: with `RelativePow` monotone in its exponent at the period's rate
    (assumption, monitored by the harness on the real function for rates ≥ 1) the amount `mintInflationaryCoins` mints is monotone
    in `timeElapsed`, and non-negative when `RelativePow ≥ 10^18`. -/
theorem C19_kavadist_amount_monotone (pow : Int → Int → Int) (supply : Int) (hs : 0 ≤ supply) (rate : Dec)
    (hpow : ∀ n n', n ≤ n' → pow (inflationInt rate) n ≤ pow (inflationInt rate) n')
    (secs secs' : Int) (h : secs ≤ secs') :
    mintAmount pow supply rate secs ≤ mintAmount pow supply rate secs' ∧
    (P ≤ pow (inflationInt rate) secs → 0 ≤ mintAmount pow supply rate secs) :=
  ⟨mintAmount_mono pow supply hs rate hpow secs secs' h, mintAmount_nonneg pow supply hs rate secs⟩

/-- non-vacuity: the transcription of `RelativePow` at a realistic per-second rate -/
example : mintAmount relPow18 1000000000000 ⟨1000000003022265980⟩ 3600 = 10880216 ∧
    mintAmount relPow18 1000000000000 ⟨1000000003022265980⟩ 435600 = 1317366024 := by decide

/-! ### The repaired code (findings/C19-kavadist-window.diff): full statement -/

namespace Fixed

/-- FULL STATEMENT, proved for the repaired code (`Variant.fixed`: Case 2 measures from
    `max(previousBlockTime, period.Start)`): every mint call of a block is for an interval inside
    `[start, end] ∩ [prev, now]` and `timeElapsed` is that interval's length.  `start ≤ end` is what
    `validatePeriodsParams` / `validateInfraParams` enforce. -/
theorem C19_kavadist_window (now : Int) (ps : List Period) (prev : Int) (hpn : prev ≤ now)
    (hv : ∀ p ∈ ps, p.start ≤ p.end_) :
    ∀ m ∈ mintIncentivePeriods .fixed now ps prev 0, m.windowOK prev now := by
  intro m hm
  obtain ⟨a1, a2, a3, -, a5, a6, a7, a8⟩ := mints_bounds .fixed now ps prev 0 hpn m hm
  exact ⟨a8 rfl, a3, a1, a2, a7 (Or.inr (hv _ a6)), a5⟩

/-- on the witness of the counterexample the repaired code mints for exactly the period's hour -/
example : mintIncentivePeriods .fixed 1700864000000000000
    [⟨1700432000000000000, 1700435600000000000, ⟨1000000003022265980⟩⟩] 1700000000000000000 0 =
    [⟨0, ⟨1700432000000000000, 1700435600000000000, ⟨1000000003022265980⟩⟩,
      1700432000000000000, 1700435600000000000, 3600⟩] := by decide

/-- FULL STATEMENT, proved for the code repaired by findings/C19-infra-zero-mint-panic.diff
    (`zp = false`: a zero mint returns a proper zero coin): the begin blockers of community, mint and
    kavadist never panic, whatever periods are configured. -/
theorem C19_begin_block_no_panic (v : Variant) (pow : Int → Int → Int) (now inflow mintProv : Int)
    (c : Chain) (hr : 0 ≤ c.comm.params.rate.m) (hur : 0 ≤ c.comm.params.upgradeRate.m)
    (hl : ∀ l, c.comm.stk.last = some l → l ≤ now) (he : 0 ≤ c.comm.stk.err.m ∧ c.comm.stk.err.m < P)
    (hp : 0 ≤ c.comm.stk.pool) (hin : 0 ≤ inflow) :
    ∃ c', chainBeginBlock v false pow now inflow mintProv c = .ok c' := by
  rw [chain_eq]
  obtain ⟨r, hr'⟩ := community_ok now inflow c.comm hr hur hl he hp hin
  rw [hr']
  obtain ⟨s, f, p⟩ := r
  exact kavadist_no_zp v pow now _

/-- the repair changes nothing for periods that had started by the previous block time -/
theorem C19_kavadist_fix_conservative (p : Period) (prev : Int) (h : p.start ≤ prev) :
    windowStart .fixed p prev = windowStart .current p prev := by
  simp only [windowStart]; split <;> omega

end Fixed

/-- Status of the full window statement for the variant the driver ties to /repo (`live`): either the
    live model is the current code and the full statement is false for it, or it is the repaired code
    and the full statement holds.  Switching `live` in Model/Emissions.lean re-proves this line. -/
theorem C19_kavadist_window_live :
    (live = .current ∧
      ¬ (∀ (now : Int) (ps : List Period) (prev : Int), prev ≤ now → validPeriods 0 ps →
          ∀ m ∈ mintIncentivePeriods live now ps prev 0, m.windowOK prev now)) ∨
    (live = .fixed ∧
      ∀ (now : Int) (ps : List Period) (prev : Int), prev ≤ now → (∀ p ∈ ps, p.start ≤ p.end_) →
        ∀ m ∈ mintIncentivePeriods live now ps prev 0, m.windowOK prev now) := by
  first
    | exact Or.inl ⟨rfl, C19_kavadist_window_counterexample⟩
    | exact Or.inr ⟨rfl, Fixed.C19_kavadist_window⟩

/-- the same for the begin-block panic and its switch `liveZeroMintPanics` -/
theorem C19_begin_block_no_panic_live :
    (liveZeroMintPanics = true ∧
      ¬ (∀ (now : Int) (c : Chain), 0 ≤ c.comm.params.rate.m → 0 ≤ c.comm.params.upgradeRate.m →
        (∀ l, c.comm.stk.last = some l → l ≤ now) → (0 ≤ c.comm.stk.err.m ∧ c.comm.stk.err.m < P) →
        0 ≤ c.comm.stk.pool → validPeriods 0 c.kd.infra →
        ∃ c', chainBeginBlock .current liveZeroMintPanics relPow18 now 0 0 c = .ok c')) ∨
    (liveZeroMintPanics = false ∧
      ∀ (v : Variant) (pow : Int → Int → Int) (now inflow mintProv : Int) (c : Chain),
        0 ≤ c.comm.params.rate.m → 0 ≤ c.comm.params.upgradeRate.m →
        (∀ l, c.comm.stk.last = some l → l ≤ now) → (0 ≤ c.comm.stk.err.m ∧ c.comm.stk.err.m < P) →
        0 ≤ c.comm.stk.pool → 0 ≤ inflow →
        ∃ c', chainBeginBlock v liveZeroMintPanics pow now inflow mintProv c = .ok c') := by
  first
    | exact Or.inl ⟨rfl, C19_begin_block_no_panic_counterexample⟩
    | exact Or.inr ⟨rfl, Fixed.C19_begin_block_no_panic⟩

/-! ## source tie (regenerated)

    `GoFn.Community.*` (Generated/FnCommunity.lean) is regenerated from the Go source of the listed pure
    functions on every run by the function translator (tools/extract/fn*.go); these theorems say that the
    regenerated definition IS the hand-written model function the theorems above are about.  A source edit
    of the function re-opens exactly these obligations. -/

/-- `calculateStakingRewards` of x/community/keeper/staking.go, as translated from the current source,
    equals the model's `calculateStakingRewards` for all arguments whose two times are within ±2^63 ns of
    each other (the model's documented `time.Time.Sub` assumption), and never panics or errors there. -/
theorem C19_source_tie_calculateStakingRewards (now last : Int) (err rate pool : Dec)
    (h1 : Go.minDur ≤ now - last) (h2 : now - last ≤ Go.maxDur) :
    GoFn.Community.calculateStakingRewards_translated = true ∧
    GoFn.Community.calculateStakingRewards now last err rate pool
      = Go.R.ok (calculateStakingRewards now last err rate pool) :=
  TieFn.community_calculateStakingRewards now last err rate pool h1 h2

end KV.Em
