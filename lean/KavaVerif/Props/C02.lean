/-
  C02 — Blocks always process and registered invariants hold at every height.

  "For every state reachable through accepted transactions, begin-block and end-block processing completes
   without aborting, so user activity cannot halt the chain. After every block every registered invariant
   (Kava's module invariants and the bank, staking and distribution invariants they feed) holds, so nodes
   that assert invariants periodically never halt and an invariant-verification transaction never finds one
   broken."

  Two obligation tables regenerated from the source on every run (tools/extract/c02.go):
    * every `panic(` reachable from a begin/end blocker (Generated/C02PanicSites.lean) must be a reviewed site:
      codec round trip, configuration excluded by validation, unreachable under the owning module's proved
      invariant (C03/C04/C06/C09/C19 carry those theorems), a documented finding, or "monitored only";
    * every invariant route registered with the crisis keeper (Generated/C02Wiring.lean) must be covered by the
      inductive-invariant theorems of its owning property (C03, C07, C10, C11).
  The full statement is FALSE on the current code at one reviewed site (F11 kavadist partner rewards, a
  configuration); the F10 site (issuance seizure of locked coins) sits in a blocker that is never called;
  F2 (cdp debt split) and F12 (kavadist nil amount on a zero mint) have been fixed in /repo and are now
  theorems. For F2, F11 and F12 the arithmetic is transcribed and the theorem / counterexample proved here; the witnesses are replayed on the real app by harness/cmd/c02.
  PARTIAL: SDK invariants (bank, staking, distribution), the SDK's own begin/end blockers, gas, and the
  modules' full transition systems are not modelled here; they are explored by the history runner, which
  asserts every registered invariant after every EndBlock and treats any begin/end-block panic as a violation.

  Only property statements live here; helper lemmas are in KavaVerif/Proofs/BlockSafety.lean.
-/
import KavaVerif.Proofs.BlockSafety
set_option linter.unusedSimpArgs false
set_option linter.unusedVariables false

namespace KV.Safe
open KV KV.Gen.C02

/-! ## obligation tables -/

/-- "errors in block hooks are fatal by construction, so they must be unreachable": every panic reachable
    (call depth ≤ 2) from a Kava begin/end blocker has been reviewed. A new `panic(` or a new escalated call
    changes the generated table and this stops checking. -/
theorem C02_all_panic_sites_reviewed : ∀ s ∈ panicSites, reviewed s = true := by decide +kernel

/-- non-vacuity: the translator found the blockers and the sites -/
theorem C02_sites_nonempty :
    40 ≤ panicSites.length ∧ callDepth = 2 ∧
    ∀ b ∈ ["auction.BeginBlocker", "bep3.BeginBlocker", "cdp.BeginBlocker", "committee.BeginBlocker",
           "community.BeginBlocker", "hard.BeginBlocker", "incentive.BeginBlocker",
           "kavadist.BeginBlocker", "pricefeed.EndBlocker"], b ∈ wiredBlockers := by decide +kernel

/-- exactly one reviewed site is NOT discharged: it fires on a reachable configuration (finding F11).
    The prose property is false at these sites; see the counterexamples below and findings/C02-*.md. -/
theorem C02_undischarged_sites_are_the_known_findings :
    findingSites = [("x/kavadist", "k.MintPeriodInflation")] := by decide +kernel

/-- DESIGN F10 settled: the issuance begin blocker (seizure of blocked addresses, which would panic on
    vesting-locked coins) is defined but never called — `AppModule.BeginBlock` of x/issuance is empty. It is
    the only such blocker; if it is ever wired, its panic sites lose their `deadCode` review and
    `C02_all_panic_sites_reviewed` fails. -/
theorem C02_unwired_blockers : unwiredBlockers = ["issuance.BeginBlocker"] := by decide

/-- "module accounting predicates registered with the crisis keeper": the module manager hands the routes to
    the crisis keeper, and every registered Kava route is covered by its owning property's invariant theorems -/
theorem C02_all_routes_covered :
    crisisRegistration = true ∧ ∀ r ∈ invariantRoutes, routeCovered r = true := by decide +kernel

/-- the only routes defined but not registered are auction's three (reported in evidence; C06 proves them) -/
theorem C02_unregistered_routes_known : ∀ r ∈ unregisteredRoutes, (r.1, r.2.1) ∈ knownUnregistered := by decide

/-- fixed block-hook order the modules rely on: committee enacts parameter changes before any Kava module
    runs, auctions close before cdp nets debt and starts new ones, kavadist mints before incentive accrues,
    and prices are set in the end blocker after gov -/
theorem C02_blocker_order :
    before beginBlockerOrder "committeetypes.ModuleName" "cdptypes.ModuleName" = true ∧
    before beginBlockerOrder "auctiontypes.ModuleName" "cdptypes.ModuleName" = true ∧
    before beginBlockerOrder "kavadisttypes.ModuleName" "incentivetypes.ModuleName" = true ∧
    before beginBlockerOrder "cdptypes.ModuleName" "incentivetypes.ModuleName" = true ∧
    before endBlockerOrder "govtypes.ModuleName" "pricefeedtypes.ModuleName" = true ∧
    before initGenesisOrder "pricefeedtypes.ModuleName" "cdptypes.ModuleName" = true ∧
    before initGenesisOrder "cdptypes.ModuleName" "incentivetypes.ModuleName" = true ∧
    before initGenesisOrder "banktypes.ModuleName" "precisebanktypes.ModuleName" = true := by decide +kernel

/-! ## F2 (fixed by bfd342e03) — cdp liquidation: the per-deposit debt split -/

/-- The debt shares handed to the per-deposit collateral auctions add up to exactly the debt the liquidator
    received in `SeizeCollateral` — for every deposit set and every debt — so the auctions can always be
    funded and `LiquidateCdps` cannot fail for lack of debt coins. -/
theorem C02_cdp_debt_split_exact (deps : List Int) (debt : Int) (h : deps ≠ []) :
    sumInts (debtShares deps debt) = debt := by
  unfold debtShares
  exact splitCapped_sum _ _ _ _ h

/-- non-vacuity on the former witness: two equal deposits, debt 10000003 -/
example : debtShares [3000000, 3000000] 10000003 = [5000002, 5000001] := by decide +kernel

/-- with a single deposit the share is the debt -/
theorem C02_cdp_debt_split_single (d debt : Int) : debtShares [d] debt = [debt] := by
  unfold debtShares splitCapped; rfl

/-- what the fix repaired (finding F2, reproduced on the unfixed tree as a begin-block panic "spendable
    balance 5000001debt is smaller than 5000002debt"): independently rounded shares can exceed the debt -/
theorem C02_cdp_debt_split_before_fix_witness :
    debtSharesBeforeFix [3000000, 3000000] 10000003 = [5000002, 5000002] ∧
    sumInts (debtSharesBeforeFix [3000000, 3000000] 10000003) > 10000003 := by decide +kernel

/-! ## F12 (fixed) and F11 — kavadist infrastructure periods -/

/-- F12, after the fix in /repo ("return a well-formed zero coin"): accumulating the coin returned by
    `mintInflationaryCoins` never panics, whatever the amount (zero when two blocks share a second) -/
theorem C02_kavadist_mint_step_never_panics (minted amount : Int) :
    infraStep minted amount = .ok (minted + amount) := by
  unfold infraStep mintResult infraAccumulate
  by_cases h : amount = 0
  · subst h; simp
  · have h' : (amount == 0) = false := by simpa using h
    simp only [h', Bool.false_eq_true, ite_false]

example : infraStep 10 0 = .ok 10 := by decide

/-- F11, FULL STATEMENT (false): "paying the partners never panics",
      `∀ minted elapsed partners, 0 ≤ elapsed → (∀ r ∈ partners, 0 ≤ r) → payPartners minted elapsed partners ≠ .panic`.
    Counterexample: 100 coins minted in 6 s, one partner at 50 per second. Params validation does not relate
    partner rewards to the infrastructure inflation, so this is a reachable configuration. -/
theorem C02_kavadist_partner_rewards_counterexample :
    ¬ (∀ (minted elapsed : Int) (partners : List Int), 0 ≤ elapsed → (∀ r ∈ partners, 0 ≤ r) →
        payPartners minted elapsed partners ≠ .panic) := by
  intro h
  exact h 100 6 [50] (by decide) (by decide) (by decide)

/-- F11 PARTIAL: when the minted amount covers all partner rewards for the elapsed time, the partner loop
    succeeds and hands the rest to the core-reward loop -/
theorem C02_kavadist_partner_rewards_partial (elapsed : Int) (partners : List Int) (minted : Int)
    (h : sumInts (partners.map (· * elapsed)) ≤ minted) (hn : ∀ r ∈ partners, 0 ≤ r * elapsed) :
    payPartners minted elapsed partners = .ok (minted - sumInts (partners.map (· * elapsed))) := by
  induction partners generalizing minted with
  | nil => simp [payPartners, sumInts]
  | cons r rest ih =>
    have hs : sumInts ((r :: rest).map (· * elapsed)) = r * elapsed + sumInts (rest.map (· * elapsed)) :=
      sumInts_cons _ _
    have hrest : 0 ≤ sumInts (rest.map (· * elapsed)) :=
      sumInts_nonneg _ (by
        intro x hx
        simp only [List.mem_map] at hx
        obtain ⟨q, hq, rfl⟩ := hx
        exact hn q (by simp [hq]))
    rw [hs] at h ⊢
    unfold payPartners
    have h1 : ¬ minted < r * elapsed := by omega
    simp only [h1, ite_false]
    rw [ih (minted - r * elapsed) (by omega) (fun q hq => hn q (by simp [hq]))]
    congr 1; omega

example : payPartners 1000 6 [50, 20] = .ok 580 := by decide

end KV.Safe
