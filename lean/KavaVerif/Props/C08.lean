/-
  C08 — Hard: LTV gate, liquidation only of unsafe positions, monotone interest.

  "After any successful borrow or withdrawal the account's borrowed value is within the loan-to-value limit of
   its deposits at current prices, and a position within that limit cannot be liquidated by anyone. A
   liquidation removes only the liquidated borrower's deposit and borrow, pays the keeper at most the
   configured reward share, and auctions or returns the rest (except the part the market cannot pay out for
   lack of cash in that denomination, which stays in the pool); it never moves more than the borrower's
   deposit out of the module and never changes another user's position. With no action by the user a
   deposit's claimable amount and a borrow's owed amount never decrease as interest accrues, and withdrawals
   and repayments never exceed the synced deposit and debt."

  Model: KavaVerif/Model/Hard.lean (borrow.go, withdraw.go, deposit.go, repay.go, liquidation.go, interest.go
  transcribed; the per-second interest factor is a parameter).  Only property statements live here; helper
  lemmas are in KavaVerif/Proofs/Hard*.lean.
-/
import KavaVerif.Proofs.HardHistory
import KavaVerif.Generated.Consts
set_option linter.unusedSimpArgs false
set_option linter.unusedVariables false

namespace KV.Hard
open KV

/-- interest.go `scalingFactor` (regenerated from the source) is the Dec precision the model uses -/
theorem C08_scaling_factor : KV.Gen.hardScalingFactor = P := by decide

/-! ## 1. the loan-to-value gate -/

/-- "After any successful … withdrawal the account's borrowed value is within the loan-to-value limit of its
    deposits at current prices": `Withdraw` accepts only if `IsWithinValidLtvRange` — the routine liquidation
    uses — holds for exactly the deposit and borrow it then stores. -/
theorem C08_withdraw_within_ltv (cfg : Cfg) (s s' : St) (u : User) (coins : Coins)
    (h : withdraw cfg s u coins = .ok s') : isWithinLtv cfg (s'.dep u) (s'.bor u) = .ok true :=
  withdraw_ok_within cfg s s' u coins h

example : (withdraw W.cfg W.st 0 W.one0).isOk = true := by decide

/-- "a position within that limit cannot be liquidated by anyone": if the position as
    `AttemptKeeperLiquidation` syncs it is within range, the attempt fails for every keeper. -/
theorem C08_within_ltv_not_liquidatable (cfg : Cfg) (s s1 s2 : St) (borrower : User)
    (h1 : syncBorrow cfg s borrower = .ok s1) (h2 : syncSupply cfg s1 borrower = .ok s2)
    (hw : isWithinLtv cfg (s2.dep borrower) (s2.bor borrower) = .ok true) :
    ∀ keeper, (liquidate cfg s keeper borrower).isOk = false := by
  intro keeper
  cases hl : liquidate cfg s keeper borrower with
  | ok s' =>
    obtain ⟨t1, t2, e1, e2, ew⟩ := liquidate_ok_outside cfg s s' keeper borrower hl
    rw [h1] at e1; cases e1
    rw [h2] at e2; cases e2
    rw [hw] at ew; cases ew
  | err e => rfl
  | panic => rfl

/-- conversely, every successful liquidation was of a position outside the range -/
theorem C08_liquidated_was_outside (cfg : Cfg) (s s' : St) (keeper borrower : User)
    (h : liquidate cfg s keeper borrower = .ok s') :
    ∃ s1 s2, syncBorrow cfg s borrower = .ok s1 ∧ syncSupply cfg s1 borrower = .ok s2 ∧
      isWithinLtv cfg (s2.dep borrower) (s2.bor borrower) = .ok false :=
  liquidate_ok_outside cfg s s' keeper borrower h

example : syncedWithin W.cfg W.st 0 = true := by decide

/-
  FALSE on the current code (finding F5, findings/C08-borrow-ltv-rounding.md):

  theorem C08_borrow_within_ltv (cfg) (cash reserves totB dep bor new : Coins)
      (h : validateBorrow cfg cash reserves totB dep bor new = .ok ()) :
      isWithinLtv cfg dep (addC bor new) = .ok true

  `ValidateBorrow` adds Σ value(new coins) and Σ value(existing borrow); liquidation values the merged
  borrow.  Each per-denom value is rounded half-even, so value(e) + value(n) and value(e + n) can differ by an ulp.
-/

/-- witness: conversion factor 10^6, price 1.000000000000000001, borrowing power exactly 1.0, an existing
    borrow of 500000 and a new borrow of 500000: accepted by `ValidateBorrow`, outside the range for
    `IsWithinValidLtvRange`. -/
theorem C08_borrow_within_ltv_counterexample :
    ¬ (∀ (cfg : Cfg) (cash reserves totB dep bor new : Coins),
        validateBorrow cfg cash reserves totB dep bor new = .ok () →
        isWithinLtv cfg dep (addC bor new) = .ok true) := by
  intro H
  have h1 : validateBorrow W.cfg W.big zeroC zeroC W.dep W.half W.half = .ok () := by decide
  have h2 := H _ _ _ _ _ _ _ h1
  have h3 : isWithinLtv W.cfg W.dep (addC W.half W.half) = .ok false := by decide
  rw [h3] at h2; cases h2

/-- the same on the keeper: the second `Borrow` of 500000 is accepted and the position it stores is
    outside the range (an immediate `AttemptKeeperLiquidation` succeeds). -/
theorem C08_borrow_within_ltv_keeper_counterexample :
    ¬ (∀ (cfg : Cfg) (s s' : St) (u : User) (coins : Coins), borrow cfg s u coins = .ok s' →
        isWithinLtv cfg (s'.dep u) (s'.bor u) = .ok true) := by
  intro H
  have hb : borrowKeepsWithin W.cfg W.st 0 W.half = false := by decide
  unfold borrowKeepsWithin at hb
  split at hb
  · rename_i s' hs
    rw [H _ _ _ _ _ hs] at hb
    simp at hb
  · cases hb

/-- … and that stored position is liquidated in the same block -/
theorem C08_borrow_then_liquidated_counterexample :
    (match borrow W.cfg W.st 0 W.half with
     | .ok s' => (liquidate W.cfg s' 1 0).isOk
     | _ => false) = true := by decide

/-- PARTIAL (what is true). (a) If no denom is both in the existing borrow and in the new coins the two
    routines agree and an accepted borrow is within range for liquidation. -/
theorem C08_borrow_within_ltv_partial (cfg : Cfg) (cash reserves totB dep bor new : Coins)
    (hb : ∀ d, 0 ≤ bor d) (hn : ∀ d, 0 ≤ new d) (hdis : ∀ d, bor d = 0 ∨ new d = 0)
    (h : validateBorrow cfg cash reserves totB dep bor new = .ok ()) :
    isWithinLtv cfg dep (addC bor new) = .ok true := by
  obtain ⟨hpd, hpb, hpn, hle, -, -⟩ := validateBorrow_ok _ _ _ _ _ _ _ h
  apply isWithinLtv_ok_true _ _ _ (pricesOk_add cfg bor new hb hn hpb hpn) hpd
  rw [valueOf_add_disjoint cfg bor new hb hn hdis]; omega

example : validateBorrow W.cfg W.big zeroC zeroC W.dep zeroC W.half = .ok () := by decide

/-- (b) In general, for conversion factors dividing 10^18 (every power of ten up to 10^18), the merged borrow
    exceeds the borrowing power by at most one ulp (10^-18 USD) per denom that is both existing and new. -/
theorem C08_borrow_within_ltv_partial_ulp (cfg : Cfg) (hx : ExactCf cfg) (cash reserves totB dep bor new : Coins)
    (hb : ∀ d, 0 ≤ bor d) (hn : ∀ d, 0 ≤ new d)
    (h : validateBorrow cfg cash reserves totB dep bor new = .ok ()) :
    valueOf cfg (addC bor new) - borrowable cfg dep ≤
      ((cfg.ds.filter (fun d => decide (0 < bor d) && decide (0 < new d))).length : Int) := by
  obtain ⟨-, -, -, hle, -, -⟩ := validateBorrow_ok _ _ _ _ _ _ _ h
  have := valueOf_add_le cfg hx bor new hb hn
  omega

example : ExactCf W.cfg := by
  intro d hd
  have : d = 0 ∨ d = 1 := by simpa [W.cfg] using hd
  rcases this with rfl | rfl <;> decide

/-- the same two statements for the keeper's `Borrow` (which syncs the position first): the stored position is
    within range when the user had no borrow in the borrowed denoms, and in general exceeds the borrowing power by
    at most one ulp per merged denom. -/
theorem C08_borrow_within_ltv_keeper_partial (cfg : Cfg) (s s' : St) (u : User) (coins : Coins)
    (hb : ∀ d ∈ cfg.ds, 0 ≤ s.bor u d) (hc : ∀ d ∈ cfg.ds, 0 ≤ coins d)
    (h : borrow cfg s u coins = .ok s') :
    ((∀ d ∈ cfg.ds, s.bor u d = 0 ∨ coins d = 0) → isWithinLtv cfg (s'.dep u) (s'.bor u) = .ok true) ∧
    (ExactCf cfg → valueOf cfg (s'.bor u) - borrowable cfg (s'.dep u) ≤ ((supp cfg.ds coins).length : Int)) := by
  obtain ⟨s2, hv, ed, eb, hge, hz⟩ := borrow_ok_spec cfg s s' u coins h
  obtain ⟨hpd, hpb, hpn, hle, -, -⟩ := validateBorrow_ok _ _ _ _ _ _ _ hv
  have hb2 : ∀ d ∈ cfg.ds, 0 ≤ s2.bor u d := fun d hd => by have := hge d hd; have := hb d hd; omega
  rw [ed, eb]
  constructor
  · intro hdis
    have hdis2 : ∀ d ∈ cfg.ds, s2.bor u d = 0 ∨ coins d = 0 := by
      intro d hd
      rcases hdis d hd with e | e
      · exact Or.inl (hz d hd e)
      · exact Or.inr e
    apply isWithinLtv_ok_true _ _ _ (pricesOk_add' cfg _ _ hb2 hc hpb hpn) hpd
    rw [valueOf_add_disjoint' cfg _ _ hdis2]; omega
  · intro hx
    have h1 := valueOf_add_le' cfg hx (s2.bor u) coins hb2 hc
    have h2 : ((cfg.ds.filter (fun d => decide (0 < s2.bor u d) && decide (0 < coins d))).length : Int) ≤
        ((supp cfg.ds coins).length : Int) := by
      unfold supp
      have : (cfg.ds.filter (fun d => decide (0 < s2.bor u d) && decide (0 < coins d))).length ≤
          (cfg.ds.filter (fun d => decide (0 < coins d))).length := by
        apply List.Sublist.length_le
        apply List.monotone_filter_right
        intro d hd
        simp only [Bool.and_eq_true] at hd
        exact hd.2
      omega
    omega

example : (borrow W.cfg W.st 0 W.half).isOk = true := by decide

/-- consequence of `C08_withdraw_within_ltv` for the same block: the position `Withdraw` just stored cannot be
    liquidated by anyone at the same prices and indexes (re-syncing at the factors it was just synced at adds
    nothing; factors between 0 and 10^18). -/
theorem C08_withdraw_then_not_liquidatable (cfg : Cfg) (s s' : St) (u : User) (coins : Coins)
    (hB : ∀ d ∈ cfg.ds, ∀ v, s.brwIdx d = some v → 0 ≤ v ∧ v ≤ P * P)
    (hS : ∀ d ∈ cfg.ds, ∀ v, s.supIdx d = some v → 0 ≤ v)
    (h : withdraw cfg s u coins = .ok s') : ∀ keeper, (liquidate cfg s' keeper u).isOk = false :=
  withdraw_then_not_liquidatable cfg s s' u coins hB hS h

/-! ## 2. interest: indexes, synced amounts, caps

  The per-second factor `phi` (`APYToSPY` → `CalculateBorrowInterestFactor`: ApproxRoot, RelativePow) is a
  parameter; `P ≤ phi.m` (factor ≥ 1) is asserted by the harness on every value the real routines return.
  A missing factor reads as 1.0 (`getD P`: what `AccrueInterest` initialises it to). -/

/-- "a borrow's owed amount never decrease[s] as interest accrues" — the borrow index of every denom is
    non-decreasing across `AccrueInterest`. -/
theorem C08_borrow_index_monotone (cfg : Cfg) (s s' : St) (d : Denom) (now : Int) (phi : Dec) (apyPos : Bool)
    (hphi : P ≤ phi.m) (h0 : ∀ v, s.brwIdx d = some v → 0 ≤ v)
    (h : accrue cfg s d now phi apyPos = .ok s') :
    ∀ e, (s.brwIdx e).getD P ≤ (s'.brwIdx e).getD P := by
  obtain ⟨hoth, hd, -⟩ := accrue_brwIdx cfg s s' d now phi apyPos hphi h0 h
  intro e
  by_cases he : e = d
  · subst he; exact hd
  · rw [hoth e he]

example : (accrue W.cfg W.st 1 31536000 ⟨P + P / 10⟩ true).isOk = true := by decide

/-
  FALSE on the current code (finding F4, findings/C08-supply-index.md):

  theorem C08_supply_index_monotone (cfg s s' d now phi apyPos) (hphi : P ≤ phi.m)
      (h0 : ∀ v, s.supIdx d = some v → 0 ≤ v) (h : accrue cfg s d now phi apyPos = .ok s') :
      (s.supIdx d).getD P ≤ (s'.supIdx d).getD P

  `CalculateSupplyInterestFactor` returns 1 + interest / (cash + borrows − reserves); the denominator is
  negative once reserves exceed cash + borrows, and the factor is below one.
-/

/-- witness: cash 0, borrowed 10, reserves 100, factor 2.0 → supply interest 10 over a "total supply" of −90:
    the supply index goes from 1.0 to 0.888… -/
theorem C08_supply_index_monotone_counterexample :
    ¬ (∀ (cfg : Cfg) (s s' : St) (d : Denom) (now : Int) (phi : Dec) (apyPos : Bool), P ≤ phi.m →
        (∀ v, s.supIdx d = some v → 0 ≤ v) → accrue cfg s d now phi apyPos = .ok s' →
        (s.supIdx d).getD P ≤ (s'.supIdx d).getD P) := by
  intro H
  have hk : supplyIdxKept W.cfg W.stF4 0 1 ⟨2 * P⟩ true = false := by decide
  unfold supplyIdxKept at hk
  split at hk
  · rename_i s' hs
    have := H W.cfg W.stF4 s' 0 1 ⟨2 * P⟩ true (by decide) (by intro v hv; cases hv; decide) hs
    simp [this] at hk
  · cases hk

/-- PARTIAL: while reserves ≤ cash + borrows for the denom, the supply index does not decrease
    (`phi ≥ 1` is not even needed: a successful accrual has non-negative supply interest). -/
theorem C08_supply_index_monotone_partial (cfg : Cfg) (s s' : St) (d : Denom) (now : Int) (phi : Dec) (apyPos : Bool)
    (h0 : ∀ v, s.supIdx d = some v → 0 ≤ v) (hres : s.reserves d ≤ s.cash d + s.borrowed d)
    (h : accrue cfg s d now phi apyPos = .ok s') :
    ∀ e, (s.supIdx e).getD P ≤ (s'.supIdx e).getD P := by
  obtain ⟨hoth, hd, -⟩ := accrue_supIdx cfg s s' d now phi apyPos h0 hres h
  intro e
  by_cases he : e = d
  · subst he; exact hd
  · rw [hoth e he]

example : W.st.reserves 1 ≤ W.st.cash 1 + W.st.borrowed 1 := by decide

/-
  FALSE on the current code (findings/C08-accrue-div-zero.md): "AccrueInterest never panics"
  (begin blocker → chain halt).  `CalculateUtilizationRatio` guards `totalSupply < 0` but divides by
  `cash + borrows − reserves` when it is exactly zero.
-/
theorem C08_accrue_no_panic_counterexample :
    ¬ (∀ (cfg : Cfg) (s : St) (d : Denom) (now : Int) (phi : Dec) (apyPos : Bool), P ≤ phi.m →
        0 ≤ s.borrowed d → 0 ≤ (cfg.mkt d).reserveFactor.m → (cfg.mkt d).reserveFactor.m ≤ P →
        accrue cfg s d now phi apyPos ≠ .panic) := by
  intro H
  have hp : isPanic (accrue W.cfg W.stDiv0 0 1 ⟨P⟩ false) = true := by decide
  have := H W.cfg W.stDiv0 0 1 ⟨P⟩ false (by decide) (by decide) (by decide) (by decide)
  cases hacc : accrue W.cfg W.stDiv0 0 1 ⟨P⟩ false with
  | panic => exact this hacc
  | ok _ => rw [hacc] at hp; cases hp
  | err _ => rw [hacc] at hp; cases hp

/-- PARTIAL: with factor ≥ 1 and reserve factor in [0,1] the only panic of `AccrueInterest` is that division:
    it cannot panic when cash + borrows ≠ reserves. -/
theorem C08_accrue_no_panic_partial (cfg : Cfg) (s : St) (d : Denom) (now : Int) (phi : Dec) (apyPos : Bool)
    (hphi : P ≤ phi.m) (hb : 0 ≤ s.borrowed d) (hrf0 : 0 ≤ (cfg.mkt d).reserveFactor.m)
    (hrf1 : (cfg.mkt d).reserveFactor.m ≤ P) (htot : s.cash d + s.borrowed d - s.reserves d ≠ 0) :
    accrue cfg s d now phi apyPos ≠ .panic :=
  accrue_no_panic cfg s d now phi apyPos hphi hb hrf0 hrf1 htot

/-- "With no action by the user a deposit's claimable amount and a borrow's owed amount never decrease":
    for a stored amount `a ≥ 0` synced at a positive user factor, every sync formula of the keeper
    (`SyncBorrowInterest`, `SyncSupplyInterest`, `GetSyncedBorrow`/`GetSyncedDeposit`) is monotone in the
    global factor, and a query that succeeded keeps succeeding. -/
theorem C08_synced_monotone (a : Int) (ui : Option Int) (g g' : Int) (ha : 0 ≤ a)
    (hui : ∀ v, ui = some v → 0 < v) (hg : 0 ≤ g) (h : g ≤ g') :
    syncBorAmt a ui g ≤ syncBorAmt a ui g' ∧ syncSupAmt a ui g ≤ syncSupAmt a ui g' ∧
    (∀ x y, loadSyncedAmt a ui (some g) = .ok x → loadSyncedAmt a ui (some g') = .ok y → x ≤ y) ∧
    (∀ x, loadSyncedAmt a ui (some g) = .ok x → ∃ y, loadSyncedAmt a ui (some g') = .ok y) :=
  ⟨syncBorAmt_mono a ui g g' ha hui h, syncSupAmt_mono a ui g g' ha hui hg h,
   fun x y hx hy => loadSyncedAmt_mono a ui g g' ha hui h x y hx hy,
   fun x hx => loadSyncedAmt_ok_mono a ui g g' ha hui h x hx⟩

/-- … hence across an accrual (no user action: the records are untouched) every user's synced borrow of every
    denom is non-decreasing. -/
theorem C08_synced_borrow_monotone_accrue (cfg : Cfg) (s s' : St) (d : Denom) (now : Int) (phi : Dec) (apyPos : Bool)
    (hphi : P ≤ phi.m) (h0 : ∀ v, s.brwIdx d = some v → 0 ≤ v)
    (hrec : ∀ u e, 0 ≤ s.bor u e ∧ ∀ v, s.borIdx u e = some v → 0 < v)
    (h : accrue cfg s d now phi apyPos = .ok s') :
    ∀ u e, syncBorAmt (s.bor u e) (s.borIdx u e) ((s.brwIdx e).getD 0) ≤
           syncBorAmt (s'.bor u e) (s'.borIdx u e) ((s'.brwIdx e).getD 0) := by
  obtain ⟨-, -, hb, hbi, -, -, -⟩ := accrue_frame cfg s s' d now phi apyPos h
  obtain ⟨hoth, -, hd⟩ := accrue_brwIdx cfg s s' d now phi apyPos hphi h0 h
  intro u e
  rw [hb, hbi]
  apply syncBorAmt_mono _ _ _ _ (hrec u e).1 (hrec u e).2
  by_cases he : e = d
  · subst he; exact hd
  · rw [hoth e he]

/-- … and, while reserves ≤ cash + borrows, every user's synced deposit (as `SyncSupplyInterest` computes it). -/
theorem C08_synced_deposit_monotone_accrue_partial (cfg : Cfg) (s s' : St) (d : Denom) (now : Int) (phi : Dec)
    (apyPos : Bool) (h0 : ∀ e v, s.supIdx e = some v → 0 ≤ v)
    (hres : s.reserves d ≤ s.cash d + s.borrowed d)
    (hrec : ∀ u e, 0 ≤ s.dep u e ∧ ∀ v, s.depIdx u e = some v → 0 < v)
    (h : accrue cfg s d now phi apyPos = .ok s') :
    ∀ u e, syncSupAmt (s.dep u e) (s.depIdx u e) ((s.supIdx e).getD 0) ≤
           syncSupAmt (s'.dep u e) (s'.depIdx u e) ((s'.supIdx e).getD 0) := by
  obtain ⟨hdp, hdi, -, -, -, -, -⟩ := accrue_frame cfg s s' d now phi apyPos h
  obtain ⟨hoth, -, hd⟩ := accrue_supIdx cfg s s' d now phi apyPos (h0 d) hres h
  intro u e
  rw [hdp, hdi]
  have hg0 : 0 ≤ (s.supIdx e).getD 0 := by
    cases hv : s.supIdx e with
    | none => simp
    | some v => simpa using h0 e v hv
  apply syncSupAmt_mono _ _ _ _ (hrec u e).1 (hrec u e).2 hg0
  by_cases he : e = d
  · subst he; exact hd
  · rw [hoth e he]

example : ∀ v, W.st.borIdx 0 1 = some v → 0 < v := by intro v hv; cases hv; decide

/-- "withdrawals … never exceed the synced deposit": a successful `Withdraw` pays, per denom, an amount between 0
    and both the request and the deposit as just synced, and exactly that leaves the module account. -/
theorem C08_caps_withdraw (cfg : Cfg) (s s' : St) (u : User) (coins : Coins)
    (hdep : ∀ d, 0 ≤ s.dep u d) (hc : ∀ d, 0 ≤ coins d)
    (h : withdraw cfg s u coins = .ok s') :
    ∃ s1 s2, syncBorrow cfg s u = .ok s1 ∧ syncSupply cfg s1 u = .ok s2 ∧
      ∀ d, s'.bal u d - s.bal u d ≤ s2.dep u d ∧ s'.bal u d - s.bal u d ≤ coins d ∧
           s.cash d - s'.cash d = s'.bal u d - s.bal u d ∧ 0 ≤ s'.dep u d := by
  obtain ⟨s1, s2, h1, h2, hall⟩ := withdraw_caps cfg s s' u coins h
  refine ⟨s1, s2, h1, h2, ?_⟩
  intro d
  obtain ⟨e1, e2, e3⟩ := hall d
  obtain ⟨hd1, -, -, -, -, -⟩ := syncBorrow_spec cfg s s1 u h1
  obtain ⟨-, -, -, -, hge, -⟩ := syncSupply_spec cfg s1 s2 u h2
  have hnn : 0 ≤ s2.dep u d := by have := hge d; rw [hd1] at this; have := hdep d; omega
  have c1 := capAmount_le_avail (s2.dep u) coins d hnn
  have c2 := capAmount_le_req (s2.dep u) coins d (hc d)
  omega

/-- "repayments never exceed the synced … debt": a successful `Repay` (by the owner or a third party) takes
    from the sender, per denom, at most the request and at most the borrow as just synced. -/
theorem C08_caps_repay (cfg : Cfg) (s s' : St) (sender owner : User) (coins : Coins)
    (hbor : ∀ d, d ∈ cfg.ds → 0 ≤ s.bor owner d) (hc : ∀ d, 0 ≤ coins d)
    (h : repay cfg s sender owner coins = .ok s') :
    ∃ s1, syncBorrow cfg s owner = .ok s1 ∧
      ∀ d, d ∈ cfg.ds → s.bal sender d - s'.bal sender d ≤ s1.bor owner d ∧
           s.bal sender d - s'.bal sender d ≤ coins d ∧
           s'.cash d - s.cash d = s.bal sender d - s'.bal sender d ∧ 0 ≤ s'.bor owner d := by
  obtain ⟨s1, h1, hall⟩ := repay_caps cfg s s' sender owner coins h
  refine ⟨s1, h1, ?_⟩
  intro d hd
  obtain ⟨e1, e2, e3⟩ := hall d
  obtain ⟨-, -, -, -, hge, -⟩ := syncBorrow_spec cfg s s1 owner h1
  have hnn : 0 ≤ s1.bor owner d := by have := hge d hd; have := hbor d hd; omega
  have c1 := capAmount_le_avail (s1.bor owner) coins d hnn
  have c2 := capAmount_le_req (s1.bor owner) coins d (hc d)
  omega

example : (repay W.cfg W.st 1 0 W.half).isOk = true := by decide

/-- over histories: along *any* interleaving of deposit / withdraw / borrow / repay (owner or third party) /
    liquidation / accrual — each step with its own parameters and prices, failed messages rolled back — in which
    every accrual's factor is ≥ 1, the borrow index of every denom never decreases. -/
theorem C08_borrow_index_monotone_history (s : St) (h : List (Cfg × Op)) (hops : ∀ x ∈ h, OpOk x.2)
    (hn : ∀ d v, s.brwIdx d = some v → 0 ≤ v) :
    ∀ d, (s.brwIdx d).getD P ≤ ((run s h).brwIdx d).getD P :=
  run_brw h s hops hn

/-- PARTIAL over histories: the supply index never decreases along a history in which every accrual runs on a
    denom with reserves ≤ cash + borrows (`SolventRun`); the only operation that can lower it is an accrual in the
    insolvent state of `C08_supply_index_monotone_counterexample`. -/
theorem C08_supply_index_monotone_history_partial (s : St) (h : List (Cfg × Op)) (hsol : SolventRun s h)
    (hn : ∀ d v, s.supIdx d = some v → 0 ≤ v) :
    ∀ d, (s.supIdx d).getD P ≤ ((run s h).supIdx d).getD P :=
  run_sup h s hsol hn

example : SolventRun W.st [(W.cfg, .borrow 0 W.half), (W.cfg, .accrue 1 31536000 ⟨P + P / 10⟩ true),
    (W.cfg, .liquidate 1 0)] := by
  refine ⟨trivial, ?_, trivial, trivial⟩
  show (applyOp W.st (W.cfg, .borrow 0 W.half)).reserves 1 ≤
    (applyOp W.st (W.cfg, .borrow 0 W.half)).cash 1 + (applyOp W.st (W.cfg, .borrow 0 W.half)).borrowed 1
  decide

/-- "never changes another user's position" for the user operations: a successful `Deposit`, `Withdraw`, `Borrow`
    by `u`, and a successful `Repay` of `owner`'s loan (by anyone), leave the deposit and borrow records of every other
    user exactly as they were. -/
theorem C08_frame (cfg : Cfg) (s s' : St) (u sender : User) (coins : Coins) :
    (deposit cfg s u coins = .ok s' → ∀ v, v ≠ u → SameRecords s s' v) ∧
    (withdraw cfg s u coins = .ok s' → ∀ v, v ≠ u → SameRecords s s' v) ∧
    (borrow cfg s u coins = .ok s' → ∀ v, v ≠ u → SameRecords s s' v) ∧
    (repay cfg s sender u coins = .ok s' → ∀ v, v ≠ u → SameRecords s s' v) :=
  ⟨deposit_frame cfg s s' u coins, withdraw_frame cfg s s' u coins, borrow_frame cfg s s' u coins,
   repay_frame cfg s s' sender u coins⟩

/-! ## 3. the liquidation frame -/

/-- "A liquidation removes only the liquidated borrower's deposit and borrow, pays the keeper at most the
    configured reward share, and auctions or returns the rest (except the part the market cannot pay out for
    lack of cash in that denomination, which stays in the pool); it never moves more than the borrower's
    deposit out of the module and never changes another user's position."

    For a successful `AttemptKeeperLiquidation(keeper, borrower)`, with `D` the borrower's deposit as the
    liquidation synced it (`s2.dep borrower`), `reward`/`returned` what the keeper / the borrower received and
    `lots` the lots of the auctions it started:
    * the borrower's deposit and borrow records are deleted, every other user's records and every interest
      index are unchanged;
    * `reward d = ⌊pct_d · D d⌋`, so `reward d · 10^18 ≤ pct_d · D d` (at most the configured share);
    * `reward d + lots d + returned d ≤ D d` per denom (the difference is what stays in the pool), and exactly
      `reward d + lots d + returned d` leaves the module account: never more than the deposit;
    * only the keeper's and the borrower's balances change. -/
theorem C08_liquidation_frame (cfg : Cfg) (hn : cfg.ds.Nodup)
    (hkr : ∀ d, 0 ≤ (cfg.mkt d).keeperReward.m ∧ (cfg.mkt d).keeperReward.m ≤ P)
    (s s' : St) (keeper borrower : User) (hdep : ∀ d, 0 ≤ s.dep borrower d)
    (h : liquidate cfg s keeper borrower = .ok s') :
    ∃ (s1 s2 : St) (reward returned : Coins),
      syncBorrow cfg s borrower = .ok s1 ∧ syncSupply cfg s1 borrower = .ok s2 ∧
      (∀ d, s'.dep borrower d = 0 ∧ s'.bor borrower d = 0 ∧ s'.depIdx borrower d = none ∧ s'.borIdx borrower d = none) ∧
      (∀ v, v ≠ borrower → s'.dep v = s.dep v ∧ s'.depIdx v = s.depIdx v ∧ s'.bor v = s.bor v ∧ s'.borIdx v = s.borIdx v) ∧
      (s'.supIdx = s.supIdx ∧ s'.brwIdx = s.brwIdx ∧ s'.reserves = s.reserves) ∧
      (∀ d, reward d = keeperReward cfg (s2.dep borrower) d ∧
            reward d * P ≤ (cfg.mkt d).keeperReward.m * s2.dep borrower d ∧
            0 ≤ reward d ∧ 0 ≤ returned d ∧
            reward d + (lotsOf s'.aucs d - lotsOf s.aucs d) + returned d ≤ s2.dep borrower d ∧
            s.cash d - s'.cash d = reward d + (lotsOf s'.aucs d - lotsOf s.aucs d) + returned d) ∧
      (∀ v, v ≠ keeper → v ≠ borrower → s'.bal v = s.bal v) ∧
      (∀ d, (keeper ≠ borrower → s'.bal keeper d = s.bal keeper d + reward d ∧
                                  s'.bal borrower d = s.bal borrower d + returned d) ∧
            (keeper = borrower → s'.bal keeper d = s.bal keeper d + reward d + returned d)) := by
  obtain ⟨s1, s2, z, h1, h2, -, a1, a2, a3, a4, a5, a6⟩ := liquidate_spec cfg hn hkr s s' keeper borrower hdep h
  refine ⟨s1, s2, z.reward, z.returned, h1, h2, a1, a2, ⟨a3.1, a3.2.1, a3.2.2.1⟩, ?_, a5, a6⟩
  intro d
  obtain ⟨r1, r2, r3, r4, r5⟩ := a4 d
  obtain ⟨d1, -, -, -, -, -⟩ := syncBorrow_spec cfg s s1 borrower h1
  obtain ⟨-, -, -, -, ge2, -⟩ := syncSupply_spec cfg s1 s2 borrower h2
  have hdep2 : 0 ≤ s2.dep borrower d := by have := ge2 d; rw [d1] at this; have := hdep d; omega
  have kb := keeperReward_bounds cfg (s2.dep borrower) d (hkr d).1 (hkr d).2 hdep2
  refine ⟨r1, ?_, r2, r3, r4, r5⟩
  rw [r1]; exact kb.2.2

/-- non-vacuity: after the accepted second borrow of the F5 witness the position is liquidated (one auction) -/
example : (match borrow W.cfg W.st 0 W.half with
     | .ok s' => (match liquidate W.cfg s' 1 0 with | .ok s'' => s''.aucs.length | _ => 0)
     | _ => 0) = 1 := by decide

example : W.cfg.ds.Nodup := by decide

end KV.Hard
