/-
  C08 — Hard: LTV gate, liquidation only of unsafe positions, monotone interest.

  "After any successful borrow or withdrawal the account's borrowed value is within the loan-to-value limit of
   its deposits at current prices, and a position within that limit cannot be liquidated by anyone. A
   liquidation removes only the liquidated borrower's deposit and borrow, pays the keeper at most the
   configured reward share, and auctions or returns the rest (except the part the market cannot pay out for
   lack of cash in that denomination, which stays in the pool); it never moves more than the borrower's
   deposit out of the module and never changes another user's position. With no action by the user a
   deposit's claimable amount and a borrow's owed amount never decrease as interest accrues, and withdrawals
   and repayments never exceed the synced deposit and debt."

  Model: KavaVerif/Model/Hard.lean (borrow.go, withdraw.go, deposit.go, repay.go, liquidation.go, interest.go
  transcribed; the per-second interest factor is a parameter).  Only property statements live here; helper
  lemmas are in KavaVerif/Proofs/Hard*.lean.
-/
import KavaVerif.Proofs.HardListing
import KavaVerif.Generated.Consts
import KavaVerif.Proofs.TieFnHard
set_option linter.unusedSimpArgs false
set_option linter.unusedVariables false

namespace KV.Hard
open KV

/-- interest.go `scalingFactor` (regenerated from the source) is the Dec precision the model uses -/
theorem C08_scaling_factor : KV.Gen.hardScalingFactor = P := by decide

/-! ## 1. the loan-to-value gate -/

/-- "After any successful … withdrawal the account's borrowed value is within the loan-to-value limit of its
    deposits at current prices": `Withdraw` accepts only if `IsWithinValidLtvRange` — the routine liquidation
    uses — holds for exactly the deposit and borrow it then stores. -/
theorem C08_withdraw_within_ltv (cfg : Cfg) (s s' : St) (u : User) (coins : Coins)
    (h : withdraw cfg s u coins = .ok s') : isWithinLtv cfg (s'.dep u) (s'.bor u) = .ok true :=
  withdraw_ok_within cfg s s' u coins h

example : (withdraw W.cfg W.st 0 W.one0).isOk = true := by decide

/-- "a position within that limit cannot be liquidated by anyone": if the position as
    `AttemptKeeperLiquidation` syncs it is within range, the attempt fails for every keeper. -/
theorem C08_within_ltv_not_liquidatable (cfg : Cfg) (s s1 s2 : St) (borrower : User)
    (h1 : syncBorrow cfg s borrower = .ok s1) (h2 : syncSupply cfg s1 borrower = .ok s2)
    (hw : isWithinLtv cfg (s2.dep borrower) (s2.bor borrower) = .ok true) :
    ∀ keeper, (liquidate cfg s keeper borrower).isOk = false := by
  intro keeper
  cases hl : liquidate cfg s keeper borrower with
  | ok s' =>
    obtain ⟨t1, t2, e1, e2, ew⟩ := liquidate_ok_outside cfg s s' keeper borrower hl
    rw [h1] at e1; cases e1
    rw [h2] at e2; cases e2
    rw [hw] at ew; cases ew
  | err e => rfl
  | panic => rfl

/-- conversely, every successful liquidation was of a position outside the range -/
theorem C08_liquidated_was_outside (cfg : Cfg) (s s' : St) (keeper borrower : User)
    (h : liquidate cfg s keeper borrower = .ok s') :
    ∃ s1 s2, syncBorrow cfg s borrower = .ok s1 ∧ syncSupply cfg s1 borrower = .ok s2 ∧
      isWithinLtv cfg (s2.dep borrower) (s2.bor borrower) = .ok false :=
  liquidate_ok_outside cfg s s' keeper borrower h

example : syncedWithin W.cfg W.st 0 = true := by decide

/-- "After any successful borrow … the account's borrowed value is within the loan-to-value limit of its deposits
    at current prices": since fix 68803c96d `ValidateBorrow` — besides comparing Σ value(new) with
    Σ value(deposit)·LTV − Σ value(existing) — requires `IsWithinValidLtvRange` (the routine liquidation uses) on the
    position that will be stored, existing and new coins merged per denom.  (Finding F5, fixed:
    findings/C08-borrow-ltv-rounding.md.) -/
theorem C08_borrow_within_ltv (cfg : Cfg) (cash reserves totB dep bor new : Coins)
    (h : validateBorrow cfg cash reserves totB dep bor new = .ok ()) :
    isWithinLtv cfg dep (addC bor new) = .ok true :=
  (validateBorrow_ok _ _ _ _ _ _ _ h).2.2.2.2.2.2

example : validateBorrow W.cfg W.big zeroC zeroC W.dep W.half W.small = .ok () := by decide

/-- the former F5 witness (cf 10^6, price 1.000000000000000001, borrowing power 1.0, 500000 existing + 500000 new:
    0.5 + 0.5 ≤ 1.0 but the merged borrow is worth 1.000000000000000001) is now refused -/
example : validateBorrow W.cfg W.big zeroC zeroC W.dep W.half W.half = .err .insufficientLtv := by decide

/-- the same for the keeper's `Borrow` (which syncs the position first): the stored position is within the range as
    liquidation computes it. -/
theorem C08_borrow_within_ltv_keeper (cfg : Cfg) (s s' : St) (u : User) (coins : Coins)
    (h : borrow cfg s u coins = .ok s') : isWithinLtv cfg (s'.dep u) (s'.bor u) = .ok true := by
  obtain ⟨s2, hv, ed, eb, -, -⟩ := borrow_ok_spec cfg s s' u coins h
  rw [ed, eb]
  exact (validateBorrow_ok _ _ _ _ _ _ _ hv).2.2.2.2.2.2

example : (borrow W.cfg W.st 0 W.small).isOk = true := by decide
example : borrowKeepsWithin W.cfg W.st 0 W.small = true := by decide
/-- the second `Borrow` of 500000 of the former witness is refused by the keeper -/
example : (borrow W.cfg W.st 0 W.half).isOk = false := by decide

/-- … hence the position `Borrow` just stored cannot be liquidated by anyone in the same block (same prices and
    indexes; re-syncing at the factors just used adds nothing; factors between 0 and 10^18). -/
theorem C08_borrow_then_not_liquidatable (cfg : Cfg) (s s' : St) (u : User) (coins : Coins) (hc : ∀ d, 0 ≤ coins d)
    (hB : ∀ d ∈ cfg.ds, ∀ v, s.brwIdx d = some v → 0 ≤ v ∧ v ≤ P * P)
    (hS : ∀ d ∈ cfg.ds, ∀ v, s.supIdx d = some v → 0 ≤ v)
    (h : borrow cfg s u coins = .ok s') : ∀ keeper, (liquidate cfg s' keeper u).isOk = false :=
  borrow_then_not_liquidatable cfg s s' u coins hc hB hS h

/-- why the extra check was needed: for conversion factors dividing 10^18 the value of a merged borrow exceeds the sum
    of the separately rounded values by at most one ulp (10^-18 USD) per denom present in both — and can exceed it. -/
theorem C08_merged_valuation_within_ulp (cfg : Cfg) (hx : ExactCf cfg) (bor new : Coins)
    (hb : ∀ d, 0 ≤ bor d) (hn : ∀ d, 0 ≤ new d) :
    valueOf cfg (addC bor new) ≤ valueOf cfg bor + valueOf cfg new +
      ((cfg.ds.filter (fun d => decide (0 < bor d) && decide (0 < new d))).length : Int) :=
  valueOf_add_le cfg hx bor new hb hn

example : ExactCf W.cfg := by
  intro d hd
  have : d = 0 ∨ d = 1 := by simpa [W.cfg] using hd
  rcases this with rfl | rfl <;> decide

example : valueOf W.cfg (addC W.half W.half) = valueOf W.cfg W.half + valueOf W.cfg W.half + 1 := by decide

/-- consequence of `C08_withdraw_within_ltv` for the same block: the position `Withdraw` just stored cannot be
    liquidated by anyone at the same prices and indexes (re-syncing at the factors it was just synced at adds
    nothing; factors between 0 and 10^18). -/
theorem C08_withdraw_then_not_liquidatable (cfg : Cfg) (s s' : St) (u : User) (coins : Coins)
    (hB : ∀ d ∈ cfg.ds, ∀ v, s.brwIdx d = some v → 0 ≤ v ∧ v ≤ P * P)
    (hS : ∀ d ∈ cfg.ds, ∀ v, s.supIdx d = some v → 0 ≤ v)
    (h : withdraw cfg s u coins = .ok s') : ∀ keeper, (liquidate cfg s' keeper u).isOk = false :=
  withdraw_then_not_liquidatable cfg s s' u coins hB hS h

/-! ## 2. interest: indexes, synced amounts, caps

  The per-second factor `phi` (`APYToSPY` → `CalculateBorrowInterestFactor`: ApproxRoot, RelativePow) is a
  parameter; `P ≤ phi.m` (factor ≥ 1) is asserted by the harness on every value the real routines return.
  A missing factor reads as 1.0 (`getD P`: what `AccrueInterest` initialises it to). -/

/-- "a borrow's owed amount never decrease[s] as interest accrues" — the borrow index of every denom is
    non-decreasing across `AccrueInterest`. -/
theorem C08_borrow_index_monotone (cfg : Cfg) (s s' : St) (d : Denom) (now : Int) (phi : Dec) (apyPos : Bool)
    (hphi : P ≤ phi.m) (h0 : ∀ v, s.brwIdx d = some v → 0 ≤ v)
    (h : accrue cfg s d now phi apyPos = .ok s') :
    ∀ e, (s.brwIdx e).getD P ≤ (s'.brwIdx e).getD P := by
  obtain ⟨hoth, hd, -⟩ := accrue_brwIdx cfg s s' d now phi apyPos hphi h0 h
  intro e
  by_cases he : e = d
  · subst he; exact hd
  · rw [hoth e he]

example : (accrue W.cfg W.st 1 31536000 ⟨P + P / 10⟩ true).isOk = true := by decide

/-- "a deposit's claimable amount … never decrease[s] as interest accrues" — the supply index of every denom is
    non-decreasing across `AccrueInterest`: since fix 485ea145c `CalculateSupplyInterestFactor` returns 1 when
    cash + borrows − reserves is not positive (it used to return 1 + interest/(negative) < 1).  `phi ≥ 1` is not
    needed: a successful accrual has non-negative supply interest.  (Finding F4, fixed: findings/C08-supply-index.md.) -/
theorem C08_supply_index_monotone (cfg : Cfg) (s s' : St) (d : Denom) (now : Int) (phi : Dec) (apyPos : Bool)
    (h0 : ∀ v, s.supIdx d = some v → 0 ≤ v)
    (h : accrue cfg s d now phi apyPos = .ok s') :
    ∀ e, (s.supIdx e).getD P ≤ (s'.supIdx e).getD P := by
  obtain ⟨hoth, hd, -⟩ := accrue_supIdx cfg s s' d now phi apyPos h0 h
  intro e
  by_cases he : e = d
  · subst he; exact hd
  · rw [hoth e he]

/-- the former F4 witness (cash 0, borrowed 10, reserves 100, factor 2.0: index went 1.0 → 0.888…) keeps the index -/
example : supplyIdxKept W.cfg W.stF4 0 1 ⟨2 * P⟩ true = true := by decide
example : (accrue W.cfg W.stF4 0 1 ⟨2 * P⟩ true).isOk = true := by decide

/-- `AccrueInterest` (begin blocker) never panics when the factor is ≥ 1, the reserve factor is in [0,1] and the
    borrowed total is not negative: since fix 9da123695 `CalculateUtilizationRatio` no longer divides by
    cash + borrows − reserves = 0.  (Finding fixed: findings/C08-accrue-div-zero.md.) -/
theorem C08_accrue_no_panic (cfg : Cfg) (s : St) (d : Denom) (now : Int) (phi : Dec) (apyPos : Bool)
    (hphi : P ≤ phi.m) (hb : 0 ≤ s.borrowed d) (hrf0 : 0 ≤ (cfg.mkt d).reserveFactor.m)
    (hrf1 : (cfg.mkt d).reserveFactor.m ≤ P) :
    accrue cfg s d now phi apyPos ≠ .panic :=
  accrue_no_panic cfg s d now phi apyPos hphi hb hrf0 hrf1

/-- the former witness (cash 0, borrowed 1, reserves 1) accrues without panic -/
example : isPanic (accrue W.cfg W.stDiv0 0 1 ⟨P⟩ false) = false := by decide

/-- "With no action by the user a deposit's claimable amount and a borrow's owed amount never decrease":
    for a stored amount `a ≥ 0` synced at a positive user factor, every sync formula of the keeper
    (`SyncBorrowInterest`, `SyncSupplyInterest`, `GetSyncedBorrow`/`GetSyncedDeposit`) is monotone in the
    global factor, and a query that succeeded keeps succeeding. -/
theorem C08_synced_monotone (a : Int) (ui : Option Int) (g g' : Int) (ha : 0 ≤ a)
    (hui : ∀ v, ui = some v → 0 < v) (hg : 0 ≤ g) (h : g ≤ g') :
    syncBorAmt a ui g ≤ syncBorAmt a ui g' ∧ syncSupAmt a ui g ≤ syncSupAmt a ui g' ∧
    (∀ x y, loadSyncedAmt a ui (some g) = .ok x → loadSyncedAmt a ui (some g') = .ok y → x ≤ y) ∧
    (∀ x, loadSyncedAmt a ui (some g) = .ok x → ∃ y, loadSyncedAmt a ui (some g') = .ok y) :=
  ⟨syncBorAmt_mono a ui g g' ha hui h, syncSupAmt_mono a ui g g' ha hui hg h,
   fun x y hx hy => loadSyncedAmt_mono a ui g g' ha hui h x y hx hy,
   fun x hx => loadSyncedAmt_ok_mono a ui g g' ha hui h x hx⟩

/-- … hence across an accrual (no user action: the records are untouched) every user's synced borrow of every
    denom is non-decreasing. -/
theorem C08_synced_borrow_monotone_accrue (cfg : Cfg) (s s' : St) (d : Denom) (now : Int) (phi : Dec) (apyPos : Bool)
    (hphi : P ≤ phi.m) (h0 : ∀ v, s.brwIdx d = some v → 0 ≤ v)
    (hrec : ∀ u e, 0 ≤ s.bor u e ∧ ∀ v, s.borIdx u e = some v → 0 < v)
    (h : accrue cfg s d now phi apyPos = .ok s') :
    ∀ u e, syncBorAmt (s.bor u e) (s.borIdx u e) ((s.brwIdx e).getD 0) ≤
           syncBorAmt (s'.bor u e) (s'.borIdx u e) ((s'.brwIdx e).getD 0) := by
  obtain ⟨-, -, hb, hbi, -, -, -⟩ := accrue_frame cfg s s' d now phi apyPos h
  obtain ⟨hoth, -, hd⟩ := accrue_brwIdx cfg s s' d now phi apyPos hphi h0 h
  intro u e
  rw [hb, hbi]
  apply syncBorAmt_mono _ _ _ _ (hrec u e).1 (hrec u e).2
  by_cases he : e = d
  · subst he; exact hd
  · rw [hoth e he]

/-- … and every user's synced deposit (as `SyncSupplyInterest` computes it). -/
theorem C08_synced_deposit_monotone_accrue (cfg : Cfg) (s s' : St) (d : Denom) (now : Int) (phi : Dec)
    (apyPos : Bool) (h0 : ∀ e v, s.supIdx e = some v → 0 ≤ v)
    (hrec : ∀ u e, 0 ≤ s.dep u e ∧ ∀ v, s.depIdx u e = some v → 0 < v)
    (h : accrue cfg s d now phi apyPos = .ok s') :
    ∀ u e, syncSupAmt (s.dep u e) (s.depIdx u e) ((s.supIdx e).getD 0) ≤
           syncSupAmt (s'.dep u e) (s'.depIdx u e) ((s'.supIdx e).getD 0) := by
  obtain ⟨hdp, hdi, -, -, -, -, -⟩ := accrue_frame cfg s s' d now phi apyPos h
  obtain ⟨hoth, -, hd⟩ := accrue_supIdx cfg s s' d now phi apyPos (h0 d) h
  intro u e
  rw [hdp, hdi]
  have hg0 : 0 ≤ (s.supIdx e).getD 0 := by
    cases hv : s.supIdx e with
    | none => simp
    | some v => simpa using h0 e v hv
  apply syncSupAmt_mono _ _ _ _ (hrec u e).1 (hrec u e).2 hg0
  by_cases he : e = d
  · subst he; exact hd
  · rw [hoth e he]

example : ∀ v, W.st.borIdx 0 1 = some v → 0 < v := by intro v hv; cases hv; decide

/-- "withdrawals … never exceed the synced deposit": a successful `Withdraw` pays, per denom, an amount between 0
    and both the request and the deposit as just synced, and exactly that leaves the module account. -/
theorem C08_caps_withdraw (cfg : Cfg) (s s' : St) (u : User) (coins : Coins)
    (hdep : ∀ d, 0 ≤ s.dep u d) (hc : ∀ d, 0 ≤ coins d)
    (h : withdraw cfg s u coins = .ok s') :
    ∃ s1 s2, syncBorrow cfg s u = .ok s1 ∧ syncSupply cfg s1 u = .ok s2 ∧
      ∀ d, s'.bal u d - s.bal u d ≤ s2.dep u d ∧ s'.bal u d - s.bal u d ≤ coins d ∧
           s.cash d - s'.cash d = s'.bal u d - s.bal u d ∧ 0 ≤ s'.dep u d := by
  obtain ⟨s1, s2, h1, h2, hall⟩ := withdraw_caps cfg s s' u coins h
  refine ⟨s1, s2, h1, h2, ?_⟩
  intro d
  obtain ⟨e1, e2, e3⟩ := hall d
  obtain ⟨hd1, -, -, -, -, -⟩ := syncBorrow_spec cfg s s1 u h1
  obtain ⟨-, -, -, -, hge, -⟩ := syncSupply_spec cfg s1 s2 u h2
  have hnn : 0 ≤ s2.dep u d := by have := hge d; rw [hd1] at this; have := hdep d; omega
  have c1 := capAmount_le_avail (s2.dep u) coins d hnn
  have c2 := capAmount_le_req (s2.dep u) coins d (hc d)
  omega

/-- "repayments never exceed the synced … debt": a successful `Repay` (by the owner or a third party) takes
    from the sender, per denom, at most the request and at most the borrow as just synced. -/
theorem C08_caps_repay (cfg : Cfg) (s s' : St) (sender owner : User) (coins : Coins)
    (hbor : ∀ d, d ∈ cfg.ds → 0 ≤ s.bor owner d) (hc : ∀ d, 0 ≤ coins d)
    (h : repay cfg s sender owner coins = .ok s') :
    ∃ s1, syncBorrow cfg s owner = .ok s1 ∧
      ∀ d, d ∈ cfg.ds → s.bal sender d - s'.bal sender d ≤ s1.bor owner d ∧
           s.bal sender d - s'.bal sender d ≤ coins d ∧
           s'.cash d - s.cash d = s.bal sender d - s'.bal sender d ∧ 0 ≤ s'.bor owner d := by
  obtain ⟨s1, h1, hall⟩ := repay_caps cfg s s' sender owner coins h
  refine ⟨s1, h1, ?_⟩
  intro d hd
  obtain ⟨e1, e2, e3⟩ := hall d
  obtain ⟨-, -, -, -, hge, -⟩ := syncBorrow_spec cfg s s1 owner h1
  have hnn : 0 ≤ s1.bor owner d := by have := hge d hd; have := hbor d hd; omega
  have c1 := capAmount_le_avail (s1.bor owner) coins d hnn
  have c2 := capAmount_le_req (s1.bor owner) coins d (hc d)
  omega

example : (repay W.cfg W.st 1 0 W.half).isOk = true := by decide

/-- over histories: along *any* interleaving of deposit / withdraw / borrow / repay (owner or third party) /
    liquidation / accrual — each step with its own parameters and prices, failed messages rolled back — in which
    every accrual's factor is ≥ 1, the borrow index of every denom never decreases. -/
theorem C08_borrow_index_monotone_history (s : St) (h : List (Cfg × Op)) (hops : ∀ x ∈ h, OpOk x.2)
    (hn : ∀ d v, s.brwIdx d = some v → 0 ≤ v) :
    ∀ d, (s.brwIdx d).getD P ≤ ((run s h).brwIdx d).getD P :=
  run_brw h s hops hn

/-- … and so does the supply index, unconditionally on the factors. -/
theorem C08_supply_index_monotone_history (s : St) (h : List (Cfg × Op))
    (hn : ∀ d v, s.supIdx d = some v → 0 ≤ v) :
    ∀ d, (s.supIdx d).getD P ≤ ((run s h).supIdx d).getD P :=
  run_sup h s hn

example : ∀ x ∈ [(W.cfg, Op.borrow 0 W.small), (W.cfg, Op.accrue 1 31536000 ⟨P + P / 10⟩ true),
    (W.cfgLow, Op.liquidate 1 0)], OpOk x.2 := by
  intro x hx
  simp only [List.mem_cons, List.not_mem_nil, or_false] at hx
  rcases hx with rfl | rfl | rfl
  · trivial
  · show P ≤ P + P / 10; decide
  · trivial

/-- "never changes another user's position" for the user operations: a successful `Deposit`, `Withdraw`, `Borrow`
    by `u`, and a successful `Repay` of `owner`'s loan (by anyone), leave the deposit and borrow records of every other
    user exactly as they were. -/
theorem C08_frame (cfg : Cfg) (s s' : St) (u sender : User) (coins : Coins) :
    (deposit cfg s u coins = .ok s' → ∀ v, v ≠ u → SameRecords s s' v) ∧
    (withdraw cfg s u coins = .ok s' → ∀ v, v ≠ u → SameRecords s s' v) ∧
    (borrow cfg s u coins = .ok s' → ∀ v, v ≠ u → SameRecords s s' v) ∧
    (repay cfg s sender u coins = .ok s' → ∀ v, v ≠ u → SameRecords s s' v) :=
  ⟨deposit_frame cfg s s' u coins, withdraw_frame cfg s s' u coins, borrow_frame cfg s s' u coins,
   repay_frame cfg s s' sender u coins⟩

/-! ## 3. the liquidation frame -/

/-- "A liquidation removes only the liquidated borrower's deposit and borrow, pays the keeper at most the
    configured reward share, and auctions or returns the rest (except the part the market cannot pay out for
    lack of cash in that denomination, which stays in the pool); it never moves more than the borrower's
    deposit out of the module and never changes another user's position."

    For a successful `AttemptKeeperLiquidation(keeper, borrower)`, with `D` the borrower's deposit as the
    liquidation synced it (`s2.dep borrower`), `reward`/`returned` what the keeper / the borrower received and
    `lots` the lots of the auctions it started:
    * the borrower's deposit and borrow records are deleted, every other user's records and every interest
      index are unchanged;
    * `reward d = ⌊pct_d · D d⌋`, so `reward d · 10^18 ≤ pct_d · D d` (at most the configured share);
    * `reward d + lots d + returned d ≤ D d` per denom (the difference is what stays in the pool), and exactly
      `reward d + lots d + returned d` leaves the module account: never more than the deposit;
    * only the keeper's and the borrower's balances change. -/
theorem C08_liquidation_frame (cfg : Cfg) (hn : cfg.ds.Nodup)
    (hkr : ∀ d, 0 ≤ (cfg.mkt d).keeperReward.m ∧ (cfg.mkt d).keeperReward.m ≤ P)
    (s s' : St) (keeper borrower : User) (hdep : ∀ d, 0 ≤ s.dep borrower d)
    (h : liquidate cfg s keeper borrower = .ok s') :
    ∃ (s1 s2 : St) (reward returned : Coins),
      syncBorrow cfg s borrower = .ok s1 ∧ syncSupply cfg s1 borrower = .ok s2 ∧
      (∀ d, s'.dep borrower d = 0 ∧ s'.bor borrower d = 0 ∧ s'.depIdx borrower d = none ∧ s'.borIdx borrower d = none) ∧
      (∀ v, v ≠ borrower → s'.dep v = s.dep v ∧ s'.depIdx v = s.depIdx v ∧ s'.bor v = s.bor v ∧ s'.borIdx v = s.borIdx v) ∧
      (s'.supIdx = s.supIdx ∧ s'.brwIdx = s.brwIdx ∧ s'.reserves = s.reserves) ∧
      (∀ d, reward d = keeperReward cfg (s2.dep borrower) d ∧
            reward d * P ≤ (cfg.mkt d).keeperReward.m * s2.dep borrower d ∧
            0 ≤ reward d ∧ 0 ≤ returned d ∧
            reward d + (lotsOf s'.aucs d - lotsOf s.aucs d) + returned d ≤ s2.dep borrower d ∧
            s.cash d - s'.cash d = reward d + (lotsOf s'.aucs d - lotsOf s.aucs d) + returned d) ∧
      (∀ v, v ≠ keeper → v ≠ borrower → s'.bal v = s.bal v) ∧
      (∀ d, (keeper ≠ borrower → s'.bal keeper d = s.bal keeper d + reward d ∧
                                  s'.bal borrower d = s.bal borrower d + returned d) ∧
            (keeper = borrower → s'.bal keeper d = s.bal keeper d + reward d + returned d)) := by
  obtain ⟨s1, s2, z, h1, h2, -, a1, a2, a3, a4, a5, a6⟩ := liquidate_spec cfg hn hkr s s' keeper borrower hdep h
  refine ⟨s1, s2, z.reward, z.returned, h1, h2, a1, a2, ⟨a3.1, a3.2.1, a3.2.2.1⟩, ?_, a5, a6⟩
  intro d
  obtain ⟨r1, r2, r3, r4, r5⟩ := a4 d
  obtain ⟨d1, -, -, -, -, -⟩ := syncBorrow_spec cfg s s1 borrower h1
  obtain ⟨-, -, -, -, ge2, -⟩ := syncSupply_spec cfg s1 s2 borrower h2
  have hdep2 : 0 ≤ s2.dep borrower d := by have := ge2 d; rw [d1] at this; have := hdep d; omega
  have kb := keeperReward_bounds cfg (s2.dep borrower) d (hkr d).1 (hkr d).2 hdep2
  refine ⟨r1, ?_, r2, r3, r4, r5⟩
  rw [r1]; exact kb.2.2

/-- non-vacuity: after the collateral price falls to 0.4 the position of user 0 is liquidated (one auction) -/
example : (match liquidate W.cfgLow W.st 1 0 with | .ok s'' => s''.aucs.length | _ => 0) = 1 := by decide

example : W.cfg.ds.Nodup := by decide

/-! ## 4. money markets listed, replaced and delisted by governance

  The money markets are the `cfg` of each step (the history theorems above already let every step have its own), a
  params change touches no state, and the begin blocker `ApplyInterestRateUpdates` is `applyRateUpdates`: a denom with a
  money market in the params or in the store (`live`) accrues once with the effective market, a denom with none is
  skipped; listing and delisting write / delete the money market only. -/

/-- Across a begin blocker — whatever it lists, replaces or delists — the borrow and the supply factor of every denom
    do not decrease, and the factors of a denom that has no money market (delisted, waiting to be listed again) are
    exactly what they were: a later listing finds the factors the open positions were indexed with. -/
theorem C08_relist_index_monotone (cfg : Cfg) (now : Int) (live : Denom → Bool) (phi : Denom → Dec) (apy : Denom → Bool)
    (ds : List Denom) (s s' : St) (hphi : ∀ d, live d = true → P ≤ (phi d).m)
    (hb : ∀ e v, s.brwIdx e = some v → 0 ≤ v) (hs : ∀ e v, s.supIdx e = some v → 0 ≤ v)
    (h : applyRateUpdates cfg now live phi apy ds s = .ok s') :
    (∀ e, (s.brwIdx e).getD P ≤ (s'.brwIdx e).getD P ∧ (s.supIdx e).getD P ≤ (s'.supIdx e).getD P) ∧
    (∀ e, live e = false → s'.brwIdx e = s.brwIdx e ∧ s'.supIdx e = s.supIdx e) := by
  have r := applyRateUpdates_spec cfg now live phi apy hphi ds s s' hb hs h
  exact ⟨fun e => ⟨r.brwP e, r.supP e⟩, r.dead⟩

/-- "With no action by the user a deposit's claimable amount and a borrow's owed amount never decrease as interest
    accrues" across a whole begin blocker under governance: nobody's records change and every user's synced borrow and
    synced deposit of every denom — listed, being listed, being delisted or without a money market — is non-decreasing. -/
theorem C08_interest_monotone (cfg : Cfg) (now : Int) (live : Denom → Bool) (phi : Denom → Dec) (apy : Denom → Bool)
    (ds : List Denom) (s s' : St) (hphi : ∀ d, live d = true → P ≤ (phi d).m)
    (hb : ∀ e v, s.brwIdx e = some v → 0 ≤ v) (hs : ∀ e v, s.supIdx e = some v → 0 ≤ v)
    (hrec : ∀ u e, (0 ≤ s.bor u e ∧ ∀ v, s.borIdx u e = some v → 0 < v) ∧ (0 ≤ s.dep u e ∧ ∀ v, s.depIdx u e = some v → 0 < v))
    (h : applyRateUpdates cfg now live phi apy ds s = .ok s') :
    (∀ u, SameRecords s s' u) ∧
    ∀ u e, syncBorAmt (s.bor u e) (s.borIdx u e) ((s.brwIdx e).getD 0) ≤
             syncBorAmt (s'.bor u e) (s'.borIdx u e) ((s'.brwIdx e).getD 0) ∧
           syncSupAmt (s.dep u e) (s.depIdx u e) ((s.supIdx e).getD 0) ≤
             syncSupAmt (s'.dep u e) (s'.depIdx u e) ((s'.supIdx e).getD 0) := by
  have r := applyRateUpdates_spec cfg now live phi apy hphi ds s s' hb hs h
  refine ⟨?_, ?_⟩
  · intro u
    unfold SameRecords
    rw [r.dep, r.depIdx, r.bor, r.borIdx]
    exact ⟨rfl, rfl, rfl, rfl⟩
  · intro u e
    rw [r.dep, r.depIdx, r.bor, r.borIdx]
    have hg0 : 0 ≤ (s.supIdx e).getD 0 := by
      cases hv : s.supIdx e with
      | none => simp
      | some v => simpa using hs e v hv
    exact ⟨syncBorAmt_mono _ _ _ _ (hrec u e).1.1 (hrec u e).1.2 (r.brw0 e),
           syncSupAmt_mono _ _ _ _ (hrec u e).2.1 (hrec u e).2.2 hg0 (r.sup0 e)⟩

/-- the begin blocker under governance does not panic: factors ≥ 1 for the denoms that accrue, reserve factors of the
    effective markets in [0,1], borrowed totals not negative -/
theorem C08_begin_no_panic (cfg : Cfg) (now : Int) (live : Denom → Bool) (phi : Denom → Dec) (apy : Denom → Bool)
    (ds : List Denom) (s : St) (hn : ds.Nodup) (hphi : ∀ d, live d = true → P ≤ (phi d).m)
    (hrf : ∀ d, 0 ≤ (cfg.mkt d).reserveFactor.m ∧ (cfg.mkt d).reserveFactor.m ≤ P)
    (hbor : ∀ d ∈ ds, 0 ≤ s.borrowed d) :
    applyRateUpdates cfg now live phi apy ds s ≠ .panic :=
  applyRateUpdates_no_panic cfg now live phi apy hphi hrf ds s hn hbor

/-- non-vacuity: denom 0 has no money market (skipped), denom 1 accrues a year at factor 1.1 -/
example : (applyRateUpdates W.cfg 31536000 (fun d => d != 0) (fun _ => ⟨P + P / 10⟩) (fun _ => true) W.cfg.ds W.st).isOk = true := by
  decide

/-! ## source tie (regenerated)

    `GoFn.Hard.*` (Generated/FnHard.lean) is regenerated on every run from the Go source of
    x/hard/keeper/interest.go by the function translator (tools/extract/fn*.go).  The theorems say that the
    regenerated definitions ARE the functions the model uses (`supplyFactor`) resp. the closed forms
    `TieFn.hardUtilization` / `TieFn.hardBorrowRate` (the borrow rate enters the model only through the
    per-second factor `phi`), and that they never panic.  A source edit re-opens the obligation of the
    edited function.  Proofs: Proofs/TieFnHard.lean. -/

/-- `CalculateSupplyInterestFactor` on the integer-valued arguments `AccrueInterest` passes = `supplyFactor`
    (in particular: no division by zero, factor 1 when cash + borrows − reserves is not positive). -/
theorem C08_source_tie_CalculateSupplyInterestFactor (newInterest cash borrows reserves : Int) :
    GoFn.Hard.CalculateSupplyInterestFactor_translated = true ∧
    GoFn.Hard.CalculateSupplyInterestFactor (Dec.ofInt newInterest) (Dec.ofInt cash) (Dec.ofInt borrows)
        (Dec.ofInt reserves)
      = Go.R.ok (supplyFactor newInterest cash borrows reserves) :=
  TieFn.hard_CalculateSupplyInterestFactor newInterest cash borrows reserves

/-- `CalculateUtilizationRatio` never panics (no division by zero for any cash / borrows / reserves) and lies
    in [0, 1] for non-negative borrows: 0 without borrows, 1 when cash + borrows − reserves ≤ 0, else
    min(1, borrows / (cash + borrows − reserves)). -/
theorem C08_source_tie_CalculateUtilizationRatio (cash borrows reserves : Dec) :
    GoFn.Hard.CalculateUtilizationRatio_translated = true ∧
    GoFn.Hard.CalculateUtilizationRatio cash borrows reserves
      = Go.R.ok (TieFn.hardUtilization cash borrows reserves) ∧
    (0 ≤ borrows.m → 0 ≤ (TieFn.hardUtilization cash borrows reserves).m ∧
      (TieFn.hardUtilization cash borrows reserves).m ≤ P) :=
  ⟨(TieFn.hard_CalculateUtilizationRatio cash borrows reserves).1,
   (TieFn.hard_CalculateUtilizationRatio cash borrows reserves).2,
   TieFn.hard_utilization_range cash borrows reserves⟩

/-- `CalculateBorrowRate` never panics or errors and is the kinked line of the interest-rate model evaluated at
    the utilization ratio. -/
theorem C08_source_tie_CalculateBorrowRate (m : GoFn.Hard.InterestRateModel) (cash borrows reserves : Dec) :
    GoFn.Hard.CalculateBorrowRate_translated = true ∧
    GoFn.Hard.CalculateBorrowRate m cash borrows reserves
      = Go.R.ok (TieFn.hardBorrowRate m cash borrows reserves) :=
  TieFn.hard_CalculateBorrowRate m cash borrows reserves

end KV.Hard
