/-
  C05 — CDP: seized only when under-collateralized; users cannot go below the ratio.

  "No successful draw or collateral withdrawal leaves a CDP below its liquidation ratio at the current price,
   and creation, draw, deposit and withdrawal are refused while the collateral's price feed is down. A CDP
   whose collateralization ratio at the liquidation price is at or above the liquidation ratio is never
   seized, neither by the block-level liquidator nor by a keeper message, while the lowest-ratio CDPs below
   it (beyond 18-decimal rounding) are seized when the liquidation interval comes round. A seizure removes
   the whole position, and exactly its collateral (minus the keeper reward) and its debt enter auctions."

  Model: KavaVerif/Model/Cdp.lean (x/cdp keeper transcribed; `calcCR` = CalculateCollateralizationRatio,
  `c2d` = CalculateCollateralToDebtRatio, `normRatio` = LiquidateCdps' normalizedRatio, bit-exact sdk.Dec).
  Only property statements live here; helper lemmas are in KavaVerif/Proofs/Cdp*.lean.

  Three parts of the prose are FALSE on the code as it stands (each has a `_counterexample` and the strongest
  true `_partial` statement): block liquidation at exactly the ratio (F3), the price-feed gate on draw,
  and "exactly its debt" for multi-deposit seizures (F2).
-/
import KavaVerif.Proofs.CdpExample
import KavaVerif.Generated.CdpFacts
set_option linter.unusedSimpArgs false
set_option linter.unusedVariables false

namespace KV.Cdp
open KV

/-! ### source tables (regenerated from /repo on every run) -/

/-- The comparison shapes and the set of gated functions the model transcribes are the ones in the source:
    `ValidateCollateralizationRatio` and `WithdrawCollateral` refuse on `ratio.LT(L)` (model: `r.m < L.m → err`),
    `ValidateLiquidation` refuses on `ratio.GTE(L)` (model: `r.m ≥ L.m → err`), and exactly `AddCdp`,
    `DepositCollateral`, `WithdrawCollateral` call `ValidateCollateral` (the model's `validateCollateral`;
    `AddPrincipal` does not — see `C05_feed_gate_draw_counterexample`).  A source edit that changes one of
    these regenerates the table and re-opens this obligation. -/
theorem C05_source_gate_table :
    KV.Gen.cdpUserGateRefuses = "LT" ∧ KV.Gen.cdpWithdrawGateRefuses = "LT" ∧ KV.Gen.cdpKeeperGateRefuses = "GTE" ∧
    KV.Gen.cdpFeedGateCallers = ["AddCdp", "DepositCollateral", "WithdrawCollateral"] := by decide

/-! ### user gate -/

/-- "No successful … collateral withdrawal leaves a CDP below its liquidation ratio at the current price":
    after a successful withdraw the stored CDP has `CalculateCollateralizationRatio(spot) ≥ L`
    (and both market status flags were up). -/
theorem C05_user_gate_withdraw {E : Env} {now : Int} {s s' : St} {owner depositor : Acct} {ty : Nat} {c : Int} {cd : Denom}
    (h : withdraw E now s owner depositor ty c cd = .ok s') :
    ∃ cp id c0 c2, E.P.colls[ty]? = some cp ∧ findCdp s owner ty = some (id, c0) ∧ s'.cdp id = some c2 ∧
      c2.ty = ty ∧ GateOk E s cp c2 ∧ s.status cp.spot = true ∧ s.status cp.liq = true :=
  withdraw_gate h

/-- "No successful draw … leaves a CDP below its liquidation ratio at the current price" -/
theorem C05_user_gate_draw {E : Env} {now : Int} {s s' : St} {owner : Acct} {ty : Nat} {p : Int} {pd : Denom}
    (h : draw E now s owner ty p pd = .ok s') :
    ∃ cp id c0 c2, E.P.colls[ty]? = some cp ∧ findCdp s owner ty = some (id, c0) ∧ s'.cdp id = some c2 ∧
      c2.ty = ty ∧ GateOk E s cp c2 :=
  draw_gate h

/-- a created CDP starts at or above the ratio -/
theorem C05_user_gate_create {E : Env} {now : Int} {s s' : St} {owner : Acct} {ty : Nat} {c : Int} {cd : Denom}
    {p : Int} {pd : Denom} (h : create E now s owner ty c cd p pd = .ok s') :
    ∃ cp c2, E.P.colls[ty]? = some cp ∧ s'.cdp s.nextId = some c2 ∧ c2.ty = ty ∧ c2.owner = owner ∧
      GateOk E s cp c2 ∧ s.status cp.spot = true ∧ s.status cp.liq = true :=
  create_gate h

/-- non-vacuity: the creation at exactly 150 % succeeds -/
example : (create exEnv 100 exGenesis 3 0 3000000000 2 10000000 0).isOk = true := by decide +kernel

/-! ### price-feed gate -/

/-- "creation … refused while the collateral's price feed is down" (either market status flag) -/
theorem C05_feed_gate_create {E : Env} {now : Int} {s : St} {owner : Acct} {ty : Nat} {c : Int} {cd : Denom}
    {p : Int} {pd : Denom} {cp : CollParam} (hcp : E.P.colls[ty]? = some cp)
    (hdown : s.status cp.spot = false ∨ s.status cp.liq = false) :
    create E now s owner ty c cd p pd = .err := create_feed_gate hcp hdown

/-- "deposit … refused while the collateral's price feed is down" -/
theorem C05_feed_gate_deposit {E : Env} {now : Int} {s : St} {owner depositor : Acct} {ty : Nat} {c : Int} {cd : Denom}
    {cp : CollParam} (hcp : E.P.colls[ty]? = some cp)
    (hdown : s.status cp.spot = false ∨ s.status cp.liq = false) :
    deposit E now s owner depositor ty c cd = .err := deposit_feed_gate hcp hdown

/-- "withdrawal … refused while the collateral's price feed is down" -/
theorem C05_feed_gate_withdraw {E : Env} {now : Int} {s : St} {owner depositor : Acct} {ty : Nat} {c : Int} {cd : Denom}
    {cp : CollParam} (hcp : E.P.colls[ty]? = some cp)
    (hdown : s.status cp.spot = false ∨ s.status cp.liq = false) :
    withdraw E now s owner depositor ty c cd = .err := withdraw_feed_gate hcp hdown

/-- FALSE for draw as stated ("draw … refused while the collateral's price feed is down"): `AddPrincipal` never
    calls `ValidateCollateral`; with the liquidation market down (flag lowered, no price) and the spot market
    up, a draw is accepted.  Witness: the CDP of `exAtRatio` after a further deposit, drawing 1 usdx. -/
theorem C05_feed_gate_draw_counterexample :
    exLiqDown.status exColl.liq = false ∧ exLiqDown.price exColl.liq = none ∧
    (draw exEnv 200 (apply exEnv exAtRatio (.deposit 100 3 3 0 3000000000 2) |> fun s =>
        { s with price := upd s.price 1 none, status := upd s.status 1 false }) 3 0 1000000 0).isOk = true := by
  decide +kernel

/-- what is true for draw: it is refused unless the *spot* market has a price
    (`CalculateCollateralizationRatio(spot)` must succeed and be ≥ L > 0) -/
theorem C05_feed_gate_draw_partial {E : Env} {now : Int} {s s' : St} {owner : Acct} {ty : Nat} {p : Int} {pd : Denom}
    (h : draw E now s owner ty p pd = .ok s') :
    ∃ cp, E.P.colls[ty]? = some cp ∧ (0 < cp.liqRatio.m → ∃ price, s.price cp.spot = some price) := by
  obtain ⟨cp, id, c0, c2, hcp, -, -, -, hg⟩ := draw_gate h
  obtain ⟨r, hr, hge⟩ := hg
  refine ⟨cp, hcp, ?_⟩
  intro hL
  unfold calcCR at hr
  split at hr
  · cases hr; exact absurd hge (by simp [Dec.zero]; omega)
  · split at hr
    · cases hr
    · rename_i price hp; exact ⟨price, hp⟩

/-! ### keeper liquidation -/

/-- "A CDP whose collateralization ratio at the liquidation price is at or above the liquidation ratio is
    never seized … by a keeper message": a successful MsgLiquidate implies `CR_liq < L` for the synchronised
    CDP; afterwards the CDP and all its deposit records are gone ("a seizure removes the whole position"). -/
theorem C05_keeper_sound {E : Env} {g : Int} {now : Int} {s s' : St} {keeper owner : Acct} {ty : Nat}
    (hW : WF E) (hI : Inv E g s) (hk : (3 : Nat) ≤ keeper)
    (h : liquidate E now s keeper owner ty = .ok s') :
    ∃ cp id c0 s1 c1 r, E.P.colls[ty]? = some cp ∧ findCdp s owner ty = some (id, c0) ∧
      syncInterest E now s id c0 = .ok (s1, c1) ∧
      calcCR c1.coll cp.cf c1.prin c1.fees E.P.debtCf (s.price cp.liq) = .ok r ∧ r.m < cp.liqRatio.m ∧
      s'.cdp id = none ∧ (∀ a, s'.dep id a = 0) :=
  liquidate_sound hW hI hk h

/-- the keeper gate refuses the position that sits exactly at 150 % -/
example : (liquidate exEnv 100 exAtRatio 4 3 0).isOk = false := by decide +kernel

/-! ### block liquidation -/

/-- FALSE as stated ("never seized … by the block-level liquidator" when `CR_liq ≥ L`).
    Witness from the property text: price 0.5, ratio 1.5, collateral 30 (conversion factor 8), debt 10 usdx:
    the value ratio is exactly 1.5, yet `normalizedRatio = 1/(0.5/1.5) = 1/0.333333333333333333 =
    3.000000000000000003 > 3.0 =` stored index ratio, so the range scan reaches the CDP. -/
theorem C05_block_sound_counterexample :
    ¬ (∀ (c d : Int) (cf : Nat) (price L : Dec), blockSelects (sortKey (c2d c cf d 6)) price L = true →
        ∃ r, collRatio c cf d 0 6 price = some r ∧ r.m < L.m) := by
  intro h
  have := h 3000000000 10000000 8 ⟨500000000000000000⟩ ⟨1500000000000000000⟩ (by decide)
  revert this
  decide

/-- the same on the state machine: one begin block with unchanged prices removes the CDP that the user gate
    accepted and the keeper gate refuses -/
theorem C05_block_sound_counterexample_state :
    (exAtRatio.cdp 1).isSome = true ∧
    ((apply exEnv exAtRatio (.beginBlock 101 false [Dec.one])).cdp 1).isNone = true := by
  decide +kernel

/-- what is true: a CDP the block liquidator reaches has `CR_liq < L + ε` with the explicit bound
    `ε = 2 + L²·(10^18 + 2) / (2·price·10^36 − L·10^18 − 2L)` ulp (mantissa units of 10^-18), i.e.
    `(CR − L − 2)·(2·price·P² − L·P − 2L) < L²·(P + 2)`; for price 0.5, L 1.5 this is `CR ≤ L + 6·10^-18`.
    Hypotheses: debt of at least one whole usdx (`P ≤ debt base units`), price ≤ 10^18, the denominator
    positive (price not below ~L·10^-18/2). -/
theorem C05_block_sound_partial (c d : Int) (cf dcf : Nat) (price L : Dec) (hc : 0 ≤ c)
    (hd : P ≤ (baseUnits d dcf).m) (hd2 : (baseUnits d dcf).m < maxSortable.m)
    (hp : 0 < price.m) (hpU : price.m ≤ P * P) (hL : 0 < L.m)
    (hM : 0 < 2 * price.m * P * P - L.m * P - 2 * L.m)
    (hsel : blockSelects (sortKey (c2d c cf d dcf)) price L = true) :
    ∃ r, collRatio c cf d 0 dcf price = some r ∧
      (r.m - 2 - L.m) * (2 * price.m * P * P - L.m * P - 2 * L.m) < L.m * L.m * (P + 2) := by
  have hD0 : (baseUnits d dcf).m ≠ 0 := by have := P_pos; omega
  have hc2d : c2d c cf d dcf = Dec.quo (baseUnits c cf) (baseUnits d dcf) := by
    unfold c2d; simp only [hD0, false_or]
    have : ¬ (baseUnits d dcf).m ≥ maxSortable.m := by omega
    simp only [this, ite_false]
  have hlt : (Dec.quo (baseUnits c cf) (baseUnits d dcf)).m < (normRatio price L).m := by
    unfold blockSelects at hsel
    rw [hc2d] at hsel
    exact sortKey_lt_imp _ _ (of_decide_eq_true hsel)
  have hbound := block_bound_m (baseUnits c cf) (baseUnits d dcf) price L (baseUnits_nonneg c cf hc) hd hp hpU hL hM hlt
  unfold collRatio
  by_cases hc0 : c = 0
  · subst hc0
    refine ⟨Dec.zero, by simp, ?_⟩
    have h1 : (Dec.zero.m - 2 - L.m) * (2 * price.m * P * P - L.m * P - 2 * L.m) ≤ 0 :=
      Int.mul_nonpos_of_nonpos_of_nonneg (by simp [Dec.zero]; omega) (by omega)
    have h2 : 0 < L.m * L.m * (P + 2) := Int.mul_pos (Int.mul_pos hL hL) (by have := P_pos; omega)
    omega
  · simp only [hc0, ite_false]
    have hadd : Dec.add (baseUnits d dcf) (baseUnits 0 dcf) = baseUnits d dcf := by
      have h0 : (baseUnits 0 dcf).m = 0 := by rw [baseUnits_m]; simp
      show (⟨(baseUnits d dcf).m + (baseUnits 0 dcf).m⟩ : Dec) = baseUnits d dcf
      rw [h0, Int.add_zero]
    rw [hadd]
    simp only [hD0, ite_false]
    exact ⟨_, rfl, hbound⟩

/-- the bound is not vacuous: the witness of F3 satisfies every hypothesis, and there `CR = L` exactly -/
example : blockSelects (sortKey (c2d 3000000000 8 10000000 6)) ⟨500000000000000000⟩ ⟨1500000000000000000⟩ = true ∧
    collRatio 3000000000 8 10000000 0 6 ⟨500000000000000000⟩ = some ⟨1500000000000000000⟩ ∧
    P ≤ (baseUnits 10000000 6).m ∧ (0:Int) < 2 * 500000000000000000 * P * P - 1500000000000000000 * P - 2 * 1500000000000000000 := by
  decide

/-- "the lowest-ratio CDPs below it … are seized when the liquidation interval comes round":
    `LiquidateCdps` removes exactly the first `max(count,1)` entries of the type's ratio index whose stored
    ratio is below `normalizedRatio` — every one of them is gone afterwards, every entry below the bound that
    survives comes later in index order (lowest first), and the number taken is min(count, #below).
    ("Beyond 18-decimal rounding": membership is decided by the stored index ratio against
    `normalizedRatio`; `C05_block_sound_partial` bounds how far that is from `CR_liq < L`.) -/
theorem C05_block_complete_partial {E : Env} {g : Int} {s s' : St} {ty : Nat} {cp : CollParam} {price : Dec}
    (hW : WF E) (hI : Inv E g s) (h : liquidateBlock E s ty cp price = .ok s') :
    let K := sortKey (normRatio price cp.liqRatio)
    let sel := takeCount cp.checkCount (below s.idx ty K)
    (∀ e, e ∈ sel → s'.cdp e.2.2 = none) ∧
    (∀ e, e ∈ sel → ∀ e', e' ∈ below s.idx ty K → e' ∉ sel → eLt e e' = true) ∧
    sel.length = min (if cp.checkCount ≤ 1 then 1 else cp.checkCount.toNat) (below s.idx ty K).length :=
  liquidateBlock_complete hW hI h

/-- "… the lowest-ratio CDPs below it (beyond 18-decimal rounding) are seized": the range scan cannot miss a
    CDP that is below the liquidation ratio by more than the rounding — a CDP whose stored index ratio is NOT
    below `normalizedRatio` has `CR_liq > L − ε'`, `ε' = 2 + L²/(price·P + L) + price·(P+1)/P²` ulp
    (`(CR + 2)·P²·(price·P + L) > price·(P³·L − (P+1)(price·P + L))` on mantissas).  Together with
    `C05_block_complete_partial` (the pass takes the first `count` entries of the scan range, lowest first):
    every CDP with `CR_liq ≤ L − ε'` lies in the scan range and is seized unless `count` lower entries precede it. -/
theorem C05_block_complete_bound (c d : Int) (cf dcf : Nat) (price L : Dec) (hc : 0 < c)
    (hd : P ≤ (baseUnits d dcf).m) (hd2 : (baseUnits d dcf).m < maxSortable.m)
    (hp : 0 < price.m) (hL : 0 < L.m)
    (hkey : (c2d c cf d dcf).m < maxSortable.m)
    (hnsel : blockSelects (sortKey (c2d c cf d dcf)) price L = false) :
    ∃ r, collRatio c cf d 0 dcf price = some r ∧
      price.m * (P * P * P * L.m - (P + 1) * (price.m * P + L.m)) < (r.m + 2) * (P * P) * (price.m * P + L.m) := by
  have hD0 : (baseUnits d dcf).m ≠ 0 := by have := P_pos; omega
  have hc2d : c2d c cf d dcf = Dec.quo (baseUnits c cf) (baseUnits d dcf) := by
    unfold c2d; simp only [hD0, false_or]
    have : ¬ (baseUnits d dcf).m ≥ maxSortable.m := by omega
    simp only [this, ite_false]
  have hn : ¬ (Dec.quo (baseUnits c cf) (baseUnits d dcf)).m < (normRatio price L).m := by
    intro hlt
    unfold blockSelects at hnsel
    have hk : sortKey (c2d c cf d dcf) = (c2d c cf d dcf).m := by
      unfold sortKey; simp only [show ¬ (c2d c cf d dcf).m ≥ maxSortable.m by omega, ite_false]
    rw [hk, hc2d] at hnsel
    have : (Dec.quo (baseUnits c cf) (baseUnits d dcf)).m < sortKey (normRatio price L) := by
      unfold sortKey
      split
      · rw [← hc2d]; exact hkey
      · exact hlt
    simp [this] at hnsel
  have hbound := block_bound_rev_m (baseUnits c cf) (baseUnits d dcf) price L
    (baseUnits_nonneg c cf (by omega)) hd hp hL hn
  unfold collRatio
  have hc0 : ¬ c = 0 := by omega
  simp only [hc0, ite_false]
  have hadd : Dec.add (baseUnits d dcf) (baseUnits 0 dcf) = baseUnits d dcf := by
    have h0 : (baseUnits 0 dcf).m = 0 := by rw [baseUnits_m]; simp
    show (⟨(baseUnits d dcf).m + (baseUnits 0 dcf).m⟩ : Dec) = baseUnits d dcf
    rw [h0, Int.add_zero]
  rw [hadd]
  simp only [hD0, ite_false]
  exact ⟨_, rfl, hbound⟩

/-- the bound is not vacuous: 30 collateral / 10 debt at price 0.6 (CR = 1.8 ≥ 1.5) is outside the scan range -/
example : blockSelects (sortKey (c2d 3000000000 8 10000000 6)) ⟨600000000000000000⟩ ⟨1500000000000000000⟩ = false ∧
    (c2d 3000000000 8 10000000 6).m < maxSortable.m := by decide

/-- non-vacuity: in `exAtRatio` the scan selects the CDP and the pass succeeds -/
example : (liquidateBlock exEnv exAtRatio 0 exColl ⟨500000000000000000⟩).isOk = true ∧
    (below exAtRatio.idx 0 (sortKey (normRatio ⟨500000000000000000⟩ exColl.liqRatio))).length = 1 := by
  decide +kernel

/-! ### a seizure takes the whole position -/

/-- "A seizure removes the whole position, and exactly its collateral (minus the keeper reward) … enter
    auctions": after `SeizeCollateral` the CDP, its deposits (and, by the invariant, both index entries) are
    gone, the auction module received exactly the deposit records handed to the seizure (these sum to the
    CDP's collateral, after the keeper reward has been deducted from one of them), and the debt coins it
    received are the per-deposit shares `Σ round(depᵢ/Σdep · debt)` of `min(debt, module debt balance)`. -/
theorem C05_seize_whole {E : Env} {g : Int} {s s' : St} {id : Nat} {c : Cdp} {deps : List (Acct × Int)}
    (hW : WF E) (hI : Inv E g s) (ho : s.cdp id = some c)
    (hsum : sumDeps deps = sumAcc E.accts (s.dep id))
    (hkeys : ∀ a, s.dep id a ≠ 0 → a ∈ deps.map Prod.fst)
    (h : seize E s id c deps = .ok s') :
    s'.cdp id = none ∧ (∀ a, s'.dep id a = 0) ∧ Inv E g s' ∧
    sumDeps deps = c.coll ∧
    s'.bal MAUC (denomOf E c.ty) = s.bal MAUC (denomOf E c.ty) + sumDeps deps ∧
    s'.bal MAUC DEBT = s.bal MAUC DEBT +
      sumCovered (sumDeps deps) (if c.prin + c.fees < s.bal MCDP DEBT then c.prin + c.fees else s.bal MCDP DEBT) deps := by
  have SP := seize_spec hW hI ho hsum hkeys h
  exact ⟨SP.gone, SP.deps0, SP.inv, by rw [hsum]; exact (hI.coll.1 id c ho).symm, SP.aucColl, SP.aucDebt⟩

/-- with a single deposit record the debt entering auctions is exactly the debt handed over -/
theorem C05_seize_whole_single_deposit (a : Acct) (v debt : Int) (hv : 0 < v) :
    sumCovered (sumDeps [(a, v)]) debt [(a, v)] = debt := by
  have : sumDeps [(a, v)] = v := by simp [sumDeps]
  rw [this]; exact sumCovered_single a v debt hv

/-- FALSE for several deposits ("exactly … its debt enter auctions"): two equal deposits and the odd debt
    10000003 give shares 5000002 + 5000002 = debt + 1 (each `0.5·debt` is rounded half-to-even, upward here).
    The second `StartCollateralAuction` then lacks one debt coin: keeper liquidation fails, and in the begin
    blocker the error is escalated to a panic (finding F2). -/
theorem C05_seize_whole_counterexample :
    sumCovered (sumDeps [(3, 1000000000), (4, 1000000000)]) 10000003 [(3, 1000000000), (4, 1000000000)] = 10000003 + 1 := by
  decide +kernel

/-- the rounding of each share is at most half a unit, so the total is off by at most #deposits/2 -/
theorem C05_seize_whole_partial (v total debt : Int) (hv : 0 ≤ v) (ht : 0 < total) (hd : 0 ≤ debt) :
    2 * (debtCovered v total debt * P - (Dec.mul (Dec.quo (Dec.ofInt v) (Dec.ofInt total)) (Dec.ofInt debt)).m) ≤ P ∧
    2 * ((Dec.mul (Dec.quo (Dec.ofInt v) (Dec.ofInt total)) (Dec.ofInt debt)).m - debtCovered v total debt * P) ≤ P := by
  unfold debtCovered
  have hq : 0 ≤ (Dec.quo (Dec.ofInt v) (Dec.ofInt total)).m := by
    obtain ⟨T, -, -, -, -, -, h⟩ := quo_spec (Dec.ofInt v) (Dec.ofInt total)
      (by simp only [Dec.ofInt]; exact Int.mul_nonneg hv (by decide))
      (by simp only [Dec.ofInt]; exact Int.mul_pos ht P_pos)
    exact h
  have hm : 0 ≤ (Dec.quo (Dec.ofInt v) (Dec.ofInt total)).m * (Dec.ofInt debt).m :=
    Int.mul_nonneg hq (by simp only [Dec.ofInt]; exact Int.mul_nonneg hd (by decide))
  obtain ⟨-, -, hnn⟩ := mul_spec _ _ hm
  exact chopRound_nonneg_bound _ hnn

end KV.Cdp
