/-
  C05 — CDP: seized only when under-collateralized; users cannot go below the ratio.

  "No successful draw or collateral withdrawal leaves a CDP below its liquidation ratio at the current price,
   and creation, draw, deposit and withdrawal are refused while the collateral's price feed is down. A CDP
   whose collateralization ratio at the liquidation price is at or above the liquidation ratio is never
   seized, neither by the block-level liquidator nor by a keeper message, while the lowest-ratio CDPs below
   it (beyond 18-decimal rounding) are seized when the liquidation interval comes round. A seizure removes
   the whole position, and exactly its collateral (minus the keeper reward) and its debt enter auctions."

  Model: KavaVerif/Model/Cdp.lean (x/cdp keeper transcribed; `calcCR` = CalculateCollateralizationRatio,
  `c2d` = CalculateCollateralToDebtRatio, `normRatio` = LiquidateCdps' normalizedRatio, `blockSkips` = the
  value-ratio re-check inside LiquidateCdps, `cappedShare` = the debt share a deposit gets in
  AuctionCollateral; bit-exact sdk.Dec).  Only property statements live here; helper lemmas are in
  KavaVerif/Proofs/Cdp*.lean.

  The three parts of the prose that were false on the original code are full theorems on the code as fixed
  by bfd342e03 (debt shares), b28e8ed21 (block re-check), cb3596bb2 (draw gate); the former witnesses are
  kept as `example`s showing the fixed model handles them.
-/
import KavaVerif.Proofs.CdpExample
import KavaVerif.Proofs.CdpGov
import KavaVerif.Proofs.CdpAuctions
import KavaVerif.Generated.CdpFacts
set_option linter.unusedSimpArgs false
set_option linter.unusedVariables false

namespace KV.Cdp
open KV

/-! ### source tables (regenerated from /repo on every run) -/

/-- The comparison shapes and the set of gated functions the model transcribes are the ones in the source:
    `ValidateCollateralizationRatio` and `WithdrawCollateral` refuse on `ratio.LT(L)` (model: `r.m < L.m → err`),
    `ValidateLiquidation` refuses on `ratio.GTE(L)` (model: `r.m ≥ L.m → err`), `LiquidateCdps` skips a selected
    CDP on `valueRatio.GTE(L)` (model: `blockSkips`), and exactly `AddCdp`, `AddPrincipal`, `DepositCollateral`,
    `WithdrawCollateral` call `ValidateCollateral` (the model's `validateCollateral`).  A source edit that
    changes one of these regenerates the table and re-opens this obligation. -/
theorem C05_source_gate_table :
    KV.Gen.cdpUserGateRefuses = "LT" ∧ KV.Gen.cdpWithdrawGateRefuses = "LT" ∧ KV.Gen.cdpKeeperGateRefuses = "GTE" ∧
    KV.Gen.cdpBlockRecheckSkips = "GTE" ∧
    KV.Gen.cdpFeedGateCallers = ["AddCdp", "AddPrincipal", "DepositCollateral", "WithdrawCollateral"] := by decide

/-! ### user gate -/

/-- "No successful … collateral withdrawal leaves a CDP below its liquidation ratio at the current price":
    after a successful withdraw the stored CDP has `CalculateCollateralizationRatio(spot) ≥ L`
    (and both market status flags were up). -/
theorem C05_user_gate_withdraw {E : Env} {now : Int} {s s' : St} {owner depositor : Acct} {ty : Nat} {c : Int} {cd : Denom}
    (h : withdraw E now s owner depositor ty c cd = .ok s') :
    ∃ cp id c0 c2, E.P.colls[ty]? = some cp ∧ findCdp s owner ty = some (id, c0) ∧ s'.cdp id = some c2 ∧
      c2.ty = ty ∧ GateOk E s cp c2 ∧ s.status cp.spot = true ∧ s.status cp.liq = true :=
  withdraw_gate h

/-- "No successful draw … leaves a CDP below its liquidation ratio at the current price"
    (and both market status flags were up) -/
theorem C05_user_gate_draw {E : Env} {now : Int} {s s' : St} {owner : Acct} {ty : Nat} {p : Int} {pd : Denom}
    (h : draw E now s owner ty p pd = .ok s') :
    ∃ cp id c0 c2, E.P.colls[ty]? = some cp ∧ findCdp s owner ty = some (id, c0) ∧ s'.cdp id = some c2 ∧
      c2.ty = ty ∧ GateOk E s cp c2 ∧ s.status cp.spot = true ∧ s.status cp.liq = true :=
  draw_gate h

/-- a created CDP starts at or above the ratio -/
theorem C05_user_gate_create {E : Env} {now : Int} {s s' : St} {owner : Acct} {ty : Nat} {c : Int} {cd : Denom}
    {p : Int} {pd : Denom} (h : create E now s owner ty c cd p pd = .ok s') :
    ∃ cp c2, E.P.colls[ty]? = some cp ∧ s'.cdp s.nextId = some c2 ∧ c2.ty = ty ∧ c2.owner = owner ∧
      GateOk E s cp c2 ∧ s.status cp.spot = true ∧ s.status cp.liq = true :=
  create_gate h

/-- non-vacuity: the creation at exactly 150 % succeeds -/
example : (create exEnv 100 exGenesis 3 0 3000000000 2 10000000 0).isOk = true := by decide +kernel

/-! ### price-feed gate: "creation, draw, deposit and withdrawal are refused while the collateral's price feed is down" -/

/-- creation is refused when either market status flag is down -/
theorem C05_feed_gate_create {E : Env} {now : Int} {s : St} {owner : Acct} {ty : Nat} {c : Int} {cd : Denom}
    {p : Int} {pd : Denom} {cp : CollParam} (hcp : E.P.colls[ty]? = some cp)
    (hdown : s.status cp.spot = false ∨ s.status cp.liq = false) :
    create E now s owner ty c cd p pd = .err := create_feed_gate hcp hdown

/-- deposit is refused when either market status flag is down -/
theorem C05_feed_gate_deposit {E : Env} {now : Int} {s : St} {owner depositor : Acct} {ty : Nat} {c : Int} {cd : Denom}
    {cp : CollParam} (hcp : E.P.colls[ty]? = some cp)
    (hdown : s.status cp.spot = false ∨ s.status cp.liq = false) :
    deposit E now s owner depositor ty c cd = .err := deposit_feed_gate hcp hdown

/-- withdrawal is refused when either market status flag is down -/
theorem C05_feed_gate_withdraw {E : Env} {now : Int} {s : St} {owner depositor : Acct} {ty : Nat} {c : Int} {cd : Denom}
    {cp : CollParam} (hcp : E.P.colls[ty]? = some cp)
    (hdown : s.status cp.spot = false ∨ s.status cp.liq = false) :
    withdraw E now s owner depositor ty c cd = .err := withdraw_feed_gate hcp hdown

/-- draw is refused when either market status flag is down (since cb3596bb2 `AddPrincipal` starts with
    `ValidateCollateral`) -/
theorem C05_feed_gate_draw {E : Env} {now : Int} {s : St} {owner : Acct} {ty : Nat} {p : Int} {pd : Denom}
    {cp : CollParam} (hcp : E.P.colls[ty]? = some cp)
    (hdown : s.status cp.spot = false ∨ s.status cp.liq = false) :
    draw E now s owner ty p pd = .err := draw_feed_gate hcp hdown

/-- the former witness (finding F12): liquidation market down, spot market up, CDP at 300 % — the draw of
    1 usdx that the original code accepted is now refused; with both feeds up it is accepted -/
example : exLiqDownDeposited.status exColl.liq = false ∧
    (draw exEnv 200 exLiqDownDeposited 3 0 1000000 0).isOk = false ∧
    (draw exEnv 200 (apply exEnv exAtRatio (.deposit 100 3 3 0 3000000000 2)) 3 0 1000000 0).isOk = true := by
  decide +kernel

/-! ### keeper liquidation -/

/-- "A CDP whose collateralization ratio at the liquidation price is at or above the liquidation ratio is
    never seized … by a keeper message": a successful MsgLiquidate implies `CR_liq < L` for the synchronised
    CDP; afterwards the CDP and all its deposit records are gone ("a seizure removes the whole position"). -/
theorem C05_keeper_sound {E : Env} {g : Int} {now : Int} {s s' : St} {keeper owner : Acct} {ty : Nat}
    (hW : WF E) (hI : Inv E g s) (hk : (3 : Nat) ≤ keeper)
    (h : liquidate E now s keeper owner ty = .ok s') :
    ∃ cp id c0 s1 c1 r, E.P.colls[ty]? = some cp ∧ findCdp s owner ty = some (id, c0) ∧
      syncInterest E now s id c0 = .ok (s1, c1) ∧
      calcCR c1.coll cp.cf c1.prin c1.fees E.P.debtCf (s.price cp.liq) = .ok r ∧ r.m < cp.liqRatio.m ∧
      s'.cdp id = none ∧ (∀ a, s'.dep id a = 0) :=
  liquidate_sound hW hI hk h

/-- the keeper gate refuses the position that sits exactly at 150 % -/
example : (liquidate exEnv 100 exAtRatio 4 3 0).isOk = false := by decide +kernel

/-! ### block liquidation -/

/-- "A CDP whose collateralization ratio at the liquidation price is at or above the liquidation ratio is
    never seized … by the block-level liquidator" — function level: a CDP that `LiquidateCdps` does not skip
    (the only ones it hands to `SeizeCollateral`) has `CalculateCollateralizationRatio(liquidation price) < L`. -/
theorem C05_block_sound (E : Env) (c : Cdp) (price L : Dec) (hL : 0 < L.m)
    (h : blockSkips E c price L = false) (r : Dec)
    (hr : collRatio c.coll (cfOf E c.ty) c.prin c.fees E.P.debtCf price = some r) : r.m < L.m :=
  blockSkips_sound E c price L hL h r hr

/-- … state level: every CDP that disappears in a `LiquidateCdps` pass had `CR_liq < L` at that moment -/
theorem C05_block_sound_state {E : Env} {g : Int} {s s' : St} {ty : Nat} {cp : CollParam} {price : Dec}
    (hW : WF E) (hI : Inv E g s) (hL : 0 < cp.liqRatio.m) (h : liquidateBlock E s ty cp price = .ok s')
    (id : Nat) (c : Cdp) (ho : s.cdp id = some c) (hgone : s'.cdp id = none) (r : Dec)
    (hr : collRatio c.coll (cfOf E c.ty) c.prin c.fees E.P.debtCf price = some r) : r.m < cp.liqRatio.m :=
  blockSkips_sound E c price cp.liqRatio hL (liquidateBlock_sound hW hI h id c ho hgone) r hr

/-- the former witness (finding F3: price 0.5, ratio 1.5, collateral 30, debt 10): the index scan still reaches
    the CDP (`normalizedRatio = 3.000000000000000003 > 3.0`), the re-check skips it (`CR = 1.5 ≥ L`), and one
    begin block with unchanged prices leaves it in place; after a price drop to 0.49 it is seized -/
example : blockSelects (sortKey (c2d 3000000000 8 10000000 6)) ⟨500000000000000000⟩ ⟨1500000000000000000⟩ = true ∧
    (exAtRatio.cdp 1).map (fun c => blockSkips exEnv c ⟨500000000000000000⟩ exColl.liqRatio) = some true ∧
    ((apply exEnv exAtRatio (.beginBlock 101 false [Dec.one])).cdp 1).isSome = true ∧
    ((apply exEnv { exAtRatio with price := fun _ => some ⟨490000000000000000⟩ } (.beginBlock 101 false [Dec.one])).cdp 1).isNone = true := by
  decide +kernel

/-- the index bound (soundness direction): a CDP the range scan reaches has `CR_liq < L + ε` with the explicit
    bound `ε = 2 + L²·(10^18 + 2) / (2·price·10^36 − L·10^18 − 2L)` ulp, i.e.
    `(CR − L − 2)·(2·price·P² − L·P − 2L) < L²·(P + 2)` — how far the scan can overshoot before the re-check. -/
theorem C05_block_index_bound (c d : Int) (cf dcf : Nat) (price L : Dec) (hc : 0 ≤ c)
    (hd : P ≤ (baseUnits d dcf).m) (hd2 : (baseUnits d dcf).m < maxSortable.m)
    (hp : 0 < price.m) (hpU : price.m ≤ P * P) (hL : 0 < L.m)
    (hM : 0 < 2 * price.m * P * P - L.m * P - 2 * L.m)
    (hsel : blockSelects (sortKey (c2d c cf d dcf)) price L = true) :
    ∃ r, collRatio c cf d 0 dcf price = some r ∧
      (r.m - 2 - L.m) * (2 * price.m * P * P - L.m * P - 2 * L.m) < L.m * L.m * (P + 2) := by
  have hD0 : (baseUnits d dcf).m ≠ 0 := by have := P_pos; omega
  have hc2d : c2d c cf d dcf = Dec.quo (baseUnits c cf) (baseUnits d dcf) := by
    unfold c2d; simp only [hD0, false_or]
    have : ¬ (baseUnits d dcf).m ≥ maxSortable.m := by omega
    simp only [this, ite_false]
  have hlt : (Dec.quo (baseUnits c cf) (baseUnits d dcf)).m < (normRatio price L).m := by
    unfold blockSelects at hsel
    rw [hc2d] at hsel
    exact sortKey_lt_imp _ _ (of_decide_eq_true hsel)
  have hbound := block_bound_m (baseUnits c cf) (baseUnits d dcf) price L (baseUnits_nonneg c cf hc) hd hp hpU hL hM hlt
  unfold collRatio
  by_cases hc0 : c = 0
  · subst hc0
    refine ⟨Dec.zero, by simp, ?_⟩
    have h1 : (Dec.zero.m - 2 - L.m) * (2 * price.m * P * P - L.m * P - 2 * L.m) ≤ 0 :=
      Int.mul_nonpos_of_nonpos_of_nonneg (by simp [Dec.zero]; omega) (by omega)
    have h2 : 0 < L.m * L.m * (P + 2) := Int.mul_pos (Int.mul_pos hL hL) (by have := P_pos; omega)
    omega
  · simp only [hc0, ite_false]
    have hadd : Dec.add (baseUnits d dcf) (baseUnits 0 dcf) = baseUnits d dcf := by
      have h0 : (baseUnits 0 dcf).m = 0 := by rw [baseUnits_m]; simp
      show (⟨(baseUnits d dcf).m + (baseUnits 0 dcf).m⟩ : Dec) = baseUnits d dcf
      rw [h0, Int.add_zero]
    rw [hadd]
    simp only [hD0, ite_false]
    exact ⟨_, rfl, hbound⟩

/-- the bound is not vacuous: the former witness satisfies every hypothesis, and there `CR = L` exactly -/
example : blockSelects (sortKey (c2d 3000000000 8 10000000 6)) ⟨500000000000000000⟩ ⟨1500000000000000000⟩ = true ∧
    collRatio 3000000000 8 10000000 0 6 ⟨500000000000000000⟩ = some ⟨1500000000000000000⟩ ∧
    P ≤ (baseUnits 10000000 6).m ∧ (0:Int) < 2 * 500000000000000000 * P * P - 1500000000000000000 * P - 2 * 1500000000000000000 := by
  decide

/-- "the lowest-ratio CDPs below it … are seized when the liquidation interval comes round":
    `LiquidateCdps` walks exactly the first `max(count,1)` entries of the type's ratio index whose stored ratio is
    below `normalizedRatio`; each of them is gone afterwards unless the re-check found `CR_liq ≥ L` (then it is
    left untouched), every entry below the bound that was not taken comes later in index order (lowest first),
    and the number taken is min(count, #below). -/
theorem C05_block_complete {E : Env} {g : Int} {s s' : St} {ty : Nat} {cp : CollParam} {price : Dec}
    (hW : WF E) (hI : Inv E g s) (h : liquidateBlock E s ty cp price = .ok s') :
    let K := sortKey (normRatio price cp.liqRatio)
    let sel := takeCount cp.checkCount (below s.idx ty K)
    (∀ e, e ∈ sel → ∃ c, s.cdp e.2.2 = some c ∧
        (if blockSkips E c price cp.liqRatio = true then s'.cdp e.2.2 = some c else s'.cdp e.2.2 = none)) ∧
    (∀ e, e ∈ sel → ∀ e', e' ∈ below s.idx ty K → e' ∉ sel → eLt e e' = true) ∧
    sel.length = min (if cp.checkCount ≤ 1 then 1 else cp.checkCount.toNat) (below s.idx ty K).length :=
  liquidateBlock_complete hW hI h

/-- "… (beyond 18-decimal rounding)": the range scan cannot miss a CDP that is below the liquidation ratio by
    more than the rounding — a CDP whose stored index ratio is NOT below `normalizedRatio` has
    `CR_liq > L − ε'`, `ε' = 2 + L²/(price·P + L) + price·(P+1)/P²` ulp
    (`(CR + 2)·P²·(price·P + L) > price·(P³·L − (P+1)(price·P + L))` on mantissas).  With `C05_block_complete`
    and `C05_block_sound`: every CDP with `CR_liq ≤ L − ε'` lies in the scan range, is not skipped by the
    re-check, and is seized unless `count` lower index entries precede it. -/
theorem C05_block_complete_bound (c d : Int) (cf dcf : Nat) (price L : Dec) (hc : 0 < c)
    (hd : P ≤ (baseUnits d dcf).m) (hd2 : (baseUnits d dcf).m < maxSortable.m)
    (hp : 0 < price.m) (hL : 0 < L.m)
    (hkey : (c2d c cf d dcf).m < maxSortable.m)
    (hnsel : blockSelects (sortKey (c2d c cf d dcf)) price L = false) :
    ∃ r, collRatio c cf d 0 dcf price = some r ∧
      price.m * (P * P * P * L.m - (P + 1) * (price.m * P + L.m)) < (r.m + 2) * (P * P) * (price.m * P + L.m) := by
  have hD0 : (baseUnits d dcf).m ≠ 0 := by have := P_pos; omega
  have hc2d : c2d c cf d dcf = Dec.quo (baseUnits c cf) (baseUnits d dcf) := by
    unfold c2d; simp only [hD0, false_or]
    have : ¬ (baseUnits d dcf).m ≥ maxSortable.m := by omega
    simp only [this, ite_false]
  have hn : ¬ (Dec.quo (baseUnits c cf) (baseUnits d dcf)).m < (normRatio price L).m := by
    intro hlt
    unfold blockSelects at hnsel
    have hk : sortKey (c2d c cf d dcf) = (c2d c cf d dcf).m := by
      unfold sortKey; simp only [show ¬ (c2d c cf d dcf).m ≥ maxSortable.m by omega, ite_false]
    rw [hk, hc2d] at hnsel
    have : (Dec.quo (baseUnits c cf) (baseUnits d dcf)).m < sortKey (normRatio price L) := by
      unfold sortKey
      split
      · rw [← hc2d]; exact hkey
      · exact hlt
    simp [this] at hnsel
  have hbound := block_bound_rev_m (baseUnits c cf) (baseUnits d dcf) price L
    (baseUnits_nonneg c cf (by omega)) hd hp hL hn
  unfold collRatio
  have hc0 : ¬ c = 0 := by omega
  simp only [hc0, ite_false]
  have hadd : Dec.add (baseUnits d dcf) (baseUnits 0 dcf) = baseUnits d dcf := by
    have h0 : (baseUnits 0 dcf).m = 0 := by rw [baseUnits_m]; simp
    show (⟨(baseUnits d dcf).m + (baseUnits 0 dcf).m⟩ : Dec) = baseUnits d dcf
    rw [h0, Int.add_zero]
  rw [hadd]
  simp only [hD0, ite_false]
  exact ⟨_, rfl, hbound⟩

/-- the bound is not vacuous: 30 collateral / 10 debt at price 0.6 (CR = 1.8 ≥ 1.5) is outside the scan range -/
example : blockSelects (sortKey (c2d 3000000000 8 10000000 6)) ⟨600000000000000000⟩ ⟨1500000000000000000⟩ = false ∧
    (c2d 3000000000 8 10000000 6).m < maxSortable.m := by decide

/-- non-vacuity: in `exAtRatio` the scan selects the CDP and the pass succeeds -/
example : (liquidateBlock exEnv exAtRatio 0 exColl ⟨500000000000000000⟩).isOk = true ∧
    (below exAtRatio.idx 0 (sortKey (normRatio ⟨500000000000000000⟩ exColl.liqRatio))).length = 1 := by
  decide +kernel

/-! ### the ratio in force; collateral types that are not listed -/

/-- Governance changes the liquidation ratio (and every other parameter) between two blocks while CDPs exist.
    Every statement above is about ONE step under the environment `E` of that step, so "the liquidation ratio"
    is the ratio in force when the action happens: after a change to `E'`, a begin block seizes a CDP only if its
    ratio at the liquidation price is below the NEW ratio (instance of `C05_block_sound_state` at `E'`; a position
    that a lowered ratio made safe is not seized in the block after the change, one that a raised ratio put below
    is inside the scan range by `C05_block_complete_bound`).  What needs a statement of its own is a collateral
    type that is removed from the parameters while CDPs of it exist: neither the block liquidator nor a keeper
    message can seize them, and no user action on them is accepted, until the type is listed again. -/
theorem C05_unlisted_type_never_seized {E : Env} {g : Int} {now : Int} {s : St} {ty : Nat}
    (hW : WF E) (hI : Inv E g s) (hu : isActive E ty = false) :
    (∀ skip facs s', beginBlock E now skip facs s = .ok s' →
        ∀ id c, s.cdp id = some c → c.ty = ty → s'.cdp id = some c) ∧
    (∀ k o, (liquidate E now s k o ty).isOk = false) ∧
    (∀ o p pd, (draw E now s o ty p pd).isOk = false) ∧
    (∀ o d c cd, (withdraw E now s o d ty c cd).isOk = false) ∧
    (∀ o d c cd, (deposit E now s o d ty c cd).isOk = false) ∧
    (∀ o c cd p pd, (create E now s o ty c cd p pd).isOk = false) := by
  obtain ⟨h1, h2, h3, h4, -, h6⟩ := inactive_refuses (s := s) hu now
  refine ⟨?_, h6, h4, h3, h2, h1⟩
  intro skip facs s' h id c hc hty
  exact beginBlock_keeps_unlisted hW hI h id c hc (by rw [hty]; exact hu)

/-- non-vacuity: the example position at 150 % with its type removed survives a begin block after a price crash
    to 0.001 and the keeper is refused; with the type listed under the ratio 2.0 the same position is seized at
    unchanged prices, and under the original ratio 1.5 it is not -/
example : isActive exEnvRemoved 0 = false ∧
    ((apply exEnvRemoved { exAtRatio with price := fun _ => some ⟨1000000000000000⟩ } (.beginBlock 101 false [Dec.one])).cdp 1).isSome = true ∧
    (liquidate exEnvRemoved 101 { exAtRatio with price := fun _ => some ⟨1000000000000000⟩ } 4 3 0).isOk = false ∧
    ((apply exEnvRaised exAtRatio (.beginBlock 101 false [Dec.one])).cdp 1).isNone = true ∧
    ((apply exEnv exAtRatio (.beginBlock 101 false [Dec.one])).cdp 1).isSome = true := by
  decide +kernel

/-! ### a seizure takes the whole position; the debt shares -/

/-- `AuctionCollateral` (since bfd342e03): the debt shares handed to the deposits add up to exactly the debt to
    distribute, no share exceeds what is left at its turn, and none is negative -/
theorem C05_debt_split_exact (total debt : Int) :
    (∀ (l : List (Acct × Int)) (remaining : Int), l ≠ [] → sumShares total debt remaining l = remaining) ∧
    (∀ share remaining isLast, cappedShare share remaining isLast ≤ remaining) ∧
    (∀ share remaining isLast, 0 ≤ share → 0 ≤ remaining → 0 ≤ cappedShare share remaining isLast) :=
  ⟨sumShares_exact total debt, cappedShare_le, cappedShare_nonneg⟩

/-- … hence `AuctionCollateral` can no longer fail for lack of debt coins (the begin-block panic of finding F2):
    if the liquidator account holds the deposits' collateral and at least the debt to distribute, all sends succeed -/
theorem C05_debt_split_never_short (cd : Denom) (total debt : Int) (hcd : cd ≠ DEBT) (ht : 0 < total) (hd : 0 ≤ debt)
    (l : List (Acct × Int)) (remaining : Int) (s : St) (hpos : ∀ a v, (a, v) ∈ l → 0 < v)
    (h0 : 0 ≤ remaining) (h1 : remaining ≤ s.bal MLIQ DEBT) (h2 : sumDeps l ≤ s.bal MLIQ cd) :
    ∃ s', auctionDeps s cd total debt remaining l = .ok s' :=
  auctionDeps_ok cd total debt hcd ht hd l remaining s hpos h0 h1 h2

/-- "A seizure removes the whole position, and exactly its collateral (minus the keeper reward) and its debt
    enter auctions": after `SeizeCollateral` the CDP, its deposits (and, by the invariant, both index entries) are
    gone, the auction module received exactly the deposit records handed to the seizure (these sum to the CDP's
    collateral, after the keeper reward has been deducted from one of them), and exactly
    `min(debt, debt coins held by the cdp module)` debt coins — exactly the CDP's debt whenever the cdp module
    holds that many (the `min` is `SeizeCollateral`'s own clamp against interest-rounding drift of the module's
    debt-coin balance). -/
theorem C05_seize_whole {E : Env} {g : Int} {s s' : St} {id : Nat} {c : Cdp} {deps : List (Acct × Int)}
    (hW : WF E) (hI : Inv E g s) (ho : s.cdp id = some c)
    (hsum : sumDeps deps = sumAcc E.accts (s.dep id))
    (hkeys : ∀ a, s.dep id a ≠ 0 → a ∈ deps.map Prod.fst) (hne : deps ≠ [])
    (h : seize E s id c deps = .ok s') :
    s'.cdp id = none ∧ (∀ a, s'.dep id a = 0) ∧ Inv E g s' ∧
    sumDeps deps = c.coll ∧
    s'.bal MAUC (denomOf E c.ty) = s.bal MAUC (denomOf E c.ty) + sumDeps deps ∧
    s'.bal MAUC DEBT = s.bal MAUC DEBT + (if c.prin + c.fees < s.bal MCDP DEBT then c.prin + c.fees else s.bal MCDP DEBT) ∧
    (c.prin + c.fees ≤ s.bal MCDP DEBT → s'.bal MAUC DEBT = s.bal MAUC DEBT + (c.prin + c.fees)) := by
  have SP := seize_spec hW hI ho hsum hkeys h
  have hd := SP.aucDebt
  rw [sumShares_exact _ _ deps _ hne] at hd
  refine ⟨SP.gone, SP.deps0, SP.inv, by rw [hsum]; exact (hI.coll.1 id c ho).symm, SP.aucColl, hd, ?_⟩
  intro hle
  rw [hd]
  split <;> omega

/-- the former witness (finding F2): two equal deposits of 10 and the odd debt 10000003 — the rounded shares
    are 5000002 + 5000002, the capped shares 5000002 + 5000001 = the debt; on the state machine the begin block
    after a price crash now succeeds and exactly the debt enters the auction module -/
example : sumShares 2000000000 10000003 10000003 [(3, 1000000000), (4, 1000000000)] = 10000003 ∧
    debtCovered 1000000000 2000000000 10000003 = 5000002 ∧
    (beginBlock exEnv 102 false [Dec.one] exTwoDeposits).isOk = true ∧
    (apply exEnv exTwoDeposits (.beginBlock 102 false [Dec.one])).bal MAUC DEBT = 10000003 ∧
    ((apply exEnv exTwoDeposits (.beginBlock 102 false [Dec.one])).cdp 1).isNone = true := by
  decide +kernel

/-! ### the auctions of a seizure, lot by lot (`AuctionCollateral`, `CreateAuctionsFromDeposit`) -/

/-- One deposit `c > 0` with debt share `d ≥ 0`, auction size `A > 0`: `CreateAuctionsFromDeposit` creates
    `⌈c / A⌉` auctions whose lots add up to exactly the deposit and whose corresponding debts add up to exactly the
    share; every lot is returned to the depositor, is positive and at most `A`; its debt is its proportional share
    `d·lot / c` rounded down or up; and its max bid is its own debt plus the liquidation penalty ON ITS OWN DEBT
    (`round-half-even(debt_i · penalty)`), lot by lot. -/
theorem C05_seize_lots_deposit (ret : Acct) (c d A : Int) (pen : Dec) (hc : 0 < c) (hd : 0 ≤ d) (hA : 0 < A) :
    ∃ L, createAuctions ret c d A pen = .ok L ∧
      lotSum L = c ∧ lotDebtSum L = d ∧ (L.length : Int) = (c + A - 1) / A ∧
      (∀ x ∈ L, x.ret = ret ∧ 0 < x.lot ∧ x.lot ≤ A ∧ 0 ≤ x.debt ∧
        d * x.lot / c ≤ x.debt ∧ x.debt ≤ d * x.lot / c + 1 ∧ x.maxBid = x.debt + penaltyOf x.debt pen) := by
  obtain ⟨L, h, sp⟩ := createAuctions_spec ret c d A pen hc hd hA
  exact ⟨L, h, sp.lotSum, sp.lotDebtSum, sp.count, sp.each⟩

/-- … and only the last lot may be smaller than the auction size: `c / A` whole lots of exactly `A`, the first `k`
    of them carrying `⌊d·A / c⌋ + 1` and the others `⌊d·A / c⌋` (largest-remainder distribution: any two whole lots
    differ by at most one unit of debt, the extra units go to the lots created first), then — iff `A` does not divide
    `c` — one lot `c % A` carrying `⌊d·(c % A) / c⌋` or that plus one. -/
theorem C05_seize_lots_shape (ret : Acct) (c d A : Int) (pen : Dec) (hc : 0 < c) (hd : 0 ≤ d) (hA : 0 < A) :
    ∃ L, createAuctions ret c d A pen = .ok L ∧
      (∃ (W last : List Lot) (k : Nat), L = W ++ last ∧ (W.length : Int) = c / A ∧ k ≤ W.length ∧
        (∀ x ∈ W, x.lot = A) ∧
        W.map (·.debt) = List.replicate k (d * A / c + 1) ++ List.replicate (W.length - k) (d * A / c) ∧
        ((last = [] ∧ c % A = 0) ∨
         (∃ x, last = [x] ∧ x.lot = c % A ∧ 0 < x.lot ∧ x.lot < A ∧
            (x.debt = d * (c % A) / c ∨ x.debt = d * (c % A) / c + 1)))) ∧
      (∀ x ∈ L, ∀ y ∈ L, x.lot = A → y.lot = A → x.debt - y.debt ≤ 1 ∧ y.debt - x.debt ≤ 1) := by
  obtain ⟨L, h, sp⟩ := createAuctions_spec ret c d A pen hc hd hA
  exact ⟨L, h, sp.shape, fun x hx y hy hxl hyl => sp.spread x y hx hy hxl hyl⟩

/-- "A seizure removes the whole position, and exactly its collateral (minus the keeper reward) and its debt enter
    auctions", lot by lot: the auctions `SeizeCollateral` creates from the deposit records `deps` (all positive) and
    the debt `debt` it moved to the liquidator have lots that add up to exactly the deposits and corresponding debts
    that add up to exactly the debt; they are, deposit by deposit in depositor order, the lots of
    `C05_seize_lots_deposit` for exactly the amounts the state machine of `C05_seize_whole` moves for that deposit
    (`LotsOfDeps`: the deposit and its capped share of the debt); every lot goes back to one of the depositors, is at
    most the auction size, and asks for its own debt plus the penalty on its own debt. -/
theorem C05_seize_lots (A : Int) (pen : Dec) (deps : List (Acct × Int)) (debt : Int) (hA : 0 < A) (hd : 0 ≤ debt)
    (hne : deps ≠ []) (hpos : ∀ a v, (a, v) ∈ deps → 0 < v) :
    ∃ L, seizeLots A pen deps debt = .ok L ∧ LotsOfDeps A pen (sumDeps deps) debt debt deps L ∧
      lotSum L = sumDeps deps ∧ lotDebtSum L = debt ∧
      (∀ x ∈ L, x.ret ∈ deps.map Prod.fst ∧ 0 < x.lot ∧ x.lot ≤ A ∧ 0 ≤ x.debt ∧
        x.maxBid = x.debt + penaltyOf x.debt pen) :=
  seizeLots_spec A pen deps debt hA hd hne hpos

/-- "(minus the keeper reward)": the records a keeper liquidation hands to the seizure are the stored records with
    the reward taken out of exactly one of them (or unchanged when no single deposit can pay it) -/
theorem C05_seize_lots_keeper_reward (r : Int) (deps : List (Acct × Int)) :
    sumDeps (depsAfterReward (some r) deps) = sumDeps deps - r ∨ depsAfterReward (some r) deps = deps :=
  depsAfterReward_sum r deps

/-- non-vacuity (the input of seeded change C05 round 5): 0.35 btc-sized deposit, auction size 0.1, debt share
    1820000071, penalty 2.5 %: three whole lots and a remainder lot; debt per whole lot 520000020, one unit left over
    goes to the FIRST lot, whose penalty is `round(520000021 · 0.025) = round(13000000.525) = 13000001` while the
    others pay `round(13000000.5) = 13000000` (half-even): max bids 533000022, 533000020, 533000020, 266500010 -/
example : lotsOrNil (createAuctions 3 35000000 1820000071 10000000 ⟨25000000000000000⟩) =
    [⟨3, 10000000, 520000021, 533000022⟩, ⟨3, 10000000, 520000020, 533000020⟩,
     ⟨3, 10000000, 520000020, 533000020⟩, ⟨3, 5000000, 260000010, 266500010⟩] ∧
    penaltyOf 520000021 ⟨25000000000000000⟩ = 13000001 ∧ penaltyOf 520000020 ⟨25000000000000000⟩ = 13000000 := by
  decide +kernel

/-- non-vacuity, the largest-remainder rule.  Deposit 25, auction size 10, debt 7: whole lots 2.8 → 2 each (error
    20/25), remainder lot 1.4 → 1 (error 10/25), two units left over: the whole lots have the larger error and take
    both — (10, 3) (10, 3) (5, 1); at 50 % penalty `round(1.5) = 2`, `round(0.5) = 0` (half-even).  Deposit 15, debt 8:
    whole 5.33 → 5, remainder 2.67 → 2, one unit left and the remainder's error is the larger: (10, 5) (5, 3).
    A zero debt share gives lots with debt 0 and max bid 0; a zero deposit is a Go panic (division by zero). -/
example : lotsOrNil (createAuctions 3 25 7 10 ⟨500000000000000000⟩) =
      [⟨3, 10, 3, 5⟩, ⟨3, 10, 3, 5⟩, ⟨3, 5, 1, 1⟩] ∧
    lotsOrNil (createAuctions 3 15 8 10 ⟨500000000000000000⟩) = [⟨3, 10, 5, 7⟩, ⟨3, 5, 3, 5⟩] ∧
    lotsOrNil (createAuctions 3 20 0 10 ⟨500000000000000000⟩) = [⟨3, 10, 0, 0⟩, ⟨3, 10, 0, 0⟩] ∧
    (createAuctions 3 0 5 10 ⟨500000000000000000⟩).isOk = false := by
  decide +kernel

/-- non-vacuity, a whole seizure: two depositors (25 and 10), debt 11, auction size 10, penalty 50 %: shares
    `round(25/35 · 11) = 8` and the remainder 3; lots (10,3) (10,3) (5,2) for the first, (10,3) for the second -/
example : lotsOrNil (seizeLots 10 ⟨500000000000000000⟩ [(3, 25), (5, 10)] 11) =
    [⟨3, 10, 3, 5⟩, ⟨3, 10, 3, 5⟩, ⟨3, 5, 2, 3⟩, ⟨5, 10, 3, 5⟩] := by
  decide +kernel

end KV.Cdp
