/-
  C03 — precisebank: 18-decimal balances are exact integers fully backed by ukava.

  "Through the extended-precision bank interface a transfer of x akava lowers the sender's balance by
   exactly x and raises the recipient's by exactly x (a transfer to oneself changes nothing), and a mint
   or burn changes only the target module's balance by exactly x; … After every successful operation each
   fractional balance lies in [0,10^12), the remainder lies in [0,10^12) and is unchanged by transfers,
   the reserve's ukava times 10^12 equals the sum of all fractional balances plus the remainder …"

  The model is KavaVerif/Model/Precisebank.lean (send.go, mint.go, burn.go transcribed); `C` is the
  conversion factor regenerated from the source. Only property statements live here; helper lemmas are in
  KavaVerif/Proofs/Precisebank.lean.
-/
import KavaVerif.Proofs.Precisebank
import KavaVerif.Proofs.TieFnPrecisebank
set_option linter.unusedSimpArgs false
set_option linter.unusedVariables false

namespace KV.PB

/-- the generated conversion factor is the 10^12 the property names -/
theorem C03_conversion_factor : C = 10 ^ 12 := by decide

/-- Invariant preserved by every successful `SendCoins` (ukava passthrough `u` + akava `x`) between
    non-reserve parties, *including* a transfer to oneself. -/
theorem C03_inv_send (accts : List Addr) (hn : accts.Nodup) (R : Addr) (s s' : St) (frm to : Addr)
    (u x : Int) (hfR : frm ≠ R) (htR : to ≠ R) (hf : frm ∈ accts) (ht : to ∈ accts)
    (h : Inv accts R s) (hok : send R s frm to u x = .ok s') : Inv accts R s' := by
  unfold send at hok
  simp only [hfR, htR, or_self, ite_false] at hok
  split at hok
  · cases hok
  · rename_i s1 h1
    have i1 := sendIf_inv accts R _ s s1 frm to u hfR htR h h1
    split at hok
    · exact sendExt_inv accts hn R s1 s' frm to x hfR htR hf ht i1 hok
    · cases hok; exact i1

/-- A transfer moves exactly `u·C + x` akava from sender to recipient, touches nobody else
    (the reserve only changes its hidden ukava backing), and leaves remainder and supply alone. -/
theorem C03_send_exact (R : Addr) (s s' : St) (frm to : Addr) (u x : Int)
    (hne : frm ≠ to) (hfR : frm ≠ R) (htR : to ≠ R) (hu : 0 ≤ u) (hx : 0 ≤ x)
    (hfr : ∀ a, 0 ≤ s.frac a ∧ s.frac a < C)
    (hok : send R s frm to u x = .ok s') :
    ext s' frm = ext s frm - (u * C + x) ∧ ext s' to = ext s to + (u * C + x) ∧
    (∀ a, a ≠ frm → a ≠ to → a ≠ R → s'.bal a = s.bal a ∧ s'.frac a = s.frac a) ∧
    s'.rem = s.rem ∧ s'.supply = s.supply := by
  have hRf : R ≠ frm := fun e => hfR e.symm
  have hRt : R ≠ to := fun e => htR e.symm
  have hne' : ¬ to = frm := fun e => hne e.symm
  unfold send at hok
  simp only [hfR, htR, or_self, ite_false] at hok
  split at hok
  · cases hok
  · rename_i s1 h1
    obtain ⟨f1, r1, u1, bf⟩ := bankSendIf _ s s1 frm to frm u h1
    obtain ⟨-, -, -, bt⟩ := bankSendIf _ s s1 frm to to u h1
    simp only [hne, hne', and_false, and_true, ite_false] at bf bt
    have hoth : ∀ a, a ≠ frm → a ≠ to → s1.bal a = s.bal a := by
      intro a h1' h2'
      obtain ⟨-, -, -, ba⟩ := bankSendIf _ s s1 frm to a u h1
      simp only [h1', h2', and_false, ite_false] at ba; omega
    have hfr1 : ∀ a, 0 ≤ s1.frac a ∧ s1.frac a < C := by rw [f1]; exact hfr
    have e1f : ext s1 frm = ext s frm - u * C := by
      unfold ext; rw [f1, bf]
      by_cases hu0 : u > 0 <;> simp only [hu0, ite_true, ite_false] <;> simp only [C_val] <;> omega
    have e1t : ext s1 to = ext s to + u * C := by
      unfold ext; rw [f1, bt]
      by_cases hu0 : u > 0 <;> simp only [hu0, ite_true, ite_false] <;> simp only [C_val] <;> omega
    split at hok
    · obtain ⟨a1, a2, a3, -, a5, a6⟩ := sendExt_exact R s1 s' frm to x hne hfR htR hfr1 hx hok
      refine ⟨by rw [a1, e1f]; omega, by rw [a2, e1t]; omega, ?_, by rw [a5, r1], by rw [a6, u1]⟩
      intro a h1' h2' h3'
      have := a3 a h1' h2' h3'
      exact ⟨by rw [this.1, hoth a h1' h2'], by rw [this.2, f1]⟩
    · cases hok
      rename_i hx0
      have : x = 0 := by omega
      subst this
      refine ⟨by rw [e1f]; omega, by rw [e1t]; omega, ?_, r1, u1⟩
      intro a h1' h2' _
      exact ⟨hoth a h1' h2', by rw [f1]⟩

/-- A successful transfer to oneself changes nothing at all. -/
theorem C03_send_self_noop (R : Addr) (s s' : St) (a : Addr) (u x : Int)
    (hok : send R s a a u x = .ok s') :
    (∀ r, s'.bal r = s.bal r) ∧ s'.frac = s.frac ∧ s'.rem = s.rem ∧ s'.supply = s.supply ∧
    s'.locked = s.locked := by
  unfold send at hok
  split at hok
  · cases hok
  split at hok
  · cases hok
  · rename_i s1 h1
    have hb : ∀ r, s1.bal r = s.bal r := by
      intro r
      obtain ⟨-, -, -, b⟩ := bankSendIf _ s s1 a a r u h1
      rw [b]; split <;> omega
    obtain ⟨f1, r1, u1, -⟩ := bankSendIf _ s s1 a a a u h1
    have l1 := sendIf_locked _ s s1 a a u h1
    have fin : ∀ s'', Res.ok s1 = Res.ok s'' →
        (∀ r, s''.bal r = s.bal r) ∧ s''.frac = s.frac ∧ s''.rem = s.rem ∧ s''.supply = s.supply ∧
        s''.locked = s.locked := by
      intro s'' e; cases e; exact ⟨hb, f1, r1, u1, l1⟩
    split at hok
    · unfold sendExt at hok
      simp only [ite_true] at hok
      split at hok
      · cases hok
      · exact fin s' hok
    · exact fin s' hok

/-- The reserve→recipient carry of a transfer can never fail: the `panic` in send.go is unreachable
    from states satisfying the invariant (this is also C02's precisebank obligation). -/
theorem C03_send_never_panics (accts : List Addr) (hn : accts.Nodup) (R : Addr) (s : St)
    (frm to : Addr) (x : Int) (hfR : frm ≠ R) (htR : to ≠ R) (hf : frm ∈ accts) (ht : to ∈ accts)
    (hRlock : s.locked R = 0) (h : Inv accts R s) : sendExt R s frm to x ≠ .panic :=
  sendExt_no_panic accts hn R s frm to x hfR htR hf ht hRlock h

/-- "An operation fails exactly when bank rules require it": between distinct non-reserve parties,
    from any state satisfying the invariant, an akava transfer succeeds **iff** the sender's spendable
    extended balance covers the amount (`locked ≤ balance` is x/auth's own invariant, the reserve
    holds no vesting lock). -/
theorem C03_send_succeeds_iff (accts : List Addr) (hn : accts.Nodup) (R : Addr) (s : St) (frm to : Addr)
    (x : Int) (hne : frm ≠ to) (hfR : frm ≠ R) (htR : to ≠ R) (hf : frm ∈ accts) (ht : to ∈ accts)
    (hx : 0 ≤ x) (hlock : s.locked frm ≤ s.bal frm) (hRlock : s.locked R = 0) (h : Inv accts R s) :
    (∃ s', sendExt R s frm to x = .ok s') ↔ x ≤ extSpendable R s frm :=
  sendExt_ok_iff accts hn R s frm to x hne hfR htR hf ht hx hlock hRlock h

/-- Invariant preserved by every successful `MintCoins`. -/
theorem C03_inv_mint (accts : List Addr) (hn : accts.Nodup) (R : Addr) (s s' : St) (m : Addr)
    (perm : Bool) (u x : Int) (hm : m ∈ accts) (hx : 0 ≤ x)
    (h : Inv accts R s) (hok : mint R s m perm u x = .ok s') : Inv accts R s' := by
  unfold mint at hok
  split at hok
  · cases hok
  · rename_i hmR
    split at hok
    · cases hok
    · have hRm : R ≠ m := fun e => hmR e.symm
      have i1 : Inv accts R (mintIf (u > 0) s m u) := by
        obtain ⟨hfr, hr0, hr1, hres⟩ := h
        refine ⟨by simp only [mintIf_frac]; exact hfr, by simp only [mintIf_rem]; exact hr0,
          by simp only [mintIf_rem]; exact hr1, ?_⟩
        simp only [mintIf_frac, mintIf_rem, mintIf_bal, hRm, and_false, ite_false, Int.add_zero]
        exact hres
      split at hok
      · exact mintExt_inv accts hn R _ s' m x hmR hm hx i1 hok
      · cases hok; exact i1

/-- A mint of `x` akava raises exactly the target module's balance by `x` and the akava in
    circulation (`supply·C − remainder`) by `x`; nobody else changes. -/
theorem C03_mint_exact (R : Addr) (s s' : St) (m : Addr) (x : Int) (hmR : m ≠ R) (hx : 0 ≤ x)
    (hfr : 0 ≤ s.frac m ∧ s.frac m < C) (hr : 0 ≤ s.rem ∧ s.rem < C)
    (hok : mintExt R s m x = .ok s') :
    ext s' m = ext s m + x ∧
    (∀ a, a ≠ m → a ≠ R → s'.bal a = s.bal a ∧ s'.frac a = s.frac a) ∧
    s'.supply * C - s'.rem = s.supply * C - s.rem + x ∧
    (s'.rem - s.rem + x) % C = 0 := by
  obtain ⟨hf, hrm, -, hbm, hoth, hsup⟩ := mintExt_spec R s s' m x hmR hx hok
  have hm0 : 0 ≤ x % C := Int.emod_nonneg x (by decide)
  have hm1 : x % C < C := Int.emod_lt_of_pos x (by decide)
  refine ⟨?_, ?_, ?_, ?_⟩
  · unfold ext; rw [hf, hbm]; simp only [upd, ite_true]
    by_cases hc : s.frac m + x % C ≥ C <;> by_cases hn' : s.rem - x % C < 0 <;>
      simp only [hc, hn', ite_true, ite_false, and_self, and_true, and_false, true_and, false_and,
        not_true_eq_false, not_false_eq_true] <;> simp only [C_val] at * <;> omega
  · intro a h1 h2
    exact ⟨hoth a h1 h2, by rw [hf]; simp only [upd, h1, ite_false]⟩
  · rw [hsup, hrm]
    by_cases hc : s.frac m + x % C ≥ C <;> by_cases hn' : s.rem - x % C < 0 <;>
      simp only [hc, hn', ite_true, ite_false, and_self, and_true, and_false, true_and, false_and,
        not_true_eq_false, not_false_eq_true] <;> simp only [C_val] at * <;> omega
  · rw [hrm]
    by_cases hn' : s.rem - x % C < 0 <;> simp only [hn', ite_true, ite_false] <;>
      simp only [C_val] at * <;> omega

/-- Invariant preserved by every successful `BurnCoins`. -/
theorem C03_inv_burn (accts : List Addr) (hn : accts.Nodup) (R : Addr) (s s' : St) (m : Addr)
    (perm : Bool) (u x : Int) (hm : m ∈ accts) (hx : 0 ≤ x)
    (h : Inv accts R s) (hok : burn R s m perm u x = .ok s') : Inv accts R s' := by
  unfold burn at hok
  split at hok
  · cases hok
  · rename_i hmR
    split at hok
    · cases hok
    · have hRm : R ≠ m := fun e => hmR e.symm
      split at hok
      · cases hok
      · rename_i s1 h1
        obtain ⟨f1, r1, -, bR⟩ := burnIf_spec _ s s1 m R u h1
        simp only [hRm, and_false, ite_false, Int.sub_zero] at bR
        have i1 : Inv accts R s1 := by
          obtain ⟨hfr, hr0, hr1, hres⟩ := h
          exact ⟨by rw [f1]; exact hfr, by rw [r1]; exact hr0, by rw [r1]; exact hr1,
            by rw [f1, r1, bR]; exact hres⟩
        split at hok
        · exact burnExt_inv accts hn R s1 s' m x hmR hm hx i1 hok
        · cases hok; exact i1

/-- A burn of `x` akava lowers exactly the target module's balance by `x` and the akava in
    circulation by `x`; nobody else changes. -/
theorem C03_burn_exact (R : Addr) (s s' : St) (m : Addr) (x : Int) (hmR : m ≠ R) (hx : 0 ≤ x)
    (hfr : 0 ≤ s.frac m ∧ s.frac m < C) (hr : 0 ≤ s.rem ∧ s.rem < C)
    (hok : burnExt R s m x = .ok s') :
    ext s' m = ext s m - x ∧
    (∀ a, a ≠ m → a ≠ R → s'.bal a = s.bal a ∧ s'.frac a = s.frac a) ∧
    s'.supply * C - s'.rem = s.supply * C - s.rem - x ∧
    (s'.rem - s.rem - x) % C = 0 := by
  obtain ⟨hf, hrm, -, hbm, hoth, hsup⟩ := burnExt_spec R s s' m x hmR hx hok
  have hm0 : 0 ≤ x % C := Int.emod_nonneg x (by decide)
  have hm1 : x % C < C := Int.emod_lt_of_pos x (by decide)
  refine ⟨?_, ?_, ?_, ?_⟩
  · unfold ext; rw [hf, hbm]; simp only [upd, ite_true]
    by_cases hc : s.frac m - x % C < 0 <;> by_cases hn' : s.rem + x % C ≥ C <;>
      simp only [hc, hn', ite_true, ite_false, and_self, and_true, and_false, true_and, false_and,
        not_true_eq_false, not_false_eq_true] <;> simp only [C_val] at * <;> omega
  · intro a h1 h2
    exact ⟨hoth a h1 h2, by rw [hf]; simp only [upd, h1, ite_false]⟩
  · rw [hsup, hrm]
    by_cases hc : s.frac m - x % C < 0 <;> by_cases hn' : s.rem + x % C ≥ C <;>
      simp only [hc, hn', ite_true, ite_false, and_self, and_true, and_false, true_and, false_and,
        not_true_eq_false, not_false_eq_true] <;> simp only [C_val] at * <;> omega
  · rw [hrm]
    by_cases hn' : s.rem + x % C ≥ C <;> simp only [hn', ite_true, ite_false] <;>
      simp only [C_val] at * <;> omega

/-- The reserve is never a legal sender of `SendCoinsFromModuleToAccount`, never a legal recipient of
    `SendCoinsFromAccountToModule`, blocked recipients are refused, and mint/burn on the reserve or
    without permission abort. -/
theorem C03_guards (R : Addr) (blocked : Addr → Bool) (s : St) (a b : Addr) (u x : Int) :
    send R s R b u x = .err ∧ send R s a R u x = .err ∧
    sendModuleToAccount R blocked s R b u x = .err ∧
    (blocked b = true → sendModuleToAccount R blocked s a b u x = .err) ∧
    sendAccountToModule R s a R u x = .err ∧
    mint R s R true u x = .panic ∧ burn R s R true u x = .panic ∧
    (a ≠ R → mint R s a false u x = .panic) ∧ (a ≠ R → burn R s a false u x = .panic) := by
  refine ⟨by simp [send], by simp [send], by simp [sendModuleToAccount], ?_, by simp [sendAccountToModule], by simp [mint],
    by simp [burn], ?_, ?_⟩
  · intro hb; unfold sendModuleToAccount; split <;> simp [hb]
  · intro h; simp [mint, h]
  · intro h; simp [burn, h]

/-! ### Every reachable state -/

/-- the five calls of the extended bank interface -/
inductive Op where
  | send (frm to : Addr) (u x : Int)
  | m2a (frm to : Addr) (u x : Int)
  | a2m (frm to : Addr) (u x : Int)
  | mint (m : Addr) (perm : Bool) (u x : Int)
  | burn (m : Addr) (perm : Bool) (u x : Int)

def Op.run (R : Addr) (blocked : Addr → Bool) (s : St) : Op → Res
  | .send f t u x => KV.PB.send R s f t u x
  | .m2a f t u x => sendModuleToAccount R blocked s f t u x
  | .a2m f t u x => sendAccountToModule R s f t u x
  | .mint m p u x => KV.PB.mint R s m p u x
  | .burn m p u x => KV.PB.burn R s m p u x

/-- well-formed call: parties are known accounts, amounts are non-negative (sdk.Coins are) -/
def Op.wf (accts : List Addr) : Op → Prop
  | .send f t u x | .m2a f t u x | .a2m f t u x => f ∈ accts ∧ t ∈ accts ∧ 0 ≤ u ∧ 0 ≤ x
  | .mint m _ u x | .burn m _ u x => m ∈ accts ∧ 0 ≤ u ∧ 0 ≤ x

/-- what baseapp leaves behind: the new state on success, the old state on error or panic -/
def Op.step (R : Addr) (blocked : Addr → Bool) (s : St) (op : Op) : St :=
  match op.run R blocked s with
  | .ok s' => s'
  | _ => s

theorem C03_inv_send_any (accts : List Addr) (hn : accts.Nodup) (R : Addr) (s s' : St) (frm to : Addr)
    (u x : Int) (hf : frm ∈ accts) (ht : to ∈ accts)
    (h : Inv accts R s) (hok : send R s frm to u x = .ok s') : Inv accts R s' := by
  by_cases hR : frm = R ∨ to = R
  · unfold send at hok; simp only [hR, ite_true] at hok; cases hok
  · have hfR : frm ≠ R := fun e => hR (Or.inl e)
    have htR : to ≠ R := fun e => hR (Or.inr e)
    exact C03_inv_send accts hn R s s' frm to u x hfR htR hf ht h hok

theorem C03_inv_step (accts : List Addr) (hn : accts.Nodup) (R : Addr) (blocked : Addr → Bool) (s : St) (op : Op)
    (hwf : op.wf accts) (h : Inv accts R s) : Inv accts R (op.step R blocked s) := by
  unfold Op.step
  split
  · rename_i s' hrun
    cases op with
    | send f t u x =>
      obtain ⟨hf, ht, hu, hx⟩ := hwf
      exact C03_inv_send_any accts hn R s s' f t u x hf ht h hrun
    | m2a f t u x =>
      obtain ⟨hf, ht, hu, hx⟩ := hwf
      simp only [Op.run, sendModuleToAccount] at hrun
      split at hrun
      · cases hrun
      · split at hrun
        · cases hrun
        · exact C03_inv_send_any accts hn R s s' f t u x hf ht h hrun
    | a2m f t u x =>
      obtain ⟨hf, ht, hu, hx⟩ := hwf
      simp only [Op.run, sendAccountToModule] at hrun
      split at hrun
      · cases hrun
      · exact C03_inv_send_any accts hn R s s' f t u x hf ht h hrun
    | mint m p u x =>
      obtain ⟨hm, hu, hx⟩ := hwf
      exact C03_inv_mint accts hn R s s' m p u x hm hx h hrun
    | burn m p u x =>
      obtain ⟨hm, hu, hx⟩ := hwf
      exact C03_inv_burn accts hn R s s' m p u x hm hx h hrun
  · exact h

/-- **Every reachable state satisfies the invariant**: from any state satisfying it (genesis does),
    after any sequence of well-formed calls — successful, failed or panicking, in any order, by any
    parties — each fractional balance and the remainder are in `[0, C)` and the reserve backs them exactly. -/
theorem C03_reachable_inv (accts : List Addr) (hn : accts.Nodup) (R : Addr) (blocked : Addr → Bool)
    (ops : List Op) (s0 : St) (hwf : ∀ op ∈ ops, op.wf accts) (h0 : Inv accts R s0) :
    Inv accts R (ops.foldl (Op.step R blocked) s0) := by
  induction ops generalizing s0 with
  | nil => exact h0
  | cons op ops ih =>
    simp only [List.foldl_cons]
    apply ih
    · intro o ho; exact hwf o (List.mem_cons_of_mem _ ho)
    · exact C03_inv_step accts hn R blocked s0 op (hwf op (List.mem_cons_self ..)) h0

/-! Non-vacuity: a concrete state (non-zero remainder, three fractional balances) satisfying `Inv`
    on which a borrowing+carrying transfer, a mint and a burn all succeed. -/
def exSt : St :=
  { bal := fun a => if a = 0 then 2 else if a = 1 then 5 else if a = 2 then 7 else 0,
    locked := fun _ => 0,
    frac := fun a => if a = 1 then 999999999999 else if a = 2 then 400000000000 else if a = 3 then 100000000001 else 0,
    rem := 500000000000, supply := 14 }

example : Inv [1, 2, 3] 0 exSt := by
  refine ⟨?_, by decide, by decide, by decide⟩
  intro a; unfold exSt; simp only []; split <;> (try split) <;> (try split) <;> decide

example : (send 0 exSt 2 1 0 1500000000000).isOk = true := by decide
example : (send 0 exSt 3 1 0 1).isOk = true := by decide
example : (mint 0 exSt 1 true 0 700000000000).isOk = true := by decide
example : (burn 0 exSt 2 true 0 700000000000).isOk = true := by decide
example : (Op.send 2 1 0 1500000000000).wf [1, 2, 3] := by simp [Op.wf]

/-! ## source tie (regenerated)

    `GoFn.Precisebank.*` (Generated/FnPrecisebank.lean) is regenerated on every run from the Go source of
    x/precisebank/keeper/send.go by the function translator (tools/extract/fn*.go); the theorems say that the
    regenerated definitions ARE the hand-written model functions the theorems above are about.  A source edit
    re-opens the obligation of the edited function.  Proofs: Proofs/TieFnPrecisebank.lean. -/

/-- `subFromFractionalBalance` = (`subFrac`, "borrow required") whenever both operands are below the conversion
    factor (otherwise the Go function panics; `sendExtendedCoins` passes a stored fractional balance and `amt % C`) -/
theorem C03_source_tie_subFromFractionalBalance (cur amt : Int) (h1 : cur < C) (h2 : amt < C) :
    GoFn.Precisebank.subFromFractionalBalance_translated = true ∧
    GoFn.Precisebank.subFromFractionalBalance cur amt = Go.R.ok (subFrac cur amt, decide (cur - amt < 0)) :=
  TieFn.precisebank_subFromFractionalBalance cur amt h1 h2

/-- `addToFractionalBalance` = (`addFrac`, "carry required"), same domain -/
theorem C03_source_tie_addToFractionalBalance (cur amt : Int) (h1 : cur < C) (h2 : amt < C) :
    GoFn.Precisebank.addToFractionalBalance_translated = true ∧
    GoFn.Precisebank.addToFractionalBalance cur amt = Go.R.ok (addFrac cur amt, decide (cur + amt ≥ C)) :=
  TieFn.precisebank_addToFractionalBalance cur amt h1 h2

end KV.PB
