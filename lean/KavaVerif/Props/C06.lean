/-
  C06 — Auctions: custody is exact, outbid bidders are made whole, payouts are exact.

  "The auction module account always holds exactly the coins its open auctions account for, and every
   stored auction appears in the expiry index exactly once. A bid is accepted only if it improves on the
   standing one by the configured increment and respects the maximum bid; the outbid bidder is repaid
   their full bid in the same step, the end time never moves past the maximum end time, and an auction
   pays out only at or after its end time and only once. At close the winner receives exactly the lot,
   and collateral returned in the reverse phase is split among the original depositors so the parts sum
   exactly to the amount returned with each part within one unit of its exact pro-rata share."

  The model is KavaVerif/Model/Auction.lean (keeper/math.go, keeper/auctions.go, keeper/keeper.go,
  types/auctions.go, abci.go transcribed). Only property statements live here; helper lemmas are in
  KavaVerif/Proofs/Auction*.lean.

  Standing hypotheses, each stated where used:
  * `EnvOk env`   — the auction module account is a blocked address of x/bank (asserted by the harness
                    on the real app; it is what keeps users from sending coins into the module account).
  * `OpOk env op` — the module account itself is never seller or bidder, and the bid / lot / max bid a
                    calling module passes to `Start…Auction` are not negative (the keeper does not check).
-/
import KavaVerif.Proofs.AuctionSteps
import KavaVerif.Proofs.AuctionLive
import KavaVerif.Generated.C06Auction
import KavaVerif.Proofs.TieFnAuction
set_option linter.unusedSimpArgs false
set_option linter.unusedVariables false

namespace KV.Auc

/-! ## 0. Source facts the transcription rests on (regenerated from /repo by tools/extract on every run)

The model was written against these shapes: which comparison guards a bid (`After` the end time) and a
close (`Before` it), the `less` function handed to `sort.Slice`, per bid function the floor `1` of the
increment, the increment parameter and the duration / cap of the new end time, what
`GetModuleAccountCoins` accounts for per auction type, the store prefixes, and that app.go does not list
the auction module account among the unblocked ones (`EnvOk`). A source edit that changes one of them
changes the generated file and re-opens this obligation. -/
theorem C06_source_tables :
    KV.Gen.auctionBidTimeGuard = "After(auction.GetEndTime())" ∧
    KV.Gen.auctionCloseTimeGuard = "Before(auction.GetEndTime())" ∧
    KV.Gen.auctionSplitSortLess = "quotients[i].rem.GT(quotients[j].rem)" ∧
    KV.Gen.auctionBidShapes =
      ["PlaceBidSurplus|floor=sdkmath.NewInt(1)|inc=IncrementSurplus|end=ForwardBidDuration,cap=auction.MaxEndTime",
       "PlaceForwardBidCollateral|floor=sdkmath.NewInt(1)|inc=IncrementCollateral|end=ReverseBidDuration,cap=auction.MaxEndTime,ForwardBidDuration,cap=auction.MaxEndTime",
       "PlaceReverseBidCollateral|floor=sdkmath.NewInt(1)|inc=IncrementCollateral|end=ReverseBidDuration,cap=auction.MaxEndTime",
       "PlaceBidDebt|floor=sdkmath.NewInt(1)|inc=IncrementDebt|end=ForwardBidDuration,cap=auction.MaxEndTime"] ∧
    KV.Gen.auctionModuleAccountCoins =
      ["SurplusAuction => sdk.NewCoins(a.Lot)", "DebtAuction => sdk.NewCoins(a.CorrespondingDebt)",
       "CollateralAuction => sdk.NewCoins(a.Lot).Add(sdk.NewCoins(a.CorrespondingDebt))"] ∧
    "auctiontypes.ModuleName" ∉ KV.Gen.appUnblockedModuleAccounts ∧
    KV.Gen.auctionKeyPrefix = 0 ∧ KV.Gen.auctionByTimeKeyPrefix = 1 ∧ KV.Gen.auctionNextIDKey = 2 := by
  refine ⟨rfl, rfl, rfl, rfl, rfl, ?_, rfl, rfl, rfl⟩
  simp [KV.Gen.appUnblockedModuleAccounts]

/-! ## 1. The split (`splitIntIntoWeightedBuckets`)

`IsLRSplit amount weights parts` is the decidable predicate every real Go output is checked against
by the correspondence run. The first four theorems say what passing it certifies; the fifth says the
transcribed algorithm passes it whatever order the (unstable) `sort.Slice` produced. -/

/-- "…the parts sum exactly to the amount returned" -/
theorem C06_split_sum (a : Int) (ws parts : List Int) (h : IsLRSplit a ws parts) : sumL parts = a := by
  have := (isLRSplit_iff a ws parts).mp h
  rw [sumL_eq_sumTo, this.1]; exact this.2.2.1

/-- "…with each part within one unit of its exact pro-rata share": `|partᵢ·W − a·wᵢ| < W`,
    i.e. `|partᵢ − a·wᵢ/W| < 1`, and no part is negative. -/
theorem C06_split_within_one (a : Int) (ws parts : List Int) (hin : SplitInput a ws)
    (h : IsLRSplit a ws parts) (i : Nat) (hi : i < ws.length) :
    -(sumL ws) < parts.getD i 0 * sumL ws - a * ws.getD i 0 ∧
    parts.getD i 0 * sumL ws - a * ws.getD i 0 < sumL ws ∧ 0 ≤ parts.getD i 0 :=
  ⟨(lr_within_one a ws parts hin.2.2 h i hi).1, (lr_within_one a ws parts hin.2.2 h i hi).2,
   lr_part_nonneg a ws parts hin.1 hin.2.1 hin.2.2 h i hi⟩

/-- a depositor with weight zero receives nothing -/
theorem C06_split_zero_weight_gets_zero (a : Int) (ws parts : List Int) (hin : SplitInput a ws)
    (h : IsLRSplit a ws parts) (i : Nat) (hi : i < ws.length) (hw : ws.getD i 0 = 0) :
    parts.getD i 0 = 0 := lr_zero_weight a ws parts hin.2.2 h i hi hw

/-- largest-remainder rule: every part is `⌊a·wᵢ/W⌋` or one more; exactly `leftover = a − Σ⌊a·wᵢ/W⌋`
    buckets (fewer than the number of buckets) get the extra unit; they all have a positive remainder,
    at least as large as the remainder of any bucket that did not get it. -/
theorem C06_split_largest_remainder (a : Int) (ws parts : List Int) (hin : SplitInput a ws)
    (h : IsLRSplit a ws parts) :
    (∀ i, i < ws.length → parts.getD i 0 = qF a ws i ∨ parts.getD i 0 = qF a ws i + 1) ∧
    sumTo ws.length (fun i => parts.getD i 0 - qF a ws i) = leftover a ws ∧
    0 ≤ leftover a ws ∧ (0 < ws.length → leftover a ws < ws.length) ∧
    (∀ i, i < ws.length → parts.getD i 0 = qF a ws i + 1 → 0 < rF a ws i) ∧
    (∀ i, i < ws.length → ∀ j, j < ws.length → parts.getD i 0 = qF a ws i + 1 →
        parts.getD j 0 = qF a ws j → rF a ws j ≤ rF a ws i) := by
  obtain ⟨_, h01, _, hlr⟩ := (isLRSplit_iff a ws parts).mp h
  obtain ⟨hL0, _, hL1⟩ := leftover_bounds a ws hin.2.2
  refine ⟨?_, lr_extras_sum a ws parts h, hL0, hL1, ?_, ?_⟩
  · intro i hi; rcases h01 i hi with h0 | h1
    · left; omega
    · right; omega
  · intro i hi he; exact lr_extra_pos_rem a ws parts hin.2.2 h i hi (by omega)
  · intro i hi j hj hei hej; exact hlr i hi j hj (by omega) (by omega)

/-- The transcription of the Go function satisfies `IsLRSplit` for *every* order the sort may return
    (all buckets once, remainders non-increasing); in particular the executable model `lrSplit`
    (Go's insertion sort for ≤ 12 buckets) does, and it returns a value exactly on admissible input. -/
theorem C06_split_model (a : Int) (ws : List Int) :
    (∀ σ, 0 < sumL ws → Admissible a ws σ → IsLRSplit a ws (splitWith σ a ws)) ∧
    (∀ parts, lrSplit a ws = some parts → SplitInput a ws ∧ IsLRSplit a ws parts) :=
  ⟨fun σ hW hσ => splitWith_isLRSplit σ a ws hW hσ, fun parts h => lrSplit_some a ws parts h⟩

/-- non-vacuity: 10 units over weights 1:1:1 with a three-way tie; both tie-breaks pass, a wrong
    split does not. -/
example : IsLRSplit 10 [1, 1, 1] [4, 3, 3] ∧ IsLRSplit 10 [1, 1, 1] [3, 3, 4] ∧
    ¬ IsLRSplit 10 [1, 1, 1] [5, 3, 2] ∧ lrSplit 10 [1, 1, 1] = some [4, 3, 3] ∧
    lrSplit 7 [0, 5, 2] = some [0, 5, 2] := by decide

/-! ## 2. Custody and index, over all histories -/

/-- "The auction module account always holds exactly the coins its open auctions account for":
    inductive step — every successful operation (the three starts, a bid of any kind and phase incl.
    re-bids by the standing bidder, a close, a begin block, any outside transfer) preserves
    store well-formedness ∧ custody ∧ index exactness. -/
theorem C06_custody_step (env : Env) (hE : EnvOk env) (p : Params) (now : Int) (s s' : St) (op : Op)
    (hI : Inv env s) (hop : OpOk env op) (h : step env p now s op = .ok s') : Inv env s' :=
  step_inv env hE p now s s' op hI hop h

/-- … hence after every history from the empty module (failed operations change nothing), per denomination. -/
theorem C06_custody (env : Env) (hE : EnvOk env) (p : Params) (nextId : Nat) (bal : Bal)
    (h0 : ∀ d, bal env.M d = 0) (ops : List (Int × Op)) (hops : ∀ x, x ∈ ops → OpOk env x.2) (d : Denom) :
    (run env p (emptySt nextId bal) ops).bal env.M d = totalCoins (run env p (emptySt nextId bal) ops) d :=
  (run_inv env hE p ops _ (empty_inv env nextId bal h0) hops).2.1 d

/-- "every stored auction appears in the expiry index exactly once": after every history the raw index
    is strictly sorted by (end time, id), every stored auction has its key (end, id) in it, its id
    occurs in exactly one entry, and every entry belongs to a stored auction with that end time. -/
theorem C06_index_exact (env : Env) (hE : EnvOk env) (p : Params) (nextId : Nat) (bal : Bal)
    (h0 : ∀ d, bal env.M d = 0) (ops : List (Int × Op)) (hops : ∀ x, x ∈ ops → OpOk env x.2) :
    let s := run env p (emptySt nextId bal) ops
    Sorted s.index ∧
    (∀ i a, s.auc i = some a → a.id = i ∧ (a.endT, i) ∈ s.index ∧
        (s.index.filter (fun k => decide (k.2 = i))).length = 1) ∧
    (∀ k, k ∈ s.index → ∃ a, s.auc k.2 = some a ∧ a.endT = k.1) := by
  intro s
  obtain ⟨hwf, _, hix⟩ := run_inv env hE p ops _ (empty_inv env nextId bal h0) hops
  refine ⟨hix.1, ?_, fun k hk => index_no_stale s hix k hk⟩
  intro i a ha
  exact ⟨(hwf i a ha).1, (hix.2 a.endT i).mpr ⟨a, ha, rfl⟩, index_once s hix i a ha⟩

/-! ## 3. Bid rules -/

/-- the configured increment: `max(1, round(old · inc))` with sdk.Dec's banker's rounding -/
theorem C06_increment_def (old : Int) (inc : Dec) :
    incOf old inc = max 1 (Dec.roundInt (Dec.mul (Dec.ofInt old) inc)) ∧ 1 ≤ incOf old inc := by
  refine ⟨?_, incOf_pos old inc⟩
  unfold incOf; simp only [Int.max_def]; split <;> split <;> omega

/-- "A bid is accepted only if it improves on the standing one by the configured increment and
    respects the maximum bid": an accepted `PlaceBid` found the auction, not past its end time, and
    * forward (surplus; collateral while bid ≠ maxBid): bid denomination, `amt ≥ old + increment`
      (or `amt = maxBid` through the `min` clamp), `old < amt`, `amt ≤ maxBid`, lot untouched;
    * reverse (debt; collateral once bid = maxBid): lot denomination, `0 ≤ amt ≤ old − increment`,
      bid untouched;
    and the record stored under the id is the updated one with the new bidder. -/
theorem C06_bid_rules (env : Env) (hE : EnvOk env) (p : Params) (now : Int) (s s' : St) (id : Nat)
    (bidder : Addr) (denom : Denom) (amt : Int) (hI : Inv env s)
    (h : placeBid env p now s id bidder denom amt = .ok s') :
    ∃ a a', s.auc id = some a ∧ s'.auc id = some a' ∧ now ≤ a.endT ∧ BidRules p a a' bidder denom amt := by
  obtain ⟨a, a', b', ha, hend, hd, rfl⟩ := placeBid_spec env p now s s' id bidder denom amt h
  obtain ⟨haid, _, hawf⟩ := hI.1 id a ha
  have hid : a'.id = id := (bidDispatch_record env hE p now s.bal b' a a' bidder denom amt hd).1.trans haid
  refine ⟨a, a', ha, ?_, hend, bidDispatch_rules env hE p now s.bal b' a a' bidder denom amt hawf hd⟩
  rw [setAuction_auc]; unfold updA; simp only [hid, ite_true]

/-! ## 4. The outbid bidder is made whole in the same step -/

/-- Forward bids. If the standing bidder differs from the new one and the standing bid is positive,
    the standing bidder's balance rises by exactly that bid in the same step and the new bidder pays
    exactly the new bid; a re-bid by the standing bidder pays only the increment. (Bidders are not the
    initiating module account.) -/
theorem C06_outbid_refunded_forward (env : Env) (hE : EnvOk env) (p : Params) (now : Int) (s s' : St)
    (id : Nat) (bidder : Addr) (denom : Denom) (amt : Int) (a : Auction) (hI : Inv env s)
    (hbM : bidder ≠ env.M) (ha : s.auc id = some a)
    (hfwd : a.kind = .surplus ∨ (a.kind = .collateral ∧ a.bid ≠ a.maxBid))
    (h : placeBid env p now s id bidder denom amt = .ok s') :
    (bidder ≠ a.bidder → a.bid ≠ 0 → a.bidder ≠ a.initiator →
        s'.bal a.bidder a.bidD = s.bal a.bidder a.bidD + a.bid) ∧
    (bidder ≠ a.bidder → bidder ≠ a.initiator → s'.bal bidder a.bidD = s.bal bidder a.bidD - amt) ∧
    (bidder = a.bidder → bidder ≠ a.initiator → s'.bal bidder a.bidD = s.bal bidder a.bidD - (amt - a.bid)) := by
  obtain ⟨a0, a', b', ha0, _, hd, rfl⟩ := placeBid_spec env p now s s' id bidder denom amt h
  rw [ha] at ha0; cases ha0
  exact bidDispatch_flows_forward env hE p now s.bal b' a a' bidder denom amt (hI.1 id a ha).2.2 hbM hfwd hd

/-- Reverse bids (the bid is constant): the outbid bidder gets the whole bid back from the new
    bidder; a re-bid by the standing bidder moves no bid coins. For a collateral auction the statement
    is for `lotD ≠ bidD` (the returned lot coins are then a different denomination). -/
theorem C06_outbid_refunded_reverse (env : Env) (hE : EnvOk env) (p : Params) (now : Int) (s s' : St)
    (id : Nat) (bidder : Addr) (denom : Denom) (amt : Int) (a : Auction) (hI : Inv env s)
    (hbM : bidder ≠ env.M) (ha : s.auc id = some a)
    (hrev : a.kind = .debt ∨ (a.kind = .collateral ∧ a.bid = a.maxBid ∧ a.lotD ≠ a.bidD))
    (hnotfirst : a.bidder ≠ a.initiator)
    (h : placeBid env p now s id bidder denom amt = .ok s') :
    (bidder ≠ a.bidder → s'.bal a.bidder a.bidD = s.bal a.bidder a.bidD + a.bid) ∧
    (bidder ≠ a.bidder → bidder ≠ a.initiator → s'.bal bidder a.bidD = s.bal bidder a.bidD - a.bid) ∧
    (bidder = a.bidder → s'.bal bidder a.bidD = s.bal bidder a.bidD) := by
  obtain ⟨a0, a', b', ha0, _, hd, rfl⟩ := placeBid_spec env p now s s' id bidder denom amt h
  rw [ha] at ha0; cases ha0
  exact bidDispatch_flows_reverse env hE p now s.bal b' a a' bidder denom amt (hI.1 id a ha).2.2 hbM hrev
    hnotfirst hd

/-- First bid of a debt auction: the "standing bidder" is the initiating module; it receives the bid
    and `min(bid, debt)` of the escrowed debt, the record keeps the rest. -/
theorem C06_outbid_refunded_first_debt_bid (env : Env) (hE : EnvOk env) (p : Params) (now : Int)
    (s s' : St) (id : Nat) (bidder : Addr) (denom : Denom) (amt : Int) (a : Auction) (hI : Inv env s)
    (hbM : bidder ≠ env.M) (ha : s.auc id = some a) (hk : a.kind = .debt) (hfirst : a.bidder = a.initiator)
    (hbi : bidder ≠ a.initiator) (h : placeBid env p now s id bidder denom amt = .ok s') :
    (a.bidD ≠ a.debtD → s'.bal a.initiator a.bidD = s.bal a.initiator a.bidD + a.bid) ∧
    (a.bidD ≠ a.debtD →
        s'.bal a.initiator a.debtD = s.bal a.initiator a.debtD + (if a.bid < a.debt then a.bid else a.debt)) ∧
    s'.bal bidder a.bidD = s.bal bidder a.bidD - a.bid := by
  obtain ⟨a0, a', b', ha0, _, hd, rfl⟩ := placeBid_spec env p now s s' id bidder denom amt h
  rw [ha] at ha0; cases ha0
  exact (bidDebt_first_bid env hE p now s.bal b' a a' bidder denom amt (hI.1 id a ha).2.2 hbM hk hfirst hbi hd).2

/-! ## 5. End time -/

/-- "the end time never moves past the maximum end time": in every reachable state every stored
    auction has `end ≤ maxEnd`. -/
theorem C06_endtime_le_max (env : Env) (hE : EnvOk env) (p : Params) (nextId : Nat) (bal : Bal)
    (h0 : ∀ d, bal env.M d = 0) (ops : List (Int × Op)) (hops : ∀ x, x ∈ ops → OpOk env x.2)
    (i : Nat) (a : Auction) (ha : (run env p (emptySt nextId bal) ops).auc i = some a) : a.endT ≤ a.maxEnd :=
  ((run_inv env hE p ops _ (empty_inv env nextId bal h0) hops).1 i a ha).2.2.2.2.2.1

/-- An accepted bid: block time ≤ end time; `maxEnd` is set to `now + MaxAuctionDuration` by the first
    bid and never moves afterwards; the new end time is `min(now + bid duration, maxEnd)`, so it is
    ≤ `maxEnd`. A bid after the end time is refused. -/
theorem C06_endtime_bid (env : Env) (hE : EnvOk env) (p : Params) (now : Int) (s : St) (id : Nat)
    (bidder : Addr) (denom : Denom) (amt : Int) (a : Auction) (ha : s.auc id = some a) (hI : Inv env s) :
    (a.endT < now → placeBid env p now s id bidder denom amt = .err) ∧
    (∀ s', placeBid env p now s id bidder denom amt = .ok s' →
      ∃ a', s'.auc id = some a' ∧ now ≤ a.endT ∧ a'.hasBids = true ∧
        a'.maxEnd = (if a.hasBids then a.maxEnd else now + p.maxDur) ∧
        (∃ dur, (dur = p.fwdDur ∨ dur = p.revDur) ∧ a'.endT = endTime now dur a'.maxEnd) ∧
        a'.endT ≤ a'.maxEnd) := by
  refine ⟨placeBid_after_end env p now s id bidder denom amt a ha, ?_⟩
  intro s' h
  obtain ⟨a0, a', b', ha0, hend, hd, rfl⟩ := placeBid_spec env p now s s' id bidder denom amt h
  rw [ha] at ha0; cases ha0
  obtain ⟨hid, _, _, _, _, _, _, _, _, _, hhas, hmax, dur, hdur, hE'⟩ :=
    bidDispatch_record env hE p now s.bal b' a a' bidder denom amt hd
  have hid' : a'.id = id := hid.trans (hI.1 id a ha).1
  refine ⟨a', ?_, hend, hhas, hmax, ⟨dur, hdur, hE'⟩, by rw [hE']; exact endTime_le _ _ _⟩
  rw [setAuction_auc]; unfold updA; simp only [hid', ite_true]

/-- "an auction pays out only at or after its end time and only once": a close before the end time is
    refused; a successful close happened at `end ≤ now` and deletes the record, so closing the same id
    again fails with not-found; and no later operation ever stores anything under that id again. -/
theorem C06_payout_only_once (env : Env) (hE : EnvOk env) (p : Params) (now : Int) (s : St) (id : Nat)
    (hI : Inv env s) :
    (∀ a, s.auc id = some a → now < a.endT → closeAuction env now s id = .err) ∧
    (∀ s', closeAuction env now s id = .ok s' →
      (∃ a, s.auc id = some a ∧ a.endT ≤ now) ∧ s'.auc id = none ∧ id < s'.nextId ∧
      (∀ now', closeAuction env now' s' id = .notFound) ∧
      (∀ now' op s'', OpOk env op → step env p now' s' op = .ok s'' → s''.auc id = none ∧ id < s''.nextId)) := by
  refine ⟨fun a ha hlt => closeAuction_before_end env now s id a ha hlt, ?_⟩
  intro s' h
  have hI' := closeAuction_inv env hE now s s' id hI h
  obtain ⟨a, b', ha, hend, _, rfl⟩ := closeAuction_spec env now s s' id h
  have hnone : (deleteAuction { s with bal := b' } id).auc id = none := by
    rw [deleteAuction_auc]; unfold updA; simp only [ite_true]
  have hlt : id < (deleteAuction { s with bal := b' } id).nextId := (hI.1 id a ha).2.1
  refine ⟨⟨a, ha, hend⟩, hnone, hlt, fun now' => closeAuction_missing env now' _ id hnone, ?_⟩
  intro now' op s'' _ hs
  exact step_keeps_none env hE p now' _ s'' op id hI'.1 hnone hlt hs

/-- `BeginBlocker` ("close only when expired", abci.go + CloseExpiredAuctions): on a state satisfying the
    invariant, where balances are non-negative (x/bank) and every bidder is an unblocked address and
    debt-auction initiators may mint (`Closable`: checked by StartDebtAuction / true of every account that
    can sign a bid), the begin blocker completes — it never reaches its `panic` — closes exactly the
    auctions whose end time is ≤ the block time and leaves every other auction untouched. -/
theorem C06_begin_block_closes_expired (env : Env) (hE : EnvOk env) (now : Int) (s : St) (hI : Inv env s)
    (hc : Closable env s) (hnn : NonNeg s.bal) :
    ∃ s', beginBlock env now s = .ok s' ∧ Inv env s' ∧
      (∀ i a, s.auc i = some a → a.endT ≤ now → s'.auc i = none) ∧
      (∀ i a, s.auc i = some a → now < a.endT → s'.auc i = some a) := by
  obtain ⟨s', h⟩ := beginBlock_ok env hE now s hI hc hnn
  obtain ⟨h1, h2, _⟩ := beginBlock_result env now s s' hI.2.2 h
  exact ⟨s', h, beginBlock_inv env hE now s s' hI h, h1, h2⟩

/-! ## 6. Payouts -/

/-- "At close the winner receives exactly the lot": a successful close raises the winner's balance by
    exactly the lot, returns the remaining corresponding debt to the initiator (debt and collateral
    auctions), takes from the module account exactly what the record accounted for, and changes no
    other account. (The winner is not the initiating module account — true once a bid was placed.) -/
theorem C06_payout_exact (env : Env) (hE : EnvOk env) (now : Int) (s s' : St) (id : Nat) (a : Auction)
    (hI : Inv env s) (ha : s.auc id = some a) (hwin : a.bidder ≠ a.initiator)
    (h : closeAuction env now s id = .ok s') :
    s'.bal a.bidder a.lotD = s.bal a.bidder a.lotD + a.lot ∧
    (a.kind ≠ .surplus → s'.bal a.initiator a.debtD = s.bal a.initiator a.debtD + a.debt) ∧
    (∀ d, s'.bal env.M d = s.bal env.M d - modCoins a d) ∧
    (∀ z e, z ≠ env.M → z ≠ a.bidder → z ≠ a.initiator → s'.bal z e = s.bal z e) := by
  obtain ⟨a0, b', ha0, _, hp, rfl⟩ := closeAuction_spec env now s s' id h
  rw [ha] at ha0; cases ha0
  have hawf := (hI.1 id a ha).2.2
  obtain ⟨h1, h2, h3⟩ := payout_flows env hE s.bal b' a hawf hwin hp
  exact ⟨h1, h2, fun d => payout_custody env hE s.bal b' a hawf hp d, h3⟩

/-- "collateral returned in the reverse phase is split among the original depositors so the parts sum
    exactly to the amount returned with each part within one unit of its exact pro-rata share":
    an accepted reverse bid on a collateral auction takes exactly `lot − lot′` out of the module
    account and credits the return addresses with parts that form a largest-remainder split of
    `lot − lot′` by the return weights (so §1 applies to them). -/
theorem C06_payout_exact_reverse_returns (env : Env) (hE : EnvOk env) (p : Params) (now : Int)
    (s s' : St) (id : Nat) (bidder : Addr) (denom : Denom) (amt : Int) (a : Auction) (hI : Inv env s)
    (hbM : bidder ≠ env.M) (ha : s.auc id = some a) (hk : a.kind = .collateral) (hph : a.bid = a.maxBid)
    (h : placeBid env p now s id bidder denom amt = .ok s') :
    ∃ parts, IsLRSplit (a.lot - amt) a.retW parts ∧ SplitInput (a.lot - amt) a.retW ∧
      sumL parts = a.lot - amt ∧
      s'.bal env.M a.lotD = s.bal env.M a.lotD - (a.lot - amt) ∧
      (∀ z, z ≠ env.M → (a.lotD ≠ a.bidD ∨ bidder = a.bidder ∨ (z ≠ bidder ∧ z ≠ a.bidder)) →
          s'.bal z a.lotD = s.bal z a.lotD + credit z a.retAddrs parts) := by
  obtain ⟨a0, a', b', ha0, _, hd, rfl⟩ := placeBid_spec env p now s s' id bidder denom amt h
  rw [ha] at ha0; cases ha0
  exact bidRev_returns env hE p now s.bal b' a a' bidder denom amt (hI.1 id a ha).2.2 hbM hk hph hd

/-! ## 7. Governance changes the parameters while auctions are open

On a live chain the six auction parameters (three durations, three increments) are changed by governance /
committee proposals while auctions are running. `runP` is a history in which every operation carries the
parameters in force when it runs. The bid theorems above (`C06_bid_rules`, `C06_endtime_bid`, the refund
theorems) are already stated for the parameters `p` of the step they speak about, i.e. the parameters IN FORCE
at that bid; the history theorems are restated here for changing parameters, and the cap on the end time is
shown to be a property of the auction record alone. -/

/-- custody over every history with parameters changing between the operations -/
theorem C06_custody_params_change (env : Env) (hE : EnvOk env) (nextId : Nat) (bal : Bal)
    (h0 : ∀ d, bal env.M d = 0) (ops : List (Params × Int × Op)) (hops : ∀ x, x ∈ ops → OpOk env x.2.2)
    (d : Denom) :
    (runP env (emptySt nextId bal) ops).bal env.M d = totalCoins (runP env (emptySt nextId bal) ops) d :=
  (runP_inv env hE ops _ (empty_inv env nextId bal h0) hops).2.1 d

/-- index exactness over every history with parameters changing between the operations -/
theorem C06_index_exact_params_change (env : Env) (hE : EnvOk env) (nextId : Nat) (bal : Bal)
    (h0 : ∀ d, bal env.M d = 0) (ops : List (Params × Int × Op)) (hops : ∀ x, x ∈ ops → OpOk env x.2.2) :
    let s := runP env (emptySt nextId bal) ops
    Sorted s.index ∧
    (∀ i a, s.auc i = some a → a.id = i ∧ (a.endT, i) ∈ s.index ∧
        (s.index.filter (fun k => decide (k.2 = i))).length = 1) ∧
    (∀ k, k ∈ s.index → ∃ a, s.auc k.2 = some a ∧ a.endT = k.1) := by
  intro s
  obtain ⟨hwf, _, hix⟩ := runP_inv env hE ops _ (empty_inv env nextId bal h0) hops
  refine ⟨hix.1, ?_, fun k hk => index_no_stale s hix k hk⟩
  intro i a ha
  exact ⟨(hwf i a ha).1, (hix.2 a.endT i).mpr ⟨a, ha, rfl⟩, index_once s hix i a ha⟩

/-- "the end time never moves past the maximum end time", whatever the durations are changed to and when -/
theorem C06_endtime_le_max_params_change (env : Env) (hE : EnvOk env) (nextId : Nat) (bal : Bal)
    (h0 : ∀ d, bal env.M d = 0) (ops : List (Params × Int × Op)) (hops : ∀ x, x ∈ ops → OpOk env x.2.2)
    (i : Nat) (a : Auction) (ha : (runP env (emptySt nextId bal) ops).auc i = some a) : a.endT ≤ a.maxEnd :=
  ((runP_inv env hE ops _ (empty_inv env nextId bal h0) hops).1 i a ha).2.2.2.2.2.1

/-- The cap is the auction's own: once an auction has received its first bid (which fixed `maxEnd` from the
    `MaxAuctionDuration` in force at that moment), no later operation under any later parameters — in
    particular no bid after `MaxAuctionDuration` or a bid duration was shortened or lengthened — writes
    `maxEnd` again; as long as the auction is stored, its end time stays ≤ that same `maxEnd`. -/
theorem C06_max_end_fixed_under_param_changes (env : Env) (hE : EnvOk env) (s : St) (hI : Inv env s)
    (ops : List (Params × Int × Op)) (hops : ∀ x, x ∈ ops → OpOk env x.2.2)
    (i : Nat) (a a' : Auction) (ha : s.auc i = some a) (hb : a.hasBids = true)
    (ha' : (runP env s ops).auc i = some a') :
    a'.maxEnd = a.maxEnd ∧ a'.endT ≤ a.maxEnd ∧ a'.hasBids = true := by
  have hk := runP_capKept env hE ops s hI hops i a (hI.1 i a ha).2.1 (Or.inr ⟨a, ha, hb, rfl⟩)
  rcases hk with hn | ⟨a2, ha2, hb2, hm2⟩
  · rw [hn] at ha'; cases ha'
  · have hle := ((runP_inv env hE ops s hI hops).1 i a2 ha2).2.2.2.2.2.1
    rw [ha2] at ha'; cases ha'
    exact ⟨hm2, by rw [← hm2]; exact hle, hb2⟩

/-- One bid, read with the parameters in force `p` (any): the new end time is capped by the record's own
    `maxEnd`, not by `now + p.maxDur`, when the auction already has a bid. -/
theorem C06_endtime_cap_independent_of_params (env : Env) (hE : EnvOk env) (p : Params) (now : Int) (s s' : St)
    (id : Nat) (bidder : Addr) (denom : Denom) (amt : Int) (a : Auction) (ha : s.auc id = some a)
    (hI : Inv env s) (hb : a.hasBids = true) (h : placeBid env p now s id bidder denom amt = .ok s') :
    ∃ a', s'.auc id = some a' ∧ a'.maxEnd = a.maxEnd ∧ a'.endT ≤ a.maxEnd := by
  obtain ⟨a', ha', _, _, hmax, _, hle⟩ := (C06_endtime_bid env hE p now s id bidder denom amt a ha hI).2 s' h
  simp only [hb, ite_true] at hmax
  exact ⟨a', ha', hmax, by rw [← hmax]; exact hle⟩

/-! ## Non-vacuity: a concrete two-phase auction run through the model

Parties: 0 = auction module (blocked), 1 = liquidator module (minter, burner), 4/5 = bidders,
6/7/8 = depositors. Denominations: 0 = collateral, 1 = bid coin, 3 = debt coin. -/

def exEnv : Env :=
  { M := 0, nilAddr := 99, blocked := fun a => a < 4, minter := fun a => a == 1, burner := fun a => a == 1,
    distantFuture := 1000000 }

def exParams : Params :=
  { maxDur := 100, fwdDur := 50, revDur := 10, incS := ⟨50000000000000000⟩, incD := ⟨50000000000000000⟩,
    incC := ⟨50000000000000000⟩ }

def exBal : Bal := fun a d => if a = 1 then 1000 else if a = 4 ∨ a = 5 then (if d = 1 then 500 else 0) else 0

def exOps : List (Int × Op) :=
  [ (0, .startCollateral 1 0 100 1 60 [6, 7, 8] [1, 1, 1] 3 40),   -- lot 100, max bid 60, debt 40
    (1, .placeBid 1 4 1 20),                                       -- forward bid 20 by bidder 4
    (2, .placeBid 1 5 1 60),                                       -- bidder 5 hits the max bid: reverse phase
    (3, .placeBid 1 4 0 90),                                       -- reverse bid: lot 100 → 90, 10 split 4/3/3
    (13, .beginBlock) ]                                            -- end = min(3+10, 1+100) = 13: closes

example : EnvOk exEnv := by unfold EnvOk; decide
example : ∀ x, x ∈ exOps → OpOk exEnv x.2 := by
  intro x hx
  simp only [exOps, List.mem_cons, List.mem_nil_iff, or_false] at hx
  rcases hx with rfl | rfl | rfl | rfl | rfl <;> simp [OpOk, exEnv]

/-- every operation of the example succeeds, and the balances are the ones the theorems predict -/
example :
    let s := run exEnv exParams (emptySt 1 exBal) exOps
    (step exEnv exParams 0 (emptySt 1 exBal) (.startCollateral 1 0 100 1 60 [6, 7, 8] [1, 1, 1] 3 40)).isOk = true ∧
    s.auc 1 = none ∧ s.index = [] ∧ s.nextId = 2 ∧
    s.bal 0 0 = 0 ∧ s.bal 0 3 = 0 ∧            -- module account empty again
    s.bal 4 0 = 90 ∧ s.bal 4 1 = 500 - 60 ∧     -- winner: the lot; paid the max bid once (20 was refunded, then 60)
    s.bal 5 1 = 500 ∧                           -- outbid bidder 5 made whole
    s.bal 6 0 = 4 ∧ s.bal 7 0 = 3 ∧ s.bal 8 0 = 3 ∧   -- 10 returned, split 4/3/3
    s.bal 1 3 = 1000 ∧ s.bal 1 1 = 1000 + 60 := by decide

/-! ## source tie (regenerated)

    `GoFn.Auction.*` (Generated/FnAuction.lean) is regenerated on every run from the Go source of
    x/auction/keeper/auctions.go by the function translator (tools/extract/fn*.go); the theorem says that the
    regenerated definition IS the hand-written model function.  Proof: Proofs/TieFnAuction.lean. -/

/-- `earliestTime(now.Add(d), maxEnd)`, the new end time of an auction after a bid, = `endTime now d maxEnd` -/
theorem C06_source_tie_earliestTime (now d maxEnd : Int) :
    GoFn.Auction.earliestTime_translated = true ∧
    GoFn.Auction.earliestTime (now + d) maxEnd = Go.R.ok (endTime now d maxEnd) :=
  TieFn.auction_earliestTime now d maxEnd

end KV.Auc
