/-
  C12 — Liquid staking: derivatives are backed, redeemable and vote like their stake.

  "For each validator the supply of its liquid-staking derivative never exceeds the delegation shares held by
   the liquid module account, so every holder can always redeem. Minting moves the requested stake from the
   user's delegation to the module and burning moves it back, without an unbonding period, without changing the
   validator's bonded tokens, without changing the staked value owned by the user by more than two base units
   per operation and without ever creating an empty delegation; conversions are refused while the delegator has
   an incoming redelegation to that validator or when they would take a validator's self-delegation below its
   minimum. In governance tallies a derivative, whether held in a wallet, in savings or in earn, carries the
   voting power its backing delegation would carry: counted once, only while its validator is bonded, so the
   total counted power never exceeds the total bonded stake."

  The model is KavaVerif/Model/Liquid.lean: x/liquid's TransferDelegation / MintDerivative / BurnDerivative and
  app/tally_handler.go transcribed line by line over the x/staking primitives as the SDK writes them (modelled,
  not verified: x/staking is trusted).  `Cfg.current` is the code in /repo, `Cfg.fixed` the code with the three
  one-line repairs of findings/C12-*.diff.  Four statements of the property are FALSE on the code as it is; for
  each the full statement is kept in the doc comment, its negation is proved on a literal witness
  (`…_counterexample`), the strongest true part is proved for the code as it is (`…_partial`) and the full
  statement is proved for the repaired code (`…_fixed`).  Only property statements live here; helper lemmas are
  in KavaVerif/Proofs/Liquid*.lean.
-/
import KavaVerif.Proofs.LiquidTally
set_option linter.unusedSimpArgs false
set_option linter.unusedVariables false

namespace KV.Liquid
open KV

/-! ## Witness states (all reachable: see findings/C12-*.md for the same histories on the real keepers) -/

/-- a validator slashed by 7 %: 93 tokens for 100 shares; account 1 and the operator 9 hold 50 shares each -/
def exSlashed : VSt :=
  { val := some { tokens := 93, shares := ⟨100 * P⟩, status := .bonded, minSelf := 1, jailed := false, oper := 9 },
    del := fun a => if a = 1 then some ⟨50 * P⟩ else if a = 9 then some ⟨50 * P⟩ else none,
    redel := fun _ => false, ubd := fun _ => 0, bal := fun _ => 0, supply := 0 }

/-- the same validator; the module (0) holds 10 shares backing 10 derivative units, one of which belongs to
    account 2, which never delegated -/
def exHolder : VSt :=
  { val := some { tokens := 93, shares := ⟨100 * P⟩, status := .bonded, minSelf := 1, jailed := false, oper := 9 },
    del := fun a => if a = 0 then some ⟨10 * P⟩ else if a = 1 then some ⟨40 * P⟩ else if a = 9 then some ⟨50 * P⟩ else none,
    redel := fun _ => false, ubd := fun _ => 0, bal := fun a => if a = 2 then 1 else if a = 1 then 9 else 0, supply := 10 }

/-- a healthy validator (exchange rate one) with the same holders -/
def exHealthy : VSt :=
  { val := some { tokens := 100, shares := ⟨100 * P⟩, status := .bonded, minSelf := 30, jailed := false, oper := 9 },
    del := fun a => if a = 0 then some ⟨10 * P⟩ else if a = 1 then some ⟨40 * P⟩ else if a = 9 then some ⟨50 * P⟩ else none,
    redel := fun a => decide (a = 3), ubd := fun _ => 0, bal := fun a => if a = 2 then 1 else if a = 1 then 9 else 0, supply := 10 }

/-- 930 tokens for 1000 shares; account 1 owns 900 of them -/
def exWhale : VSt :=
  { val := some { tokens := 930, shares := ⟨1000 * P⟩, status := .bonded, minSelf := 1, jailed := false, oper := 9 },
    del := fun a => if a = 1 then some ⟨900 * P⟩ else if a = 9 then some ⟨100 * P⟩ else none,
    redel := fun _ => false, ubd := fun _ => 0, bal := fun _ => 0, supply := 0 }

def exAccts : List Addr := [0, 1, 2, 9]

theorem exSlashed_wf : WF exAccts exSlashed ∧ SaneRate exSlashed ∧ Backed 0 exSlashed := by
  refine ⟨⟨?_, ?_, ?_⟩, ?_, by decide⟩
  · intro a ha; simp only [exAccts, List.mem_cons, List.not_mem_nil, or_false, not_or] at ha
    simp only [exSlashed, ha.2.1, ha.2.2.2, ite_false]
  · intro a d hd; simp only [exSlashed] at hd
    split at hd
    · cases hd; decide
    · split at hd
      · cases hd; decide
      · cases hd
  · intro v hv; simp only [exSlashed, Option.some.injEq] at hv; subst hv; decide
  · intro v hv; simp only [exSlashed, Option.some.injEq] at hv; subst hv; decide

/-! ## 1. Backing -/

/-- **FALSE on the code as it is** (finding F6).  Full statement: every successful MintDerivative preserves
    `supply(v) ≤ module delegation shares(v)`.  On a validator whose exchange rate is not one, `MintDerivative`
    mints `⌊shares sent⌋` derivative units while the module receives `SharesFromTokens(⌊TokensFromShares(shares
    sent)⌋)`, which can be more than one share less: minting 3 tokens on the 93/100 validator mints 3 units
    against 2.1269… module shares.  The state satisfies every invariant of x/staking (`exSlashed_wf`). -/
theorem C12_backed_counterexample :
    ¬ (∀ (M : Addr) (c c' : VSt) (d : Addr) (amount der : Int), d ≠ M → Backed M c →
        mint Cfg.current M c d true amount = .ok (c', der) → Backed M c') := by
  intro h
  have w : (mint Cfg.current 0 exSlashed 1 true 3).okAnd (fun p => decide (¬ Backed 0 p.1)) = true := by decide
  obtain ⟨⟨c', der⟩, hm, hp⟩ := Res.okAnd_elim w
  exact (of_decide_eq_true hp) (h 0 exSlashed c' 1 3 der (by decide) (by decide) hm)

/-- The strongest true part on the code as it is: along every history (mints, burns, sends, delegations,
    undelegations, redelegations, jailing / status changes, slashes of *other* validators — failed messages
    change nothing), a validator that starts with exchange rate one and whole shares and is never slashed keeps
    its derivative backed.  `accts` lists the accounts that ever delegate (x/staking's well-formedness is carried
    along for the redelegations arriving from other validators). -/
theorem C12_backed_partial (accts : List Addr) (hn : accts.Nodup) (g : Cfg) (M : Addr) (hM : M ∈ accts) (v : Nat)
    (ops : List Op) (s s' : Chain) (hact : ∀ op ∈ ops, ∀ a ∈ op.actors, a ∈ accts)
    (hns : ∀ op ∈ ops, ¬ op.slashes v) (hwf : ∀ w, WF accts (s w)) (hgood : Good M (s v))
    (hrun : run g M s ops = some s') : Backed M (s' v) :=
  (run_good accts hn g M hM v ops s s' hact hns (fun w => ⟨hwf w, by intro e; cases e⟩) hgood hrun).2

/-- non-vacuity: `exHealthy` meets the hypotheses and a mint, a burn and a refused mint happen in a history -/
example : Good 0 exHealthy := by
  refine ⟨⟨?_, ?_⟩, by decide⟩
  · intro a d hd; simp only [exHealthy] at hd
    split at hd
    · cases hd; decide
    · split at hd
      · cases hd; decide
      · split at hd
        · cases hd; decide
        · cases hd
  · intro v hv; simp only [exHealthy, Option.some.injEq] at hv; subst hv; decide
example : (match run Cfg.current 0 (fun _ => exHealthy) [.mint 1 0 7, .burn 2 0 1, .mint 3 0 1, .slash 1 5] with
    | some s => decide ((s 0).supply = 16 ∧ dm (s 0) 0 = 16 * P ∧ dm (s 0) 2 = 1 * P) | none => false) = true := by decide

/-- **Full statement, proved for the repaired code** (`mintReceived`: mint ⌊shares received by the module⌋):
    along every history, slashes of any validator included, every validator's derivative supply stays within the
    module's delegation shares. -/
theorem C12_backed_fixed (accts : List Addr) (hn : accts.Nodup) (g : Cfg) (hg : g.mintReceived = true)
    (M : Addr) (hM : M ∈ accts) (ops : List Op) (s s' : Chain)
    (hact : ∀ op ∈ ops, ∀ a ∈ op.actors, a ∈ accts)
    (hwf : ∀ w, WF accts (s w)) (hb : ∀ w, Backed M (s w))
    (hrun : run g M s ops = some s') : ∀ w, Backed M (s' w) := fun w =>
  (run_inv_fixed true accts hn g (fun _ => hg) M hM ops s s' hact (fun w => ⟨hwf w, fun _ => hb w⟩) hrun w).2 rfl

/-- the repaired code on the witness of the counterexample: 2 units against 2.1269… shares -/
example : (mint Cfg.fixed 0 exSlashed 1 true 3).okAnd (fun p => decide (Backed 0 p.1 ∧ p.2 = 2)) = true := by decide
example : (match run Cfg.fixed 0 (fun _ => exSlashed) [.mint 1 0 3, .slash 0 40, .mint 1 0 5, .burn 1 0 2] with
    | some s => decide (Backed 0 (s 0) ∧ 0 < (s 0).supply) | none => false) = true := by decide

/-- True on the code as it is, whatever the exchange rate: a burn lowers the supply by `amount` and the module's
    shares by exactly `amount` shares, so burning never creates or widens a backing deficit (and, read backwards,
    never repairs one: a deficit once created by a mint stays until the last holders find their burn refused). -/
theorem C12_burn_keeps_margin (g : Cfg) (M : Addr) (c c' : VSt) (d : Addr) (amount : Int) (r : Dec) (hne : d ≠ M)
    (h : burn g M c d amount = .ok (c', r)) :
    dm c' M - c'.supply * P = dm c M - c.supply * P := by
  obtain ⟨-, -, ht⟩ := burn_effect g M c c' d amount r h
  obtain ⟨x, v, v2, amt, hx, -, -, -, -, -, -, hdf, -, -, -, -, hs, -, -⟩ :=
    transfer_effect g _ c' M d _ r (fun e => hne e.symm) ht
  have hm : dm c M = x.m := by unfold dm; rw [show c.del M = some x from hx]
  have hm' : dm c' M = x.m - (Dec.ofInt amount).m := by
    unfold dm; rw [hdf]
    by_cases h0 : x.m - (Dec.ofInt amount).m = 0
    · rw [if_pos h0]; simp only []; omega
    · rw [if_neg h0]
  rw [hm, hm', hs]
  show x.m - amount * P - (c.supply - amount) * P = x.m - c.supply * P
  have : (c.supply - amount) * P = c.supply * P - amount * P := Int.sub_mul _ _ _
  omega

/-! ## 2. No empty delegation -/

/-- **FALSE on the code as it is** (finding F7).  Full statement: a successful conversion never leaves a
    delegation record with zero shares.  Burning one derivative unit of the 93/100 validator unbonds one module
    share worth ⌊0.93⌋ = 0 tokens, delegates 0 tokens for the holder and stores a delegation of 0 shares for an
    account that never delegated. -/
theorem C12_no_empty_delegation_counterexample :
    ¬ (∀ (M : Addr) (c c' : VSt) (d : Addr) (amount : Int) (r : Dec), d ≠ M → (∀ a, NoEmptyAt c a) →
        burn Cfg.current M c d amount = .ok (c', r) → ∀ a, NoEmptyAt c' a) := by
  intro h
  have w : (burn Cfg.current 0 exHolder 2 1).okAnd (fun p => decide (¬ NoEmptyAt p.1 2)) = true := by decide
  obtain ⟨⟨c', r⟩, hm, hp⟩ := Res.okAnd_elim w
  refine (of_decide_eq_true hp) (h 0 exHolder c' 2 1 r (by decide) ?_ hm 2)
  intro a; unfold NoEmptyAt exHolder; simp only []
  split
  · decide
  · split
    · decide
    · split
      · decide
      · simp

/-- The strongest true part on the code as it is: a transfer of shares worth at least one token (at a sane
    exchange rate: one 10^-18 share is worth at most half a token) credits a strictly positive number of shares
    and leaves no empty record. -/
theorem C12_no_empty_delegation_partial (accts : List Addr) (hn : accts.Nodup) (g : Cfg) (c c' : VSt)
    (frm to : Addr) (sh r : Dec) (hf : frm ∈ accts) (ht : to ∈ accts) (hne : frm ≠ to) (hwf : WF accts c)
    (hrate : SaneRate c) (hworth : WorthOneToken c sh) (hnone : ∀ a, NoEmptyAt c a)
    (h : transfer g c frm to sh = .ok (c', r)) : 0 < r.m ∧ ∀ a, NoEmptyAt c' a := by
  obtain ⟨h1, -, -, h4⟩ := transfer_no_empty accts hn g c c' frm to sh r hf ht hne hwf hrate (Or.inr hworth) h
  exact ⟨h4 hworth, fun a => h1 a (hnone a)⟩

example : WorthOneToken exHolder (Dec.ofInt 2) := by
  intro v hv; simp only [exHolder, Option.some.injEq] at hv; subst hv; decide

/-- **Full statement, proved for the repaired code** (`skipZeroDelegate`: when the unbonded amount is zero nothing
    is re-delegated and zero received shares are returned — the outcome the maintainers' own test
    "zero shares received when transfer < 1 token" expects, minus the empty record): every successful
    TransferDelegation — hence every mint and burn — leaves no empty delegation; either the recipient's record is
    untouched and zero shares are reported, or a strictly positive number of shares is credited. -/
theorem C12_no_empty_delegation_fixed (accts : List Addr) (hn : accts.Nodup) (g : Cfg) (hg : g.skipZeroDelegate = true)
    (c c' : VSt) (frm to : Addr) (sh r : Dec) (hf : frm ∈ accts) (ht : to ∈ accts) (hne : frm ≠ to)
    (hwf : WF accts c) (hrate : SaneRate c) (hnone : ∀ a, NoEmptyAt c a)
    (h : transfer g c frm to sh = .ok (c', r)) :
    (∀ a, NoEmptyAt c' a) ∧ ((c'.del to = c.del to ∧ r.m = 0) ∨ 0 < r.m) := by
  obtain ⟨h1, -, h3, -⟩ := transfer_no_empty accts hn g c c' frm to sh r hf ht hne hwf hrate (Or.inl hg) h
  refine ⟨fun a => h1 a (hnone a), ?_⟩
  rcases h3 with h3 | h3
  · exact Or.inl h3
  · exact Or.inr h3.1

/-- the repaired code on the witness of the counterexample: the unit is burnt, no record is stored for account 2;
    a burn of two units credits shares -/
example : (burn Cfg.fixed 0 exHolder 2 1).okAnd (fun p => decide (p.1.del 2 = none ∧ p.2.m = 0 ∧ p.1.supply = 9)) = true := by decide
example : (burn Cfg.fixed 0 exHolder 1 2).okAnd (fun p => decide (NoEmptyAt p.1 1 ∧ 0 < p.2.m)) = true := by decide

/-! ## 3. Bonded tokens, status and unbonding entries are untouched -/

/-- A successful mint or burn leaves the validator in place with the same tokens (hence the same bonded tokens and
    voting power), the same status, jailed flag, minimum self delegation and operator: the stake never leaves the
    validator, and the self-delegation guard makes the jailing branch of `Unbond` unreachable.  (`hpos` is needed
    only for the repaired code, whose zero-amount branch does not re-delegate: a validator without tokens that loses
    its last share is removed by `Unbond`, as in x/staking's own Undelegate.) -/
theorem C12_bonded_tokens_unchanged (g : Cfg) (M : Addr) (c c' : VSt) (d : Addr) (amount : Int) (hne : d ≠ M)
    (hpos : g.skipZeroDelegate = false ∨ ∀ v, c.val = some v → 0 < v.tokens) :
    (∀ der, mint g M c d true amount = .ok (c', der) →
      ∃ v v', c.val = some v ∧ c'.val = some v' ∧ v'.tokens = v.tokens ∧ v'.status = v.status ∧
        v'.jailed = v.jailed ∧ v'.minSelf = v.minSelf ∧ v'.oper = v.oper) ∧
    (∀ r, burn g M c d amount = .ok (c', r) →
      ∃ v v', c.val = some v ∧ c'.val = some v' ∧ v'.tokens = v.tokens ∧ v'.status = v.status ∧
        v'.jailed = v.jailed ∧ v'.minSelf = v.minSelf ∧ v'.oper = v.oper) := by
  -- common part: the validator record after a transfer
  have key : ∀ (c0 c2 : VSt) (frm to : Addr) (sh r : Dec), frm ≠ to → c0.val = c.val →
      transfer g c0 frm to sh = .ok (c2, r) →
      ∃ v v', c.val = some v ∧ c2.val = some v' ∧ v'.tokens = v.tokens ∧ v'.status = v.status ∧
        v'.jailed = v.jailed ∧ v'.minSelf = v.minSelf ∧ v'.oper = v.oper := by
    intro c0 c2 frm to sh r hft hval ht
    obtain ⟨x, v, v2, amt, -, hv, -, -, -, -, hrm, -, -, -, -, -, -, -, hcase⟩ := transfer_effect g c0 c2 frm to sh r hft ht
    rw [hval] at hv
    obtain ⟨a1, a2, a3, a4, a5, a6⟩ := removeDelShares_spec v v2 sh amt hrm
    rcases hcase with ⟨hs, ha0, -, -, hv2⟩ | ⟨-, v3, -, hadd, hv3, -⟩
    · have hT : 0 < v.tokens := by
        rcases hpos with hp | hp
        · rw [hs] at hp; cases hp
        · exact hp v hv
      rcases a6 with ⟨-, e1, -⟩ | ⟨hne2, -, -, e2, -⟩
      · omega
      · refine ⟨v, v2, hv, by rw [hv2, if_neg (fun hh => hne2 hh.1)], by omega, a2, a4, a3, a5⟩
    · obtain ⟨t1, -, t3, t4, t5, t6⟩ := xfer_val v v2 v3 sh r amt hrm hadd
      exact ⟨v, v3, hv, hv3, t1, t3, t4, t5, t6⟩
  constructor
  · intro der h
    obtain ⟨-, shares, c1, r, -, ht, -, e1, -⟩ := mint_effect g M c c' d amount der h
    obtain ⟨v, v', h1, h2, h3⟩ := key c c1 d M shares r hne rfl ht
    exact ⟨v, v', h1, by rw [e1]; exact h2, h3⟩
  · intro r h
    obtain ⟨-, -, ht⟩ := burn_effect g M c c' d amount r h
    exact key { c with bal := updI c.bal d (c.bal d - amount), supply := c.supply - amount } c' M d _ r
      (fun e => hne e.symm) rfl ht

/-- A successful mint or burn creates no unbonding-delegation entry and no redelegation record for anybody, and the
    recipient's delegation is credited with the received shares in the same step (there is no unbonding period). -/
theorem C12_no_unbonding_entry (g : Cfg) (M : Addr) (c c' : VSt) (d : Addr) (amount : Int) (hne : d ≠ M) :
    (∀ der, mint g M c d true amount = .ok (c', der) →
      c'.ubd = c.ubd ∧ c'.redel = c.redel ∧ ∃ r : Dec, dm c' M = dm c M + r.m) ∧
    (∀ r, burn g M c d amount = .ok (c', r) →
      c'.ubd = c.ubd ∧ c'.redel = c.redel ∧ dm c' d = dm c d + r.m) := by
  constructor
  · intro der h
    obtain ⟨-, shares, c1, r, -, ht, -, -, e2, e3, e4, -⟩ := mint_effect g M c c' d amount der h
    obtain ⟨x, v, v2, amt, -, -, -, -, -, -, -, -, -, f1, f2, -, -, hdt, -⟩ := transfer_effect g c c1 d M shares r hne ht
    refine ⟨by rw [e4, f2], by rw [e3, f1], r, ?_⟩
    have : dm c' M = dm c1 M := by unfold dm; rw [e2]
    rw [this]; exact hdt
  · intro r h
    obtain ⟨-, -, ht⟩ := burn_effect g M c c' d amount r h
    obtain ⟨x, v, v2, amt, -, -, -, -, -, -, -, -, -, f1, f2, -, -, hdt, -⟩ :=
      transfer_effect g _ c' M d _ r (fun e => hne e.symm) ht
    exact ⟨f2, f1, hdt⟩

example : (mint Cfg.current 0 exHealthy 1 true 7).isOk = true ∧ (burn Cfg.current 0 exHealthy 2 1).isOk = true := by decide

/-! ## 4. Guards -/

/-- Conversions are refused while the delegator (for a burn: the module account) has an incoming redelegation to
    the validator, and when they would take the operator's self-delegation below the validator's minimum. -/
theorem C12_guards (g : Cfg) (M : Addr) (c : VSt) (frm to d : Addr) (sh : Dec) (amount : Int) :
    (c.redel frm = true → transfer g c frm to sh = .err) ∧
    (∀ v x, c.val = some v → c.del frm = some x → frm = v.oper → v.belowMinSelf (x.sub sh) = true →
        transfer g c frm to sh = .err) ∧
    (c.redel d = true → (mint g M c d true amount).isErr = true) ∧
    (c.redel M = true → 0 ≤ amount → (burn g M c d amount).isErr = true) := by
  refine ⟨?_, ?_, ?_, ?_⟩
  · intro h; unfold transfer; simp only [h, ite_true]
  · intro v x hv hx ho hb
    unfold transfer
    split
    · rfl
    · split
      · rfl
      · split
        · rfl
        · rw [hx]; simp only []; rw [hv]; simp only []; rw [if_pos ⟨ho, hb⟩]
  · intro h
    unfold mint
    simp only [Bool.true_eq_false, ite_false]
    split
    · rfl
    · split
      · rfl
      · unfold transfer; simp only [h, ite_true]; rfl
  · intro h h0
    unfold burn
    have : ¬ amount < 0 := by omega
    simp only [this, ite_false]
    split
    · rfl
    · unfold transfer; simp only [h, ite_true]; rfl

/-- non-vacuity: account 3 has an incoming redelegation; the operator 9 may mint 20 of its 50 (minimum 30) but not 21 -/
example : (mint Cfg.current 0 { exHealthy with del := fun a => if a = 3 then some ⟨5 * P⟩ else exHealthy.del a } 3 true 1).isErr = true := by decide
example : (mint Cfg.current 0 exHealthy 9 true 20).isOk = true ∧ (mint Cfg.current 0 exHealthy 9 true 21).isErr = true := by decide

/-! ## 5. The value of the user's stake -/

/-- **FALSE on the code as it is** (a second face of finding F6).  Full statement: a successful mint changes the
    value of the user's stake — delegation shares plus derivative units, at the validator's tokens/shares rate, the
    valuation `GetStakedTokensForDerivatives` and the tally use — by at most two base units.  The account owning
    900 of the 1000 shares of a 930-token validator mints 606 tokens: 651 units are minted for 648.53… shares
    received by the module, the 3 missing shares raise the price of every remaining share, and the account's
    stake is valued 2.01 tokens higher than before.  All of x/staking's invariants hold, the rate is sane and stays
    below one (`C12_value_counterexample_state_ok`). -/
theorem C12_value_within_two_units_counterexample :
    ¬ (∀ (M : Addr) (c c' : VSt) (d : Addr) (amount der : Int), d ≠ M →
        mint Cfg.current M c d true amount = .ok (c', der) → ValueWithinTwo c c' d) := by
  intro h
  have w : (mint Cfg.current 0 exWhale 1 true 606).okAnd (fun p => decide (¬ ValueWithinTwo exWhale p.1 1)) = true := by decide
  obtain ⟨⟨c', der⟩, hm, hp⟩ := Res.okAnd_elim w
  exact (of_decide_eq_true hp) (h 0 exWhale c' 1 606 der (by decide) hm)

theorem C12_value_counterexample_state_ok :
    SaneRate exWhale ∧ dm exWhale 1 + exWhale.bal 1 * P ≤ sharesOf exWhale ∧
    (mint Cfg.current 0 exWhale 1 true 606).okAnd
      (fun p => match p.1.val with | some v' => decide (v'.tokens * P ≤ v'.shares.m) | none => false) = true := by
  refine ⟨?_, by decide, by decide⟩
  intro v hv; simp only [exWhale, Option.some.injEq] at hv; subst hv; decide

/-- The strongest true part on the code as it is, for mints: on a validator with exchange rate one and whole
    shares the value of the user's stake does not change at all. -/
theorem C12_value_within_two_units_partial (g : Cfg) (M : Addr) (c c' : VSt) (d : Addr) (amount der : Int)
    (hne : d ≠ M) (hgood : Good M c) (h : mint g M c d true amount = .ok (c', der)) :
    stakeNum c' d = stakeNum c d ∧ sharesOf c' = sharesOf c ∧ ValueWithinTwo c c' d := by
  obtain ⟨hg', hd0, -, hdd, -, hbal⟩ := mint_good g M c c' d amount der hne hgood h
  have hpos : g.skipZeroDelegate = false ∨ ∀ v, c.val = some v → 0 < v.tokens := by
    right
    obtain ⟨-, shares, -, -, hval, -⟩ := mint_effect g M c c' d amount der h
    obtain ⟨v0, hv0, hne0⟩ := validate_tokens_ne c d amount shares hval
    intro v hv; rw [hv0] at hv; cases hv
    have := (hgood.1.2 v0 hv0).1; omega
  obtain ⟨v, v', hv, hv', ht, -⟩ := (C12_bonded_tokens_unchanged g M c c' d amount hne hpos).1 der h
  have hs : v'.shares.m = v.shares.m := by
    rw [(hg'.1.2 v' hv').2, (hgood.1.2 v hv).2, ht]
  have e1 : stakeNum c' d = stakeNum c d := by
    unfold stakeNum; rw [hv, hv']
    show (dm c' d + c'.bal d * P) * v'.tokens = (dm c d + c.bal d * P) * v.tokens
    rw [hdd, hbal, ht]; congr 1
    have : (c.bal d + der) * P = c.bal d * P + der * P := Int.add_mul _ _ _
    omega
  have e2 : sharesOf c' = sharesOf c := by unfold sharesOf; rw [hv, hv']; exact hs
  refine ⟨e1, e2, ?_⟩
  unfold ValueWithinTwo; rw [e1, e2]
  have h0 : 0 ≤ sharesOf c := by
    unfold sharesOf; rw [hv]; simp only []
    rw [(hgood.1.2 v hv).2]; exact Int.mul_nonneg (hgood.1.2 v hv).1 (by decide)
  have : 0 ≤ 2 * sharesOf c * sharesOf c := Int.mul_nonneg (Int.mul_nonneg (by decide) h0) h0
  omega

/-- True on the code as it is, whatever the exchange rate: a burn changes the value of the holder's stake by at
    most two base units (in fact by less than one).  Hypotheses: x/staking's invariants, a sane rate, the holder's
    claim does not exceed the validator's shares (which is what backing gives), and after the burn one 10^-18 share
    is still worth at most one token. -/
theorem C12_value_within_two_units_burn (accts : List Addr) (hn : accts.Nodup) (g : Cfg) (M : Addr)
    (c c' : VSt) (d : Addr) (amount : Int) (r : Dec) (hM : M ∈ accts) (hd : d ∈ accts) (hne : d ≠ M)
    (hwf : WF accts c) (hrate : SaneRate c) (hTpos : ∀ v, c.val = some v → 0 < v.tokens)
    (hH : dm c d + c.bal d * P ≤ sharesOf c)
    (hpost : ∀ v', c'.val = some v' → v'.tokens ≤ v'.shares.m)
    (h : burn g M c d amount = .ok (c', r)) : ValueWithinTwo c c' d :=
  burn_value accts hn g M c c' d amount r hM hd hne hwf hrate hTpos hH hpost h

/-- **Full statement, proved for the repaired code** (`mintReceived`): a mint changes the value of the user's stake
    by at most two base units — less than one token is left behind by the truncation in `RemoveDelShares` and
    less than one share is lost to the floor on the minted amount.  The bound "two" is for validators whose rate
    after the mint is at most one token per share (every validator that was only ever slashed); in general the
    second unit is one share's worth of tokens. -/
theorem C12_value_within_two_units_fixed (accts : List Addr) (hn : accts.Nodup) (g : Cfg) (hg : g.mintReceived = true)
    (M : Addr) (c c' : VSt) (d : Addr) (amount der : Int) (hM : M ∈ accts) (hd : d ∈ accts) (hne : d ≠ M)
    (hwf : WF accts c) (hrate : SaneRate c) (hTpos : ∀ v, c.val = some v → 0 < v.tokens)
    (hbal : 0 ≤ c.bal d) (hH : dm c d + c.bal d * P ≤ sharesOf c)
    (hpost : ∀ v', c'.val = some v' → v'.tokens * P ≤ v'.shares.m)
    (h : mint g M c d true amount = .ok (c', der)) : ValueWithinTwo c c' d :=
  mint_value_fixed accts hn g hg M c c' d amount der hM hd hne hwf hrate hTpos hbal hH hpost h

/-- the repaired code on the witness of the counterexample -/
example : (mint Cfg.fixed 0 exWhale 1 true 606).okAnd (fun p => decide (ValueWithinTwo exWhale p.1 1 ∧ p.2 = 648)) = true := by decide

/-! ## 6. The governance tally -/

/-- validator 0 bonded with 1 000 000 tokens; validator 1 jailed → unbonding (not in the handler's set) with
    500 000 000 tokens, all of them held through the liquid module -/
def exTVals : List TVal :=
  [{ tokens := 1000000, shares := ⟨1000000 * P⟩, bonded := true },
   { tokens := 500000000, shares := ⟨500000000 * P⟩, bonded := false }]

/-- one voter: no delegation, 500 000 000 derivative units of validator 1 in the wallet, votes yes -/
def exTVotes : List TVote :=
  [{ oper := none, opts := [(1, ⟨P⟩)], dels := [], wallet := [(1, 500000000)], savings := [], earn := [] }]

/-- validators 0 and 2 bonded, validator 1 existing but emptied (zero shares, unbonding); a voter still holds one
    unit of validator 1's derivative in earn (possible only because of finding F6) -/
def exTValsEmpty : List TVal :=
  [{ tokens := 1000000, shares := ⟨1000000 * P⟩, bonded := true }, { tokens := 0, shares := ⟨0⟩, bonded := false }]
def exTVotesEmpty : List TVote :=
  [{ oper := none, opts := [(1, ⟨P⟩)], dels := [], wallet := [], savings := [], earn := [(1, 1)] }]

/-- what x/gov and x/staking guarantee of every stored vote -/
def VoteOK0 (t : TVote) : Prop := OptsOK t.opts ∧ ∀ x ∈ t.dels, 0 ≤ x.2.m

theorem exT_ok : ValsOK exTVals ∧ (∀ t ∈ exTVotes, VoteOK0 t) ∧
    (∀ a, voteLoop Cfg.current exTVals TAcc.init exTVotes = some a → DedOK exTVals a) := by
  refine ⟨?_, ?_, ?_⟩
  · intro v hb
    match v with
    | 0 => decide
    | 1 => cases hb
    | n + 2 => cases hb
  · intro t ht
    simp only [exTVotes, List.mem_singleton] at ht
    subst ht
    refine ⟨⟨?_, by decide, by decide⟩, by intro x hx; cases hx⟩
    intro ow how; simp only [List.mem_singleton] at how; subst how; decide
  · intro a ha v hb
    match v with
    | 0 =>
      have h0 : (voteLoop Cfg.current exTVals TAcc.init exTVotes).map (fun a => a.ded 0) = some 0 := by decide
      rw [ha] at h0; simp only [Option.map_some, Option.some.injEq] at h0
      rw [h0]; decide
    | 1 => cases hb
    | n + 2 => cases hb

/-- **FALSE on the code as it is** (finding F8).  Full statement: the counted power never exceeds the tokens of the
    validators in the handler's bonded set (hence never `TotalBondedTokens`).  The handler adds the token value of
    a voter's derivatives *outside* the `if val, ok := currValidators[…]` test, so the derivatives of a jailed /
    unbonding / unbonded validator still vote: 500 000 000 counted against 1 000 000 bonded. -/
theorem C12_tally_le_bonded_counterexample :
    ¬ (∀ (vals : List TVal) (votes : List TVote) (o : TallyOut), ValsOK vals → (∀ t ∈ votes, VoteOK0 t) →
        (∀ a, voteLoop Cfg.current vals TAcc.init votes = some a → DedOK vals a) →
        tally Cfg.current vals votes = some o → o.counted ≤ bondedTotal vals) := by
  intro h
  have w : (tally Cfg.current exTVals exTVotes).map (fun o => decide (bondedTotal exTVals < o.counted)) = some true := by decide
  cases ht : tally Cfg.current exTVals exTVotes with
  | none => rw [ht] at w; cases w
  | some o =>
    rw [ht] at w; simp only [Option.map_some, Option.some.injEq, decide_eq_true_eq] at w
    have := h exTVals exTVotes o exT_ok.1 exT_ok.2.1 exT_ok.2.2 ht
    omega

/-- The strongest true part on the code as it is: when every derivative held by a voter belongs to a validator of
    the handler's set (third clause of `VoteOK`), the total voting power is at most the set's tokens plus half a
    10^-18 unit per rounding, and the integer TallyResult (yes + abstain + no + veto) never exceeds the set's
    tokens.  `DedOK` — deductions ≤ the validator's shares — is what backing and x/staking's share accounting give;
    `hsmall` excludes tallies performing more than 4·10^17 roundings. -/
theorem C12_tally_le_bonded_partial (g : Cfg) (vals : List TVal) (votes : List TVote) (o : TallyOut) (hv : ValsOK vals)
    (hok : ∀ t ∈ votes, VoteOK g vals t)
    (hd : ∀ a, voteLoop g vals TAcc.init votes = some a → DedOK vals a)
    (hsmall : 5 * tallyItems vals votes < 2 * P)
    (h : tally g vals votes = some o) :
    o.counted ≤ bondedTotal vals ∧ 2 * o.total ≤ 2 * (bondedTotal vals * P) + tallyItems vals votes :=
  ⟨tally_counted_le g vals votes o hv hok hd hsmall h, (tally_bounds g vals votes o hv hok hd h).1⟩

/-- non-vacuity: both validators bonded, the derivative holder, a delegator with a split vote and validator 1 itself
    vote; every unit is counted once: the four counts add up to 465 399 999 ≤ 465 000 000 (validator 1) + 400 000 (the delegation to validator 0) -/
example : (tally Cfg.current
    [{ tokens := 1000000, shares := ⟨1000000 * P⟩, bonded := true }, { tokens := 465000000, shares := ⟨500000000 * P⟩, bonded := true }]
    [{ oper := none, opts := [(1, ⟨P⟩)], dels := [], wallet := [(1, 300000000)], savings := [(1, 50000000)], earn := [(1, 50000000)] },
     { oper := none, opts := [(3, ⟨P / 2⟩), (4, ⟨P / 2⟩)], dels := [(0, ⟨400000 * P⟩), (1, ⟨1000000 * P + 1⟩)], wallet := [], savings := [], earn := [] },
     { oper := some 1, opts := [(2, ⟨P⟩)], dels := [(1, ⟨7 * P⟩)], wallet := [], savings := [], earn := [] }]).map
    (fun o => (o.yes, o.abstain, o.no, o.veto)) = some (372000000, 92069999, 665000, 665000) := by decide

/-- **Full statement, proved for the repaired code** (`tallySkipUnbonded`: a derivative whose validator is not in
    `currValidators` is skipped): no hypothesis on which derivatives the voters hold. -/
theorem C12_tally_le_bonded_fixed (g : Cfg) (hg : g.tallySkipUnbonded = true) (vals : List TVal) (votes : List TVote)
    (o : TallyOut) (hv : ValsOK vals) (hok : ∀ t ∈ votes, VoteOK0 t)
    (hd : ∀ a, voteLoop g vals TAcc.init votes = some a → DedOK vals a)
    (hsmall : 5 * tallyItems vals votes < 2 * P)
    (h : tally g vals votes = some o) :
    o.counted ≤ bondedTotal vals ∧ 2 * o.total ≤ 2 * (bondedTotal vals * P) + tallyItems vals votes :=
  C12_tally_le_bonded_partial g vals votes o hv (fun t ht => ⟨(hok t ht).1, (hok t ht).2, fun _ _ => Or.inr hg⟩) hd hsmall h

/-- the repaired handler on the witness of the counterexample: nothing is counted for the unbonding validator -/
example : (tally Cfg.fixed exTVals exTVotes).map (fun o => o.counted) = some 0 := by decide

/-- A derivative is counted once: `getAddrBkava` lists each validator at most once, with the units held in the
    wallet, in savings and in earn added up; for a validator of the set the coin's truncated token value is added
    to the total exactly once and the same units are deducted from the shares the validator inherits (its own
    power is computed from `shares − deductions`, see `valStep`).  Together with `C12_tally_le_bonded_partial`:
    nothing is counted twice. -/
theorem C12_tally_counts_once (g : Cfg) (vals : List TVal) (t : TVote) (a : TAcc) (v : Nat) (x : Int)
    (hb : (tvAt vals v).bonded = true) (hS : (tvAt vals v).shares.m ≠ 0) :
    ((addrBkava vals.length t).map Prod.fst).Nodup ∧
    (∀ y, y ∈ addrBkava vals.length t ↔
      (y.1 < vals.length ∧ y.2 = amountOf t.wallet y.1 + amountOf t.savings y.1 + amountOf t.earn y.1 ∧ 0 < y.2)) ∧
    ∃ a', bkStep g vals t.opts a v x = some a' ∧ a'.total = a.total + stakedTok (tvAt vals v) x * P ∧
      a'.ded = bump a.ded v (x * P) ∧ a'.vote = a.vote := by
  obtain ⟨n1, n2⟩ := addrBkava_spec vals.length t
  obtain ⟨a', h1, h2, h3, h4, -⟩ := bkStep_effect g vals t.opts a v x hb hS
  exact ⟨n1, n2, a', h1, h2, h3, h4⟩

/-- **FALSE on the code as it is** (a consequence of findings F6 + F8, reproduced on the real handler): the tally
    must not panic — it runs in the gov end blocker.  A validator that exists with zero delegator shares (everybody
    left; still unbonding) and one outstanding derivative unit (possible only because the supply exceeded the
    module's shares) makes `TokensFromSharesTruncated` divide by zero. -/
theorem C12_tally_no_panic_counterexample :
    ¬ (∀ (vals : List TVal) (votes : List TVote), ValsOK vals → (∀ t ∈ votes, VoteOK0 t) →
        (tally Cfg.current vals votes).isSome = true) := by
  intro h
  have hv : ValsOK exTValsEmpty := by
    intro v hb
    match v with
    | 0 => decide
    | 1 => cases hb
    | n + 2 => cases hb
  have hok : ∀ t ∈ exTVotesEmpty, VoteOK0 t := by
    intro t ht
    simp only [exTVotesEmpty, List.mem_singleton] at ht
    subst ht
    refine ⟨⟨?_, by decide, by decide⟩, by intro x hx; cases hx⟩
    intro ow how; simp only [List.mem_singleton] at how; subst how; decide
  have := h exTValsEmpty exTVotesEmpty hv hok
  revert this; decide

/-- proved for the repaired code: the handler never panics on a derivative -/
theorem C12_tally_no_panic_fixed (g : Cfg) (hg : g.tallySkipUnbonded = true) (vals : List TVal) (hv : ValsOK vals)
    (votes : List TVote) : (tally g vals votes).isSome = true := by
  obtain ⟨o, ho⟩ := tally_some g hg vals hv votes
  rw [ho]; rfl

end KV.Liquid
