/-
  C12 — Liquid staking: derivatives are backed, redeemable and vote like their stake.

  "For each validator the supply of its liquid-staking derivative never exceeds the delegation shares held by
   the liquid module account, so every holder can always redeem. Minting moves the requested stake from the
   user's delegation to the module and burning moves it back, without an unbonding period, without changing the
   validator's bonded tokens, without changing the staked value owned by the user by more than two base units
   per operation and without ever creating an empty delegation; conversions are refused while the delegator has
   an incoming redelegation to that validator or when they would take a validator's self-delegation below its
   minimum. In governance tallies a derivative, whether held in a wallet, in savings or in earn, carries the
   voting power its backing delegation would carry: counted once, only while its validator is bonded, so the
   total counted power never exceeds the total bonded stake."

  The model is KavaVerif/Model/Liquid.lean: x/liquid's TransferDelegation / MintDerivative / BurnDerivative and
  app/tally_handler.go transcribed line by line over the x/staking primitives as the SDK writes them (modelled,
  not verified: x/staking is trusted).  `cfg` is the configuration of the code in /repo — since the fix commits
  932d1f99a (mint ⌊received shares⌋), 96498654b (no re-delegation of zero tokens) and 66dfa73a4 (the tally skips
  derivatives of validators outside the bonded set) all three switches are on — and it is the configuration the
  correspondence driver runs.  Every statement of the property is proved at full strength about this live
  model.  Statements that do not depend on the switches are proved for every configuration `g`.  The last
  section keeps, as `example`s about `Cfg.current` (the code *before* the three commits), the literal witnesses on
  which four statements used to be false; the same witnesses are shown to be handled by the live model next to
  each theorem.  Only property statements live here; helper lemmas are in KavaVerif/Proofs/Liquid*.lean.
-/
import KavaVerif.Proofs.LiquidTally
import KavaVerif.Proofs.LiquidRate
import KavaVerif.Proofs.LiquidBurnGuard
set_option linter.unusedSimpArgs false
set_option linter.unusedVariables false

namespace KV.Liquid
open KV

/-- the live model has the three repairs: switching one off in Model/Liquid.lean re-opens every obligation below -/
theorem C12_live_configuration :
    cfg.mintReceived = true ∧ cfg.skipZeroDelegate = true ∧ cfg.tallySkipUnbonded = true := ⟨rfl, rfl, rfl⟩

/-! ## Witness states (all reachable: see findings/C12-*.md for the same histories on the real keepers) -/

/-- a validator slashed by 7 %: 93 tokens for 100 shares; account 1 and the operator 9 hold 50 shares each -/
def exSlashed : VSt :=
  { val := some { tokens := 93, shares := ⟨100 * P⟩, status := .bonded, minSelf := 1, jailed := false, oper := 9 },
    del := fun a => if a = 1 then some ⟨50 * P⟩ else if a = 9 then some ⟨50 * P⟩ else none,
    redel := fun _ => false, ubd := fun _ => 0, bal := fun _ => 0, supply := 0 }

/-- the same validator; the module (0) holds 10 shares backing 10 derivative units, one of which belongs to
    account 2, which never delegated -/
def exHolder : VSt :=
  { val := some { tokens := 93, shares := ⟨100 * P⟩, status := .bonded, minSelf := 1, jailed := false, oper := 9 },
    del := fun a => if a = 0 then some ⟨10 * P⟩ else if a = 1 then some ⟨40 * P⟩ else if a = 9 then some ⟨50 * P⟩ else none,
    redel := fun _ => false, ubd := fun _ => 0, bal := fun a => if a = 2 then 1 else if a = 1 then 9 else 0, supply := 10 }

/-- a healthy validator (exchange rate one) with the same holders -/
def exHealthy : VSt :=
  { val := some { tokens := 100, shares := ⟨100 * P⟩, status := .bonded, minSelf := 30, jailed := false, oper := 9 },
    del := fun a => if a = 0 then some ⟨10 * P⟩ else if a = 1 then some ⟨40 * P⟩ else if a = 9 then some ⟨50 * P⟩ else none,
    redel := fun a => decide (a = 3), ubd := fun _ => 0, bal := fun a => if a = 2 then 1 else if a = 1 then 9 else 0, supply := 10 }

/-- 930 tokens for 1000 shares; account 1 owns 900 of them -/
def exWhale : VSt :=
  { val := some { tokens := 930, shares := ⟨1000 * P⟩, status := .bonded, minSelf := 1, jailed := false, oper := 9 },
    del := fun a => if a = 1 then some ⟨900 * P⟩ else if a = 9 then some ⟨100 * P⟩ else none,
    redel := fun _ => false, ubd := fun _ => 0, bal := fun _ => 0, supply := 0 }

def exAccts : List Addr := [0, 1, 2, 9]

theorem exSlashed_wf : WF exAccts exSlashed ∧ SaneRate exSlashed ∧ Backed 0 exSlashed := by
  refine ⟨⟨?_, ?_, ?_⟩, ?_, by decide⟩
  · intro a ha; simp only [exAccts, List.mem_cons, List.not_mem_nil, or_false, not_or] at ha
    simp only [exSlashed, ha.2.1, ha.2.2.2, ite_false]
  · intro a d hd; simp only [exSlashed] at hd
    split at hd
    · cases hd; decide
    · split at hd
      · cases hd; decide
      · cases hd
  · intro v hv; simp only [exSlashed, Option.some.injEq] at hv; subst hv; decide
  · intro v hv; simp only [exSlashed, Option.some.injEq] at hv; subst hv; decide

/-! ## 1. Backing -/

/-- **Backing, full strength, live model.**  Along every history — mints, burns, sends, delegations,
    undelegations, redelegations, jailing / status changes and slashes of any validator; a failed message changes
    nothing — every validator's derivative supply stays within the delegation shares of the module account.
    `accts` lists the accounts that ever delegate (the module account among them); `WF` is x/staking's own
    well-formedness (shares non-negative and adding up to DelegatorShares, tokens non-negative), which the
    modelled primitives preserve. -/
theorem C12_backed (accts : List Addr) (hn : accts.Nodup) (M : Addr) (hM : M ∈ accts) (ops : List Op) (s s' : Chain)
    (hact : ∀ op ∈ ops, ∀ a ∈ op.actors, a ∈ accts)
    (hwf : ∀ w, WF accts (s w)) (hb : ∀ w, Backed M (s w))
    (hrun : run cfg M s ops = some s') : ∀ w, Backed M (s' w) := fun w =>
  (run_inv_fixed true accts hn cfg (fun _ => rfl) M hM ops s s' hact (fun w => ⟨hwf w, fun _ => hb w⟩) hrun w).2 rfl

/-- non-vacuity and the former witness (finding F6: 93 tokens / 100 shares, mint 3): the live model mints 2 units
    against 2.1269… module shares, and stays backed through a further slash, mint and burn -/
example : (∀ w : Nat, WF exAccts ((fun _ => exSlashed : Chain) w)) ∧ ∀ w : Nat, Backed 0 ((fun _ => exSlashed : Chain) w) :=
  ⟨fun _ => exSlashed_wf.1, fun _ => exSlashed_wf.2.2⟩
example : (mint cfg 0 exSlashed 1 true 3).okAnd (fun p => decide (Backed 0 p.1 ∧ p.2 = 2)) = true := by decide
example : (match run cfg 0 (fun _ => exSlashed) [.mint 1 0 3, .slash 0 40, .mint 1 0 5, .burn 1 0 2] with
    | some s => decide (Backed 0 (s 0) ∧ 0 < (s 0).supply) | none => false) = true := by decide

/-- Any configuration, any exchange rate: a burn lowers the supply by `amount` and the module's
    shares by exactly `amount` shares, so with backing every holder can redeem: a burn of `amount ≤ supply` units
    finds at least `amount` shares in the module's delegation, and leaves the margin `module shares − supply` as it was. -/
theorem C12_burn_keeps_margin (g : Cfg) (M : Addr) (c c' : VSt) (d : Addr) (amount : Int) (r : Dec) (hne : d ≠ M)
    (h : burn g M c d amount = .ok (c', r)) :
    dm c' M - c'.supply * P = dm c M - c.supply * P := by
  obtain ⟨-, -, ht⟩ := burn_effect g M c c' d amount r h
  obtain ⟨x, v, v2, amt, hx, -, -, -, -, -, -, hdf, -, -, -, -, hs, -, -⟩ :=
    transfer_effect g _ c' M d _ r (fun e => hne e.symm) ht
  have hm : dm c M = x.m := by unfold dm; rw [show c.del M = some x from hx]
  have hm' : dm c' M = x.m - (Dec.ofInt amount).m := by
    unfold dm; rw [hdf]
    by_cases h0 : x.m - (Dec.ofInt amount).m = 0
    · rw [if_pos h0]; simp only []; omega
    · rw [if_neg h0]
  rw [hm, hm', hs]
  show x.m - amount * P - (c.supply - amount) * P = x.m - c.supply * P
  have : (c.supply - amount) * P = c.supply * P - amount * P := Int.sub_mul _ _ _
  omega

/-! ## 2. No empty delegation -/

/-- **No empty delegation, full strength, live model.**  Every successful TransferDelegation — hence every mint and
    burn — leaves no delegation record with zero shares; either nothing was worth a token (the recipient's record is
    untouched and zero received shares are reported, the outcome the maintainers' test "zero shares received when
    transfer < 1 token" expects) or a strictly positive number of shares is credited, which is always the case when
    the shares sent are worth at least one token.  `SaneRate`: one 10^-18 share is worth at most half a token. -/
theorem C12_no_empty_delegation (accts : List Addr) (hn : accts.Nodup) (c c' : VSt) (frm to : Addr) (sh r : Dec)
    (hf : frm ∈ accts) (ht : to ∈ accts) (hne : frm ≠ to) (hwf : WF accts c) (hrate : SaneRate c)
    (hnone : ∀ a, NoEmptyAt c a) (h : transfer cfg c frm to sh = .ok (c', r)) :
    (∀ a, NoEmptyAt c' a) ∧ ((c'.del to = c.del to ∧ r.m = 0) ∨ 0 < r.m) ∧ (WorthOneToken c sh → 0 < r.m) := by
  obtain ⟨h1, -, h3, h4⟩ := transfer_no_empty accts hn cfg c c' frm to sh r hf ht hne hwf hrate (Or.inl rfl) h
  refine ⟨fun a => h1 a (hnone a), ?_, h4⟩
  rcases h3 with h3 | h3
  · exact Or.inl h3
  · exact Or.inr h3.1

/-- the former witness (finding F7: an account that never delegated burns one unit worth 0 tokens): the unit is
    burnt, no record is stored; a burn of two units credits shares -/
example : (burn cfg 0 exHolder 2 1).okAnd (fun p => decide (p.1.del 2 = none ∧ p.2.m = 0 ∧ p.1.supply = 9)) = true := by decide
example : (burn cfg 0 exHolder 1 2).okAnd (fun p => decide (NoEmptyAt p.1 1 ∧ 0 < p.2.m)) = true := by decide
example : WorthOneToken exHolder (Dec.ofInt 2) := by
  intro v hv; simp only [exHolder, Option.some.injEq] at hv; subst hv; decide

/-! ## 3. Bonded tokens, status and unbonding entries are untouched -/

/-- A successful mint or burn leaves the validator in place with the same tokens (hence the same bonded tokens and
    voting power), the same status, jailed flag, minimum self delegation and operator: the stake never leaves the
    validator, and the self-delegation guard makes the jailing branch of `Unbond` unreachable.  (`hpos`, for the live model: the validator has tokens — the zero-amount branch does not re-delegate and a validator without tokens that loses
    its last share is removed by `Unbond`, as in x/staking's own Undelegate.) -/
theorem C12_bonded_tokens_unchanged (g : Cfg) (M : Addr) (c c' : VSt) (d : Addr) (amount : Int) (hne : d ≠ M)
    (hpos : g.skipZeroDelegate = false ∨ ∀ v, c.val = some v → 0 < v.tokens) :
    (∀ der, mint g M c d true amount = .ok (c', der) →
      ∃ v v', c.val = some v ∧ c'.val = some v' ∧ v'.tokens = v.tokens ∧ v'.status = v.status ∧
        v'.jailed = v.jailed ∧ v'.minSelf = v.minSelf ∧ v'.oper = v.oper) ∧
    (∀ r, burn g M c d amount = .ok (c', r) →
      ∃ v v', c.val = some v ∧ c'.val = some v' ∧ v'.tokens = v.tokens ∧ v'.status = v.status ∧
        v'.jailed = v.jailed ∧ v'.minSelf = v.minSelf ∧ v'.oper = v.oper) := by
  -- common part: the validator record after a transfer
  have key : ∀ (c0 c2 : VSt) (frm to : Addr) (sh r : Dec), frm ≠ to → c0.val = c.val →
      transfer g c0 frm to sh = .ok (c2, r) →
      ∃ v v', c.val = some v ∧ c2.val = some v' ∧ v'.tokens = v.tokens ∧ v'.status = v.status ∧
        v'.jailed = v.jailed ∧ v'.minSelf = v.minSelf ∧ v'.oper = v.oper := by
    intro c0 c2 frm to sh r hft hval ht
    obtain ⟨x, v, v2, amt, -, hv, -, -, -, -, hrm, -, -, -, -, -, -, -, hcase⟩ := transfer_effect g c0 c2 frm to sh r hft ht
    rw [hval] at hv
    obtain ⟨a1, a2, a3, a4, a5, a6⟩ := removeDelShares_spec v v2 sh amt hrm
    rcases hcase with ⟨hs, ha0, -, -, hv2⟩ | ⟨-, v3, -, hadd, hv3, -⟩
    · have hT : 0 < v.tokens := by
        rcases hpos with hp | hp
        · rw [hs] at hp; cases hp
        · exact hp v hv
      rcases a6 with ⟨-, e1, -⟩ | ⟨hne2, -, -, e2, -⟩
      · omega
      · refine ⟨v, v2, hv, by rw [hv2, if_neg (fun hh => hne2 hh.1)], by omega, a2, a4, a3, a5⟩
    · obtain ⟨t1, -, t3, t4, t5, t6⟩ := xfer_val v v2 v3 sh r amt hrm hadd
      exact ⟨v, v3, hv, hv3, t1, t3, t4, t5, t6⟩
  constructor
  · intro der h
    obtain ⟨-, shares, c1, r, -, ht, -, e1, -⟩ := mint_effect g M c c' d amount der h
    obtain ⟨v, v', h1, h2, h3⟩ := key c c1 d M shares r hne rfl ht
    exact ⟨v, v', h1, by rw [e1]; exact h2, h3⟩
  · intro r h
    obtain ⟨-, -, ht⟩ := burn_effect g M c c' d amount r h
    exact key { c with bal := updI c.bal d (c.bal d - amount), supply := c.supply - amount } c' M d _ r
      (fun e => hne e.symm) rfl ht

/-- A successful mint or burn creates no unbonding-delegation entry and no redelegation record for anybody, and the
    recipient's delegation is credited with the received shares in the same step (there is no unbonding period). -/
theorem C12_no_unbonding_entry (g : Cfg) (M : Addr) (c c' : VSt) (d : Addr) (amount : Int) (hne : d ≠ M) :
    (∀ der, mint g M c d true amount = .ok (c', der) →
      c'.ubd = c.ubd ∧ c'.redel = c.redel ∧ ∃ r : Dec, dm c' M = dm c M + r.m) ∧
    (∀ r, burn g M c d amount = .ok (c', r) →
      c'.ubd = c.ubd ∧ c'.redel = c.redel ∧ dm c' d = dm c d + r.m) := by
  constructor
  · intro der h
    obtain ⟨-, shares, c1, r, -, ht, -, -, e2, e3, e4, -⟩ := mint_effect g M c c' d amount der h
    obtain ⟨x, v, v2, amt, -, -, -, -, -, -, -, -, -, f1, f2, -, -, hdt, -⟩ := transfer_effect g c c1 d M shares r hne ht
    refine ⟨by rw [e4, f2], by rw [e3, f1], r, ?_⟩
    have : dm c' M = dm c1 M := by unfold dm; rw [e2]
    rw [this]; exact hdt
  · intro r h
    obtain ⟨-, -, ht⟩ := burn_effect g M c c' d amount r h
    obtain ⟨x, v, v2, amt, -, -, -, -, -, -, -, -, -, f1, f2, -, -, hdt, -⟩ :=
      transfer_effect g _ c' M d _ r (fun e => hne e.symm) ht
    exact ⟨f2, f1, hdt⟩

example : (mint cfg 0 exHealthy 1 true 7).isOk = true ∧ (burn cfg 0 exHealthy 2 1).isOk = true := by decide

/-! ## 4. Guards -/

/-- Conversions are refused while the delegator (for a burn: the module account) has an incoming redelegation to
    the validator, and when they would take the operator's self-delegation below the validator's minimum. -/
theorem C12_guards (g : Cfg) (M : Addr) (c : VSt) (frm to d : Addr) (sh : Dec) (amount : Int) :
    (c.redel frm = true → transfer g c frm to sh = .err) ∧
    (∀ v x, c.val = some v → c.del frm = some x → frm = v.oper → v.belowMinSelf (x.sub sh) = true →
        transfer g c frm to sh = .err) ∧
    (c.redel d = true → (mint g M c d true amount).isErr = true) ∧
    (c.redel M = true → 0 ≤ amount → (burn g M c d amount).isErr = true) := by
  refine ⟨?_, ?_, ?_, ?_⟩
  · intro h; unfold transfer; simp only [h, ite_true]
  · intro v x hv hx ho hb
    unfold transfer
    split
    · rfl
    · split
      · rfl
      · split
        · rfl
        · rw [hx]; simp only []; rw [hv]; simp only []; rw [if_pos ⟨ho, hb⟩]
  · intro h
    unfold mint
    simp only [Bool.true_eq_false, ite_false]
    split
    · rfl
    · split
      · rfl
      · unfold transfer; simp only [h, ite_true]; rfl
  · intro h h0
    unfold burn
    have : ¬ amount < 0 := by omega
    simp only [this, ite_false]
    split
    · rfl
    · unfold transfer; simp only [h, ite_true]; rfl

/-- non-vacuity: account 3 has an incoming redelegation; the operator 9 may mint 20 of its 50 (minimum 30) but not 21 -/
example : (mint cfg 0 { exHealthy with del := fun a => if a = 3 then some ⟨5 * P⟩ else exHealthy.del a } 3 true 1).isErr = true := by decide
example : (mint cfg 0 exHealthy 9 true 20).isOk = true ∧ (mint cfg 0 exHealthy 9 true 21).isErr = true := by decide

/-! ## 5. The value of the user's stake -/

/-- **Value within two base units, live model — exactly what holds.**  The value of an account's stake on a
    validator is what the chain itself uses (`GetStakedTokensForDerivatives`, tally): (delegation shares +
    derivative units) × tokens / shares; `ValueWithinTwo c c' d` says |value' − value| ≤ 2, cross-multiplied.
    For every successful **mint** and every successful **burn**: the change is at most two base units — less than
    one token is left behind by the truncation in `RemoveDelShares`, less than one share is lost to the floor on
    the minted amount (burn: nothing) — under: x/staking's invariants (`WF`), a sane rate, a validator with
    tokens, a non-negative balance, the holder's claim not exceeding the validator's shares (what backing gives),
    and an exchange rate of at most one token per share after the operation (every validator that was only ever
    slashed; for a rate r > 1, reachable only through trimmings, the second unit becomes r: without `hpost` the
    statement is false — `C12_value_within_two_units_counterexample` — and what holds at every rate is
    `C12_value_within_one_plus_rate`, finding C12-rate-above-one). -/
theorem C12_value_within_two_units (accts : List Addr) (hn : accts.Nodup) (M : Addr) (c c' : VSt) (d : Addr)
    (amount : Int) (hM : M ∈ accts) (hd : d ∈ accts) (hne : d ≠ M)
    (hwf : WF accts c) (hrate : SaneRate c) (hTpos : ∀ v, c.val = some v → 0 < v.tokens)
    (hbal : 0 ≤ c.bal d) (hH : dm c d + c.bal d * P ≤ sharesOf c)
    (hpost : ∀ v', c'.val = some v' → 0 ≤ v'.tokens ∧ v'.tokens * P ≤ v'.shares.m) :
    (∀ der, mint cfg M c d true amount = .ok (c', der) → ValueWithinTwo c c' d) ∧
    (∀ r, burn cfg M c d amount = .ok (c', r) → ValueWithinTwo c c' d) := by
  constructor
  · intro der h
    exact mint_value_fixed accts hn cfg rfl M c c' d amount der hM hd hne hwf hrate hTpos hbal hH
      (fun v' hv' => (hpost v' hv').2) h
  · intro r h
    refine burn_value accts hn cfg M c c' d amount r hM hd hne hwf hrate hTpos hH ?_ h
    intro v' hv'
    obtain ⟨h0, h1⟩ := hpost v' hv'
    have : v'.tokens * 1 ≤ v'.tokens * P := Int.mul_le_mul_of_nonneg_left (by decide) h0
    omega

/-- the former witness (900 of the 1000 shares of a 930-token validator, mint 606): the live model mints 648 units
    and the stake's value stays within two units -/
example : (mint cfg 0 exWhale 1 true 606).okAnd (fun p => decide (ValueWithinTwo exWhale p.1 1 ∧ p.2 = 648)) = true := by decide
theorem exWhale_ok : SaneRate exWhale ∧ dm exWhale 1 + exWhale.bal 1 * P ≤ sharesOf exWhale := by
  refine ⟨?_, by decide⟩
  intro v hv; simp only [exWhale, Option.some.injEq] at hv; subst hv; decide

/-! ### A rate above one token per share (finding C12-rate-above-one; the code is NOT repaired: the rounding is
  x/staking's, and minting the ceiling instead would break backing)

  x/staking's `RemoveDelShares` hands out ⌊shares · tokens / totalShares⌋ tokens; the fraction of a token it keeps
  raises the validator's rate, and once few shares are left the rate passes one.  `exTrimmedStart` is a validator
  slashed by 10 % (9 tokens for 10 shares).  Account 2 undelegates 6 tokens' worth (6.666… shares) and is paid 5:
  4 tokens for 3.333… shares are left — 1.2 tokens per share.  Accounts 1 and 2 then delegate 10 and 100 tokens at
  that rate: `exRateAboveOne`.  Account 1 now converts 7 tokens: 5.833… shares leave its delegation, 6 tokens move
  (0.999… left behind), 4.953… shares reach the module, 4 derivative units are minted — the 0.953… share floored
  away is worth 1.155 tokens, not less than one (the rate is 1.211 afterwards).  The stake of account 1 was worth
  10.000 base units, it is worth 7.872… afterwards: 2.127 lost, more than two, less than 1 + 1.211. -/

/-- a validator slashed by 10 %: 9 tokens for 10 shares; account 2 holds 9 shares, the operator 9 one -/
def exTrimmedStart : VSt :=
  { val := some { tokens := 9, shares := ⟨10 * P⟩, status := .bonded, minSelf := 1, jailed := false, oper := 9 },
    del := fun a => if a = 2 then some ⟨9 * P⟩ else if a = 9 then some ⟨1 * P⟩ else none,
    redel := fun _ => false, ubd := fun _ => 0, bal := fun _ => 0, supply := 0 }

/-- the same validator after `undelegate 6` by account 2 and `delegate 10`, `delegate 100` by accounts 1 and 2:
    114 tokens for 95.000000000000000019 shares (1.2 tokens per share) -/
def exRateAboveOne : VSt :=
  { val := some { tokens := 114, shares := ⟨95000000000000000019⟩, status := .bonded, minSelf := 1, jailed := false, oper := 9 },
    del := fun a => if a = 1 then some ⟨8333333333333333335⟩ else if a = 2 then some ⟨85666666666666666684⟩
      else if a = 9 then some ⟨1 * P⟩ else none,
    redel := fun _ => false, ubd := fun _ => 0, bal := fun _ => 0, supply := 0 }

/-- `exRateAboveOne` is what the modelled x/staking messages make of the slashed validator (every field the
    conversions read: validator record, the four delegations, derivative balance and supply) -/
example : (match run cfg 0 (fun _ => exTrimmedStart) [.undelegate 2 0 6, .delegate 1 0 10, .delegate 2 0 100] with
    | some s => decide ((s 0).val = exRateAboveOne.val ∧ (∀ a ∈ exAccts, (s 0).del a = exRateAboveOne.del a) ∧
        (s 0).bal 1 = 0 ∧ (s 0).supply = 0 ∧ (s 0).redel 1 = false)
    | none => false) = true := by decide

/-- the witness satisfies every hypothesis of `C12_value_within_two_units` except the rate after the operation -/
theorem exRateAboveOne_ok : WF exAccts exRateAboveOne ∧ SaneRate exRateAboveOne ∧
    (∀ v, exRateAboveOne.val = some v → 0 < v.tokens) ∧ 0 ≤ exRateAboveOne.bal 1 ∧
    dm exRateAboveOne 1 + exRateAboveOne.bal 1 * P ≤ sharesOf exRateAboveOne := by
  refine ⟨⟨?_, ?_, ?_⟩, ?_, ?_, by decide, by decide⟩
  · intro a ha; simp only [exAccts, List.mem_cons, List.not_mem_nil, or_false, not_or] at ha
    simp only [exRateAboveOne, ha.2.1, ha.2.2.1, ha.2.2.2, ite_false]
  · intro a d hd; simp only [exRateAboveOne] at hd
    split at hd
    · cases hd; decide
    · split at hd
      · cases hd; decide
      · split at hd
        · cases hd; decide
        · cases hd
  · intro v hv; simp only [exRateAboveOne, Option.some.injEq] at hv; subst hv; decide
  · intro v hv; simp only [exRateAboveOne, Option.some.injEq] at hv; subst hv; decide
  · intro v hv; simp only [exRateAboveOne, Option.some.injEq] at hv; subst hv; decide

/-- **The two-unit clause is false on the live code once a validator's rate exceeds one.**  The statement of
    `C12_value_within_two_units` with every hypothesis kept except `hpost` (rate ≤ 1 after the operation): refuted
    by `exRateAboveOne`, account 1 minting 7 — the mint succeeds and the value of the stake drops by 2.127 units. -/
theorem C12_value_within_two_units_counterexample :
    ¬ (∀ (accts : List Addr) (hn : accts.Nodup) (M : Addr) (c c' : VSt) (d : Addr) (amount : Int)
        (hM : M ∈ accts) (hd : d ∈ accts) (hne : d ≠ M)
        (hwf : WF accts c) (hrate : SaneRate c) (hTpos : ∀ v, c.val = some v → 0 < v.tokens)
        (hbal : 0 ≤ c.bal d) (hH : dm c d + c.bal d * P ≤ sharesOf c),
        (∀ der, mint cfg M c d true amount = .ok (c', der) → ValueWithinTwo c c' d) ∧
        (∀ r, burn cfg M c d amount = .ok (c', r) → ValueWithinTwo c c' d)) := by
  intro h
  have w : (mint cfg 0 exRateAboveOne 1 true 7).okAnd (fun p => decide (¬ ValueWithinTwo exRateAboveOne p.1 1)) = true := by
    decide
  obtain ⟨⟨c', der⟩, hm, hp⟩ := Res.okAnd_elim w
  obtain ⟨k1, k2, k3, k4, k5⟩ := exRateAboveOne_ok
  exact (of_decide_eq_true hp)
    ((h exAccts (by decide) 0 exRateAboveOne c' 1 7 (by decide) (by decide) (by decide) k1 k2 k3 k4 k5).1 der hm)

/-- **Value within 1 + max(1, r) base units, live model, every rate — the strongest statement that holds.**
    Same hypotheses as `C12_value_within_two_units` minus the rate: for every successful **mint** the value of the
    user's stake changes by at most 1 + max(1, r') base units, r' = tokens / shares of the validator after the
    operation (`ValueWithinOnePlusRate`, cross-multiplied: less than one token is left behind by `RemoveDelShares`,
    less than one share — worth r' — is lost to the floor on the minted amount), and a *gain* never exceeds two
    units.  For every successful **burn** the two-unit bound holds at every rate (nothing is floored on a burn).
    At r' ≤ 1 the bound is the two units of `C12_value_within_two_units`
    (`C12_value_bounds_agree_at_rate_le_one`). -/
theorem C12_value_within_one_plus_rate (accts : List Addr) (hn : accts.Nodup) (M : Addr) (c c' : VSt) (d : Addr)
    (amount : Int) (hM : M ∈ accts) (hd : d ∈ accts) (hne : d ≠ M)
    (hwf : WF accts c) (hrate : SaneRate c) (hTpos : ∀ v, c.val = some v → 0 < v.tokens)
    (hbal : 0 ≤ c.bal d) (hH : dm c d + c.bal d * P ≤ sharesOf c) :
    (∀ der, mint cfg M c d true amount = .ok (c', der) → ValueWithinOnePlusRate c c' d ∧ GainWithinTwo c c' d) ∧
    (∀ r, burn cfg M c d amount = .ok (c', r) → ValueWithinOnePlusRate c c' d ∧ ValueWithinTwo c c' d) := by
  constructor
  · intro der h
    exact mint_value_rate accts hn cfg rfl M c c' d amount der hM hd hne hwf hrate hTpos hbal hH h
  · intro r h
    have h2 := burn_value_any_rate accts hn cfg M c c' d amount r hM hd hne hwf hrate hTpos hH h
    refine ⟨valueWithinOnePlusRate_of_two c c' d ?_ h2, h2⟩
    unfold sharesOf
    cases hv : c.val with
    | none => simp
    | some v =>
      simp only []
      rw [(hwf.2.2 v hv).2]
      exact dsum_nonneg accts c.del hwf.2.1

/-- at a rate of at most one token per share after the operation, 1 + max(1, r') is two: the two statements
    coincide, so `C12_value_within_two_units` is the r' ≤ 1 case of `C12_value_within_one_plus_rate` -/
theorem C12_value_bounds_agree_at_rate_le_one (c c' : VSt) (d : Addr)
    (hpost : ∀ v', c'.val = some v' → v'.tokens * P ≤ v'.shares.m) :
    ValueWithinOnePlusRate c c' d ↔ ValueWithinTwo c c' d := by
  apply valueWithinOnePlusRate_iff_two
  unfold tokensOf sharesOf
  cases hv : c'.val with
  | none => simp
  | some v' => exact hpost v' hv

/-- non-vacuity and tightness: on the witness the mint of 7 gives 4 units, breaks two units, stays within 1 + r
    (and no gain); burning the 4 units back stays within two units at the rate above one; a mint of 9 on the same
    validator (0.603… share floored away) changes the value by 1.72 units -/
example : (mint cfg 0 exRateAboveOne 1 true 7).okAnd (fun p => decide (p.2 = 4 ∧ ¬ ValueWithinTwo exRateAboveOne p.1 1 ∧
    ValueWithinOnePlusRate exRateAboveOne p.1 1 ∧ GainWithinTwo exRateAboveOne p.1 1 ∧
    sharesOf p.1 < tokensOf p.1 * P)) = true := by decide
example : (mint cfg 0 exRateAboveOne 1 true 7).okAnd (fun p =>
    (burn cfg 0 p.1 1 4).okAnd (fun q => decide (ValueWithinTwo p.1 q.1 1 ∧ sharesOf q.1 < tokensOf q.1 * P))) = true := by decide
example : (mint cfg 0 exRateAboveOne 1 true 9).okAnd (fun p => decide (ValueWithinTwo exRateAboveOne p.1 1)) = true := by decide

/-- Any configuration: on a validator with exchange rate one and whole shares (never slashed) a mint does not change
    the value of the user's stake at all. -/
theorem C12_value_unchanged_at_rate_one (g : Cfg) (M : Addr) (c c' : VSt) (d : Addr) (amount der : Int)
    (hne : d ≠ M) (hgood : Good M c) (h : mint g M c d true amount = .ok (c', der)) :
    stakeNum c' d = stakeNum c d ∧ sharesOf c' = sharesOf c ∧ ValueWithinTwo c c' d := by
  obtain ⟨hg', hd0, -, hdd, -, hbal⟩ := mint_good g M c c' d amount der hne hgood h
  have hpos : g.skipZeroDelegate = false ∨ ∀ v, c.val = some v → 0 < v.tokens := by
    right
    obtain ⟨-, shares, -, -, hval, -⟩ := mint_effect g M c c' d amount der h
    obtain ⟨v0, hv0, hne0⟩ := validate_tokens_ne c d amount shares hval
    intro v hv; rw [hv0] at hv; cases hv
    have := (hgood.1.2 v0 hv0).1; omega
  obtain ⟨v, v', hv, hv', ht, -⟩ := (C12_bonded_tokens_unchanged g M c c' d amount hne hpos).1 der h
  have hs : v'.shares.m = v.shares.m := by
    rw [(hg'.1.2 v' hv').2, (hgood.1.2 v hv).2, ht]
  have e1 : stakeNum c' d = stakeNum c d := by
    unfold stakeNum; rw [hv, hv']
    show (dm c' d + c'.bal d * P) * v'.tokens = (dm c d + c.bal d * P) * v.tokens
    rw [hdd, hbal, ht]; congr 1
    have : (c.bal d + der) * P = c.bal d * P + der * P := Int.add_mul _ _ _
    omega
  have e2 : sharesOf c' = sharesOf c := by unfold sharesOf; rw [hv, hv']; exact hs
  refine ⟨e1, e2, ?_⟩
  unfold ValueWithinTwo; rw [e1, e2]
  have h0 : 0 ≤ sharesOf c := by
    unfold sharesOf; rw [hv]; simp only []
    rw [(hgood.1.2 v hv).2]; exact Int.mul_nonneg (hgood.1.2 v hv).1 (by decide)
  have : 0 ≤ 2 * sharesOf c * sharesOf c := Int.mul_nonneg (Int.mul_nonneg (by decide) h0) h0
  omega

/-! ## 6. The governance tally -/

/-- validator 0 bonded with 1 000 000 tokens; validator 1 jailed → unbonding (not in the handler's set) with
    500 000 000 tokens, all of them held through the liquid module -/
def exTVals : List TVal :=
  [{ tokens := 1000000, shares := ⟨1000000 * P⟩, bonded := true },
   { tokens := 500000000, shares := ⟨500000000 * P⟩, bonded := false }]

/-- one voter: no delegation, 500 000 000 derivative units of validator 1 in the wallet, votes yes -/
def exTVotes : List TVote :=
  [{ oper := none, opts := [(1, ⟨P⟩)], dels := [], wallet := [(1, 500000000)], savings := [], earn := [] }]

/-- validators 0 and 2 bonded, validator 1 existing but emptied (zero shares, unbonding); a voter still holds one
    unit of validator 1's derivative in earn (possible only because of finding F6) -/
def exTValsEmpty : List TVal :=
  [{ tokens := 1000000, shares := ⟨1000000 * P⟩, bonded := true }, { tokens := 0, shares := ⟨0⟩, bonded := false }]
def exTVotesEmpty : List TVote :=
  [{ oper := none, opts := [(1, ⟨P⟩)], dels := [], wallet := [], savings := [], earn := [(1, 1)] }]

/-- what x/gov and x/staking guarantee of every stored vote: weights validated by `ValidateBasic`, non-negative shares -/
def VoteOK0 (t : TVote) : Prop := OptsOK t.opts ∧ ∀ x ∈ t.dels, 0 ≤ x.2.m

theorem exT_ok : ValsOK exTVals ∧ (∀ t ∈ exTVotes, VoteOK0 t) ∧ ValsOK exTValsEmpty ∧ (∀ t ∈ exTVotesEmpty, VoteOK0 t) := by
  refine ⟨?_, ?_, ?_, ?_⟩
  · intro v hb
    match v with
    | 0 => decide
    | 1 => cases hb
    | n + 2 => cases hb
  · intro t ht
    simp only [exTVotes, List.mem_singleton] at ht
    subst ht
    refine ⟨⟨?_, by decide, by decide⟩, by intro x hx; cases hx⟩
    intro ow how; simp only [List.mem_singleton] at how; subst how; decide
  · intro v hb
    match v with
    | 0 => decide
    | 1 => cases hb
    | n + 2 => cases hb
  · intro t ht
    simp only [exTVotesEmpty, List.mem_singleton] at ht
    subst ht
    refine ⟨⟨?_, by decide, by decide⟩, by intro x hx; cases hx⟩
    intro ow how; simp only [List.mem_singleton] at how; subst how; decide

/-- **Counted power ≤ bonded stake, full strength, live model.**  Whatever derivatives the voters hold (of bonded,
    jailed, unbonding or unbonded validators), the integer TallyResult (yes + abstain + no + veto) never exceeds
    the tokens of the validators in the handler's bonded set — hence never `TotalBondedTokens` — and the total
    voting power exceeds them by at most half a 10^-18 unit per rounding.  `ValsOK`: validators of the set have
    positive shares; `DedOK`: the deductions of a validator do not exceed its shares (what backing — `C12_backed` —
    and x/staking's share accounting give: voters' delegations plus voters' derivatives ≤ delegations plus module
    delegation); `hsmall` excludes tallies performing more than 4·10^17 roundings. -/
theorem C12_tally_le_bonded (vals : List TVal) (votes : List TVote) (o : TallyOut) (hv : ValsOK vals)
    (hok : ∀ t ∈ votes, VoteOK0 t)
    (hd : ∀ a, voteLoop cfg vals TAcc.init votes = some a → DedOK vals a)
    (hsmall : 5 * tallyItems vals votes < 2 * P)
    (h : tally cfg vals votes = some o) :
    o.counted ≤ bondedTotal vals ∧ 2 * o.total ≤ 2 * (bondedTotal vals * P) + tallyItems vals votes := by
  have hok' : ∀ t ∈ votes, VoteOK cfg vals t := fun t ht => ⟨(hok t ht).1, (hok t ht).2, fun _ _ => Or.inr rfl⟩
  exact ⟨tally_counted_le cfg vals votes o hv hok' hd hsmall h, (tally_bounds cfg vals votes o hv hok' hd h).1⟩

/-- the former witness (finding F8: 1 000 000 bonded, a voter holding 500 000 000 units of an unbonding validator):
    nothing is counted for it -/
example : (tally cfg exTVals exTVotes).map (fun o => o.counted) = some 0 ∧ bondedTotal exTVals = 1000000 := by decide

/-- non-vacuity: both validators bonded; the derivative holder (wallet + savings + earn), a delegator with a split
    vote and validator 1 itself vote; the four counts add up to 465 399 999 ≤ 465 000 000 (validator 1) + 400 000
    (the delegation to validator 0, which does not vote itself) -/
example : (tally cfg
    [{ tokens := 1000000, shares := ⟨1000000 * P⟩, bonded := true }, { tokens := 465000000, shares := ⟨500000000 * P⟩, bonded := true }]
    [{ oper := none, opts := [(1, ⟨P⟩)], dels := [], wallet := [(1, 300000000)], savings := [(1, 50000000)], earn := [(1, 50000000)] },
     { oper := none, opts := [(3, ⟨P / 2⟩), (4, ⟨P / 2⟩)], dels := [(0, ⟨400000 * P⟩), (1, ⟨1000000 * P + 1⟩)], wallet := [], savings := [], earn := [] },
     { oper := some 1, opts := [(2, ⟨P⟩)], dels := [(1, ⟨7 * P⟩)], wallet := [], savings := [], earn := [] }]).map
    (fun o => (o.yes, o.abstain, o.no, o.veto)) = some (372000000, 92069999, 665000, 665000) := by decide

/-- A derivative is counted once: `getAddrBkava` lists each validator at most once, with the units held in the
    wallet, in savings and in earn added up; for a validator of the set the coin's truncated token value is added
    to the total exactly once and the same units are deducted from the shares the validator inherits (its own
    power is computed from `shares − deductions`, see `valStep`).  Together with `C12_tally_le_bonded`:
    nothing is counted twice. -/
theorem C12_tally_counts_once (g : Cfg) (vals : List TVal) (t : TVote) (a : TAcc) (v : Nat) (x : Int)
    (hb : (tvAt vals v).bonded = true) (hS : (tvAt vals v).shares.m ≠ 0) :
    ((addrBkava vals.length t).map Prod.fst).Nodup ∧
    (∀ y, y ∈ addrBkava vals.length t ↔
      (y.1 < vals.length ∧ y.2 = amountOf t.wallet y.1 + amountOf t.savings y.1 + amountOf t.earn y.1 ∧ 0 < y.2)) ∧
    ∃ a', bkStep g vals t.opts a v x = some a' ∧ a'.total = a.total + stakedTok (tvAt vals v) x * P ∧
      a'.ded = bump a.ded v (x * P) ∧ a'.vote = a.vote := by
  obtain ⟨n1, n2⟩ := addrBkava_spec vals.length t
  obtain ⟨a', h1, h2, h3, h4, -⟩ := bkStep_effect g vals t.opts a v x hb hS
  exact ⟨n1, n2, a', h1, h2, h3, h4⟩

/-- **The tally cannot panic on a derivative, live model** (it runs in the gov end blocker): a derivative whose
    validator is not in the bonded set is skipped before any division, and a validator of the set has positive
    shares. -/
theorem C12_tally_no_panic (vals : List TVal) (hv : ValsOK vals) (votes : List TVote) :
    (tally cfg vals votes).isSome = true := by
  obtain ⟨o, ho⟩ := tally_some cfg rfl vals hv votes
  rw [ho]; rfl

/-- the former witness (a validator emptied to zero shares with one derivative unit outstanding) -/
example : (tally cfg exTValsEmpty exTVotesEmpty).map (fun o => o.counted) = some 0 := by decide

/-! ## 7. History: the code before the three fix commits (`Cfg.current`) — not the live model

  Kept as `example`s so that the record of what was wrong stays machine-checked: on `Cfg.current` four statements
  of the property are false on literal witnesses (the same histories were reproduced on the real keepers, see
  findings/C12-*.md; harness/cmd/c12/directed.go replays them on every run against the live code). -/

/-- before 932d1f99a: a mint after a slash breaks backing (3 units against 2.1269… module shares) -/
example : ¬ (∀ (M : Addr) (c c' : VSt) (d : Addr) (amount der : Int), d ≠ M → Backed M c →
    mint Cfg.current M c d true amount = .ok (c', der) → Backed M c') := by
  intro h
  have w : (mint Cfg.current 0 exSlashed 1 true 3).okAnd (fun p => decide (¬ Backed 0 p.1)) = true := by decide
  obtain ⟨⟨c', der⟩, hm, hp⟩ := Res.okAnd_elim w
  exact (of_decide_eq_true hp) (h 0 exSlashed c' 1 3 der (by decide) (by decide) hm)

/-- before 932d1f99a: the stake of a large holder is valued 2.01 tokens higher after a mint (sane rate, rate ≤ 1
    before and after, claim ≤ shares: `exWhale_ok`) -/
example : ¬ (∀ (M : Addr) (c c' : VSt) (d : Addr) (amount der : Int), d ≠ M →
    mint Cfg.current M c d true amount = .ok (c', der) → ValueWithinTwo c c' d) := by
  intro h
  have w : (mint Cfg.current 0 exWhale 1 true 606).okAnd (fun p => decide (¬ ValueWithinTwo exWhale p.1 1)) = true := by decide
  obtain ⟨⟨c', der⟩, hm, hp⟩ := Res.okAnd_elim w
  exact (of_decide_eq_true hp) (h 0 exWhale c' 1 606 der (by decide) hm)

/-- before 96498654b: a burn worth zero tokens stores a zero-share delegation for an account that never delegated -/
example : (burn Cfg.current 0 exHolder 2 1).okAnd (fun p => decide (¬ NoEmptyAt p.1 2)) = true := by decide

/-- before 66dfa73a4: 500 000 000 counted against 1 000 000 bonded -/
example : (tally Cfg.current exTVals exTVotes).map (fun o => decide (bondedTotal exTVals < o.counted)) = some true := by decide

/-- before 932d1f99a + 66dfa73a4: the tally divides by the zero shares of an emptied validator (panic) -/
example : (tally Cfg.current exTValsEmpty exTVotesEmpty).isSome = false := by decide

/-! ## 8. MsgBurnDerivative: the coin must be the NAMED validator's own derivative

  The message has two independent fields, the validator and the coin.  "Burning moves it back" and "every holder can
  always redeem" are per validator: only bkava-<v> may take shares out of the module's delegation to v.
  (Model/LiquidBurnGuard.lean, Proofs/LiquidBurnGuard.lean; the harness sends such messages — c12.cross — and the
  driver's predicate is `C12_guards burn-denom-validator-mismatch-accepted`.) -/

/-- **Guards, burn message** (any configuration).  A MsgBurnDerivative whose coin is not the derivative of the
    validator it names — another validator's derivative, a derivative denom of an address without validator, any
    other denom — is refused and changes nothing in any history; an accepted one is exactly the per-validator burn
    all the other C12 theorems speak about. -/
theorem C12_guards_burn_denom (g : Cfg) (M : Addr) (s : Chain) (d v : Nat) (dn : CoinDenom) (amount : Int) :
    (dn ≠ .deriv v → stepBurn g M s d v dn amount = .err ∧
        ∀ ms, runM g M s (.burnCoin d v dn amount :: ms) = runM g M s ms) ∧
    (∀ s', stepBurn g M s d v dn amount = .ok s' → dn = .deriv v ∧ step g M s (.burn d v amount) = .ok s') :=
  ⟨fun h => ⟨stepBurn_mismatch_refused g M s d v dn amount h, fun ms => runM_mismatch_skip g M s d v dn amount ms h⟩,
   fun s' h => stepBurn_ok_is_burn g M s s' d v dn amount h⟩

/-- **Backing along histories of messages** (live model): `C12_backed` with burn messages that carry any denom. -/
theorem C12_backed_messages (accts : List Addr) (hn : accts.Nodup) (M : Addr) (hM : M ∈ accts) (ms : List MOp) (s s' : Chain)
    (hact : ∀ op ∈ ms.filterMap MOp.toOp, ∀ a ∈ op.actors, a ∈ accts)
    (hwf : ∀ w, WF accts (s w)) (hb : ∀ w, Backed M (s w))
    (hrun : runM cfg M s ms = some s') : ∀ w, Backed M (s' w) :=
  C12_backed accts hn M hM (ms.filterMap MOp.toOp) s s' hact hwf hb (by rw [← runM_eq_run]; exact hrun)

/-- **What the comparison is for**: the same message without it (`burnUnguarded`, NOT the code) is accepted on the
    backed two-validator state `exTwo` and leaves validator 1's 10 derivative units with one module share; the code
    refuses it. -/
theorem C12_burn_denom_guard_needed :
    (Backed 0 (exTwo 0) ∧ Backed 0 (exTwo 1)) ∧
    (burnUnguarded cfg 0 exTwo 1 0 1 9).okAnd (fun s' => decide (¬ Backed 0 (s' 1) ∧ (s' 1).supply = 10 ∧ (s' 0).supply = 1)) = true ∧
    (stepBurn cfg 0 exTwo 1 1 (.deriv 0) 9).isErr = true :=
  ⟨exTwo_backed, burnUnguarded_breaks_backing, stepBurn_exTwo_refused⟩

end KV.Liquid
