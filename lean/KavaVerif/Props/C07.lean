/-
  C07 — Swap AMM: reserves are in custody, share value never drops, no rounding profit.

  "After every operation the swap module account balance equals the sum of all pool reserves and each
   pool's total shares equal the sum of its depositors' shares. A swap never decreases the product of
   the pool's reserves and always keeps at least the configured fee in the pool; deposits and
   withdrawals never decrease the reserves backing each outstanding share, so depositing and
   immediately withdrawing never returns more of either token than was put in, and in a pool nobody
   else touches no sequence of swaps leaves a trader with more of one token without less of the other.
   Results do not depend on the order in which the two tokens are named, and the caller's slippage
   limit is always enforced."

  The model is KavaVerif/Model/Swap.lean (base_pool.go, denominated_pool.go, deposit.go, withdraw.go,
  swap.go transcribed; sdkmath.Int = Int unbounded, sdk.Dec bit-exact).  Only property statements live
  here; helper lemmas are in KavaVerif/Proofs/Swap.lean and KavaVerif/Proofs/SwapKeeper.lean.
  `P` = 10^18 is the Dec precision; a fee rate is `fee.m / P`.
-/
import KavaVerif.Proofs.SwapKeeper
import KavaVerif.Generated.C07Swap
import KavaVerif.Proofs.TieFnSwap
set_option linter.unusedSimpArgs false
set_option linter.unusedVariables false

namespace KV.SW

/-! ## BasePool: all reserve sizes, all amounts, all fee rates in [0,1) -/

/-- "initial shares via integer sqrt": the shares of a new pool are exactly ⌊√(A·B)⌋. -/
theorem C07_isqrt (a b : Int) (ha : 0 < a) (hb : 0 < b) :
    ∃ p, newBasePool a b = some p ∧ p.a = a ∧ p.b = b ∧ 0 ≤ p.s ∧
      p.s * p.s ≤ a * b ∧ a * b < (p.s + 1) * (p.s + 1) := by
  refine ⟨⟨a, b, initialShares a b⟩, ?_, rfl, rfl, initialShares_nonneg a b, ?_⟩
  · unfold newBasePool; rw [if_neg (by omega)]
  · exact initialShares_spec a b (Int.le_of_lt (Int.mul_pos ha hb))

/-- "A swap never decreases the product of the pool's reserves": for each of the four swap functions,
    on any pool with positive reserves, a successful swap has
    (A' − feeA)(B' − feeB) ≥ A·B — the quantity `assertInvariantAndUpdateReserves` checks —
    hence A'·B' ≥ A·B, and both reserves stay positive; the shares are untouched. -/
theorem C07_product_nondecreasing (p p' : Pool) (fee : Dec) (op : SwapOp) (r fv : Int)
    (ha : 0 < p.a) (hb : 0 < p.b) (h : applySwap p fee op = some (p', r, fv)) :
    p.a * p.b ≤ (p'.a - (if op.paysA then fv else 0)) * (p'.b - (if op.paysA then 0 else fv)) ∧
    p.a * p.b ≤ p'.a * p'.b ∧ 0 < p'.a ∧ 0 < p'.b ∧ p'.s = p.s := by
  obtain ⟨sp, hs⟩ := applySwap_spec p p' fee op r fv ha hb h
  have i := sp.in_added; have ip := sp.inp_pos; have ol := sp.out_left
  have pf := sp.product_fee; have pr := sp.product
  cases hp : op.paysA <;> simp only [hp, ite_true, ite_false, Bool.false_eq_true, Int.sub_zero] at *
  · exact ⟨by rw [Int.mul_comm p.a, Int.mul_comm p'.a]; exact pf,
      by rw [Int.mul_comm p.a, Int.mul_comm p'.a]; exact pr, ol, by omega, hs⟩
  · exact ⟨pf, pr, by omega, ol, hs⟩

/-- … so the internal invariant assertion (a panic) can never fire: with the documented input guards
    (positive amount, fee in [0,1), exact output below the reserve) every swap on a pool with positive
    reserves succeeds.  (Also a C02 obligation.) -/
theorem C07_invariant_assertion_unreachable (p : Pool) (fee : Dec) (op : SwapOp)
    (ha : 0 < p.a) (hb : 0 < p.b) (hg : op.guardsOk p fee) : ∃ r, applySwap p fee op = some r :=
  applySwap_total p fee op ha hb hg

/-- "always keeps at least the configured fee in the pool": the whole input (fee included) is added to
    the reserve of the token paid in, the output is taken from the other reserve, and the fee part `fv`
    of the input satisfies fv ≥ input·rate (so fv ≥ ⌈input·rate⌉, `fv` being an integer), 0 ≤ fv ≤ input;
    the product inequality of `C07_product_nondecreasing` holds with that fee set aside. -/
theorem C07_fee_kept (p p' : Pool) (fee : Dec) (op : SwapOp) (r fv : Int)
    (ha : 0 < p.a) (hb : 0 < p.b) (h : applySwap p fee op = some (p', r, fv)) :
    (if op.paysA then p'.a else p'.b) = (if op.paysA then p.a else p.b) + op.paid r ∧
    (if op.paysA then p'.b else p'.a) = (if op.paysA then p.b else p.a) - op.received r ∧
    op.paid r * fee.m ≤ fv * P ∧ 0 ≤ fv ∧ fv ≤ op.paid r ∧ 0 < op.paid r ∧ 0 ≤ op.received r := by
  obtain ⟨sp, -⟩ := applySwap_spec p p' fee op r fv ha hb h
  exact ⟨sp.in_added, sp.out_taken, sp.fee_rate, sp.fee_nonneg, sp.fee_le, sp.inp_pos, sp.out_nonneg⟩

/-- "deposits and withdrawals never decrease the reserves backing each outstanding share":
    A'/S' ≥ A/S and B'/S' ≥ B/S, cross-multiplied, for `AddLiquidity` … -/
theorem C07_share_value_monotone_deposit (p p' : Pool) (da db actA actB sh : Int)
    (ha : 0 < p.a) (hb : 0 < p.b) (hs : 0 ≤ p.s)
    (h : addLiquidity p da db = some (p', actA, actB, sh)) :
    p.a * p'.s ≤ p'.a * p.s ∧ p.b * p'.s ≤ p'.b * p.s ∧
    0 ≤ actA ∧ actA ≤ da ∧ 0 ≤ actB ∧ actB ≤ db ∧ 0 ≤ sh := by
  obtain ⟨m1, m2⟩ := addLiquidity_monotone p p' da db actA actB sh ha hb hs h
  obtain ⟨-, -, -, -, -, a0, a1, b0, b1, s0, -, -⟩ := addLiquidity_spec p p' da db actA actB sh ha hb hs h
  exact ⟨m1, m2, a0, a1, b0, b1, s0⟩

/-- … and for `RemoveLiquidity`. -/
theorem C07_share_value_monotone_withdraw (p p' : Pool) (sh wa wb : Int) (ha : 0 ≤ p.a) (hb : 0 ≤ p.b)
    (h : removeLiquidity p sh = some (p', wa, wb)) :
    p.a * p'.s ≤ p'.a * p.s ∧ p.b * p'.s ≤ p'.b * p.s ∧ 0 ≤ wa ∧ wa ≤ p.a ∧ 0 ≤ wb ∧ wb ≤ p.b := by
  obtain ⟨m1, m2⟩ := removeLiquidity_monotone p p' sh wa wb ha hb h
  obtain ⟨-, -, -, -, -, a0, a1, b0, b1, -, -, -, -⟩ := removeLiquidity_spec p p' sh wa wb ha hb h
  exact ⟨m1, m2, a0, a1, b0, b1⟩

/-- "depositing and immediately withdrawing never returns more of either token than was put in" -/
theorem C07_deposit_withdraw_no_profit (p p1 p2 : Pool) (da db actA actB sh wa wb : Int)
    (ha : 0 < p.a) (hb : 0 < p.b) (hs : 0 < p.s)
    (h1 : addLiquidity p da db = some (p1, actA, actB, sh))
    (h2 : removeLiquidity p1 sh = some (p2, wa, wb)) : wa ≤ actA ∧ wb ≤ actB :=
  roundtrip_no_profit p p1 p2 da db actA actB sh wa wb ha hb hs h1 h2

/-- the same for the first deposit (pool creation): withdrawing all the initial shares returns exactly
    what was put in -/
theorem C07_create_withdraw_no_profit (a b : Int) (p p2 : Pool) (wa wb : Int)
    (h1 : newBasePool a b = some p) (h2 : removeLiquidity p p.s = some (p2, wa, wb)) :
    wa = a ∧ wb = b := by
  unfold newBasePool at h1
  split at h1
  · cases h1
  · rename_i hc; cases h1
    obtain ⟨e1, e2, -⟩ := removeLiquidity_all _ p2 wa wb (by simp only []; omega) (by simp only []; omega) h2
    exact ⟨e1, e2⟩

/-- "in a pool nobody else touches no sequence of swaps leaves a trader with more of one token without
    less of the other": over ANY list of swaps (any kinds, amounts, fee rates; panicking swaps change
    nothing), if the pool ends with less A than it started with (the trader holds more A) then it ends
    with strictly more B (the trader holds less B), and symmetrically.  The product of the reserves never
    decreases over the sequence. -/
theorem C07_no_free_token (p : Pool) (ops : List (Dec × SwapOp)) (ha : 0 < p.a) (hb : 0 < p.b) :
    ((runSwaps p ops).a < p.a → p.b < (runSwaps p ops).b) ∧
    ((runSwaps p ops).b < p.b → p.a < (runSwaps p ops).a) ∧
    p.a * p.b ≤ (runSwaps p ops).a * (runSwaps p ops).b := by
  obtain ⟨a', b', pr, -⟩ := runSwaps_product ops p ha hb
  refine ⟨fun hlt => product_no_free p.a p.b _ _ ha hb a' b' pr hlt, fun hlt => ?_, pr⟩
  exact product_no_free p.b p.a _ _ hb ha b' a'
    (by rw [Int.mul_comm p.b, Int.mul_comm (runSwaps p ops).b]; exact pr) hlt

/-- "Results do not depend on the order in which the two tokens are named": every BasePool operation
    commutes with exchanging the two tokens (for every pool and every input, valid or not). -/
theorem C07_symmetric (p : Pool) (da db sh : Int) (fee : Dec) (op : SwapOp) :
    addLiquidity p.flip db da = flipAdd (addLiquidity p da db) ∧
    removeLiquidity p.flip sh = flipRem (removeLiquidity p sh) ∧
    applySwap p.flip fee op.flip = flipSwap (applySwap p fee op) ∧
    initialShares db da = initialShares da db :=
  ⟨addLiquidity_flip p da db, removeLiquidity_flip p sh, applySwap_flip p fee op, initialShares_comm db da⟩

/-! ## Keeper: pool records, share records, module account; all histories -/

/-- The custody theorems below quantify over the keeper's own messages; that nothing else moves the
    module account's coins is wiring, regenerated from app/app.go and x/swap on every run: the swap
    module account is not among the accounts exempt from the bank's blocked-recipient list (a bank send
    to it is refused), it has no mint or burn permission, the account the keeper sends to is the module
    name app.go registers, and the four invariant routes (incl. pool-reserves and pool-shares, i.e.
    `C07_custody` and `C07_shares_sum` as runtime checks) are registered.  A source edit that changes
    any of these changes the generated table and re-opens this obligation. -/
theorem C07_module_account_closed :
    KV.Gen.C07.swapModuleAccount ∉ KV.Gen.C07.unblockedModuleAccounts ∧
    KV.Gen.C07.swapPerms = [] ∧
    KV.Gen.C07.moduleAccountNameExpr = KV.Gen.C07.moduleNameExpr ∧
    "pool-reserves" ∈ KV.Gen.C07.registeredInvariants ∧ "pool-shares" ∈ KV.Gen.C07.registeredInvariants ∧
    KV.Gen.C07.maxSwapFeeExpr = "sdk.OneDec()" := by
  decide

/-- the state before any swap message: no pools, no shares, an empty module account -/
theorem C07_inv_genesis (M : Addr) (accts : List Addr) (pids : List PoolId) (bal : Addr → Denom → Int)
    (hM : ∀ d, bal M d = 0) : Inv M accts pids ⟨fun _ => none, fun _ _ => 0, bal⟩ := by
  refine ⟨?_, ?_, ?_, ?_, ?_⟩
  · intro d; show bal M d = _; rw [hM d]
    induction pids with
    | nil => rfl
    | cons x xs ih => rw [sumL_cons, ← ih]; simp [resv]
  · intro pid
    induction accts with
    | nil => rfl
    | cons x xs ih => rw [sumL_cons, ← ih]; simp [totalShares]
  · intro pid h; exact absurd rfl h
  · intro pid p h; cases h
  · intro a pid; exact Int.le_refl 0

/-- One step: every successful message (deposit incl. pool creation, withdraw incl. pool deletion, both
    swaps) preserves the invariant `Inv` = custody ∧ shares-sum ∧ record validity. -/
theorem C07_inv_step (M : Addr) (accts : List Addr) (pids : List PoolId) (prm : Params) (s s' : KSt) (op : Op)
    (hnA : accts.Nodup) (hnP : pids.Nodup) (hw : op.who ∈ accts) (hwM : op.who ≠ M)
    (hallow : ∀ pid, prm.allowed pid = true → pid ∈ pids)
    (h : Inv M accts pids s) (hok : kstep M prm s op = .ok s') : Inv M accts pids s' :=
  kstep_inv M accts pids prm s s' op hnA hnP hw hwM hallow h hok

/-- "After every operation the swap module account balance equals the sum of all pool reserves":
    for every history of messages by accounts in `accts` (none of them the module account) under any
    sequence of parameter sets whose allowed pools lie in `pids`, from any state satisfying the
    invariant (e.g. genesis), per denomination. -/
theorem C07_custody (M : Addr) (accts : List Addr) (pids : List PoolId)
    (hnA : accts.Nodup) (hnP : pids.Nodup) (ops : List (Params × Op)) (s : KSt)
    (hops : ∀ o ∈ ops, o.2.who ∈ accts ∧ o.2.who ≠ M ∧ ∀ pid, o.1.allowed pid = true → pid ∈ pids)
    (h : Inv M accts pids s) (d : Denom) :
    (runOps M s ops).bal M d = sumL pids (fun pid => resv pid ((runOps M s ops).pool pid) d) :=
  (runOps_inv M accts pids hnA hnP ops s hops h).custody d

/-- "each pool's total shares equal the sum of its depositors' shares" — same quantification; every
    stored pool record has positive reserves and shares, every share record is non-negative. -/
theorem C07_shares_sum (M : Addr) (accts : List Addr) (pids : List PoolId)
    (hnA : accts.Nodup) (hnP : pids.Nodup) (ops : List (Params × Op)) (s : KSt)
    (hops : ∀ o ∈ ops, o.2.who ∈ accts ∧ o.2.who ≠ M ∧ ∀ pid, o.1.allowed pid = true → pid ∈ pids)
    (h : Inv M accts pids s) (pid : PoolId) :
    totalShares ((runOps M s ops).pool pid) = sumL accts (fun a => (runOps M s ops).sh a pid) ∧
    (∀ p, (runOps M s ops).pool pid = some p → 0 < p.a ∧ 0 < p.b ∧ 0 < p.s) ∧
    (∀ a, 0 ≤ (runOps M s ops).sh a pid) :=
  let i := runOps_inv M accts pids hnA hnP ops s hops h
  ⟨i.shares pid, i.valid pid, fun a => i.shNonneg a pid⟩

/-- A successful keeper swap (either kind) stores exactly the result of the BasePool swap on the stored
    record, so `C07_product_nondecreasing` and `C07_fee_kept` apply to it with the configured fee:
    stated directly on the records and on the trader's balance — the trader pays `x`, all of it is added
    to the reserve of the token paid, receives `y`, taken from the other reserve, and
    (Rin' − fee)(Rout') ≥ Rin·Rout for a fee of at least x·rate. -/
theorem C07_keeper_swap (M : Addr) (prm : Params) (s s' : KSt) (op : Op) (who : Addr) (dIn dOut : Denom)
    (x1 x2 : Int) (slip : Dec) (hwM : who ≠ M)
    (hop : op = .swapExact who dIn x1 dOut x2 slip ∨ op = .swapForExact who dIn x1 dOut x2 slip)
    (hok : kstep M prm s op = .ok s') :
    ∃ (r p' : Pool) (x y fv : Int),
      s.pool (poolId dIn dOut) = some r ∧ s'.pool (poolId dIn dOut) = some p' ∧ p'.s = r.s ∧
      s.bal who dIn - s'.bal who dIn = x ∧ s'.bal who dOut - s.bal who dOut = y ∧ 0 < x ∧ 0 ≤ y ∧
      SwapSpec (rIn r (poolId dIn dOut) dIn) (rOut r (poolId dIn dOut) dIn)
               (rIn p' (poolId dIn dOut) dIn) (rOut p' (poolId dIn dOut) dIn) x y fv prm.fee.m := by
  have hMw : ¬ M = who := fun e => hwM e.symm
  rcases hop with rfl | rfl
  · obtain ⟨r, p', out, fv, hx⟩ := swapExact_ok M prm s s' who dIn x1 dOut x2 slip hok
    simp only [] at hx
    obtain ⟨hne, -, -, hr, ra, rb, rs, hsw, -, -, pa, pb, ps, hpool, hsh, hbal, -⟩ := hx
    obtain ⟨sp, hs⟩ := poolSwapIn_spec r p' dIn dOut x1 prm.fee out fv hne ra rb hsw
    have hne' : ¬ dOut = dIn := fun e => hne e.symm
    refine ⟨r, p', x1, out, fv, hr, by rw [hpool]; simp, hs, ?_, ?_, sp.inp_pos, sp.out_nonneg, sp⟩
    · rw [hbal who dIn]; simp only [hMw, hwM, hne, and_true, and_false, false_and, true_and, ite_true, ite_false]; omega
    · rw [hbal who dOut]; simp only [hMw, hwM, hne', and_true, and_false, false_and, true_and, ite_true, ite_false]; omega
  · obtain ⟨r, p', inp, fv, hx⟩ := swapForExact_ok M prm s s' who dIn x1 dOut x2 slip hok
    simp only [] at hx
    obtain ⟨hne, -, -, hr, ra, rb, rs, hsw, -, pa, pb, ps, hpool, hsh, hbal, -⟩ := hx
    obtain ⟨sp, hs⟩ := poolSwapOut_spec r p' dIn dOut x2 prm.fee inp fv hne ra rb hsw
    have hne' : ¬ dOut = dIn := fun e => hne e.symm
    refine ⟨r, p', inp, x2, fv, hr, by rw [hpool]; simp, hs, ?_, ?_, sp.inp_pos, sp.out_nonneg, sp⟩
    · rw [hbal who dIn]; simp only [hMw, hwM, hne, and_true, and_false, false_and, true_and, ite_true, ite_false]; omega
    · rw [hbal who dOut]; simp only [hMw, hwM, hne', and_true, and_false, false_and, true_and, ite_true, ite_false]; omega

/-- A successful keeper deposit / withdrawal never decreases the reserves backing each share of the
    stored record (a created pool has no previous shares; a deleted pool has none left). -/
theorem C07_keeper_share_value_monotone (M : Addr) (prm : Params) (s s' : KSt) (op : Op)
    (r p' : Pool)
    (hvalid : ∀ pid p, s.pool pid = some p → 0 < p.a ∧ 0 < p.b ∧ 0 < p.s)
    (hwM : op.who ≠ M)
    (hok : kstep M prm s op = .ok s') :
    (∀ who dA xA dB xB slip, op = .deposit who dA xA dB xB slip →
        s.pool (poolId dA dB) = some r → s'.pool (poolId dA dB) = some p' →
        r.a * p'.s ≤ p'.a * r.s ∧ r.b * p'.s ≤ p'.b * r.s) ∧
    (∀ who sh dA mA dB mB, op = .withdraw who sh dA mA dB mB →
        s.pool (poolId dA dB) = some r → s'.pool (poolId dA dB) = some p' →
        r.a * p'.s ≤ p'.a * r.s ∧ r.b * p'.s ≤ p'.b * r.s) := by
  constructor
  · intro who dA xA dB xB slip hop hr hp'
    subst hop
    obtain ⟨q', depLo, depHi, sh, hx⟩ := deposit_ok M prm s s' who dA xA dB xB slip hwM hvalid hok
    simp only [] at hx
    obtain ⟨-, -, -, -, -, -, -, -, -, -, -, m1, m2, -, -, -, -, -, hpool, -, -, -, -⟩ := hx
    rw [hpool] at hp'; simp only [ite_true] at hp'; cases hp'
    rw [hr] at m1 m2; exact ⟨m1, m2⟩
  · intro who sh dA mA dB mB hop hr hp'
    subst hop
    obtain ⟨r0, q', wLo, wHi, hx⟩ := withdraw_ok M s s' who sh dA mA dB mB hok
    simp only [] at hx
    obtain ⟨-, hr0, ra, rb, -, -, -, hrem, -, -, -, -, -, -, hpool, -, -, -⟩ := hx
    rw [hr] at hr0; cases hr0
    rw [hpool] at hp'; simp only [ite_true] at hp'
    split at hp'
    · cases hp'
    · cases hp'
      exact removeLiquidity_monotone r p' sh wLo wHi (by omega) (by omega) hrem

/-- "the caller's slippage limit is always enforced" — deposit: on success the price change the keeper
    computes from what the depositor actually paid (Dec `Quo`, `MaxDec`, minus one) is within the limit,
    and never more than the desired amounts is taken. -/
theorem C07_slippage_enforced_deposit (M : Addr) (prm : Params) (s s' : KSt) (who : Addr) (dA : Denom)
    (xA : Int) (dB : Denom) (xB : Int) (slip : Dec) (hwM : who ≠ M)
    (hvalid : ∀ pid p, s.pool pid = some p → 0 < p.a ∧ 0 < p.b ∧ 0 < p.s)
    (hok : deposit M prm s who dA xA dB xB slip = .ok s') :
    let paidA := s.bal who dA - s'.bal who dA
    let paidB := s.bal who dB - s'.bal who dB
    0 < paidA ∧ paidA ≤ xA ∧ 0 < paidB ∧ paidB ≤ xB ∧
    (Dec.sub (Dec.max (Dec.quo (Dec.ofInt xA) (Dec.ofInt paidA)) (Dec.quo (Dec.ofInt xB) (Dec.ofInt paidB)))
      Dec.one).m ≤ slip.m := by
  obtain ⟨p', depLo, depHi, sh, hx⟩ := deposit_ok M prm s s' who dA xA dB xB slip hwM hvalid hok
  simp only [] at hx
  obtain ⟨hne, -, -, -, -, -, -, dl, dh, a1, b1, -, -, -, -, -, -, hsl, -, -, hbal, -, -⟩ := hx
  obtain ⟨hlh, hcase⟩ := poolId_cases dA dB hne
  have hhl : ¬ (poolId dA dB).hi = (poolId dA dB).lo := fun e => hlh e.symm
  simp only []
  generalize hpid : poolId dA dB = pid at *
  rcases hcase with ⟨h1, h2, hc⟩ | ⟨h1, h2, hc⟩
  · simp only [hc, ite_false] at a1 b1 hsl
    have eA : s.bal who dA - s'.bal who dA = depLo := by
      rw [hbal who dA, h1]; simp only [hwM, hlh, and_true, and_false, false_and, true_and, ite_true, ite_false]; omega
    have eB : s.bal who dB - s'.bal who dB = depHi := by
      rw [hbal who dB, h2]; simp only [hwM, hhl, and_true, and_false, false_and, true_and, ite_true, ite_false]; omega
    rw [eA, eB]; exact ⟨dl, a1, dh, b1, hsl⟩
  · simp only [hc, ite_true] at a1 b1 hsl
    have eA : s.bal who dA - s'.bal who dA = depHi := by
      rw [hbal who dA, h1]; simp only [hwM, hhl, and_true, and_false, false_and, true_and, ite_true, ite_false]; omega
    have eB : s.bal who dB - s'.bal who dB = depLo := by
      rw [hbal who dB, h2]; simp only [hwM, hlh, and_true, and_false, false_and, true_and, ite_true, ite_false]; omega
    rw [eA, eB]; exact ⟨dh, a1, dl, b1, hsl⟩

/-- … withdraw: on success the owner receives at least both minimum amounts. -/
theorem C07_slippage_enforced_withdraw (M : Addr) (s s' : KSt) (who : Addr) (shares : Int) (dA : Denom)
    (minA : Int) (dB : Denom) (minB : Int) (hwM : who ≠ M)
    (hok : withdraw M s who shares dA minA dB minB = .ok s') :
    minA ≤ s'.bal who dA - s.bal who dA ∧ minB ≤ s'.bal who dB - s.bal who dB ∧
    s'.sh who (poolId dA dB) = s.sh who (poolId dA dB) - shares := by
  obtain ⟨r, p', wLo, wHi, hx⟩ := withdraw_ok M s s' who shares dA minA dB minB hok
  simp only [] at hx
  obtain ⟨hne, -, -, -, -, -, -, -, -, -, mA, mB, -, -, -, -, hsh, hbal⟩ := hx
  obtain ⟨hlh, hcase⟩ := poolId_cases dA dB hne
  have hhl : ¬ (poolId dA dB).hi = (poolId dA dB).lo := fun e => hlh e.symm
  have hMw : ¬ M = who := fun e => hwM e.symm
  generalize hpid : poolId dA dB = pid at *
  refine ⟨?_, ?_, by rw [hsh]; simp⟩
  · rcases hcase with ⟨h1, h2, hc⟩ | ⟨h1, h2, hc⟩
    · simp only [hc, ite_false] at mA
      rw [hbal who dA, h1]; simp only [hMw, hwM, hlh, and_true, and_false, false_and, true_and, ite_true, ite_false]; omega
    · simp only [hc, ite_true] at mA
      rw [hbal who dA, h1]; simp only [hMw, hwM, hhl, and_true, and_false, false_and, true_and, ite_true, ite_false]; omega
  · rcases hcase with ⟨h1, h2, hc⟩ | ⟨h1, h2, hc⟩
    · simp only [hc, ite_false] at mB
      rw [hbal who dB, h2]; simp only [hMw, hwM, hhl, and_true, and_false, false_and, true_and, ite_true, ite_false]; omega
    · simp only [hc, ite_true] at mB
      rw [hbal who dB, h2]; simp only [hMw, hwM, hlh, and_true, and_false, false_and, true_and, ite_true, ite_false]; omega

/-- … exact-input swap: on success the trader paid exactly `xIn` and the output `out` received
    satisfies the keeper's check 1 − out/minOut ≤ limit (Dec `Quo`); in integers this gives
    out/minOut ≥ 1 − limit − ½·10⁻¹⁸, the half unit being `Quo`'s banker's rounding. -/
theorem C07_slippage_enforced_swap_exact_input (M : Addr) (prm : Params) (s s' : KSt) (who : Addr)
    (dIn : Denom) (xIn : Int) (dOut : Denom) (minOut : Int) (slip : Dec) (hwM : who ≠ M)
    (hok : swapExactForTokens M prm s who dIn xIn dOut minOut slip = .ok s') :
    let out := s'.bal who dOut - s.bal who dOut
    s.bal who dIn - s'.bal who dIn = xIn ∧ 0 < out ∧
    slippageOk (Dec.quo (Dec.ofInt out) (Dec.ofInt minOut)) slip = true := by
  obtain ⟨r, p', out, fv, hx⟩ := swapExact_ok M prm s s' who dIn xIn dOut minOut slip hok
  simp only [] at hx
  obtain ⟨hne, -, -, hr, ra, rb, rs, hsw, hz, hsl, -, -, -, -, -, hbal, -⟩ := hx
  obtain ⟨sp, -⟩ := poolSwapIn_spec r p' dIn dOut xIn prm.fee out fv hne ra rb hsw
  have hne' : ¬ dOut = dIn := fun e => hne e.symm
  have hMw : ¬ M = who := fun e => hwM e.symm
  have eO : s'.bal who dOut - s.bal who dOut = out := by
    rw [hbal who dOut]; simp only [hMw, hwM, hne', and_true, and_false, false_and, true_and, ite_true, ite_false]; omega
  simp only []
  rw [eO]
  refine ⟨?_, by have := sp.out_nonneg; omega, hsl⟩
  rw [hbal who dIn]; simp only [hMw, hwM, hne, and_true, and_false, false_and, true_and, ite_true, ite_false]; omega

/-- … exact-output swap: on success the trader received exactly `xOut`, paid `inp`, and the keeper's
    check 1 − maxIn/(inp − fee) ≤ limit holds for the fee part `fv ≥ inp·rate` of the input. -/
theorem C07_slippage_enforced_swap_exact_output (M : Addr) (prm : Params) (s s' : KSt) (who : Addr)
    (dIn : Denom) (maxIn : Int) (dOut : Denom) (xOut : Int) (slip : Dec) (hwM : who ≠ M)
    (hok : swapForExactTokens M prm s who dIn maxIn dOut xOut slip = .ok s') :
    let inp := s.bal who dIn - s'.bal who dIn
    s'.bal who dOut - s.bal who dOut = xOut ∧
    ∃ fv, 0 ≤ fv ∧ fv < inp ∧ inp * prm.fee.m ≤ fv * P ∧
      slippageOk (Dec.quo (Dec.ofInt maxIn) (Dec.ofInt (inp - fv))) slip = true := by
  obtain ⟨r, p', inp, fv, hx⟩ := swapForExact_ok M prm s s' who dIn maxIn dOut xOut slip hok
  simp only [] at hx
  obtain ⟨hne, -, -, hr, ra, rb, rs, hsw, hsl, -, -, -, -, -, hbal, -⟩ := hx
  obtain ⟨sp, -⟩ := poolSwapOut_spec r p' dIn dOut xOut prm.fee inp fv hne ra rb hsw
  have hne' : ¬ dOut = dIn := fun e => hne e.symm
  have hMw : ¬ M = who := fun e => hwM e.symm
  have eI : s.bal who dIn - s'.bal who dIn = inp := by
    rw [hbal who dIn]; simp only [hMw, hwM, hne, and_true, and_false, false_and, true_and, ite_true, ite_false]; omega
  simp only []
  rw [eI]
  refine ⟨?_, fv, sp.fee_nonneg, ?_, sp.fee_rate, hsl⟩
  · rw [hbal who dOut]; simp only [hMw, hwM, hne', and_true, and_false, false_and, true_and, ite_true, ite_false]; omega
  · -- fv < inp: the keeper divides by inp − fv, which the pool computes as ⌈Rin·out/(Rout−out)⌉ ≥ 1
    unfold poolSwapOut at hsw
    split at hsw
    · unfold swapBForExactA at hsw
      split at hsw
      · cases hsw
      rename_i b fv' hc
      split at hsw
      · cases hsw
      cases hsw
      obtain ⟨-, -, -, -, -, h6, -, -⟩ := inputForExactOutput_spec _ _ _ _ _ _ rb ra hc
      exact h6
    · unfold swapAForExactB at hsw
      split at hsw
      · cases hsw
      rename_i b fv' hc
      split at hsw
      · cases hsw
      cases hsw
      obtain ⟨-, -, -, -, -, h6, -, -⟩ := inputForExactOutput_spec _ _ _ _ _ _ ra rb hc
      exact h6

/-- The same three checks in exact (rational) terms, free of Dec: a successful exact-input swap pays out
    `out` with out/minOut ≥ 1 − limit − ½·10⁻¹⁸; a successful exact-output swap has
    maxIn/(inp − fee) ≥ 1 − limit − ½·10⁻¹⁸; a successful deposit takes `paid` with
    desired/paid < 1 + limit + ½·10⁻¹⁸ + 10⁻³⁶ for both tokens (all cross-multiplied; the half unit is the
    banker's rounding of `Dec.Quo`). -/
theorem C07_slippage_enforced_exact (M : Addr) (prm : Params) (s s' : KSt) (who : Addr) (hwM : who ≠ M)
    (hvalid : ∀ pid p, s.pool pid = some p → 0 < p.a ∧ 0 < p.b ∧ 0 < p.s) :
    (∀ dIn xIn dOut minOut slip, swapExactForTokens M prm s who dIn xIn dOut minOut slip = .ok s' →
        2 * ((P - slip.m) * minOut) ≤ 2 * (s'.bal who dOut - s.bal who dOut) * P + minOut) ∧
    (∀ dIn maxIn dOut xOut slip, swapForExactTokens M prm s who dIn maxIn dOut xOut slip = .ok s' →
        ∃ fv, 0 ≤ fv ∧ (s.bal who dIn - s'.bal who dIn) * prm.fee.m ≤ fv * P ∧
          2 * ((P - slip.m) * (s.bal who dIn - s'.bal who dIn - fv)) ≤
            2 * maxIn * P + (s.bal who dIn - s'.bal who dIn - fv)) ∧
    (∀ dA xA dB xB slip, deposit M prm s who dA xA dB xB slip = .ok s' →
        2 * xA * P * P < (2 * ((P + slip.m) * (s.bal who dA - s'.bal who dA)) + (s.bal who dA - s'.bal who dA)) * P
                          + 2 * (s.bal who dA - s'.bal who dA) ∧
        2 * xB * P * P < (2 * ((P + slip.m) * (s.bal who dB - s'.bal who dB)) + (s.bal who dB - s'.bal who dB)) * P
                          + 2 * (s.bal who dB - s'.bal who dB)) := by
  refine ⟨?_, ?_, ?_⟩
  · intro dIn xIn dOut minOut slip hok
    obtain ⟨-, ho, hsl⟩ := C07_slippage_enforced_swap_exact_input M prm s s' who dIn xIn dOut minOut slip hwM hok
    have hm : 0 < minOut := by
      unfold swapExactForTokens at hok
      split at hok
      · cases hok
      · rename_i hvb; omega
    exact slippageOk_real _ minOut slip (by omega) hm hsl
  · intro dIn maxIn dOut xOut slip hok
    obtain ⟨-, fv, f0, f1, f2, hsl⟩ :=
      C07_slippage_enforced_swap_exact_output M prm s s' who dIn maxIn dOut xOut slip hwM hok
    have hm : 0 < maxIn := by
      unfold swapForExactTokens at hok
      split at hok
      · cases hok
      · rename_i hvb; omega
    exact ⟨fv, f0, f2, slippageOk_real maxIn _ slip (by omega) (by omega) hsl⟩
  · intro dA xA dB xB slip hok
    obtain ⟨a0, a1, b0, b1, hsl⟩ := C07_slippage_enforced_deposit M prm s s' who dA xA dB xB slip hwM hvalid hok
    exact depositSlippage_real xA xB _ _ slip (by omega) (by omega) a0 b0 hsl

/-- "Results do not depend on the order in which the two tokens are named", at the keeper: a deposit
    and a withdraw message give the same result (state, error or not) whichever of the two coins is
    named first.  (For the two swap messages the order of the coins is the direction of the trade; the
    stored pool is found by the sorted pair either way and the BasePool symmetry `C07_symmetric` applies.) -/
theorem C07_symmetric_keeper (M : Addr) (prm : Params) (s : KSt) (who : Addr) (dA dB : Denom)
    (xA xB shares : Int) (slip : Dec) :
    deposit M prm s who dA xA dB xB slip = deposit M prm s who dB xB dA xA slip ∧
    withdraw M s who shares dA xA dB xB = withdraw M s who shares dB xB dA xA :=
  ⟨deposit_comm M prm s who dA xA dB xB slip, withdraw_comm M s who shares dA xA dB xB⟩

/-- No keeper message can panic on a state satisfying the invariant (pool found for every depositor,
    records loadable, AddLiquidity/RemoveLiquidity/swap inputs in range, the invariant assertion, the
    validated `SetPool`/`SetDepositorShares`, and the module account always able to pay out): with a
    valid fee parameter every message either succeeds or returns an ordinary error.  (Also C02's swap
    obligation.) -/
theorem C07_keeper_never_panics (M : Addr) (accts : List Addr) (pids : List PoolId) (prm : Params)
    (s : KSt) (op : Op) (hw : op.who ∈ accts) (hwM : op.who ≠ M)
    (hf0 : 0 ≤ prm.fee.m) (hf1 : prm.fee.m < P) (h : Inv M accts pids s) :
    kstep M prm s op ≠ .panic :=
  kstep_no_panic M accts pids prm s op hw hwM hf0 hf1 h

/-! ## Governance changes the parameters while pools exist

`runOps` (used by `C07_custody` / `C07_shares_sum`) already lets every message run under its own parameter set,
so custody — over ALL stored pools, whether still on the allowed list or not (`Inv.custody` sums over every pool
id that ever exists) — and the shares sums hold across fee changes, de-listings and re-listings.  What the
allowed-pools parameter does and does not control: -/

/-- `Withdraw` consults no parameter: the same message has the same result under any two parameter sets —
    whatever governance did to the fee or to the allowed-pools list since the deposit. -/
theorem C07_withdraw_ignores_params (M : Addr) (prm prm' : Params) (s : KSt) (who : Addr) (shares : Int)
    (dA : Denom) (minA : Int) (dB : Denom) (minB : Int) :
    kstep M prm s (.withdraw who shares dA minA dB minB) = kstep M prm' s (.withdraw who shares dA minA dB minB) :=
  rfl

/-- Liquidity providers can always exit: on every invariant state, under every parameter set (the pool may have
    been removed from the allowed list), a withdrawal of owned shares whose share value ⌊reserve·shares/total⌋
    meets the message's own positive minimums succeeds. -/
theorem C07_withdraw_available (M : Addr) (accts : List Addr) (pids : List PoolId) (prm : Params) (s : KSt)
    (who : Addr) (shares : Int) (dA : Denom) (minA : Int) (dB : Denom) (minB : Int)
    (hw : who ∈ accts) (hwM : who ≠ M) (h : Inv M accts pids s)
    (hne : dA ≠ dB) (hs0 : 0 < shares) (hmA : 0 < minA) (hmB : 0 < minB)
    (hown : shares ≤ s.sh who (poolId dA dB))
    (r : Pool) (hr : s.pool (poolId dA dB) = some r)
    (hvA : minA ≤ (if dB < dA then r.b else r.a) * shares / r.s)
    (hvB : minB ≤ (if dB < dA then r.a else r.b) * shares / r.s) :
    ∃ s', kstep M prm s (.withdraw who shares dA minA dB minB) = .ok s' :=
  withdraw_available M accts pids s who shares dA minA dB minB hw hwM h hne hs0 hmA hmB hown r hr hvA hvB

/-- … and it pays exactly the share value: the owner receives ⌊A·shares/S⌋ and ⌊B·shares/S⌋ of the stored
    record (A, B, S), the module account pays exactly that, the record shrinks by exactly that. -/
theorem C07_withdraw_pays_share_value (M : Addr) (prm : Params) (s s' : KSt) (who : Addr) (shares : Int)
    (dA : Denom) (minA : Int) (dB : Denom) (minB : Int) (hwM : who ≠ M)
    (hok : kstep M prm s (.withdraw who shares dA minA dB minB) = .ok s') :
    ∃ r, s.pool (poolId dA dB) = some r ∧
      s'.bal who (poolId dA dB).lo - s.bal who (poolId dA dB).lo = r.a * shares / r.s ∧
      s'.bal who (poolId dA dB).hi - s.bal who (poolId dA dB).hi = r.b * shares / r.s ∧
      s.bal M (poolId dA dB).lo - s'.bal M (poolId dA dB).lo = r.a * shares / r.s ∧
      s.bal M (poolId dA dB).hi - s'.bal M (poolId dA dB).hi = r.b * shares / r.s := by
  obtain ⟨r, p', wLo, wHi, hx⟩ := withdraw_ok M s s' who shares dA minA dB minB hok
  simp only [] at hx
  obtain ⟨hne, hr, ra, rb, rs, -, -, hrem, -, -, -, -, -, -, -, -, -, hbal⟩ := hx
  obtain ⟨hlh, -⟩ := poolId_cases dA dB hne
  have hhl : ¬ (poolId dA dB).hi = (poolId dA dB).lo := fun e => hlh e.symm
  have hMw : ¬ M = who := fun e => hwM e.symm
  obtain ⟨-, -, -, -, -, -, -, -, -, -, -, eLo, eHi⟩ :=
    removeLiquidity_spec r p' shares wLo wHi (by omega) (by omega) hrem
  generalize hpid : poolId dA dB = pid at *
  refine ⟨r, hr, ?_, ?_, ?_, ?_⟩
  · rw [hbal who pid.lo]; simp only [hMw, hwM, hlh, and_true, and_false, false_and, true_and, ite_true, ite_false]; omega
  · rw [hbal who pid.hi]; simp only [hMw, hwM, hhl, and_true, and_false, false_and, true_and, ite_true, ite_false]; omega
  · rw [hbal M pid.lo]; simp only [hMw, hwM, hlh, and_true, and_false, false_and, true_and, ite_true, ite_false]; omega
  · rw [hbal M pid.hi]; simp only [hMw, hwM, hhl, and_true, and_false, false_and, true_and, ite_true, ite_false]; omega

/-- The allowed-pools list gates pool CREATION only: every message on a pool that exists has the same result
    whether or not the pool is (still) on the list — deposits into and swaps through a de-listed pool run
    exactly as before, under the fee in force. -/
theorem C07_allowed_list_gates_creation_only (M : Addr) (prm prm' : Params) (s : KSt) (op : Op)
    (hfee : prm.fee = prm'.fee)
    (hex : ∀ who dA xA dB xB slip, op = .deposit who dA xA dB xB slip → s.pool (poolId dA dB) ≠ none) :
    kstep M prm s op = kstep M prm' s op := by
  cases op with
  | withdraw who sh dA mA dB mB => rfl
  | swapExact who dI xI dO mO slip => simp only [kstep, swapExactForTokens, hfee]
  | swapForExact who dI mI dO xO slip => simp only [kstep, swapForExactTokens, hfee]
  | deposit who dA xA dB xB slip =>
    have hp := hex who dA xA dB xB slip rfl
    cases hr : s.pool (poolId dA dB) with
    | none => exact absurd hr hp
    | some r => simp only [kstep, deposit, depositPool, hr]

/-! ## Non-vacuity: concrete states on which the hypotheses hold and the operations succeed -/

def exPool : Pool := ⟨1000003, 2000001, 1414215⟩
def exFee : Dec := ⟨1500000000000000⟩   -- 0.15 %

example : (applySwap exPool exFee (.exactAForB 1000)).isSome = true := by decide
example : (applySwap exPool exFee (.bForExactA 777)).isSome = true := by decide
example : (applySwap exPool ⟨P - 1⟩ (.exactBForA 5)).isSome = true := by decide
example : (addLiquidity exPool 1234 5678).isSome = true := by decide
example : (removeLiquidity exPool 1414).isSome = true := by decide
example : SwapOp.guardsOk exPool exFee (.aForExactB 2000000) := ⟨by decide, by decide, by decide, by decide⟩
example : (runSwaps exPool [(exFee, .bForExactA 1000), (exFee, .exactAForB 300), (⟨0⟩, .exactBForA 3)]).a < exPool.a := by
  decide

/-- a keeper state with one pool, two depositors, a funded trader; module account = address 9 -/
def exSt : KSt :=
  { pool := fun pid => if pid = ⟨0, 1⟩ then some ⟨5000, 20000, 10000⟩ else none,
    sh := fun a pid => if pid = ⟨0, 1⟩ then (if a = 1 then 6000 else if a = 2 then 4000 else 0) else 0,
    bal := fun a d => if a = 9 then (if d = 0 then 5000 else if d = 1 then 20000 else 0)
                      else if a = 3 then 100000 else 0 }
def exPrm : Params := ⟨exFee, fun pid => pid = ⟨0, 1⟩ || pid = ⟨0, 2⟩⟩

example : Inv 9 [1, 2, 3] [⟨0, 1⟩, ⟨0, 2⟩] exSt := by
  refine ⟨?_, ?_, ?_, ?_, ?_⟩
  · intro d
    simp only [exSt, sumL, List.map, List.foldr, resv]
    by_cases h0 : d = 0
    · subst h0; decide
    · by_cases h1 : d = 1
      · subst h1; decide
      · have e0 : ¬ 0 = d := fun e => h0 e.symm
        have e1 : ¬ 1 = d := fun e => h1 e.symm
        simp [h0, h1, e0, e1]
  · intro pid
    by_cases hp : pid = ⟨0, 1⟩
    · subst hp; decide
    · simp [exSt, hp, totalShares, sumL]
  · intro pid h
    by_cases hp : pid = ⟨0, 1⟩
    · subst hp; decide
    · simp [exSt, hp] at h
  · intro pid p h
    by_cases hp : pid = ⟨0, 1⟩
    · subst hp; simp [exSt] at h; subst h; decide
    · simp [exSt, hp] at h
  · intro a pid
    simp only [exSt]; split <;> (try split) <;> (try split) <;> decide

example : (kstep 9 exPrm exSt (.deposit 3 1 4000 0 1000 ⟨0⟩)).isOk = true := by decide
example : (kstep 9 exPrm exSt (.deposit 3 0 70 2 90 ⟨0⟩)).isOk = true := by decide           -- pool creation
example : (kstep 9 exPrm exSt (.withdraw 2 4000 0 1 1 1)).isOk = true := by decide
example : (kstep 9 exPrm exSt (.swapExact 3 0 100 1 380 ⟨10000000000000000⟩)).isOk = true := by decide
example : (kstep 9 exPrm exSt (.swapForExact 3 1 450 0 100 ⟨10000000000000000⟩)).isOk = true := by decide
/-- the slippage limit bites: the same swap with a zero limit and an unreachable minimum is refused -/
example : (kstep 9 exPrm exSt (.swapExact 3 0 100 1 400 ⟨0⟩)).isOk = false := by decide

/-! ## source tie (regenerated)

    `GoFn.Swap.*` (Generated/FnSwap.lean) is regenerated on every run from the Go source of
    x/swap/types/base_pool.go by the function translator (tools/extract/fn*.go): each Go function becomes a
    `do` block in `Go.R` (ok / err / panic).  The theorems below say that every regenerated definition IS
    the hand-written model function the theorems above are about, for ALL arguments (Go panic = the model's
    `none`; `TieFn.swPool` maps the model's `Pool` to the generated `BasePool`; a method that assigns its
    pointer receiver returns the receiver after the call first).  A source edit of one of these functions
    re-opens exactly its obligation here.  Proofs: Proofs/TieFnSwap.lean. -/

open KV.Go KV.TieFn in
/-- `calculateInitialShares`: ⌊√(A·B)⌋.  Domain `0 ≤ A·B` (`big.Int.Sqrt` panics on a negative operand; the
    model's helper `initialShares` is total and only ever applied to positive reserves). -/
theorem C07_source_tie_calculateInitialShares (a b : Int) (h : 0 ≤ a * b) :
    GoFn.Swap.calculateInitialShares_translated = true ∧
    GoFn.Swap.calculateInitialShares a b = R.ok (initialShares a b) :=
  swap_calculateInitialShares a b h

open KV.Go KV.TieFn in
theorem C07_source_tie_NewBasePool (a b : Int) :
    GoFn.Swap.NewBasePool_translated = true ∧
    GoFn.Swap.NewBasePool a b = (match newBasePool a b with | none => R.err | some p => R.ok (swPool p)) :=
  swap_NewBasePool a b

open KV.Go KV.TieFn in
theorem C07_source_tie_NewBasePoolWithExistingShares (a b s : Int) :
    GoFn.Swap.NewBasePoolWithExistingShares_translated = true ∧
    GoFn.Swap.NewBasePoolWithExistingShares a b s
      = (match newBasePoolWithShares a b s with | none => R.err | some p => R.ok (swPool p)) :=
  swap_NewBasePoolWithExistingShares a b s

open KV.Go KV.TieFn in
theorem C07_source_tie_AddLiquidity (p : Pool) (da db : Int) :
    GoFn.Swap.AddLiquidity_translated = true ∧
    GoFn.Swap.AddLiquidity (swPool p) da db
      = R.ofOption ((addLiquidity p da db).map fun r => (swPool r.1, r.2.1, r.2.2.1, r.2.2.2)) :=
  swap_AddLiquidity p da db

open KV.Go KV.TieFn in
theorem C07_source_tie_ShareValue (p : Pool) (sh : Int) :
    GoFn.Swap.ShareValue_translated = true ∧
    GoFn.Swap.ShareValue (swPool p) sh = R.ofOption (shareValue p sh) :=
  swap_ShareValue p sh

open KV.Go KV.TieFn in
theorem C07_source_tie_RemoveLiquidity (p : Pool) (sh : Int) :
    GoFn.Swap.RemoveLiquidity_translated = true ∧
    GoFn.Swap.RemoveLiquidity (swPool p) sh
      = R.ofOption ((removeLiquidity p sh).map fun r => (swPool r.1, r.2.1, r.2.2)) :=
  swap_RemoveLiquidity p sh

open KV.Go KV.TieFn in
/-- the receiver is not read by the Go function (any `g`) -/
theorem C07_source_tie_calculateOutputForExactInput (g : GoFn.Swap.BasePool) (x inR outR : Int) (fee : Dec) :
    GoFn.Swap.calculateOutputForExactInput_translated = true ∧
    GoFn.Swap.calculateOutputForExactInput g x inR outR fee = R.ofOption (outputForExactInput x inR outR fee) :=
  swap_calculateOutputForExactInput g x inR outR fee

open KV.Go KV.TieFn in
/-- the receiver is not read by the Go function (any `g`) -/
theorem C07_source_tie_calculateInputForExactOutput (g : GoFn.Swap.BasePool) (out outR inR : Int) (fee : Dec) :
    GoFn.Swap.calculateInputForExactOutput_translated = true ∧
    GoFn.Swap.calculateInputForExactOutput g out outR inR fee
      = R.ofOption (inputForExactOutput out outR inR fee) :=
  swap_calculateInputForExactOutput g out outR inR fee

open KV.Go KV.TieFn in
theorem C07_source_tie_assertInvariantAndUpdateReserves (p : Pool) (newA feeA newB feeB : Int) :
    GoFn.Swap.assertInvariantAndUpdateReserves_translated = true ∧
    GoFn.Swap.assertInvariantAndUpdateReserves (swPool p) newA feeA newB feeB
      = R.ofOption ((assertInvariantAndUpdate p newA feeA newB feeB).map swPool) :=
  swap_assertInvariantAndUpdateReserves p newA feeA newB feeB

open KV.Go KV.TieFn in
theorem C07_source_tie_SwapExactAForB (p : Pool) (x : Int) (fee : Dec) :
    GoFn.Swap.SwapExactAForB_translated = true ∧
    GoFn.Swap.SwapExactAForB (swPool p) x fee
      = R.ofOption ((swapExactAForB p x fee).map fun r => (swPool r.1, r.2.1, r.2.2)) :=
  swap_SwapExactAForB p x fee

open KV.Go KV.TieFn in
theorem C07_source_tie_SwapExactBForA (p : Pool) (x : Int) (fee : Dec) :
    GoFn.Swap.SwapExactBForA_translated = true ∧
    GoFn.Swap.SwapExactBForA (swPool p) x fee
      = R.ofOption ((swapExactBForA p x fee).map fun r => (swPool r.1, r.2.1, r.2.2)) :=
  swap_SwapExactBForA p x fee

open KV.Go KV.TieFn in
theorem C07_source_tie_SwapAForExactB (p : Pool) (x : Int) (fee : Dec) :
    GoFn.Swap.SwapAForExactB_translated = true ∧
    GoFn.Swap.SwapAForExactB (swPool p) x fee
      = R.ofOption ((swapAForExactB p x fee).map fun r => (swPool r.1, r.2.1, r.2.2)) :=
  swap_SwapAForExactB p x fee

open KV.Go KV.TieFn in
theorem C07_source_tie_SwapBForExactA (p : Pool) (x : Int) (fee : Dec) :
    GoFn.Swap.SwapBForExactA_translated = true ∧
    GoFn.Swap.SwapBForExactA (swPool p) x fee
      = R.ofOption ((swapBForExactA p x fee).map fun r => (swPool r.1, r.2.1, r.2.2)) :=
  swap_SwapBForExactA p x fee

open KV.Go KV.TieFn in
/-- `assertSlippageWithinLimit` (x/swap/keeper/swap.go): `ErrSlippageExceeded` iff `¬ slippageOk` -/
theorem C07_source_tie_assertSlippageWithinLimit (priceChange slip : Dec) :
    GoFn.Swap.assertSlippageWithinLimit_translated = true ∧
    GoFn.Swap.assertSlippageWithinLimit priceChange slip
      = (if slippageOk priceChange slip then R.ok () else R.err) :=
  swap_assertSlippageWithinLimit priceChange slip

end KV.SW
