/-
  C13 — BEP3 atomic swaps: funds move exactly once and supply limits always hold.

  "An atomic swap goes from open to either claimed, or expired and then refunded, and its funds move
   exactly once: a claim succeeds only while the swap is open and only with the preimage of its hash, a
   refund only after expiry, never both, and only the asset's deputy can create incoming swaps. The module
   account holds exactly the amounts of outgoing swaps not yet closed, and the incoming, outgoing and
   current supply counters of each asset equal the sums over live swaps and net claimed amounts. No swap
   creation or claim takes an asset's current plus incoming supply above the supply limit in force, nor
   above the time-limited allowance within a period."

  The model is KavaVerif/Model/Bep3.lean (keeper/swap.go, keeper/asset.go, keeper/keeper.go, abci.go
  transcribed).  The hash functions are abstract: every theorem holds for all `hs : Hashes`.  A "history"
  is a list of operations `ops : List Op` (create / claim / refund / begin block / governance change of a
  supply limit) executed by `run` from a state satisfying the invariant `Inv`; a failed operation leaves
  the state unchanged (baseapp).  Standing hypotheses, named where used:
    `hcfg`  the bep3 module account is one of the keeper's `Maccs` (app.go: ModuleAccountAddrs);
    `OpOk`  the sender of a create is not the module account itself (module accounts cannot sign).
  Only property statements live here; helper lemmas are in KavaVerif/Proofs/Bep3*.lean.
-/
import KavaVerif.Proofs.Bep3Examples
import KavaVerif.Proofs.Bep3Deputy
set_option linter.unusedSimpArgs false
set_option linter.unusedVariables false

namespace KV.Bep3

/-- The source-derived tables the model relies on: protobuf codes of status and direction, the status
    constants and operators gating claim (`!= OPEN` refuses) and refund (`!= EXPIRED` refuses), the operators
    of the timestamp window, and a positive long-term storage horizon. -/
theorem C13_generated_tables :
    Status.open.code = KV.Gen.bep3StatusOpen ∧ Status.completed.code = KV.Gen.bep3StatusCompleted ∧
    Status.expired.code = KV.Gen.bep3StatusExpired ∧
    Dir.incoming.code = KV.Gen.bep3DirectionIncoming ∧ Dir.outgoing.code = KV.Gen.bep3DirectionOutgoing ∧
    KV.Gen.bep3ClaimGateStatus = Status.open.code ∧ KV.Gen.bep3ClaimGateOp = "!=" ∧
    KV.Gen.bep3RefundGateStatus = Status.expired.code ∧ KV.Gen.bep3RefundGateOp = "!=" ∧
    KV.Gen.bep3TimestampPastOp = "<" ∧ KV.Gen.bep3TimestampFutureOp = ">=" ∧
    0 < horizon ∧ pastOffset < 0 ∧ 0 < futureOffset := by decide

/-! ## The state invariant along every history -/

/-- A chain without swaps: empty indexes, zero incoming/outgoing supply, an empty module account, validated
    params.  (What `InitGenesis` accepts with no swaps.) -/
theorem C13_inv_genesis (cfg : Cfg) (hs : Hashes) (s : St)
    (h1 : s.swaps = []) (h2 : s.byBlock = []) (h3 : s.longterm = [])
    (h4 : ∀ d, (s.supply d).incoming = 0 ∧ (s.supply d).outgoing = 0 ∧ 0 ≤ (s.supply d).current)
    (h5 : ∀ d, s.bal cfg.module d = 0) (h6 : ∀ d a, getAsset s.assets d = some a → 0 < a.minAmt) :
    Inv cfg hs s := by
  have hno : ∀ (P : Swap → Prop), ∀ sw ∈ s.swaps, P sw := by
    intro P sw hm; rw [h1] at hm; cases hm
  refine { nodup := ?_, idok := hno _, bb := ?_, bbnd := ?_, lt := ?_, ltnd := ?_, inc := ?_, out := ?_, cust := ?_,
           outle := ?_, exp := hno _, pos := hno _, pmin := h6, rcp := hno _, snd := hno _ }
  · rw [h1]; exact List.nodup_nil
  · intro e; rw [h1, h2]; constructor
    · intro hm; cases hm
    · rintro ⟨_, hm, -⟩; cases hm
  · rw [h2]; exact List.nodup_nil
  · intro e; rw [h1, h3]; constructor
    · intro hm; cases hm
    · rintro ⟨_, hm, -⟩; cases hm
  · rw [h3]; exact List.nodup_nil
  · intro d; rw [h1, (h4 d).1]; rfl
  · intro d; rw [h1, (h4 d).2.1]; rfl
  · intro d; rw [h1, h5 d]; rfl
  · intro d; rw [(h4 d).2.1]; exact (h4 d).2.2

/-- Every operation preserves the invariant, hence it holds after every history. -/
theorem C13_invariant (cfg : Cfg) (hs : Hashes) (hcfg : cfg.macc cfg.module = true) (s : St) (ops : List Op)
    (h : Inv cfg hs s) (hops : ∀ op ∈ ops, OpOk cfg op) : Inv cfg hs (run cfg hs s ops) :=
  inv_run hcfg ops s h hops

/-! ## Custody and counters

  "The module account holds exactly the amounts of outgoing swaps not yet closed, and the incoming, outgoing
   and current supply counters of each asset equal the sums over live swaps and net claimed amounts." -/

/-- After every history the bep3 module account holds, in every denomination, exactly the sum of the
    amounts of the outgoing swaps that are open or expired (incoming swaps hold nothing: their coins are
    minted at claim and paid out in the same operation). -/
theorem C13_custody (cfg : Cfg) (hs : Hashes) (hcfg : cfg.macc cfg.module = true) (s : St) (ops : List Op)
    (h : Inv cfg hs s) (hops : ∀ op ∈ ops, OpOk cfg op) (d : Denom) :
    (run cfg hs s ops).bal cfg.module d = sumBy (live .outgoing d) (run cfg hs s ops).swaps :=
  (inv_run hcfg ops s h hops).cust d

/-- After every history the incoming (outgoing) supply counter is the sum over the incoming (outgoing)
    swaps that are open or expired, and outgoing never exceeds current. -/
theorem C13_counters (cfg : Cfg) (hs : Hashes) (hcfg : cfg.macc cfg.module = true) (s : St) (ops : List Op)
    (h : Inv cfg hs s) (hops : ∀ op ∈ ops, OpOk cfg op) (d : Denom) :
    ((run cfg hs s ops).supply d).incoming = sumBy (live .incoming d) (run cfg hs s ops).swaps ∧
    ((run cfg hs s ops).supply d).outgoing = sumBy (live .outgoing d) (run cfg hs s ops).swaps ∧
    ((run cfg hs s ops).supply d).outgoing ≤ ((run cfg hs s ops).supply d).current :=
  let i := inv_run hcfg ops s h hops
  ⟨i.inc d, i.out d, i.outle d⟩

/-- The current supply after a history is the initial one plus the net claimed amount (Σ claimed incoming
    − Σ claimed outgoing over the successful claims of the history); the bank supply of the pegged asset
    moves by the same amount, so `current − bank supply` is constant. -/
theorem C13_counters_current (cfg : Cfg) (hs : Hashes) (hcfg : cfg.macc cfg.module = true) (s : St) (ops : List Op)
    (h : Inv cfg hs s) (hops : ∀ op ∈ ops, OpOk cfg op) (d : Denom) :
    ((run cfg hs s ops).supply d).current = (s.supply d).current + netClaimed cfg hs s ops d ∧
    (run cfg hs s ops).bankSupply d = s.bankSupply d + netClaimed cfg hs s ops d :=
  current_run hcfg d ops s h hops

/-! ## Indexes -/

/-- After every history the by-block index is exactly the set of open swaps (keyed by expire height) and the
    long-term index exactly the set of completed swaps not yet pruned (keyed by closed block + horizon);
    neither has duplicates, and swap ids are unique. -/
theorem C13_indexes (cfg : Cfg) (hs : Hashes) (hcfg : cfg.macc cfg.module = true) (s : St) (ops : List Op)
    (h : Inv cfg hs s) (hops : ∀ op ∈ ops, OpOk cfg op) :
    (∀ e, e ∈ (run cfg hs s ops).byBlock ↔
        ∃ sw ∈ (run cfg hs s ops).swaps, sw.status = .open ∧ e = (sw.expire, sw.id)) ∧
    (∀ e, e ∈ (run cfg hs s ops).longterm ↔
        ∃ sw ∈ (run cfg hs s ops).swaps, sw.status = .completed ∧ e = (sw.closed + horizon, sw.id)) ∧
    (run cfg hs s ops).byBlock.Nodup ∧ (run cfg hs s ops).longterm.Nodup ∧
    (ids (run cfg hs s ops).swaps).Nodup :=
  let i := inv_run hcfg ops s h hops
  ⟨i.bb, i.lt, i.bbnd, i.ltnd, i.nodup⟩

/-- The begin blocker at height `H = height + dh`, although driven by the two indexes, does exactly this to
    every record: completed with closed block + horizon ≤ H → deleted; open with expire height ≤ H →
    expired; everything else untouched.  Both indexes lose exactly their entries ≤ H; balances, bank supply
    and params are untouched. -/
theorem C13_indexes_begin_block (cfg : Cfg) (hs : Hashes) (s : St) (h : Inv cfg hs s) (dh : Nat) (dt : Int) :
    (beginBlock hs s dh dt).swaps = s.swaps.filterMap (blockFate (s.height + dh)) ∧
    (beginBlock hs s dh dt).byBlock = s.byBlock.filter (fun e => ¬ e.1 ≤ s.height + dh) ∧
    (beginBlock hs s dh dt).longterm = s.longterm.filter (fun e => ¬ e.1 ≤ s.height + dh) ∧
    (beginBlock hs s dh dt).bal = s.bal ∧ (beginBlock hs s dh dt).bankSupply = s.bankSupply ∧
    (beginBlock hs s dh dt).assets = s.assets := by
  obtain ⟨-, -, -, e1, e2, e3, e4, e5, e6, -⟩ := beginBlock_spec h dh dt
  exact ⟨e1, e2, e3, e4, e5, e6⟩

/-! ## Life cycle

  "An atomic swap goes from open to either claimed, or expired and then refunded … a claim succeeds only
   while the swap is open and only with the preimage of its hash, a refund only after expiry, never both" -/

/-- One operation changes the record stored under any swap id `x` only in one of the ways listed by
    `Trans`: untouched; created open (no record before); open → completed by a claim of `x` whose secret
    hashes to the swap id; expired → completed by a refund of `x` at or after the expire height;
    open → expired by a begin blocker at or after the expire height; completed → deleted by a begin blocker at
    or after closed block + horizon.  In particular status only moves open → completed or
    open → expired → completed, and a completed record never changes again. -/
theorem C13_lifecycle (cfg : Cfg) (hs : Hashes) (s : St) (h : Inv cfg hs s) (op : Op) (x : Id) :
    Trans hs s op x (findSwap s.swaps x) (findSwap (step cfg hs s op).swaps x) :=
  trans_step h op x

/-- A successful claim found the swap open and was given a secret whose hash reproduces the swap id:
    `CalculateSwapID(CalculateRandomHash(secret, timestamp), sender, senderOtherChain) = GetSwapID()`.
    If `CalculateSwapID` is injective in its hash argument (collision resistance of SHA-256 on inputs with
    equal suffix), the secret is a preimage of the stored hash. -/
theorem C13_claim_needs_open_and_preimage (cfg : Cfg) (hs : Hashes) (s s' : St) (id : Id) (rn : Nat)
    (hok : claim cfg hs s id rn = .ok s') :
    ∃ sw, findSwap s.swaps id = some sw ∧ sw.status = .open ∧
      hs.sid (hs.H rn sw.ts) sw.sender sw.other = hs.sid sw.hash sw.sender sw.other ∧
      ((∀ h1 h2 a o, hs.sid h1 a o = hs.sid h2 a o → h1 = h2) → hs.H rn sw.ts = sw.hash) := by
  obtain ⟨sw, hf, hst, hpre, -⟩ := claim_spec hok
  exact ⟨sw, hf, hst, hpre, fun hinj => hinj _ _ _ _ hpre⟩

/-- A successful refund found the swap expired, and (in every reachable state) the chain is at or past the
    swap's expire height. -/
theorem C13_refund_needs_expiry (cfg : Cfg) (hs : Hashes) (s s' : St) (h : Inv cfg hs s) (id : Id)
    (hok : refund cfg hs s id = .ok s') :
    ∃ sw, findSwap s.swaps id = some sw ∧ sw.status = .expired ∧ sw.expire ≤ s.height := by
  obtain ⟨sw, hf, hst, hexp, -⟩ := find_refund h hok id
  exact ⟨sw, hf, hst, hexp⟩

/-- Completed is terminal: whatever the operation, a completed record stays exactly as it is or is deleted
    (and deletion happens only in a begin blocker at or after closed block + horizon). -/
theorem C13_completed_terminal (cfg : Cfg) (hs : Hashes) (s : St) (h : Inv cfg hs s) (op : Op) (x : Id) (sw : Swap)
    (hf : findSwap s.swaps x = some sw) (hc : sw.status = .completed) :
    findSwap (step cfg hs s op).swaps x = some sw ∨
    (findSwap (step cfg hs s op).swaps x = none ∧
      ∃ dh dt, op = .beginBlock dh dt ∧ sw.closed + horizon ≤ s.height + dh) := by
  have t := trans_step (cfg := cfg) h op x
  rw [hf] at t
  generalize findSwap (step cfg hs s op).swaps x = r at t
  cases t with
  | same => exact Or.inl rfl
  | claimed _ _ _ _ ho _ => rw [hc] at ho; cases ho
  | refunded _ _ _ ho _ => rw [hc] at ho; cases ho
  | expired _ _ _ _ ho _ => rw [hc] at ho; cases ho
  | pruned _ dh dt hop _ hd => exact Or.inr ⟨rfl, dh, dt, hop, hd⟩

/-- Funds move at most once and never both ways: along any history in which swap id `x` is not re-created,
    the number of successful claims and refunds of `x` together is at most one — and zero if `x` is
    not live (absent or completed) at the start. -/
theorem C13_funds_move_at_most_once (cfg : Cfg) (hs : Hashes) (hcfg : cfg.macc cfg.module = true) (s : St)
    (ops : List Op) (x : Id) (h : Inv cfg hs s) (hops : ∀ op ∈ ops, OpOk cfg op ∧ ¬ createsId hs op x) :
    closeCount cfg hs s ops x ≤ 1 ∧ (¬ liveAt s x → closeCount cfg hs s ops x = 0) :=
  closeCount_le hcfg x ops s h hops

/-- What a successful claim moves: for an incoming swap exactly `amount` is minted and credited to the swap's
    recipient; for an outgoing swap exactly `amount` is burned from the module account; nothing else moves. -/
theorem C13_funds_claim (cfg : Cfg) (hs : Hashes) (hcfg : cfg.macc cfg.module = true) (s s' : St)
    (h : Inv cfg hs s) (id : Id) (rn : Nat) (hok : claim cfg hs s id rn = .ok s') :
    ∃ sw, findSwap s.swaps id = some sw ∧
      (sw.dir = .incoming →
        (∀ a d, s'.bal a d = s.bal a d + (if a = sw.recipient ∧ d = sw.denom then sw.amt else 0)) ∧
        (∀ d, s'.bankSupply d = s.bankSupply d + (if d = sw.denom then sw.amt else 0))) ∧
      (sw.dir = .outgoing →
        (∀ a d, s'.bal a d = s.bal a d - (if a = cfg.module ∧ d = sw.denom then sw.amt else 0)) ∧
        (∀ d, s'.bankSupply d = s.bankSupply d - (if d = sw.denom then sw.amt else 0))) := by
  obtain ⟨sw, sup2, hf, -, -, -, hcase⟩ := claim_effect h hcfg hok
  refine ⟨sw, hf, ?_, ?_⟩
  · intro hd
    rcases hcase with ⟨-, b, c, -⟩ | ⟨hd', -⟩
    · exact ⟨b, c⟩
    · rw [hd] at hd'; cases hd'
  · intro hd
    rcases hcase with ⟨hd', -⟩ | ⟨-, b, c, -⟩
    · rw [hd] at hd'; cases hd'
    · exact ⟨b, c⟩

/-- What a successful refund moves: for an outgoing swap exactly `amount` goes from the module account back
    to the swap's sender; for an incoming swap nothing moves; the bank supply is untouched. -/
theorem C13_funds_refund (cfg : Cfg) (hs : Hashes) (s s' : St) (h : Inv cfg hs s) (id : Id)
    (hok : refund cfg hs s id = .ok s') :
    ∃ sw, findSwap s.swaps id = some sw ∧ s'.bankSupply = s.bankSupply ∧
      (sw.dir = .incoming → s'.bal = s.bal) ∧
      (sw.dir = .outgoing →
        ∀ a d, s'.bal a d = s.bal a d - (if a = cfg.module ∧ d = sw.denom then sw.amt else 0) +
          (if a = sw.sender ∧ d = sw.denom then sw.amt else 0)) := by
  obtain ⟨sw, sup1, hf, -, -, -, hb, -, -, hcase⟩ := refund_effect h hok
  refine ⟨sw, hf, hb, ?_, ?_⟩
  · intro hd
    rcases hcase with ⟨-, b, -⟩ | ⟨hd', -⟩
    · exact b
    · rw [hd] at hd'; cases hd'
  · intro hd
    rcases hcase with ⟨hd', -⟩ | ⟨-, b, -⟩
    · rw [hd] at hd'; cases hd'
    · exact b

/-- What a successful create moves: an outgoing swap takes exactly `amount` from the sender into the module
    account; an incoming swap (created by the deputy) moves nothing; the bank supply is untouched. -/
theorem C13_funds_create (cfg : Cfg) (hs : Hashes) (s s' : St) (hash : Hash) (ts : Int) (span : Nat)
    (sender recipient : Addr) (other : Nat) (coins : List (Denom × Int))
    (hok : create cfg hs s hash ts span sender recipient other coins = .ok s') :
    ∃ d amt a, coins = [(d, amt)] ∧ getAsset s.assets d = some a ∧ s'.bankSupply = s.bankSupply ∧
      (sender = a.deputy → s'.bal = s.bal) ∧
      (sender ≠ a.deputy →
        ∀ x y, s'.bal x y = s.bal x y - (if x = sender ∧ y = d then amt else 0) +
          (if x = cfg.module ∧ y = d then amt else 0)) := by
  obtain ⟨d, amt, a, sup, hc, ha, -, -, -, -, -, -, hb, -, -, -, hcase⟩ := create_effect hok
  refine ⟨d, amt, a, hc, ha, hb, ?_, ?_⟩
  · intro hd
    rcases hcase with ⟨-, -, b, -⟩ | ⟨hd', -⟩
    · exact b
    · exact absurd hd hd'
  · intro hd
    rcases hcase with ⟨hd', -⟩ | ⟨-, -, -, -, -, -, b, -⟩
    · exact absurd hd' hd
    · exact b

/-! ## A live swap can always be closed ("exactly once", not "never")

  The guards of claim and refund that are not about status, secret or limits — the decrement checks of the
  supply counters and the bank transfers out of the module account — can never fail in a reachable state:
  they are implied by the counters and custody clauses of the invariant. -/

/-- An expired swap can always be refunded (by anyone), provided its sender is not a blocked address. -/
theorem C13_refund_always_possible (cfg : Cfg) (hs : Hashes) (s : St) (h : Inv cfg hs s) (id : Id) (sw : Swap)
    (hf : findSwap s.swaps id = some sw) (hst : sw.status = .expired) (hb : cfg.blocked sw.sender = false) :
    (refund cfg hs s id).isOk = true :=
  refund_succeeds h hf hst hb

/-- An open outgoing swap can always be claimed (by anyone) with a secret that reproduces its id. -/
theorem C13_claim_outgoing_always_possible (cfg : Cfg) (hs : Hashes) (s : St) (h : Inv cfg hs s) (id : Id)
    (sw : Swap) (rn : Nat) (hf : findSwap s.swaps id = some sw) (hst : sw.status = .open)
    (hd : sw.dir = .outgoing)
    (hpre : hs.sid (hs.H rn sw.ts) sw.sender sw.other = hs.sid sw.hash sw.sender sw.other) :
    (claim cfg hs s id rn).isOk = true :=
  claim_outgoing_succeeds h hf hst hd hpre

/-- An open incoming swap can be claimed with the right secret whenever the asset still exists, the recipient
    is not blocked, and the limits in force admit the amount (current + amount ≤ limit; time-limited current
    + amount ≤ time-based limit) — the only reasons a rightful claim can be refused. -/
theorem C13_claim_incoming_possible_within_limits (cfg : Cfg) (hs : Hashes) (s : St) (h : Inv cfg hs s) (id : Id)
    (sw : Swap) (rn : Nat) (a : Asset) (hf : findSwap s.swaps id = some sw) (hst : sw.status = .open)
    (hd : sw.dir = .incoming)
    (hpre : hs.sid (hs.H rn sw.ts) sw.sender sw.other = hs.sid sw.hash sw.sender sw.other)
    (ha : getAsset s.assets sw.denom = some a) (hb : cfg.blocked sw.recipient = false)
    (hlim : (s.supply sw.denom).current + sw.amt ≤ a.limit)
    (htl : a.timeLimited = true → (s.supply sw.denom).tlCurrent + sw.amt ≤ a.tbl) :
    (claim cfg hs s id rn).isOk = true :=
  claim_incoming_succeeds h hf hst hd hpre ha hb hlim htl

/-! ## Only the deputy creates incoming swaps -/

/-- A successfully created swap is incoming exactly when its sender is the deputy of the swapped asset (and
    then the recipient is not the deputy); otherwise it is outgoing and its recipient is the deputy. -/
theorem C13_deputy_only_incoming (cfg : Cfg) (hs : Hashes) (s s' : St) (hash : Hash) (ts : Int) (span : Nat)
    (sender recipient : Addr) (other : Nat) (coins : List (Denom × Int))
    (hok : create cfg hs s hash ts span sender recipient other coins = .ok s') :
    ∃ n a, findSwap s'.swaps (hs.sid hash sender other) = some n ∧ n.sender = sender ∧
      n.recipient = recipient ∧ getAsset s.assets n.denom = some a ∧
      (n.dir = .incoming ↔ sender = a.deputy) ∧
      (n.dir = .incoming → recipient ≠ a.deputy) ∧ (n.dir = .outgoing → recipient = a.deputy) := by
  obtain ⟨-, n, -, -, -, -, hs1, hr1, -, -, hco, -, hdep, -, hfind⟩ := find_create hok (hs.sid hash sender other)
  obtain ⟨d, amt, a, sup, hc, ha, -, -, -, -, -, -, -, -, -, -, hcase⟩ := create_effect hok
  have hd : n.denom = d := by
    rw [hc] at hco
    have := List.cons.inj hco
    exact (Prod.mk.inj this.1).1.symm
  rw [← hd] at ha
  have hiff := hdep a ha
  refine ⟨n, a, by rw [hfind]; simp, hs1, hr1, ha, hiff, ?_, ?_⟩
  · intro hi
    rcases hcase with ⟨-, hr, -⟩ | ⟨hne, -⟩
    · exact hr
    · exact absurd (hiff.mp hi) hne
  · intro ho
    rcases hcase with ⟨he, -⟩ | ⟨-, hr, -⟩
    · have := hiff.mpr he; rw [this] at ho; cases ho
    · exact hr

/-- As a state invariant while governance leaves the deputy addresses alone (no `setDeputy` in the history; a
    rotation changes who the deputy is, never a stored swap — see `C13_deputy_rotation`): every stored swap
    is incoming exactly when its sender is the deputy of its asset. -/
theorem C13_deputy_only_incoming_inv (cfg : Cfg) (hs : Hashes) (hcfg : cfg.macc cfg.module = true) :
    ∀ (ops : List Op) (s : St), Inv cfg hs s → DeputyInv s → (∀ op ∈ ops, OpOk cfg op ∧ notSetDeputy op) →
      DeputyInv (run cfg hs s ops) := by
  intro ops
  induction ops with
  | nil => intro s _ hd _; exact hd
  | cons op rest ih =>
    intro s h hd hops
    have ho := hops op List.mem_cons_self
    exact ih _ (inv_step hcfg h op ho.1) (deputy_step hcfg h hd op ho.2)
      (fun o ho => hops o (List.mem_cons_of_mem _ ho))

/-! ## Deputy rotation

  Governance may replace an asset's deputy address while swaps of that asset are live (operation `setDeputy`,
  part of every history quantified over by `C13_invariant`, `C13_custody`, `C13_counters`, `C13_indexes`,
  `C13_lifecycle`, `C13_funds_*`).  The swap keeps the direction, sender and recipient it was created with;
  only swaps created afterwards see the new deputy. -/

/-- Rotating the deputy of asset `d` (1) preserves the invariant — hence custody, counters and indexes —,
    (2) moves nothing: swap records, both indexes, supply counters, balances, bank supply and the clock are
    untouched, and every asset keeps its parameters except that `d` now has deputy `dep`; (3) closing a stored
    swap is independent of who the deputy is now: a refund and a claim after the rotation have exactly the
    outcome they would have had before it (same result class, same successor state up to the rotated
    parameter), so by `C13_funds_claim` / `C13_funds_refund` they move exactly the funds the swap's stored
    direction prescribes; (4) a live swap stays closable: an expired swap can still be refunded and an open
    outgoing swap claimed with its secret. -/
theorem C13_deputy_rotation (cfg : Cfg) (hs : Hashes) (s : St) (h : Inv cfg hs s) (d : Denom) (dep : Addr) :
    step cfg hs s (.setDeputy d dep) = setDeputy s d dep ∧
    Inv cfg hs (setDeputy s d dep) ∧
    ((setDeputy s d dep).swaps = s.swaps ∧ (setDeputy s d dep).byBlock = s.byBlock ∧
      (setDeputy s d dep).longterm = s.longterm ∧ (setDeputy s d dep).supply = s.supply ∧
      (setDeputy s d dep).bal = s.bal ∧ (setDeputy s d dep).bankSupply = s.bankSupply ∧
      (setDeputy s d dep).height = s.height ∧ (setDeputy s d dep).time = s.time ∧
      (setDeputy s d dep).prevTime = s.prevTime) ∧
    (∀ d', getAsset (setDeputy s d dep).assets d' =
      (getAsset s.assets d').map (fun a => if d' = d then { a with deputy := dep } else a)) ∧
    (∀ id, refund cfg hs (setDeputy s d dep) id = Res.map (fun t => setDeputy t d dep) (refund cfg hs s id)) ∧
    (∀ id rn, claim cfg hs (setDeputy s d dep) id rn =
      Res.map (fun t => setDeputy t d dep) (claim cfg hs s id rn)) ∧
    (∀ id sw, findSwap (setDeputy s d dep).swaps id = some sw → sw.status = .expired →
      cfg.blocked sw.sender = false → (refund cfg hs (setDeputy s d dep) id).isOk = true) ∧
    (∀ id sw rn, findSwap (setDeputy s d dep).swaps id = some sw → sw.status = .open → sw.dir = .outgoing →
      hs.sid (hs.H rn sw.ts) sw.sender sw.other = hs.sid sw.hash sw.sender sw.other →
      (claim cfg hs (setDeputy s d dep) id rn).isOk = true) := by
  have hi := setDeputy_inv h d dep
  refine ⟨rfl, hi, setDeputy_frame s d dep, fun d' => getAsset_after_setDeputy s d dep d',
    fun id => refund_setDeputy cfg hs s d dep id, fun id rn => claim_setDeputy cfg hs s d dep id rn, ?_, ?_⟩
  · intro id sw hf hst hb
    exact refund_succeeds hi hf hst hb
  · intro id sw rn hf hst hd hpre
    exact claim_outgoing_succeeds hi hf hst hd hpre

/-- Along every history, rotations included, a successful close moves the funds of the swap's STORED direction:
    claiming an incoming swap mints its amount to its recipient, claiming an outgoing swap burns its amount
    from the module account, refunding an outgoing swap returns its amount to its sender, refunding an
    incoming swap moves nothing — and the custody and counter clauses hold again afterwards. -/
theorem C13_deputy_rotation_close (cfg : Cfg) (hs : Hashes) (hcfg : cfg.macc cfg.module = true) (s0 : St)
    (ops : List Op) (h0 : Inv cfg hs s0) (hops : ∀ op ∈ ops, OpOk cfg op) (frm : Addr) (id : Id) (rn : Nat) :
    let s := run cfg hs s0 ops
    (∀ s', claim cfg hs s id rn = .ok s' → ∃ sw, findSwap s.swaps id = some sw ∧ Inv cfg hs s' ∧
      (sw.dir = .incoming →
        (∀ a d, s'.bal a d = s.bal a d + (if a = sw.recipient ∧ d = sw.denom then sw.amt else 0))) ∧
      (sw.dir = .outgoing →
        (∀ a d, s'.bal a d = s.bal a d - (if a = cfg.module ∧ d = sw.denom then sw.amt else 0)))) ∧
    (∀ s', refund cfg hs s id = .ok s' → ∃ sw, findSwap s.swaps id = some sw ∧ Inv cfg hs s' ∧
      (sw.dir = .incoming → s'.bal = s.bal) ∧
      (sw.dir = .outgoing →
        ∀ a d, s'.bal a d = s.bal a d - (if a = cfg.module ∧ d = sw.denom then sw.amt else 0) +
          (if a = sw.sender ∧ d = sw.denom then sw.amt else 0))) := by
  intro s
  have hs' : Inv cfg hs s := inv_run hcfg ops s0 h0 hops
  refine ⟨?_, ?_⟩
  · intro s' hok
    obtain ⟨sw, hf, hin, hout⟩ := C13_funds_claim cfg hs hcfg s s' hs' id rn hok
    exact ⟨sw, hf, claim_inv hs' hcfg hok, fun hd => (hin hd).1, fun hd => (hout hd).1⟩
  · intro s' hok
    obtain ⟨sw, hf, -, hin, hout⟩ := C13_funds_refund cfg hs s s' hs' id hok
    exact ⟨sw, hf, refund_inv hs' hok, hin, hout⟩

/-! ## Supply limits

  "No swap creation or claim takes an asset's current plus incoming supply above the supply limit in force,
   nor above the time-limited allowance within a period." -/

/-- After a successful create, with `a` the asset params in force: the amount is within [min, max]; an
    incoming swap leaves current + incoming ≤ limit and, when time-limited, time-limited current + incoming
    ≤ time-based limit; an outgoing swap has a height span within the block-lock range, an amount above fee +
    min, and leaves outgoing ≤ current.  Current and time-limited current are untouched. -/
theorem C13_limits_create (cfg : Cfg) (hs : Hashes) (s s' : St) (hash : Hash) (ts : Int) (span : Nat)
    (sender recipient : Addr) (other : Nat) (coins : List (Denom × Int))
    (hok : create cfg hs s hash ts span sender recipient other coins = .ok s') :
    ∃ d amt a, coins = [(d, amt)] ∧ getAsset s.assets d = some a ∧ a.active = true ∧
      a.minAmt ≤ amt ∧ amt ≤ a.maxAmt ∧
      (s'.supply d).current = (s.supply d).current ∧ (s'.supply d).tlCurrent = (s.supply d).tlCurrent ∧
      (sender = a.deputy →
        (s'.supply d).current + (s'.supply d).incoming ≤ a.limit ∧
        (a.timeLimited = true → (s'.supply d).tlCurrent + (s'.supply d).incoming ≤ a.tbl)) ∧
      (sender ≠ a.deputy →
        a.minLock ≤ span ∧ span ≤ a.maxLock ∧ a.fee + a.minAmt < amt ∧
        (s'.supply d).outgoing ≤ (s'.supply d).current) := by
  obtain ⟨d, amt, a, sup, hc, ha, hact, hmin, hmax, -, e1, -, -, -, c1, c2, hcase⟩ := create_effect hok
  have hsd : s'.supply d = sup := by rw [e1, upd_same]
  refine ⟨d, amt, a, hc, ha, hact, hmin, hmax, by rw [hsd, c1], by rw [hsd, c2], ?_, ?_⟩
  · intro hd
    rw [hsd]
    rcases hcase with ⟨-, -, -, -, -, l1, l2⟩ | ⟨hd', -⟩
    · exact ⟨l1, l2⟩
    · exact absurd hd hd'
  · intro hd
    rw [hsd]
    rcases hcase with ⟨hd', -⟩ | ⟨-, -, k1, k2, k3, -, -, -, -, k4⟩
    · exact absurd hd' hd
    · exact ⟨k1, k2, k3, k4⟩

/-- A successful claim never raises current + incoming of any denomination; claiming an incoming swap leaves
    current ≤ limit in force and, when time-limited, adds exactly the amount to the period's time-limited
    current, which stays ≤ the time-based limit. -/
theorem C13_limits_claim (cfg : Cfg) (hs : Hashes) (hcfg : cfg.macc cfg.module = true) (s s' : St)
    (h : Inv cfg hs s) (id : Id) (rn : Nat) (hok : claim cfg hs s id rn = .ok s') :
    (∀ d, (s'.supply d).current + (s'.supply d).incoming ≤ (s.supply d).current + (s.supply d).incoming) ∧
    ∃ sw, findSwap s.swaps id = some sw ∧
      (sw.dir = .incoming → ∃ a, getAsset s.assets sw.denom = some a ∧
        (s'.supply sw.denom).current ≤ a.limit ∧
        (a.timeLimited = true →
          (s'.supply sw.denom).tlCurrent = (s.supply sw.denom).tlCurrent + sw.amt ∧
          (s'.supply sw.denom).tlCurrent ≤ a.tbl)) := by
  obtain ⟨sw, sup2, hf, -, e1, -, hcase⟩ := claim_effect h hcfg hok
  obtain ⟨hm, -⟩ := findSwap_some hf
  have hpos := h.pos sw hm
  have hsd : s'.supply sw.denom = sup2 := by rw [e1, upd_same]
  refine ⟨?_, sw, hf, ?_⟩
  · intro d
    by_cases hd : d = sw.denom
    · subst hd
      rw [hsd]
      rcases hcase with ⟨-, -, -, i1, -, i3, -⟩ | ⟨-, -, -, i1, -, i3, -⟩ <;> omega
    · rw [e1, upd_other _ _ hd]; omega
  · intro hd
    rcases hcase with ⟨-, -, -, -, -, -, a, ha, l1, l2, -⟩ | ⟨hd', -⟩
    · exact ⟨a, ha, by rw [hsd]; exact l1, fun ht => by rw [hsd]; exact l2 ht⟩
    · rw [hd] at hd'; cases hd'

/-- While governance does not change the limits, along every history: current + incoming ≤ limit and, for
    time-limited assets, time-limited current + incoming ≤ time-based limit. -/
theorem C13_limits_invariant (cfg : Cfg) (hs : Hashes) (hcfg : cfg.macc cfg.module = true) :
    ∀ (ops : List Op) (s : St), Inv cfg hs s → LimInv s → (∀ op ∈ ops, OpOk cfg op ∧ notSetLimit op) →
      LimInv (run cfg hs s ops) := by
  intro ops
  induction ops with
  | nil => intro s _ hl _; exact hl
  | cons op rest ih =>
    intro s h hl hops
    have ho := hops op List.mem_cons_self
    exact ih _ (inv_step hcfg h op ho.1) (lim_step hcfg h hl op ho.2)
      (fun o hm => hops o (List.mem_cons_of_mem _ hm))

/-- The period's time-limited current supply is only ever reset to zero by the begin blocker, never raised;
    incoming, outgoing and current supply are untouched by it. -/
theorem C13_limits_period_reset (cfg : Cfg) (hs : Hashes) (s : St) (h : Inv cfg hs s) (dh : Nat) (dt : Int) (d : Denom) :
    ((beginBlock hs s dh dt).supply d).incoming = (s.supply d).incoming ∧
    ((beginBlock hs s dh dt).supply d).outgoing = (s.supply d).outgoing ∧
    ((beginBlock hs s dh dt).supply d).current = (s.supply d).current ∧
    (((beginBlock hs s dh dt).supply d).tlCurrent = (s.supply d).tlCurrent ∨
     ((beginBlock hs s dh dt).supply d).tlCurrent = 0) := by
  obtain ⟨-, -, -, -, -, -, -, -, -, e⟩ := beginBlock_spec h dh dt
  exact e d

/-- The period clock, per asset independently.  With `Δ = new block time − previous block time` (real time),
    the begin blocker turns the record of asset `d` into `resetSupply a record Δ` — a function of that asset's
    own params and counters only (no other asset's elapsed time enters) — and stores the new block time as
    previous block time.  Hence: while the asset is time-limited and its own accumulated real time
    `elapsed + Δ` is still below its own period, the counter advances by exactly `Δ` and the period's
    time-limited current supply is kept; the allowance is reset (time-limited current ← 0, elapsed ← 0) only
    when the asset is not time-limited or a full period of real time has elapsed since its previous reset. -/
theorem C13_period_reset_only_after_period (cfg : Cfg) (hs : Hashes) (s : St) (h : Inv cfg hs s)
    (hn : (denoms s.assets).Nodup) (dh : Nat) (dt : Int) (d : Denom) (a : Asset)
    (ha : getAsset s.assets d = some a) :
    (beginBlock hs s dh dt).supply d = resetSupply a (s.supply d) (s.time + dt - s.prevTime) ∧
    (beginBlock hs s dh dt).prevTime = s.time + dt ∧ (beginBlock hs s dh dt).time = s.time + dt ∧
    (a.timeLimited = true → (s.supply d).elapsed + (s.time + dt - s.prevTime) < a.period →
      ((beginBlock hs s dh dt).supply d).elapsed = (s.supply d).elapsed + (s.time + dt - s.prevTime) ∧
      ((beginBlock hs s dh dt).supply d).tlCurrent = (s.supply d).tlCurrent) ∧
    (((beginBlock hs s dh dt).supply d).tlCurrent ≠ (s.supply d).tlCurrent ∨
     ((beginBlock hs s dh dt).supply d).elapsed ≠ (s.supply d).elapsed + (s.time + dt - s.prevTime) →
      (a.timeLimited = false ∨ a.period ≤ (s.supply d).elapsed + (s.time + dt - s.prevTime)) ∧
      ((beginBlock hs s dh dt).supply d).elapsed = 0 ∧ ((beginBlock hs s dh dt).supply d).tlCurrent = 0) := by
  obtain ⟨e1, e2, e3⟩ := beginBlock_period h hn dh dt d a ha
  refine ⟨e1, e2, e3, ?_, ?_⟩
  · intro htl hlt
    rw [e1]; unfold resetSupply
    simp only [htl, hlt, and_self, ite_true]
  · intro hne
    rw [e1] at hne ⊢
    unfold resetSupply at hne ⊢
    by_cases hc : a.timeLimited = true ∧ (s.supply d).elapsed + (s.time + dt - s.prevTime) < a.period
    · simp only [hc, and_self, ite_true] at hne
      rcases hne with hne | hne <;> exact absurd rfl hne
    · simp only [hc, ite_false, and_self, and_true]
      cases htl : a.timeLimited with
      | false => exact Or.inl rfl
      | true =>
        right
        have : ¬ (s.supply d).elapsed + (s.time + dt - s.prevTime) < a.period := fun hlt => hc ⟨htl, hlt⟩
        omega

/-- Nothing but the begin blocker touches the period clock: create, claim, refund and limit changes leave every
    asset's elapsed time, the previous block time and the block time alone.  With the theorem above: an
    asset's elapsed counter is exactly the real time between blocks accumulated since its own last reset. -/
theorem C13_period_clock_only_begin_block (cfg : Cfg) (hs : Hashes) (s : St) (h : Inv cfg hs s) (op : Op)
    (hnb : ∀ dh dt, op ≠ .beginBlock dh dt) (d : Denom) :
    ((step cfg hs s op).supply d).elapsed = (s.supply d).elapsed ∧
    (step cfg hs s op).prevTime = s.prevTime ∧ (step cfg hs s op).time = s.time :=
  clock_step h op hnb d

/-! ## Non-vacuity: a concrete history that exercises every transition -/

example : Inv exCfg exHs exGenesis :=
  C13_inv_genesis _ _ _ rfl rfl rfl (fun _ => ⟨rfl, rfl, Int.le_refl _⟩) (fun _ => rfl)
    (fun d a ha => by rw [exAssets d a ha]; decide)
example : exCfg.macc exCfg.module = true := by decide
example : (apply exCfg exHs exGenesis exOp1).isOk = true := by decide
example : (apply exCfg exHs (run exCfg exHs exGenesis [exOp1]) exOp2).isOk = true := by decide
-- a wrong secret and a second claim are refused
example : (apply exCfg exHs (run exCfg exHs exGenesis [exOp1]) (.claim 5 exId1 41)).isOk = false := by decide
example : (apply exCfg exHs (run exCfg exHs exGenesis [exOp1, exOp2]) exOp2).isOk = false := by decide
example : (apply exCfg exHs (run exCfg exHs exGenesis [exOp1, exOp2]) exOp3).isOk = true := by decide
-- refund before expiry is refused, after expiry accepted, and then a claim is refused
example : (apply exCfg exHs (run exCfg exHs exGenesis [exOp1, exOp2, exOp3]) exOp5).isOk = false := by decide
example : (apply exCfg exHs (run exCfg exHs exGenesis [exOp1, exOp2, exOp3, exOp4]) exOp5).isOk = true := by decide
example : (apply exCfg exHs (run exCfg exHs exGenesis [exOp1, exOp2, exOp3, exOp4, exOp5]) (.claim 3 exId3 43)).isOk = false := by
  decide
example : closeCount exCfg exHs exGenesis [exOp1, exOp2, exOp2, exOp3, exOp4, exOp5, exOp5] exId3 = 1 := by decide
example : netClaimed exCfg exHs exGenesis [exOp1, exOp2, exOp3, exOp4, exOp5] 0 = 100 := by decide
-- the invariant (hence custody, counters, indexes) holds on the non-trivial state reached by the history,
-- which contains a completed incoming swap, a completed (refunded) outgoing swap and minted coins
example : Inv exCfg exHs (run exCfg exHs exGenesis [exOp1, exOp2, exOp3, exOp4, exOp5]) := by
  apply C13_invariant _ _ (by decide)
  · exact C13_inv_genesis _ _ _ rfl rfl rfl (fun _ => ⟨rfl, rfl, Int.le_refl _⟩) (fun _ => rfl)
      (fun d a ha => by rw [exAssets d a ha]; decide)
  · intro op hm
    simp only [List.mem_cons, List.mem_nil_iff, or_false] at hm
    rcases hm with rfl | rfl | rfl | rfl | rfl <;> simp [OpOk, exOp1, exOp2, exOp3, exOp4, exOp5, exCfg]
-- hypotheses of the "always possible" theorems: an expired outgoing swap, an open outgoing swap
example : (findSwap (run exCfg exHs exGenesis [exOp1, exOp2, exOp3, exOp4]).swaps exId3).map (fun sw => (sw.status, sw.dir))
    = some (.expired, .outgoing) := by decide
example : (findSwap (run exCfg exHs exGenesis [exOp1, exOp2, exOp3]).swaps exId3).map (fun sw => (sw.status, sw.dir))
    = some (.open, .outgoing) := by decide
example : ((run exCfg exHs exGenesis [exOp1, exOp2, exOp3]).bal 0 0, (run exCfg exHs exGenesis [exOp1, exOp2, exOp3]).bal 3 0,
    (run exCfg exHs exGenesis [exOp1, exOp2, exOp3]).bankSupply 0) = (50, 50, 100) := by decide
example : DeputyInv exGenesis := by intro sw hm; cases hm
-- deputy rotation: the incoming swap created by deputy 1 is still incoming after the deputy became party 2, and
-- claiming it mints the 100 coins to its recipient (party 3); the module account is not touched
example : (apply exCfg exHs (run exCfg exHs exGenesis [exOp1, .setDeputy 0 2]) exOp2).isOk = true := by decide
example : ((run exCfg exHs exGenesis [exOp1, .setDeputy 0 2, exOp2]).bal 3 0,
    (run exCfg exHs exGenesis [exOp1, .setDeputy 0 2, exOp2]).bal 0 0,
    ((run exCfg exHs exGenesis [exOp1, .setDeputy 0 2, exOp2]).supply 0).incoming,
    ((run exCfg exHs exGenesis [exOp1, .setDeputy 0 2, exOp2]).supply 0).current) = (100, 0, 0, 100) := by decide
example : (getAsset (run exCfg exHs exGenesis [exOp1, .setDeputy 0 2]).assets 0).map (·.deputy) = some 2 := by decide
-- after the rotation the old deputy can no longer create incoming swaps, the new one can
example : (apply exCfg exHs (run exCfg exHs exGenesis [.setDeputy 0 2])
    (.create (exHs.H 44 1700000000) 1700000000 3 2 3 7 [(0, 100)])).isOk = true := by decide
example : (apply exCfg exHs (run exCfg exHs exGenesis [.setDeputy 0 2]) exOp1).isOk = false := by decide
example : (denoms exGenesis.assets).Nodup := by decide
example : LimInv exGenesis := by
  intro d a ha
  rw [exAssets d a ha]
  exact ⟨by show (0 : Int) + 0 ≤ 1000; decide, fun _ => by show (0 : Int) + 0 ≤ 500; decide, Int.le_refl _⟩

end KV.Bep3
