/-
  C15 — Ante gating: blocked message types cannot execute through any wrapping.

  "No transaction accepted for execution contains, at any nesting depth inside authz Exec messages or as the
   target of an authz Grant, an Ethereum transaction message or a vesting-account-creation message, and
   vesting-account-creation messages are also rejected at top level.  Ethereum messages execute only through the
   dedicated Ethereum path selected by exactly one matching extension option, and transactions with several or
   unknown extension options are rejected.  With the authenticated mempool enabled, CheckTx admits only
   transactions with an authorised signer while block execution is unaffected."

  Model: KavaVerif/Model/Ante.lean (authz.go, vesting.go, authorized.go, ante.go transcribed; every list, URL,
  chain order, flag and guard comes from KavaVerif/Generated/C15Ante.lean, regenerated from the source).
  `anteGate cfg md tx = .pass` is "every gate of the composed ante handler let the transaction through"; a
  transaction accepted for execution has passed every gate (the remaining decorators can only refuse more).
  `InExec m ms` = `m` occurs strictly inside some MsgExec of the forest `ms` at any depth; `Anywhere m ms` = at top
  level or inside an exec at any depth.  All statements are for forests of any depth and width.
  Only property statements live here; helper lemmas are in KavaVerif/Proofs/Ante.lean.
-/
import KavaVerif.Proofs.Ante
set_option linter.unusedSimpArgs false
set_option linter.unusedVariables false

namespace KV.Ante
open KV.Gen

/-! ### the generated tables name the types the prose names -/

/-- "an Ethereum transaction message or a vesting-account-creation message": the list handed to the authz
    limiter holds the Ethereum message and the three vesting-creation messages, the vesting decorator's list
    holds the three vesting-creation messages, and the two ethermint decorators test for the Ethereum message. -/
theorem C15_blocked_types :
    "/ethermint.evm.v1.MsgEthereumTx" ∈ c15AuthzDisabled ∧
    (∀ u, u ∈ ["/cosmos.vesting.v1beta1.MsgCreateVestingAccount",
               "/cosmos.vesting.v1beta1.MsgCreatePermanentLockedAccount",
               "/cosmos.vesting.v1beta1.MsgCreatePeriodicVestingAccount"] →
          u ∈ c15AuthzDisabled ∧ u ∈ c15VestingDisabled) ∧
    c15RejectMsgsURL = "/ethermint.evm.v1.MsgEthereumTx" ∧ c15EthOnlyURL = "/ethermint.evm.v1.MsgEthereumTx" := by
  decide

/-- the source facts the model relies on: the decorator scans the transaction's own messages with
    `searchOnlyInAuthzMsgs = true` and the content of an exec with `false`; the switch tests "disabled" before the
    two authz cases; neither authz URL is itself disabled -/
theorem C15_scan_shape :
    c15AuthzTopFlag = true ∧ c15AuthzInnerFlag = false ∧
    c15AuthzCaseOrder = ["!searchOnlyInAuthzMsgs && ald.isDisabled(typeURL)", "grant", "exec"] ∧
    c15MsgGrantURL ∉ c15AuthzDisabled ∧ c15MsgExecURL ∉ c15AuthzDisabled := by
  decide

/-! ### closure of the recursive scan -/

/-- "No transaction accepted … contains, at any nesting depth inside authz Exec messages or as the target of an
    authz Grant, [a blocked type]": if the limiter's scan returns nil then no message strictly inside an exec, at
    any depth, carries a disabled URL, and no grant at any depth (top level or nested) targets a disabled URL. -/
theorem C15_closure (msgs : List Msg) (h : authzLimiter c15AuthzDisabled msgs = .ok) :
    (∀ m, InExec m msgs → m.url ∉ c15AuthzDisabled) ∧
    (∀ t, Anywhere (.grant t) msgs → t ∉ c15AuthzDisabled) :=
  (noBlocked_iff _ _).mp ((authzLimiter_ok_iff _ _).mp h).1

example : authzLimiter c15AuthzDisabled
    [.plain "/cosmos.bank.v1beta1.MsgSend",
     .exec [.plain "/cosmos.bank.v1beta1.MsgSend", .exec [.grant "/cosmos.bank.v1beta1.MsgSend", .exec []]]] = .ok := by
  decide

/-- the scan is exact (the gate does not over-block): a forest in which every authz message can be unpacked and
    nothing blocked is reachable passes. Together with `C15_closure`: `ok` ⇔ nothing blocked reachable. -/
theorem C15_closure_converse (msgs : List Msg) (hwf : ¬ Malformed msgs)
    (h1 : ∀ m, InExec m msgs → m.url ∉ c15AuthzDisabled)
    (h2 : ∀ t, Anywhere (.grant t) msgs → t ∉ c15AuthzDisabled) :
    authzLimiter c15AuthzDisabled msgs = .ok :=
  (authzLimiter_ok_iff _ _).mpr ⟨(noBlocked_iff _ _).mpr ⟨h1, h2⟩, hwf⟩

/-- blocked after allowed siblings, three levels deep: refused -/
example : authzLimiter c15AuthzDisabled
    [.exec [.plain "/cosmos.bank.v1beta1.MsgSend",
            .exec [.plain "/cosmos.bank.v1beta1.MsgSend", .exec [.plain "/cosmos.bank.v1beta1.MsgSend",
                   .plain "/ethermint.evm.v1.MsgEthereumTx"]]]] = .err := by
  decide

/-- a grant nested in an exec that targets a vesting-creation message: refused -/
example : authzLimiter c15AuthzDisabled
    [.exec [.grant "/cosmos.vesting.v1beta1.MsgCreatePeriodicVestingAccount"]] = .err := by
  decide

/-- a transaction the scan accepts is also free of unpackable authz messages -/
theorem C15_closure_wellformed (msgs : List Msg) (h : authzLimiter c15AuthzDisabled msgs = .ok) :
    ¬ Malformed msgs :=
  ((authzLimiter_ok_iff _ _).mp h).2

/-- the same closure for the composed ante handler, on every route, in every mode, with the mempool list on or
    off: a transaction that passes all gates has no Ethereum or vesting-creation message inside an exec at any
    depth and no grant at any depth targeting one. -/
theorem C15_gate_closure (cfg : Cfg) (md : Mode) (tx : Tx) (h : anteGate cfg md tx = .pass) :
    (∀ m, InExec m tx.msgs → m.url ∉ c15AuthzDisabled) ∧
    (∀ t, Anywhere (.grant t) tx.msgs → t ∉ c15AuthzDisabled) := by
  rcases (anteGate_pass_iff cfg md tx).mp h with ⟨_, he, _⟩ | ⟨_, _, _, _, ha⟩
  · have hall := ethOnly_all he
    refine ⟨fun m hi => absurd hi (no_inExec_of_all_plain hall m), ?_⟩
    intro t ha
    cases ha with
    | inl hm => have := hall _ hm; cases this
    | inr hi => exact absurd hi (no_inExec_of_all_plain hall _)
  · exact C15_closure tx.msgs ha

example : anteGate ⟨true, [3]⟩ Mode.check
    ⟨[.exec [.plain "/cosmos.bank.v1beta1.MsgSend", .grant "/cosmos.staking.v1beta1.MsgDelegate"]], [], [3]⟩ = .pass := by
  decide

/-! ### vesting creation at top level -/

/-- "vesting-account-creation messages are also rejected at top level": a transaction that passes the gates has
    none of the three vesting-creation URLs among its own messages (any route, any mode). -/
theorem C15_vesting_top_level (cfg : Cfg) (md : Mode) (tx : Tx) (h : anteGate cfg md tx = .pass) :
    ∀ m, m ∈ tx.msgs → m.url ∉ c15VestingDisabled := by
  rcases (anteGate_pass_iff cfg md tx).mp h with ⟨_, he, _⟩ | ⟨_, _, _, hv, _⟩
  · intro m hm
    rw [ethOnly_all he m hm]
    decide
  · exact (vestingDec_iff _ _).mp hv

/-- the vesting decorator is exact: it refuses precisely the transactions with such a top-level message -/
theorem C15_vesting_exact (msgs : List Msg) :
    vestingDec c15VestingDisabled msgs = true ↔ ∀ m, m ∈ msgs → m.url ∉ c15VestingDisabled :=
  vestingDec_iff _ _

example : anteGate ⟨false, []⟩ Mode.deliver
    ⟨[.plain "/cosmos.bank.v1beta1.MsgSend", .plain "/cosmos.vesting.v1beta1.MsgCreatePermanentLockedAccount"], [], [0]⟩
      = .reject "vesting" := by
  decide

/-! ### extension-option routing -/

/-- "transactions with several … extension options are rejected" -/
theorem C15_routing_several (cfg : Cfg) (md : Mode) (tx : Tx) (h : tx.opts.length > 1) :
    anteGate cfg md tx = .reject "ext-too-many" := by
  unfold anteGate; rw [route_too_many _ h]

/-- "transactions with … unknown extension options are rejected" -/
theorem C15_routing_unknown (cfg : Cfg) (md : Mode) (tx : Tx) (o : String) (ho : tx.opts = [o])
    (h1 : o ≠ "/ethermint.evm.v1.ExtensionOptionsEthereumTx") (h2 : o ≠ "/ethermint.types.v1.ExtensionOptionsWeb3Tx") :
    anteGate cfg md tx = .reject "ext-unknown" := by
  unfold anteGate; rw [ho, route_single]
  have e1 : ¬ o = ethOptURL := h1
  have e2 : ¬ o = web3OptURL := h2
  simp [e1, e2]

/-- the Ethereum chain is selected iff the transaction carries exactly one option and it is the Ethereum one -/
theorem C15_routing_eth_iff (opts : List String) :
    route opts = .eth ↔ opts = ["/ethermint.evm.v1.ExtensionOptionsEthereumTx"] :=
  route_eth_iff opts

/-- "Ethereum messages execute only through the dedicated Ethereum path selected by exactly one matching extension
    option": a transaction that passes the gates and has an Ethereum message among its own messages carries exactly
    the Ethereum option (by `C15_gate_closure` an Ethereum message can be nowhere else). -/
theorem C15_routing_eth_msgs_only_on_eth_path (cfg : Cfg) (md : Mode) (tx : Tx) (h : anteGate cfg md tx = .pass)
    (hm : Msg.plain "/ethermint.evm.v1.MsgEthereumTx" ∈ tx.msgs) :
    tx.opts = ["/ethermint.evm.v1.ExtensionOptionsEthereumTx"] := by
  rcases (anteGate_pass_iff cfg md tx).mp h with ⟨ho, _⟩ | ⟨_, hr, _⟩
  · exact ho
  · exact absurd rfl (rejectMsgs_none hr _ hm)

/-- … and the dedicated path carries nothing but Ethereum messages -/
theorem C15_routing_eth_path_only_eth_msgs (cfg : Cfg) (md : Mode) (tx : Tx) (h : anteGate cfg md tx = .pass)
    (ho : tx.opts = ["/ethermint.evm.v1.ExtensionOptionsEthereumTx"]) :
    ∀ m, m ∈ tx.msgs → m = .plain "/ethermint.evm.v1.MsgEthereumTx" := by
  rcases (anteGate_pass_iff cfg md tx).mp h with ⟨_, he, _⟩ | ⟨ho', _⟩
  · exact ethOnly_all he
  · rw [ho] at ho'
    rcases ho' with h' | h' <;> simp [web3OptURL] at h'

/-- position facts of the generated chains: `RejectMessagesDecorator` is the first decorator of the cosmos chain,
    the vesting and authz gates (and, when configured, the mempool gate) come before signature verification, and
    the Ethereum chain verifies the message type -/
theorem C15_chain_order :
    c15CosmosChain.head? = some ("", "evmante.RejectMessagesDecorator") ∧
    (c15CosmosChain.map Prod.snd).idxOf "NewAuthenticatedMempoolDecorator" <
      (c15CosmosChain.map Prod.snd).idxOf "NewVestingAccountDecorator" ∧
    (c15CosmosChain.map Prod.snd).idxOf "NewVestingAccountDecorator" <
      (c15CosmosChain.map Prod.snd).idxOf "NewAuthzLimiterDecorator" ∧
    (c15CosmosChain.map Prod.snd).idxOf "NewAuthzLimiterDecorator" <
      (c15CosmosChain.map Prod.snd).idxOf c15SigVerificationVar ∧
    (c15CosmosChain.map Prod.snd).idxOf c15SigVerificationVar < c15CosmosChain.length ∧
    "evmante.NewEthSigVerificationDecorator" ∈ c15EthChain.map Prod.snd := by
  decide

example : anteGate ⟨false, []⟩ Mode.check
    ⟨[.plain "/ethermint.evm.v1.MsgEthereumTx"], ["/ethermint.evm.v1.ExtensionOptionsEthereumTx"], [7]⟩ = .pass := by
  decide
example : anteGate ⟨false, []⟩ Mode.check ⟨[.plain "/ethermint.evm.v1.MsgEthereumTx"], [], [7]⟩ = .reject "reject-msgs" := by
  decide
example : anteGate ⟨false, []⟩ Mode.check
    ⟨[.plain "/ethermint.evm.v1.MsgEthereumTx"], ["/ethermint.types.v1.ExtensionOptionsWeb3Tx"], [7]⟩ = .reject "reject-msgs" := by
  decide

/-! ### authenticated mempool -/

/-- "With the authenticated mempool enabled, CheckTx admits only transactions with an authorised signer": on every
    route (no option, EIP-712 option, Ethereum option), in CheckTx and ReCheckTx. -/
theorem C15_mempool (cfg : Cfg) (md : Mode) (tx : Tx) (hen : cfg.mempoolAuth = true)
    (hmode : md.isCheckTx = true ∧ md.simulate = false) (h : anteGate cfg md tx = .pass) :
    ∃ a, a ∈ tx.signers ∧ a ∈ cfg.authorised := by
  have hf : hasFetchers cfg = true := by simp [hasFetchers, hen, fetchers_nonempty]
  have key : mempoolDec md tx.signers cfg.authorised = true := by
    rcases (anteGate_pass_iff cfg md tx).mp h with ⟨_, _, hm⟩ | ⟨_, _, hm, _, _⟩
    · exact hm hf
    · exact hm hf
  simp only [mempoolDec, guard_val, hmode.1, hmode.2, Bool.not_false, Bool.and_self, ite_true,
    commonAddressesExist, List.any_eq_true, beq_iff_eq] at key
  obtain ⟨a, ha, b, hb, hab⟩ := key
  exact ⟨a, ha, hab ▸ hb⟩

/-- an Ethereum transaction from an unauthorised signer is now refused by CheckTx … -/
example : anteGate ⟨true, [1]⟩ Mode.check
    ⟨[.plain "/ethermint.evm.v1.MsgEthereumTx"], ["/ethermint.evm.v1.ExtensionOptionsEthereumTx"], [0]⟩ = .reject "mempool" := by
  decide
/-- … and still executes in a block -/
example : anteGate ⟨true, [1]⟩ Mode.deliver
    ⟨[.plain "/ethermint.evm.v1.MsgEthereumTx"], ["/ethermint.evm.v1.ExtensionOptionsEthereumTx"], [0]⟩ = .pass := by
  decide

example : anteGate ⟨true, [1]⟩ Mode.check ⟨[.plain "/cosmos.bank.v1beta1.MsgSend"], [], [0]⟩ = .reject "mempool" := by
  decide
example : anteGate ⟨true, [1]⟩ Mode.recheck ⟨[.plain "/cosmos.bank.v1beta1.MsgSend"], [], [0, 1]⟩ = .pass := by
  decide

/-- "… while block execution is unaffected": outside `CheckTx ∧ ¬simulate` (DeliverTx, and simulation) the verdict
    of the composed handler does not depend on the mempool configuration at all. -/
theorem C15_mempool_block_execution_unaffected (md : Mode) (tx : Tx) (a a' : List Nat) (b b' : Bool)
    (hmode : md.isCheckTx = false ∨ md.simulate = true) :
    anteGate ⟨b, a⟩ md tx = anteGate ⟨b', a'⟩ md tx := by
  have hg : ∀ s au, mempoolDec md s au = true := by
    intro s au
    simp only [mempoolDec, guard_val]
    cases hmode with
    | inl h => simp [h]
    | inr h => simp [h]
  unfold anteGate
  cases route tx.opts with
  | reject w => rfl
  | eth =>
    rw [ethChainK_val]
    simp only [runChain, condHolds, decStep, hg, ite_true]
    cases hasFetchers ⟨b, a⟩ <;> cases hasFetchers ⟨b', a'⟩ <;> rfl
  | cosmos e =>
    rw [cosmosChainK_val]
    simp only [runChain, condHolds, decStep, hg, ite_true]
    cases hasFetchers ⟨b, a⟩ <;> cases hasFetchers ⟨b', a'⟩ <;> rfl

example : anteGate ⟨true, [1]⟩ Mode.deliver ⟨[.plain "/cosmos.bank.v1beta1.MsgSend"], [], [0]⟩ = .pass := by
  decide

/-- the mempool decorator alone, exactly: inside the guard it passes iff a signer is authorised, outside it is the
    identity -/
theorem C15_mempool_decorator (md : Mode) (signers authorised : List Nat) :
    mempoolDec md signers authorised = true ↔
      ((md.isCheckTx = true ∧ md.simulate = false) → ∃ a, a ∈ signers ∧ a ∈ authorised) := by
  simp only [mempoolDec, guard_val]
  cases h1 : md.isCheckTx <;> cases h2 : md.simulate <;>
    simp [commonAddressesExist]

end KV.Ante
