/-
  C04 — CDP: collateral custody, stablecoin/debt accounting and indexes stay coherent.

  "At all times the CDP module account holds exactly the sum of all recorded deposits of each collateral,
   each CDP's collateral equals the sum of its deposits, and each CDP is indexed exactly once by owner and
   exactly once under its current collateral-to-debt ratio. The stable asset issued by the module never
   exceeds the internal debt coin held by the cdp, liquidator and auction module accounts, the per-collateral
   total principal equals the sum of CDP debt up to interest rounding, and closing a fully repaid CDP returns
   to every depositor exactly what they deposited. Failed operations change nothing."

  Model: KavaVerif/Model/Cdp.lean — create, deposit (owner / third party), withdraw, draw, repay (partial,
  exact, over-payment), keeper liquidation, begin block (accumulate interest → bulk sync of risky CDPs →
  block liquidation → net surplus and debt, debt / surplus auction starts), price changes; several
  collateral types (possibly sharing a denom).  `CalculateInterestFactor` is a parameter of `beginBlock`.
  The invariant `Inv` (KavaVerif/Proofs/CdpInv.lean) is proved inductive over *all* operation histories;
  the clauses of the prose are read off it below.  Helper lemmas live in KavaVerif/Proofs/Cdp*.lean.
-/
import KavaVerif.Proofs.CdpExample
import KavaVerif.Proofs.CdpGov
import KavaVerif.Generated.CdpFacts
import KavaVerif.Proofs.TieFnCdp
set_option linter.unusedSimpArgs false
set_option linter.unusedVariables false

namespace KV.Cdp
open KV

/-! ### source tables (regenerated from /repo on every run) -/

/-- The code paths that rewrite the ratio index are the ones the model transcribes: the helper path is used
    by AddCdp, AddPrincipal, DepositCollateral, RepayPrincipal, SeizeCollateral, SynchronizeInterest,
    WithdrawCollateral and payoutKeeperLiquidationReward; the only hand-rolled path is
    `SynchronizeInterestForRiskyCDPs` (`calculateCollateralRatio`); the five user operations synchronise
    interest first; each deposit's share of the debt is rounded with `RoundInt` and then capped at the remaining
    debt, the last deposit taking the remainder (7 assignments in `AuctionCollateral` since bfd342e03).  A source edit that adds or removes a path regenerates the table
    and re-opens this obligation. -/
theorem C04_source_index_paths :
    KV.Gen.cdpBulkRatioCallers = ["SynchronizeInterestForRiskyCDPs"] ∧
    KV.Gen.cdpRatioIndexHelperCallers = ["AddCdp", "AddPrincipal", "DepositCollateral", "RepayPrincipal",
      "SeizeCollateral", "SetCdpAndCollateralRatioIndex", "SynchronizeInterest", "UpdateCdpAndCollateralRatioIndex",
      "WithdrawCollateral", "payoutKeeperLiquidationReward", "removeOldCollateralRatioIndex"] ∧
    KV.Gen.cdpSyncCallers = ["AddPrincipal", "AttemptKeeperLiquidation", "DepositCollateral", "RepayPrincipal",
      "WithdrawCollateral"] ∧
    KV.Gen.cdpDebtShareRounding = "RoundInt" ∧ KV.Gen.cdpAuctionCollateralAssignments = 7 := by decide

/-! ### the invariant holds along every history -/

/-- a state without CDPs satisfies the invariant (genesis) -/
theorem C04_genesis_inv (E : Env) (g : Int) (s : St) (h1 : s.cdp = fun _ => none) (h2 : s.idx = [])
    (h3 : s.own = fun _ => []) (h4 : s.dep = fun _ _ => 0) (h5 : ∀ d, 2 ≤ d → s.bal MCDP d = 0)
    (h6 : s.supply USDX - g ≤ debtHeld s) : Inv E g s := by
  refine ⟨?_, ?_, ?_, h6⟩
  · rw [h1, h2]
    refine ⟨?_, List.nodup_nil, List.Pairwise.nil⟩
    intro e; simp
  · rw [h1, h3]
    refine ⟨?_, fun _ => List.nodup_nil⟩
    intro o id; simp
  · rw [h1, h4]
    refine ⟨fun id c h => by simp at h, fun _ _ _ => rfl, fun _ _ _ => rfl, ?_, fun _ _ => rfl⟩
    intro d hd
    rw [h5 d hd]
    exact (sumAcc_zero _ _ (fun _ _ => rfl)).symm

/-- `Inv4` is preserved by every successful operation — create, deposit, withdraw, draw, repay, keeper
    liquidation, begin block, price change — and failed operations leave the state as it was; hence it holds
    after every history.  (`OpOk`: depositors / creators are accounts of the universe, keepers are user accounts.) -/
theorem C04_invariant_all_histories {E : Env} {g : Int} (hW : WF E) (s0 : St) (ops : List Op)
    (h0 : Inv E g s0) (hops : ∀ op, op ∈ ops → OpOk E op) : Inv E g (run E s0 ops) :=
  run_inv hW ops s0 h0 hops

/-- one step (used by the harness-independent reading "after every operation") -/
theorem C04_invariant_step {E : Env} {g : Int} {s s' : St} {op : Op} (hW : WF E) (hI : Inv E g s) (hop : OpOk E op)
    (h : step E s op = .ok s') : Inv E g s' := step_inv hW hI hop h

/-- non-vacuity: the example world is well formed, its genesis satisfies the invariant, every operation of
    the history succeeds on the way and the CDP exists at the end with collateral 34 -/
example : WF exEnv ∧ Inv exEnv 200000000 exGenesis ∧ (∀ op, op ∈ exHistory → OpOk exEnv op) ∧
    ((run exEnv exGenesis exHistory).cdp 1).map (·.coll) = some 3400000000 := by
  refine ⟨exEnv_wf, C04_genesis_inv _ _ _ rfl rfl rfl rfl (fun _ _ => by simp [exGenesis]) (by decide +kernel), ?_, by decide +kernel⟩
  intro op hop
  simp only [exHistory, List.mem_cons, List.mem_nil_iff, or_false] at hop
  rcases hop with rfl | rfl | rfl | rfl | rfl | rfl <;> simp [OpOk, exEnv]

/-! ### the clauses of the prose, read off the invariant -/

/-- "the CDP module account holds exactly the sum of all recorded deposits of each collateral" -/
theorem C04_custody {E : Env} {g : Int} {s : St} (hI : Inv E g s) (d : Denom) (hd : 2 ≤ d) :
    s.bal MCDP d = depositsIn E s d := by
  rw [hI.coll.2.2.2.1 d hd]
  unfold depositsIn
  apply sumAcc_congr
  intro id _
  cases hc : s.cdp id with
  | none => simp only [collOf, hc]
  | some c =>
    simp only [collOf, hc]
    split
    · exact hI.coll.1 id c hc
    · rfl

/-- there are no deposit records outside CDPs: a deposit belongs to an existing CDP and a known account -/
theorem C04_no_orphan_deposits {E : Env} {g : Int} {s : St} (hI : Inv E g s) (id : Nat) (a : Acct)
    (h : s.dep id a ≠ 0) : (s.cdp id).isSome = true ∧ a ∈ E.accts := by
  refine ⟨?_, mem_accts_of_dep hI.coll h⟩
  cases hc : s.cdp id with
  | none => exact absurd (hI.coll.2.1 id hc a) h
  | some c => rfl

/-- "each CDP's collateral equals the sum of its deposits" (also after the keeper-reward deduction,
    which changes one deposit and the CDP's collateral together — see `liquidate_inv`) -/
theorem C04_cdp_collateral_eq_deposits {E : Env} {g : Int} {s : St} (hI : Inv E g s) (id : Nat) (c : Cdp)
    (h : s.cdp id = some c) : c.coll = sumAcc E.accts (s.dep id) := hI.coll.1 id c h

/-- "each CDP is indexed exactly once by owner": the owner's id list contains `id` iff `id` is a CDP of that
    owner, and no list has duplicates -/
theorem C04_owner_index_exact {E : Env} {g : Int} {s : St} (hI : Inv E g s) :
    (∀ o id, id ∈ s.own o ↔ ∃ c, s.cdp id = some c ∧ c.owner = o) ∧ ∀ o, (s.own o).Nodup := hI.own

/-- "… and exactly once under its current collateral-to-debt ratio": the ratio index is exactly the image of
    the CDP table under `cdp ↦ (type, sortable ratio of its collateral and total debt, id)`, without
    duplicates, in store order -/
theorem C04_ratio_index_exact {E : Env} {g : Int} {s : St} (hI : Inv E g s) :
    (∀ e : Entry, e ∈ s.idx ↔ ∃ c, s.cdp e.2.2 = some c ∧ e.1 = c.ty ∧ e.2.1 = keyOf E c) ∧
    s.idx.Nodup ∧ Sorted s.idx := hI.idx

/-- the two separately written routines that compute the index key — the helper path
    (`CalculateCollateralToDebtRatio`) and the bulk interest-sync path (`calculateCollateralRatio`) — agree -/
theorem C04_ratio_index_paths_agree {E : Env} {cp : CollParam} {c : Cdp} (h : E.P.colls[c.ty]? = some cp) :
    keyBulk E cp c = keyOf E c := keyBulk_eq h

/-- "The stable asset issued by the module never exceeds the internal debt coin held by the cdp, liquidator
    and auction module accounts" (`g` = usdx supply at genesis) -/
theorem C04_stable_le_debt {E : Env} {g : Int} {s : St} (hI : Inv E g s) :
    s.supply USDX - g ≤ s.bal MCDP DEBT + s.bal MLIQ DEBT + s.bal MAUC DEBT := hI.debt

/-- "closing a fully repaid CDP returns to every depositor exactly what they deposited": if a repay makes the
    CDP disappear, every account's balance of the collateral denom grows by exactly its recorded deposit, and
    the CDP's deposit records, owner-index entry and ratio-index entries are gone -/
theorem C04_close_returns_deposits {E : Env} {g : Int} {now : Int} {s s' : St} {owner : Acct} {ty : Nat} {pay : Int}
    {pd : Denom} {id : Nat} {c0 : Cdp} {cp : CollParam}
    (hW : WF E) (hI : Inv E g s) (hcp : E.P.colls[ty]? = some cp) (hf : findCdp s owner ty = some (id, c0))
    (h : repay E now s owner ty pay pd = .ok s') (hgone : s'.cdp id = none) :
    (∀ a, a ∈ E.accts → s'.bal a cp.denom = s.bal a cp.denom + s.dep id a) ∧
    (∀ a, s'.dep id a = 0) ∧ (∀ o, id ∉ s'.own o) ∧ (∀ e, e ∈ s'.idx → e.2.2 ≠ id) := by
  have hI' := repay_inv hW hI h
  refine ⟨repay_close_balances hW hI hcp hf h hgone, hI'.coll.2.1 id hgone, ?_, ?_⟩
  · intro o hin
    obtain ⟨c, hc, -⟩ := (hI'.own.1 o id).1 hin
    rw [hgone] at hc; cases hc
  · intro e he hid
    obtain ⟨c, hc, -, -⟩ := (hI'.idx.1 e).1 he
    rw [hid, hgone] at hc; cases hc

/-- non-vacuity: the closing over-payment in the example world returns both deposits -/
example : let s := run exEnv exGenesis exHistory
    let s' := apply exEnv s (.repay 200 3 0 20000000 0)
    (s.cdp 1).isSome = true ∧ (s'.cdp 1).isNone = true ∧
    s'.bal 3 2 = s.bal 3 2 + s.dep 1 3 ∧ s'.bal 4 2 = s.bal 4 2 + s.dep 1 4 ∧ s.dep 1 4 = 400000000 := by
  decide +kernel

/-! ### "the per-collateral total principal equals the sum of CDP debt up to interest rounding"

  `sumDebt s ty` = Σ (principal + accumulated fees) over the CDPs of type `ty`.  The theorems below give, for
  every operation, how the total principal and the debt side move.  They move by the same amounts except for
  the interest terms: an accrual adds `round(f·T) − T` to the total (one half-even rounding, error ≤ ½), every
  synchronisation of a CDP (`SynchronizeInterest` inside the user operations, one iteration of the bulk loop)
  adds `round(d·quo(G, g)) − d` to that CDP — that is the "interest rounding" of the prose — and the clamp of
  `DecrementTotalPrincipal` at zero can only bind when the total is already below the debt side.
  What is NOT proved is a closed bound on the accumulated difference over a history (it depends on the
  amounts: each `quo(G, g)` carries a relative error of 10⁻¹⁸); the correspondence check evaluates
  `|total − Σ synchronised debt| ≤ #roundings` on every real post-state instead. -/

/-- create: both sides grow by the principal (no interest term) -/
theorem C04_total_principal_create {E : Env} {g : Int} {now : Int} {s s' : St} {owner : Acct} {ty : Nat} {c : Int}
    {cd : Denom} {p : Int} {pd : Denom} (hI : Inv E g s) (h : create E now s owner ty c cd p pd = .ok s') :
    (∀ t, s'.tprin t = s.tprin t + (if t = ty then p else 0)) ∧
    ∀ t, sumDebt s' t = sumDebt s t + (if t = ty then p else 0) := create_drift hI h

/-- deposit: total untouched; debt side + the interest synchronised on the CDP -/
theorem C04_total_principal_deposit {E : Env} {g : Int} {now : Int} {s s' : St} {owner depositor : Acct} {ty : Nat}
    {c : Int} {cd : Denom} (hI : Inv E g s) (h : deposit E now s owner depositor ty c cd = .ok s') :
    ∃ id c0 s1 c1, findCdp s owner ty = some (id, c0) ∧ syncInterest E now s id c0 = .ok (s1, c1) ∧
      s'.tprin = s.tprin ∧ ∀ t, sumDebt s' t = sumDebt s t + (if t = ty then c1.fees - c0.fees else 0) :=
  deposit_drift hI h

/-- withdraw: as deposit -/
theorem C04_total_principal_withdraw {E : Env} {g : Int} {now : Int} {s s' : St} {owner depositor : Acct} {ty : Nat}
    {c : Int} {cd : Denom} (hI : Inv E g s) (h : withdraw E now s owner depositor ty c cd = .ok s') :
    ∃ id c0 s1 c1, findCdp s owner ty = some (id, c0) ∧ syncInterest E now s id c0 = .ok (s1, c1) ∧
      s'.tprin = s.tprin ∧ ∀ t, sumDebt s' t = sumDebt s t + (if t = ty then c1.fees - c0.fees else 0) :=
  withdraw_drift hI h

/-- draw: both sides + the drawn amount; debt side + the synchronised interest -/
theorem C04_total_principal_draw {E : Env} {g : Int} {now : Int} {s s' : St} {owner : Acct} {ty : Nat} {p : Int}
    {pd : Denom} (hI : Inv E g s) (h : draw E now s owner ty p pd = .ok s') :
    ∃ id c0 s1 c1, findCdp s owner ty = some (id, c0) ∧ syncInterest E now s id c0 = .ok (s1, c1) ∧
      (∀ t, s'.tprin t = s.tprin t + (if t = ty then p else 0)) ∧
      ∀ t, sumDebt s' t = sumDebt s t + (if t = ty then c1.fees - c0.fees + p else 0) := draw_drift hI h

/-- repay (partial, exact or over-payment; CDP updated or closed): with `amt` = the fee + principal payment
    actually taken, total − `amt` (clamped at 0), debt side + synchronised interest − `amt` -/
theorem C04_total_principal_repay {E : Env} {g : Int} {now : Int} {s s' : St} {owner : Acct} {ty : Nat} {pay : Int}
    {pd : Denom} (hI : Inv E g s) (h : repay E now s owner ty pay pd = .ok s') :
    ∃ id c0 s1 c1, findCdp s owner ty = some (id, c0) ∧ syncInterest E now s id c0 = .ok (s1, c1) ∧
      (∀ t, s'.tprin t = if t = ty then
          (if s.tprin ty - ((calcPayment (c1.prin + c1.fees) c1.fees pay).1 + (calcPayment (c1.prin + c1.fees) c1.fees pay).2) < 0 then 0
           else s.tprin ty - ((calcPayment (c1.prin + c1.fees) c1.fees pay).1 + (calcPayment (c1.prin + c1.fees) c1.fees pay).2))
        else s.tprin t) ∧
      ∀ t, sumDebt s' t = sumDebt s t + (if t = ty then c1.fees - c0.fees -
          ((calcPayment (c1.prin + c1.fees) c1.fees pay).1 + (calcPayment (c1.prin + c1.fees) c1.fees pay).2) else 0) :=
  repay_drift hI h

/-- keeper liquidation: total − synchronised debt of the CDP (clamped at 0); the CDP's recorded debt leaves the
    debt side (i.e. + synchronised interest − synchronised debt) -/
theorem C04_total_principal_liquidate {E : Env} {g : Int} {now : Int} {s s' : St} {keeper owner : Acct} {ty : Nat}
    (hW : WF E) (hI : Inv E g s) (hk : (3 : Nat) ≤ keeper) (h : liquidate E now s keeper owner ty = .ok s') :
    ∃ id c0 s1 c1, findCdp s owner ty = some (id, c0) ∧ syncInterest E now s id c0 = .ok (s1, c1) ∧
      (∀ t, s'.tprin t = if t = ty then (if s.tprin ty - (c1.prin + c1.fees) < 0 then 0 else s.tprin ty - (c1.prin + c1.fees))
          else s.tprin t) ∧
      ∀ t, sumDebt s' t = sumDebt s t - (if t = ty then c0.prin + c0.fees else 0) := liquidate_drift hW hI hk h

/-- block seizure of one CDP: both sides − the CDP's debt (total clamped at 0) -/
theorem C04_total_principal_seize {E : Env} {s s' : St} {id : Nat} {c : Cdp} {deps : List (Acct × Int)}
    (hlt : id < s.nextId) (ho : s.cdp id = some c) (h : seize E s id c deps = .ok s') :
    (∀ t, s'.tprin t = if t = c.ty then (if s.tprin c.ty - (c.prin + c.fees) < 0 then 0 else s.tprin c.ty - (c.prin + c.fees))
        else s.tprin t) ∧
    ∀ t, sumDebt s' t = sumDebt s t - (if c.ty = t then c.prin + c.fees else 0) := seize_drift hlt ho h

/-- one iteration of the bulk synchronisation: total untouched; debt side + the interest booked on that CDP -/
theorem C04_total_principal_bulk_sync {E : Env} {g : Int} {s s' : St} {ty : Nat} {cp : CollParam} {gf : Dec}
    {prev : Int} {id : Nat} (hI : Inv E g s) (h : syncOne E s ty cp gf prev id = .ok s') :
    ∃ c, s.cdp id = some c ∧ c.ty = ty ∧ s'.tprin = s.tprin ∧
      ((s' = s) ∨ ∀ t, sumDebt s' t = sumDebt s t + (if t = ty then bulkInterest gf c else 0)) := syncOne_drift hI h

/-- interest accrual: the total principal is multiplied by the period's factor and rounded half-to-even once
    (error ≤ ½ unit), never decreases for a factor ≥ 1, and no CDP record and no other type is touched -/
theorem C04_total_principal_partial {now : Int} {s s' : St} {ty : Nat} {cp : CollParam} {f : Dec}
    (hf : P ≤ f.m) (h : accumulate now s ty cp f = .ok s') :
    s'.cdp = s.cdp ∧ s.tprin ty ≤ s'.tprin ty ∧
    (s'.tprin ty = s.tprin ty ∨
      (2 * (s'.tprin ty * P - f.m * s.tprin ty) ≤ P ∧ 2 * (f.m * s.tprin ty - s'.tprin ty * P) ≤ P)) ∧
    (∀ t, t ≠ ty → s'.tprin t = s.tprin t) :=
  accumulate_tprin hf h

/-- non-vacuity: in the example history the total principal and the debt side agree at the end
    (no interest accrued: the only block uses factor 1) -/
example : (run exEnv exGenesis exHistory).tprin 0 = 10500000 ∧ sumDebt (run exEnv exGenesis exHistory) 0 = 10500000 := by
  decide +kernel

/-- "Failed operations change nothing": in the model of (keeper ∘ baseapp) a message whose keeper call
    returns an error or panics leaves the state untouched -/
theorem C04_failed_noop (E : Env) (s : St) (op : Op) (h : (step E s op).isOk = false) : apply E s op = s := by
  unfold apply
  split
  · rename_i s' hs; rw [hs] at h; cases h
  · rfl

/-- non-vacuity: drawing past the ratio fails and changes nothing -/
example : (step exEnv exAtRatio (.draw 100 3 0 1 0)).isOk = false := by decide +kernel

/-! ### parameter changes by governance while CDPs exist

    On a live chain the x/cdp parameters change between two blocks (governance end blocker, committee begin
    blocker).  Every operation of the model takes the parameters in force as an argument, so a change is a
    change of that argument between two steps; the harness reads the parameters from the x/params store before
    every case.  The invariant only depends on the *shape* of the environment (`SameShape`: account universe,
    debt conversion factor, per type its denom and conversion factor — the quantities the stored ratio-index
    keys and the custody sums were computed with).  A change of a conversion factor or of a type's denom is
    outside the shape: the code then recomputes "old" index keys with the new factor and the stored keys go
    stale (no migration exists), which is why the harness never generates it. -/

/-- a parameter change that leaves denoms and conversion factors alone — liquidation ratio, stability fee,
    debt limits, debt floor, keeper reward, index count, market ids, auction thresholds / lots, the order of the
    list, removing a type (`active := false`) and adding it again — keeps `Inv4` as it is: nothing is migrated
    and nothing needs to be -/
theorem C04_param_change_preserves_inv {E E' : Env} {g : Int} {s : St} (h : SameShape E E') :
    Inv E g s ↔ Inv E' g s :=
  ⟨inv_shape h, inv_shape h.symm⟩

/-- the checkable form of the hypothesis: same accounts, same debt conversion factor, and the type lists agree
    position by position on (denom, conversion factor); every other field, the `active` flags and the loop order
    are free -/
theorem C04_param_change_shape {E E' : Env} (ha : E'.accts = E.accts) (hd : E'.P.debtCf = E.P.debtCf)
    (hm : E'.P.colls.map (fun (cp : CollParam) => (cp.denom, cp.cf)) = E.P.colls.map (fun (cp : CollParam) => (cp.denom, cp.cf))) :
    SameShape E E' := sameShape_of_lists ha hd hm

/-- `Inv4` holds after every history in which the parameters change (within the shape) before any step:
    in particular after removing a collateral type while CDPs of it exist, any number of operations and
    blocks, and adding it again -/
theorem C04_invariant_all_histories_gov {E0 : Env} {g : Int} (s0 : St) (steps : List (Env × Op))
    (h0 : Inv E0 g s0) (hsteps : ∀ E op, (E, op) ∈ steps → WF E ∧ SameShape E0 E ∧ OpOk E op) :
    Inv E0 g (runG s0 steps) :=
  runG_inv steps s0 h0 hsteps

/-- while a collateral type is not listed, every user operation on it fails (so, by `C04_failed_noop`, changes
    nothing): `ValidateCollateral` / `GetCDP` do not find the type -/
theorem C04_removed_type_refuses {E : Env} {s : St} {ty : Nat} (h : isActive E ty = false) (now : Int) :
    (∀ o c cd p pd, (create E now s o ty c cd p pd).isOk = false) ∧
    (∀ o d c cd, (deposit E now s o d ty c cd).isOk = false) ∧
    (∀ o d c cd, (withdraw E now s o d ty c cd).isOk = false) ∧
    (∀ o p pd, (draw E now s o ty p pd).isOk = false) ∧
    (∀ o p pd, (repay E now s o ty p pd).isOk = false) ∧
    (∀ k o, (liquidate E now s k o ty).isOk = false) :=
  inactive_refuses h now

/-- … and the begin blocker only visits listed types -/
theorem C04_removed_type_not_visited {E : Env} {facs : List Dec} {ty : Nat} {cp : CollParam} {f : Dec}
    (hm : (ty, cp, f) ∈ blockTypes E facs) : isActive E ty = true := blockTypes_active hm


/-- … and leaves every CDP of a type that is not listed exactly as it was: not synchronised, not seized, whatever
    the prices (the CDPs of a removed type are frozen until the type is listed again) -/
theorem C04_removed_type_untouched_by_begin_block {E : Env} {g : Int} {now : Int} {skip : Bool} {facs : List Dec}
    {s s' : St} (hW : WF E) (hI : Inv E g s) (h : beginBlock E now skip facs s = .ok s')
    (id : Nat) (c : Cdp) (hc : s.cdp id = some c) (hu : isActive E c.ty = false) : s'.cdp id = some c :=
  beginBlock_keeps_unlisted hW hI h id c hc hu

/-- non-vacuity: both are parameter changes within the shape; with the type removed the owner can neither
    repay nor deposit and a begin block leaves the CDP alone even after a price crash; with the type back under
    the ratio 2.0 the position created at exactly 150 % is seized by the next begin block, and in the original
    world it is not -/
example : SameShape exEnv exEnvRemoved ∧ SameShape exEnv exEnvRaised ∧
    (repay exEnvRemoved 100 exAtRatio 3 0 10000000 0).isOk = false ∧
    (deposit exEnvRemoved 100 exAtRatio 3 3 0 1 2).isOk = false ∧
    (repay exEnv 100 exAtRatio 3 0 10000000 0).isOk = true ∧
    ((apply exEnvRemoved { exAtRatio with price := fun _ => some ⟨1000000000000000⟩ } (.beginBlock 101 false [Dec.one])).cdp 1).isSome = true ∧
    ((apply exEnvRaised exAtRatio (.beginBlock 101 false [Dec.one])).cdp 1).isNone = true ∧
    ((apply exEnv exAtRatio (.beginBlock 101 false [Dec.one])).cdp 1).isSome = true := by
  refine ⟨sameShape_of_lists rfl rfl rfl, sameShape_of_lists rfl rfl rfl, ?_⟩
  decide +kernel

/-! ## source tie (regenerated)

    `GoFn.Cdp.*` (Generated/FnCdp.lean) is regenerated on every run from the Go source by the function
    translator (tools/extract/fn*.go); the theorem says that the regenerated definition IS the hand-written
    model function the theorems above are about.  A source edit of the function re-opens this obligation.
    Proof: Proofs/TieFnCdp.lean. -/

/-- `calculatePayment` of x/cdp/keeper/draw.go (coins as amounts, equal denominations by the function's
    CONTRACT) equals `calcPayment` and never panics, for every `owed ≥ 0` (= principal + fees of a stored CDP).
    For `owed < 0 < payment` the Go function panics in `sdk.Coin.Sub` where the total model function returns
    `owed`; that domain is excluded here rather than papered over. -/
theorem C04_source_tie_calculatePayment (owed fees pay : Int) (h : 0 ≤ owed) :
    GoFn.Cdp.calculatePayment_translated = true ∧
    GoFn.Cdp.calculatePayment owed fees pay = Go.R.ok (calcPayment owed fees pay) :=
  TieFn.cdp_calculatePayment owed fees pay h

/-- `calculateCollateralRatio` (the bulk path of `SynchronizeInterestForRiskyCDPs`) = `c2dBulk` on the CDP's collateral
    amount and `Principal + AccumulatedFees`, and never panics, for conversion factors in 0 … 18 (outside,
    `sdk.NewDecFromIntWithPrec` panics) -/
theorem C04_source_tie_calculateCollateralRatio (dp : GoFn.Cdp.DebtParam) (cp : GoFn.Cdp.CollateralParam)
    (cdp : GoFn.Cdp.CDP) (hd : 0 ≤ dp.ConversionFactor ∧ dp.ConversionFactor ≤ 18)
    (hc : 0 ≤ cp.ConversionFactor ∧ cp.ConversionFactor ≤ 18) :
    GoFn.Cdp.calculateCollateralRatio_translated = true ∧
    GoFn.Cdp.calculateCollateralRatio dp cp cdp
      = Go.R.ok (c2dBulk cdp.Collateral cp.ConversionFactor.toNat (cdp.Principal + cdp.AccumulatedFees)
          dp.ConversionFactor.toNat) :=
  TieFn.cdp_calculateCollateralRatio dp cp cdp hd hc

end KV.Cdp
