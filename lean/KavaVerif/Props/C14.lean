/-
  C14 — Genesis export/import round-trips every reachable state.

  "For any reachable state, exporting genesis and initialising a fresh chain from it passes validation and
   reproduces the same state of every Kava module … re-exporting yields identical genesis apart from records
   that are inert by construction …, and all invariants hold. The imported chain then behaves like the
   original …"

  Theorems: for the simple modules precisebank, savings, swap and bep3 the export / validate / import
  functions are transcribed (Model/GenesisModels.lean) and the round trip is proved for every state that
  satisfies the module's invariant: validation accepts the export, import succeeds, and the imported state
  IS the original state — primary records are rewritten in store order and the derived indexes (bep3's
  by-block and long-term indexes) are functions of the primary records. Re-export is then identical.
  Each theorem comes with a concrete non-trivial state (non-vacuity) and, for the import-time balance /
  supply checks, a rejected state showing the hypothesis is needed.
  PARTIAL: cdp, auction, hard, earn, incentive, committee, pricefeed, community, kavadist, issuance,
  evmutil and every SDK module, JSON/protobuf serialisation, InitChain plumbing and the import order are
  NOT modelled; they are only explored by the history runner (harness/cmd/c14): real export → validation →
  InitChain on a fresh app → re-export compared module by module → common follow-up block → invariants.

  Only property statements live here; helper lemmas are in KavaVerif/Proofs/GenesisModels.lean.
-/
import KavaVerif.Proofs.GenesisModels
import KavaVerif.Model.BlockSafety
set_option linter.unusedSimpArgs false
set_option linter.unusedVariables false

namespace KV.Gx
open List

/-- the generated conversion factor is the 10^12 of the property text -/
theorem C14_conversion_factor : C = 10 ^ 12 := by decide

/-- "import order respects cross-module reads" (app/app.go SetOrderInitGenesis, regenerated): accounts and
    balances exist before any Kava module is imported, x/bank before precisebank compares its reserve,
    pricefeed before cdp reads prices, cdp before incentive reads cdp params, savings/hard before earn's
    strategies, and the crisis module (which asserts all invariants at genesis) last -/
theorem C14_import_order :
    let o := KV.Gen.C02.initGenesisOrder
    KV.Safe.before o "authtypes.ModuleName" "banktypes.ModuleName" = true ∧
    KV.Safe.before o "banktypes.ModuleName" "kavadisttypes.ModuleName" = true ∧
    KV.Safe.before o "banktypes.ModuleName" "precisebanktypes.ModuleName" = true ∧
    KV.Safe.before o "pricefeedtypes.ModuleName" "cdptypes.ModuleName" = true ∧
    KV.Safe.before o "cdptypes.ModuleName" "incentivetypes.ModuleName" = true ∧
    KV.Safe.before o "hardtypes.ModuleName" "earntypes.ModuleName" = true ∧
    KV.Safe.before o "savingstypes.ModuleName" "earntypes.ModuleName" = true ∧
    KV.Safe.before o "precisebanktypes.ModuleName" "crisistypes.ModuleName" = true ∧
    o.getLast? = some "crisistypes.ModuleName" := by decide +kernel

/-! ## precisebank -/

/-- export → validate → import reproduces the state, for every state satisfying the C03 invariant
    (`reserve` = the module account's ukava balance, exported and imported by x/bank) -/
theorem C14_precisebank_roundtrip (s : PBState) (reserve : Int) (h : PBInv s reserve) :
    pbValidate (pbExport s) = true ∧ pbInit (pbExport s) reserve = some s := by
  obtain ⟨hs, hr, h0, h1, hres⟩ := h
  have hv : pbValidate (pbExport s) = true := by
    unfold pbValidate pbExport pbTotal
    simp only [Bool.and_eq_true, decide_eq_true_eq]
    refine ⟨⟨⟨⟨?_, noDup_of_sorted _ hs⟩, h0⟩, h1⟩, ?_⟩
    · apply all_of_forall
      intro b hb
      have := hr b hb
      simp only [Bool.and_eq_true, decide_eq_true_eq]
      exact this
    · rw [← hres]; exact Int.mul_emod_left reserve C
  refine ⟨hv, ?_⟩
  unfold pbInit
  simp only [hv, Bool.not_true, Bool.false_eq_true, ite_false]
  have ht : pbTotal (pbExport s) = reserve * C := by unfold pbTotal pbExport; simp only; omega
  simp only [ht, bne_self_eq_false, Bool.false_eq_true, ite_false]
  unfold pbExport
  simp only [fromList_sorted _ hs]

/-- re-export after import is the identical document -/
theorem C14_precisebank_reexport (s s' : PBState) (reserve : Int) (h : PBInv s reserve)
    (hi : pbInit (pbExport s) reserve = some s') : pbExport s' = pbExport s := by
  rw [(C14_precisebank_roundtrip s reserve h).2] at hi
  cases hi; rfl

/-- non-vacuity: two fractional balances, a remainder, reserve 1 ukava -/
example : PBInv ⟨[(3, 400000000000), (7, 599999999990)], 10⟩ 1 := by
  refine ⟨?_, ?_, by decide, by decide, by decide⟩
  · unfold Sorted; simp
  · intro b hb; simp only [List.mem_cons, List.mem_nil_iff, or_false] at hb
    rcases hb with rfl | rfl <;> decide

/-- the reserve hypothesis is needed: import refuses a state whose reserve does not back the fractions -/
theorem C14_precisebank_unbacked_rejected :
    pbInit (pbExport ⟨[(3, 400000000000), (7, 600000000000)], 0⟩) 2 = none := by decide

/-! ## savings -/

theorem C14_savings_roundtrip (s : SavState) (h : SavInv s) :
    savValidate (savExport s) = true ∧ savInit (savExport s) = some s := by
  obtain ⟨hd, hs, hc⟩ := h
  have hv : savValidate (savExport s) = true := by
    unfold savValidate savExport
    simp only [Bool.and_eq_true]
    exact ⟨⟨hd, all_of_forall _ _ hc⟩, noDup_of_sorted _ hs⟩
  refine ⟨hv, ?_⟩
  unfold savInit
  simp only [hv, Bool.not_true, Bool.false_eq_true, ite_false]
  unfold savExport
  simp only [fromList_sorted _ hs]

example : SavInv ⟨[1, 2], [(4, [(1, 10), (2, 5)]), (9, [(2, 1)])]⟩ := by
  refine ⟨by decide, ?_, ?_⟩
  · unfold Sorted; simp
  · intro d hd; simp only [List.mem_cons, List.mem_nil_iff, or_false] at hd
    rcases hd with rfl | rfl <;> decide

/-! ## swap -/

theorem C14_swap_roundtrip (s : SwapState) (h : SwapInv s) :
    swapValidate (swapExport s) = true ∧ swapInit (swapExport s) = some s := by
  obtain ⟨hp, hsh, hpool, hshare⟩ := h
  have hv : swapValidate (swapExport s) = true := by
    unfold swapValidate swapExport
    simp only [Bool.and_eq_true]
    refine ⟨⟨⟨⟨⟨?_, noDup_of_sorted _ hp⟩, ?_⟩, noDup_of_sorted _ hsh⟩, ?_⟩, ?_⟩
    · apply all_of_forall; intro p hpm
      have := hpool p hpm
      simp only [Bool.and_eq_true, decide_eq_true_eq]
      exact ⟨⟨this.1, this.2.1⟩, this.2.2.1⟩
    · apply all_of_forall; intro sh hm
      simp only [decide_eq_true_eq]; exact (hshare sh hm).1
    · apply all_of_forall; intro p hpm
      simp only [decide_eq_true_eq]; exact (hpool p hpm).2.2.2
    · apply all_of_forall; intro sh hm
      simp only [List.contains_iff_mem]; exact (hshare sh hm).2
  refine ⟨hv, ?_⟩
  unfold swapInit
  simp only [hv, Bool.not_true, Bool.false_eq_true, ite_false]
  unfold swapExport
  simp only [fromList_sorted _ hp, fromList_sorted _ hsh]

/-- non-vacuity: one pool with two depositors -/
example : SwapInv ⟨[(5, ⟨1000, 2000, 30⟩)], [(11, (5, 10)), (12, (5, 20))]⟩ := by
  refine ⟨by unfold Sorted; simp, by unfold Sorted; simp, ?_, ?_⟩
  · intro p hp; simp only [List.mem_cons, List.mem_nil_iff, or_false] at hp
    subst hp; decide
  · intro sh hs; simp only [List.mem_cons, List.mem_nil_iff, or_false] at hs
    rcases hs with rfl | rfl <;> decide

/-- the pool-shares invariant is needed: a state whose depositor shares do not add up is refused on import -/
theorem C14_swap_share_mismatch_rejected :
    swapInit (swapExport ⟨[(5, ⟨1000, 2000, 30⟩)], [(11, (5, 10))]⟩) = none := by decide

/-! ## bep3 -/

theorem C14_bep3_roundtrip (s : Bep3State) (h : Bep3Inv s) :
    bep3Validate (bep3Export s) = true ∧ bep3Init (bep3Export s) = some s := by
  obtain ⟨hs, hamt, hbb, hlt, hin, hout, hc0, hi0, ho0, hcl, hil, hicl, hol⟩ := h
  have hv : bep3Validate (bep3Export s) = true := by
    unfold bep3Validate bep3Export
    simp only [Bool.and_eq_true, decide_eq_true_eq]
    refine ⟨⟨⟨⟨noDup_of_sorted _ hs, ?_⟩, hi0⟩, ho0⟩, hc0⟩
    apply all_of_forall; intro x hx
    simp only [decide_eq_true_eq]; exact hamt x hx
  refine ⟨hv, ?_⟩
  unfold bep3Init
  simp only [hv, Bool.not_true, Bool.false_eq_true, ite_false]
  unfold bep3Export
  simp only [← hin, ← hout, bne_self_eq_false, Bool.false_eq_true, ite_false]
  have hg : (decide (s.supply.current > s.limit) || decide (s.supply.incoming > s.limit) ||
      decide (s.supply.incoming + s.supply.current > s.limit) || decide (s.supply.outgoing > s.limit)) = false := by
    simp only [Bool.or_eq_false_iff, decide_eq_false_iff_not]
    omega
  simp only [hg, Bool.false_eq_true, ite_false, fromList_sorted _ hs, ← hbb, ← hlt]

/-- the derived indexes of the imported state are those of the original: they are functions of the swaps -/
theorem C14_bep3_indexes_rebuilt (s s' : Bep3State) (h : Bep3Inv s) (hi : bep3Init (bep3Export s) = some s') :
    s'.byBlock = s.byBlock ∧ s'.longterm = s.longterm := by
  rw [(C14_bep3_roundtrip s h).2] at hi
  cases hi; exact ⟨rfl, rfl⟩

/-- non-vacuity: an open incoming swap, an expired outgoing one (unrefunded) and a completed one -/
example : Bep3Inv ⟨[(1, ⟨true, .open_, 500, 120, 0⟩), (2, ⟨false, .expired, 70, 90, 0⟩), (3, ⟨true, .completed, 40, 80, 85⟩)],
    [(120, 1)], [(85, 3)], ⟨500, 70, 1000⟩, 5000, 1700000000⟩ := by
  refine ⟨by unfold Sorted; simp, ?_, by decide, by decide, by decide, by decide, by decide, by decide, by decide,
    by decide, by decide, by decide, by decide⟩
  intro x hx; simp only [List.mem_cons, List.mem_nil_iff, or_false] at hx
  rcases hx with rfl | rfl | rfl <;> decide

/-- the supply-accounting invariant is needed: a supply record that disagrees with the swaps is refused -/
theorem C14_bep3_supply_mismatch_rejected :
    bep3Init (bep3Export ⟨[(1, ⟨true, .open_, 500, 120, 0⟩)], [(120, 1)], [], ⟨499, 0, 0⟩, 5000, 0⟩) = none := by decide

end KV.Gx
