/-
  C14 — Genesis export/import round-trips every reachable state.

  "For any reachable state, exporting genesis and initialising a fresh chain from it passes validation and
   reproduces the same state of every Kava module … re-exporting yields identical genesis apart from records
   that are inert by construction …, and all invariants hold. The imported chain then behaves like the
   original …"

  Theorems: for the simple modules precisebank, savings, swap and bep3 the export / validate / import
  functions are transcribed (Model/GenesisModels.lean) and the round trip is proved for every state that
  satisfies the module's invariant: validation accepts the export, import succeeds, and the imported state
  IS the original state — primary records are rewritten in store order and the derived indexes (bep3's
  by-block and long-term indexes) are functions of the primary records. Re-export is then identical.
  Each theorem comes with a concrete non-trivial state (non-vacuity) and, for the import-time balance /
  supply checks, a rejected state showing the hypothesis is needed.
  The second half (Model/GenesisMore.lean) adds kavadist, community, issuance, auction, committee, incentive
  (one reward kind), hard, pricefeed and cdp in the same style.
  PARTIAL: earn, evmutil and every SDK module, JSON/protobuf serialisation and InitChain plumbing are
  NOT modelled; they are only explored by the history runner (harness/cmd/c14): real export → validation →
  InitChain on a fresh app → re-export compared module by module → common follow-up blocks → invariants.

  Only property statements live here; helper lemmas are in KavaVerif/Proofs/GenesisModels.lean.
-/
import KavaVerif.Proofs.GenesisModels
import KavaVerif.Proofs.GenesisMore
import KavaVerif.Model.BlockSafety
set_option linter.unusedSimpArgs false
set_option linter.unusedVariables false

namespace KV.Gx
open List

/-- the generated conversion factor is the 10^12 of the property text -/
theorem C14_conversion_factor : C = 10 ^ 12 := by decide

/-- "import order respects cross-module reads" (app/app.go SetOrderInitGenesis, regenerated): accounts and
    balances exist before any Kava module is imported, x/bank before precisebank compares its reserve,
    pricefeed before cdp reads prices, cdp before incentive reads cdp params, savings/hard before earn's
    strategies, and the crisis module (which asserts all invariants at genesis) last -/
theorem C14_import_order :
    let o := KV.Gen.C02.initGenesisOrder
    KV.Safe.before o "authtypes.ModuleName" "banktypes.ModuleName" = true ∧
    KV.Safe.before o "banktypes.ModuleName" "kavadisttypes.ModuleName" = true ∧
    KV.Safe.before o "banktypes.ModuleName" "precisebanktypes.ModuleName" = true ∧
    KV.Safe.before o "pricefeedtypes.ModuleName" "cdptypes.ModuleName" = true ∧
    KV.Safe.before o "cdptypes.ModuleName" "incentivetypes.ModuleName" = true ∧
    KV.Safe.before o "hardtypes.ModuleName" "earntypes.ModuleName" = true ∧
    KV.Safe.before o "savingstypes.ModuleName" "earntypes.ModuleName" = true ∧
    KV.Safe.before o "precisebanktypes.ModuleName" "crisistypes.ModuleName" = true ∧
    o.getLast? = some "crisistypes.ModuleName" := by decide +kernel

/-! ## precisebank -/

/-- export → validate → import reproduces the state, for every state satisfying the C03 invariant
    (`reserve` = the module account's ukava balance, exported and imported by x/bank) -/
theorem C14_precisebank_roundtrip (s : PBState) (reserve : Int) (h : PBInv s reserve) :
    pbValidate (pbExport s) = true ∧ pbInit (pbExport s) reserve = some s := by
  obtain ⟨hs, hr, h0, h1, hres⟩ := h
  have hv : pbValidate (pbExport s) = true := by
    unfold pbValidate pbExport pbTotal
    simp only [Bool.and_eq_true, decide_eq_true_eq]
    refine ⟨⟨⟨⟨?_, noDup_of_sorted _ hs⟩, h0⟩, h1⟩, ?_⟩
    · apply all_of_forall
      intro b hb
      have := hr b hb
      simp only [Bool.and_eq_true, decide_eq_true_eq]
      exact this
    · rw [← hres]; exact Int.mul_emod_left reserve C
  refine ⟨hv, ?_⟩
  unfold pbInit
  simp only [hv, Bool.not_true, Bool.false_eq_true, ite_false]
  have ht : pbTotal (pbExport s) = reserve * C := by unfold pbTotal pbExport; simp only; omega
  simp only [ht, bne_self_eq_false, Bool.false_eq_true, ite_false]
  unfold pbExport
  simp only [fromList_sorted _ hs]

/-- re-export after import is the identical document -/
theorem C14_precisebank_reexport (s s' : PBState) (reserve : Int) (h : PBInv s reserve)
    (hi : pbInit (pbExport s) reserve = some s') : pbExport s' = pbExport s := by
  rw [(C14_precisebank_roundtrip s reserve h).2] at hi
  cases hi; rfl

/-- non-vacuity: two fractional balances, a remainder, reserve 1 ukava -/
example : PBInv ⟨[(3, 400000000000), (7, 599999999990)], 10⟩ 1 := by
  refine ⟨?_, ?_, by decide, by decide, by decide⟩
  · unfold Sorted; simp
  · intro b hb; simp only [List.mem_cons, List.mem_nil_iff, or_false] at hb
    rcases hb with rfl | rfl <;> decide

/-- the reserve hypothesis is needed: import refuses a state whose reserve does not back the fractions -/
theorem C14_precisebank_unbacked_rejected :
    pbInit (pbExport ⟨[(3, 400000000000), (7, 600000000000)], 0⟩) 2 = none := by decide

/-! ## savings -/

theorem C14_savings_roundtrip (s : SavState) (h : SavInv s) :
    savValidate (savExport s) = true ∧ savInit (savExport s) = some s := by
  obtain ⟨hd, hs, hc⟩ := h
  have hv : savValidate (savExport s) = true := by
    unfold savValidate savExport
    simp only [Bool.and_eq_true]
    exact ⟨⟨hd, all_of_forall _ _ hc⟩, noDup_of_sorted _ hs⟩
  refine ⟨hv, ?_⟩
  unfold savInit
  simp only [hv, Bool.not_true, Bool.false_eq_true, ite_false]
  unfold savExport
  simp only [fromList_sorted _ hs]

example : SavInv ⟨[1, 2], [(4, [(1, 10), (2, 5)]), (9, [(2, 1)])]⟩ := by
  refine ⟨by decide, ?_, ?_⟩
  · unfold Sorted; simp
  · intro d hd; simp only [List.mem_cons, List.mem_nil_iff, or_false] at hd
    rcases hd with rfl | rfl <;> decide

/-! ## swap -/

theorem C14_swap_roundtrip (s : SwapState) (h : SwapInv s) :
    swapValidate (swapExport s) = true ∧ swapInit (swapExport s) = some s := by
  obtain ⟨hp, hsh, hpool, hshare⟩ := h
  have hv : swapValidate (swapExport s) = true := by
    unfold swapValidate swapExport
    simp only [Bool.and_eq_true]
    refine ⟨⟨⟨⟨⟨?_, noDup_of_sorted _ hp⟩, ?_⟩, noDup_of_sorted _ hsh⟩, ?_⟩, ?_⟩
    · apply all_of_forall; intro p hpm
      have := hpool p hpm
      simp only [Bool.and_eq_true, decide_eq_true_eq]
      exact ⟨⟨this.1, this.2.1⟩, this.2.2.1⟩
    · apply all_of_forall; intro sh hm
      simp only [decide_eq_true_eq]; exact (hshare sh hm).1
    · apply all_of_forall; intro p hpm
      simp only [decide_eq_true_eq]; exact (hpool p hpm).2.2.2
    · apply all_of_forall; intro sh hm
      simp only [List.contains_iff_mem]; exact (hshare sh hm).2
  refine ⟨hv, ?_⟩
  unfold swapInit
  simp only [hv, Bool.not_true, Bool.false_eq_true, ite_false]
  unfold swapExport
  simp only [fromList_sorted _ hp, fromList_sorted _ hsh]

/-- non-vacuity: one pool with two depositors -/
example : SwapInv ⟨[(5, ⟨1000, 2000, 30⟩)], [(11, (5, 10)), (12, (5, 20))]⟩ := by
  refine ⟨by unfold Sorted; simp, by unfold Sorted; simp, ?_, ?_⟩
  · intro p hp; simp only [List.mem_cons, List.mem_nil_iff, or_false] at hp
    subst hp; decide
  · intro sh hs; simp only [List.mem_cons, List.mem_nil_iff, or_false] at hs
    rcases hs with rfl | rfl <;> decide

/-- the pool-shares invariant is needed: a state whose depositor shares do not add up is refused on import -/
theorem C14_swap_share_mismatch_rejected :
    swapInit (swapExport ⟨[(5, ⟨1000, 2000, 30⟩)], [(11, (5, 10))]⟩) = none := by decide

/-! ## bep3 -/

theorem C14_bep3_roundtrip (s : Bep3State) (h : Bep3Inv s) :
    bep3Validate (bep3Export s) = true ∧ bep3Init (bep3Export s) = some s := by
  obtain ⟨hs, hamt, hbb, hlt, hin, hout, hc0, hi0, ho0, hcl, hil, hicl, hol⟩ := h
  have hv : bep3Validate (bep3Export s) = true := by
    unfold bep3Validate bep3Export
    simp only [Bool.and_eq_true, decide_eq_true_eq]
    refine ⟨⟨⟨⟨noDup_of_sorted _ hs, ?_⟩, hi0⟩, ho0⟩, hc0⟩
    apply all_of_forall; intro x hx
    simp only [decide_eq_true_eq]; exact hamt x hx
  refine ⟨hv, ?_⟩
  unfold bep3Init
  simp only [hv, Bool.not_true, Bool.false_eq_true, ite_false]
  unfold bep3Export
  simp only [← hin, ← hout, bne_self_eq_false, Bool.false_eq_true, ite_false]
  have hg : (decide (s.supply.current > s.limit) || decide (s.supply.incoming > s.limit) ||
      decide (s.supply.incoming + s.supply.current > s.limit) || decide (s.supply.outgoing > s.limit)) = false := by
    simp only [Bool.or_eq_false_iff, decide_eq_false_iff_not]
    omega
  simp only [hg, Bool.false_eq_true, ite_false, fromList_sorted _ hs, ← hbb, ← hlt]

/-- the derived indexes of the imported state are those of the original: they are functions of the swaps -/
theorem C14_bep3_indexes_rebuilt (s s' : Bep3State) (h : Bep3Inv s) (hi : bep3Init (bep3Export s) = some s') :
    s'.byBlock = s.byBlock ∧ s'.longterm = s.longterm := by
  rw [(C14_bep3_roundtrip s h).2] at hi
  cases hi; exact ⟨rfl, rfl⟩

/-- non-vacuity: an open incoming swap, an expired outgoing one (unrefunded) and a completed one -/
example : Bep3Inv ⟨[(1, ⟨true, .open_, 500, 120, 0⟩), (2, ⟨false, .expired, 70, 90, 0⟩), (3, ⟨true, .completed, 40, 80, 85⟩)],
    [(120, 1)], [(85, 3)], ⟨500, 70, 1000⟩, 5000, 1700000000⟩ := by
  refine ⟨by unfold Sorted; simp, ?_, by decide, by decide, by decide, by decide, by decide, by decide, by decide,
    by decide, by decide, by decide, by decide⟩
  intro x hx; simp only [List.mem_cons, List.mem_nil_iff, or_false] at hx
  rcases hx with rfl | rfl | rfl <;> decide

/-- the supply-accounting invariant is needed: a supply record that disagrees with the swaps is refused -/
theorem C14_bep3_supply_mismatch_rejected :
    bep3Init (bep3Export ⟨[(1, ⟨true, .open_, 500, 120, 0⟩)], [(120, 1)], [], ⟨499, 0, 0⟩, 5000, 0⟩) = none := by decide

/-! # Further modules (Model/GenesisMore.lean)

  kavadist, community, issuance, auction, committee, incentive, hard, pricefeed, cdp: round trip for every state that
  satisfies the stated invariant; "derived indexes are rebuilt" statements; rejected witnesses; and, where a module's
  export walks its PARAMETERS instead of its store, the counterexample showing that a state whose parameters no longer
  mention a stored record (delisted money market, deactivated price market) does not survive — the invariant is a real
  hypothesis there, not a property of every reachable state.  For kavadist the round trip is proved INCLUDING the
  inactive state, and the "restore the previous block time only while active" import is shown not to round-trip. -/

/-! ## kavadist -/

/-- export → validate → import reproduces the kavadist state — parameters AND the recorded previous block time —
    for every reachable state, whether minting is active or not -/
theorem C14_kavadist_roundtrip (s : KdState) (h : KdInv s) :
    kdValidate (kdExport s) = true ∧ kdInit (kdExport s) = some s := by
  obtain ⟨hp, ht⟩ := h
  have hv : kdValidate (kdExport s) = true := by
    unfold kdValidate kdExport
    simp only [Bool.and_eq_true, decide_eq_true_eq]
    refine ⟨hp, ?_⟩
    cases hs : s.prev with
    | none => simp [kdDefaultPrev, goZeroTime]
    | some t => simpa using (ht t hs).2
  refine ⟨hv, ?_⟩
  unfold kdInit
  simp only [hv, Bool.not_true, Bool.false_eq_true, ite_false]
  obtain ⟨a, ps, pv⟩ := s
  cases pv with
  | none => simp [kdExport]
  | some t =>
    have := (ht t rfl).1
    simp [kdExport, this]

/-- in particular a chain exported while minting is switched OFF keeps the time recorded while it was on -/
theorem C14_kavadist_inactive_keeps_time (ps : List KdPeriod) (t : Int) (h : KdInv ⟨false, ps, some t⟩) :
    kdInit (kdExport ⟨false, ps, some t⟩) = some ⟨false, ps, some t⟩ :=
  (C14_kavadist_roundtrip _ h).2

/-- re-export after import is the identical document -/
theorem C14_kavadist_reexport (s s' : KdState) (h : KdInv s) (hi : kdInit (kdExport s) = some s') :
    kdExport s' = kdExport s := by
  rw [(C14_kavadist_roundtrip s h).2] at hi; cases hi; rfl

/-- the "only while active" variant of the import does NOT round-trip: every reachable inactive state with a
    recorded time comes back without it (and re-exports the default time) -/
theorem C14_kavadist_only_when_active_loses_time (ps : List KdPeriod) (t : Int) (h : KdInv ⟨false, ps, some t⟩) :
    kdInitOnlyWhenActive (kdExport ⟨false, ps, some t⟩) = some ⟨false, ps, none⟩ ∧
    kdInitOnlyWhenActive (kdExport ⟨false, ps, some t⟩) ≠ some ⟨false, ps, some t⟩ ∧
    (kdExport ⟨false, ps, none⟩).prev = kdDefaultPrev := by
  have hv : kdValidate (kdExport ⟨false, ps, some t⟩) = true := (C14_kavadist_roundtrip _ h).1
  have h1 : kdInitOnlyWhenActive (kdExport ⟨false, ps, some t⟩) = some ⟨false, ps, none⟩ := by
    unfold kdInitOnlyWhenActive
    simp only [hv, Bool.not_true, Bool.false_eq_true, ite_false]
    simp [kdExport]
  refine ⟨h1, ?_, rfl⟩
  rw [h1]; intro hc; cases hc

/-- … and the two chains then behave differently: once governance switches minting back on, the original mints for
    the time since the recorded block, the variant's import mints for nothing -/
theorem C14_kavadist_only_when_active_behaviour (ps : List KdPeriod) (t now : Int) (hnow : t < now) :
    0 < kdElapsed (kdActivate ⟨false, ps, some t⟩) now ∧ kdElapsed (kdActivate ⟨false, ps, none⟩) now = 0 := by
  simp [kdElapsed, kdActivate]; omega

/-- non-vacuity: minting off, one period, a recorded block time -/
example : KdInv ⟨false, [⟨1704067200, 1767225600, 1000000001547125958⟩], some 1704070000⟩ := by
  refine ⟨by decide, ?_⟩
  intro t ht; cases ht; exact ⟨by decide, by decide⟩

/-! ## community -/

theorem C14_community_roundtrip (s : CmState) (h : CmInv s) :
    cmValidate (cmExport s) = true ∧ cmInit (cmExport s) = some s := by
  refine ⟨h, ?_⟩
  unfold CmInv cmValidate at h
  simp only [Bool.and_eq_true, decide_eq_true_eq] at h
  unfold cmInit cmExport
  simp [h.1.1.1.1, h.1.1.1.2]

example : CmInv ⟨⟨goZeroTime, 744191000000000000000000, 0⟩, 1704070000, 250000000000000000⟩ := by
  unfold CmInv; decide

/-- a negative rate is refused by the import (`SetParams` panics) -/
theorem C14_community_negative_rate_rejected : cmInit ⟨⟨goZeroTime, -1, 0⟩, goZeroTime, 0⟩ = none := by decide

/-! ## issuance -/

theorem C14_issuance_roundtrip (s : IssState) (h : IssInv s) :
    issValidate (issExport s) = true ∧ issInit (issExport s) = some s := by
  obtain ⟨hd, hs, hv, hr⟩ := h
  have hval : issValidate (issExport s) = true := by
    unfold issValidate issExport
    simp only [Bool.and_eq_true]
    refine ⟨hd, ?_⟩
    apply all_of_forall; intro x hx
    simp only [Bool.and_eq_true, decide_eq_true_eq]; exact hv x hx
  refine ⟨hval, ?_⟩
  unfold issInit
  simp only [hval, Bool.not_true, Bool.false_eq_true, ite_false]
  unfold issExport
  simp only [fromList_sorted _ hs]
  rw [issCreateMissing_noop _ _ hr]

/-- pausing the asset and switching its rate limit off changes nothing: the supply record is kept -/
example : IssInv ⟨[⟨7, true, false⟩, ⟨9, false, true⟩], [(7, ⟨1000, 3600⟩), (9, ⟨0, 0⟩)]⟩ := by
  refine ⟨by decide, by unfold Sorted; simp, ?_, ?_⟩
  · intro x hx; simp only [List.mem_cons, List.mem_nil_iff, or_false] at hx
    rcases hx with rfl | rfl <;> decide
  · intro a ha; simp only [List.mem_cons, List.mem_nil_iff, or_false] at ha
    rcases ha with rfl | rfl <;> decide

/-- the hypothesis "every rate-limited asset has its supply record" is needed: otherwise the import creates one -/
theorem C14_issuance_missing_supply_created :
    issInit (issExport ⟨[⟨9, false, true⟩], []⟩) = some ⟨[⟨9, false, true⟩], [(9, ⟨0, 0⟩)]⟩ := by decide

/-! ## auction -/

theorem C14_auction_roundtrip (s : AucState) (macc : Int) (h : AucInv s macc) :
    aucValidate (aucExport s) = true ∧ aucInit (aucExport s) macc = some s := by
  obtain ⟨hs, ha, hb, hm⟩ := h
  have hv : aucValidate (aucExport s) = true := by
    unfold aucValidate aucExport
    simp only [Bool.and_eq_true]
    refine ⟨⟨?_, noDup_of_sorted _ hs⟩, ?_⟩
    · apply all_of_forall; intro a hm'; simp only [decide_eq_true_eq]; exact (ha a hm').1
    · apply all_of_forall; intro a hm'; simp only [decide_eq_true_eq]; exact (ha a hm').2
  refine ⟨hv, ?_⟩
  unfold aucInit
  simp only [hv, Bool.not_true, Bool.false_eq_true, ite_false]
  unfold aucExport
  simp only [hm, bne_self_eq_false, Bool.false_eq_true, ite_false, fromList_sorted _ hs, ← hb]

/-- the by-time index of the imported state is rebuilt from the auctions -/
theorem C14_auction_index_rebuilt (s s' : AucState) (macc : Int) (h : AucInv s macc)
    (hi : aucInit (aucExport s) macc = some s') : s'.byTime = byTimeOf s.auctions ∧ s'.byTime = s.byTime := by
  rw [(C14_auction_roundtrip s macc h).2] at hi
  cases hi; exact ⟨h.2.2.1, rfl⟩

example : AucInv ⟨12, [(3, ⟨1704070000, 500⟩), (11, ⟨1704060000, 70⟩)], [(1704070000, 3), (1704060000, 11)]⟩ 570 := by
  refine ⟨by unfold Sorted; simp, ?_, by decide, by decide⟩
  intro a ha; simp only [List.mem_cons, List.mem_nil_iff, or_false] at ha
  rcases ha with rfl | rfl <;> decide

/-- the module-account check is needed: auctions not backed by the module account are refused -/
theorem C14_auction_unbacked_rejected : aucInit (aucExport ⟨4, [(3, ⟨100, 500⟩)], [(100, 3)]⟩) 499 = none := by decide

/-- an auction carrying the next id is refused by validation -/
theorem C14_auction_id_not_below_next_rejected : aucInit ⟨3, [(3, ⟨100, 500⟩)]⟩ 500 = none := by decide

/-! ## committee -/

theorem C14_committee_roundtrip (s : CoState) (h : CoInv s) :
    coValidate (coExport s) = true ∧ coInit (coExport s) = some s := by
  obtain ⟨hc, hp, hvo, hpr, hvr⟩ := h
  have hv : coValidate (coExport s) = true := by
    unfold coValidate coExport
    simp only [Bool.and_eq_true]
    refine ⟨⟨⟨noDup_of_sorted _ hc, noDup_of_sorted _ hp⟩, ?_⟩, ?_⟩
    · apply all_of_forall; intro p hm
      simp only [Bool.and_eq_true, decide_eq_true_eq]; exact hpr p hm
    · apply all_of_forall; intro v hm; exact hvr v hm
  refine ⟨hv, ?_⟩
  unfold coInit
  simp only [hv, Bool.not_true, Bool.false_eq_true, ite_false]
  unfold coExport
  simp only [fromList_sorted _ hc, fromList_sorted _ hp, fromList_sorted _ hvo]

example : CoInv ⟨8, [(1, 100), (2, 200)], [(5, (1, 77)), (7, (2, 78))], [(501, (5, 1)), (502, (5, 2)), (701, (7, 1))]⟩ := by
  refine ⟨by unfold Sorted; simp, by unfold Sorted; simp, by unfold Sorted; simp, ?_, ?_⟩
  · intro p hp; simp only [List.mem_cons, List.mem_nil_iff, or_false] at hp
    rcases hp with rfl | rfl <;> decide
  · intro v hv; simp only [List.mem_cons, List.mem_nil_iff, or_false] at hv
    rcases hv with rfl | rfl | rfl <;> decide

/-- a vote of a proposal that does not exist is refused -/
theorem C14_committee_orphan_vote_rejected : coInit ⟨8, [(1, 100)], [(5, (1, 77))], [(601, (6, 1))]⟩ = none := by decide

/-! ## incentive (one reward kind) -/

/-- claims, reward indexes and accrual times are exported from the store and written back record by record; the
    parameters play no part, so reward periods that were ended or removed keep their indexes and claims -/
theorem C14_incentive_roundtrip (s : IncState) (h : IncInv s) :
    incValidate (incExport s) = true ∧ incInit (incExport s) = some s := by
  obtain ⟨ha, hi, hc, ht⟩ := h
  have hv : incValidate (incExport s) = true := by
    unfold incValidate incExport
    simp only [Bool.and_eq_true]
    refine ⟨⟨⟨?_, noDup_of_sorted _ ha⟩, noDup_of_sorted _ hi⟩, noDup_of_sorted _ hc⟩
    apply all_of_forall; intro a hm; simp only [decide_eq_true_eq]; exact ht a hm
  refine ⟨hv, ?_⟩
  unfold incInit
  simp only [hv, Bool.not_true, Bool.false_eq_true, ite_false]
  unfold incExport
  simp only [fromList_sorted _ ha, fromList_sorted _ hi, fromList_sorted _ hc]

/-- non-vacuity: NO reward period left in the parameters, accrual time, indexes and a claim still stored -/
example : IncInv ⟨[], [(4, 1704070000)], [(4, [(1, 2500)])], [(9, ⟨[(1, 77)], [(4, [(1, 2000)])]⟩)]⟩ := by
  refine ⟨by unfold Sorted; simp, by unfold Sorted; simp, by unfold Sorted; simp, ?_⟩
  intro a ha; simp only [List.mem_cons, List.mem_nil_iff, or_false] at ha
  subst ha; decide

/-! ## hard -/

theorem C14_hard_roundtrip (s : HardState) (h : HardInv s) :
    hardValidate (hardExport s) = true ∧ hardInit (hardExport s) = some s := by
  obtain ⟨hm, hmm, ha, hd, hb, hin, hdv, hbv⟩ := h
  have hf : s.accrual.filter (fun a => s.markets.contains a.1) = s.accrual := filter_all _ _ hin
  have hv : hardValidate (hardExport s) = true := by
    unfold hardValidate hardExport
    simp only [hf, Bool.and_eq_true]
    exact ⟨⟨⟨⟨⟨hm, noDup_of_sorted _ ha⟩, noDup_of_sorted _ hd⟩, noDup_of_sorted _ hb⟩,
      all_of_forall _ _ hdv⟩, all_of_forall _ _ hbv⟩
  refine ⟨hv, ?_⟩
  unfold hardInit
  simp only [hv, Bool.not_true, Bool.false_eq_true, ite_false]
  unfold hardExport
  simp only [hf, fromList_sorted _ ha, fromList_sorted _ hd, fromList_sorted _ hb]
  obtain ⟨m, mm, ac, dp, bw, ts, tb, tr⟩ := s
  simp only at hmm
  subst hmm; rfl

example : HardInv ⟨[2, 5], [2, 5], [(2, ⟨1704070000, 1000000000000000000, 1020000000000000000⟩), (5, ⟨1704070000, 1003000000000000000, 1000000000000000000⟩)],
    [(40, [(2, 10), (5, 7)])], [(40, [(5, 3)])], [(2, 10), (5, 7)], [(5, 3)], []⟩ := by
  refine ⟨by decide, rfl, by unfold Sorted; simp, by unfold Sorted; simp, by unfold Sorted; simp, ?_, ?_, ?_⟩
  · intro a ha; simp only [List.mem_cons, List.mem_nil_iff, or_false] at ha
    rcases ha with rfl | rfl <;> decide
  · intro d hd; simp only [List.mem_cons, List.mem_nil_iff, or_false] at hd
    subst hd; decide
  · intro d hd; simp only [List.mem_cons, List.mem_nil_iff, or_false] at hd
    subst hd; decide

/-- the hypothesis "accrual records only for listed markets" is needed, and it is NOT an invariant of the chain:
    after governance delists market 5 (deposits and interest factors still stored) the export drops its accrual time
    and interest factors, and the imported state differs from the exported one -/
theorem C14_hard_delisted_market_lost :
    let s : HardState := ⟨[2], [2, 5], [(2, ⟨100, 1000000000000000000, 1000000000000000000⟩), (5, ⟨100, 1003000000000000000, 1000000000000000000⟩)],
      [(40, [(5, 7)])], [], [(5, 7)], [], []⟩
    hardInit (hardExport s) = some ⟨[2], [2], [(2, ⟨100, 1000000000000000000, 1000000000000000000⟩)], [(40, [(5, 7)])], [], [(5, 7)], [], []⟩ ∧
    hardInit (hardExport s) ≠ some s := by
  decide

/-! ## pricefeed -/

/-- import at block time `now`: unexpired posts are kept exactly, expired ones are dropped (inert), and the current
    prices are the aggregate of the unexpired posts of the ACTIVE markets — whatever the aggregate function -/
theorem C14_pricefeed_import (agg : List Int → Option Int) (now : Int) (s : PfState) (h : Sorted s.posts) :
    (pfInit agg now (pfExport s)).posts = livePosts now s.posts ∧
    (pfInit agg now (pfExport s)).markets = s.markets ∧
    (pfInit agg now (pfExport s)).current = currentOf agg s.markets (livePosts now s.posts) := by
  have hl : Sorted (livePosts now s.posts) := by
    unfold Sorted livePosts at *
    exact h.sublist List.filter_sublist
  unfold pfInit pfExport
  simp only [fromList_sorted _ hl, and_self]

/-- with no expired post and current prices as the begin/end blockers leave them for active markets, the round trip
    is exact -/
theorem C14_pricefeed_roundtrip (agg : List Int → Option Int) (now : Int) (s : PfState) (h : PfInv agg now s)
    (hlive : ∀ x ∈ s.posts, now < x.2.expiry) : pfInit agg now (pfExport s) = s := by
  obtain ⟨hs, hc⟩ := h
  have hf : livePosts now s.posts = s.posts := by
    unfold livePosts; apply filter_all; intro x hx; simp only [decide_eq_true_eq]; exact hlive x hx
  obtain ⟨m, p, c⟩ := s
  simp only at hf hc hs
  rw [hf] at hc
  unfold pfInit pfExport
  simp only [hf, fromList_sorted _ hs, ← hc]

/-- re-export after import = the export without the expired posts -/
theorem C14_pricefeed_reexport (agg : List Int → Option Int) (now : Int) (s : PfState) (h : Sorted s.posts) :
    pfExport (pfInit agg now (pfExport s)) = ⟨s.markets, livePosts now s.posts⟩ := by
  have := C14_pricefeed_import agg now s h
  unfold pfExport at *
  simp only [this.1]
  rfl

/-- a DEACTIVATED market keeps its last current price in the store, but the import recomputes current prices for
    active markets only: the frozen price does not survive export/import -/
theorem C14_pricefeed_deactivated_price_lost :
    let agg : List Int → Option Int := fun l => l.head?
    let s : PfState := ⟨[(3, false)], [(301, ⟨3, 2000, 500⟩)], [(3, 2000)]⟩
    pfInit agg 100 (pfExport s) = ⟨[(3, false)], [(301, ⟨3, 2000, 500⟩)], []⟩ ∧ pfInit agg 100 (pfExport s) ≠ s := by
  decide

/-! ## cdp -/

theorem C14_cdp_roundtrip (s : CdpState) (h : CdpInv s) :
    cdpValidate (cdpExport s) = true ∧ cdpInit (cdpExport s) = some s := by
  obtain ⟨ht, hc, hd, hp, ha, hcv, hdv, hpv, hav, ho, hr⟩ := h
  have hfp : s.principals.filter (fun a => s.types.contains a.1) = s.principals :=
    filter_all _ _ (fun p hm => (hpv p hm).2)
  have hfa : s.accum.filter (fun a => s.types.contains a.1) = s.accum := filter_all _ _ hav
  have hv : cdpValidate (cdpExport s) = true := by
    unfold cdpValidate cdpExport
    simp only [hfp, hfa, Bool.and_eq_true]
    refine ⟨⟨⟨⟨⟨⟨⟨ht, noDup_of_sorted _ hc⟩, noDup_of_sorted _ hd⟩, noDup_of_sorted _ hp⟩, noDup_of_sorted _ ha⟩, ?_⟩, ?_⟩, ?_⟩
    · apply all_of_forall; intro c hm
      have := hcv c hm
      simp only [Bool.and_eq_true, decide_eq_true_eq]; exact ⟨⟨this.1, this.2.1⟩, this.2.2.1⟩
    · apply all_of_forall; intro d hm; simp only [decide_eq_true_eq]; exact hdv d hm
    · apply all_of_forall; intro p hm; simp only [decide_eq_true_eq]; exact (hpv p hm).1
  refine ⟨hv, ?_⟩
  unfold cdpInit
  simp only [hv, Bool.not_true, Bool.false_eq_true, ite_false]
  have hany : (cdpExport s).cdps.any (fun c => c.1 == (cdpExport s).nextId) = false := by
    apply any_false_of_forall; intro c hm
    have : c.1 ≠ s.nextId := (hcv c hm).2.2.2
    simpa [cdpExport] using this
  simp only [hany, Bool.false_eq_true, ite_false]
  unfold cdpExport
  simp only [hfp, hfa, fromList_sorted _ hc, fromList_sorted _ hd, fromList_sorted _ hp, fromList_sorted _ ha, ← ho, ← hr]

/-- the owner index and the collateral-ratio index of the imported state are rebuilt from the cdps -/
theorem C14_cdp_indexes_rebuilt (s s' : CdpState) (h : CdpInv s) (hi : cdpInit (cdpExport s) = some s') :
    s'.ownerIndex = ownerIndexOf s.cdps ∧ s'.ratioIndex = ratioIndexOf s.cdps := by
  rw [(C14_cdp_roundtrip s h).2] at hi
  cases hi; exact ⟨h.2.2.2.2.2.2.2.2.2.1, h.2.2.2.2.2.2.2.2.2.2⟩

example : CdpInv ⟨[1, 2], 9, [(1003, ⟨40, 1, 5000, 1000, 3⟩), (2007, ⟨41, 2, 900, 100, 0⟩)], [(300040, 5000), (700041, 900)],
    [(1, 1003), (2, 100)], [(1, ⟨1704070000, 1000573959632388397⟩), (2, ⟨1704070000, 1000000000000000000⟩)],
    [(40, 1003), (41, 2007)], [(1, 4985044865403788634, 1003), (2, 9000000000000000000, 2007)]⟩ := by
  refine ⟨by decide, by unfold Sorted; simp, by unfold Sorted; simp, by unfold Sorted; simp, by unfold Sorted; simp,
    ?_, ?_, ?_, ?_, by decide, by decide⟩
  · intro c hc; simp only [List.mem_cons, List.mem_nil_iff, or_false] at hc
    rcases hc with rfl | rfl <;> decide
  · intro d hd; simp only [List.mem_cons, List.mem_nil_iff, or_false] at hd
    rcases hd with rfl | rfl <;> decide
  · intro p hp; simp only [List.mem_cons, List.mem_nil_iff, or_false] at hp
    rcases hp with rfl | rfl <;> decide
  · intro a ha; simp only [List.mem_cons, List.mem_nil_iff, or_false] at ha
    rcases ha with rfl | rfl <;> decide

/-- a cdp carrying the next id is refused by the import -/
theorem C14_cdp_starting_id_taken_rejected :
    cdpInit ⟨[1], 1003, [(1003, ⟨40, 1, 5000, 1000, 0⟩)], [], [(1, 1000)], [(1, ⟨100, 1000000000000000000⟩)]⟩ = none := by decide

end KV.Gx
