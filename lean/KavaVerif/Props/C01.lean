/-
  C01 — Deterministic replication: the same blocks give the same state and results.

  "Given the same genesis and the same ordered blocks of transactions, every node computes the same
   application hash, the same per-transaction results and the same events at every height. This holds
   across independent replicas, across repeated executions inside one process, and for a node that is
   restarted from its committed database at any height and then continues."

  A Lean function is deterministic by construction, so the theorems here are about the *enumerable
  sources* of nondeterminism in the Go code, listed from the source on every run by tools/extract/c01.go:
    * every `range` over a map (Generated/C01MapRanges.lean) must be a reviewed site whose loop body still has
      an order-independent shape, and for each order-sensitive shape the semantic fact is proved: the
      transcribed loop is invariant under every permutation of the map's entries;
    * wall clock, randomness, goroutines, package-level mutable state, keeper-level caches, sticky closure
      variables, sort calls (Generated/C01Sources.lean) must stay inside the reviewed tables.
  PARTIAL: that the Go runtime, the SDK, IAVL/goleveldb and protobuf add no other nondeterminism is not
  modelled; it is explored by the replica / restart differential of harness/cmd/c01.

  Only property statements live here; helper lemmas are in KavaVerif/Proofs/Determinism.lean.
-/
import KavaVerif.Proofs.Determinism
set_option linter.unusedSimpArgs false
set_option linter.unusedVariables false

namespace KV.Det
open KV.Gen.C01 List

/-! ## obligation tables over the regenerated source facts -/

/-- "maps are never iterated for effect without sorting keys first": every map range found in consensus
    code is a reviewed site, and its body still has a shape its reviewed class admits. A new map range, a
    removed sort, or a side effect added to a loop body changes the generated table and this stops checking. -/
theorem C01_all_sites_discharged : ∀ s ∈ mapRanges, dischargedSite s = true := by decide

/-- non-vacuity: the translator found the sites (the scan is not empty) and scanned the whole tree -/
theorem C01_sites_nonempty : 20 ≤ mapRanges.length ∧ 400 ≤ rangeStmtsScanned ∧ 2000 ≤ functionsScanned := by decide

/-- every order-sensitive reviewed site names the lemma (below) that discharges it -/
theorem C01_reviewed_sites_name_their_lemma :
    ∀ e ∈ expected, (e.cls = .sortedBeforeUse ∨ e.cls = .commutativeFold ∨ e.cls = .genesisValidationErrorTextOnly) →
      e.lemma ≠ "" := by decide

/-- "block time comes from the header, never the wall clock": every `time.Now()` in x/ and app/ is a direct
    argument of a `telemetry.*` call -/
theorem C01_wall_clock_only_feeds_telemetry : ∀ c ∈ timeNowCalls, c.2.2 = "telemetry" := by decide +kernel

/-- "the same on every node" also means: independent of the HOST's time zone.  `time.Unix` & co. return times
    in `time.Local`; calendar fields (`Day`, `Hour`, `Month`, `AddDate`) of such a value differ between hosts.
    Every call that builds a time in the host's zone (or consults its zone database) in x/ and app/ is either
    converted to UTC at once or one of the reviewed sites below: the four `GetDeadline` methods of x/swap
    messages, whose result is only ever compared as an instant (`DeadlineExceeded`: `blockTime.Unix() >= Deadline`). -/
theorem C01_no_host_time_zone :
    ∀ c ∈ localTimeCalls, c.2.2.endsWith ":utc" = true ∨
      c ∈ [("x/swap/types/msg.go", "MsgDeposit.GetDeadline", "time.Unix:local"),
           ("x/swap/types/msg.go", "MsgWithdraw.GetDeadline", "time.Unix:local"),
           ("x/swap/types/msg.go", "MsgSwapExactForTokens.GetDeadline", "time.Unix:local"),
           ("x/swap/types/msg.go", "MsgSwapForExactTokens.GetDeadline", "time.Unix:local")] := by decide +kernel

/-- randomness appears only in the test helper and the client-side bep3 secret generator -/
theorem C01_no_randomness_in_consensus_code : ∀ r ∈ randUses, (r.1, r.2.1) ∈ randAllowed := by decide

/-- no goroutine and no `select` in x/ and app/ -/
theorem C01_no_goroutines : goAndSelect = [] := by decide

/-- "no keeper-level caches": no package-level variable is written outside `init`, and every keeper field
    is a store key, codec, keeper, subspace, hook set or router, or one of the reviewed constructor-time
    constants -/
theorem C01_no_memory_only_state :
    pkgVarWrites = [] ∧
    ∀ f ∈ keeperFields, f.2.2 ∈ ["storeKey", "codec", "keeper", "subspace", "hooks", "router"] ∨
      (f.1, f.2.1) ∈ keeperFieldAllowed := by decide +kernel

/-- the only variables captured and written by invariant closures are the nine known sticky `broken` flags -/
theorem C01_sticky_closure_variables_reviewed : ∀ c ∈ invariantCaptures, c ∈ stickyAllowed := by decide

/-- every `sort.*` call site has been reviewed for tie handling -/
theorem C01_sort_sites_reviewed : ∀ c ∈ sortCalls, sortSiteReviewed c.1 c.2.1 = true := by decide

/-! ## semantic lemmas: the transcribed loops do not depend on the iteration order -/

/-- commutativeFold, general form: a fold whose step is right-commutative gives the same result for every
    permutation of the entries -/
theorem C01_fold_perm_invariant {α β : Type} (f : β → α → β) (hc : ∀ z x y, f (f z x) y = f (f z y) x)
    (l l' : List α) (h : l.Perm l') (a : β) : l.foldl f a = l'.foldl f a :=
  foldl_perm_of_rcomm f hc h a

/-- sortedBeforeUse, general form: sorting by a total, transitive, antisymmetric order is canonical -/
theorem C01_sort_canonical {α : Type} (le : α → α → Bool)
    (htrans : ∀ a b c, le a b = true → le b c = true → le a c = true)
    (htotal : ∀ a b, (le a b || le b a) = true)
    (hanti : ∀ a b, le a b = true → le b a = true → a = b)
    (l l' : List α) (h : l.Perm l') : l.mergeSort le = l'.mergeSort le :=
  sort_perm_canonical le htrans htotal hanti h

/-- `ValuationMap.Sum` (x/hard/types/liquidation.go) -/
theorem C01_site_valuation_sum_perm_invariant (l l' : List (String × Int)) (h : l.Perm l') :
    valuationSum l = valuationSum l' := by
  unfold valuationSum
  exact foldl_perm_of_rcomm _ (fun z x y => by omega) h 0

example : valuationSum [("bnb", 5), ("usdx", 7)] = valuationSum [("usdx", 7), ("bnb", 5)] := by decide

/-- second validator loop of `TallyHandler.Tally` (app/tally_handler.go) -/
theorem C01_site_tally_validators_perm_invariant (t0 : Tally) (l l' : List (String × ValEntry)) (h : l.Perm l') :
    tallyValidators t0 l = tallyValidators t0 l' := by
  unfold tallyValidators
  refine foldl_perm_of_rcomm _ ?_ h t0
  intro z x y
  unfold tallyStep
  by_cases hx : x.2.voted <;> by_cases hy : y.2.voted <;>
    simp only [hx, hy, Bool.not_true, Bool.not_false, Bool.false_eq_true, ite_true, ite_false, Tally.mk.injEq] <;>
    omega

example : tallyValidators ⟨0, 0, 0, 0, 0⟩ [("v1", ⟨true, 3, 0, 0, 0, 3⟩), ("v2", ⟨false, 9, 9, 9, 9, 9⟩), ("v3", ⟨true, 0, 0, 2, 0, 2⟩)]
    = ⟨3, 0, 2, 0, 5⟩ := by decide

/-- `validateParamChangesAreAllowed`, loop over the incoming attributes (x/committee/types/permissions.go) -/
theorem C01_site_param_keys_known_perm_invariant (inCurrent : String → Bool)
    (l l' : List (String × String)) (h : l.Perm l') : keysAllKnown inCurrent l = keysAllKnown inCurrent l' := by
  rw [keysAllKnown_eq_all, keysAllKnown_eq_all]
  exact h.all_eq

/-- `validateParamChangesAreAllowed`, loop over the current attributes (x/committee/types/permissions.go) -/
theorem C01_site_param_changes_allowed_perm_invariant (allowed : String → Bool) (incoming : String → Option String)
    (l l' : List (String × String)) (h : l.Perm l') :
    paramChangesAllowed allowed incoming l = paramChangesAllowed allowed incoming l' := by
  rw [paramChangesAllowed_eq_all, paramChangesAllowed_eq_all]
  exact h.all_eq

/-- swap `PoolSharesInvariant` and earn `VaultSharesInvariant` (invariant routes) -/
theorem C01_site_shares_invariant_perm_invariant (b0 : Bool) (l l' : List (String × Int × Int)) (h : l.Perm l') :
    sharesBroken b0 l = sharesBroken b0 l' := by
  rw [sharesBroken_eq_any, sharesBroken_eq_any, h.any_eq]

/-- swap `GenesisState.Validate`: whether genesis is accepted does not depend on the order … -/
theorem C01_site_swap_genesis_accept_perm_invariant (l l' : List (String × Int × Int)) (h : l.Perm l') :
    (swapGenesisCheck l).isSome = (swapGenesisCheck l').isSome := by
  rw [swapGenesisCheck_isSome, swapGenesisCheck_isSome, h.any_eq]

/-- … but the error text (which pool is named) does: two mismatching pools, two orders, two texts.
    Only reached while validating a genesis file (InitChain panics on either text, before any state exists). -/
theorem C01_site_swap_genesis_text_counterexample :
    ∃ l l' : List (String × Int × Int), l.Perm l' ∧ swapGenesisCheck l ≠ swapGenesisCheck l' :=
  ⟨[("a:b", 1, 2), ("c:d", 3, 4)], [("c:d", 3, 4), ("a:b", 1, 2)], by decide, by decide⟩

/-- `ValuationMap.GetSortedKeys`, `removeDuplicates`, `accumulateEarnBkavaRewards`: keys then `sort.Strings` -/
theorem C01_site_sorted_keys_perm_invariant {α : Type} (l l' : List (String × α)) (h : l.Perm l') :
    sortedKeys l = sortedKeys l' := by
  unfold sortedKeys
  exact sort_perm_canonical sle sle_trans sle_total sle_antisymm (h.map _)

example : sortedKeys [("usdx", 1), ("bnb", 2), ("kava", 3)] = sortedKeys [("kava", 3), ("usdx", 1), ("bnb", 2)] :=
  C01_site_sorted_keys_perm_invariant _ _ (by decide)

/-- `NewSelectionsFromMap` (x/incentive/types/multipliers.go) -/
theorem C01_site_selections_perm_invariant (l l' : List (String × String)) (h : l.Perm l') :
    selections l = selections l' := by
  unfold selections
  exact sort_perm_canonical selLe selLe_trans selLe_total selLe_antisymm h

/-- `bkavaByDenom.toCoins` (app/tally_handler.go): for any `Coins.Add` that returns some arrangement of the
    old coins plus the new one (denoms are distinct map keys), the final `Sort()` makes the result canonical -/
theorem C01_site_toCoins_perm_invariant (add : List (String × Int) → String × Int → List (String × Int))
    (hadd : ∀ cs c, (add cs c).Perm (c :: cs))
    (l l' : List (String × Int)) (hk : (l.map (·.1)).Nodup) (h : l.Perm l') :
    toCoins add l = toCoins add l' := by
  unfold toCoins
  have p1 := foldl_add_perm add hadd l []
  have p2 := foldl_add_perm add hadd l' []
  simp only [List.append_nil] at p1 p2
  have hp : (l.foldl add []).Perm (l'.foldl add []) := p1.trans (h.trans p2.symm)
  apply Perm.eq_of_pairwise (le := fun a b => coinLe a b = true)
  · -- antisymmetry holds on the entries because their denoms are pairwise distinct
    intro a b ha hb hab hba
    have ha' : a ∈ l := p1.subset ((mergeSort_perm _ _).subset ha)
    have hb' : b ∈ l := (p2.trans h.symm).subset ((mergeSort_perm _ _).subset hb)
    unfold coinLe at hab hba
    simp only [decide_eq_true_eq] at hab hba
    have hd : a.1 = b.1 := String.le_antisymm hab hba
    exact eq_of_nodup_keys hk ha' hb' hd
  · exact pairwise_mergeSort (fun a b c => by unfold coinLe; simp only [decide_eq_true_eq]; exact String.le_trans)
      (fun a b => by unfold coinLe; simp only [Bool.or_eq_true, decide_eq_true_eq]; exact String.le_total _ _) _
  · exact pairwise_mergeSort (fun a b c => by unfold coinLe; simp only [decide_eq_true_eq]; exact String.le_trans)
      (fun a b => by unfold coinLe; simp only [Bool.or_eq_true, decide_eq_true_eq]; exact String.le_total _ _) _
  · exact (mergeSort_perm _ _).trans (hp.trans (mergeSort_perm _ _).symm)

example : toCoins (fun cs c => c :: cs) [("bkava-b", 2), ("bkava-a", 1)] = toCoins (fun cs c => c :: cs) [("bkava-a", 1), ("bkava-b", 2)] :=
  C01_site_toCoins_perm_invariant _ (fun _ _ => Perm.refl _) _ _ (by decide) (by decide)

end KV.Det
