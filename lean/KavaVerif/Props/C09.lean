/-
  C09 — Incentives: reward = rate × share of total over time; never over-distributed.

  "For every wired reward source (CDP debt, hard deposits and borrows, delegations, swap shares, earn
   deposits) a participant's accrued reward equals the time integral of the reward rate times their share
   of the source total, however blocks and position changes are interleaved, and a change to one
   participant's position never alters rewards already accrued by them or by anyone else. The total
   credited to all participants never exceeds the configured emission for the elapsed reward time, counted
   as the module counts it in whole seconds per block, by more than rounding error (at most one base unit
   per synchronization plus the 18-decimal rounding of the reward index). A claim pays exactly the accrued
   amount times the chosen multiplier out of the incentive account and resets it, so an immediate second
   claim yields nothing, and claims after the claim deadline are refused."

  Model: KavaVerif/Model/Accumulator.lean (accumulator.go, rewards_*.go, claim.go transcribed; one instance
  per source × collateral type × reward denom).  All `Dec` values are 18-decimal mantissas, `P = 10^18`.
  Histories: `Op`, `gstep`, `grun` and the ghost record `Ghost` are defined in
  KavaVerif/Proofs/AccumulatorHist.lean; a failed or panicking operation leaves the state unchanged.
  `Op.change u s'` is what a source module does: the hook (a synchronisation with the PRE-change shares)
  and then the write.  That every share write of the real source modules has this shape is the
  regenerated table `Gen.shareWrites` (C09_all_share_writes_hooked).

  Units: `worth`, `pend2`, `flo` are in 10^-36 reward units (one base unit = P·P).
-/
import KavaVerif.Proofs.AccumulatorHist
import KavaVerif.Generated.C09Hooks
import KavaVerif.Proofs.TieFnIncentive
set_option linter.unusedSimpArgs false
set_option linter.unusedVariables false

namespace KV.Acc
open KV

/-! ## "a change to one participant's position never alters rewards already accrued by them or by anyone else" -/

/-- A synchronisation, a position change or a claim of `u` leaves the global index alone and, for every
    `v ≠ u`, the whole record `(s, i, r)` and the pending reward unchanged. -/
theorem C09_frame (σ σ' : St) (u : Addr) (s' f now ce macc pay : Int)
    (h : sync σ u = .ok σ' ∨ change σ u s' = .ok σ' ∨ claim σ u f now ce macc = .ok (σ', pay)) :
    σ'.I = σ.I ∧ ∀ v, v ≠ u → σ'.u v = σ.u v ∧ pending σ' v = pending σ v := by
  have key : σ'.I = σ.I ∧ ∀ v, v ≠ u → σ'.u v = σ.u v := by
    rcases h with h | h | h
    · obtain ⟨hI, -, -, hoth, -⟩ := worth_sync σ σ' u h
      exact ⟨hI, hoth⟩
    · obtain ⟨σ1, h1, rfl⟩ := change_ok σ σ' u s' h
      obtain ⟨hI, -, -, hoth, -, hiu, -⟩ := worth_sync σ σ1 u h1
      obtain ⟨wI, woth, -⟩ := worth_write σ1 u s' (by rw [hiu, hI])
      exact ⟨by rw [wI, hI], fun v hv => by rw [woth v hv, hoth v hv]⟩
    · obtain ⟨-, σ1, h1, -, -, -, rfl⟩ := claim_ok σ σ' u f now ce macc pay h
      obtain ⟨hI, -, -, hoth, -⟩ := worth_sync σ σ1 u h1
      exact ⟨hI, fun v hv => by simp only [upd, hv, ite_false]; exact hoth v hv⟩
  refine ⟨key.1, fun v hv => ⟨key.2 v hv, ?_⟩⟩
  unfold pending; rw [key.2 v hv, key.1]

/-- `u`'s own already-accrued reward changes only by adding `u`'s own pending amount, computed with the
    shares held BEFORE the change; afterwards nothing is pending for `u`. -/
theorem C09_frame_own (σ σ' : St) (u : Addr) (s' : Int)
    (h : sync σ u = .ok σ' ∨ change σ u s' = .ok σ') :
    (σ'.u u).r = (σ.u u).r + pending σ u ∧ (σ'.u u).i = σ'.I ∧ pending σ' u = 0 := by
  have key : (σ'.u u).r = (σ.u u).r + pending σ u ∧ (σ'.u u).i = σ'.I := by
    rcases h with h | h
    · obtain ⟨hI, -, -, -, -, hiu, hru, -⟩ := worth_sync σ σ' u h
      exact ⟨hru, by rw [hiu, hI]⟩
    · obtain ⟨σ1, h1, rfl⟩ := change_ok σ σ' u s' h
      obtain ⟨hI, -, -, -, -, hiu, hru, -⟩ := worth_sync σ σ1 u h1
      obtain ⟨wI, -, -, -, -, wr, wi⟩ := worth_write σ1 u s' (by rw [hiu, hI])
      exact ⟨by rw [wr, hru], by rw [wi, wI, hiu, hI]⟩
  refine ⟨key.1, key.2, ?_⟩
  unfold pending; rw [key.2, singleReward_same]; rfl

/-! ## "counted as the module counts it in whole seconds per block" — the accrual window -/

/-- One accumulation at a valid block time: it cannot panic, the accrual time moves to `min(end, now)`,
    the seconds counted are those of the window `[clip prev, clip now] ⊆ [start, end]`, a window of
    whole seconds is counted exactly, an empty one counts zero, and nothing accrues when the block lies
    entirely before the start or after the end of the period. -/
theorem C09_window_step (p : Period) (σ : St) (now : Int) (h1 : σ.prev ≤ now) (h2 : p.start ≤ p.stop)
    (h3 : p.stop - p.start ≤ maxDur) :
    ∃ σ', accumulate p σ now = .ok σ' ∧ σ'.prev = min p.stop now ∧ σ'.T = σ.T ∧ σ'.u = σ.u ∧
      accSecs p σ now = goSeconds (clip p now - clip p σ.prev) ∧ 0 ≤ accSecs p σ now ∧
      σ'.I = σ.I + indexIncrement p.rate σ.T (accSecs p σ now) ∧
      p.start ≤ clip p σ.prev ∧ clip p σ.prev ≤ clip p now ∧ clip p now ≤ p.stop ∧
      (now ≤ p.start ∨ p.stop ≤ σ.prev → σ'.I = σ.I) ∧
      (∀ k, 0 ≤ k → clip p now - clip p σ.prev = k * NS → accSecs p σ now = k) := by
  have hok := accumulate_isOk p σ now h1 h2
  cases h : accumulate p σ now with
  | err => rw [h] at hok; cases hok
  | panic => rw [h] at hok; cases hok
  | ok σ' =>
    obtain ⟨hI, hT, hu, hp⟩ := accumulate_ok p σ σ' now h
    have hs : accSecs p σ now = goSeconds (clip p now - clip p σ.prev) := by
      unfold accSecs; rw [elapsed_eq p σ.prev now h1 h2 h3]
    have hm := clip_mono p σ.prev now h1
    refine ⟨σ', rfl, hp, hT, hu, hs, ?_, hI, (clip_range p σ.prev h2).1, hm, (clip_range p now h2).2, ?_, ?_⟩
    · rw [hs]; exact goSeconds_nonneg _ (by omega)
    · intro ho
      have : accSecs p σ now = 0 := by
        unfold accSecs; rw [elapsed_outside p σ.prev now h1 h2 ho]; exact goSeconds_zero
      rw [hI, this, indexIncrement_zero_secs]; omega
    · intro k hk he; rw [hs, he]; exact goSeconds_whole k hk

/-- Over ANY history (any list of block times, with any operations interleaved) the nanosecond windows
    counted at the successive accumulations are exactly the consecutive pieces
    `clip t_b − clip t_{b−1}` of the period: each lies inside `[start, end]`, no instant is counted
    twice and none is skipped; together they add up to the part of the period elapsed so far. -/
theorem C09_window (p : Period) (ops : List Op) (x : St × Ghost)
    (h2 : p.start ≤ p.stop) (h3 : p.stop - p.start ≤ maxDur) (hc : Chain x.1.prev (accTimes ops)) :
    histWindows p x ops = pieces p x.1.prev (accTimes ops) ∧
    (∀ d ∈ histWindows p x ops, 0 ≤ d) ∧
    sumL (histWindows p x ops) = clip p (lastD x.1.prev (accTimes ops)) - clip p x.1.prev := by
  have e := histWindows_eq p ops x x.1.prev h2 h3 ⟨Int.le_refl _, rfl⟩ hc
  refine ⟨e, ?_, ?_⟩
  · rw [e]; exact pieces_nonneg p _ _ hc
  · rw [e]; exact pieces_sum p _ _

/-! ## "The total credited to all participants never exceeds the configured emission … by more than
       rounding error (at most one base unit per synchronization plus the 18-decimal rounding of the
       reward index)" -/

/-- For every history in which each share change is `Op.change` (hook with the pre-change shares, then
    write) and the listed participants hold at most the source total (`Σ s_u ≤ T`; equality when they are all
    the participants — the source module's obligation), after the history

      2·P²·( Σ_u (r_u + pending_u) + claimed )
        ≤ 2·W₀ + Σ_b (2·rate·secs_b·P + T_b) + (#syncs + #users)·(P² + P)

    i.e. in reward units:  credited ≤ credited₀ + Σ_b rate·secs_b + Σ_b T_b·½·10^-18
                                      + (#syncs + #users)·(½ + ½·10^-18),
    where b ranges over the accumulations with `T_b > 0` and `secs_b > 0` (`Ghost.emitted`), `secs_b` is
    the module's whole-second count, `T_b·½·10^-18` is the half-ulp rounding of the index increment and
    each synchronisation (plus the final one per user that turns pending into accrued) rounds by less
    than one base unit. -/
theorem C09_no_over_distribution (p : Period) (us : List Addr) (ops : List Op) (σ0 : St)
    (hr : 0 ≤ p.rate) (hn : us.Nodup) (hs : shares us σ0 ≤ σ0.T) (hi : IdxLe σ0)
    (hh : ∀ o ∈ ops, o.hooked = true) (ho : ∀ o ∈ ops, o.okFor us) :
    2 * P * P * (sumOver us (fun a => ((grun p (σ0, Ghost.zero) ops).1.u a).r + pending (grun p (σ0, Ghost.zero) ops).1 a)
        + (grun p (σ0, Ghost.zero) ops).2.claimed) ≤
      2 * W us σ0 + (grun p (σ0, Ghost.zero) ops).2.emitted
        + ((grun p (σ0, Ghost.zero) ops).2.nsync + us.length) * (P * P + P) ∧
    shares us (grun p (σ0, Ghost.zero) ops).1 ≤ (grun p (σ0, Ghost.zero) ops).1.T := by
  obtain ⟨h1, h2⟩ := grun_phi p us ops (σ0, Ghost.zero) hr hn hs hh ho
  have h3 := grun_idxLe p ops (σ0, Ghost.zero) hr hi
  have h4 := credited_le_W us _ h3
  refine ⟨?_, h2⟩
  generalize grun p (σ0, Ghost.zero) ops = x at *
  simp only [Phi, Ghost.zero, Int.zero_mul, Int.add_zero, Int.sub_zero] at h1
  nlinarith

/-- a fresh source (nothing accrued, every stored index equal to the global one) starts at `W₀ = 0` -/
theorem C09_fresh_start (us : List Addr) (σ0 : St) (h : ∀ a, (σ0.u a).r = 0 ∧ (σ0.u a).i = σ0.I) :
    W us σ0 = 0 ∧ IdxLe σ0 := by
  constructor
  · unfold W
    have : sumOver us (worth σ0) = sumOver us (fun _ => 0) :=
      sumOver_congr us _ _ (fun a _ => by simp only [worth, pend2, (h a).1, (h a).2, Int.sub_self, Int.zero_mul, Int.add_zero])
    rw [this, sumOver_const]; ring
  · intro a; rw [(h a).2]

/-- The premise is necessary: one share write without the hook (`Op.rawWrite`, which the table
    `Gen.shareWrites` shows does not occur in the source modules) lets the credited total exceed the
    bound.  Two users with one share each, 1 unit/s for 10 s, then user 0 raises its shares to 100
    without a synchronisation: 505 units are credited against an emission of 10. -/
theorem C09_unhooked_write_counterexample :
    ¬ (∀ (ops : List Op), (∀ o ∈ ops, o.okFor [0, 1]) →
        let σ0 : St := ⟨0, 2 * P, 0, fun _ => ⟨P, 0, 0⟩⟩
        let x := grun ⟨0, 100 * NS, P⟩ (σ0, Ghost.zero) ops
        2 * P * P * (sumOver [0, 1] (fun a => (x.1.u a).r + pending x.1 a) + x.2.claimed) ≤
          2 * W [0, 1] σ0 + x.2.emitted + (x.2.nsync + 2) * (P * P + P)) := by
  intro h
  have := h [.acc (10 * NS), .rawWrite 0 (100 * P)] (by decide)
  revert this
  decide

/-! ## "a participant's accrued reward equals the time integral of the reward rate times their share of
       the source total, however blocks and position changes are interleaved" -/

/-- For every such history and every participant `a` (shares never negative), what `a` gained —
    accrued + claimed + exact pending, minus what `a` started with — differs from the time integral
    `flo a = Σ_b ⌊rate·secs_b·P·s_a(b) / T_b⌋` (10^-36 units; `s_a(b)`, `T_b` the shares at block b) by at most

      ½·(1 + 10^-18) base units per synchronisation of `a`
      + per accruing block  s_a(b)·(½ + 10^-18)·10^-18 + ½·10^-36   (rounding of the index increment),

    stated two-sided after multiplying by 2P:  |2P·(gained − flo a)| ≤ P·#syncs_a·(P²+P) + slack a,
    `slack a = Σ_b ((P+2)·s_a(b) + P)`.  The rounded pending reward that a synchronisation would credit
    differs from the exact pending reward by at most (P²+P)/2 (last two conjuncts). -/
theorem C09_integral (p : Period) (us : List Addr) (ops : List Op) (σ0 : St) (a : Addr)
    (hr : 0 ≤ p.rate) (hs0 : NonnegShares σ0) (hi : IdxLe σ0)
    (hh : ∀ o ∈ ops, o.hooked = true) (ho : ∀ o ∈ ops, o.okFor us) :
    let x := grun p (σ0, Ghost.zero) ops
    let gained := ((x.1.u a).r + x.2.claimedU a) * P * P + pend2 x.1 a - worth σ0 a
    2 * P * (gained - x.2.flo a) ≤ P * x.2.nsyncU a * (P * P + P) + x.2.slack a ∧
    2 * P * (x.2.flo a - gained) ≤ P * x.2.nsyncU a * (P * P + P) + x.2.slack a ∧
    2 * (((x.1.u a).r + pending x.1 a) * P * P - ((x.1.u a).r * P * P + pend2 x.1 a)) ≤ P * P + P ∧
    2 * (((x.1.u a).r * P * P + pend2 x.1 a) - ((x.1.u a).r + pending x.1 a) * P * P) ≤ P * P + P := by
  intro x gained
  obtain ⟨k1, k2⟩ := grun_integral p us ops (σ0, Ghost.zero) a hr hs0 hh ho
  have h1 : 2 * P * Dv a x - Bv a x ≤ 2 * P * Dv a (σ0, Ghost.zero) - Bv a (σ0, Ghost.zero) := k1
  have h2 : 2 * P * Dv a (σ0, Ghost.zero) + Bv a (σ0, Ghost.zero) ≤ 2 * P * Dv a x + Bv a x := k2
  have e0 : Dv a (σ0, Ghost.zero) = worth σ0 a := by
    simp only [Dv, Ghost.zero, Int.zero_mul, Int.add_zero, Int.sub_zero]
  have b0 : Bv a (σ0, Ghost.zero) = 0 := by
    simp only [Bv, Ghost.zero, Int.zero_mul, Int.mul_zero, Int.add_zero]
  have h3 : IdxLe x.1 := grun_idxLe p ops (σ0, Ghost.zero) hr hi
  obtain ⟨h4, h5⟩ := pending_bound x.1 a (h3 a)
  have hP := P_pos
  rw [e0, b0] at h1 h2
  have eD : Dv a x = worth x.1 a + x.2.claimedU a * P * P - x.2.flo a := rfl
  have eB : Bv a x = P * x.2.nsyncU a * (P * P + P) + x.2.slack a := rfl
  have e : worth x.1 a = (x.1.u a).r * P * P + pend2 x.1 a := rfl
  have eg : gained = ((x.1.u a).r + x.2.claimedU a) * P * P + pend2 x.1 a - worth σ0 a := rfl
  rw [eD, eB, e] at h1 h2
  refine ⟨?_, ?_, ?_, ?_⟩
  · rw [eg]; nlinarith
  · rw [eg]; nlinarith
  · rw [← e]; exact h4
  · rw [← e]; exact h5

/-- each block's contribution to `flo`, `slack` and `emitted` is what the names say (reading aid: the
    ghost accounting of one accruing accumulation) -/
theorem C09_integral_block (p : Period) (σ : St) (g : Ghost) (now : Int) (σ' : St)
    (h : accumulate p σ now = .ok σ') (hT : 0 < σ.T) (hsec : 0 < accSecs p σ now) (a : Addr) :
    let y := gstep p (σ, g) (.acc now)
    y.1 = σ' ∧
    y.2.flo a = g.flo a + p.rate * accSecs p σ now * P * (σ.u a).s / σ.T ∧
    y.2.slack a = g.slack a + ((P + 2) * (σ.u a).s + P) ∧
    y.2.emitted = g.emitted + (2 * p.rate * accSecs p σ now * P + σ.T) ∧
    y.2.nsync = g.nsync ∧ y.2.claimed = g.claimed := by
  simp only [gstep, h, hT, hsec, and_self, ite_true]

/-! ## "A claim pays exactly the accrued amount times the chosen multiplier out of the incentive account
       and resets it, so an immediate second claim yields nothing, and claims after the claim deadline
       are refused." -/

theorem C09_claim (σ : St) (a : Addr) (f now ce macc : Int) :
    (now > ce → claim σ a f now ce macc = .err) ∧
    (∀ σ' pay, claim σ a f now ce macc = .ok (σ', pay) →
      now ≤ ce ∧
      pay = Dec.roundInt (Dec.mul (Dec.ofInt ((σ.u a).r + pending σ a)) ⟨f⟩) ∧
      pay ≠ 0 ∧ pay ≤ macc ∧
      (σ'.u a).r = 0 ∧ (σ'.u a).i = σ'.I ∧ (σ'.u a).s = (σ.u a).s ∧
      σ'.I = σ.I ∧ σ'.T = σ.T ∧ (∀ v, v ≠ a → σ'.u v = σ.u v) ∧
      (∀ f2 now2 ce2 macc2, claim σ' a f2 now2 ce2 macc2 = .err)) := by
  constructor
  · intro h; unfold claim; simp only [h, ite_true]
  · intro σ' pay h
    obtain ⟨hle, σ1, h1, hpay, hp0, hpm, rfl⟩ := claim_ok σ σ' a f now ce macc pay h
    obtain ⟨hI, hT, -, hoth, hsa, hia, hra, -⟩ := worth_sync σ σ1 a h1
    refine ⟨hle, by rw [hpay, hra], hp0, hpm, by simp only [upd, ite_true], ?_, ?_, hI, hT, ?_, ?_⟩
    · simp only [upd, ite_true]; rw [hia, hI]
    · simp only [upd, ite_true]; exact hsa
    · intro v hv; simp only [upd, hv, ite_false]; exact hoth v hv
    · intro f2 now2 ce2 macc2
      unfold claim
      by_cases hn : now2 > ce2
      · simp only [hn, ite_true]
      · simp only [hn, ite_false]
        unfold sync syncWith
        simp only [upd, ite_true, hia, hI, singleReward_same]
        simp only [Int.add_zero, Dec.roundInt, Dec.mul, Dec.ofInt, Int.zero_mul]
        have : chopRound (chopRound 0) = 0 := by decide
        simp only [this, ite_true]

/-! ## one claim object fed by several instances (cdp collateral types, hard supply / borrow denoms, swap
       pools, earn vaults all credit the same `claim.Reward`): "accrued" is the stored reward plus the SUM
       over the instances of the pending reward -/

/-- `Synchronize<Source>Claim` / `GetSynchronized<Source>Claim` (every instance in turn, each continuing
    from the running claim) credits exactly the sum over ALL instances of what each instance's own
    synchronisation would add, sets every stored index to its instance's global index, after which nothing
    is pending on any instance and a repeated synchronisation changes nothing. -/
theorem C09_multi_sync (r r' : Int) (xs ys : List Inst) (h : syncAllFrom r xs = .ok (r', ys)) :
    r' = r + pendingSum xs ∧ ys = xs.map Inst.synced ∧ ys.length = xs.length ∧
    pendingSum ys = 0 ∧ (∀ y ∈ ys, y.pending = 0) ∧ syncAllFrom r' ys = .ok (r', ys) := by
  obtain ⟨e1, e2⟩ := syncAllFrom_ok xs r r' ys h
  subst e2
  exact ⟨e1, rfl, by simp, (pendingSum_synced xs).1, (pendingSum_synced xs).2, syncAllFrom_synced xs r'⟩

/-- Frame between the instances of one claim object: the hook of instance `k` adds instance `k`'s pending
    reward (computed with the shares passed, i.e. the pre-change ones) and moves instance `k`'s stored
    index only; every other instance's entry (index and shares) is untouched, so what is pending there
    stays pending. -/
theorem C09_multi_frame (c c' : MClaim) (k : Nat) (x : Inst) (hx : c.xs[k]? = some x) (h : syncAt c k = .ok c') :
    c'.r = c.r + x.pending ∧ c'.xs[k]? = some x.synced ∧ c'.xs.length = c.xs.length ∧
    (∀ j, j ≠ k → c'.xs[j]? = c.xs[j]?) := by
  unfold syncAt at h
  rw [hx] at h
  simp only at h
  cases hs : singleReward x.i x.I x.s with
  | none => rw [hs] at h; cases h
  | some d =>
    rw [hs] at h
    simp only [Res.ok.injEq] at h
    subst h
    have hk : k < c.xs.length := by
      rcases Nat.lt_or_ge k c.xs.length with hl | hl
      · exact hl
      · rw [List.getElem?_eq_none hl] at hx; cases hx
    have hp : x.pending = d := by unfold Inst.pending; rw [hs]; rfl
    refine ⟨by simp only [hp], ?_, by simp, ?_⟩
    · simp [hk]
    · intro j hj
      simp only [List.getElem?_set]
      have : ¬ k = j := fun e => hj e.symm
      simp [this]

/-- A claim on a claim object fed by several instances: refused after the claim end; otherwise it pays
    `roundInt((stored reward + Σ_instances pending) · multiplier)` ≠ 0 out of the incentive account
    (≤ its balance), resets the reward, leaves every instance synchronised, and the same claim repeated
    immediately is refused for every multiplier / time / balance. -/
theorem C09_multi_claim (c : MClaim) (f now ce macc : Int) :
    (now > ce → mclaim c f now ce macc = .err) ∧
    (∀ c' pay, mclaim c f now ce macc = .ok (c', pay) →
      now ≤ ce ∧
      pay = Dec.roundInt (Dec.mul (Dec.ofInt (c.r + pendingSum c.xs)) ⟨f⟩) ∧
      pay ≠ 0 ∧ pay ≤ macc ∧
      c'.r = 0 ∧ c'.xs = c.xs.map Inst.synced ∧ pendingSum c'.xs = 0 ∧
      (∀ f2 now2 ce2 macc2, mclaim c' f2 now2 ce2 macc2 = .err)) := by
  constructor
  · intro h; unfold mclaim; simp only [h, ite_true]
  · intro c' pay h
    unfold mclaim at h
    by_cases hn : now > ce
    · simp only [hn, ite_true] at h; cases h
    · simp only [hn, ite_false] at h
      cases hs : syncAllFrom c.r c.xs with
      | err => rw [hs] at h; cases h
      | panic => rw [hs] at h; cases h
      | ok p =>
        obtain ⟨amt, ys⟩ := p
        rw [hs] at h
        simp only at h
        obtain ⟨e1, e2⟩ := syncAllFrom_ok c.xs c.r amt ys hs
        by_cases hp0 : Dec.roundInt (Dec.mul (Dec.ofInt amt) ⟨f⟩) = 0
        · simp only [hp0, ite_true] at h; cases h
        · simp only [hp0, ite_false] at h
          by_cases hm : macc < Dec.roundInt (Dec.mul (Dec.ofInt amt) ⟨f⟩)
          · simp only [hm, ite_true] at h; cases h
          · simp only [hm, ite_false, Res.ok.injEq, Prod.mk.injEq] at h
            obtain ⟨rfl, rfl⟩ := h
            refine ⟨by omega, by rw [e1], hp0, by omega, rfl, e2, by simp only [e2]; exact (pendingSum_synced c.xs).1, ?_⟩
            intro f2 now2 ce2 macc2
            unfold mclaim
            by_cases hn2 : now2 > ce2
            · simp only [hn2, ite_true]
            · simp only [hn2, ite_false, e2, syncAllFrom_synced]
              simp only [Dec.roundInt, Dec.mul, Dec.ofInt, Int.zero_mul]
              have : chopRound (chopRound 0) = 0 := by decide
              simp only [this, ite_true]

/-- non-vacuity: stored 5, two instances with 3 and 7 pending, multiplier 0.5: pays roundInt(7.5) = 8
    (half-even), and the loop that restarts from the stored claim at every instance (crediting only the
    last instance) would have paid roundInt(6) = 6 -/
example : (match mclaim ⟨5, [⟨2 * P, 3 * P, P⟩, ⟨P, 7 * P, 0⟩]⟩ (P / 2) 1 2 1000 with
    | .ok (c', pay) => decide (c' = ⟨0, [⟨2 * P, 3 * P, 2 * P⟩, ⟨P, 7 * P, P⟩]⟩ ∧ pay = 8)
    | _ => false) = true := by decide
example : pendingSum [⟨2 * P, 3 * P, P⟩, ⟨P, 7 * P, 0⟩] = 10 ∧ (⟨P, 7 * P, 0⟩ : Inst).pending = 7 := by decide

/-! ## the delegator source: a validator event is a change of every delegator's source shares, hook first

    A delegator's source shares are the tokens delegated to BONDED validators (`GetTotalDelegated`), the total is
    the bonded pool.  A validator being slashed (`BeforeValidatorSlashed`: status and tokens still the old ones),
    leaving the bonded set (`AfterValidatorBeginUnbonding`: already Unbonding, counted explicitly) or entering it
    (`AfterValidatorBonded`: already Bonded, left out explicitly) changes the source shares of every one of its
    delegators at once; the hook synchronises each of them with the shares held BEFORE the event.  In the model
    that is a list of `Op.change` — so the theorems above, which quantify over arbitrary share changes, cover it. -/

/-- a validator event: the listed delegators' new source shares, each written after its hook -/
def validatorEvent (ds : List (Addr × Int)) : List Op := ds.map fun d => Op.change d.1 d.2

/-- the same as one step of the state -/
def changeAll (σ : St) : List (Addr × Int) → Res St
  | [] => .ok σ
  | d :: ds =>
    match change σ d.1 d.2 with
    | .ok σ1 => changeAll σ1 ds
    | .err => .err
    | .panic => .panic

/-- A validator event leaves the global index alone, credits every affected delegator exactly the reward pending
    on the shares it held BEFORE the event (stored index := global index, new shares written), and leaves every
    other participant's record untouched. -/
theorem C09_validator_event (ds : List (Addr × Int)) :
    ∀ (σ σ' : St), (ds.map Prod.fst).Nodup → changeAll σ ds = .ok σ' →
      σ'.I = σ.I ∧
      (∀ d ∈ ds, (σ'.u d.1).r = (σ.u d.1).r + pending σ d.1 ∧ (σ'.u d.1).i = σ.I ∧ (σ'.u d.1).s = d.2) ∧
      (∀ v, v ∉ ds.map Prod.fst → σ'.u v = σ.u v) := by
  induction ds with
  | nil =>
    intro σ σ' _ h
    simp only [changeAll, Res.ok.injEq] at h
    subst h
    exact ⟨rfl, fun d hd => absurd hd List.not_mem_nil, fun v _ => rfl⟩
  | cons d ds ih =>
    intro σ σ' hn h
    simp only [List.map_cons, List.nodup_cons] at hn
    obtain ⟨hd, hn'⟩ := hn
    cases h1 : change σ d.1 d.2 with
    | err => simp only [changeAll, h1] at h; cases h
    | panic => simp only [changeAll, h1] at h; cases h
    | ok σ1 =>
      simp only [changeAll, h1] at h
      obtain ⟨iI, iin, iout⟩ := ih σ1 σ' hn' h
      obtain ⟨fI, foth⟩ := C09_frame σ σ1 d.1 d.2 0 0 0 0 0 (Or.inr (Or.inl h1))
      obtain ⟨or, oi, -⟩ := C09_frame_own σ σ1 d.1 d.2 (Or.inr h1)
      obtain ⟨σm, hm, rfl⟩ := change_ok σ σ1 d.1 d.2 h1
      obtain ⟨mI, -, -, -, -, mi, -, -⟩ := worth_sync σ σm d.1 hm
      obtain ⟨-, -, -, ws, -, -, -⟩ := worth_write σm d.1 d.2 (by rw [mi, mI])
      refine ⟨by rw [iI, fI], ?_, ?_⟩
      · intro e he
        rcases List.mem_cons.mp he with rfl | he
        · rw [iout e.1 hd]
          exact ⟨or, by rw [oi, fI], ws⟩
        · have hne : e.1 ≠ d.1 := fun hh => hd (hh ▸ List.mem_map_of_mem (f := Prod.fst) he)
          obtain ⟨a1, a2, a3⟩ := iin e he
          obtain ⟨b1, b2⟩ := foth e.1 hne
          exact ⟨by rw [a1, b1, b2], by rw [a2, fI], a3⟩
      · intro v hv
        simp only [List.map_cons, List.mem_cons, not_or] at hv
        rw [iout v hv.2, (foth v hv.1).1]

/-- Validator events anywhere in a history keep the premises of `C09_no_over_distribution` and `C09_integral`:
    every operation of the event is a hooked share change of a listed participant. -/
theorem C09_validator_event_hooked (us : List Addr) (ds : List (Addr × Int))
    (h : ∀ d ∈ ds, d.1 ∈ us ∧ 0 ≤ d.2) :
    (∀ o ∈ validatorEvent ds, o.hooked = true) ∧ (∀ o ∈ validatorEvent ds, o.okFor us) := by
  constructor
  · intro o ho
    obtain ⟨d, -, rfl⟩ := List.mem_map.mp ho
    rfl
  · intro o ho
    obtain ⟨d, hd, rfl⟩ := List.mem_map.mp ho
    exact h d hd

/-- …hence the total credited stays within the emission over any history with validator events in it
    (`pre`, `post`: any hooked operations — blocks, delegations, claims, further events). -/
theorem C09_validator_event_no_over_distribution (p : Period) (us : List Addr) (pre post : List Op)
    (ds : List (Addr × Int)) (σ0 : St)
    (hr : 0 ≤ p.rate) (hn : us.Nodup) (hs : shares us σ0 ≤ σ0.T) (hi : IdxLe σ0)
    (hd : ∀ d ∈ ds, d.1 ∈ us ∧ 0 ≤ d.2)
    (hh : ∀ o ∈ pre ++ post, o.hooked = true) (ho : ∀ o ∈ pre ++ post, o.okFor us) :
    let x := grun p (σ0, Ghost.zero) (pre ++ validatorEvent ds ++ post)
    2 * P * P * (sumOver us (fun a => (x.1.u a).r + pending x.1 a) + x.2.claimed) ≤
      2 * W us σ0 + x.2.emitted + (x.2.nsync + us.length) * (P * P + P) := by
  intro x
  obtain ⟨e1, e2⟩ := C09_validator_event_hooked us ds hd
  have hh' : ∀ o ∈ pre ++ validatorEvent ds ++ post, o.hooked = true := by
    intro o ho'
    simp only [List.mem_append] at ho' hh
    rcases ho' with (h1 | h1) | h1
    · exact hh o (Or.inl h1)
    · exact e1 o h1
    · exact hh o (Or.inr h1)
  have ho'' : ∀ o ∈ pre ++ validatorEvent ds ++ post, o.okFor us := by
    intro o ho'
    simp only [List.mem_append] at ho' ho
    rcases ho' with (h1 | h1) | h1
    · exact ho o (Or.inl h1)
    · exact e2 o h1
    · exact ho o (Or.inr h1)
  exact (C09_no_over_distribution p us _ σ0 hr hn hs hi hh' ho'').1

/-- non-vacuity: two delegators of a validator that leaves the bonded set (shares 5 and 7 → 0), a third one of
    another validator untouched: both are credited their pending reward, the third keeps its record -/
example : (match changeAll ⟨2 * P, 13 * P, 0, fun a => if a = 0 then ⟨5 * P, P, 1⟩ else if a = 1 then ⟨7 * P, 0, 0⟩ else ⟨P, 0, 4⟩⟩
      [(0, 0), (1, 0)] with
    | .ok σ' => decide (σ'.u 0 = ⟨0, 2 * P, 6⟩ ∧ σ'.u 1 = ⟨0, 2 * P, 14⟩ ∧ σ'.u 2 = ⟨P, 0, 4⟩ ∧ σ'.I = 2 * P)
    | _ => false) = true := by decide

/-! ## the premise "every share change is preceded by a sync with the pre-change shares",
       regenerated from the source modules on every run -/

/-- Every call that writes a share-bearing record in x/cdp, x/hard (deposits and borrows), x/swap and
    x/earn is preceded in its function by the `Before…Modified` hook (or, on the creating path, followed by
    the `After…Created` hook), or sits in a helper all of whose call sites are listed here themselves. -/
theorem C09_all_share_writes_hooked : ∀ w ∈ Gen.shareWrites, w.hookDominates = true := by decide

/-- app.go hands the incentive hooks to the staking, cdp, hard, swap and earn keepers; the hook bodies
    synchronise / initialise the matching claim; no Kava code writes x/staking delegations directly
    (so every delegation change passes through x/staking's own keeper and its hooks). -/
theorem C09_sources_wired :
    ("app.stakingKeeper", true) ∈ Gen.setHooksWiring ∧ ("cdpKeeper", true) ∈ Gen.setHooksWiring ∧
    ("hardKeeper", true) ∈ Gen.setHooksWiring ∧ ("swapKeeper", true) ∈ Gen.setHooksWiring ∧
    ("earnKeeper", true) ∈ Gen.setHooksWiring ∧
    ("BeforeCDPModified", "SynchronizeUSDXMintingReward") ∈ Gen.incentiveHookBodies ∧
    ("AfterCDPCreated", "InitializeUSDXMintingClaim") ∈ Gen.incentiveHookBodies ∧
    ("BeforeDepositModified", "SynchronizeHardSupplyReward") ∈ Gen.incentiveHookBodies ∧
    ("AfterDepositCreated", "InitializeHardSupplyReward") ∈ Gen.incentiveHookBodies ∧
    ("BeforeBorrowModified", "SynchronizeHardBorrowReward") ∈ Gen.incentiveHookBodies ∧
    ("AfterBorrowCreated", "InitializeHardBorrowReward") ∈ Gen.incentiveHookBodies ∧
    ("BeforeDelegationSharesModified", "SynchronizeDelegatorRewards") ∈ Gen.incentiveHookBodies ∧
    ("BeforeDelegationCreated", "InitializeDelegatorReward") ∈ Gen.incentiveHookBodies ∧
    ("BeforeValidatorSlashed", "SynchronizeDelegatorRewards") ∈ Gen.incentiveHookBodies ∧
    ("AfterValidatorBeginUnbonding", "SynchronizeDelegatorRewards") ∈ Gen.incentiveHookBodies ∧
    ("AfterValidatorBonded", "SynchronizeDelegatorRewards") ∈ Gen.incentiveHookBodies ∧
    ("BeforePoolDepositModified", "SynchronizeSwapReward") ∈ Gen.incentiveHookBodies ∧
    ("AfterPoolDepositCreated", "InitializeSwapReward") ∈ Gen.incentiveHookBodies ∧
    ("BeforeVaultDepositModified", "SynchronizeEarnReward") ∈ Gen.incentiveHookBodies ∧
    ("AfterVaultDepositCreated", "InitializeEarnReward") ∈ Gen.incentiveHookBodies ∧
    Gen.directDelegationWrites = [] := by
  refine ⟨?_, ?_, ?_, ?_, ?_, ?_, ?_, ?_, ?_, ?_, ?_, ?_, ?_, ?_, ?_, ?_, ?_, ?_, ?_, ?_, ?_⟩ <;> decide

/-- Savings is not a wired source: its two incentive hooks have empty bodies and app.go never calls
    SetHooks on the savings keeper (x/savings `Withdraw` indeed writes deposits with no hook at all). -/
theorem C09_savings_not_wired :
    Gen.savingsHookBodiesEmpty = true ∧ Gen.savingsHooksWired = false ∧
    ("AfterSavingsDepositCreated", "") ∈ Gen.incentiveHookBodies ∧
    ("BeforeSavingsDepositModified", "") ∈ Gen.incentiveHookBodies := by decide

/-! ## Non-vacuity: a concrete history meeting the hypotheses of the theorems above
    (period 0–100 s at 3 units/s; three users; blocks at 4.6 s, 10 s, 10 s again, 50.5 s, 150 s;
     a user created before anything accrues, one emptied and re-created, two changes in one block,
     a claim at multiplier 0.25). -/
def exPeriod : Period := ⟨0, 100 * NS, 3 * P⟩
def exStart : St := ⟨0, 0, 0, fun _ => ⟨0, 0, 0⟩⟩
def exOps : List Op :=
  [.change 0 (5 * P), .change 1 (7 * P + 1), .acc (4600000000), .change 2 (1000), .acc (10 * NS),
   .change 1 0, .change 0 (2 * P), .acc (10 * NS), .change 1 (3 * P), .acc (50500000000), .sync 2,
   .claim 0 (P / 4) (60 * NS) (70 * NS) 1000, .acc (150 * NS), .sync 1]

example : (∀ o ∈ exOps, o.hooked = true) ∧ (∀ o ∈ exOps, o.okFor [0, 1, 2]) := by decide
example : shares [0, 1, 2] exStart ≤ exStart.T ∧ 0 ≤ exPeriod.rate := by decide
example : Chain exStart.prev (accTimes exOps) := by decide
set_option maxRecDepth 8000 in
example :
    let x := grun exPeriod (exStart, Ghost.zero) exOps
    x.2.nsync = 9 ∧ x.2.claimed = 60 ∧ 0 < x.2.emitted ∧ x.1.prev = 100 * NS ∧
    (x.1.u 1).r = 179 ∧ (x.1.u 0).r = 0 ∧ pending x.1 0 = 60 := by decide
set_option maxRecDepth 8000 in
example : (claim (grun exPeriod (exStart, Ghost.zero) exOps).1 1 P (160 * NS) (200 * NS) 100000).isOk = true := by decide
example : claim (grun exPeriod (exStart, Ghost.zero) exOps).1 1 P (201 * NS) (200 * NS) 100000 = .err := by
  exact (C09_claim _ _ _ _ _ _).1 (by decide)

/-! ## source tie (regenerated)

    `GoFn.Incentive.*` (Generated/FnIncentive.lean) is regenerated on every run from the Go source of
    x/incentive/types/accumulator.go by the function translator (tools/extract/fn*.go); the theorem says that
    the regenerated definition IS the hand-written model function the theorems above are about.  A source
    edit re-opens this obligation.  Proof: Proofs/TieFnIncentive.lean. -/

/-- `getTimeElapsedWithinLimits` (with `minTime`, `maxTime` and the saturating `time.Time.Sub`) = `elapsed`,
    for ALL arguments; the two Go panics are the model's `none`. -/
theorem C09_source_tie_getTimeElapsedWithinLimits (prev now start stop : Int) :
    GoFn.Incentive.getTimeElapsedWithinLimits_translated = true ∧
    GoFn.Incentive.getTimeElapsedWithinLimits prev now start stop
      = Go.R.ofOption (elapsed prev now start stop) :=
  TieFn.incentive_getTimeElapsedWithinLimits prev now start stop

/-- `CalculateSingleReward` on Dec mantissas = `singleReward`; the model's `none` is `ErrDecreasingRewardFactor` -/
theorem C09_source_tie_CalculateSingleReward (old new shares : Int) :
    GoFn.Incentive.CalculateSingleReward_translated = true ∧
    GoFn.Incentive.CalculateSingleReward ⟨old⟩ ⟨new⟩ ⟨shares⟩
      = (match singleReward old new shares with | none => Go.R.err | some x => Go.R.ok x) :=
  TieFn.incentive_CalculateSingleReward old new shares

end KV.Acc
