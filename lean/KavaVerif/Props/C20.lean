/-
  C20 — Time-locked reward payouts unlock exactly on schedule; schedules stay valid.

  "A reward claimed with a lock-up is delivered so that the claimed coins become spendable exactly at the
   lock-up end and not before, while coins the recipient already held and the unlock times of previously
   locked coins are unchanged. The recipient's vesting schedule stays well formed: period amounts sum to
   the total originally locked and period lengths sum to end time minus start time. Payouts to module
   accounts or continuously vesting accounts, or exceeding the incentive account's balance, are refused
   without moving funds."

  Model: KavaVerif/Model/Vesting.lean (payout.go `SendTimeLockedCoinsToAccount`,
  `addCoinsToVestingSchedule`, `GetPeriodLength`; the SDK's periodic `GetVestedCoins`/`LockedCoins`; the
  bank's `spendableCoins`; a civil-calendar model).  The pay-day constants are the ones regenerated from
  payout.go (`KV.Gen.incentive…`).  Only property statements live here; helper lemmas are in
  KavaVerif/Proofs/Vesting.lean and KavaVerif/Proofs/VestingCalendar.lean.

  Quantification: every theorem is for all accounts (any number of periods, any lengths and amounts
  satisfying `WF`), all block times `now` (before the start, inside, on a boundary, after the end), all
  lock-up lengths `> 0`, all observation times `t ≥ now`, all denoms `d`, all amounts.
-/
import KavaVerif.Proofs.Vesting
import KavaVerif.Proofs.VestingCalendar
set_option linter.unusedSimpArgs false
set_option linter.unusedVariables false

namespace KV.Vest

/-! ## "the claimed coins become spendable exactly at the lock-up end and not before, while … the unlock
        times of previously locked coins are unchanged" -/

/-- Schedule level (`GetVestingCoins`): after `addCoinsToVestingSchedule` the coins still vesting at any
    time `t ≥ now` are exactly the old ones plus the claimed coins until `now + length`.  All five
    branches of the merge (schedule finished, not yet started, lock-up beyond the end, on a period
    boundary, inside a period), for every layout. -/
theorem C20_unlock_exact (now : Int) (a : PVA) (amt : Coins) (length : Int)
    (hwf : WF a) (hlen : 0 < length) (t : Int) (ht : now ≤ t) (d : Denom) :
    vesting (addCoins now a amt length) t d =
      vesting a t d + (if t < now + length then amt d else 0) :=
  addCoins_vesting now a amt length hwf hlen t ht d

/-- a base account is converted: its vesting coins are exactly the claimed coins until `now + length`
    (for every `t`, also before `now`) -/
theorem C20_unlock_exact_base (now : Int) (amt : Coins) (length : Int) (hlen : 0 < length) (t : Int) (d : Denom) :
    vesting (newPVA now amt length) t d = if t < now + length then amt d else 0 :=
  newPVA_vesting now amt length hlen t d

/-- "all … repeated claims": after any history of payouts (each with its own block time, coins and
    lock-up), at any time not before the payouts, the vesting coins are the original ones plus exactly
    those claimed coins whose lock-up has not ended. -/
theorem C20_unlock_exact_history (a : PVA) (cs : List Claim) (hwf : WF a) (hlen : ∀ c ∈ cs, 0 < c.length)
    (t : Int) (ht : ∀ c ∈ cs, c.now ≤ t) (d : Denom) :
    vesting (applyClaims a cs) t d = vesting a t d + stillLocked t cs d :=
  applyClaims_vesting cs a hwf hlen t ht d

/-- a concrete three-period account (start 100, end 130; 5 + 7 + 11 of denom 0, 2 of denom 1) used as
    witness that the hypotheses are satisfiable -/
def exAcct : PVA :=
  { start := 100, endT := 130,
    ov := fun d => if d = 0 then 23 else if d = 1 then 2 else 0,
    dv := fun _ => 0,
    periods := [⟨10, fun d => if d = 0 then 5 else 0⟩, ⟨10, fun d => if d = 0 then 7 else if d = 1 then 2 else 0⟩,
                ⟨10, fun d => if d = 0 then 11 else 0⟩] }

theorem C20_witness_wf : WF exAcct := by
  refine ⟨by decide, ⟨by decide, by decide, by decide, trivial⟩, by decide, ?_⟩
  intro d
  simp only [exAcct, totalAmt]
  split
  · rename_i h; subst h; simp
  · split
    · rename_i h; subst h; simp
    · rename_i h1 h2; simp [h1]

/-- non-vacuity: inside a period (now = 112, unlock at 117 splits the second period) -/
example : (addCoins 112 exAcct (fun _ => 9) 5).periods.map (·.length) = [10, 7, 3, 10] := by decide
/-- non-vacuity: on a boundary, beyond the end, before the start, after the end -/
example : (addCoins 112 exAcct (fun _ => 9) 8).periods.map (·.length) = [10, 10, 10] := by decide
example : (addCoins 112 exAcct (fun _ => 9) 30).periods.map (·.length) = [10, 10, 10, 12] := by decide
example : (addCoins 90 exAcct (fun _ => 9) 15).periods.map (·.length) = [15, 5, 10, 10] := by decide
example : (addCoins 140 exAcct (fun _ => 9) 5).periods.map (·.length) = [10, 10, 10, 15] := by decide

/-! ## "The recipient's vesting schedule stays well formed" -/

/-- `WF` = start before end, all lengths positive, Σ lengths = end − start, Σ amounts = original vesting;
    preserved by every payout, and the original vesting grows by exactly the claimed coins. -/
theorem C20_wellformed_preserved (now : Int) (a : PVA) (amt : Coins) (length : Int)
    (hwf : WF a) (hlen : 0 < length) :
    WF (addCoins now a amt length) ∧ (∀ d, (addCoins now a amt length).ov d = a.ov d + amt d) ∧
    (addCoins now a amt length).dv = a.dv :=
  ⟨addCoins_WF now a amt length hwf hlen, fun d => by rw [addCoins_ov]; rfl, addCoins_dv now a amt length⟩

theorem C20_wellformed_base (now : Int) (amt : Coins) (length : Int) (hlen : 0 < length) :
    WF (newPVA now amt length) ∧ (newPVA now amt length).ov = amt :=
  ⟨newPVA_WF now amt length hlen, rfl⟩

theorem C20_wellformed_history (a : PVA) (cs : List Claim) (hwf : WF a) (hlen : ∀ c ∈ cs, 0 < c.length) :
    WF (applyClaims a cs) ∧ ∀ d, (applyClaims a cs).ov d = a.ov d + (cs.map (fun c => c.amt d)).sum :=
  ⟨applyClaims_WF cs a hwf hlen, fun d => applyClaims_ov cs a d⟩

/-- The hypothesis `start < end` (which `PeriodicVestingAccount.Validate` enforces, and which makes the
    period list non-empty) is needed: on an empty schedule whose start lies in the future the merge loop
    has nothing to insert into and the claimed coins are not locked at all. Such an account cannot be
    produced by genesis validation, by the (ante-blocked) vesting messages or by this module. -/
theorem C20_wellformed_needs_periods :
    let a : PVA := ⟨50, 50, fun _ => 0, fun _ => 0, []⟩
    (addCoins 10 a (fun _ => 9) 5).periods.length = 0 ∧ (addCoins 10 a (fun _ => 9) 5).ov 0 = 9 := by
  decide

/-! ## bank level: `LockedCoins` and spendable coins -/

/- Full statement (false on the current code, which is the SDK's delegated-vesting accounting):
     ∀ now a amt length t d, WF a → 0 < length → now ≤ t → 0 ≤ amt d →
       locked (addCoins now a amt length) t d = locked a t d + (if t < now + length then amt d else 0)
   `LockedCoins = vesting − min(vesting, DelegatedVesting)`: when the account has more coins recorded as
   delegated-vesting than are still vesting (it staked locked coins that have since vested and never
   unbonded them), the surplus absorbs newly locked coins, so they are spendable at once. -/
theorem C20_locked_exact_counterexample :
    ¬ (∀ (now : Int) (a : PVA) (amt : Coins) (length t : Int) (d : Denom),
        WF a → 0 < length → now ≤ t → 0 ≤ amt d →
        locked (addCoins now a amt length) t d = locked a t d + (if t < now + length then amt d else 0)) := by
  intro h
  have hwf : WF ⟨0, 10, fun _ => 100, fun _ => 100, [⟨10, fun _ => 100⟩]⟩ :=
    ⟨by decide, ⟨by decide, trivial⟩, by decide, fun _ => by simp [totalAmt]⟩
  have := h 20 ⟨0, 10, fun _ => 100, fun _ => 100, [⟨10, fun _ => 100⟩]⟩ (fun _ => 50) 5 20 0
    hwf (by decide) (by decide) (by decide)
  revert this
  decide

/-- strongest true statement (1): if the delegated-vesting record does not exceed the coins still vesting
    at `t`, the bank-level lock at `t` grows by exactly the claimed coins until `now + length`. -/
theorem C20_locked_exact_partial (now : Int) (a : PVA) (amt : Coins) (length : Int)
    (hwf : WF a) (hlen : 0 < length) (t : Int) (ht : now ≤ t) (d : Denom)
    (hamt : 0 ≤ amt d) (hdv : a.dv d ≤ vesting a t d) :
    locked (addCoins now a amt length) t d =
      locked a t d + (if t < now + length then amt d else 0) :=
  addCoins_locked_exact now a amt length hwf hlen t ht d hamt hdv

/-- strongest true statement (2), unconditional: no previously locked coin is released earlier, never more
    than the claimed coins is added, and nothing is added from `now + length` on. -/
theorem C20_locked_bounds (now : Int) (a : PVA) (amt : Coins) (length : Int)
    (hwf : WF a) (hlen : 0 < length) (t : Int) (ht : now ≤ t) (d : Denom) (hamt : 0 ≤ amt d) :
    locked a t d ≤ locked (addCoins now a amt length) t d ∧
    locked (addCoins now a amt length) t d ≤ locked a t d + (if t < now + length then amt d else 0) :=
  addCoins_locked_bounds now a amt length hwf hlen t ht d hamt

/-- non-vacuity of the partial statement: the witness account has nothing delegated, and its vesting
    coins are never negative (denom 0 at t = 112: 23 − 5 = 18 still vesting) -/
example : exAcct.dv 0 ≤ vesting exAcct 112 0 ∧ vesting exAcct 112 0 = 18 := by decide

/-! ## `SendTimeLockedCoinsToAccount`: dispatch, refusals, frame -/

/-- "exceeding the incentive account's balance [is] refused": checked first, for every recipient kind,
    lock-up or not. (A refusal is `.err` here: this transactional model carries no post-state for it. That
    the keeper call itself has moved nothing when it returns the error is `C20_refused_no_move` below, over
    the rollback-free model `sendTimeLockedK`, and is evaluated on the implementation by the harness.) -/
theorem C20_dispatch_insufficient (now : Int) (w : World) (amt : Coins) (length : Int)
    (h : isAllGTE w.modBal amt = false) : sendTimeLocked now w amt length = .err :=
  sendTimeLocked_insufficient now w amt length h

/-- "Payouts to module accounts or continuously vesting accounts … are refused": with a lock-up, every
    recipient other than a base account or a periodic vesting account is refused (module, continuous,
    delayed, permanent-locked, any other account type, no account). -/
theorem C20_dispatch_refused (now : Int) (w : World) (amt : Coins) (length : Int) (hl : length ≠ 0) :
    (w.acct = .module ∨ w.acct = .continuous ∨ w.acct = .delayed ∨ w.acct = .permanent ∨
      w.acct = .other ∨ w.acct = .none) → sendTimeLocked now w amt length = .err := by
  intro h
  apply sendTimeLocked_refused_kind now w amt length hl
  rcases h with h | h | h | h | h | h <;> rw [h] <;> rfl

/-- recipients on the bank's blocked list are refused -/
theorem C20_dispatch_blocked (now : Int) (w : World) (amt : Coins) (length : Int)
    (hb : w.blocked = true) : sendTimeLocked now w amt length = .err :=
  sendTimeLocked_blocked now w amt length hb

/-- every other payout with a lock-up succeeds, moves exactly `amt` from the module account to the
    recipient, and turns the recipient into the periodic vesting account described above. -/
theorem C20_dispatch_ok (now : Int) (w : World) (amt : Coins) (length : Int)
    (hl : length ≠ 0) (hs : isAllGTE w.modBal amt = true) (hb : w.blocked = false)
    (hk : w.acct = .base ∨ ∃ a, w.acct = .periodic a) :
    sendTimeLocked now w amt length =
      .ok { w with modBal := Coins.sub w.modBal amt, bal := Coins.add w.bal amt,
                   acct := w.acct.after now amt length } := by
  apply sendTimeLocked_lock_ok now w amt length hl hs hb
  rcases hk with h | ⟨a, h⟩ <;> rw [h] <;> rfl

/-- success and refusal are exhaustive and exclusive for a lock-up payout -/
theorem C20_dispatch_iff (now : Int) (w : World) (amt : Coins) (length : Int) (hl : length ≠ 0) :
    (sendTimeLocked now w amt length).isOk = true ↔
      (isAllGTE w.modBal amt = true ∧ w.blocked = false ∧ w.acct.lockable = true) := by
  constructor
  · intro h
    cases hs : isAllGTE w.modBal amt
    · rw [sendTimeLocked_insufficient now w amt length hs] at h; exact absurd h (by decide)
    · cases hb : w.blocked
      · cases hk : w.acct.lockable
        · rw [sendTimeLocked_refused_kind now w amt length hl hk] at h; exact absurd h (by decide)
        · exact ⟨rfl, rfl, rfl⟩
      · rw [sendTimeLocked_blocked now w amt length hb] at h; exact absurd h (by decide)
  · intro ⟨hs, hb, hk⟩
    rw [sendTimeLocked_lock_ok now w amt length hl hs hb hk]; rfl

/-- a concrete world: module account holds (500, 40), recipient holds (7, 0) -/
def exWorld (k : Acct) (blocked : Bool) : World :=
  { modBal := fun d => if d = 0 then 500 else if d = 1 then 40 else 0,
    bal := fun d => if d = 0 then 7 else 0, acct := k, blocked := blocked }
def exAmt : Coins := fun d => if d = 0 then 9 else if d = 1 then 40 else 0

/-- non-vacuity: each clause of the dispatch theorems is met by a concrete payout -/
example : (sendTimeLocked 112 (exWorld (.periodic exAcct) false) exAmt 5).isOk = true := by decide
example : (sendTimeLocked 112 (exWorld .base false) exAmt 5).isOk = true := by decide
example : (sendTimeLocked 112 (exWorld .continuous false) exAmt 5).isOk = false := by decide
example : (sendTimeLocked 112 (exWorld .module false) exAmt 5).isOk = false := by decide
example : (sendTimeLocked 112 (exWorld .module false) exAmt 0).isOk = true := by decide
example : (sendTimeLocked 112 (exWorld .base true) exAmt 5).isOk = false := by decide
example : isAllGTE (exWorld .base false).modBal (fun d => if d = 1 then 41 else 0) = false ∧
    (sendTimeLocked 112 (exWorld .base false) (fun d => if d = 1 then 41 else 0) 5).isOk = false := by decide

/-! ## Refusals move nothing — on the keeper's own context, without any rollback

`sendTimeLockedK` returns what the keeper's context holds after the call. The bank underneath debits the
sender coin by coin and stores every new balance before it looks at the next coin (`subUnlockedFrom`), so a
bank-level failure in the middle of a multi-denom amount leaves earlier denoms debited. -/

/-- "… exceeding the incentive account's balance are refused without moving funds": EVERY refusal of the
    keeper call (whatever the reason: module balance short in any denom, recipient blocked, missing or of a
    refused kind; any lock-up length incl. 0; amounts with any number of denoms) leaves the module account's
    balances, the recipient's balances and the recipient's account (type, vesting schedule) exactly as they
    were. No rollback is assumed. -/
theorem C20_refused_no_move (now : Int) (w : World) (amt : Coins) (length : Int)
    (h : (sendTimeLockedK now w amt length).2 = false) : (sendTimeLockedK now w amt length).1 = w :=
  sendTimeLockedK_refused_unchanged now w amt length h

/-- multi-denom amounts: exceeding the module account's balance in ANY ONE denom (the denom may be absent
    from the module account altogether, the other denoms may be amply covered) ⇒ error and state unchanged,
    for every recipient kind and every lock-up length -/
theorem C20_refused_exceeds_any_denom (now : Int) (w : World) (amt : Coins) (length : Int)
    (d : Denom) (hd : d < ND) (h : w.modBal d < amt d) :
    sendTimeLockedK now w amt length = (w, false) :=
  sendTimeLockedK_exceeds now w amt length d hd h

/-- the rollback-free semantics and the transactional one (`sendTimeLocked`, used by the dispatch theorems)
    agree: same verdict, and on success the same post-state -/
theorem C20_keeper_context_refines (now : Int) (w : World) (amt : Coins) (length : Int)
    (hsupp : ∀ d, ND ≤ d → amt d = 0) :
    sendTimeLocked now w amt length =
      if (sendTimeLockedK now w amt length).2 then .ok (sendTimeLockedK now w amt length).1 else .err :=
  sendTimeLockedK_refines now w amt length hsupp

/-- module account holds 1000 of denom 0 and nothing else; the payout asks for 100 of denom 0 and 100 of denom 2 -/
def gapWorld (k : Acct) : World :=
  { modBal := fun d => if d = 0 then 1000 else 0, bal := fun _ => 0, acct := k, blocked := false }
def gapAmt : Coins := fun d => if d = 0 then 100 else if d = 2 then 100 else 0

/-- The guard over ALL denoms is what makes the refusal clean: the bank on its own, given the same
    over-balance two-denom amount, answers with an error *after* it has debited the covered denom (the module
    account is left with 900, the recipient got nothing). A guard that lets an amount through whose denom is
    absent from the module account therefore breaks `C20_refused_no_move`. -/
theorem C20_bank_alone_moves_funds_on_refusal :
    (bankSendK (gapWorld .base) gapAmt).2 = false ∧ (bankSendK (gapWorld .base) gapAmt).1.modBal 0 = 900 ∧
      (bankSendK (gapWorld .base) gapAmt).1.bal 0 = 0 := by decide

/-- non-vacuity: the keeper refuses that payout for base and periodic recipients, with and without a
    lock-up, and its context still holds the 1000 -/
example : (sendTimeLockedK 112 (gapWorld .base) gapAmt 5).2 = false ∧
    (sendTimeLockedK 112 (gapWorld .base) gapAmt 5).1.modBal 0 = 1000 := by decide
example : (sendTimeLockedK 112 (gapWorld (.periodic exAcct)) gapAmt 5).2 = false ∧
    (sendTimeLockedK 112 (gapWorld (.periodic exAcct)) gapAmt 0).2 = false ∧
    (sendTimeLockedK 112 (gapWorld (.periodic exAcct)) gapAmt 0).1.modBal 0 = 1000 := by decide
/-- … and a covered multi-denom payout goes through in the rollback-free semantics as well -/
example : (sendTimeLockedK 112 (exWorld .base false) exAmt 5).2 = true ∧
    (sendTimeLockedK 112 (exWorld .base false) exAmt 5).1.modBal 0 = 491 ∧
    (sendTimeLockedK 112 (exWorld .base false) exAmt 5).1.modBal 1 = 0 ∧
    (sendTimeLockedK 112 (exWorld .base false) exAmt 5).1.bal 1 = 40 := by decide

/-- Keeper level, all together: a successful lock-up payout to a base account or a well-formed periodic
    vesting account leaves the recipient with a well-formed periodic vesting account whose vesting coins at
    every `t ≥ now` are the previous ones plus the claimed coins until `now + length`; the module account
    pays exactly `amt` and the recipient's balance grows by exactly `amt`. -/
theorem C20_payout (now : Int) (w w' : World) (amt : Coins) (length : Int) (hlen : 0 < length)
    (hwf : ∀ a, w.acct = .periodic a → WF a)
    (hok : sendTimeLocked now w amt length = .ok w') :
    (∀ t d, now ≤ t → w'.acct.vesting t d = w.acct.vesting t d + (if t < now + length then amt d else 0)) ∧
    (∃ a', w'.acct = .periodic a' ∧ WF a') ∧
    (∀ d, w'.modBal d = w.modBal d - amt d) ∧ (∀ d, w'.bal d = w.bal d + amt d) := by
  have hl : length ≠ 0 := by omega
  have hiff := (C20_dispatch_iff now w amt length hl).1 (by rw [hok]; rfl)
  obtain ⟨hs, hb, hk⟩ := hiff
  rw [sendTimeLocked_lock_ok now w amt length hl hs hb hk] at hok
  injection hok with hok
  subst hok
  refine ⟨?_, ?_, fun d => rfl, fun d => rfl⟩
  · intro t d ht
    cases hacct : w.acct <;> rw [hacct] at hk <;> simp only [Acct.lockable] at hk <;>
      first
      | exact absurd hk (by decide)
      | skip
    · simp only [Acct.after, Acct.vesting]
      rw [newPVA_vesting now amt length hlen t d]; omega
    · rename_i a
      simp only [Acct.after, Acct.vesting]
      exact addCoins_vesting now a amt length (hwf a hacct) hlen t ht d
  · cases hacct : w.acct <;> rw [hacct] at hk <;> simp only [Acct.lockable] at hk <;>
      first
      | exact absurd hk (by decide)
      | skip
    · exact ⟨newPVA now amt length, rfl,
        newPVA_WF now amt length hlen⟩
    · rename_i a
      exact ⟨addCoins now a amt length, rfl,
        addCoins_WF now a amt length (hwf a hacct) hlen⟩

/-- "coins the recipient already held … are unchanged": at every `t ≥ now` the spendable coins (bank rule
    `balance − LockedCoins`) are the previous spendable coins, plus the claimed coins from `now + length`
    on. Stated for accounts whose delegated-vesting record does not exceed their vesting coins (see
    `C20_locked_exact_counterexample`) and whose locked coins are covered by the balance (bank invariant). -/
theorem C20_held_coins_untouched (now : Int) (a : PVA) (bal amt : Coins) (length : Int)
    (hwf : WF a) (hlen : 0 < length) (t : Int) (ht : now ≤ t)
    (hamt : ∀ e, 0 ≤ amt e) (hdv : ∀ e, a.dv e ≤ vesting a t e) (hbal : ∀ e, locked a t e ≤ bal e) (d : Denom) :
    spendable (Coins.add bal amt) (locked (addCoins now a amt length) t) d =
      spendable bal (locked a t) d + (if t < now + length then 0 else amt d) := by
  have hl : ∀ e, locked (addCoins now a amt length) t e = locked a t e + (if t < now + length then amt e else 0) :=
    fun e => addCoins_locked_exact now a amt length hwf hlen t ht e (hamt e) (hdv e)
  rw [spendable_noNeg bal (locked a t) hbal d,
      spendable_noNeg (Coins.add bal amt) (locked (addCoins now a amt length) t)
        (by intro e; rw [hl e]; have := hbal e; have := hamt e; simp only [Coins.add]; split <;> omega) d,
      hl d]
  simp only [Coins.add]
  split <;> omega

/-! ## pay days: `GetPeriodLength` -/

namespace Cal

/-- the pay-day constants of the property prose are the ones in payout.go -/
theorem C20_payday_constants : BeginningOfMonth = 1 ∧ MidMonth = 15 ∧ PaymentHour = 14 := by decide

/-- "pay dates are always the 1st or 15th of the month at 14:00 UTC": for a positive number of months the
    end of the lock-up `now + GetPeriodLength(now, months)` is, in the model calendar, the 15th (when `now`
    is before the 15th 14:00 of its month) or the 1st (otherwise) of the month `months` (resp. `months+1`)
    months after the month of `now`, at 14:00:00. -/
theorem C20_payday (now months : Int) (hm : 0 < months) :
    ∃ len, getPeriodLength now months = .ok len ∧
      civilFromDays ((now + len) / 86400) = ⟨(payMonthOf now months).1, (payMonthOf now months).2, payDayOf now⟩ ∧
      (payDayOf now = 1 ∨ payDayOf now = 15) ∧
      (now + len) % 86400 = 14 * 3600 ∧
      12 * (payMonthOf now months).1 + (payMonthOf now months).2 =
        12 * (civilFromDays (now / 86400)).y + (civilFromDays (now / 86400)).m + months + payOffOf now ∧
      1 ≤ (payMonthOf now months).2 ∧ (payMonthOf now months).2 ≤ 12 := by
  refine ⟨payDate now months - now, ?_, ?_⟩
  · unfold getPeriodLength
    have h1 : ¬ months < 0 := by omega
    have h2 : ¬ months = 0 := by omega
    simp only [h1, h2, ite_false]
  · have e : now + (payDate now months - now) = payDate now months := by omega
    rw [e]
    obtain ⟨c1, c2⟩ := payDate_civil now months
    obtain ⟨n1, n2, n3⟩ := normMonth_index (civilFromDays (now / 86400)).y
      ((civilFromDays (now / 86400)).m + (months + payOffOf now))
    refine ⟨c1, ?_, by rw [c2, Hour_val], ?_, n2, n3⟩
    · rcases payDayOf_cases now with h | h
      · exact Or.inr h
      · exact Or.inl h
    · unfold payMonthOf; omega

/-- the lock-up is strictly positive: the pay date lies strictly after the block time -/
theorem C20_payday_after (now months : Int) (hm : 0 < months) :
    ∃ len, getPeriodLength now months = .ok len ∧ 0 < len := by
  refine ⟨payDate now months - now, ?_, ?_⟩
  · unfold getPeriodLength
    have h1 : ¬ months < 0 := by omega
    have h2 : ¬ months = 0 := by omega
    simp only [h1, h2, ite_false]
  · have := payDate_after now months hm; omega

/-- monotone in the number of months (strictly: each extra month adds at least 28 days); zero months is
    no lock-up; negative months panic -/
theorem C20_payday_monotone (now m1 m2 : Int) (h0 : 0 ≤ m1) (h : m1 ≤ m2) :
    ∃ l1 l2, getPeriodLength now m1 = .ok l1 ∧ getPeriodLength now m2 = .ok l2 ∧ l1 ≤ l2 ∧
      (0 < m1 → l1 + 28 * 86400 * (m2 - m1) ≤ l2) := by
  unfold getPeriodLength
  have a1 : ¬ m1 < 0 := by omega
  have a2 : ¬ m2 < 0 := by omega
  simp only [a1, a2, ite_false]
  by_cases z1 : m1 = 0
  · by_cases z2 : m2 = 0
    · exact ⟨0, 0, by simp only [z1, ite_true], by simp only [z2, ite_true], by omega, by omega⟩
    · have := payDate_after now m2 (by omega)
      exact ⟨0, payDate now m2 - now, by simp only [z1, ite_true], by simp only [z2, ite_false], by omega, by omega⟩
  · have z2 : ¬ m2 = 0 := by omega
    have := payDate_mono now m1 m2 h
    refine ⟨payDate now m1 - now, payDate now m2 - now, by simp only [z1, ite_false], by simp only [z2, ite_false],
      by omega, fun _ => by omega⟩

theorem C20_payday_zero_and_negative (now months : Int) :
    (months = 0 → getPeriodLength now months = .ok 0) ∧ (months < 0 → getPeriodLength now months = .panic) := by
  unfold getPeriodLength
  constructor
  · intro h; subst h; rfl
  · intro h; simp only [h, ite_true]

/-- the calendar model used above is the proleptic Gregorian calendar: day numbers and civil dates are in
    bijection, day 0 is 1970-01-01, and months have their Gregorian lengths (leap years by the
    4/100/400 rule) -/
theorem C20_calendar (z y m d : Int) :
    daysFromCivil (civilFromDays z).y (civilFromDays z).m (civilFromDays z).d = z ∧
    (1 ≤ m → m ≤ 12 → 1 ≤ d → d ≤ daysInMonth y m → civilFromDays (daysFromCivil y m d) = ⟨y, m, d⟩) ∧
    daysFromCivil 1970 1 1 = 0 ∧
    daysFromCivil y m (d + 1) = daysFromCivil y m d + 1 ∧
    (1 ≤ m → m ≤ 11 → daysFromCivil y (m + 1) 1 = daysFromCivil y m 1 + daysInMonth y m) ∧
    daysFromCivil (y + 1) 1 1 = daysFromCivil y 12 1 + 31 :=
  ⟨daysFromCivil_civilFromDays z, civilFromDays_daysFromCivil y m d, epoch, next_day y m d,
   month_length y m, december_length y⟩

/-- non-vacuity / sanity on literals: 2024-01-01 00:00 with 1 month pays 2024-02-15 14:00;
    2024-01-15 14:00 with 1 month pays 2024-03-01 14:00 -/
example : getPeriodLength 1704067200 1 = .ok (1708005600 - 1704067200) := by decide
example : getPeriodLength 1705327200 1 = .ok (1709301600 - 1705327200) := by decide
example : getPeriodLength 1705327199 12 = .ok (1736949600 - 1705327199) := by decide

end Cal

end KV.Vest
